import FsModel.Os
import FsProofs.Lemmas.TreeLemmas
import FsProofs.Lemmas.QueryLemmas
import FsProofs.Lemmas.MemLemmas
/-!
  Helper lemmas for `FsProofs/OsRefines.lean`: the POSIX model (`FsModel/Posix.lean`) expressed
  through `Node.get` / `blockedByFile`, the facts about the GENERATED errno table that the proofs
  use (each a `decide`, re-checked whenever the table changes), and OSFS (`FsModel/Os.lean`) method
  by method against `Mem` (where the two coincide) or directly against `Ref.step1/step2`.
-/
namespace Fs.OsLemmas
open Fs Fs.Ref Fs.Posix Fs.TreeLemmas Fs.MemLemmas
set_option linter.unusedSimpArgs false
set_option linter.unusedSectionVars false
set_option linter.unusedVariables false

/-! ### path resolution, through `Node.get` -/

theorem stat_aux (t : Node) : ∀ (cs pre : List Name) (n : Node), t.get pre = some n →
    Posix.stat n cs = match n.get cs with
      | some m => .ok m
      | none => .error (if blockedByFile t pre cs then .ENOTDIR else .ENOENT) := by
  intro cs
  induction cs with
  | nil => intro pre n _; simp [Posix.stat, Node.get]
  | cons c cs ih =>
    intro pre n hn
    cases n with
    | file b => simp [Posix.stat, Node.get, blockedByFile, hn]
    | dir es =>
      cases hl : Ents.lookup c es with
      | none =>
        have hnone : t.get (pre ++ [c]) = none := by
          rw [get_append, hn]; simp [Node.get, hl]
        simp only [Posix.stat, Node.get, hl, blockedByFile, hn, Bool.false_or]
        split
        · simp
        · simp [blocked_of_none t _ cs hnone]
      | some ch =>
        have hch : t.get (pre ++ [c]) = some ch := by
          rw [get_append, hn]; simp [Node.get, hl]
        simp only [Posix.stat, Node.get, hl, blockedByFile, hn, Bool.false_or]
        rw [ih (pre ++ [c]) ch hch]
        cases cs with
        | nil => simp [Node.get]
        | cons d ds => simp

/-- `stat` = `Node.get`, with the errno read off `blockedByFile` -/
theorem stat_eq (t : Node) (cs : List Name) :
    Posix.stat t cs = match t.get cs with
      | some m => .ok m
      | none => .error (if blockedByFile t [] cs then .ENOTDIR else .ENOENT) :=
  stat_aux t cs [] t rfl

theorem stat_some {t : Node} {cs : List Name} {n : Node} (h : t.get cs = some n) :
    Posix.stat t cs = .ok n := by rw [stat_eq, h]

theorem stat_none {t : Node} {cs : List Name} (h : t.get cs = none) :
    Posix.stat t cs = .error (if blockedByFile t [] cs then .ENOTDIR else .ENOENT) := by
  rw [stat_eq, h]

theorem pathExists_eq (t : Node) (cs : List Name) : Posix.pathExists t cs = (t.get cs).isSome := by
  unfold Posix.pathExists
  rw [stat_eq]
  cases t.get cs <;> rfl

theorem pathIsdir_eq (t : Node) (cs : List Name) :
    Posix.pathIsdir t cs = (match t.get cs with | some (.dir _) => true | _ => false) := by
  unfold Posix.pathIsdir
  rw [stat_eq]
  cases h : t.get cs with
  | none => rfl
  | some n => cases n <;> rfl

/-! ### `blockedByFile` in the situations of a path -/

theorem blocked_split (t : Node) (cs : List Name) (hne : cs ≠ []) :
    blockedByFile t [] cs = (blockedByFile t [] cs.dropLast || isFileAt t cs.dropLast) := by
  have := blocked_snoc t [] cs.dropLast (cs.getLast?.getD [])
  rw [split_last cs hne] at this
  simpa using this

theorem blocked_parent_dir {t : Node} {cs : List Name} {es : Ents} (hne : cs ≠ [])
    (hp : t.get cs.dropLast = some (.dir es)) : blockedByFile t [] cs = false := by
  rw [blocked_split t cs hne, not_blocked_of_get t _ [] cs.dropLast (by simpa using hp),
    isFileAt_false_of_dir hp]
  rfl

theorem blocked_parent_file {t : Node} {cs : List Name} {b : Bytes} (hne : cs ≠ [])
    (hp : t.get cs.dropLast = some (.file b)) : blockedByFile t [] cs = true := by
  rw [blocked_split t cs hne, isFileAt_of_file hp]
  simp

theorem blocked_parent_none {t : Node} {cs : List Name} (hne : cs ≠ [])
    (hp : t.get cs.dropLast = none) : blockedByFile t [] cs = blockedByFile t [] cs.dropLast := by
  rw [blocked_split t cs hne, isFileAt_false_of_none hp]
  simp

theorem blocked_present {t : Node} {cs : List Name} {n : Node} (h : t.get cs = some n) :
    blockedByFile t [] cs = false :=
  not_blocked_of_get t n [] cs (by simpa using h)

/-! ### the GENERATED table, as far as the model can exercise it

One `decide` per (call site, errno the POSIX model can return there).  These are the facts that are
re-proved whenever `fs/error_tools.py` or the wrappers in `fs/osfs.py` change. -/

section table
open Fs.Os

theorem tbl_getinfo_ENOENT : conv "getinfo" "os.stat" .ENOENT = .ResourceNotFound := by decide
theorem tbl_getinfo_ENOTDIR : conv "getinfo" "os.stat" .ENOTDIR = .ResourceNotFound := by decide
theorem tbl_gettype_ENOENT : conv "gettype" "os.stat" .ENOENT = .ResourceNotFound := by decide
theorem tbl_gettype_ENOTDIR : conv "gettype" "os.stat" .ENOTDIR = .ResourceNotFound := by decide
theorem tbl_listdir_ENOENT : conv "listdir" "os.listdir" .ENOENT = .ResourceNotFound := by decide
theorem tbl_listdir_ENOTDIR : conv "listdir" "os.listdir" .ENOTDIR = .DirectoryExpected := by decide
theorem tbl_scandir_ENOENT : conv "_scandir" "scandir" .ENOENT = .ResourceNotFound := by decide
theorem tbl_scandir_ENOTDIR : conv "_scandir" "scandir" .ENOTDIR = .DirectoryExpected := by decide
theorem tbl_makedir_ENOTDIR : conv "makedir" "os.mkdir" .ENOTDIR = .DirectoryExpected := by decide
theorem tbl_makedir_EEXIST : conv "makedir" "os.mkdir" .EEXIST = .DirectoryExists := by decide
theorem tbl_openbin_ENOENT : conv "openbin" "io.open" .ENOENT = .ResourceNotFound := by decide
theorem tbl_openbin_ENOTDIR : conv "openbin" "io.open" .ENOTDIR = .ResourceNotFound := by decide
theorem tbl_openbin_EEXIST : conv "openbin" "io.open" .EEXIST = .FileExists := by decide
theorem tbl_openbin_EISDIR : conv "openbin" "io.open" .EISDIR = .FileExpected := by decide
theorem tbl_open_ENOENT : conv "open" "io.open" .ENOENT = .ResourceNotFound := by decide
theorem tbl_open_ENOTDIR : conv "open" "io.open" .ENOTDIR = .ResourceNotFound := by decide
theorem tbl_open_EEXIST : conv "open" "io.open" .EEXIST = .FileExists := by decide
theorem tbl_open_EISDIR : conv "open" "io.open" .EISDIR = .FileExpected := by decide
theorem tbl_remove_ENOENT : conv "remove" "os.remove" .ENOENT = .ResourceNotFound := by decide
theorem tbl_remove_ENOTDIR : conv "remove" "os.remove" .ENOTDIR = .ResourceNotFound := by decide
theorem tbl_remove_EISDIR : conv "remove" "os.remove" .EISDIR = .FileExpected := by decide
theorem tbl_removedir_ENOENT : conv "removedir" "os.rmdir" .ENOENT = .ResourceNotFound := by decide
theorem tbl_removedir_ENOTDIR : conv "removedir" "os.rmdir" .ENOTDIR = .DirectoryExpected := by decide
theorem tbl_removedir_ENOTEMPTY : conv "removedir" "os.rmdir" .ENOTEMPTY = .DirectoryNotEmpty := by decide
theorem tbl_removetree_ENOENT : conv "removetree" "self._remove_contents" .ENOENT = .ResourceNotFound := by decide
theorem tbl_removetree_ENOTDIR : conv "removetree" "self._remove_contents" .ENOTDIR = .DirectoryExpected := by decide

/-- `conv` commutes with the errno choice of `stat_eq` -/
theorem conv_ite (m c : String) (b : Bool) (x y : Errno) :
    conv m c (if b = true then x else y) = if b = true then conv m c x else conv m c y := by
  cases b <;> rfl

end table

/-! ### OSFS methods on validated components, through `Node.get` -/

section comps
open Fs.Os

theorem getinfoC_eq (s : State) (cs : List Name) :
    Os.getinfoC s cs = match s.root.get cs with
      | none => .err .ResourceNotFound
      | some (.dir _) => .ok (lastName cs, true, 0)
      | some (.file b) => .ok (lastName cs, false, b.length) := by
  unfold Os.getinfoC
  rw [stat_eq]
  cases h : s.root.get cs with
  | none => cases blockedByFile s.root [] cs <;> simp [tbl_getinfo_ENOENT, tbl_getinfo_ENOTDIR]
  | some n => cases n <;> rfl

theorem gettypeC_eq (s : State) (cs : List Name) :
    Os.gettypeC s cs = match s.root.get cs with
      | none => .err .ResourceNotFound
      | some (.dir _) => .ok 1
      | some (.file _) => .ok 2 := by
  unfold Os.gettypeC
  rw [stat_eq]
  cases h : s.root.get cs with
  | none => cases blockedByFile s.root [] cs <;> simp [tbl_gettype_ENOENT, tbl_gettype_ENOTDIR]
  | some n => cases n <;> rfl

theorem existsC_eq (s : State) (cs : List Name) : Os.existsC s cs = .ok (s.root.get cs).isSome := by
  unfold Os.existsC
  rw [getinfoC_eq]
  cases h : s.root.get cs with
  | none => rfl
  | some n => cases n <;> rfl

theorem isdirC_eq (s : State) (cs : List Name) :
    Os.isdirC s cs = .ok (match s.root.get cs with | some (.dir _) => true | _ => false) := by
  unfold Os.isdirC
  rw [getinfoC_eq]
  cases h : s.root.get cs with
  | none => rfl
  | some n => cases n <;> rfl

theorem opendirCheckC_eq (s : State) (cs : List Name) :
    Os.opendirCheckC s cs = match s.root.get cs with
      | none => .err .ResourceNotFound
      | some (.dir _) => .ok ()
      | some (.file _) => .err .DirectoryExpected := by
  unfold Os.opendirCheckC
  rw [getinfoC_eq]
  cases h : s.root.get cs with
  | none => rfl
  | some n => cases n <;> rfl

/-! ### the methods that coincide with MemoryFS's (as functions) -/

theorem getinfo_eq_mem (s : State) (p : Str) : Os.getinfo s p = Mem.getinfo s p := by
  unfold Os.getinfo Mem.getinfo Os.vpath
  cases Mem.vpath s p with
  | err e => rfl
  | ok cs =>
    simp only [getinfoC_eq]
    cases h : s.root.get cs with
    | none => rfl
    | some n => cases n <;> rfl

theorem exists_eq_mem (s : State) (p : Str) : Os.exists_ s p = Mem.exists_ s p := by
  simp only [Os.exists_, Mem.exists_, getinfo_eq_mem]
  cases Mem.getinfo s p with
  | ok a => rfl
  | err e => cases e <;> rfl

theorem isdir_eq_mem (s : State) (p : Str) : Os.isdir s p = Mem.isdir s p := by
  simp only [Os.isdir, Mem.isdir, getinfo_eq_mem]
  cases Mem.getinfo s p with
  | ok a => rfl
  | err e => cases e <;> rfl

theorem isfile_eq_mem (s : State) (p : Str) : Os.isfile s p = Mem.isfile s p := by
  simp only [Os.isfile, Mem.isfile, getinfo_eq_mem]
  cases Mem.getinfo s p with
  | ok a => rfl
  | err e => cases e <;> rfl

theorem opendirCheck_eq_mem (s : State) (p : Str) : Os.opendirCheck s p = Mem.opendirCheck s p := by
  unfold Os.opendirCheck Mem.opendirCheck Mem.getinfo Os.vpath
  cases Mem.vpath s p with
  | err e => rfl
  | ok cs =>
    simp only [opendirCheckC_eq]
    cases h : s.root.get cs with
    | none => rfl
    | some n => cases n <;> rfl

theorem setinfo_eq_mem (s : State) (p : Str) : Os.setinfo s p = Mem.setinfo s p := by
  unfold Os.setinfo Mem.setinfo Os.vpath
  cases Mem.vpath s p with
  | err e => rfl
  | ok cs =>
    simp only [pathExists_eq, Posix.utime]
    cases h : s.root.get cs with
    | none => simp
    | some n => simp [stat_some h]

/-- the type number `OSFS.gettype` reports is the one the base class derives from `getinfo` -/
theorem gettype_eq_mem (s : State) (p : Str) :
    Mem.liftRes s (Os.gettype s p) Val.nat =
      Mem.liftRes s (Mem.getinfo s p) (fun (x : Name × Bool × Nat) => Val.nat (if x.2.1 then 1 else 2)) := by
  unfold Os.gettype Mem.getinfo Os.vpath
  cases Mem.vpath s p with
  | err e => rfl
  | ok cs =>
    simp only [gettypeC_eq]
    cases h : s.root.get cs with
    | none => rfl
    | some n => cases n <;> rfl

end comps

/-! ### `io.open` flags vs `fs.mode.Mode` -/

section openers
open Fs.Os

theorem contains_platformBin (mode : Str) (c : Char) (hc : c ≠ 't') (hb : c ≠ 'b') :
    (platformBin mode).contains c = mode.contains c := by
  unfold platformBin
  have h1 : (mode.filter (· != 't')).contains c = mode.contains c := by
    rw [Bool.eq_iff_iff]
    simp [List.contains_iff_mem, List.mem_filter, hc]
  simp only []
  split
  · exact h1
  · rw [Bool.eq_iff_iff] at h1 ⊢
    simp only [List.contains_iff_mem] at h1 ⊢
    simp [List.mem_append, hb, h1]

def FlagsRel (m : Mode) (fl : OFlags) : Prop :=
  fl.creat = m.create ∧ fl.excl = m.exclusive ∧ fl.trunc = (m.truncate && !m.exclusive)

/-- what `parseBinMode mode = some m` says about the string, and the flags it computes -/
theorem parse_some (mode : Str) (m : Mode) (hm : parseBinMode mode = some m) :
    (mode.all fun x => modeValidChars.contains x) = true ∧ mode.contains 't' = false ∧ mode.Nodup ∧
    (['r', 'w', 'x', 'a'].filter fun x => mode.contains x).length = 1 ∧
    m = { reading := mode.contains 'r' || mode.contains '+',
          writing := mode.contains 'w' || mode.contains 'a' || mode.contains '+' || mode.contains 'x',
          create := mode.contains 'a' || mode.contains 'w' || mode.contains 'x',
          truncate := mode.contains 'w' || mode.contains 'x',
          exclusive := mode.contains 'x',
          appending := mode.contains 'a' } := by
  unfold parseBinMode at hm
  split at hm
  · cases hm
  · split at hm
    · cases hm
    · split at hm
      · cases hm
      · split at hm
        · cases hm
        · split at hm
          · cases hm
          · split at hm
            · cases hm
            · rename_i h1 _ h3 h4 h5
              simp only [Option.some.injEq] at hm
              exact ⟨by simpa using h1, by simpa using h3, by simpa using h4, by simpa using h5, hm.symm⟩

theorem flags_rel (mode : Str) (m : Mode) (fl : OFlags) (hm : parseBinMode mode = some m)
    (hf : ioOpenFlags (platformBin mode) = some fl) : FlagsRel m fl := by
  have cr := contains_platformBin mode 'r' (by decide) (by decide)
  have cw := contains_platformBin mode 'w' (by decide) (by decide)
  have cx := contains_platformBin mode 'x' (by decide) (by decide)
  have ca := contains_platformBin mode 'a' (by decide) (by decide)
  have cp := contains_platformBin mode '+' (by decide) (by decide)
  obtain ⟨_, _, _, _, rfl⟩ := parse_some mode m hm
  unfold ioOpenFlags at hf
  split at hf
  · cases hf
  · split at hf
    · cases hf
    · dsimp only at hf
      split at hf
      · cases hf
      · rename_i h1
        simp only [Option.some.injEq] at hf
        subst hf
        simp only [cr, cw, cx, ca, cp, List.filter] at h1 ⊢
        unfold FlagsRel
        simp only
        revert h1
        cases List.contains _ 'r' <;> cases List.contains _ 'w' <;> cases List.contains _ 'x' <;>
          cases List.contains _ 'a' <;> simp

/-- since `Mode.validate` has `io.open`'s two rules, `io.open` accepts every (binary) mode string
`Mode.validate_bin` accepts: `OSFS.openbin` never sees `io.open`'s own `ValueError` -/
theorem io_ok_of_parse (mode : Str) (m : Mode) (hm : parseBinMode mode = some m) :
    (ioOpenFlags (platformBin mode)).isSome = true := by
  obtain ⟨hall, ht, hnd, hone, _⟩ := parse_some mode m hm
  have cr := contains_platformBin mode 'r' (by decide) (by decide)
  have cw := contains_platformBin mode 'w' (by decide) (by decide)
  have cx := contains_platformBin mode 'x' (by decide) (by decide)
  have ca := contains_platformBin mode 'a' (by decide) (by decide)
  have hfil : mode.filter (· != 't') = mode := by
    apply List.filter_eq_self.mpr
    intro c hc
    simp only [bne_iff_ne, ne_eq]
    rintro rfl
    have : mode.contains 't' = true := by simpa using hc
    rw [ht] at this; cases this
  have hmem : ∀ c ∈ mode, ['r', 'w', 'x', 'a', 'b', '+'].contains c = true := by
    intro c hc
    have h1 : modeValidChars.contains c = true := by
      rw [List.all_eq_true] at hall; exact hall c hc
    have h2 : c ≠ 't' := by
      rintro rfl
      have : mode.contains 't' = true := by simpa using hc
      rw [ht] at this; cases this
    simp only [modeValidChars, List.contains_eq_mem, List.mem_cons, List.not_mem_nil, or_false,
      decide_eq_true_eq] at h1 ⊢
    rcases h1 with h | h | h | h | h | h | h
    all_goals first | exact absurd h h2 | simp [h]
  have hA : (platformBin mode).all (fun c => ['r', 'w', 'x', 'a', 'b', '+'].contains c) = true := by
    rw [List.all_eq_true]
    intro c hc
    unfold platformBin at hc
    simp only [hfil] at hc
    split at hc
    · exact hmem c hc
    · rcases List.mem_append.1 hc with h | h
      · exact hmem c h
      · simp only [List.mem_singleton] at h; subst h; decide
  have hN : (platformBin mode).Nodup := by
    unfold platformBin
    simp only [hfil]
    split
    · exact hnd
    · rename_i hb
      rw [List.nodup_append]
      refine ⟨hnd, by simp, ?_⟩
      intro a ha b hb'
      simp only [List.mem_singleton] at hb'
      subst hb'
      rintro rfl
      exact hb (by simpa using ha)
  have hF : (['r', 'w', 'x', 'a'].filter fun c => (platformBin mode).contains c) =
      (['r', 'w', 'x', 'a'].filter fun x => mode.contains x) := by
    simp only [List.filter, cr, cw, cx, ca]
  unfold ioOpenFlags
  simp only [hA, hN, hF, hone, Bool.not_true, Bool.false_eq_true, if_false, decide_true,
    bne_self_eq_false, Option.isSome_some]

theorem tbl_io (meth : String) (h : meth = "openbin" ∨ meth = "open") :
    conv meth "io.open" .ENOENT = .ResourceNotFound ∧ conv meth "io.open" .ENOTDIR = .ResourceNotFound ∧
    conv meth "io.open" .EEXIST = .FileExists ∧ conv meth "io.open" .EISDIR = .FileExpected := by
  rcases h with rfl | rfl <;> decide

theorem openC_eq_mem (meth : String) (hmeth : meth = "openbin" ∨ meth = "open") (s : State) (p : Str)
    (cs : List Name) (hc : s.closed = false) (hv : validate p = .ok cs) (mode : Str) (m : Mode) (fl : OFlags)
    (hm : parseBinMode mode = some m) (hf : ioOpenFlags (platformBin mode) = some fl) :
    Os.openC meth s cs mode = Mem.openbin s p mode := by
  have hcl := TreeLemmas.validate_clean p cs hv
  obtain ⟨hf1, hf2⟩ := parse_facts mode m hm
  obtain ⟨r1, r2, r3⟩ := flags_rel mode m fl hm hf
  obtain ⟨t1, t2, t3, t4⟩ := tbl_io meth hmeth
  obtain ⟨root, closed⟩ := s
  simp only at hc
  subst hc
  have hc : (⟨root, false⟩ : State).closed = false := rfl
  simp only [Os.openC, Mem.openbin, hm, hf, vpath_open _ _ hc, hv, Mem.splitc, Posix.open_, stat_eq]
  rcases sit root cs with h | ⟨hne, hp, hg⟩ | ⟨b, hne, hp, hg⟩ | ⟨es, hne, hp, hl, hg⟩ | ⟨es, n, hne, hp, hl, hg⟩
  · subst h; simp
  · cases blockedByFile root [] cs.dropLast <;> simp [last_ne_nil cs hne hcl, hne, hp, hg, t1, t2]
  · simp [last_ne_nil cs hne hcl, hne, hp, hg, t2]
  · cases hcr : m.create <;> simp [last_ne_nil cs hne hcl, hne, hp, hg, hl, hcr, r1, t1]
  · obtain ⟨rd, wr, cr, tr, ex, ap⟩ := m
    obtain ⟨frd, fwr, fcr, fex, ftr, fap⟩ := fl
    simp only at hf1 hf2 r1 r2 r3
    subst r1 r2 r3
    rcases n with b | ds
    · cases fcr <;> cases fex <;> cases tr <;> simp_all [last_ne_nil cs hne hcl]
    · cases fcr <;> cases fex <;> cases tr <;> simp_all [last_ne_nil cs hne hcl]


theorem vpath_ok {s : State} {p : Str} {cs : List Name} (h : Mem.vpath s p = .ok cs) :
    s.closed = false ∧ validate p = .ok cs := by
  unfold Mem.vpath at h
  split at h
  · cases h
  · rename_i hc; exact ⟨by simpa using hc, h⟩

/-- `io.open` accepts the (binary) mode string `Mode.validate_bin` accepted -/
def ioModeOk (mode : Str) : Prop := (ioOpenFlags (platformBin mode)).isSome = true

theorem openAny_eq_mem (meth : String) (hmeth : meth = "openbin" ∨ meth = "open") (s : State) (p mode : Str)
    (hio : ioModeOk mode) :
    (match parseBinMode mode with
      | none => (s, Res.err Err.ValueError)
      | some _ => match Os.vpath s p with
        | .err e => (s, .err e)
        | .ok cs => Os.openC meth s cs mode) = Mem.openbin s p mode := by
  cases hm : parseBinMode mode with
  | none => simp [Mem.openbin, hm]
  | some m =>
    unfold ioModeOk at hio
    cases hf : ioOpenFlags (platformBin mode) with
    | none => rw [hf] at hio; cases hio
    | some fl =>
      simp only [Os.vpath]
      cases hvp : Mem.vpath s p with
      | err e => simp [Mem.openbin, hm, hvp]
      | ok cs =>
        obtain ⟨hc, hv⟩ := vpath_ok hvp
        exact openC_eq_mem meth hmeth s p cs hc hv mode m fl hm hf

theorem openbin_eq_mem (s : State) (p mode : Str) (hio : ioModeOk mode) :
    Os.openbin s p mode = Mem.openbin s p mode :=
  openAny_eq_mem "openbin" (Or.inl rfl) s p mode hio

theorem openf_eq_mem (s : State) (p mode : Str) (hio : ioModeOk mode) :
    Os.openf s p mode = Mem.openbin s p mode :=
  openAny_eq_mem "open" (Or.inr rfl) s p mode hio

theorem io_rb : ioModeOk ['r', 'b'] := by unfold ioModeOk; decide
theorem io_wb : ioModeOk ['w', 'b'] := by unfold ioModeOk; decide
theorem io_ab : ioModeOk ['a', 'b'] := by unfold ioModeOk; decide

/-! ### the default methods built on `getinfo` / `open` / `setinfo` coincide with MemoryFS's -/

theorem readbytes_eq_mem (s : State) (p : Str) : Os.readbytes s p = Mem.readbytes s p := by
  unfold Os.readbytes Mem.readbytes
  rw [openf_eq_mem s p _ io_rb]
  rfl

theorem writebytes_eq_mem (s : State) (p : Str) (d : Bytes) : Os.writebytes s p d = Mem.writebytes s p d := by
  unfold Os.writebytes Mem.writebytes
  rw [openf_eq_mem s p _ io_wb]
  rfl

theorem appendbytes_eq_mem (s : State) (p : Str) (d : Bytes) : Os.appendbytes s p d = Mem.appendbytes s p d := by
  unfold Os.appendbytes Mem.appendbytes
  rw [openf_eq_mem s p _ io_ab]
  rfl

theorem create_eq_mem (s : State) (p : Str) (w : Bool) : Os.create s p w = Mem.create s p w := by
  unfold Os.create Mem.create
  rw [openf_eq_mem s p _ io_wb, exists_eq_mem]
  rfl

theorem touch_eq_mem (s : State) (p : Str) : Os.touch s p = Mem.touch s p := by
  unfold Os.touch Mem.touch
  rw [create_eq_mem]
  simp only [setinfo_eq_mem]
  rfl

end openers


/-! ### whole steps that coincide with MemoryFS's -/

section stepsA
open Fs.Os

theorem step_exists_eq_mem (s : State) (p : Str) : Os.step s (.exists_ p) = Mem.step s (.exists_ p) := by
  simp only [Os.step, Mem.step, exists_eq_mem]
theorem step_isdir_eq_mem (s : State) (p : Str) : Os.step s (.isdir p) = Mem.step s (.isdir p) := by
  simp only [Os.step, Mem.step, isdir_eq_mem]
theorem step_isfile_eq_mem (s : State) (p : Str) : Os.step s (.isfile p) = Mem.step s (.isfile p) := by
  simp only [Os.step, Mem.step, isfile_eq_mem]
theorem step_getsize_eq_mem (s : State) (p : Str) : Os.step s (.getsize p) = Mem.step s (.getsize p) := by
  simp only [Os.step, Mem.step, getinfo_eq_mem]
theorem step_getinfo_eq_mem (s : State) (p : Str) : Os.step s (.getinfo p) = Mem.step s (.getinfo p) := by
  simp only [Os.step, Mem.step, getinfo_eq_mem]
theorem step_gettype_eq_mem (s : State) (p : Str) : Os.step s (.gettype p) = Mem.step s (.gettype p) := by
  simp only [Os.step, Mem.step, Os.gettype, Mem.getinfo, Os.vpath]
  cases Mem.vpath s p with
  | err e => rfl
  | ok cs =>
    simp only [gettypeC_eq]
    cases h : s.root.get cs with
    | none => rfl
    | some n => cases n <;> rfl
theorem step_readbytes_eq_mem (s : State) (p : Str) : Os.step s (.readbytes p) = Mem.step s (.readbytes p) := by
  simp only [Os.step, Mem.step, readbytes_eq_mem]
theorem step_writebytes_eq_mem (s : State) (p : Str) (d : Bytes) :
    Os.step s (.writebytes p d) = Mem.step s (.writebytes p d) := by
  simp only [Os.step, Mem.step, writebytes_eq_mem]
theorem step_appendbytes_eq_mem (s : State) (p : Str) (d : Bytes) :
    Os.step s (.appendbytes p d) = Mem.step s (.appendbytes p d) := by
  simp only [Os.step, Mem.step, appendbytes_eq_mem]
theorem step_create_eq_mem (s : State) (p : Str) (w : Bool) :
    Os.step s (.create p w) = Mem.step s (.create p w) := by
  simp only [Os.step, Mem.step, create_eq_mem]
theorem step_touch_eq_mem (s : State) (p : Str) : Os.step s (.touch p) = Mem.step s (.touch p) := by
  simp only [Os.step, Mem.step, touch_eq_mem]
theorem step_settimes_eq_mem (s : State) (p : Str) : Os.step s (.settimes p) = Mem.step s (.settimes p) := by
  simp only [Os.step, Mem.step, setinfo_eq_mem]
theorem step_openbin_eq_mem (s : State) (p m : Str) (hio : ioModeOk m) :
    Os.step s (.openbin p m) = Mem.step s (.openbin p m) := by
  simp only [Os.step, Mem.step, openbin_eq_mem s p m hio]
  rfl

end stepsA

/-! ### the methods OSFS implements differently, against the reference -/

section stepsB
open Fs.Os

theorem agree_err (A : List Err) (s : State) (e e' : Err) (he : e ∈ A) :
    Agree A s (fail s e) (fail s e') :=
  Or.inr ⟨e, e', rfl, rfl, he⟩

theorem agree_of_fails (A : List Err) (s : State) (e : Err) (m r : State × Out) (hm : m = (s, .err e))
    (hr : r.2.isOk = false) (he : e ∈ A) : Agree A s m r := by
  cases h : r.2 with
  | ok v => rw [h] at hr; cases hr
  | err e' => exact Or.inr ⟨e, e', hm, h, he⟩

theorem erase_put (c : Name) (v : Node) (es : Ents) : Ents.erase c (Ents.put c v es) = Ents.erase c es := by
  induction es with
  | nil => simp [Ents.put, Ents.erase]
  | cons e es ih =>
    obtain ⟨k, w⟩ := e
    by_cases h : k = c <;> simp [Ents.put, Ents.erase, h, ih]

theorem del_set (cs : List Name) (t v : Node) : (t.set cs v).del cs = t.del cs := by
  fun_induction Node.set cs t v with
  | case1 n v => rfl
  | case2 c es v => simp [Node.del, erase_put]
  | case3 c d cs es v ch hl ih => simp only [Node.del, lookup_put_same, hl, ih, put_put]
  | case4 c d cs es v hl => rfl
  | case5 c cs b v => rfl

mutual
theorem removeContents_ok : ∀ (n : Node), n.isDir = true → Posix.removeContents n = .ok ()
  | .file _, h => by simp [Node.isDir] at h
  | .dir es, _ => by simp [Posix.removeContents, removeEnts_ok es]
theorem removeEnts_ok : ∀ (es : Ents), Posix.removeEnts es = .ok ()
  | [] => by simp [Posix.removeEnts]
  | (_, .dir ds) :: es => by
    simp [Posix.removeEnts, Node.isDir, removeContents_ok (.dir ds) rfl, removeEnts_ok es]
  | (_, .file _) :: es => by simp [Posix.removeEnts, Node.isDir, removeEnts_ok es]
end

section
variable (s : State) (p : Str) (cs : List Name) (hc : s.closed = false) (hv : validate p = .ok cs)
  (hd : s.root.isDir = true) (hwf : s.root.wf = true)
include hc hv

theorem os_listdir :
    Agree (adm1 s.root cs (.listdir p)) s (Os.step s (.listdir p)) (step1 s cs (.listdir p)) := by
  simp only [Os.step, Os.listdir, Os.vpath, vpath_open _ _ hc, hv, Posix.listdir, stat_eq, step1]
  cases hg : s.root.get cs with
  | none =>
    cases hb : blockedByFile s.root [] cs
    · left; simp [Mem.liftRes, tbl_listdir_ENOENT]
    · right
      refine ⟨.DirectoryExpected, .ResourceNotFound, ?_, ?_, ?_⟩
      · simp [Mem.liftRes, tbl_listdir_ENOTDIR, fail]
      · simp [fail]
      · simp [adm1, admDirArg, hb]
  | some n =>
    cases n with
    | file b => left; simp [Mem.liftRes, tbl_listdir_ENOTDIR]
    | dir es => left; simp [Mem.liftRes]


theorem os_isempty :
    Agree (adm1 s.root cs (.isempty p)) s (Os.step s (.isempty p)) (step1 s cs (.isempty p)) := by
  simp only [Os.step, Os.isempty, Os.scandir, Os.vpath, vpath_open _ _ hc, hv, Posix.scandir, stat_eq, step1]
  cases hg : s.root.get cs with
  | none =>
    cases hb : blockedByFile s.root [] cs
    · left; simp [Mem.liftRes, tbl_scandir_ENOENT]
    · right
      refine ⟨.DirectoryExpected, .ResourceNotFound, ?_, ?_, ?_⟩
      · simp [Mem.liftRes, tbl_scandir_ENOTDIR, fail]
      · simp [fail]
      · simp [adm1, admDirArg, hb]
  | some n =>
    cases n with
    | file b => left; simp [Mem.liftRes, tbl_scandir_ENOTDIR]
    | dir es => left; cases es <;> simp [Mem.liftRes, done]

include hd

theorem os_remove : Os.step s (.remove p) = step1 s cs (.remove p) := by
  simp only [Os.step, Os.remove, Os.removeC, Os.vpath, vpath_open _ _ hc, hv, Posix.unlink, stat_eq, step1]
  by_cases hne : cs = []
  · subst hne
    cases hr : s.root with
    | file b => simp [hr, Node.isDir] at hd
    | dir es => simp [Node.get, tbl_remove_EISDIR]
  · cases hg : s.root.get cs with
    | none =>
      cases hb : blockedByFile s.root [] cs <;> simp [hne, tbl_remove_ENOENT, tbl_remove_ENOTDIR]
    | some n => cases n <;> simp [hne, tbl_remove_EISDIR]


theorem os_removedir :
    Agree (adm1 s.root cs (.removedir p)) s (Os.step s (.removedir p)) (step1 s cs (.removedir p)) := by
  simp only [Os.step, Os.removedir, Os.vpath, vpath_open _ _ hc, hv, Posix.rmdir, stat_eq, step1]
  by_cases hne : cs = []
  · left; simp [hne]
  · cases hg : s.root.get cs with
    | none =>
      cases hb : blockedByFile s.root [] cs
      · left; simp [hne, tbl_removedir_ENOENT]
      · right
        refine ⟨.DirectoryExpected, .ResourceNotFound, ?_, ?_, ?_⟩
        · simp [hne, tbl_removedir_ENOTDIR, fail]
        · simp [hne, fail]
        · simp [adm1, admDirArg, hb]
    | some n =>
      cases n with
      | file b => left; simp [hne, tbl_removedir_ENOTDIR]
      | dir es => left; cases es <;> simp [hne, tbl_removedir_ENOTEMPTY]

theorem os_removetree :
    Agree (adm1 s.root cs (.removetree p)) s (Os.step s (.removetree p)) (step1 s cs (.removetree p)) := by
  simp only [Os.step, Os.removetree, Os.vpath, vpath_open _ _ hc, hv, Posix.pathIslink, Bool.and_false,
    Bool.false_eq_true, if_false, stat_eq, step1]
  cases hg : s.root.get cs with
  | none =>
    have hne : cs ≠ [] := by rintro rfl; simp [Node.get] at hg
    cases hb : blockedByFile s.root [] cs
    · left; simp [hne, tbl_removetree_ENOENT]
    · right
      refine ⟨.DirectoryExpected, .ResourceNotFound, ?_, ?_, ?_⟩
      · simp [hne, tbl_removetree_ENOTDIR, fail]
      · simp [hne, fail]
      · simp [adm1, admDirArg, hb]
  | some n =>
    cases n with
    | file b =>
      have hne : cs ≠ [] := by
        rintro rfl
        simp only [Node.get, Option.some.injEq] at hg
        simp [hg, Node.isDir] at hd
      left; simp [hne, Posix.removeContents, tbl_removetree_ENOTDIR]
    | dir es =>
      left
      simp only [removeContents_ok (.dir es) rfl]
      by_cases hne : cs = []
      · simp [hne, setAt]
      · obtain ⟨pes, hp⟩ := get_parent_dir hne hg
        have hs : (s.root.set cs (.dir [])).get cs = some (.dir []) := get_set_same cs _ _ pes hne hp
        simp [hne, setAt, Posix.rmdir, stat_eq, hs, del_set, upd]


theorem os_makedir (r : Bool) :
    Agree (adm1 s.root cs (.makedir p r)) s (Os.step s (.makedir p r)) (step1 s cs (.makedir p r)) := by
  obtain ⟨res, hr⟩ := root_dir hd
  simp only [Os.step, Os.makedir, Os.makedirC, Os.vpath, vpath_open _ _ hc, hv, Posix.mkdir, stat_eq, step1,
    opendirCheckC_eq, parentOf]
  rcases sit s.root cs with h | ⟨hne, hp, hg⟩ | ⟨b, hne, hp, hg⟩ | ⟨es, hne, hp, hl, hg⟩ | ⟨es, n, hne, hp, hl, hg⟩
  · subst h
    left; cases r <;> simp [hr, Node.get, tbl_makedir_EEXIST]
  · cases hb : blockedByFile s.root [] cs.dropLast
    · left; simp [hne, hp, hg, hb]
    · right
      refine ⟨.DirectoryExpected, .ResourceNotFound, ?_, ?_, ?_⟩
      · simp [hne, hp, hg, hb, tbl_makedir_ENOTDIR, fail]
      · simp [hne, hp, hg, fail]
      · simp [adm1, blocked_parent_none hne hp, hb]
  · right
    refine ⟨.DirectoryExpected, .ResourceNotFound, ?_, ?_, ?_⟩
    · simp [hne, hp, hg, tbl_makedir_ENOTDIR, fail]
    · simp [hne, hp, hg, fail]
    · simp [adm1, blocked_parent_file hne hp]
  · left; simp [hne, hp, hg, hl]
  · left; cases n <;> cases r <;> simp [hne, hp, hg, hl, tbl_makedir_EEXIST]

/-- where the parent directory exists (or the path is the root) `OSFS.makedir` is `MemoryFS.makedir` -/
theorem os_makedir_eq_mem (r : Bool)
    (hpar : cs = [] ∨ ∃ es, s.root.get cs.dropLast = some (.dir es)) :
    Os.makedir s p r = Mem.makedir s p r := by
  obtain ⟨res, hr⟩ := root_dir hd
  simp only [Os.makedir, Os.makedirC, Mem.makedir, Os.vpath, vpath_open _ _ hc, hv, Posix.mkdir, stat_eq,
    opendirCheckC_eq, Mem.splitc]
  rcases hpar with h | ⟨es, hp⟩
  · subst h
    cases r <;> simp [hr, Node.get, tbl_makedir_EEXIST]
  · by_cases hne : cs = []
    · subst hne
      cases r <;> simp [hr, Node.get, tbl_makedir_EEXIST]
    · have hg := get_split s.root cs hne
      simp only [hp] at hg
      cases hl : Ents.lookup (cs.getLast?.getD []) es with
      | none => simp [hne, hp, hl]
      | some n =>
        rw [hl] at hg
        cases n <;> cases r <;> simp [hne, hp, hl, hg, tbl_makedir_EEXIST]


end

theorem go_eq_mem (s : State) : ∀ (L acc : List (List Name)),
    Os.intermediateDirs.go s L acc = Mem.intermediateDirs.go s L acc := by
  intro L
  induction L with
  | nil => intro acc; simp [Os.intermediateDirs.go, Mem.intermediateDirs.go]
  | cons pre rest ih =>
    intro acc
    simp only [Os.intermediateDirs.go, Mem.intermediateDirs.go, getinfoC_eq]
    cases h : s.root.get pre with
    | none => simp [ih]
    | some n => cases n <;> simp

theorem intermediateDirs_eq_mem (s : State) (cs : List Name) :
    Os.intermediateDirs s cs = Mem.intermediateDirs s cs := by
  unfold Os.intermediateDirs Mem.intermediateDirs
  rw [go_eq_mem]
  rfl

theorem isDir_foldl (dirs : List (List Name)) (t : Node) :
    (dirs.foldl (fun t d => Node.set d t (Node.dir [])) t).isDir = t.isDir := by
  induction dirs generalizing t with
  | nil => rfl
  | cons d ds ih => simp only [List.foldl_cons, ih, isDir_set]

section
variable (s : State) (p : Str) (cs : List Name) (hc : s.closed = false) (hv : validate p = .ok cs)
  (hd : s.root.isDir = true) (hwf : s.root.wf = true)
include hd

/-- after the missing intermediate directories were made, the parent of the path is a directory -/
theorem parent_after_intermediates (dirs : List (List Name))
    (hi : Mem.intermediateDirs s cs = .ok dirs) :
    cs = [] ∨ ∃ es, (dirs.foldl (fun t d => Node.set d t (Node.dir [])) s.root).get cs.dropLast = some (.dir es) := by
  by_cases hne : cs = []
  · exact Or.inl hne
  · right
    rw [intermediateDirs_eq] at hi
    cases hbl : blockedByFile s.root [] cs
    · cases hg : s.root.get cs with
      | none =>
        obtain ⟨l, h1, h2, h3⟩ := (walk_spec s hd cs).2.2 hbl hg
        obtain ⟨res, hr⟩ := root_dir hd
        rw [h1] at hi
        simp only [Res.map, Res.ok.injEq, List.dropLast_concat] at hi
        subst hi
        have hnf : ∀ b, s.root.get ([] ++ cs.dropLast) ≠ some (.file b) := by
          intro b hb
          have := blocked_snoc s.root [] cs.dropLast (cs.getLast?.getD [])
          rw [split_last cs hne, hbl, isFileAt_of_file (by simpa using hb)] at this
          simp at this
        have hbl' : blockedByFile s.root [] cs.dropLast = false := by
          have := blocked_snoc s.root [] cs.dropLast (cs.getLast?.getD [])
          rw [split_last cs hne, hbl] at this
          simpa using (Bool.or_eq_false_iff.1 this.symm).1
        obtain ⟨es', hpar⟩ := mkdirs_get [] cs.dropLast s.root res (by simp [hr, Node.get]) hbl' hnf
        simp only [List.nil_append] at hpar
        have hfold : List.foldl (fun t d => Node.set d t (Node.dir [])) s.root l =
            mkdirs [] cs.dropLast s.root := h2
        exact ⟨es', by rw [hfold]; exact hpar⟩
      | some n =>
        cases n with
        | file b =>
          rw [(walk_spec s hd cs).1 (Or.inr (isFileAt_of_file hg))] at hi
          cases hi
        | dir es =>
          rw [(walk_spec s hd cs).2.1 es hg] at hi
          simp only [Res.map, Res.ok.injEq, List.dropLast_nil] at hi
          subst hi
          obtain ⟨pes, hp⟩ := get_parent_dir hne hg
          exact ⟨pes, hp⟩
    · rw [(walk_spec s hd cs).1 (Or.inl hbl)] at hi
      cases hi

include hc hv

theorem os_makedirs_eq_mem (r : Bool) : Os.makedirs s p r = Mem.makedirs s p r := by
  unfold Os.makedirs Mem.makedirs
  simp only [hc, hv, intermediateDirs_eq_mem, Bool.false_eq_true, if_false]
  cases hi : Mem.intermediateDirs s cs with
  | err e => rfl
  | ok dirs =>
    simp only
    have hpar := parent_after_intermediates s cs hd dirs hi
    have := os_makedir_eq_mem
      { s with root := dirs.foldl (fun t d => Node.set d t (Node.dir [])) s.root } p cs hc hv
      (by simpa [isDir_foldl] using hd) false hpar
    rw [hc] at this
    rw [this]
    simp only [opendirCheck_eq_mem]
    rfl

end

theorem get_set_other (a b : List Name) (t v : Node) (h1 : ¬ b <+: a) (h2 : ¬ a <+: b) :
    (t.set b v).get a = t.get a := by
  fun_induction Node.set b t v generalizing a with
  | case1 n v => exact absurd List.nil_prefix h1
  | case2 c es v =>
    cases a with
    | nil => exact absurd List.nil_prefix h2
    | cons c' as =>
      have hne : c' ≠ c := by
        rintro rfl; exact h1 (List.cons_prefix_cons.2 ⟨rfl, List.nil_prefix⟩)
      simp only [Node.get, lookup_put_other _ _ _ _ hne]
  | case3 c d cs es v ch hl ih =>
    cases a with
    | nil => exact absurd List.nil_prefix h2
    | cons c' as =>
      by_cases hne : c' = c
      · subst hne
        simp only [Node.get, lookup_put_same, hl]
        exact ih as (fun h => h1 (List.cons_prefix_cons.2 ⟨rfl, h⟩))
          (fun h => h2 (List.cons_prefix_cons.2 ⟨rfl, h⟩))
      · simp only [Node.get, lookup_put_other _ _ _ _ hne]
  | case4 c d cs es v hl => rfl
  | case5 c cs b' v => rfl

section
variable (s : State) (sp dp : Str) (a b : List Name) (hc : s.closed = false)
  (hva : validate sp = .ok a) (hvb : validate dp = .ok b)
  (hd : s.root.isDir = true) (hwf : s.root.wf = true)
include hc hva hvb hd

theorem os_copydir_eq_mem (c : Bool) : Os.copydir s sp dp c = Mem.copydir s sp dp c := by
  unfold Os.copydir Mem.copydir
  simp only [Os.vpath, vpath_open _ _ hc, hva, hvb, existsC_eq, getinfoC_eq,
    os_makedirs_eq_mem s dp b hc hvb hd true]
  by_cases hpre : isPrefix a b = true
  · simp [hpre]
  · simp only [hpre, if_false, Bool.false_eq_true]
    cases hgb : s.root.get b with
    | none =>
      cases c
      · simp
      · cases hga : s.root.get a with
        | none => simp
        | some n => cases n <;> simp <;> rfl
    | some nb =>
      cases hga : s.root.get a with
      | none => cases c <;> simp
      | some n => cases n <;> cases c <;> simp <;> rfl


theorem tbl_copy2_unwrapped : ∀ e, conv "copy" "shutil.copy2" e = .Leak := by
  intro e; simp only [conv]; rw [show siteFlavour "copy" "shutil.copy2" = none by decide]

include hwf

theorem os_copy (o : Bool) :
    Agree (adm2 s.root a b (.copy sp dp o)) s (Os.step s (.copy sp dp o)) (step2 s a b (.copy sp dp o)) := by
  have hcla := validate_clean sp a hva
  have hclb := validate_clean dp b hvb
  obtain ⟨res, hr⟩ := root_dir hd
  have hroot : s.root.get [] = some (.dir res) := by simp [hr, Node.get]
  simp only [Os.step, Os.copy, Os.vpath, vpath_open _ _ hc, hva, hvb, gettypeC_eq, existsC_eq, isdirC_eq, step2,
    parentOf]
  cases hga : s.root.get a with
  | none =>
    refine agree_of_fails _ s .ResourceNotFound _ _ (by simp [fail]) ?_ (by simp [adm2, admFileArg, kindAt, hga])
    by_cases h1 : (!o && (s.root.get b).isSome) = true
    · simp [h1, fail, Res.isOk]
    · by_cases hab : a = b
      · simp [h1, hab, fail, Res.isOk]
      · simp [h1, hab, hga, fail, Res.isOk]
  | some n =>
    cases n with
    | dir ds =>
      refine agree_of_fails _ s .FileExpected _ _ (by simp [fail]) ?_ (by simp [adm2, admFileArg, kindAt, hga])
      by_cases h1 : (!o && (s.root.get b).isSome) = true
      · simp [h1, fail, Res.isOk]
      · by_cases hab : a = b
        · simp [h1, hab, fail, Res.isOk]
        · simp [h1, hab, hga, fail, Res.isOk]
    | file data =>
      have hane : a ≠ [] := by rintro rfl; rw [hroot] at hga; cases hga
      by_cases h1 : (!o && (s.root.get b).isSome) = true
      · left
        cases o
        · simp only [Bool.not_false, Bool.true_and] at h1
          simp [h1]
        · simp at h1
      · have h1' : (if o = true then Res.ok false else Res.ok (s.root.get b).isSome) = Res.ok false := by
          cases o
          · simp only [Bool.not_false, Bool.true_and, Bool.not_eq_true] at h1
            simp [h1]
          · rfl
        simp only [h1', h1, if_false, Bool.false_eq_true]
        by_cases hab : a = b
        · left; simp [hab]
        · simp only [hab, if_false]
          rcases sit s.root b with h' | ⟨hne', hp', hg'⟩ | ⟨x', hne', hp', hg'⟩ | ⟨es', hne', hp', hl', hg'⟩ | ⟨es', n', hne', hp', hl', hg'⟩
          · subst h'
            left; simp [hroot]
          · left; simp [hne', hp', hg']
          · right
            refine ⟨.DirectoryExpected, .ResourceNotFound, by simp [hp', fail], by simp [hne', hp', fail], ?_⟩
            simp [adm2, hab, admFileTarget, blocked_parent_file hne' hp']
          · left
            have ht : Posix.copy2 s.root a b = .ok (s.root.set b (.file data)) := by
              simp [Posix.copy2, pathIsdir_eq, hg', hab, stat_eq, hga, Posix.open_, hne', hp', hl', set_set]
            simp [hne', hp', hg', ht]
          · rcases n' with d' | ds'
            · left
              have ht : Posix.copy2 s.root a b = .ok (s.root.set b (.file data)) := by
                simp [Posix.copy2, pathIsdir_eq, hg', hab, stat_eq, hga, Posix.open_, hne', hp', hl', set_set]
              simp [hne', hp', hg', ht]
            · left; simp [hne', hp', hg']

end

theorem pathPrefix_eq (a b : List Name) : Posix.pathPrefix a b = Ref.isPrefix a b := by
  induction a generalizing b with
  | nil => cases b <;> rfl
  | cons x xs ih => cases b with
    | nil => rfl
    | cons y ys => simp [Posix.pathPrefix, Ref.isPrefix, ih]

theorem pathPrefix_iff (a b : List Name) : Posix.pathPrefix a b = true ↔ a <+: b := by
  rw [pathPrefix_eq]; exact TreeLemmas.isPrefix_iff a b

theorem file_not_proper_prefix {t : Node} {a b : List Name} {d : Bytes} {es : Ents}
    (ha : t.get a = some (.file d)) (h : a <+: b) (hne : a ≠ b)
    (hp : t.get b.dropLast = some (.dir es)) : False := by
  obtain ⟨c, r, rfl⟩ := prefix_ne_split h hne
  rw [List.dropLast_append_of_ne_nil (by simp), get_append, ha] at hp
  cases hx : (c :: r).dropLast with
  | nil => rw [hx] at hp; simp [Node.get] at hp
  | cons y ys => rw [hx] at hp; simp [Node.get] at hp

theorem parentDir_of_get {t : Node} {a : List Name} {n : Node} (ha : t.get a = some n) :
    Posix.parentDir t a = .ok () := by
  unfold Posix.parentDir
  by_cases hne : a = []
  · simp [hne]
  · obtain ⟨es, hp⟩ := get_parent_dir hne ha
    simp [hne, stat_eq, hp]

/-- `rename(file, dst)` succeeds exactly when `dst` could be opened for writing -/
theorem rename_file_ok {t : Node} {a b : List Name} {data : Bytes} {es : Ents}
    (ha : t.get a = some (.file data)) (hab : a ≠ b) (hbne : b ≠ [])
    (hp : t.get b.dropLast = some (.dir es)) (hnd : ∀ ds, t.get b ≠ some (.dir ds)) :
    Posix.rename t a b = .ok ((t.set b (.file data)).del a) := by
  have h1 : Posix.pathPrefix a b = false := by
    rw [Bool.eq_false_iff]; intro h
    exact file_not_proper_prefix ha ((pathPrefix_iff a b).1 h) hab hp
  have h2 : Posix.pathPrefix b a = false := by
    rw [Bool.eq_false_iff]; intro h
    obtain ⟨ds, hds⟩ := get_proper_prefix_dir ((pathPrefix_iff b a).1 h) (Ne.symm hab) ha
    exact hnd ds hds
  unfold Posix.rename
  rw [parentDir_of_get ha]
  simp only [Posix.parentDir, hbne, if_false, stat_eq, hp, ha, hab, h1, h2,
    Bool.false_eq_true, Node.isDir]
  cases hgb : t.get b with
  | none => simp
  | some n =>
    cases n with
    | file x => simp
    | dir ds => exact absurd hgb (hnd ds)

theorem rename_file_err {t : Node} {a b : List Name} {data : Bytes} (hd : t.isDir = true)
    (ha : t.get a = some (.file data)) (hab : a ≠ b)
    (hbad : b = [] ∨ (∀ es, t.get b.dropLast ≠ some (.dir es)) ∨ ∃ ds, t.get b = some (.dir ds)) :
    ∃ e, Posix.rename t a b = .error e := by
  obtain ⟨res, hr⟩ := root_dir hd
  have hane : a ≠ [] := by rintro rfl; simp [hr, Node.get] at ha
  unfold Posix.rename
  rw [parentDir_of_get ha]
  simp only [stat_eq, ha, hab, if_false]
  rcases hbad with rfl | hnp | ⟨ds, hds⟩
  · simp only [Posix.parentDir, if_true]
    have : Posix.pathPrefix a [] = false := by cases a <;> simp_all [Posix.pathPrefix]
    simp [this, Posix.pathPrefix]
  · by_cases hbne : b = []
    · subst hbne
      have : Posix.pathPrefix a [] = false := by cases a <;> simp_all [Posix.pathPrefix]
      simp [Posix.parentDir, this, Posix.pathPrefix]
    · simp only [Posix.parentDir, hbne, if_false, stat_eq]
      cases hp : t.get b.dropLast with
      | none => simp
      | some n =>
        cases n with
        | file x => simp
        | dir es => exact absurd hp (hnp es)
  · simp only [parentDir_of_get hds, hds, Node.isDir]
    cases Posix.pathPrefix a b <;> cases Posix.pathPrefix b a <;> simp

theorem flags_rb : ioOpenFlags (platformBin ['r', 'b']) = some ⟨true, false, false, false, false, false⟩ := by decide
theorem flags_wb : ioOpenFlags (platformBin ['w', 'b']) = some ⟨false, true, true, false, true, false⟩ := by decide

theorem openC_read_file (meth : String) (s : State) (a : List Name) (data : Bytes) (hd : s.root.isDir = true)
    (ha : s.root.get a = some (.file data)) : Os.openC meth s a ['r', 'b'] = (s, .ok a) := by
  obtain ⟨res, hr⟩ := root_dir hd
  have hane : a ≠ [] := by rintro rfl; simp [hr, Node.get] at ha
  obtain ⟨pes, hp⟩ := get_parent_dir hane ha
  have hl := get_split s.root a hane
  rw [ha, hp] at hl
  simp [Os.openC, hane, flags_rb, Posix.open_, stat_eq, hp, ← hl]

section
variable (s : State) (sp dp : Str) (a b : List Name) (hc : s.closed = false)
  (hva : validate sp = .ok a) (hvb : validate dp = .ok b)
  (hd : s.root.isDir = true) (hwf : s.root.wf = true)
include hc hva hvb hd hwf

theorem os_move (o : Bool) :
    Agree (adm2 s.root a b (.move sp dp o)) s (Os.step s (.move sp dp o)) (step2 s a b (.move sp dp o)) := by
  have hcla := validate_clean sp a hva
  have hclb := validate_clean dp b hvb
  obtain ⟨res, hr⟩ := root_dir hd
  have hroot : s.root.get [] = some (.dir res) := by simp [hr, Node.get]
  simp only [Os.step, Os.move, Os.vpath, vpath_open _ _ hc, hva, hvb, existsC_eq, getinfoC_eq, step2, parentOf]
  have hex : (if o = true then Res.ok false else Res.ok (s.root.get b).isSome) =
      Res.ok (!o && (s.root.get b).isSome) := by cases o <;> simp
  rw [hex]
  by_cases h1 : (!o && (s.root.get b).isSome) = true
  · have hadm : Err.DestinationExists ∈ adm2 s.root a b (.move sp dp o) := by
      cases o
      · simp only [Bool.not_false, Bool.true_and] at h1
        cases hgb : s.root.get b with
        | none => rw [hgb] at h1; cases h1
        | some n => cases n <;> simp [adm2, kindAt, hgb]
      · simp at h1
    simp only [h1]
    cases hga : s.root.get a with
    | none => exact agree_of_fails _ s .DestinationExists _ _ (by simp [fail]) (by simp [fail, Res.isOk]) hadm
    | some n =>
      cases n with
      | dir ds => exact agree_of_fails _ s .DestinationExists _ _ (by simp [fail]) (by simp [fail, Res.isOk]) hadm
      | file data => left; simp
  · simp only [Bool.not_eq_true] at h1
    simp only [h1]
    cases hga : s.root.get a with
    | none => left; simp
    | some n =>
      cases n with
      | dir ds => left; simp
      | file data =>
        left
        have hane : a ≠ [] := by rintro rfl; rw [hroot] at hga; cases hga
        simp only [Bool.false_eq_true, if_false]
        by_cases hab : a = b
        · simp [hab]
        · simp only [hab, if_false, openC_read_file "open" s a data hd hga, hga]
          rcases sit s.root b with h' | ⟨hne', hp', hg'⟩ | ⟨x', hne', hp', hg'⟩ | ⟨es', hne', hp', hl', hg'⟩ | ⟨es', n', hne', hp', hl', hg'⟩
          · subst h'
            obtain ⟨e, he⟩ := rename_file_err hd hga hab (Or.inl rfl)
            simp [he, Os.openC]
          · obtain ⟨e, he⟩ := rename_file_err hd hga hab (Or.inr (Or.inl (by simp [hp'])))
            cases hb : blockedByFile s.root [] b.dropLast <;>
              simp [he, Os.openC, hne', flags_wb, Posix.open_, stat_eq, hp', hb, tbl_openbin_ENOENT, tbl_openbin_ENOTDIR]
          · obtain ⟨e, he⟩ := rename_file_err hd hga hab (Or.inr (Or.inl (by simp [hp'])))
            simp [he, Os.openC, hne', flags_wb, Posix.open_, stat_eq, hp', tbl_openbin_ENOTDIR]
          · rw [rename_file_ok hga hab hne' hp' (by simp [hg'])]
            simp [hne', hp', hg']
          · rcases n' with d' | ds'
            · rw [rename_file_ok hga hab hne' hp' (by simp [hg'])]
              simp [hne', hp', hg']
            · obtain ⟨e, he⟩ := rename_file_err hd hga hab (Or.inr (Or.inr ⟨ds', hg'⟩))
              simp [he, Os.openC, hne', flags_wb, Posix.open_, stat_eq, hp', hl', hg', tbl_openbin_EISDIR]

end

theorem removetree_dir (s : State) (p : Str) (cs : List Name) (hc : s.closed = false) (hv : validate p = .ok cs)
    (es : Ents) (hne : cs ≠ []) (hg : s.root.get cs = some (.dir es)) :
    Os.removetree s p = upd s (s.root.del cs) := by
  obtain ⟨pes, hp⟩ := get_parent_dir hne hg
  have hs : (s.root.set cs (.dir [])).get cs = some (.dir []) := get_set_same cs _ _ pes hne hp
  simp [Os.removetree, Os.vpath, vpath_open _ _ hc, hv, Posix.pathIslink, stat_eq, hg,
    removeContents_ok (.dir es) rfl, hne, setAt, Posix.rmdir, hs, del_set, upd]

section
variable (s : State) (sp dp : Str) (a b : List Name) (hc : s.closed = false)
  (hva : validate sp = .ok a) (hvb : validate dp = .ok b)
  (hd : s.root.isDir = true) (hwf : s.root.wf = true)
include hc hva hvb hd hwf

theorem os_movedir (c : Bool) (hk : ¬ (b <+: a ∧ a ≠ b)) :
    Agree (adm2 s.root a b (.movedir sp dp c)) s (Os.step s (.movedir sp dp c))
      (step2 s a b (.movedir sp dp c)) := by
  have hcla := validate_clean sp a hva
  have hclb := validate_clean dp b hvb
  simp only [Os.step, Os.movedir, Os.vpath, vpath_open _ _ hc, hva, hvb, step2, parentOf,
    exists_eq_mem, mem_exists_eq s dp b hc hvb, getinfo_eq_mem, mem_getinfo_eq s sp a hc hva]
  by_cases hab : a = b
  · left; simp [hab]
  · by_cases hpre : Ref.isPrefix a b = true
    · left; simp [hab, hpre]
    · have hnab : ¬ a <+: b := fun h => hpre ((TreeLemmas.isPrefix_iff a b).2 h)
      have hnba : ¬ b <+: a := fun h => hk ⟨h, hab⟩
      have hane : a ≠ [] := by rintro rfl; exact hnab List.nil_prefix
      have hbne : b ≠ [] := by rintro rfl; exact hnba List.nil_prefix
      simp only [hab, hpre, if_false, Bool.false_eq_true]
      have hex : (if c = true then Res.ok true else Res.ok (s.root.get b).isSome) =
          Res.ok (c || (s.root.get b).isSome) := by cases c <;> simp
      rw [hex]
      cases hga : s.root.get a with
      | none =>
        -- the reference looks at the source first; OSFS at the destination: both fail
        cases hcb : (c || (s.root.get b).isSome)
        · left
          simp only [Bool.or_eq_false_iff] at hcb
          simp [hcb.1, Option.isSome_eq_false_iff.1 (by simpa using hcb.2)]
        · left; simp
      | some n =>
        rcases n with data | es
        · cases hcb : (c || (s.root.get b).isSome)
          · simp only [Bool.or_eq_false_iff] at hcb
            have hgb : s.root.get b = none := by
              cases h : s.root.get b with
              | none => rfl
              | some x => rw [h] at hcb; simp at hcb
            refine agree_of_fails _ s .ResourceNotFound _ _ (by simp [fail]) (by simp [fail, Res.isOk]) ?_
            simp [adm2, hab, kindAt, hgb, hcb.1]
          · left; simp
        · have hes : entsWf es = true := by simpa [Node.wf] using get_wf _ _ _ hwf hga
          rcases sit s.root b with h' | ⟨hne', hp', hg'⟩ | ⟨x', hne', hp', hg'⟩ | ⟨es', hne', hp', hl', hg'⟩ | ⟨es', n', hne', hp', hl', hg'⟩
          · exact absurd h' hbne
          · cases c
            · left; simp [hg']
            · simp only [Bool.true_or, hg']
              simp only [Os.makedir, Os.makedirC, Os.vpath, vpath_open _ _ hc, hvb, Posix.mkdir, hbne, if_false,
                stat_eq, hp']
              cases hb : blockedByFile s.root [] b.dropLast
              · left; simp [hp', fail]
              · refine agree_of_fails _ s .DirectoryExpected _ _ (by simp [tbl_makedir_ENOTDIR, fail])
                  (by simp [hp', fail, Res.isOk]) ?_
                simp [adm2, hab, blocked_parent_none hne' hp', hb]
          · cases c
            · left; simp [hg']
            · simp only [Bool.true_or, hg']
              simp only [Os.makedir, Os.makedirC, Os.vpath, vpath_open _ _ hc, hvb, Posix.mkdir, hbne, if_false,
                stat_eq, hp']
              refine agree_of_fails _ s .DirectoryExpected _ _ (by simp [tbl_makedir_ENOTDIR, fail])
                (by simp [hp', fail, Res.isOk]) ?_
              simp [adm2, hab, blocked_parent_file hne' hp']
          · left
            cases c
            · simp [hg']
            · have hs1 : (s.root.set b (.dir [])).get b = some (.dir []) := get_set_same b _ _ es' hne' hp'
              have hga2 : (s.root.set b (.dir es)).get a = some (.dir es) := by
                rw [get_set_other a b _ _ hnba hnab]; exact hga
              simp only [Bool.true_or, hg', hp']
              simp only [Os.makedir, Os.makedirC, Os.vpath, vpath_open _ _ hc, hvb, Posix.mkdir, hbne, if_false,
                stat_eq, hp', hl', upd, hs1, mergeEnts_fresh es [] hes (fun _ _ => rfl), List.nil_append,
                setAt, set_set]
              rw [removetree_dir ⟨s.root.set b (.dir es), s.closed⟩ sp a hc hva es hane hga2]
              simp [upd, done]
          · simp only [Option.isSome_some, Bool.or_true, hg', hp']
            simp only [Os.makedir, Os.makedirC, Os.vpath, vpath_open _ _ hc, hvb, Posix.mkdir, hbne, if_false,
              stat_eq, hp', hl', opendirCheckC_eq, hg', get_del_other a b s.root hnab hnba]
            rcases n' with data' | ds'
            · left; simp [tbl_makedir_EEXIST, fail]
            · left
              simp only [reduceCtorEq, if_false, Bool.and_true, decide_true, if_true, done, hg']
              cases hm : mergeEnts es ds' with
              | none => simp
              | some m =>
                have hga2 : (setAt s.root b (.dir m)).get a = some (.dir es) := by
                  simp only [setAt, hbne, if_false]
                  rw [get_set_other a b _ _ hnba hnab]; exact hga
                simp only []
                rw [removetree_dir ⟨setAt s.root b (.dir m), s.closed⟩ sp a hc hva es hane hga2]
                simp [setAt, hbne, set_del_comm a b s.root _ hnab hnba, upd, done]

end

end stepsB

end Fs.OsLemmas
