/-
  Lemmas about FTPFS-as-programs (`FsModel.Ftp`) run against the modelled server (`FsModel.FtpServer`):
  what every query and every essential method computes, in terms of `Node.get`.
-/
import FsModel.Ftp
import FsModel.Mem
import FsProofs.Lemmas.FtpServerLemmas
import FsProofs.Lemmas.OsLemmas

namespace Fs.FtpModelLemmas
open Fs Fs.Path Fs.Ref Fs.FtpParse Fs.FtpServer Fs.Ftp Fs.FtpLemmas Fs.FtpServerLemmas Fs.MemLemmas Fs.OsLemmas
set_option linter.unusedSimpArgs false
set_option linter.unusedVariables false

/-! ### running programs -/

@[simp] theorem run_ret (X : Server) (a : α) (t : Node) : Ftp.run X (.ret a) t = (t, a) := rfl
@[simp] theorem run_command (X : Server) (c : Cmd) (k : Reply → Prog α) (t : Node) :
    Ftp.run X (.cmd c k) t = Ftp.run X (k (X t c).2) (X t c).1 := rfl

theorem run_edit (X : Server) (l : String) (f : Node → Option Node) (k : Bool → Prog α) (t t' : Node)
    (h : f t = some t') : Ftp.run X (.edit l f k) t = Ftp.run X (k true) t' := by
  simp [Ftp.run, h]

theorem run_edit_none (X : Server) (l : String) (f : Node → Option Node) (k : Bool → Prog α) (t : Node)
    (h : f t = none) : Ftp.run X (.edit l f k) t = Ftp.run X (k false) t := by
  simp [Ftp.run, h]

theorem run_bind (X : Server) (p : Prog α) (f : α → Prog β) (t : Node) :
    Ftp.run X (p.bind f) t = Ftp.run X (f (Ftp.run X p t).2) (Ftp.run X p t).1 := by
  induction p generalizing t with
  | ret a => rfl
  | cmd c k ih => simp only [Prog.bind, run_command, ih]
  | edit l g k ih =>
    simp only [Prog.bind, Ftp.run]
    cases g t <;> simp [ih]

theorem run_bind_answers (X : Server) (p : Prog α) (f : α → Prog β) (t : Node) (a : α)
    (h : Ftp.run X p t = (t, a)) : Ftp.run X (p.bind f) t = Ftp.run X (f a) t := by
  rw [run_bind, h]

/-! ### FEAT -/

theorem dictGet_none (k : Str) (d : List (Str × Str)) (h : ∀ kv ∈ d, kv.1 ≠ k) : dictGet k d = none := by
  induction d with
  | nil => rfl
  | cons x rest ih =>
    obtain ⟨k', v'⟩ := x
    have : k' ≠ k := h (k', v') (by simp)
    simp only [dictGet, this, if_false]
    exact ih (fun kv hkv => h kv (by simp [hkv]))

theorem featLine_noBreak (kv : Str × Str) (h : NoBreak kv.1 ∧ NoBreak kv.2) : NoBreak (featLine kv) := by
  unfold featLine
  refine noBreak_cons (by decide) (noBreak_append h.1 ?_)
  split
  · exact noBreak_nil
  · exact noBreak_cons (by decide) h.2

/-- what `_open_ftp` learns from the FEAT reply of a conforming server: exactly the lines it sent -/
theorem run_features (cfg : Profile) (hcf : Conforming cfg) (t : Node) :
    Ftp.run (exec cfg) features t = (t, allFeats cfg) := by
  simp only [features, run_command, exec, run_ret]
  rw [feat_roundtrip_core (allFeats cfg) hcf.feat_keys hcf.feat_text hcf.feat_nodup]

theorem supports_mlst (cfg : Profile) (hcf : Conforming cfg) : (dictGet kMLST (allFeats cfg)).isSome = cfg.mlsd := by
  have hx : dictGet kMLST cfg.feats = none := dictGet_none _ _ (fun kv h => (hcf.feat_extra kv h).1)
  unfold allFeats
  cases cfg.mlsd <;> cases cfg.mfmt <;> simp [dictGet, hx, show kMFMT ≠ kMLST by decide]

theorem supports_mfmt (cfg : Profile) (hcf : Conforming cfg) : (dictGet kMFMT (allFeats cfg)).isSome = cfg.mfmt := by
  have hx : dictGet kMFMT cfg.feats = none := dictGet_none _ _ (fun kv h => (hcf.feat_extra kv h).2)
  unfold allFeats
  cases cfg.mlsd <;> cases cfg.mfmt <;> simp [dictGet, hx, show kMLST ≠ kMFMT by decide]

/-! ### the hypotheses of the refinement -/

/-- a conforming server holding a well-formed tree whose names and sizes the listing formats carry -/
structure Hyp (cfg : Profile) (t : Node) : Prop where
  conf : Conforming cfg
  isDir : t.isDir = true
  wf : t.wf = true
  ok : TreeOk cfg t

/-- the components of a validated path argument -/
structure PathOk (cfg : Profile) (cs : List Name) : Prop where
  clean : ∀ c ∈ cs, cleanName c = true
  name : ∀ c ∈ cs, NameOk cfg c

theorem statesSize_at {cfg : Profile} {t : Node} (h : Hyp cfg t) {cs : List Name} {n : Node}
    (hg : t.get cs = some n) : StatesSize cfg n :=
  statesSize_of cfg h.conf n (h.ok cs n hg).2

theorem ents_wf {t : Node} (hw : t.wf = true) {cs : List Name} {es : Ents} (hg : t.get cs = some (.dir es)) :
    entsWf es = true := by
  have := TreeLemmas.get_wf cs t _ hw hg
  simpa [Node.wf] using this

theorem lookup_of_mem (es : Ents) (hw : entsWf es = true) (kv : Name × Node) (h : kv ∈ es) :
    Ents.lookup kv.1 es = some kv.2 := by
  induction es with
  | nil => cases h
  | cons e rest ih =>
    obtain ⟨k, v⟩ := e
    simp only [entsWf, Bool.and_eq_true] at hw
    rcases List.mem_cons.1 h with rfl | hm
    · simp [Ents.lookup]
    · have hne : k ≠ kv.1 := by
        intro e; subst e
        rw [ih hw.2 hm] at hw
        simp at hw
      simp [Ents.lookup, hne, ih hw.2 hm]

theorem get_child {t : Node} {cs : List Name} {es : Ents} (hg : t.get cs = some (.dir es)) (k : Name) :
    t.get (cs ++ [k]) = Ents.lookup k es := by
  rw [TreeLemmas.get_append, hg]
  simp [QueryLemmas.get_single_dir]

/-- every entry of a directory of the tree is one the listing formats carry -/
theorem entries_ok {cfg : Profile} {t : Node} (h : Hyp cfg t) {cs : List Name} {es : Ents}
    (hg : t.get cs = some (.dir es)) (kv : Name × Node) (hm : kv ∈ es) :
    NameOk cfg kv.1 ∧ cleanName kv.1 = true ∧ StatesSize cfg kv.2 := by
  have hw := ents_wf h.wf hg
  have hl := lookup_of_mem es hw kv hm
  have hc : t.get (cs ++ [kv.1]) = some kv.2 := by rw [get_child hg, hl]
  have := h.ok _ _ hc
  refine ⟨this.1 kv.1 (by simp), ?_, statesSize_of cfg h.conf _ this.2⟩
  cases hcl : cleanName kv.1 with
  | true => rfl
  | false =>
    have := MemLemmas.lookup_unclean kv.1 es hw hcl
    rw [hl] at this
    cases this

/-! ### `_read_dir` -/

theorem listOk_of {cfg : Profile} {t : Node} (h : Hyp cfg t) (hm : cfg.mlsd = false) {cs : List Name} {es : Ents}
    (hg : t.get cs = some (.dir es)) : ∀ kv ∈ es, ListOk cfg kv := by
  intro kv hkv
  obtain ⟨hn, _, hs⟩ := entries_ok h hg kv hkv
  exact ⟨hn.2 hm, hn.1.2, hs⟩

theorem noEol_of_noCrLf {n : Name} (h : NoCrLf n) : NoEol n := by
  intro c r hcr
  have hmem : c ∈ n := by
    have : c ∈ n.reverse := by rw [hcr]; simp
    simpa using this
  have hr : c ≠ '\r' := by rintro rfl; exact h.1 hmem
  have hn : c ≠ '\n' := by rintro rfl; exact h.2 hmem
  simp [isEol, hr, hn]

theorem mlsdOk_of {cfg : Profile} {t : Node} (h : Hyp cfg t) {cs : List Name} {es : Ents}
    (hg : t.get cs = some (.dir es)) : ∀ kv ∈ es, MlsdOk cfg kv := by
  intro kv hkv
  obtain ⟨hn, hc, hs⟩ := entries_ok h hg kv hkv
  exact ⟨wfName_of_clean hc, noEol_of_noCrLf hn.1, hs⟩

theorem entries_nodup (cfg : Profile) (es : Ents) (hw : entsWf es = true) :
    ((es.map (entOf cfg)).map (·.1)).Nodup := by
  rw [names_entries]; exact QueryLemmas.entsWf_names_nodup es hw

/-- `_read_dir` of a directory: its entries, in order (on the LIST variant; on the MLSD variant it is only
    reached for a directory without entries) -/
theorem run_readDir {cfg : Profile} {t : Node} (h : Hyp cfg t) {cs : List Name} {es : Ents}
    (hg : t.get cs = some (.dir es)) (hv : cfg.mlsd = false ∨ es = []) :
    Ftp.run (exec cfg) (readDir cfg.cy cs) t = (t, .ok (es.map (entOf cfg))) := by
  have hl : ∀ kv ∈ es, ListOk cfg kv := by
    rcases hv with hv | hv
    · exact listOk_of h hv hg
    · subst hv; intro kv hkv; cases hkv
  obtain ⟨infos, hp, hm⟩ := list_listing cfg h.conf es hl
  simp only [readDir, run_command, exec, stat_some hg, hp, run_ret, hm]
  rw [odOf_nodup _ (entries_nodup cfg es (ents_wf h.wf hg))]

/-! ### `getinfo` -/

/-- the `Info` of the node at a path: the root has no name and no size -/
def entAt (cfg : Profile) (cs : List Name) (n : Node) : Ent :=
  if cs = [] then ([], true, 0) else (cs.getLast?.getD [], n.isDir, sizeOf cfg n)

def infoSpec (cfg : Profile) (t : Node) (cs : List Name) : Res Ent :=
  match t.get cs with
  | none => .err .ResourceNotFound
  | some n => .ok (entAt cfg cs n)

theorem pathOk_dropLast {cfg : Profile} {cs : List Name} (h : PathOk cfg cs) : PathOk cfg cs.dropLast :=
  ⟨fun c hc => h.clean c (List.dropLast_subset _ hc), fun c hc => h.name c (List.dropLast_subset _ hc)⟩

theorem ftpErrors_550 : ftpErrors true 550 = .ResourceNotFound := by decide
theorem ftpErrors_501 : ftpErrors true 501 = .ResourceNotFound := by decide

/-- `FTPFS.getinfo` finds exactly what is in the tree (MLST path and LIST path) -/
theorem run_getinfoC {cfg : Profile} {t : Node} (h : Hyp cfg t) : ∀ (fuel : Nat) (cs : List Name),
    cs.length < fuel → PathOk cfg cs →
    Ftp.run (exec cfg) (getinfoC cfg.cy cfg.mlsd fuel cs) t = (t, infoSpec cfg t cs)
  | 0, cs, hf, _ => absurd hf (Nat.not_lt_zero _)
  | fuel + 1, cs, hf, hp => by
    unfold getinfoC
    by_cases hne : cs = []
    · subst hne
      obtain ⟨es, hr⟩ := root_dir h.isDir
      simp [infoSpec, entAt, hr, Node.get]
    · simp only [hne, if_false]
      cases hm : cfg.mlsd with
      | true =>
        simp only [if_true]
        rw [run_bind]
        cases hg : t.get cs with
        | none =>
          simp [mlstInfo, exec, hm, stat_none hg, infoSpec, hg, ftpErrors_550]
        | some n =>
          obtain ⟨i, hi, hie⟩ := mlst_reply cfg h.conf cs n hne hp.clean (fun c hc => (hp.name c hc).1)
            (statesSize_at h hg)
          simp only [mlstInfo, run_command, exec, hm, stat_some hg, Bool.not_true, Bool.false_eq_true, if_false, hi, run_ret,
            infoSpec, hg, entAt, hne, mlsxEnt, hie]
      | false =>
        simp only [Bool.false_eq_true, if_false, Prog.bind]
        have hpos : cs.length ≠ 0 := fun h0 => hne (List.eq_nil_of_length_eq_zero h0)
        -- the parent, then its listing
        have hpar : Ftp.run (exec cfg)
            (if cs.dropLast = [] then (Prog.ret (Res.ok ()) : Prog (Res Unit))
             else (getinfoC cfg.cy false fuel cs.dropLast).bind parentIsDir) t =
            (t, match t.get cs.dropLast with
                | some (.dir _) => .ok ()
                | _ => .err .ResourceNotFound) := by
          by_cases hd : cs.dropLast = []
          · obtain ⟨es, hr⟩ := root_dir h.isDir
            simp [hd, hr, Node.get]
          · simp only [hd, if_false]
            have ih := run_getinfoC h fuel cs.dropLast (by simp only [List.length_dropLast]; omega) (pathOk_dropLast hp)
            rw [hm] at ih
            rw [run_bind, ih]
            simp only [infoSpec]
            cases hgp : t.get cs.dropLast with
            | none => rfl
            | some n => cases n <;> simp [parentIsDir, entAt, hd, Node.isDir]
        rw [run_bind, hpar]
        have hsplit := get_split t cs hne
        cases hgp : t.get cs.dropLast with
        | none => simp [infoSpec, hsplit, hgp]
        | some n =>
          cases n with
          | file b => simp [infoSpec, hsplit, hgp]
          | dir es =>
            simp only [run_bind, run_readDir h hgp (Or.inl hm), lookupEnt, odGet_entries, infoSpec, hsplit, hgp]
            cases hl : Ents.lookup (cs.getLast?.getD []) es with
            | none => rfl
            | some v => simp [entAt, hne, entOf]

/-! ### the hypotheses survive the writes a method makes before it looks again -/

/-- what can be found in a tree after `set`: something inside the new subtree, or something that was there
    before, of the same kind, a file with the same content -/
theorem get_set_cases (d : List Name) (t v : Node) : ∀ (q : List Name) (n : Node), (t.set d v).get q = some n →
    (∃ r, q = d ++ r ∧ v.get r = some n) ∨
    (∃ n', t.get q = some n' ∧ (∀ b, n = .file b → n' = .file b)) := by
  fun_induction Node.set d t v with
  | case1 n0 v => intro q n hq; exact Or.inr ⟨n, hq, fun b hb => hb⟩
  | case2 c es v =>
    intro q n hq
    cases q with
    | nil =>
      simp only [Node.get, Option.some.injEq] at hq
      exact Or.inr ⟨.dir es, rfl, fun b hb => by rw [← hq] at hb; cases hb⟩
    | cons c' qs =>
      by_cases hc : c' = c
      · subst hc
        simp only [Node.get, TreeLemmas.lookup_put_same] at hq
        exact Or.inl ⟨qs, rfl, hq⟩
      · simp only [Node.get, TreeLemmas.lookup_put_other _ _ _ _ hc] at hq
        exact Or.inr ⟨n, by simpa [Node.get] using hq, fun b hb => hb⟩
  | case3 c d2 ds es v ch hl ih =>
    intro q n hq
    cases q with
    | nil =>
      simp only [Node.get, Option.some.injEq] at hq
      exact Or.inr ⟨.dir es, rfl, fun b hb => by rw [← hq] at hb; cases hb⟩
    | cons c' qs =>
      by_cases hc : c' = c
      · subst hc
        simp only [Node.get, TreeLemmas.lookup_put_same] at hq
        rcases ih qs n hq with ⟨r, hr, hv⟩ | ⟨n', hn', hf⟩
        · exact Or.inl ⟨r, by rw [hr]; rfl, hv⟩
        · exact Or.inr ⟨n', by simpa [Node.get, hl] using hn', hf⟩
      · simp only [Node.get, TreeLemmas.lookup_put_other _ _ _ _ hc] at hq
        exact Or.inr ⟨n, by simpa [Node.get] using hq, fun b hb => hb⟩
  | case4 c d2 ds es v hl => intro q n hq; exact Or.inr ⟨n, hq, fun b hb => hb⟩
  | case5 c cs b v => intro q n hq; exact Or.inr ⟨n, hq, fun b hb => hb⟩

theorem sizeOk_of_same {n n' : Node} (h : ∀ b, n = .file b → n' = .file b) (hs : SizeOk n') : SizeOk n := by
  cases n with
  | dir es => trivial
  | file b => rw [h b rfl] at hs; exact hs

theorem treeOk_set {cfg : Profile} {t : Node} (hok : TreeOk cfg t) (d : List Name) (hd : ∀ c ∈ d, NameOk cfg c)
    (v : Node) (hv : TreeOk cfg v) : TreeOk cfg (t.set d v) := by
  intro q n hq
  rcases get_set_cases d t v q n hq with ⟨r, hr, hvr⟩ | ⟨n', hn', hf⟩
  · have := hv r n hvr
    refine ⟨?_, this.2⟩
    intro c hc
    rw [hr] at hc
    rcases List.mem_append.1 hc with h | h
    · exact hd c h
    · exact this.1 c h
  · have := hok q n' hn'
    exact ⟨this.1, sizeOk_of_same hf this.2⟩

theorem treeOk_emptyDir (cfg : Profile) : TreeOk cfg (.dir []) := by
  intro q n hq
  cases q with
  | nil => simp only [Node.get, Option.some.injEq] at hq; subst hq; exact ⟨by simp, trivial⟩
  | cons c r => simp [Node.get, Ents.lookup] at hq

theorem treeOk_file (cfg : Profile) (b : Bytes) (hs : SizeOk (.file b)) : TreeOk cfg (.file b) := by
  intro q n hq
  cases q with
  | nil => simp only [Node.get, Option.some.injEq] at hq; subst hq; exact ⟨by simp, hs⟩
  | cons c r => simp [Node.get] at hq

theorem treeOk_sub {cfg : Profile} {t : Node} (hok : TreeOk cfg t) {a : List Name} {v : Node}
    (hg : t.get a = some v) : TreeOk cfg v := by
  intro q n hq
  have : t.get (a ++ q) = some n := by rw [TreeLemmas.get_append, hg]; exact hq
  have := hok _ _ this
  exact ⟨fun c hc => this.1 c (List.mem_append_right _ hc), this.2⟩

theorem hyp_set {cfg : Profile} {t : Node} (h : Hyp cfg t) (d : List Name) (hp : PathOk cfg d) (v : Node)
    (hvw : v.wf = true) (hv : TreeOk cfg v) : Hyp cfg (t.set d v) :=
  ⟨h.conf, by rw [TreeLemmas.isDir_set]; exact h.isDir, TreeLemmas.set_wf d t v hp.clean hvw h.wf,
   treeOk_set h.ok d hp.name v hv⟩

/-! #### … and the merge of `copy_dir` -/

def EntsOk (cfg : Profile) (es : Ents) : Prop := ∀ kv ∈ es, NameOk cfg kv.1 ∧ TreeOk cfg kv.2

theorem mem_of_lookup (k : Name) (v : Node) (es : Ents) (h : Ents.lookup k es = some v) : (k, v) ∈ es := by
  induction es with
  | nil => simp [Ents.lookup] at h
  | cons e rest ih =>
    obtain ⟨k', v'⟩ := e
    by_cases hk : k' = k
    · subst hk
      simp only [Ents.lookup, if_true, Option.some.injEq] at h
      subst h; simp
    · simp only [Ents.lookup, hk, if_false] at h
      exact List.mem_cons_of_mem _ (ih h)

theorem treeOk_dir_of_ents {cfg : Profile} {es : Ents} (h : EntsOk cfg es) : TreeOk cfg (.dir es) := by
  intro q n hq
  cases q with
  | nil => simp only [Node.get, Option.some.injEq] at hq; subst hq; exact ⟨by simp, trivial⟩
  | cons k r =>
    simp only [Node.get] at hq
    cases hl : Ents.lookup k es with
    | none => rw [hl] at hq; cases hq
    | some ch =>
      rw [hl] at hq
      obtain ⟨hn, hc⟩ := h (k, ch) (mem_of_lookup k ch es hl)
      have := hc r n hq
      refine ⟨?_, this.2⟩
      intro c hcm
      rcases List.mem_cons.1 hcm with rfl | hm
      · exact hn
      · exact this.1 c hm

theorem ents_of_treeOk_dir {cfg : Profile} {es : Ents} (hw : entsWf es = true) (h : TreeOk cfg (.dir es)) :
    EntsOk cfg es := by
  intro kv hkv
  have hl := lookup_of_mem es hw kv hkv
  have hg : (Node.dir es).get [kv.1] = some kv.2 := by simp [Node.get, hl]
  refine ⟨(h _ _ hg).1 kv.1 (by simp), ?_⟩
  exact treeOk_sub h hg

theorem mem_put (k : Name) (n : Node) (ds : Ents) (kv : Name × Node) (h : kv ∈ Ents.put k n ds) :
    kv = (k, n) ∨ kv ∈ ds := by
  induction ds with
  | nil => simp only [Ents.put, List.mem_singleton] at h; exact Or.inl h
  | cons e rest ih =>
    obtain ⟨k', v'⟩ := e
    by_cases hk : k' = k
    · subst hk
      simp only [Ents.put, if_true, List.mem_cons] at h
      rcases h with h | h
      · exact Or.inl h
      · exact Or.inr (List.mem_cons_of_mem _ h)
    · simp only [Ents.put, hk, if_false, List.mem_cons] at h
      rcases h with h | h
      · exact Or.inr (by rw [h]; simp)
      · rcases ih h with h' | h'
        · exact Or.inl h'
        · exact Or.inr (List.mem_cons_of_mem _ h')

mutual
theorem mergeNode_ok {cfg : Profile} : ∀ (v : Node) (o : Option Node) (n : Node),
    v.wf = true → (∀ x, o = some x → x.wf = true) → TreeOk cfg v → (∀ x, o = some x → TreeOk cfg x) →
    mergeNode v o = some n → TreeOk cfg n
  | .file b, o, n, _, _, hv, _, hm => by
    cases o with
    | none => simp [mergeNode] at hm; subst hm; exact hv
    | some d =>
      cases d with
      | file _ => simp [mergeNode] at hm; subst hm; exact hv
      | dir _ => simp [mergeNode] at hm
  | .dir es, o, n, hw, how, hv, ho, hm => by
    simp only [Node.wf] at hw
    cases o with
    | none =>
      simp only [mergeNode, Option.map_eq_some_iff] at hm
      obtain ⟨m, hm, rfl⟩ := hm
      exact treeOk_dir_of_ents (mergeEnts_ok es [] m hw (by simp [entsWf]) (ents_of_treeOk_dir hw hv)
        (by intro kv hkv; cases hkv) hm)
    | some d =>
      cases d with
      | file _ => simp [mergeNode] at hm
      | dir ds =>
        simp only [mergeNode, Option.map_eq_some_iff] at hm
        obtain ⟨m, hm, rfl⟩ := hm
        have hdw := how _ rfl
        simp only [Node.wf] at hdw
        exact treeOk_dir_of_ents (mergeEnts_ok es ds m hw hdw (ents_of_treeOk_dir hw hv)
          (ents_of_treeOk_dir hdw (ho _ rfl)) hm)
theorem mergeEnts_ok {cfg : Profile} : ∀ (es ds m : Ents),
    entsWf es = true → entsWf ds = true → EntsOk cfg es → EntsOk cfg ds → mergeEnts es ds = some m → EntsOk cfg m
  | [], ds, m, _, _, _, hd, hm => by
    simp [mergeEnts] at hm; subst hm; exact hd
  | (k, v) :: es, ds, m, hw, hdw, he, hd, hm => by
    simp only [entsWf, Bool.and_eq_true] at hw
    simp only [mergeEnts] at hm
    cases hn : mergeNode v (Ents.lookup k ds) with
    | none => simp [hn] at hm
    | some n =>
      simp only [hn] at hm
      have hkv := he (k, v) (by simp)
      have hnw := TreeLemmas.mergeNode_wf v _ n hw.1.2 (fun x hx => TreeLemmas.lookup_wf _ _ _ hdw hx) hn
      have hnok := mergeNode_ok v _ n hw.1.2 (fun x hx => TreeLemmas.lookup_wf _ _ _ hdw hx) hkv.2
        (fun x hx => (hd (k, x) (mem_of_lookup k x ds hx)).2) hn
      refine mergeEnts_ok es _ m hw.2 (TreeLemmas.entsWf_put _ _ _ hw.1.1.1 hnw hdw)
        (fun kv hkv' => he kv (List.mem_cons_of_mem _ hkv')) ?_ hm
      intro kv hkv'
      rcases mem_put k n ds kv hkv' with rfl | hmem
      · exact ⟨hkv.1, hnok⟩
      · exact hd kv hmem
end

variable {cfg : Profile} {t : Node}

theorem run_getinfoP (h : Hyp cfg t) (cs : List Name) (hp : PathOk cfg cs) :
    Ftp.run (exec cfg) (getinfoP cfg.cy cfg.mlsd cs) t = (t, infoSpec cfg t cs) :=
  run_getinfoC h _ cs (Nat.lt_succ_self _) hp

def isDirAt (t : Node) (cs : List Name) : Bool :=
  match t.get cs with
  | some (.dir _) => true
  | _ => false

def isFileAt (t : Node) (cs : List Name) : Bool :=
  match t.get cs with
  | some (.file _) => true
  | _ => false

theorem entAt_isDir (cfg : Profile) (cs : List Name) (n : Node) (hd : cs = [] → n.isDir = true) :
    (entAt cfg cs n).2.1 = n.isDir := by
  unfold entAt
  by_cases h : cs = []
  · simp [h, hd h]
  · simp [h]

theorem root_isDir_of (h : Hyp cfg t) {cs : List Name} {n : Node} (hg : t.get cs = some n) : cs = [] → n.isDir = true := by
  rintro rfl
  simp only [Node.get, Option.some.injEq] at hg
  rw [← hg]; exact h.isDir

theorem run_existsC (h : Hyp cfg t) (cs : List Name) (hp : PathOk cfg cs) :
    Ftp.run (exec cfg) (existsC cfg.cy cfg.mlsd cs) t = (t, .ok (t.get cs).isSome) := by
  simp only [existsC, run_bind, run_getinfoP h cs hp, infoSpec]
  cases hg : t.get cs <;> rfl

theorem run_isdirC (h : Hyp cfg t) (cs : List Name) (hp : PathOk cfg cs) :
    Ftp.run (exec cfg) (isdirC cfg.cy cfg.mlsd cs) t = (t, .ok (isDirAt t cs)) := by
  simp only [isdirC, run_bind, run_getinfoP h cs hp, infoSpec, isDirAt]
  cases hg : t.get cs with
  | none => rfl
  | some n =>
    have := entAt_isDir cfg cs n (root_isDir_of h hg)
    cases n <;> simp_all [Node.isDir] <;> (simp only [run_ret]; rw [← this])

theorem run_isfileC (h : Hyp cfg t) (cs : List Name) (hp : PathOk cfg cs) :
    Ftp.run (exec cfg) (isfileC cfg.cy cfg.mlsd cs) t = (t, .ok (isFileAt t cs)) := by
  simp only [isfileC, run_bind, run_getinfoP h cs hp, infoSpec, isFileAt]
  cases hg : t.get cs with
  | none => rfl
  | some n =>
    have := entAt_isDir cfg cs n (root_isDir_of h hg)
    cases n <;> simp_all [Node.isDir] <;> (simp only [run_ret]; rw [← this])

def opendirSpec (t : Node) (cs : List Name) : Res Unit :=
  match t.get cs with
  | none => .err .ResourceNotFound
  | some (.file _) => .err .DirectoryExpected
  | some (.dir _) => .ok ()

theorem run_opendirC (h : Hyp cfg t) (cs : List Name) (hp : PathOk cfg cs) :
    Ftp.run (exec cfg) (opendirC cfg.cy cfg.mlsd cs) t = (t, opendirSpec t cs) := by
  simp only [opendirC, run_bind, run_getinfoP h cs hp, infoSpec, opendirSpec]
  cases hg : t.get cs with
  | none => rfl
  | some n =>
    have := entAt_isDir cfg cs n (root_isDir_of h hg)
    cases n <;> simp_all [Node.isDir] <;> (simp only [run_ret]; rw [← this])

def scandirSpec (cfg : Profile) (t : Node) (cs : List Name) : Res (List Ent) :=
  match t.get cs with
  | none => .err .ResourceNotFound
  | some (.file _) => .err .DirectoryExpected
  | some (.dir es) => .ok (es.map (entOf cfg))

/-- `FTPFS.scandir` lists exactly the entries of the directory (MLSD path, with its fall-through to LIST for
    a directory without entries and its `501` analysis; LIST path) -/
theorem run_scandirC (h : Hyp cfg t) (cs : List Name) (hp : PathOk cfg cs) :
    Ftp.run (exec cfg) (scandirC cfg.cy cfg.mlsd cs) t = (t, scandirSpec cfg t cs) := by
  unfold scandirC
  cases hm : cfg.mlsd with
  | true =>
    simp only [if_true, run_bind, run_ret, run_command, exec, hm, Bool.not_true, Bool.false_eq_true, if_false]
    cases hg : t.get cs with
    | none =>
      have hi := run_getinfoP h cs hp
      rw [hm] at hi
      simp [stat_none hg, isPerm, run_bind, hi, infoSpec, hg, scandirSpec]
    | some n =>
      cases n with
      | file b =>
        have hi := run_getinfoP h cs hp
        rw [hm] at hi
        have hne : cs ≠ [] := by
          rintro rfl
          have := root_isDir_of h hg rfl
          simp [Node.isDir] at this
        simp [stat_some hg, isPerm, run_bind, hi, infoSpec, hg, scandirSpec, entAt, hne, Node.isDir]
      | dir es =>
        simp only [stat_some hg, scandirSpec, hg]
        by_cases hes : es = []
        · subst hes
          have := run_readDir h hg (Or.inr rfl)
          simp only [List.map_nil, ne_eq, not_true_eq_false, if_false, this]
        · obtain ⟨infos, hpz, hmz⟩ := mlsd_listing cfg h.conf es (mlsdOk_of h hg)
          have hne : (es.map fun kv => mlsxLine cfg kv.1 kv.2) ≠ [] := by simpa using hes
          simp only [ne_eq, hne, not_false_eq_true, if_true, hpz, run_ret]
          rw [← hmz]; rfl
  | false =>
    have hi := run_getinfoP h cs hp
    rw [hm] at hi
    simp only [Bool.false_eq_true, if_false, run_bind, hi, infoSpec, scandirSpec]
    cases hg : t.get cs with
    | none => rfl
    | some n =>
      have hd := entAt_isDir cfg cs n (root_isDir_of h hg)
      cases n with
      | file b =>
        have : (entAt cfg cs (.file b)).2.1 = false := by rw [hd]; rfl
        simp only [this, run_ret]
        rfl
      | dir es =>
        have : (entAt cfg cs (.dir es)).2.1 = true := by rw [hd]; rfl
        simp only [this, if_true, run_ret, run_readDir h hg (Or.inl hm)]

def isemptySpec (t : Node) (cs : List Name) : Res Bool :=
  match t.get cs with
  | none => .err .ResourceNotFound
  | some (.file _) => .err .DirectoryExpected
  | some (.dir es) => .ok es.isEmpty

theorem run_isemptyC (h : Hyp cfg t) (cs : List Name) (hp : PathOk cfg cs) :
    Ftp.run (exec cfg) (isemptyC cfg.cy cfg.mlsd cs) t = (t, isemptySpec t cs) := by
  simp only [isemptyC, run_bind, run_scandirC h cs hp, scandirSpec, isemptySpec]
  cases hg : t.get cs with
  | none => rfl
  | some n => cases n <;> simp

/-! ### `makedir` -/

def unitVal : Res Unit → Out
  | .ok () => .ok .unit
  | .err e => .err e

def makedirSpec (t : Node) (cs : List Name) (rc : Bool) : Node × Res Unit :=
  if cs = [] then (t, if rc then .ok () else .err .DirectoryExists)
  else match t.get cs.dropLast with
    | some (.dir es) =>
      (match Ents.lookup (cs.getLast?.getD []) es with
       | some (.dir _) => (t, if rc then .ok () else .err .DirectoryExists)
       | some (.file _) => (t, .err (if rc then .DirectoryExpected else .DirectoryExists))
       | none => (t.set cs (.dir []), .ok ()))
    | _ => (t, .err .ResourceNotFound)

theorem isPerm_550 : isPerm 550 = true := by decide

theorem run_makedirC (h : Hyp cfg t) (cs : List Name) (hp : PathOk cfg cs) (rc : Bool) (p : Str)
    (hv : Ftp.validate p = .ok cs) :
    Ftp.run (exec cfg) (makedir cfg.cy cfg.mlsd p rc) t = makedirSpec t cs rc := by
  unfold makedir makedirSpec
  simp only [hv]
  rcases sit t cs with hr | ⟨hne, hpa, hg⟩ | ⟨b, hne, hpa, hg⟩ | ⟨es, hne, hpa, hl, hg⟩ | ⟨es, n, hne, hpa, hl, hg⟩
  · subst hr
    obtain ⟨res, hroot⟩ := root_dir h.isDir
    have hg0 : t.get [] = some (.dir res) := by rw [hroot]; rfl
    cases rc <;> simp [run_opendirC h [] hp, opendirSpec, hg0]
  · simp only [hne, if_false, hpa]
    cases rc <;>
      simp [run_bind, run_isdirC h cs hp, run_existsC h cs hp, isDirAt, hg, exec, Posix.mkdir, stat_none hpa, hne,
        isPerm_550]
  · simp only [hne, if_false, hpa]
    cases rc <;>
      simp [run_bind, run_isdirC h cs hp, run_existsC h cs hp, isDirAt, hg, exec, Posix.mkdir, stat_some hpa, hne,
        isPerm_550]
  · simp only [hne, if_false, hpa, hl]
    have h' : Hyp cfg (t.set cs (.dir [])) := hyp_set h cs hp _ rfl (treeOk_emptyDir cfg)
    have hnew : (t.set cs (.dir [])).get cs = some (.dir []) := TreeLemmas.get_set_same cs t _ es hne hpa
    cases rc <;>
      simp [run_bind, run_isdirC h cs hp, isDirAt, hg, exec, Posix.mkdir, stat_some hpa, hne, hl,
        run_opendirC h' cs hp, opendirSpec, hnew]
  · simp only [hne, if_false, hpa, hl]
    cases n with
    | dir ds =>
      cases rc <;>
        simp [run_bind, run_isdirC h cs hp, run_existsC h cs hp, isDirAt, hg, exec, Posix.mkdir, stat_some hpa, hne, hl,
          isPerm_550, run_opendirC h cs hp, opendirSpec]
    | file b =>
      cases rc <;>
        simp [run_bind, run_isdirC h cs hp, run_existsC h cs hp, isDirAt, hg, exec, Posix.mkdir, stat_some hpa, hne, hl,
          isPerm_550]

/-! ### writing and reading whole files -/

/-- the contract of a whole-file write (`Ref.writeFile`), as a tree and a verdict -/
def writeSpec (t : Node) (cs : List Name) (f : Option Bytes → Bytes) : Node × Res Unit :=
  if cs = [] then (t, .err .FileExpected)
  else match t.get cs.dropLast with
    | some (.dir es) =>
      (match Ents.lookup (cs.getLast?.getD []) es with
       | some (.dir _) => (t, .err .FileExpected)
       | some (.file b) => (t.set cs (.file (f (some b))), .ok ())
       | none => (t.set cs (.file (f none)), .ok ()))
    | _ => (t, .err .ResourceNotFound)

theorem isDirAt_root (h : Hyp cfg t) : isDirAt t [] = true := by
  obtain ⟨res, hroot⟩ := root_dir h.isDir
  simp [isDirAt, hroot, Node.get]

theorem pathOk_nil (cfg : Profile) : PathOk cfg [] := ⟨by simp, by simp⟩

theorem run_storEmpty (h : Hyp cfg t) (cs : List Name) (hp : PathOk cfg cs) :
    Ftp.run (exec cfg) (storEmpty cs) t =
      ((writeSpec t cs fun _ => []).1, match (writeSpec t cs fun _ => []).2 with
        | .ok () => .ok ()
        | .err _ => .err .ResourceNotFound) := by
  unfold storEmpty writeSpec
  rcases sit t cs with hr | ⟨hne, hpa, hg⟩ | ⟨b, hne, hpa, hg⟩ | ⟨es, hne, hpa, hl, hg⟩ | ⟨es, n, hne, hpa, hl, hg⟩
  · subst hr; simp [exec, Posix.open_, flWb, ftpErrors_550]
  · simp [exec, Posix.open_, flWb, stat_none hpa, hne, hpa, ftpErrors_550]
  · simp [exec, Posix.open_, flWb, stat_some hpa, hne, hpa, ftpErrors_550]
  · simp [exec, Posix.open_, flWb, stat_some hpa, hne, hpa, hl, set_set]
  · cases n <;> simp [exec, Posix.open_, flWb, stat_some hpa, hne, hpa, hl, set_set, ftpErrors_550]

/-- `FTPFS.upload` of a whole file = the contract of `writebytes` -/
theorem run_uploadC (h : Hyp cfg t) (cs : List Name) (hp : PathOk cfg cs) (data : Bytes) :
    Ftp.run (exec cfg) (uploadC cfg.cy cfg.mlsd cs data) t = writeSpec t cs fun _ => data := by
  unfold uploadC writeSpec fileCmdError
  rcases sit t cs with hr | ⟨hne, hpa, hg⟩ | ⟨b, hne, hpa, hg⟩ | ⟨es, hne, hpa, hl, hg⟩ | ⟨es, n, hne, hpa, hl, hg⟩
  · subst hr
    simp [exec, Posix.open_, flWb, isPerm_550, run_bind, run_isdirC h [] hp, isDirAt_root h]
  · simp [exec, Posix.open_, flWb, stat_none hpa, hne, hpa, isPerm_550, run_bind, run_isdirC h cs hp, isDirAt, hg,
      ftpErrors_550]
  · simp [exec, Posix.open_, flWb, stat_some hpa, hne, hpa, isPerm_550, run_bind, run_isdirC h cs hp, isDirAt, hg,
      ftpErrors_550]
  · simp [exec, Posix.open_, flWb, stat_some hpa, hne, hpa, hl, set_set]
  · cases n <;> simp [exec, Posix.open_, flWb, stat_some hpa, hne, hpa, hl, set_set, isPerm_550, run_bind,
      run_isdirC h cs hp, isDirAt, hg]

def readSpec (t : Node) (cs : List Name) : Res Bytes :=
  match t.get cs with
  | none => .err .ResourceNotFound
  | some (.dir _) => .err .FileExpected
  | some (.file b) => .ok b

theorem run_readbytesC (h : Hyp cfg t) (cs : List Name) (hp : PathOk cfg cs) :
    Ftp.run (exec cfg) (readbytesC cfg.cy cfg.mlsd cs) t = (t, readSpec t cs) := by
  unfold readbytesC readSpec fileCmdError
  rcases sit t cs with hr | ⟨hne, hpa, hg⟩ | ⟨b, hne, hpa, hg⟩ | ⟨es, hne, hpa, hl, hg⟩ | ⟨es, n, hne, hpa, hl, hg⟩
  · subst hr
    obtain ⟨res, hroot⟩ := root_dir h.isDir
    have hg0 : t.get [] = some (.dir res) := by rw [hroot]; rfl
    simp [exec, Posix.open_, flRb, isPerm_550, run_bind, run_isdirC h [] hp, isDirAt_root h, hg0]
  · simp [exec, Posix.open_, flRb, stat_none hpa, hne, hpa, isPerm_550, run_bind, run_isdirC h cs hp, isDirAt, hg,
      ftpErrors_550]
  · simp [exec, Posix.open_, flRb, stat_some hpa, hne, hpa, isPerm_550, run_bind, run_isdirC h cs hp, isDirAt, hg,
      ftpErrors_550]
  · simp [exec, Posix.open_, flRb, stat_some hpa, hne, hpa, hl, isPerm_550, run_bind, run_isdirC h cs hp, isDirAt, hg,
      ftpErrors_550]
  · cases n <;> simp [exec, Posix.open_, flRb, stat_some hpa, hne, hpa, hl, isPerm_550, run_bind,
      run_isdirC h cs hp, isDirAt, hg, contentAt]

/-! ### `openbin` -/

def openbinSpec (t : Node) (cs : List Name) (md : Mode) : Node × Res (List Name) :=
  if cs = [] then (t, .err .FileExpected)
  else match t.get cs.dropLast with
    | some (.dir es) =>
      (match Ents.lookup (cs.getLast?.getD []) es with
       | some (.dir _) => (t, .err .FileExpected)
       | some (.file _) =>
         if md.exclusive then (t, .err .FileExists)
         else if md.truncate then (t.set cs (.file []), .ok cs) else (t, .ok cs)
       | none => if md.create then (t.set cs (.file []), .ok cs) else (t, .err .ResourceNotFound))
    | _ => (t, .err .ResourceNotFound)

theorem run_openbin (h : Hyp cfg t) (cs : List Name) (hp : PathOk cfg cs) (p mode : Str) (md : Mode)
    (hm : parseBinMode mode = some md) (hv : Ftp.validate p = .ok cs) :
    Ftp.run (exec cfg) (openbin cfg.cy cfg.mlsd p mode) t = openbinSpec t cs md := by
  unfold openbin openbinSpec
  simp only [hm, hv, run_bind, run_getinfoP h cs hp, infoSpec]
  rcases sit t cs with hr | ⟨hne, hpa, hg⟩ | ⟨b, hne, hpa, hg⟩ | ⟨es, hne, hpa, hl, hg⟩ | ⟨es, n, hne, hpa, hl, hg⟩
  · subst hr
    obtain ⟨res, hroot⟩ := root_dir h.isDir
    have hg0 : t.get [] = some (.dir res) := by rw [hroot]; rfl
    simp [hg0, entAt]
  · cases hcr : md.create <;>
      simp [hg, hne, hpa, hcr, run_bind, run_isdirC h cs.dropLast (pathOk_dropLast hp), isDirAt]
  · cases hcr : md.create <;>
      simp [hg, hne, hpa, hcr, run_bind, run_isdirC h cs.dropLast (pathOk_dropLast hp), isDirAt]
  · have hw := run_storEmpty h cs hp
    simp only [writeSpec, hne, if_false, hpa, hl] at hw
    cases hcr : md.create <;>
      simp [hg, hne, hpa, hl, hcr, run_bind, run_isdirC h cs.dropLast (pathOk_dropLast hp), isDirAt, hw]
  · have hw := run_storEmpty h cs hp
    simp only [writeSpec, hne, if_false, hpa, hl] at hw
    cases n with
    | dir ds => simp [hg, hne, hpa, hl, entAt, Node.isDir]
    | file b =>
      cases hex : md.exclusive <;> cases htr : md.truncate <;>
        simp [hg, hne, hpa, hl, entAt, Node.isDir, hex, htr, run_bind, hw]

/-! ### `create`, `setinfo`, `remove`, `removedir` -/

def createSpec (t : Node) (cs : List Name) (wipe : Bool) : Node × Res Bool :=
  if !wipe && (t.get cs).isSome then (t, .ok false)
  else ((writeSpec t cs fun _ => []).1, match (writeSpec t cs fun _ => []).2 with
    | .ok () => .ok true
    | .err e => .err e)

theorem run_create (h : Hyp cfg t) (cs : List Name) (hp : PathOk cfg cs) (p : Str) (wipe : Bool)
    (hv : Ftp.validate p = .ok cs) :
    Ftp.run (exec cfg) (create cfg.cy cfg.mlsd p wipe) t = createSpec t cs wipe := by
  unfold create createSpec
  have hw := run_storEmpty h cs hp
  simp only [hv]
  rcases sit t cs with hr | ⟨hne, hpa, hg⟩ | ⟨b, hne, hpa, hg⟩ | ⟨es, hne, hpa, hl, hg⟩ | ⟨es, n, hne, hpa, hl, hg⟩
  · subst hr
    obtain ⟨res, hroot⟩ := root_dir h.isDir
    have hg0 : t.get [] = some (.dir res) := by rw [hroot]; rfl
    cases wipe <;> simp [run_bind, run_existsC h [] hp, run_isdirC h [] hp, isDirAt_root h, hg0, writeSpec]
  · simp only [writeSpec, hne, if_false, hpa] at hw ⊢
    cases wipe <;> simp [run_bind, run_existsC h cs hp, run_isdirC h cs hp, isDirAt, hg, hw]
  · simp only [writeSpec, hne, if_false, hpa] at hw ⊢
    cases wipe <;> simp [run_bind, run_existsC h cs hp, run_isdirC h cs hp, isDirAt, hg, hw]
  · simp only [writeSpec, hne, if_false, hpa, hl] at hw ⊢
    cases wipe <;> simp [run_bind, run_existsC h cs hp, run_isdirC h cs hp, isDirAt, hg, hw]
  · simp only [writeSpec, hne, if_false, hpa, hl] at hw ⊢
    cases n <;> cases wipe <;> simp [run_bind, run_existsC h cs hp, run_isdirC h cs hp, isDirAt, hg, hw] <;> simp_all

def setinfoSpec (t : Node) (cs : List Name) : Res Unit :=
  if (t.get cs).isSome then .ok () else .err .ResourceNotFound

theorem run_setinfo (h : Hyp cfg t) (cs : List Name) (hp : PathOk cfg cs) (p : Str) (mf : Bool)
    (hmf : mf = cfg.mfmt) (hv : Ftp.validate p = .ok cs) :
    Ftp.run (exec cfg) (setinfo cfg.cy cfg.mlsd mf p) t = (t, setinfoSpec t cs) := by
  unfold setinfo setinfoSpec
  subst hmf
  simp only [hv]
  cases hmf : cfg.mfmt with
  | false =>
    simp only [Bool.false_eq_true, if_false, run_bind, run_existsC h cs hp]
    cases (t.get cs).isSome <;> rfl
  | true =>
    simp only [if_true, run_command, exec, hmf, Bool.not_true, Bool.false_eq_true, if_false]
    cases hg : t.get cs with
    | none => simp [stat_none hg, isPerm_550, run_bind, run_existsC h cs hp, hg]
    | some n => cases n <;> simp [stat_some hg, isPerm_550, run_bind, run_existsC h cs hp, hg]

def removeSpec (t : Node) (cs : List Name) : Node × Res Unit :=
  match t.get cs with
  | none => (t, .err .ResourceNotFound)
  | some (.dir _) => (t, .err .FileExpected)
  | some (.file _) => (t.del cs, .ok ())

theorem run_removeC (h : Hyp cfg t) (cs : List Name) (hp : PathOk cfg cs) :
    Ftp.run (exec cfg) (removeC cfg.cy cfg.mlsd cs) t = removeSpec t cs := by
  unfold removeC removeSpec
  simp only [run_bind, run_isdirC h cs hp, isDirAt]
  cases hg : t.get cs with
  | none => simp [exec, Posix.unlink, stat_none hg, ftpErrors_550]
  | some n => cases n <;> simp [exec, Posix.unlink, stat_some hg]

def removedirSpec (t : Node) (cs : List Name) : Node × Res Unit :=
  if cs = [] then (t, .err .RemoveRootError)
  else match t.get cs with
    | none => (t, .err .ResourceNotFound)
    | some (.file _) => (t, .err .DirectoryExpected)
    | some (.dir es) => if es.isEmpty then (t.del cs, .ok ()) else (t, .err .DirectoryNotEmpty)

theorem run_removedirC (h : Hyp cfg t) (cs : List Name) (hp : PathOk cfg cs) :
    Ftp.run (exec cfg) (removedirC cfg.cy cfg.mlsd cs) t = removedirSpec t cs := by
  unfold removedirC removedirSpec
  by_cases hne : cs = []
  · simp [hne]
  · simp only [hne, if_false, run_command, exec]
    cases hg : t.get cs with
    | none =>
      simp [Posix.rmdir, stat_none hg, isPerm_550, run_bind, run_isfileC h cs hp, isFileAt, hg,
        run_isemptyC h cs hp, isemptySpec]
    | some n =>
      cases n with
      | file b =>
        simp [Posix.rmdir, stat_some hg, isPerm_550, run_bind, run_isfileC h cs hp, isFileAt, hg]
      | dir es =>
        cases hes : es.isEmpty <;>
          simp [Posix.rmdir, stat_some hg, hne, hes, isPerm_550, run_bind, run_isfileC h cs hp, isFileAt, hg,
            run_isemptyC h cs hp, isemptySpec]

/-! ### `appendbytes`, `touch`, `removetree` -/

theorem lookup_of_get {t : Node} {cs : List Name} {n : Node} (hne : cs ≠ []) (hg : t.get cs = some n) :
    ∃ es, t.get cs.dropLast = some (.dir es) ∧ Ents.lookup (cs.getLast?.getD []) es = some n := by
  obtain ⟨es, hpa⟩ := TreeLemmas.get_parent_dir hne hg
  refine ⟨es, hpa, ?_⟩
  have := get_split t cs hne
  simp only [hpa] at this
  rw [← this]; exact hg

theorem exec_appe_file (cfg : Profile) {t : Node} {cs : List Name} {b : Bytes} (hne : cs ≠ [])
    (hg : t.get cs = some (.file b)) (data : Bytes) :
    exec cfg t (.appe cs data) = (t.set cs (.file (b ++ data)), .ok 226 []) := by
  obtain ⟨es, hpa, hl⟩ := lookup_of_get hne hg
  simp [exec, Posix.open_, flAb, stat_some hpa, hne, hl, contentAt, hg]

theorem run_appendbytes (h : Hyp cfg t) (cs : List Name) (hp : PathOk cfg cs) (p : Str) (data : Bytes)
    (hv : Ftp.validate p = .ok cs) :
    Ftp.run (exec cfg) (appendbytes cfg.cy cfg.mlsd p data) t = writeSpec t cs fun o => o.getD [] ++ data := by
  unfold appendbytes
  rw [run_bind, run_openbin h cs hp p _ _ mode_ab hv]
  unfold openbinSpec writeSpec
  rcases sit t cs with hr | ⟨hne, hpa, hg⟩ | ⟨b, hne, hpa, hg⟩ | ⟨es, hne, hpa, hl, hg⟩ | ⟨es, n, hne, hpa, hl, hg⟩
  · subst hr; simp
  · simp [hne, hpa]
  · simp [hne, hpa]
  · have hnew : (t.set cs (.file [])).get cs = some (.file []) := TreeLemmas.get_set_same cs t _ es hne hpa
    simp [hne, hpa, hl, exec_appe_file cfg hne hnew, set_set]
  · cases n with
    | dir ds => simp [hne, hpa, hl]
    | file b => simp [hne, hpa, hl, exec_appe_file cfg hne hg]

def touchSpec (t : Node) (cs : List Name) : Node × Res Unit :=
  if (t.get cs).isSome then (t, .ok ()) else writeSpec t cs fun _ => []

theorem run_touch (h : Hyp cfg t) (cs : List Name) (hp : PathOk cfg cs) (p : Str) (mf : Bool)
    (hmf : mf = cfg.mfmt) (hv : Ftp.validate p = .ok cs) :
    Ftp.run (exec cfg) (touch cfg.cy cfg.mlsd mf p) t = touchSpec t cs := by
  unfold touch touchSpec
  rw [run_bind, run_create h cs hp p false hv]
  unfold createSpec
  cases hg : (t.get cs).isSome with
  | true => simp [run_setinfo h cs hp p mf hmf hv, setinfoSpec, hg]
  | false =>
    simp only [Bool.not_false, Bool.and_false, Bool.false_eq_true, if_false]
    cases hw : (writeSpec t cs fun _ => []).2 with
    | ok u => cases u; simp [hw]; rw [← hw]
    | err e => simp [hw]; rw [← hw]

theorem normpath_ok_of_validate {p : Str} {cs : List Name} (hv : Ftp.validate p = .ok cs) :
    ∃ q, normpath p = .ok q := by
  unfold Ftp.validate at hv
  split at hv
  · cases hv
  · unfold iteratepath at hv
    cases hn : normpath p with
    | ok q => exact ⟨q, rfl⟩
    | err e => rw [hn] at hv; cases hv

def removetreeSpec (t : Node) (cs : List Name) : Node × Res Unit :=
  match t.get cs with
  | none => (t, .err .ResourceNotFound)
  | some (.file _) => (t, .err .DirectoryExpected)
  | some (.dir _) => (if cs = [] then .dir [] else t.del cs, .ok ())

theorem run_removetree (h : Hyp cfg t) (cs : List Name) (hp : PathOk cfg cs) (p : Str)
    (hv : Ftp.validate p = .ok cs) :
    Ftp.run (exec cfg) (removetree cfg.cy cfg.mlsd p) t = removetreeSpec t cs := by
  obtain ⟨q, hq⟩ := normpath_ok_of_validate hv
  unfold removetree removetreeSpec
  simp only [hq, hv, run_bind, run_scandirC h cs hp, scandirSpec]
  cases hg : t.get cs with
  | none => rfl
  | some n =>
    cases n with
    | file b => rfl
    | dir es =>
      by_cases hne : cs = []
      · subst hne
        simp [Ftp.run, setAt]
      · have h' : Hyp cfg (t.set cs (.dir [])) := hyp_set h cs hp _ rfl (treeOk_emptyDir cfg)
        obtain ⟨pes, hpa⟩ := TreeLemmas.get_parent_dir hne hg
        have hnew : (t.set cs (.dir [])).get cs = some (.dir []) := TreeLemmas.get_set_same cs t _ pes hne hpa
        simp only [Ftp.run, setAt, hne, if_false, run_removedirC h' cs hp, removedirSpec, hnew, List.isEmpty_nil,
          if_true, del_set]

end Fs.FtpModelLemmas
