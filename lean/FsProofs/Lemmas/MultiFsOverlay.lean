/-
  Helper lemmas for FsProofs/MultiRefines.lean: the overlay tree of a stack of layers
  (`MultiFs.overNode`, `overEnts`, `overlayRoots`, `overlay`).

  `Cons2 a b`        the two trees never disagree on the TYPE of a path both have;
  `ovAt xs`          the overlay of the nodes the layers hold at ONE path (highest priority first);
  `overlayRoots_get` under pairwise consistency, reading a path in the overlay = `ovAt` of what the layers
                     hold there: the first layer that has the path decides file/dir and the file's bytes,
                     directories merge.
-/
import FsProofs.Lemmas.MultiFsLemmas

namespace Fs.MultiFsLemmas
open Fs Fs.Ref Fs.MultiFs

theorem overNode_none (n : Node) : overNode n none = n := by cases n <;> simp [overNode]

theorem overNode_file (b : Bytes) (o : Option Node) : overNode (.file b) o = .file b := by simp [overNode]

theorem overNode_isDir (n : Node) (o : Option Node) : (overNode n o).isDir = n.isDir := by
  cases n with
  | file b => simp [overNode]
  | dir es =>
    cases o with
    | none => simp [overNode]
    | some m => cases m <;> simp [overNode, Node.isDir]

theorem lookup_overEnts (c : Name) : ∀ (es ds : Ents),
    Ents.lookup c (overEnts es ds) = match Ents.lookup c es with
      | some v => some (overNode v (Ents.lookup c ds))
      | none => Ents.lookup c ds := by
  intro es
  induction es with
  | nil => intro ds; simp [overEnts, Ents.lookup]
  | cons e es ih =>
    intro ds
    obtain ⟨k, v⟩ := e
    by_cases hk : k = c
    · subst hk; simp [overEnts, Ents.lookup]
    · simp only [overEnts, Ents.lookup, hk, if_false]
      rw [ih (Ents.erase k ds), TreeLemmas.lookup_erase_other k c ds (Ne.symm hk)]

/-- the two trees never disagree on the type of a path both have -/
def Cons2 (a b : Node) : Prop := ∀ cs x y, a.get cs = some x → b.get cs = some y → x.isDir = y.isDir

theorem Cons2.child {es ds : Ents} (h : Cons2 (.dir es) (.dir ds)) {c : Name} {v w : Node}
    (hv : Ents.lookup c es = some v) (hw : Ents.lookup c ds = some w) : Cons2 v w := by
  intro cs x y hx hy
  exact h (c :: cs) x y (by simp [Node.get, hv, hx]) (by simp [Node.get, hw, hy])

/-- reading a path in `hi` over `lo` -/
theorem get_overNode : ∀ (cs : List Name) (a b : Node), Cons2 a b →
    (overNode a (some b)).get cs = match a.get cs with
      | some x => some (overNode x (b.get cs))
      | none => b.get cs := by
  intro cs
  induction cs with
  | nil => intro a b _; simp [Node.get]
  | cons c cs ih =>
    intro a b hc
    cases a with
    | file d =>
      have hb : b.isDir = false := by
        have := hc [] (.file d) b (by simp [Node.get]) (by simp [Node.get])
        simpa [Node.isDir] using this.symm
      cases b with
      | file d' => simp [overNode, Node.get]
      | dir ds => simp [Node.isDir] at hb
    | dir es =>
      cases b with
      | file d' =>
        have := hc [] (.dir es) (.file d') (by simp [Node.get]) (by simp [Node.get])
        simp [Node.isDir] at this
      | dir ds =>
        simp only [overNode, Node.get, lookup_overEnts]
        cases hv : Ents.lookup c es with
        | none => simp
        | some v =>
          cases hw : Ents.lookup c ds with
          | none => simp only [overNode_none]; cases v.get cs <;> simp
          | some w => simp only; exact ih v w (hc.child hv hw)

/-- the overlay of what the layers hold at one path, highest priority first -/
def ovAt : List (Option Node) → Option Node
  | [] => none
  | none :: xs => ovAt xs
  | some x :: xs => some (overNode x (ovAt xs))

theorem ovAt_all_none : ∀ (xs : List (Option Node)), (∀ x ∈ xs, x = none) → ovAt xs = none
  | [], _ => rfl
  | none :: xs, h => by simp [ovAt, ovAt_all_none xs (fun x hx => h x (by simp [hx]))]
  | some x :: xs, h => by have := h (some x) (by simp); cases this

/-- a node of `ovAt` has the type (and, for a file, the bytes) of the FIRST layer that has the path -/
theorem ovAt_some : ∀ (xs : List (Option Node)) (y : Node), ovAt xs = some y →
    ∃ x, some x ∈ xs ∧ y.isDir = x.isDir
  | [], y, h => by cases h
  | none :: xs, y, h => by
    obtain ⟨x, hx, hd⟩ := ovAt_some xs y (by simpa [ovAt] using h)
    exact ⟨x, by simp [hx], hd⟩
  | some x :: xs, y, h => by
    simp only [ovAt, Option.some.injEq] at h
    exact ⟨x, by simp, by rw [← h, overNode_isDir]⟩

/-- **reading a path in the overlay**: under pairwise type consistency it is `ovAt` of what the layers
hold at that path -/
theorem overlayRoots_get : ∀ (rs : List Node), rs.Pairwise Cons2 → ∀ cs : List Name,
    (overlayRoots rs).bind (fun n => n.get cs) = ovAt (rs.map fun n => n.get cs) := by
  intro rs
  induction rs with
  | nil => intro _ cs; rfl
  | cons r rs ih =>
    intro hp cs
    have hp' := List.pairwise_cons.1 hp
    have ih' := ih hp'.2
    simp only [overlayRoots, Option.bind_some, List.map_cons]
    cases hb : overlayRoots rs with
    | none =>
      have hnil : rs = [] := by cases rs <;> simp_all [overlayRoots]
      subst hnil
      simp only [overNode_none, List.map_nil]
      cases r.get cs <;> simp [ovAt, overNode_none]
    | some b =>
      have hcons : Cons2 r b := by
        intro q x y hx hy
        have h1 := ih' q
        rw [hb] at h1
        simp only [Option.bind_some] at h1
        rw [hy] at h1
        obtain ⟨x', hx', hd⟩ := ovAt_some _ y h1.symm
        obtain ⟨r', hr', hx''⟩ := List.mem_map.1 hx'
        rw [hd]
        exact hp'.1 r' hr' q x x' hx hx''
      rw [get_overNode cs r b hcons]
      have h1 := ih' cs
      rw [hb] at h1
      simp only [Option.bind_some] at h1
      cases r.get cs with
      | none => simp [ovAt, h1]
      | some x => simp [ovAt, h1]


/-! ### the overlay of a stack, read along `iterate_fs` -/

/-- type consistency of a stack: no two layers disagree on the type of a path -/
def Consistent (s : MState State) : Prop :=
  ∀ l ∈ s.layers, ∀ l' ∈ s.layers, Cons2 l.st.root l'.st.root

/-- what the layer at position `i` holds at the path -/
def nodeAt (s : MState State) (cs : List Name) (i : Nat) : Option Node :=
  (s.layers[i]?).bind fun l => l.st.root.get cs

theorem hasAt_eq (s : MState State) (cs : List Name) (i : Nat) : hasAt s cs i = (nodeAt s cs i).isSome := by
  unfold hasAt nodeAt; cases s.layers[i]? <;> rfl

theorem roots_map_get (s : MState State) (cs : List Name) : ∀ (is : List Nat), (∀ i ∈ is, i < s.layers.length) →
    (is.filterMap fun i => (s.layers[i]?).map (·.st.root)).map (fun n => n.get cs) = is.map (nodeAt s cs) := by
  intro is
  induction is with
  | nil => intro _; rfl
  | cons i is ih =>
    intro h
    have hi := h i (by simp)
    have := ih (fun j hj => h j (by simp [hj]))
    simp [hi, nodeAt, this]

theorem mem_rootsInOrder (s : MState State) (r : Node) (h : r ∈ rootsInOrder s) : ∃ l ∈ s.layers, l.st.root = r := by
  unfold rootsInOrder at h
  obtain ⟨i, _, hi⟩ := List.mem_filterMap.1 h
  cases hl : s.layers[i]? with
  | none => rw [hl] at hi; cases hi
  | some l => rw [hl] at hi; simp at hi; exact ⟨l, List.mem_of_getElem? hl, hi⟩

theorem consistent_pairwise (s : MState State) (h : Consistent s) : (rootsInOrder s).Pairwise Cons2 := by
  apply List.pairwise_of_forall_mem_list
  intro a ha b hb
  obtain ⟨l, hl, rfl⟩ := mem_rootsInOrder s a ha
  obtain ⟨l', hl', rfl⟩ := mem_rootsInOrder s b hb
  exact h l hl l' hl'

/-- **reading the overlay of a stack**: `ovAt` of what the layers hold at the path, in `iterate_fs` order -/
theorem overlay_get (s : MState State) (hcons : Consistent s) (hne : s.layers ≠ []) (cs : List Name) :
    (overlay s).root.get cs = ovAt ((order s).map (nodeAt s cs)) := by
  have h := overlayRoots_get (rootsInOrder s) (consistent_pairwise s hcons) cs
  have hmap : (rootsInOrder s).map (fun n => n.get cs) = (order s).map (nodeAt s cs) :=
    roots_map_get s cs (order s) (fun i hi => order_lt s i hi)
  rw [hmap] at h
  cases hr : overlayRoots (rootsInOrder s) with
  | none =>
    exfalso
    have : rootsInOrder s = [] := by cases hrs : rootsInOrder s <;> simp_all [overlayRoots]
    have hlen := congrArg List.length hmap
    rw [this] at hlen
    simp only [List.map_nil, List.length_nil, List.length_map] at hlen
    have hp := (order_perm s).length_eq
    rw [← hlen] at hp
    simp only [List.length_range] at hp
    exact hne (List.eq_nil_of_length_eq_zero hp.symm)
  | some b =>
    rw [hr] at h
    simp only [Option.bind_some] at h
    simp only [overlay, hr, Option.getD_some]
    exact h

theorem ovAt_find_none (s : MState State) (cs : List Name) : ∀ (is : List Nat),
    is.find? (hasAt s cs) = none → ovAt (is.map (nodeAt s cs)) = none := by
  intro is
  induction is with
  | nil => intro _; rfl
  | cons i is ih =>
    intro h
    simp only [List.find?_cons] at h
    cases hh : hasAt s cs i with
    | true => rw [hh] at h; cases h
    | false =>
      rw [hh] at h
      rw [hasAt_eq] at hh
      cases hn : nodeAt s cs i with
      | some n => rw [hn] at hh; cases hh
      | none => simp [ovAt, hn, ih h]

theorem ovAt_find_some (s : MState State) (cs : List Name) : ∀ (is : List Nat) (i : Nat),
    is.find? (hasAt s cs) = some i →
    ∃ n pre post, nodeAt s cs i = some n ∧ is = pre ++ i :: post ∧ (∀ j ∈ pre, nodeAt s cs j = none) ∧
      ovAt (is.map (nodeAt s cs)) = some (overNode n (ovAt (post.map (nodeAt s cs)))) := by
  intro is
  induction is with
  | nil => intro i h; cases h
  | cons j is ih =>
    intro i h
    simp only [List.find?_cons] at h
    cases hh : hasAt s cs j with
    | true =>
      rw [hh] at h
      simp only [Option.some.injEq] at h
      subst h
      rw [hasAt_eq] at hh
      cases hn : nodeAt s cs j with
      | none => rw [hn] at hh; cases hh
      | some n => exact ⟨n, [], is, rfl, rfl, by simp, by simp [ovAt, hn]⟩
    | false =>
      rw [hh] at h
      obtain ⟨n, pre, post, h1, h2, h3, h4⟩ := ih i h
      rw [hasAt_eq] at hh
      have hn : nodeAt s cs j = none := by cases hn : nodeAt s cs j <;> simp_all
      refine ⟨n, j :: pre, post, h1, by simp [h2], ?_, by simp [ovAt, hn, h4]⟩
      intro k hk
      simp only [List.mem_cons] at hk
      rcases hk with rfl | hk
      · exact hn
      · exact h3 k hk

/-- no layer has the path: neither has the overlay -/
theorem overlay_get_none (s : MState State) (hcons : Consistent s) (hne : s.layers ≠ []) (cs : List Name)
    (h : (order s).find? (hasAt s cs) = none) : (overlay s).root.get cs = none := by
  rw [overlay_get s hcons hne cs, ovAt_find_none s cs _ h]

/-- the first layer that has the path decides: its file, or a directory -/
theorem overlay_get_some (s : MState State) (hcons : Consistent s) (hne : s.layers ≠ []) (cs : List Name)
    (i : Nat) (h : (order s).find? (hasAt s cs) = some i) (l : Layer State) (n : Node)
    (hl : s.layers[i]? = some l) (hn : l.st.root.get cs = some n) :
    ∃ rest, (overlay s).root.get cs = some (overNode n rest) := by
  obtain ⟨n', _, post, h1, _, _, h4⟩ := ovAt_find_some s cs _ i h
  have : n' = n := by simp [nodeAt, hl, hn] at h1; exact h1.symm
  subst this
  exact ⟨_, by rw [overlay_get s hcons hne cs, h4]⟩

end Fs.MultiFsLemmas
