/-
  The simulation a wrapper preserves (helper lemmas for FsProofs/WrapRefines.lean).

  `Sim F pth`: the filesystem `F` (any state-transforming step function over the PARENT's state)
  shows, at the directory `pth` of the parent tree, a filesystem that refines `Ref.step` in the
  sense of `MemRefines.mem_refines_ref`: same verdict; on success the reference's value and the
  reference's resulting tree grafted at `pth` (nothing else changes); on failure an unchanged
  parent and an error class that is admissible (`adm`) for the view.
-/
import FsProofs.Lemmas.WrapLemmas
import FsProofs.MemRefines

namespace Fs.WrapLemmas
open Fs Fs.Ref Fs.TreeLemmas Fs.MemRefines

/-- no path argument contains NUL -/
def noNul (op : Op) : Prop := ∀ p ∈ op.paths, '\x00' ∉ p

open Fs.Path Fs.PathSpec in
/-- exception class: `WrapFS.removedir` / `removetree` evaluate `abspath(normpath(path))` BEFORE
`delegate_path`, so a path that contains NUL *and* climbs is reported as IllegalBackReference (the
reference looks at the characters first: InvalidCharsInPath), and `removedir` of a NUL path that
normalises to the root as RemoveRootError -/
def nulRootTest : Op → Prop
  | .removedir p => '\x00' ∈ p ∧ (resolve (splitSlash p) = none ∨ resolve (splitSlash p) = some [])
  | .removetree p => '\x00' ∈ p ∧ resolve (splitSlash p) = none
  | _ => False

/-- exception class: `openbin` with an invalid mode AND an invalid path — `WrapFS.openbin` delegates
the path (its error) before the inner `openbin` looks at the mode (ValueError) -/
def excOpenbin : Op → Prop
  | .openbin p m => parseBinMode m = none ∧ ∃ e, validate p = .err e
  | _ => False


/-- the parent state is open and well-formed and holds a directory (with entries `es`) at `pth` -/
structure Good (s : State) (pth : List Name) (es : Ents) : Prop where
  opn : s.closed = false
  wf : s.root.wf = true
  dir : s.root.get pth = some (.dir es)
  names : ∀ c ∈ pth, cleanName c = true

/-- the open reference filesystem whose root holds the entries `es` -/
def V (es : Ents) : State := ⟨.dir es, false⟩

def SimAt (F : Wrap.FS State) (pth : List Name) (s : State) (es : Ents) (op : Op) : Prop :=
  ((F s op).2.isOk = (Ref.step (V es) op).2.isOk) ∧
  ((Ref.step (V es) op).2.isOk = true → F s op = graft s pth (Ref.step (V es) op)) ∧
  (∀ e, (F s op).2 = .err e → (F s op).1 = s ∧ e ∈ adm (V es) op)

def Sim (F : Wrap.FS State) (pth : List Name) : Prop :=
  ∀ (s : State) (es : Ents) (op : Op), Good s pth es → op ≠ .close → ¬ nulRootTest op → ¬ knownDeviation op →
    (Ref.step (V es) op).2 ≠ .err .OperationFailed → SimAt F pth s es op

theorem viewOf_good {s : State} {pth : List Name} {es : Ents} (G : Good s pth es) :
    viewOf s (.dir es) = V es := by simp [viewOf, V, G.opn]

theorem step_closed_same (s : State) (op : Op) (hop : op ≠ .close) : (Ref.step s op).1.closed = s.closed := by
  rcases QueryLemmas.step_shape s op hop with ⟨o, ho⟩ | ⟨t, v, ho⟩ <;> rw [ho] <;> rfl

/-- the reference itself, seen at its root -/
theorem sim_ref : Sim Ref.step [] := by
  intro s es op G hop _ _ hl
  have hs : s = V es := by
    obtain ⟨root, cl⟩ := s
    have h1 := G.dir; have h2 := G.opn
    simp only [Node.get, Option.some.injEq] at h1
    simp only at h2
    simp [V, h1, h2]
  subst hs
  refine ⟨rfl, fun _ => ?_, fun e he => ⟨C06.failed_step_unchanged _ _ _ he, ?_⟩⟩
  · exact (graft_nil _ _ (step_closed_same _ _ hop)).symm
  · rcases C06.ref_error_truthful (V es) op e rfl he with h | h
    · exact h
    · subst h; exact absurd he hl

/-- MemoryFS as coded, seen at its root (`MemRefines.mem_refines_ref`) -/
theorem sim_mem : Sim Mem.step [] := by
  intro s es op G hop _ hk hl
  have hs : s = V es := by
    obtain ⟨root, cl⟩ := s
    have h1 := G.dir; have h2 := G.opn
    simp only [Node.get, Option.some.injEq] at h1
    simp only at h2
    simp [V, h1, h2]
  subst hs
  have hwf : (V es).root.wf = true := G.wf
  obtain ⟨h1, h2, h3⟩ := mem_refines_ref (V es) op rfl rfl hwf hk hl
  refine ⟨h1, fun hok => ?_, fun e he => ?_⟩
  · rw [h2 hok]; exact (graft_nil _ _ (step_closed_same _ _ hop)).symm
  · exact ⟨(h3 e he).2, (h3 e he).1⟩

theorem good_split {s : State} {pth sub : List Name} {es : Ents} (G : Good s (pth ++ sub) es) :
    ∃ esP, Good s pth esP ∧ (Node.dir esP).get sub = some (.dir es) := by
  have hd := G.dir
  rw [get_append] at hd
  cases hp : s.root.get pth with
  | none => rw [hp] at hd; cases hd
  | some u =>
    rw [hp] at hd
    cases u with
    | file b =>
      cases sub with
      | nil => simp [Node.get] at hd
      | cons c r => simp [Node.get] at hd
    | dir esP =>
      exact ⟨esP, ⟨G.opn, G.wf, hp, fun c hc => G.names c (by simp [hc])⟩, hd⟩

/-- the path `SubFS.delegate_path` hands to the parent for a valid path -/
def fdel (sub : List Name) (p : Str) : Str :=
  match validate p with
  | .ok cs => absOf (sub ++ cs)
  | .err _ => p

theorem fdel_ok {sub cs : List Name} {p : Str} (h : validate p = .ok cs) : fdel sub p = absOf (sub ++ cs) := by
  simp [fdel, h]

theorem validate_fdel {sub cs : List Name} {p : Str} (hs : ∀ c ∈ sub, cleanName c = true)
    (h : validate p = .ok cs) : validate (fdel sub p) = .ok (sub ++ cs) := by
  rw [fdel_ok h]
  apply validate_absOf
  intro c hc
  rcases List.mem_append.1 hc with hc | hc
  · exact hs c hc
  · exact validate_clean p cs h c hc

theorem nul_fdel {sub cs : List Name} {p : Str} (hs : ∀ c ∈ sub, cleanName c = true)
    (h : validate p = .ok cs) : '\x00' ∉ fdel sub p := by
  rw [fdel_ok h]
  apply nul_not_mem_absOf
  apply noNul_of_cleanName
  intro c hc
  rcases List.mem_append.1 hc with hc | hc
  · exact hs c hc
  · exact validate_clean p cs h c hc

/-- **the workhorse**: one inner call with delegated paths, judged against the view's reference -/
theorem core {F : Wrap.FS State} {pth sub : List Name} (hS : Sim F pth) {s : State} {es : Ents}
    (G : Good s (pth ++ sub) es) (op : Op) (hop : op ≠ .close)
    (hval : ∀ p ∈ op.paths, ∃ cs, validate p = .ok cs)
    (hsp : rootSpecial op = false ∨ ∀ p ∈ op.paths, validate p ≠ .ok [])
    (hk : ¬ knownDeviation op) (hl : (Ref.step (V es) op).2 ≠ .err .OperationFailed) :
    SimAt (fun s o => F s (mapPaths (fdel sub) o)) (pth ++ sub) s es op := by
  obtain ⟨esP, GP, hsubdir⟩ := good_split G
  have hsn : ∀ c ∈ sub, cleanName c = true := fun c hc => G.names c (by simp [hc])
  have hvf : ∀ p ∈ op.paths, validate (fdel sub p) = liftRes sub (validate (id p)) := by
    intro p hp
    obtain ⟨cs, hcs⟩ := hval p hp
    rw [validate_fdel hsn hcs]; simp [liftRes, hcs]
  have hgr : Ref.step (V esP) (mapPaths (fdel sub) op) = graft (V esP) sub (Ref.step (V es) op) := by
    have := ref_step_graft (V esP) sub es op (fdel sub) id hsubdir hop hvf
      (by rcases hsp with h | h
          · exact Or.inl h
          · exact Or.inr h)
    rw [mapPaths_id] at this
    exact this
  have hnn' : ¬ nulRootTest (mapPaths (fdel sub) op) := by
    intro hx
    cases op <;> simp only [mapPaths, nulRootTest] at hx
    all_goals (
      obtain ⟨cs, hcs⟩ := hval _ (List.mem_singleton_self _)
      exact nul_fdel hsn hcs hx.1)
  have hk' : ¬ knownDeviation (mapPaths (fdel sub) op) := by
    intro hd
    apply hk
    cases op <;> simp only [mapPaths, knownDeviation] at hd ⊢
    rename_i a b c
    obtain ⟨a', b', ha', hb', hpre, hne⟩ := hd
    obtain ⟨ca, hca⟩ := hval a (by simp [Op.paths])
    obtain ⟨cb, hcb⟩ := hval b (by simp [Op.paths])
    rw [validate_fdel hsn hca] at ha'
    rw [validate_fdel hsn hcb] at hb'
    cases ha'; cases hb'
    refine ⟨ca, cb, hca, hcb, ?_, ?_⟩
    · exact (List.prefix_append_right_inj sub).1 hpre
    · intro e; exact hne (by rw [e])
  have hl' : (Ref.step (V esP) (mapPaths (fdel sub) op)).2 ≠ .err .OperationFailed := by
    rw [hgr]; exact hl
  obtain ⟨h1, h2, h3⟩ := hS s esP _ GP (mapPaths_ne_close _ _ hop) hnn' hk' hl'
  refine ⟨?_, ?_, ?_⟩
  · show (F s (mapPaths (fdel sub) op)).2.isOk = _
    rw [h1, hgr]; rfl
  · intro hok
    show F s (mapPaths (fdel sub) op) = _
    rw [h2 (by rw [hgr]; exact hok), hgr, ← viewOf_good GP, graft_graft GP.dir]
  · intro e he
    obtain ⟨hs1, hadm⟩ := h3 e he
    refine ⟨hs1, ?_⟩
    refine adm_sub_subset (.dir esP) sub es op (fdel sub) hsubdir hop ?_ hsp e hadm
    intro p hp
    obtain ⟨cs, hcs⟩ := hval p hp
    exact ⟨cs, hcs, validate_fdel hsn hcs⟩


/-! ### path arguments that do not validate (climbing, NUL) -/

/-- what `delegate_path` and the root test do on any path, in terms of `Ref.validate` -/
theorem delegate_cases (sub : List Name) (hs : PathSpec.Clean sub) (p : Str) :
    (∃ cs, validate p = .ok cs ∧ PathSpec.resolve (Path.splitSlash p) = some cs ∧
      Wrap.Sub.delegate (absOf sub) p = .ok (absOf (sub ++ cs)) ∧ Wrap.isRootPath p = .ok (decide (cs = []))) ∨
    (∃ e, validate p = .err e ∧ Wrap.Sub.delegate (absOf sub) p = .err e) := by
  have := delegate_eq_validate hs p
  cases hv : validate p with
  | ok cs =>
    rw [hv] at this
    exact Or.inl ⟨cs, rfl, validate_ok_resolve hv, this, isRootPath_of_resolve (validate_ok_resolve hv)⟩
  | err e => rw [hv] at this; exact Or.inr ⟨e, rfl, this⟩

theorem isRootPath_cases (p : Str) :
    (PathSpec.resolve (Path.splitSlash p) = none ∧ Wrap.isRootPath p = .err .IllegalBackReference) ∨
    (∃ cs, PathSpec.resolve (Path.splitSlash p) = some cs ∧ Wrap.isRootPath p = .ok (decide (cs = []))) := by
  cases hr : PathSpec.resolve (Path.splitSlash p) with
  | none => exact Or.inl ⟨rfl, isRootPath_of_climb hr⟩
  | some cs => exact Or.inr ⟨cs, rfl, isRootPath_of_resolve hr⟩

/-- **a path argument that does not validate — it climbs, or contains NUL — is refused before the
parent is touched**, in whatever argument position, whatever the inner filesystem; and outside the
two decided exception classes the class is the reference's -/
theorem stepOpen_invalid {σ : Type} (F : Wrap.FS σ) (sub : List Name) (hs : PathSpec.Clean sub) (s : σ) (op : Op)
    (hinv : ∃ p ∈ op.paths, ∃ e, validate p = .err e) :
    ∃ e, Wrap.Sub.stepOpen (absOf sub) F s op = (s, .err e) ∧
      (¬ nulRootTest op → (∃ p ∈ op.paths, validate p = .err e) ∧
        ∀ v : State, v.closed = false → ¬ excOpenbin op → Ref.step v op = fail v e) := by
  obtain ⟨p0, hp0, e0, he0⟩ := hinv
  cases op with
  | close => simp [Op.paths] at hp0
  | move a b o | movedir a b o | copy a b o | copydir a b o =>
    all_goals (
      simp only [Op.paths, List.mem_cons, List.not_mem_nil, or_false] at hp0
      rcases delegate_cases sub hs a with ⟨ca, hva, _, hda, _⟩ | ⟨ea, hva, hda⟩
      · rcases delegate_cases sub hs b with ⟨cb, hvb, _, hdb, _⟩ | ⟨eb, hvb, hdb⟩
        · rcases hp0 with rfl | rfl
          · rw [hva] at he0; cases he0
          · rw [hvb] at he0; cases he0
        · refine ⟨eb, by simp [Wrap.Sub.stepOpen, Wrap.stepOpen, Wrap.direct2, Wrap.copy, Wrap.copydir, hda, hdb], ?_⟩
          intro _
          refine ⟨⟨b, by simp [Op.paths], hvb⟩, ?_⟩
          intro v hv _
          rw [QueryLemmas.step_two v _ a b hv rfl, hva, hvb]
      · refine ⟨ea, by simp [Wrap.Sub.stepOpen, Wrap.stepOpen, Wrap.direct2, Wrap.copy, Wrap.copydir, hda], ?_⟩
        intro _
        refine ⟨⟨a, by simp [Op.paths], hva⟩, ?_⟩
        intro v hv _
        rw [QueryLemmas.step_two v _ a b hv rfl, hva])
  | removedir p =>
    simp only [Op.paths, List.mem_cons, List.not_mem_nil, or_false] at hp0
    subst hp0
    rcases delegate_cases sub hs p0 with ⟨cs, hv, _⟩ | ⟨e, hv, hd⟩
    · rw [hv] at he0; cases he0
    rw [he0] at hv; cases hv
    have href : ∀ v : State, v.closed = false → Ref.step v (.removedir p0) = fail v e0 := by
      intro v hv; rw [QueryLemmas.step_one v _ p0 hv rfl (by simp), he0]
    rcases isRootPath_cases p0 with ⟨hr, hroot⟩ | ⟨cs, hr, hroot⟩
    · refine ⟨.IllegalBackReference, by simp [Wrap.Sub.stepOpen, Wrap.stepOpen, Wrap.removedir, hroot], ?_⟩
      intro hx
      by_cases hn : '\x00' ∈ p0
      · exact absurd ⟨hn, Or.inl hr⟩ hx
      · obtain ⟨rfl, _⟩ := validate_err_noNul hn he0
        exact ⟨⟨p0, by simp [Op.paths], he0⟩, fun v hv _ => href v hv⟩
    · by_cases hcs : cs = []
      · subst hcs
        refine ⟨.RemoveRootError, by simp [Wrap.Sub.stepOpen, Wrap.stepOpen, Wrap.removedir, hroot], ?_⟩
        intro hx
        by_cases hn : '\x00' ∈ p0
        · exact absurd ⟨hn, Or.inr hr⟩ hx
        · obtain ⟨_, hr'⟩ := validate_err_noNul hn he0
          rw [hr] at hr'; cases hr'
      · refine ⟨e0, by simp [Wrap.Sub.stepOpen, Wrap.stepOpen, Wrap.removedir, hroot, hcs, hd], ?_⟩
        intro _
        exact ⟨⟨p0, by simp [Op.paths], he0⟩, fun v hv _ => href v hv⟩
  | removetree p =>
    simp only [Op.paths, List.mem_cons, List.not_mem_nil, or_false] at hp0
    subst hp0
    rcases delegate_cases sub hs p0 with ⟨cs, hv, _⟩ | ⟨e, hv, hd⟩
    · rw [hv] at he0; cases he0
    rw [he0] at hv; cases hv
    have href : ∀ v : State, v.closed = false → Ref.step v (.removetree p0) = fail v e0 := by
      intro v hv; rw [QueryLemmas.step_one v _ p0 hv rfl (by simp), he0]
    rcases isRootPath_cases p0 with ⟨hr, hroot⟩ | ⟨cs, hr, hroot⟩
    · refine ⟨.IllegalBackReference, by simp [Wrap.Sub.stepOpen, Wrap.stepOpen, Wrap.removetree, hroot], ?_⟩
      intro hx
      by_cases hn : '\x00' ∈ p0
      · exact absurd ⟨hn, hr⟩ hx
      · obtain ⟨rfl, _⟩ := validate_err_noNul hn he0
        exact ⟨⟨p0, by simp [Op.paths], he0⟩, fun v hv _ => href v hv⟩
    · refine ⟨e0, by simp [Wrap.Sub.stepOpen, Wrap.stepOpen, Wrap.removetree, hroot, hd], ?_⟩
      intro _
      exact ⟨⟨p0, by simp [Op.paths], he0⟩, fun v hv _ => href v hv⟩
  | openbin p m =>
    simp only [Op.paths, List.mem_cons, List.not_mem_nil, or_false] at hp0
    subst hp0
    rcases delegate_cases sub hs p0 with ⟨cs, hv, _⟩ | ⟨e, hv, hd⟩
    · rw [hv] at he0; cases he0
    rw [he0] at hv; cases hv
    refine ⟨e0, by simp [Wrap.Sub.stepOpen, Wrap.stepOpen, Wrap.direct1, hd], ?_⟩
    intro _
    refine ⟨⟨p0, by simp [Op.paths], he0⟩, ?_⟩
    intro v hv hx
    rw [QueryLemmas.step_openbin v p0 m hv, he0]
    have : (parseBinMode m).isNone = false := by
      cases hm : parseBinMode m with
      | none => exact absurd ⟨hm, e0, he0⟩ hx
      | some md => rfl
    simp [this]
  | _ =>
    all_goals (
      simp only [Op.paths, List.mem_cons, List.not_mem_nil, or_false] at hp0
      subst hp0
      rcases delegate_cases sub hs p0 with ⟨cs, hv, _⟩ | ⟨e, hv, hd⟩
      · rw [hv] at he0; cases he0
      rw [he0] at hv; cases hv
      refine ⟨e0, by simp [Wrap.Sub.stepOpen, Wrap.stepOpen, Wrap.direct1, Wrap.getinfo, Wrap.isempty, hd], ?_⟩
      intro _
      refine ⟨⟨p0, by simp [Op.paths], he0⟩, ?_⟩
      intro v hv _
      rw [QueryLemmas.step_one v _ p0 hv rfl (by simp), he0])

theorem ref_step_invalid (s : State) (op : Op) (p : Str) (e : Err) (hp : p ∈ op.paths)
    (hv : validate p = .err e) : ∃ e', Ref.step s op = fail s e' := by
  cases TreeLemmas.step_case s op with
  | close h _ => subst h; simp [Op.paths] at hp
  | fail e' _ h => exact ⟨e', h⟩
  | one q cs _ hq hvq _ =>
    rw [hq] at hp; simp at hp; subst hp; rw [hv] at hvq; cases hvq
  | two q r a b _ hq hva hvb _ =>
    rw [hq] at hp; simp at hp
    rcases hp with rfl | rfl
    · rw [hv] at hva; cases hva
    · rw [hv] at hvb; cases hvb

theorem adm_of_invalid (s : State) (op : Op) (p : Str) (e : Err) (hc : s.closed = false) (hp : p ∈ op.paths)
    (hv : validate p = .err e) : e ∈ adm s op := by
  have hbad : e ∈ op.paths.flatMap admPath := by
    rw [List.mem_flatMap]
    exact ⟨p, hp, by simp [admPath, hv]⟩
  have hne : op.paths.flatMap admPath ≠ [] := fun h => by rw [h] at hbad; cases hbad
  cases op <;> simp only [Op.paths, List.not_mem_nil] at hp
  all_goals simp only [adm, hc, Bool.false_eq_true, if_false, hne, ne_eq, not_false_eq_true, if_true]
  all_goals first
    | (split <;> simp [hbad])
    | (simp only [List.mem_append]; exact Or.inl hbad)

end Fs.WrapLemmas
