/-
  Helper lemmas for FsProofs/BaseWalkLaws.lean, part 9: a MultiFS with ONE layer (its write layer) over a
  filesystem `F` that refines the reference — every call the base-class bulk algorithms make on the MultiFS
  object (`MultiFs.prim F`) follows the reference's primitive on the layer's tree (`PrimSim`).
-/
import FsProofs.Lemmas.BaseWalkSim
import FsProofs.Lemmas.BaseWalkAdm
import FsProofs.Lemmas.MultiFsSingle

namespace Fs.BaseWalkMulti
open Fs Fs.Path Fs.Ref Fs.BaseWalk Fs.BaseWalkPrim Fs.BaseWalkRm Fs.BaseWalkLift Fs.BaseWalkSim Fs.BaseWalkAdm Fs.WrapRefines
  Fs.MemRefines Fs.MultiFs Fs.MultiFsLemmas

/-- the configuration: one layer, which is the write layer; the MultiFS is open -/
structure Cfg (s : MState State) (l : Layer State) : Prop where
  lay : s.layers = [l]
  wr : s.writeIdx = some l.idx
  opn : s.closed = false

section
variable {s : MState State} {l : Layer State}

theorem good_of_goodS {t : State} (G : GoodS t) : MultiFsLemmas.Good t := ⟨G.opn, G.dir, G.wf⟩

theorem single_put (C : Cfg s l) (t : State) (G : GoodS t) : Single (put1 s l t) { l with st := t } :=
  ⟨rfl, C.wr, C.opn, good_of_goodS G⟩

theorem put1_put1 (t t' : State) : put1 (put1 s l t) { l with st := t } t' = put1 s l t' := rfl

/-- from the one-call refinement statement of `MultiFsSingle` to `LiftE` -/
theorem liftE_of_sim1 (t : State) (op : Op) (r : MState State × Out)
    (h : Sim1 (put1 s l t) { l with st := t } op r) : LiftE (put1 s l) r (Ref.step t op) := by
  rcases h with ⟨hok, hr⟩ | ⟨e, e', hre, hr, _⟩
  · rcases hs : Ref.step t op with ⟨t', v | e⟩
    · left
      refine ⟨t', v, rfl, ?_⟩
      rw [hr]
      simp only at hs ⊢
      rw [hs]; rfl
    · simp only at hok; rw [hs] at hok; cases hok
  · right
    have hst := C06.failed_step_unchanged t op e hre
    exact ⟨t, e, e', Prod.ext hst hre, hr⟩

/-- a MultiFS method that is `MultiFs.step` of a non-walker operation -/
theorem liftE_step (F : FS State) (hF : RefinesRef F) (C : Cfg s l) (t : State) (G : GoodS t) (op : Op)
    (hop : op ≠ .close) (hwk : walker op = false) :
    LiftE (put1 s l) (MultiFs.step 0 F (put1 s l t) op) (Ref.step t op) :=
  liftE_of_sim1 t op _ (sim1_step 0 F hF (put1 s l t) { l with st := t } (single_put C t G) op hop hwk)

theorem ref_listdir_state (t : State) (p : Str) : (Ref.step t (.listdir p)).1 = t := by
  by_cases hc : t.closed = true
  · rw [QueryLemmas.step_closed t _ (by intro h; cases h) hc]; rfl
  · have hc' : t.closed = false := by simpa using hc
    rw [QueryLemmas.step_one t _ p hc' rfl (by intro q m e; cases e)]
    cases validate p with
    | err e => rfl
    | ok cs => simp only [step1]; rcases t.root.get cs with _ | ⟨_ | _⟩ <;> rfl

theorem ref_getinfo_state (t : State) (p : Str) : (Ref.step t (.getinfo p)).1 = t := by
  by_cases hc : t.closed = true
  · rw [QueryLemmas.step_closed t _ (by intro h; cases h) hc]; rfl
  · have hc' : t.closed = false := by simpa using hc
    rw [QueryLemmas.step_one t _ p hc' rfl (by intro q m e; cases e)]
    cases validate p with
    | err e => rfl
    | ok cs => simp only [step1]; rcases t.root.get cs with _ | ⟨_ | _⟩ <;> rfl

/-- a query on the only layer: the state is what it was -/
theorem callLayer_query (F : FS State) (hF : RefinesRef F) (C : Cfg s l) (t : State) (G : GoodS t) (op : Op)
    (hb : bulk op = false) (hq : (Ref.step t op).1 = t) :
    ((Ref.step t op).2.isOk = true ∧ callLayer F (put1 s l t) 0 op = (put1 s l t, (Ref.step t op).2)) ∨
    (∃ e e', (Ref.step t op).2 = .err e ∧ callLayer F (put1 s l t) 0 op = (put1 s l t, .err e')) := by
  have S := single_put C t G
  rcases callLayer_cases F hF (put1 s l t) (single_allGood S) 0 _ (single_layer0 S) op hb with ⟨hok, h⟩ | ⟨e, e', hr, h, _⟩
  · left
    refine ⟨hok, ?_⟩
    rw [h]
    simp only [hq]
    rfl
  · right
    exact ⟨e, e', by simp only at hr; rw [hr], h⟩

/-- the `Info`s of the only layer: the names were not seen before (they are distinct), so `MultiFS._scandir`'s
filter lets all of them through — the base-class `scandir` of the layer -/
theorem scanNames_single (F : FS State) (hF : RefinesRef F) (C : Cfg s l) (t : State) (G : GoodS t) (p : Str) :
    ∀ (ns seen : List Name) (acc : List ScanInfo), ns.Nodup → (∀ x ∈ ns, x ∉ seen) →
      match BaseWalk.scanNames Ref.step p ns acc t with
      | (t', .ok acc') => t' = t ∧ ∃ seen', MultiFs.scanNames F 0 p ns seen acc (put1 s l t) = (put1 s l t, .ok (seen', acc'))
      | (t', .err _) => t' = t ∧ ∃ e', MultiFs.scanNames F 0 p ns seen acc (put1 s l t) = (put1 s l t, .err e')
  | [], seen, acc, _, _ => by simp [BaseWalk.scanNames, MultiFs.scanNames]
  | n :: ns, seen, acc, hnd, hns => by
    have hn : n ∉ seen := hns n (by simp)
    have hnd' := List.nodup_cons.1 hnd
    simp only [BaseWalk.scanNames, MultiFs.scanNames, hn, if_false]
    have hq := ref_getinfo_state t (combine p n)
    rcases callLayer_query F hF C t G (.getinfo (combine p n)) rfl hq with ⟨hok, hcl⟩ | ⟨e, e', hre, hcl⟩
    · rw [hcl]
      rcases hr : Ref.step t (.getinfo (combine p n)) with ⟨t1, v | e⟩
      · have ht1 : t1 = t := by rw [hr] at hq; exact hq
        subst ht1
        cases v with
        | info nm d sz =>
          simp only
          exact scanNames_single F hF C t1 G p ns (seen ++ [n]) (acc ++ [(n, d, sz)]) hnd'.2
            (by
              intro x hx hmem
              rcases List.mem_append.1 hmem with h | h
              · exact hns x (by simp [hx]) h
              · simp only [List.mem_singleton] at h; subst h; exact hnd'.1 hx)
        | _ => exact ⟨rfl, _, rfl⟩
      · rw [hr] at hok; cases hok
    · rw [hcl]
      rcases hr : Ref.step t (.getinfo (combine p n)) with ⟨t1, v | e1⟩
      · rw [hr] at hre; cases hre
      · have ht1 : t1 = t := by rw [hr] at hq; exact hq
        subst ht1
        exact ⟨rfl, _, rfl⟩


/-- the names `listdir` of the reference returns are distinct (well-formed tree) -/
theorem listdir_names_nodup (t : State) (G : GoodS t) (p : Str) (ns : List Name)
    (h : (Ref.step t (.listdir p)).2 = .ok (.names ns)) : ns.Nodup := by
  rw [QueryLemmas.step_one t _ p G.opn rfl (by intro q m e; cases e)] at h
  cases hv : validate p with
  | err e => rw [hv] at h; simp [fail] at h
  | ok cs =>
    rw [hv] at h
    simp only [step1] at h
    rcases hg : t.root.get cs with _ | ⟨fb | es⟩
    · rw [hg] at h; simp [fail] at h
    · rw [hg] at h; simp [fail] at h
    · rw [hg] at h
      simp only [done, Res.ok.injEq, Val.names.injEq] at h
      subst h
      exact QueryLemmas.entsWf_names_nodup es (entsWf_of_get G.wf hg)

theorem listdir_value (t : State) (G : GoodS t) (p : Str) (v : Val)
    (h : (Ref.step t (.listdir p)).2 = .ok v) : ∃ ns, v = .names ns := by
  rw [QueryLemmas.step_one t _ p G.opn rfl (by intro q m e; cases e)] at h
  cases hv : validate p with
  | err e => rw [hv] at h; simp [fail] at h
  | ok cs =>
    rw [hv] at h
    simp only [step1] at h
    rcases hg : t.root.get cs with _ | ⟨fb | es⟩
    · rw [hg] at h; simp [fail] at h
    · rw [hg] at h; simp [fail] at h
    · rw [hg] at h
      simp only [done, Res.ok.injEq] at h
      exact ⟨_, h.symm⟩

/-- `MultiFS.scandir` on one layer follows the reference's base-class `scandir` of the layer's tree -/
theorem scanM_single (F : FS State) (hF : RefinesRef F) (C : Cfg s l) (t : State) (G : GoodS t) (p : Str) :
    LiftE (put1 s l) (scanM F (put1 s l t) p) (scanOf Ref.step t p) := by
  have S := single_put C t G
  have hq := ref_listdir_state t p
  simp only [scanM, single_order S, scanLoop, scanOf]
  rcases callLayer_query F hF C t G (.listdir p) rfl hq with ⟨hok, hcl⟩ | ⟨e, e', hre, hcl⟩
  · rw [hcl]
    rcases hr : Ref.step t (.listdir p) with ⟨t1, v | e⟩
    · have ht1 : t1 = t := by rw [hr] at hq; exact hq
      subst ht1
      cases v with
      | names ns =>
        simp only
        have hnd := listdir_names_nodup t1 G p ns (by rw [hr])
        have h := scanNames_single F hF C t1 G p ns [] [] hnd (by simp)
        rcases hs : BaseWalk.scanNames Ref.step p ns [] t1 with ⟨t', acc' | e⟩
        · rw [hs] at h
          obtain ⟨rfl, seen', hm⟩ := h
          rw [hm]
          simp only [scanLoop]
          exact Or.inl ⟨t', acc', rfl, rfl⟩
        · rw [hs] at h
          obtain ⟨rfl, e', hm⟩ := h
          rw [hm]
          exact Or.inr ⟨t', e, e', rfl, rfl⟩
      | _ =>
        exfalso
        have := listdir_value t1 G p _ (by rw [hr])
        obtain ⟨ns, hns⟩ := this
        cases hns
    · rw [hr] at hok; cases hok
  · rw [hcl]
    rcases hr : Ref.step t (.listdir p) with ⟨t1, v | e1⟩
    · rw [hr] at hre; cases hre
    · have ht1 : t1 = t := by rw [hr] at hq; exact hq
      subst ht1
      -- whatever the class the layer answers with, `scandir` raises and nothing changes
      cases e' <;> simp only [scanLoop, Bool.false_eq_true, if_false] <;> exact Or.inr ⟨t1, e1, _, rfl, rfl⟩

/-- every call the bulk algorithms make on the single-layer MultiFS follows the reference's primitive on the
layer's tree -/
theorem primSim_single (F : FS State) (hF : RefinesRef F) (C : Cfg s l) : PrimSim (MultiFs.prim F) (put1 s l) where
  validatepath := fun t p G => by
    have S := single_put C t G
    show LiftE _ (validateM F (put1 s l t) p) (validateOf Ref.step t p)
    rw [validateM_eq F hF _ (single_allGood S) p 0 (single_writePos S) (by simp [put1]), validateOf_ref t G.opn]
    exact liftE_refl _ t _
  exists_ := fun t p G => by
    show LiftE (put1 s l) (existsM F (put1 s l t) p) (Ref.step t (.exists_ p))
    have h := liftE_step F hF C t G (.exists_ p) (by intro h; cases h) rfl
    have hc : (put1 s l t).closed = false := C.opn
    simpa [MultiFs.step, stepOpen, hc] using h
  getinfo := fun t p G => by
    show LiftE (put1 s l) (getinfoM F (put1 s l t) p) (Ref.step t (.getinfo p))
    have h := liftE_step F hF C t G (.getinfo p) (by intro h; cases h) rfl
    have hc : (put1 s l t).closed = false := C.opn
    simpa [MultiFs.step, stepOpen, hc] using h
  scandir := fun t p G => scanM_single F hF C t G p
  makedir := fun t p G => by
    show LiftE (put1 s l) (onWrite F (put1 s l t) (.makedir p true)) (Ref.step t (.makedir p true))
    have h := liftE_step F hF C t G (.makedir p true) (by intro h; cases h) rfl
    have hc : (put1 s l t).closed = false := C.opn
    simpa [MultiFs.step, stepOpen, hc] using h
  makedirs := fun t p G => by
    show LiftE (put1 s l) (onWrite F (put1 s l t) (.makedirs p true)) (Ref.step t (.makedirs p true))
    have h := liftE_step F hF C t G (.makedirs p true) (by intro h; cases h) rfl
    have hc : (put1 s l t).closed = false := C.opn
    simpa [MultiFs.step, stepOpen, hc] using h
  copy := fun t a b G => by
    show LiftE (put1 s l) (copyM F (put1 s l t) a b true) (Ref.step t (.copy a b true))
    have h := liftE_step F hF C t G (.copy a b true) (by intro h; cases h) rfl
    have hc : (put1 s l t).closed = false := C.opn
    simpa [MultiFs.step, stepOpen, hc] using h
  remove := fun t p G => by
    show LiftE (put1 s l) (onDelegate F (put1 s l t) p (.remove p)) (Ref.step t (.remove p))
    have h := liftE_step F hF C t G (.remove p) (by intro h; cases h) rfl
    have hc : (put1 s l t).closed = false := C.opn
    simpa [MultiFs.step, stepOpen, hc] using h
  removedir := fun t p G => by
    show LiftE (put1 s l) (onDelegate F (put1 s l t) p (.removedir p)) (Ref.step t (.removedir p))
    have h := liftE_step F hF C t G (.removedir p) (by intro h; cases h) rfl
    have hc : (put1 s l t).closed = false := C.opn
    simpa [MultiFs.step, stepOpen, hc] using h


theorem sim1_err {S : MState State} {L : Layer State} {op : Op} {r : MState State × Out} (h : Sim1 S L op r)
    {e : Err} (he : (Ref.step L.st op).2 = .err e) : ∃ e', r = (S, .err e') ∧ e' ∈ adm L.st op := by
  rcases h with ⟨hok, _⟩ | ⟨e0, e', _, hr, ha⟩
  · rw [he] at hok; cases hok
  · exact ⟨e', hr, ha⟩

theorem sim1_ok {S : MState State} {L : Layer State} {op : Op} {r : MState State × Out} (h : Sim1 S L op r)
    {t' : State} {v : Val} (hok : Ref.step L.st op = (t', .ok v)) : r = (put1 S L t', .ok v) := by
  rcases h with ⟨_, hr⟩ | ⟨e0, e', he, _, _⟩
  · rw [hr, hok]
  · rw [hok] at he; cases he

/-- a MultiFS method that is `MultiFs.step` of a non-walker operation, as `Sim1` -/
theorem sim1_of_step (F : FS State) (hF : RefinesRef F) (C : Cfg s l) (t : State) (G : GoodS t) (op : Op)
    (hop : op ≠ .close) (hwk : walker op = false) :
    Sim1 (put1 s l t) { l with st := t } op (MultiFs.step 0 F (put1 s l t) op) :=
  sim1_step 0 F hF (put1 s l t) { l with st := t } (single_put C t G) op hop hwk

/-- … and what the argument checks of the bulk operations need (`PrimAdm`) -/
theorem primAdm_single (F : FS State) (hF : RefinesRef F) (C : Cfg s l) : PrimAdm (MultiFs.prim F) (put1 s l) where
  vpath := fun t p G => by
    have S := single_put C t G
    show validateM F (put1 s l t) p = _
    exact validateM_eq F hF _ (single_allGood S) p 0 (single_writePos S) (by simp [put1])
  exists_ := fun t p cs G hv => by
    show existsM F (put1 s l t) p = _
    have h := sim1_of_step F hF C t G (.exists_ p) (by intro h; cases h) rfl
    have hc : (put1 s l t).closed = false := C.opn
    simp only [MultiFs.step, stepOpen, hc, Bool.false_eq_true, if_false] at h
    have hr : Ref.step t (.exists_ p) = (t, .ok (.bool (t.root.get cs).isSome)) := by
      rw [QueryLemmas.step_one t _ p G.opn rfl (by intro x m e; cases e), hv]; rfl
    rw [sim1_ok h hr]; rfl
  getinfo := fun t p cs G hv => by
    have h := sim1_of_step F hF C t G (.getinfo p) (by intro h; cases h) rfl
    have hc : (put1 s l t).closed = false := C.opn
    simp only [MultiFs.step, stepOpen, hc, Bool.false_eq_true, if_false] at h
    have hr : Ref.step t (.getinfo p) = step1 t cs (.getinfo p) := by
      rw [QueryLemmas.step_one t _ p G.opn rfl (by intro x m e; cases e), hv]
    rcases hg : t.root.get cs with _ | ⟨fb | es⟩
    · obtain ⟨e', hf, ha⟩ := sim1_err h (e := .ResourceNotFound) (by
        show (Ref.step t (.getinfo p)).2 = _
        rw [hr]; simp [step1, hg, fail])
      refine ⟨e', hf, ?_⟩
      have ha' : e' ∈ adm t (.getinfo p) := ha
      rwa [QueryLemmas.adm_one t _ p G.opn rfl (by intro x m e; cases e), hv] at ha'
    · show getinfoM F (put1 s l t) p = _
      rw [sim1_ok h (t' := t) (v := .info (lastName cs) false fb.length) (by
        show Ref.step t (.getinfo p) = _
        rw [hr]; simp [step1, hg, done])]
      rfl
    · show getinfoM F (put1 s l t) p = _
      rw [sim1_ok h (t' := t) (v := .info (lastName cs) true 0) (by
        show Ref.step t (.getinfo p) = _
        rw [hr]; simp [step1, hg, done])]
      rfl
  makedir_adm := fun t p e G he => by
    have h := sim1_of_step F hF C t G (.makedir p true) (by intro h; cases h) rfl
    have hc : (put1 s l t).closed = false := C.opn
    simp only [MultiFs.step, stepOpen, hc, Bool.false_eq_true, if_false] at h
    exact sim1_err h he
  makedirs_adm := fun t p e G he => by
    have h := sim1_of_step F hF C t G (.makedirs p true) (by intro h; cases h) rfl
    have hc : (put1 s l t).closed = false := C.opn
    simp only [MultiFs.step, stepOpen, hc, Bool.false_eq_true, if_false] at h
    exact sim1_err h he
  scandir_adm := fun t p e G he => by
    have S := single_put C t G
    show ∃ e', scanM F (put1 s l t) p = _ ∧ _
    rcases callLayer_cases F hF (put1 s l t) (single_allGood S) 0 _ (single_layer0 S) (.listdir p) rfl with
      ⟨hok, _⟩ | ⟨e0, e', _, hcl, ha⟩
    · simp only at hok; rw [he] at hok; cases hok
    · refine ⟨e', ?_, ha⟩
      simp only [scanM, single_order S, scanLoop, hcl]
      cases e' <;> rfl

end

end Fs.BaseWalkMulti
