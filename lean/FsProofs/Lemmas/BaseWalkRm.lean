/-
  Helper lemmas for FsProofs/BaseWalkLaws.lean, part 2: the depth-first walker of `FS.removetree`
  (`BaseWalk.rmWalk` / `rmEntries`) over the primitives of `Ref.step` empties the directory it is given.
-/
import FsProofs.Lemmas.BaseWalkPrim
import FsProofs.C01
import FsProofs.Lemmas.OsLemmas

namespace Fs.BaseWalkRm
open Fs Fs.Path Fs.Ref Fs.BaseWalk Fs.TreeLemmas Fs.WrapLemmas Fs.BaseWalkPrim

/-- the primitives of the reference semantics -/
abbrev PR : Prim State := primOfStep Ref.step

/-- an open state whose tree is a well-formed directory -/
structure GoodS (t : State) : Prop where
  opn : t.closed = false
  dir : t.root.isDir = true
  wf : t.root.wf = true

theorem goodS_setAt {t : State} (G : GoodS t) {cs : List Name} (hcs : CleanN cs) (m : Ents) (hm : entsWf m = true) :
    GoodS { t with root := setAt t.root cs (.dir m) } :=
  ⟨G.opn, QueryLemmas.setAt_dir_isDir _ _ _ G.dir, TreeLemmas.setAt_wf _ _ _ hcs G.wf hm⟩

theorem step_closed_same (s : State) (op : Op) (hop : op ≠ .close) : (Ref.step s op).1.closed = s.closed := by
  rcases QueryLemmas.step_shape s op hop with ⟨o, ho⟩ | ⟨t, v, ho⟩ <;> rw [ho] <;> rfl

theorem goodS_step {t : State} (G : GoodS t) (op : Op) (hop : op ≠ .close) : GoodS (Ref.step t op).1 :=
  ⟨(step_closed_same t op hop).trans G.opn, C01.ref_root_is_dir t op G.dir,
   C01.ref_wf_preserved t op G.dir G.wf⟩

/-- removing the first entry of the directory at `cs` -/
theorem del_head {T : Node} {cs : List Name} {k : Name} {x : Node} {rest : Ents}
    (h : T.get cs = some (.dir ((k, x) :: rest))) : T.del (cs ++ [k]) = setAt T cs (.dir rest) := by
  rw [del_sub h [k] (by simp)]
  simp [Node.del, Ents.erase]

/-- replacing the first entry of the directory at `cs` -/
theorem setAt_head {T : Node} {cs : List Name} {k : Name} {v x : Node} {rest : Ents}
    (h : T.get cs = some (.dir ((k, v) :: rest))) :
    setAt T (cs ++ [k]) x = setAt T cs (.dir ((k, x) :: rest)) := by
  rw [setAt_ne (by simp), set_sub h [k] (by simp)]
  simp [Node.set, Ents.put]

theorem get_head {T : Node} {cs : List Name} {k : Name} {v : Node} {rest : Ents}
    (h : T.get cs = some (.dir ((k, v) :: rest))) : T.get (cs ++ [k]) = some v := by
  rw [get_sub h]; simp [Node.get, Ents.lookup]

theorem entsWf_of_get {T : Node} {cs : List Name} {es : Ents} (hw : T.wf = true) (h : T.get cs = some (.dir es)) :
    entsWf es = true := by
  have := TreeLemmas.get_wf cs T _ hw h
  simpa [Node.wf] using this

/-- the result of emptying the directory at `cs` -/
def emptied (t : State) (cs : List Name) : State := { t with root := setAt t.root cs (.dir []) }

/-- one directory of the depth-first walk, given that the walk of any sub-directory (with `fuel`) empties it -/
theorem rmEntries_ref (fuel : Nat)
    (IH : ∀ (t : State) (cs : List Name) (es : Ents), GoodS t → CleanN cs → t.root.get cs = some (.dir es) →
      (Node.dir es).count ≤ fuel → rmWalk PR fuel (absOf cs) t = (emptied t cs, .ok .unit)) :
    ∀ (es : Ents) (t : State) (cs : List Name), GoodS t → CleanN cs → t.root.get cs = some (.dir es) →
      (∀ e ∈ es, e.2.count ≤ fuel) →
      rmEntries PR (rmWalk PR fuel) (absOf cs) (infos es) t = (emptied t cs, .ok .unit)
  | [], t, cs, _, _, hg, _ => by
    simp only [infos, List.map_nil, rmEntries, emptied]
    rw [setAt_self _ _ _ hg]
  | (k, v) :: rest, t, cs, G, hcs, hg, hfu => by
    have hw := entsWf_of_get G.wf hg
    have hk : cleanName k = true := lookup_clean k v _ hw (by simp [Ents.lookup])
    have hck : CleanN (cs ++ [k]) := cleanN_snoc hcs hk
    have hwr : entsWf rest = true := by
      simp only [entsWf, Bool.and_eq_true] at hw; exact hw.2
    have hgk := get_head hg
    -- the state after the entry is gone
    have Gr : GoodS { t with root := setAt t.root cs (.dir rest) } := goodS_setAt G hcs rest hwr
    have hgr : (setAt t.root cs (.dir rest)).get cs = some (.dir rest) := get_setAt_self hg _
    have ih := rmEntries_ref fuel IH rest { t with root := setAt t.root cs (.dir rest) } cs Gr hcs hgr
      (fun e he => hfu e (by simp [he]))
    have hfin : emptied { t with root := setAt t.root cs (.dir rest) } cs = emptied t cs := by
      simp [emptied, setAt_setAt]
    cases v with
    | file b =>
      simp only [infos, List.map_cons, infoOf, rmEntries, Bool.false_eq_true, if_false]
      rw [combine_absOf hcs hk]
      have hrm : PR.remove t (absOf (cs ++ [k])) = ({ t with root := setAt t.root cs (.dir rest) }, .ok .unit) := by
        show Ref.step t (.remove (absOf (cs ++ [k]))) = _
        rw [ref_one t G.opn _ hck rfl (by intro q m e; cases e)]
        simp [step1, hgk, upd, del_head hg]
      rw [hrm]
      simp only
      rw [← hfin]; exact ih
    | dir ev =>
      simp only [infos, List.map_cons, infoOf, rmEntries, if_true]
      rw [combine_absOf hcs hk]
      have hcnt : (Node.dir ev).count ≤ fuel := hfu (k, .dir ev) (by simp)
      rw [IH t (cs ++ [k]) ev G hck hgk hcnt]
      simp only
      -- the emptied sub-directory, seen from `cs`
      have he : (emptied t (cs ++ [k])).root = setAt t.root cs (.dir ((k, .dir []) :: rest)) := by
        simp [emptied, setAt_head hg]
      have hge : (emptied t (cs ++ [k])).root.get cs = some (.dir ((k, .dir []) :: rest)) := by
        rw [he]; exact get_setAt_self hg _
      have hrd : PR.removedir (emptied t (cs ++ [k])) (absOf (cs ++ [k])) =
          ({ t with root := setAt t.root cs (.dir rest) }, .ok .unit) := by
        show Ref.step (emptied t (cs ++ [k])) (.removedir (absOf (cs ++ [k]))) = _
        rw [ref_one (emptied t (cs ++ [k])) G.opn _ hck rfl (by intro q m e; cases e)]
        simp only [step1, List.append_eq_nil_iff, List.cons_ne_self, and_false, if_false, get_head hge,
          List.isEmpty_nil, if_true, upd, del_head hge]
        rw [he, setAt_setAt]
        rfl
      rw [hrd]
      simp only
      rw [← hfin]; exact ih

/-- the depth-first walk of a directory (with fuel for its nesting depth) empties it -/
theorem rmWalk_ref : ∀ (fuel : Nat) (t : State) (cs : List Name) (es : Ents), GoodS t → CleanN cs →
    t.root.get cs = some (.dir es) → (Node.dir es).count ≤ fuel →
    rmWalk PR fuel (absOf cs) t = (emptied t cs, .ok .unit)
  | 0, _, _, es, _, _, _, hf => by simp [Node.count] at hf
  | fuel + 1, t, cs, es, G, hcs, hg, hf => by
    rw [rmWalk]
    have hsc : PR.scandir t (absOf cs) = (t, .ok (infos es)) := by
      show scanOf Ref.step t (absOf cs) = _
      rw [scanOf_ref t G.opn G.wf hcs, hg]
    rw [hsc]
    simp only
    refine rmEntries_ref fuel (fun t' cs' es' G' hc' hg' hf' => rmWalk_ref fuel t' cs' es' G' hc' hg' hf') es t cs G hcs hg ?_
    intro e he
    have : e.2.count ≤ entsCount es := by
      clear hg hf hsc
      induction es with
      | nil => cases he
      | cons x xs ih =>
        simp only [List.mem_cons] at he
        rcases he with rfl | he
        · simp [entsCount]
        · have := ih he; simp only [entsCount]; omega
    simp only [Node.count] at hf
    omega


/-- the size of what lies at `cs` (0 when nothing does) -/
def subCount (t : Node) (cs : List Name) : Nat :=
  match t.get cs with
  | some n => n.count
  | none => 0

/-- `FS.removetree` as coded, over the primitives of the reference, on a path that validates: the
reference's `removetree` (error class included) -/
theorem removetree_ref_valid (fuel : Nat) (t : State) (G : GoodS t) (p : Str) (cs : List Name)
    (hv : validate p = .ok cs) (hf : subCount t.root cs < fuel) :
    removetree PR fuel t p = Ref.step t (.removetree p) := by
  have hcs : CleanN cs := TreeLemmas.validate_clean p cs hv
  rw [QueryLemmas.step_one t _ p G.opn rfl (by intro q m e; cases e), hv]
  have hvp : PR.validatepath t p = (t, .ok (absOf cs)) := by
    show validateOf Ref.step t p = _
    rw [validateOf_ref t G.opn, hv]
  simp only [removetree, hvp, removetreeBody]
  obtain ⟨f, rfl⟩ : ∃ f, fuel = f + 1 := ⟨fuel - 1, by omega⟩
  cases hg : t.root.get cs with
  | none =>
    have hne : cs ≠ [] := by rintro rfl; simp [Node.get] at hg
    have hsc : PR.scandir t (absOf cs) = (t, .err .ResourceNotFound) := by
      show scanOf Ref.step t (absOf cs) = _
      rw [scanOf_ref t G.opn G.wf hcs, hg]
    simp [rmWalk, hsc, step1, hg, hne, fail]
  | some n =>
    cases n with
    | file b =>
      have hne : cs ≠ [] := by
        rintro rfl
        simp only [Node.get, Option.some.injEq] at hg
        have := G.dir; rw [hg] at this; cases this
      have hsc : PR.scandir t (absOf cs) = (t, .err .DirectoryExpected) := by
        show scanOf Ref.step t (absOf cs) = _
        rw [scanOf_ref t G.opn G.wf hcs, hg]
      simp [rmWalk, hsc, step1, hg, hne, fail]
    | dir es =>
      have hcnt : (Node.dir es).count ≤ f := by
        simp only [subCount, hg] at hf; omega
      rw [rmWalk_ref (f + 1) t cs es G hcs hg (by omega)]
      simp only
      by_cases hne : cs = []
      · subst hne
        simp [absOf_nil, emptied, setAt, step1, upd]
      · have h1 : absOf cs ≠ ['/'] := fun e => hne ((absOf_eq_root hcs).1 e)
        simp only [h1, if_false]
        show Ref.step (emptied t cs) (.removedir p) = _
        rw [QueryLemmas.step_one (emptied t cs) _ p G.opn rfl (by intro q m e; cases e), hv]
        have hge : (t.root.set cs (.dir [])).get cs = some (.dir []) := by
          have := get_setAt_self hg (.dir []); rwa [setAt_ne hne] at this
        simp only [step1, hne, if_false, hg, upd, emptied, setAt_ne hne, OsLemmas.del_set, hge,
          List.isEmpty_nil, if_true]

/-- … and on a path that does not validate (an invalid character, or it climbs above the root): `validatepath`
refuses it with the reference's class, nothing changes (since /repo 433aea4; before, a NUL in a component
that `..` cancels went unseen) -/
theorem removetree_ref_invalid (fuel : Nat) (t : State) (G : GoodS t) (p : Str) (e : Err)
    (hv : validate p = .err e) :
    removetree PR fuel t p = Ref.step t (.removetree p) := by
  rw [QueryLemmas.step_one t _ p G.opn rfl (by intro q m e; cases e), hv]
  have hvp : PR.validatepath t p = (t, .err e) := by
    show validateOf Ref.step t p = _
    rw [validateOf_ref t G.opn, hv]
  simp [removetree, hvp, fail]

end Fs.BaseWalkRm
