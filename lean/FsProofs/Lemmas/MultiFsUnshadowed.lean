/-
  Helper lemmas for `MultiRefines.multi_mutators_refine_when_unshadowed`: a mutating call whose path goes
  through a top-level name that only the WRITE layer may hold.
-/
import FsProofs.Lemmas.MultiFsAgree

namespace Fs.MultiFsLemmas
open Fs Fs.Ref Fs.MultiFs Fs.WrapRefines Fs.MemRefines

/-- what can be observed of a node without its entries: a file's bytes / "a directory" -/
def shallow : Node → Option Bytes
  | .file b => some b
  | .dir _ => none

/-- the two trees show the same thing at every path (names, types, bytes; entry ORDER aside) -/
def ObsEq (a b : Node) : Prop := ∀ q, (a.get q).map shallow = (b.get q).map shallow

theorem find?_only (p : Nat → Bool) (w : Nat) : ∀ (is : List Nat), (∀ j ∈ is, j ≠ w → p j = false) →
    is.find? p = if p w = true ∧ w ∈ is then some w else none := by
  intro is
  induction is with
  | nil => intro _; simp
  | cons j is ih =>
    intro h
    have ih' := ih (fun k hk => h k (by simp [hk]))
    simp only [List.find?_cons]
    by_cases hj : j = w
    · subst hj
      cases hp : p j with
      | true => simp
      | false => simp [ih', hp]
    · have := h j (by simp) hj
      simp only [this, ih', List.mem_cons]
      by_cases hp : p w = true
      · by_cases hm : w ∈ is
        · simp [hp, hm]
        · simp [hp, hm, Ne.symm hj]
      · simp [hp]

section
variable {s : MState State}

theorem hasAt_of_top (c : Name) (rest : List Name) (j : Nat) (h : hasAt s [c] j = false) :
    hasAt s (c :: rest) j = false := by
  unfold hasAt at h ⊢
  cases hl : s.layers[j]? with
  | none => rfl
  | some l =>
    rw [hl] at h
    simp only at h ⊢
    cases hr : l.st.root with
    | file b => simp [Node.get]
    | dir es =>
      rw [hr] at h
      simp only [Node.get] at h ⊢
      cases hk : Ents.lookup c es with
      | none => rfl
      | some ch => rw [hk] at h; simp at h

/-- only the layer at position `w` may hold the top-level name `c` -/
def OnlyW (s : MState State) (w : Nat) (c : Name) : Prop := ∀ j, j ≠ w → hasAt s [c] j = false

theorem find_unshadowed (w : Nat) (c : Name) (rest : List Name) (hU : OnlyW s w c) (hw : w < s.layers.length) :
    (order s).find? (hasAt s (c :: rest)) = if hasAt s (c :: rest) w = true then some w else none := by
  rw [find?_only (hasAt s (c :: rest)) w (order s) (fun j _ hj => hasAt_of_top c rest j (hU j hj))]
  simp [mem_order s w hw]

/-- what the overlay shows under a top-level name only the layer at `w` may hold: that layer's entry -/
theorem overlay_top (G : GoodStack s) (w : Nat) (lw : Layer State) (hl : s.layers[w]? = some lw) (c : Name)
    (hU : OnlyW s w c) (rest : List Name) :
    (overlay s).root.get (c :: rest) = lw.st.root.get (c :: rest) := by
  have hw : w < s.layers.length := (List.getElem?_eq_some_iff.1 hl).1
  have hf := find_unshadowed w c rest hU hw
  cases hh : hasAt s (c :: rest) w with
  | false =>
    rw [hh] at hf
    simp only [Bool.false_eq_true, if_false] at hf
    rw [overlay_get_none s G.cons G.ne _ hf]
    simp only [hasAt, hl] at hh
    cases hg : lw.st.root.get (c :: rest) with
    | none => rfl
    | some n => rw [hg] at hh; cases hh
  | true =>
    rw [hh] at hf
    simp only [if_true] at hf
    obtain ⟨n, pre, post, hn, hsplit, hpre, hov⟩ := ovAt_find_some s (c :: rest) _ w hf
    rw [overlay_get s G.cons G.ne, hov]
    have hpost : ∀ x ∈ post.map (nodeAt s (c :: rest)), x = none := by
      intro x hx
      obtain ⟨j, hj, rfl⟩ := List.mem_map.1 hx
      have hjw : j ≠ w := by
        rintro rfl
        have hnd := order_nodup s
        rw [hsplit] at hnd
        have := (List.nodup_append.1 hnd).2.1
        exact (List.nodup_cons.1 this).1 hj
      have := hasAt_of_top c rest j (hU j hjw)
      rw [hasAt_eq] at this
      cases hx : nodeAt s (c :: rest) j <;> simp_all
    rw [ovAt_all_none _ hpost, overNode_none]
    rw [nodeAt_layer hl] at hn
    exact hn.symm

/-- the overlay's root is a directory whose names do not repeat -/
theorem overlay_root_dir (G : GoodStack s) : ∃ eu, (overlay s).root = .dir eu ∧ (Ents.names eu).Nodup := by
  have hall : AllDirs ((order s).map (nodeAt s [])) := by
    intro n hn
    obtain ⟨j, _, hj⟩ := List.mem_map.1 hn
    unfold nodeAt at hj
    cases hl : s.layers[j]? with
    | none => rw [hl] at hj; cases hj
    | some l =>
      rw [hl] at hj
      simp only [Option.bind_some, Node.get, Option.some.injEq] at hj
      have Gl := G.good l (List.mem_of_getElem? hl)
      cases hr : l.st.root with
      | file b => have := Gl.dir; rw [hr] at this; cases this
      | dir es =>
        refine ⟨es, by rw [← hj, hr], ?_⟩
        have hwf := Gl.wf
        rw [hr] at hwf
        exact QueryLemmas.entsWf_names_nodup es (by simpa [Node.wf] using hwf)
  have hg := overlay_get s G.cons G.ne []
  simp only [Node.get] at hg
  rcases ovAt_dir_names _ hall with ⟨hnone, _⟩ | ⟨es', hes', hnames⟩
  · rw [hnone] at hg; cases hg
  · rw [hes'] at hg
    simp only [Option.some.injEq] at hg
    exact ⟨es', hg, by rw [hnames]; exact RouteLemmas.MultiL.nodup_dedupGo [] _⟩

theorem overlay_root_isDir' (G : GoodStack s) : (overlay s).root.isDir = true := by
  obtain ⟨eu, heu, _⟩ := overlay_root_dir G
  rw [heu]; rfl

theorem overlay_agree (G : GoodStack s) (w : Nat) (lw : Layer State) (hl : s.layers[w]? = some lw) (c : Name)
    (hU : OnlyW s w c) : AgreeAt c lw.st.root (overlay s).root := by
  obtain ⟨eu, heu, _⟩ := overlay_root_dir G
  have Gl := G.good lw (List.mem_of_getElem? hl)
  cases hr : lw.st.root with
  | file b => have := Gl.dir; rw [hr] at this; cases this
  | dir et =>
    refine ⟨et, eu, rfl, heu, ?_⟩
    have := overlay_top G w lw hl c hU []
    rw [heu, hr] at this
    simp only [Node.get] at this
    cases h1 : Ents.lookup c et <;> cases h2 : Ents.lookup c eu <;> simp_all

end

/-- the admissible classes of a one-path operation are local too -/
theorem adm1_agree {c : Name} {t u : Node} (h : AgreeAt c t u) (rest : List Name) (op : Op) :
    adm1 t (c :: rest) op = adm1 u (c :: rest) op := by
  have h1 := agree_get h rest
  have h3 := agree_blocked h rest
  have h2 : kindAt t (parentOf (c :: rest)) = kindAt u (parentOf (c :: rest)) := by
    have := agree_parentKind h rest
    unfold parentKind at this
    unfold kindAt
    cases ht : t.get (parentOf (c :: rest)) with
    | none => rw [ht] at this; cases hu : u.get (parentOf (c :: rest)) with
      | none => rfl
      | some n => rw [hu] at this; cases this
    | some n =>
      rw [ht] at this
      cases hu : u.get (parentOf (c :: rest)) with
      | none => rw [hu] at this; cases this
      | some m =>
        rw [hu] at this
        simp only [Option.map_some, Option.some.injEq] at this
        cases n <;> cases m <;> simp_all [Node.isDir]
  have hk : kindAt t (c :: rest) = kindAt u (c :: rest) := by unfold kindAt; rw [h1]
  cases op <;> simp only [adm1, admDirArg, admFileArg, admFileTarget, hk, h2, h3, h1]

theorem get_of_top {t u : Node} (ht : t.isDir = true) (hu : u.isDir = true) (k : Name)
    (h : topOf t k = topOf u k) (q : List Name) : t.get (k :: q) = u.get (k :: q) := by
  cases t with
  | file _ => cases ht
  | dir et =>
    cases u with
    | file _ => cases hu
    | dir eu =>
      simp only [topOf, Node.entries] at h
      rw [get_cons_dir, get_cons_dir, h]


/-! ### replacing the state of the layer at `w` -/

/-- the stack with the state of the layer at position `w` replaced -/
def putW (s : MState State) (w : Nat) (lw : Layer State) (t : State) : MState State :=
  { s with layers := s.layers.set w { lw with st := t } }

section
variable {s : MState State}

theorem putW_get (w : Nat) (lw : Layer State) (t : State) (hl : s.layers[w]? = some lw) (j : Nat) :
    (putW s w lw t).layers[j]? = if j = w then some { lw with st := t } else s.layers[j]? := by
  have hw : w < s.layers.length := (List.getElem?_eq_some_iff.1 hl).1
  simp only [putW, List.getElem?_set]
  by_cases hj : j = w
  · subst hj; simp [hw]
  · simp [hj, Ne.symm hj]

theorem putW_cfg (w : Nat) (lw : Layer State) (t : State) (hl : s.layers[w]? = some lw) :
    SameCfg s (putW s w lw t) :=
  ⟨set_map_lmeta _ _ _ _ hl, rfl, rfl, rfl, rfl⟩

theorem nodeAt_putW (w : Nat) (lw : Layer State) (t : State) (hl : s.layers[w]? = some lw) (cs : List Name) (j : Nat) :
    nodeAt (putW s w lw t) cs j = if j = w then t.root.get cs else nodeAt s cs j := by
  unfold nodeAt
  rw [putW_get w lw t hl j]
  by_cases hj : j = w <;> simp [hj]

theorem hasAt_putW_other (w : Nat) (lw : Layer State) (t : State) (hl : s.layers[w]? = some lw) (cs : List Name)
    (j : Nat) (hj : j ≠ w) : hasAt (putW s w lw t) cs j = hasAt s cs j := by
  rw [hasAt_eq, hasAt_eq, nodeAt_putW w lw t hl cs j]; simp [hj]

/-- the stack stays good when the write layer makes a reference step that leaves every other top-level
entry alone, under a name only it may hold -/
theorem goodStack_putW (G : GoodStack s) (w : Nat) (lw : Layer State) (hl : s.layers[w]? = some lw) (c : Name)
    (hU : OnlyW s w c) (t' : State) (G' : Good t')
    (hframe : ∀ k, k ≠ c → topOf t'.root k = topOf lw.st.root k) :
    GoodStack (putW s w lw t') ∧ OnlyW (putW s w lw t') w c := by
  have Glw := G.good lw (List.mem_of_getElem? hl)
  have hmem : ∀ l ∈ (putW s w lw t').layers, l = { lw with st := t' } ∨ ∃ j, j ≠ w ∧ s.layers[j]? = some l := by
    intro l hl'
    obtain ⟨j, hj⟩ := List.mem_iff_getElem?.1 hl'
    rw [putW_get w lw t' hl j] at hj
    by_cases hjw : j = w
    · simp only [hjw, if_true, Option.some.injEq] at hj; exact Or.inl hj.symm
    · simp only [hjw, if_false] at hj; exact Or.inr ⟨j, hjw, hj⟩
  have hc2 : ∀ (j : Nat) (l : Layer State), j ≠ w → s.layers[j]? = some l →
      Cons2 t'.root l.st.root ∧ Cons2 l.st.root t'.root := by
    intro j l hjw hlj
    have hno : ∀ q, l.st.root.get (c :: q) = none := by
      intro q
      have := hasAt_of_top c q j (hU j hjw)
      simp only [hasAt, hlj] at this
      cases hg : l.st.root.get (c :: q) with
      | none => rfl
      | some n => rw [hg] at this; cases this
    have hml := List.mem_of_getElem? hlj
    have hmw := List.mem_of_getElem? hl
    have Gl := G.good l hml
    constructor
    · intro q x y hx hy
      cases q with
      | nil =>
        simp only [Node.get, Option.some.injEq] at hx hy
        rw [← hx, ← hy, G'.dir, Gl.dir]
      | cons k q =>
        by_cases hk : k = c
        · subst hk; rw [hno q] at hy; cases hy
        · rw [get_of_top G'.dir Glw.dir k (hframe k hk) q] at hx
          exact G.cons lw hmw l hml (k :: q) x y hx hy
    · intro q x y hx hy
      cases q with
      | nil =>
        simp only [Node.get, Option.some.injEq] at hx hy
        rw [← hx, ← hy, G'.dir, Gl.dir]
      | cons k q =>
        by_cases hk : k = c
        · subst hk; rw [hno q] at hx; cases hx
        · rw [get_of_top G'.dir Glw.dir k (hframe k hk) q] at hy
          exact G.cons l hml lw hmw (k :: q) x y hx hy
  refine ⟨⟨G.opn, ?_, ?_, ?_⟩, ?_⟩
  · intro h
    have := congrArg List.length h
    simp only [putW, List.length_set, List.length_nil] at this
    exact G.ne (List.eq_nil_of_length_eq_zero this)
  · intro l hl'
    rcases hmem l hl' with rfl | ⟨j, _, hlj⟩
    · exact G'
    · exact G.good l (List.mem_of_getElem? hlj)
  · intro a ha b hb
    rcases hmem a ha with rfl | ⟨ja, hja, hla⟩ <;> rcases hmem b hb with rfl | ⟨jb, hjb, hlb⟩
    · intro q x y hx hy; rw [hx] at hy; cases hy; rfl
    · exact (hc2 jb b hjb hlb).1
    · exact (hc2 ja a hja hla).2
    · exact G.cons a (List.mem_of_getElem? hla) b (List.mem_of_getElem? hlb)
  · intro j hj
    rw [hasAt_putW_other w lw t' hl [c] j hj]
    exact hU j hj

/-- **after the step**: the overlay of the new stack shows, at every path, what the reference's step on
the old overlay shows -/
theorem obsEq_putW (G : GoodStack s) (w : Nat) (lw : Layer State) (hl : s.layers[w]? = some lw) (c : Name)
    (hU : OnlyW s w c) (t' u' : State) (G' : Good t')
    (hframe_t : ∀ k, k ≠ c → topOf t'.root k = topOf lw.st.root k)
    (hframe_u : ∀ k, k ≠ c → topOf u'.root k = topOf (overlay s).root k)
    (hA : AgreeAt c t'.root u'.root) :
    ObsEq (overlay (putW s w lw t')).root u'.root := by
  obtain ⟨G2, hU2⟩ := goodStack_putW G w lw hl c hU t' G' hframe_t
  have hl2 : (putW s w lw t').layers[w]? = some { lw with st := t' } := by rw [putW_get w lw t' hl w]; simp
  have Glw := G.good lw (List.mem_of_getElem? hl)
  obtain ⟨e2, he2, _⟩ := overlay_root_dir G2
  obtain ⟨eo, heo, _⟩ := overlay_root_dir G
  obtain ⟨et', eu', ht', hu', _⟩ := hA
  intro q
  cases q with
  | nil => simp [Node.get, he2, hu', shallow]
  | cons k q =>
    by_cases hk : k = c
    · subst hk
      rw [overlay_top G2 w _ hl2 k hU2 q]
      exact congrArg _ (agree_get ⟨et', eu', ht', hu', by assumption⟩ q)
    · have h1 : (overlay (putW s w lw t')).root.get (k :: q) = (overlay s).root.get (k :: q) := by
        rw [overlay_get _ G2.cons G2.ne, overlay_get s G.cons G.ne, (putW_cfg w lw t' hl).order]
        congr 1
        apply List.map_congr_left
        intro j _
        rw [nodeAt_putW w lw t' hl (k :: q) j]
        by_cases hj : j = w
        · subst hj
          simp only [if_true, nodeAt_layer hl]
          exact get_of_top G'.dir Glw.dir k (hframe_t k hk) q
        · simp [hj]
      rw [h1]
      have hud : u'.root.isDir = true := by rw [hu']; rfl
      have hod : (overlay s).root.isDir = true := by rw [heo]; rfl
      rw [get_of_top hud hod k (hframe_u k hk) q]


end

/-! ### one call on the write layer / on the only layer that may have the path -/

/-- the refinement statement on the OVERLAY for a mutating call: the reference's verdict; on success its
value, the layer at `w` made the reference's step, nothing else changed, and the new overlay shows what the
reference's resulting tree shows; on failure nothing changed and the class is admissible for the overlay -/
def USim (s : MState State) (w : Nat) (lw : Layer State) (op : Op) (r : MState State × Out) : Prop :=
  (r.2.isOk = (Ref.step (overlay s) op).2.isOk) ∧
  ((Ref.step (overlay s) op).2.isOk = true →
    r.2 = (Ref.step (overlay s) op).2 ∧ r.1 = putW s w lw (Ref.step lw.st op).1 ∧
    ObsEq (overlay r.1).root (Ref.step (overlay s) op).1.root) ∧
  (∀ e, r.2 = .err e → r.1 = s ∧ e ∈ adm (overlay s) op)

/-- how the reference treats a one-path operation, independently of the tree -/
theorem one_path_cases (op : Op) (p : Str) (hp : op.paths = [p]) :
    (∀ e, validate p = .err e →
      (∀ x : State, x.closed = false → ∃ e0, Ref.step x op = (x, .err e0)) ∧
      (∀ x y : State, x.closed = false → y.closed = false → adm x op = adm y op)) ∧
    (∀ cs, validate p = .ok cs →
      (∀ x : State, x.closed = false → adm x op = adm1 x.root cs op) ∧
      ((∀ x : State, x.closed = false → Ref.step x op = step1 x cs op) ∨
       (∀ x : State, x.closed = false → Ref.step x op = (x, .err .ValueError)))) := by
  rcases QueryLemmas.op_cases op with rfl | ⟨q, m, rfl⟩ | ⟨q, hq, hno⟩ | ⟨a, b, hab⟩
  · simp [Op.paths] at hp
  · simp only [Op.paths, List.cons.injEq, and_true] at hp
    subst hp
    refine ⟨fun e hv => ⟨fun x hx => ?_, fun x y hx hy => ?_⟩, fun cs hv => ⟨fun x hx => ?_, ?_⟩⟩
    · rw [ref_openbin x hx, hv]
      cases (parseBinMode m).isNone
      · exact ⟨e, rfl⟩
      · exact ⟨.ValueError, rfl⟩
    · rw [QueryLemmas.adm_openbin x q m hx, QueryLemmas.adm_openbin y q m hy, hv]
    · rw [QueryLemmas.adm_openbin x q m hx, hv]
    · cases hpm : (parseBinMode m).isNone with
      | true => right; intro x hx; rw [ref_openbin x hx, hpm]; rfl
      | false => left; intro x hx; rw [ref_openbin x hx, hpm, hv]; rfl
  · rw [hq] at hp
    simp only [List.cons.injEq, and_true] at hp
    subst hp
    refine ⟨fun e hv => ⟨fun x hx => ?_, fun x y hx hy => ?_⟩, fun cs hv => ⟨fun x hx => ?_, ?_⟩⟩
    · exact ⟨e, by rw [ref_one x hx op q hq hno, hv]⟩
    · rw [QueryLemmas.adm_one x op q hx hq hno, QueryLemmas.adm_one y op q hy hq hno, hv]
    · rw [QueryLemmas.adm_one x op q hx hq hno, hv]
    · left; intro x hx; rw [ref_one x hx op q hq hno, hv]
  · rw [hab] at hp; simp at hp

section
variable {s : MState State}

theorem nodupTop_good {t : State} (G : Good t) : NodupTop t.root := by
  unfold NodupTop
  cases hr : t.root with
  | file b => simp [Node.entries, Ents.names]
  | dir es =>
    have := G.wf
    rw [hr] at this
    exact QueryLemmas.entsWf_names_nodup es (by simpa [Node.wf] using this)

/-- ONE call of the operation on the layer at `w`, for a path under a top-level name only that layer may
hold -/
theorem unshadowed_call (F : FS State) (hF : RefinesRef F) (G : GoodStack s) (w : Nat) (lw : Layer State)
    (hl : s.layers[w]? = some lw) (op : Op) (p : Str) (hp : op.paths = [p]) (hb : bulk op = false)
    (hU : ∀ c rest, validate p = .ok (c :: rest) → OnlyW s w c) (hroot : validate p ≠ .ok []) :
    USim s w lw op (callLayer F s w op) := by
  have Gt : Good lw.st := G.good lw (List.mem_of_getElem? hl)
  have hou := overlay_open G
  obtain ⟨hinv, hval⟩ := one_path_cases op p hp
  have hcases := callLayer_cases F hF s G.good w lw hl op hb
  cases hv : validate p with
  | err e0 =>
    obtain ⟨herr, hadm⟩ := hinv e0 hv
    obtain ⟨et, het⟩ := herr lw.st Gt.opn
    obtain ⟨eu, heu⟩ := herr (overlay s) hou
    rcases hcases with ⟨hok, _⟩ | ⟨e, e', _, h, ha⟩
    · rw [het] at hok; cases hok
    · rw [h]
      refine ⟨by rw [heu]; rfl, fun hk => (by rw [heu] at hk; cases hk), ?_⟩
      intro x hx
      simp only [Res.err.injEq] at hx
      subst hx
      exact ⟨rfl, by rw [← hadm lw.st (overlay s) Gt.opn hou]; exact ha⟩
  | ok cs =>
    cases cs with
    | nil => exact absurd hv hroot
    | cons c rest =>
      have hUc := hU c rest hv
      have hA := overlay_agree G w lw hl c hUc
      obtain ⟨eu, heu, hnu⟩ := overlay_root_dir G
      have hnt := nodupTop_good Gt
      have hnu' : NodupTop (overlay s).root := by unfold NodupTop; rw [heu]; exact hnu
      obtain ⟨hout, hAres, hft, hfu⟩ := step1_agree c rest lw.st (overlay s) hA hnt hnu' op
      obtain ⟨hadm1, hform⟩ := hval (c :: rest) hv
      have hadm_eq : adm lw.st op = adm (overlay s) op := by
        rw [hadm1 lw.st Gt.opn, hadm1 (overlay s) hou, adm1_agree hA rest op]
      rcases hform with hstep | hve
      · have hrt := hstep lw.st Gt.opn
        have hru := hstep (overlay s) hou
        rcases hcases with ⟨hok, h⟩ | ⟨e, e', hr, h, ha⟩
        · have hputW : ({ s with layers := s.layers.set w { lw with st := (Ref.step lw.st op).1 } } : MState State)
              = putW s w lw (Ref.step lw.st op).1 := rfl
          rw [h, hputW]
          have hout' : (Ref.step lw.st op).2 = (Ref.step (overlay s) op).2 := by rw [hrt, hru, hout]
          refine ⟨by rw [hout'], fun _ => ⟨hout', rfl, ?_⟩, ?_⟩
          · have hop : op ≠ .close := by rintro rfl; simp [Op.paths] at hp
            have G' : Good (Ref.step lw.st op).1 := good_step Gt op hop
            rw [hrt] at G' ⊢
            rw [hru]
            exact obsEq_putW G w lw hl c hUc _ _ G' hft hfu hAres
          · intro x hx
            simp only at hx
            rw [hx] at hok; cases hok
        · rw [h]
          have hue : (Ref.step (overlay s) op).2 = .err e := by rw [hru, ← hout, ← hrt, hr]
          refine ⟨by rw [hue]; rfl, fun hk => (by rw [hue] at hk; cases hk), ?_⟩
          intro x hx
          simp only [Res.err.injEq] at hx
          subst hx
          exact ⟨rfl, by rw [← hadm_eq]; exact ha⟩
      · have hrt := hve lw.st Gt.opn
        have hru := hve (overlay s) hou
        rcases hcases with ⟨hok, _⟩ | ⟨e, e', _, h, ha⟩
        · rw [hrt] at hok; cases hok
        · rw [h]
          refine ⟨by rw [hru]; rfl, fun hk => (by rw [hru] at hk; cases hk), ?_⟩
          intro x hx
          simp only [Res.err.injEq] at hx
          subst hx
          exact ⟨rfl, by rw [← hadm_eq]; exact ha⟩

/-- `remove` / `removedir` of a path under a top-level name only the layer at `w` may hold -/
theorem unshadowed_onDelegate (F : FS State) (hF : RefinesRef F) (G : GoodStack s) (w : Nat) (lw : Layer State)
    (hl : s.layers[w]? = some lw) (op : Op) (p : Str) (hp : op.paths = [p]) (hno : ∀ q m, op ≠ .openbin q m)
    (hb : bulk op = false)
    (hU : ∀ c rest, validate p = .ok (c :: rest) → OnlyW s w c) (hroot : validate p ≠ .ok [])
    (hmiss : ∀ cs, cs ≠ [] → (overlay s).root.get cs = none →
      step1 (overlay s) cs op = (overlay s, .err .ResourceNotFound)) :
    USim s w lw op (onDelegate F s p op) := by
  have hou := overlay_open G
  have hw : w < s.layers.length := (List.getElem?_eq_some_iff.1 hl).1
  rw [onDelegate_eq F hF s G.good p op _]
  have hro := ref_one (overlay s) hou op p hp hno
  have htruth : ∀ e, (Ref.step (overlay s) op).2 = .err e → e ∈ adm (overlay s) op := by
    intro e he
    rcases C06.ref_error_truthful (overlay s) op e (overlay_root_isDir' G) he with h' | h'
    · exact h'
    · subst h'; exact absurd he (not_loose _ op hb)
  cases hv : validate p with
  | err e0 =>
    simp only [order_ne_nil G, if_false]
    have : Ref.step (overlay s) op = (overlay s, .err e0) := by rw [hro, hv]
    refine ⟨by rw [this], fun hk => (by rw [this] at hk; cases hk), ?_⟩
    intro x hx
    simp only [Res.err.injEq] at hx
    subst hx
    exact ⟨rfl, htruth _ (by rw [this])⟩
  | ok cs =>
    cases cs with
    | nil => exact absurd hv hroot
    | cons c rest =>
      have hUc := hU c rest hv
      simp only [find_unshadowed w c rest hUc hw]
      cases hh : hasAt s (c :: rest) w with
      | true => simp only [if_true]; exact unshadowed_call F hF G w lw hl op p hp hb hU hroot
      | false =>
        simp only [Bool.false_eq_true, if_false]
        have hg : lw.st.root.get (c :: rest) = none := by
          simp only [hasAt, hl] at hh
          cases hg : lw.st.root.get (c :: rest) with
          | none => rfl
          | some n => rw [hg] at hh; cases hh
        have hgu : (overlay s).root.get (c :: rest) = none := by rw [overlay_top G w lw hl c hUc rest, hg]
        have : Ref.step (overlay s) op = (overlay s, .err .ResourceNotFound) := by
          rw [hro, hv]; exact hmiss (c :: rest) (by simp) hgu
        refine ⟨by rw [this], fun hk => (by rw [this] at hk; cases hk), ?_⟩
        intro x hx
        simp only [Res.err.injEq] at hx
        subst hx
        exact ⟨rfl, htruth _ (by rw [this])⟩


/-! ### `create` / `touch` under an unshadowed name (`exists`, then `open(path, "wb")` on the write layer) -/

/-- map the value of a successful outcome -/
def mapOut {α : Type} (g : Val → Val) (r : α × Out) : α × Out :=
  match r with
  | (x, .ok v) => (x, .ok (g v))
  | (x, .err e) => (x, .err e)

/-- a call answered through ANOTHER call `op'` whose reference outcome determines the reference outcome of `op`
on both the write layer's tree and the overlay (same resulting state, value mapped by `g`, same error) -/
theorem usim_transfer (w : Nat) (lw : Layer State) (op op' : Op) (g : Val → Val) (r' : MState State × Out)
    (h : USim s w lw op' r')
    (hl : Ref.step lw.st op = mapOut g (Ref.step lw.st op'))
    (ho : Ref.step (overlay s) op = mapOut g (Ref.step (overlay s) op'))
    (hadm : adm (overlay s) op' = adm (overlay s) op) :
    USim s w lw op (mapOut g r') := by
  unfold USim at h ⊢
  rw [ho, hl]
  generalize Ref.step (overlay s) op' = ro at h ⊢
  generalize Ref.step lw.st op' = rl at h ⊢
  obtain ⟨h1, h2, h3⟩ := h
  obtain ⟨s1, o⟩ := r'
  obtain ⟨u', ou⟩ := ro
  obtain ⟨t', ot⟩ := rl
  refine ⟨?_, ?_, ?_⟩
  · cases o <;> cases ou <;> simp_all [Res.isOk, mapOut]
  · intro hok
    cases ou with
    | err e => simp [Res.isOk, mapOut] at hok
    | ok v =>
      obtain ⟨ha, hb, hc⟩ := h2 rfl
      simp only at ha hb hc
      subst ha
      cases ot <;> exact ⟨rfl, hb, hc⟩
  · intro e he
    cases o with
    | ok v => simp [mapOut] at he
    | err e0 =>
      simp only [mapOut, Res.err.injEq] at he
      subst he
      obtain ⟨ha, hb⟩ := h3 e0 rfl
      exact ⟨ha, by rw [← hadm]; exact hb⟩

theorem ref_make_rel (x : State) (hx : x.closed = false) (op : Op) (p : Str) (v : Val) (hp : op.paths = [p])
    (hno : ∀ q m, op ≠ .openbin q m)
    (hstep : ∀ cs, validate p = .ok cs → step1 x cs op = writeFile x cs (fun _ => []) v) :
    Ref.step x op = mapOut (fun _ => v) (Ref.step x (.openbin p ['w', 'b'])) := by
  have h2 := ref_openbin x hx p ['w', 'b']
  simp only [parse_wb, Option.isNone_some, Bool.false_eq_true, if_false] at h2
  rw [ref_one x hx op p hp hno, h2]
  cases hv : validate p with
  | err e => rfl
  | ok cs =>
    simp only
    rw [hstep cs hv, step1_write_wb x cs p v]
    generalize step1 x cs (.openbin p ['w', 'b']) = r
    obtain ⟨t', o⟩ := r
    cases o <;> rfl

/-- `open(path, "wb")` on the write layer, answered as `v`: the tail of `create` / `touch` -/
theorem unshadowed_make (F : FS State) (hF : RefinesRef F) (G : GoodStack s) (w : Nat) (lw : Layer State)
    (hl : s.layers[w]? = some lw) (op : Op) (p : Str) (v : Val) (hp : op.paths = [p])
    (hno : ∀ q m, op ≠ .openbin q m)
    (hadm : ∀ (t : Node) cs, adm1 t cs op = admFileTarget t cs)
    (hU : ∀ c rest, validate p = .ok (c :: rest) → OnlyW s w c) (hroot : validate p ≠ .ok [])
    (hstepl : ∀ cs, validate p = .ok cs → step1 lw.st cs op = writeFile lw.st cs (fun _ => []) v)
    (hstepo : ∀ cs, validate p = .ok cs → step1 (overlay s) cs op = writeFile (overlay s) cs (fun _ => []) v) :
    USim s w lw op (mapOut (fun _ => v) (callLayer F s w (.openbin p ['w', 'b']))) := by
  have Gt : Good lw.st := G.good lw (List.mem_of_getElem? hl)
  have hcall := unshadowed_call F hF G w lw hl (.openbin p ['w', 'b']) p rfl rfl hU hroot
  exact usim_transfer w lw op (.openbin p ['w', 'b']) (fun _ => v) _ hcall
    (ref_make_rel lw.st Gt.opn op p v hp hno hstepl)
    (ref_make_rel (overlay s) (overlay_open G) op p v hp hno hstepo)
    (adm_write_wb (overlay s) (overlay_open G) op p hp hno (fun cs => hadm _ cs))

theorem unshadowed_exists (F : FS State) (hF : RefinesRef F) (G : GoodStack s) (w : Nat) (lw : Layer State)
    (hl : s.layers[w]? = some lw) (p : Str) (c : Name) (rest : List Name) (hv : validate p = .ok (c :: rest))
    (hU : OnlyW s w c) :
    existsM F s p = (s, .ok (.bool (lw.st.root.get (c :: rest)).isSome)) ∧
    (overlay s).root.get (c :: rest) = lw.st.root.get (c :: rest) := by
  have hw : w < s.layers.length := (List.getElem?_eq_some_iff.1 hl).1
  refine ⟨?_, overlay_top G w lw hl c hU rest⟩
  rw [existsM_eq F hF s G.good p, hv]
  simp only [anyHas, find_unshadowed w c rest hU hw, hasAt, hl]
  cases (lw.st.root.get (c :: rest)).isSome <;> rfl

theorem unshadowed_create (F : FS State) (hF : RefinesRef F) (G : GoodStack s) (w : Nat) (lw : Layer State)
    (hl : s.layers[w]? = some lw) (hwp : writePos s = some w) (p : Str) (wipe : Bool)
    (hU : ∀ c rest, validate p = .ok (c :: rest) → OnlyW s w c) (hroot : validate p ≠ .ok []) :
    USim s w lw (.create p wipe) (createM F s p wipe) := by
  have hou := overlay_open G
  have hmake : ∀ w', (∀ cs, validate p = .ok cs → step1 lw.st cs (.create p w') =
        writeFile lw.st cs (fun _ => []) (.bool true)) →
      (∀ cs, validate p = .ok cs → step1 (overlay s) cs (.create p w') =
        writeFile (overlay s) cs (fun _ => []) (.bool true)) →
      USim s w lw (.create p w') (mapOut (fun _ => .bool true) (callLayer F s w (.openbin p ['w', 'b']))) :=
    fun w' h1 h2 =>
    unshadowed_make F hF G w lw hl (.create p w') p (.bool true) rfl (by intro q m h; cases h) (fun _ _ => rfl)
      hU hroot h1 h2
  have htruth : ∀ e, (Ref.step (overlay s) (.create p wipe)).2 = .err e → e ∈ adm (overlay s) (.create p wipe) := by
    intro e he
    rcases C06.ref_error_truthful (overlay s) _ e (overlay_root_isDir' G) he with h' | h'
    · exact h'
    · subst h'; exact absurd he (not_loose _ _ rfl)
  unfold createM
  cases wipe with
  | true =>
    have := hmake true (fun cs _ => by simp [step1]) (fun cs _ => by simp [step1])
    simp only [if_true, onWrite, hwp]
    generalize callLayer F s w (.openbin p ['w', 'b']) = r at this ⊢
    obtain ⟨s1, o⟩ := r
    cases o <;> exact this
  | false =>
    simp only [Bool.false_eq_true, if_false]
    have hro := ref_one (overlay s) hou (.create p false) p rfl (by intro q m h; cases h)
    cases hv : validate p with
    | err e =>
      rw [existsM_eq F hF s G.good p, hv]
      simp only [order_ne_nil G, if_false]
      have : Ref.step (overlay s) (.create p false) = (overlay s, .err e) := by rw [hro, hv]
      refine ⟨by rw [this], fun hk => (by rw [this] at hk; cases hk), ?_⟩
      intro x hx
      simp only [Res.err.injEq] at hx
      subst hx
      exact ⟨rfl, htruth _ (by rw [this])⟩
    | ok cs =>
      cases cs with
      | nil => exact absurd hv hroot
      | cons c rest =>
        obtain ⟨hex, hget⟩ := unshadowed_exists F hF G w lw hl p c rest hv (hU c rest hv)
        rw [hex]
        cases hg : lw.st.root.get (c :: rest) with
        | some n =>
          simp only [Option.isSome_some]
          have : Ref.step (overlay s) (.create p false) = (overlay s, .ok (.bool false)) := by
            rw [hro, hv]; simp [step1, hget, hg, done]
          refine ⟨by rw [this], fun _ => ⟨by rw [this], ?_, ?_⟩, fun e he => by simp at he⟩
          · have Gt : Good lw.st := G.good lw (List.mem_of_getElem? hl)
            have : Ref.step lw.st (.create p false) = (lw.st, .ok (.bool false)) := by
              rw [ref_one lw.st Gt.opn _ p rfl (by intro q m h; cases h), hv]; simp [step1, hg, done]
            rw [this]
            simp only [putW]
            rw [set_self _ _ _ hl]
          · rw [this]; intro q; rfl
        | none =>
          have := hmake false (fun cs' hv' => by rw [hv] at hv'; cases hv'; simp [step1, hg])
            (fun cs' hv' => by rw [hv] at hv'; cases hv'; simp [step1, hget, hg])
          simp only [Option.isSome_none, onWrite, hwp]
          generalize callLayer F s w (.openbin p ['w', 'b']) = r at this ⊢
          obtain ⟨s1, o⟩ := r
          cases o <;> exact this


theorem unshadowed_touch (F : FS State) (hF : RefinesRef F) (G : GoodStack s) (w : Nat) (lw : Layer State)
    (hl : s.layers[w]? = some lw) (hwp : writePos s = some w) (p : Str)
    (hU : ∀ c rest, validate p = .ok (c :: rest) → OnlyW s w c) (hroot : validate p ≠ .ok []) :
    USim s w lw (.touch p) (touchM F s p) := by
  have hou := overlay_open G
  have Gt : Good lw.st := G.good lw (List.mem_of_getElem? hl)
  have htruth : ∀ e, (Ref.step (overlay s) (.touch p)).2 = .err e → e ∈ adm (overlay s) (.touch p) := by
    intro e he
    rcases C06.ref_error_truthful (overlay s) _ e (overlay_root_isDir' G) he with h' | h'
    · exact h'
    · subst h'; exact absurd he (not_loose _ _ rfl)
  have hro := ref_one (overlay s) hou (.touch p) p rfl (by intro q m h; cases h)
  unfold touchM createM
  simp only [Bool.false_eq_true, if_false]
  cases hv : validate p with
  | err e =>
    rw [existsM_eq F hF s G.good p, hv]
    simp only [order_ne_nil G, if_false]
    have : Ref.step (overlay s) (.touch p) = (overlay s, .err e) := by rw [hro, hv]
    refine ⟨by rw [this], fun hk => (by rw [this] at hk; cases hk), ?_⟩
    intro x hx
    simp only [Res.err.injEq] at hx
    subst hx
    exact ⟨rfl, htruth _ (by rw [this])⟩
  | ok cs =>
    cases cs with
    | nil => exact absurd hv hroot
    | cons c rest =>
      obtain ⟨hex, hget⟩ := unshadowed_exists F hF G w lw hl p c rest hv (hU c rest hv)
      rw [hex]
      cases hg : lw.st.root.get (c :: rest) with
      | some n =>
        simp only [Option.isSome_some, onWrite, hwp]
        have hset : Ref.step lw.st (.settimes p) = (lw.st, .ok .unit) := by
          rw [ref_one lw.st Gt.opn (.settimes p) p rfl (by intro q m h; cases h), hv]
          simp [step1, hg, done]
        rw [callLayer_query F hF s G.good w lw hl _ rfl (by rw [hset]) (by rw [hset]; rfl), hset]
        have : Ref.step (overlay s) (.touch p) = (overlay s, .ok .unit) := by
          rw [hro, hv]; simp [step1, hget, hg, done]
        refine ⟨by rw [this], fun _ => ⟨by rw [this], ?_, ?_⟩, fun e he => by simp at he⟩
        · have : Ref.step lw.st (.touch p) = (lw.st, .ok .unit) := by
            rw [ref_one lw.st Gt.opn _ p rfl (by intro q m h; cases h), hv]; simp [step1, hg, done]
          rw [this]
          simp only [putW]
          rw [set_self _ _ _ hl]
        · rw [this]; intro q; rfl
      | none =>
        have := unshadowed_make F hF G w lw hl (.touch p) p .unit rfl (by intro q m h; cases h) (fun _ _ => rfl)
          hU hroot (fun cs' hv' => by rw [hv] at hv'; cases hv'; simp [step1, hg])
          (fun cs' hv' => by rw [hv] at hv'; cases hv'; simp [step1, hget, hg])
        simp only [Option.isSome_none, onWrite, hwp]
        generalize callLayer F s w (.openbin p ['w', 'b']) = r at this ⊢
        obtain ⟨s1, o⟩ := r
        cases o <;> exact this

end

end Fs.MultiFsLemmas
