/-
  Helper lemmas for `MultiRefines.multi_single_write_layer_refines`: a MultiFS whose ONLY layer is its
  write layer (the `multi` backend of the harness), over any layer function that refines the reference.
-/
import FsProofs.Lemmas.MultiFsLemmas
import FsProofs.C10

namespace Fs.MultiFsLemmas
open Fs Fs.Ref Fs.MultiFs Fs.WrapRefines Fs.MemRefines

/-- an open MultiFS with exactly one layer, which is the write layer and is a good reference state -/
structure Single (s : MState State) (l : Layer State) : Prop where
  lay : s.layers = [l]
  wr : s.writeIdx = some l.idx
  opn : s.closed = false
  good : Good l.st

/-- the same MultiFS with the layer's state replaced -/
def put1 (s : MState State) (l : Layer State) (t : State) : MState State :=
  { s with layers := [{ l with st := t }] }

section
variable {s : MState State} {l : Layer State}

theorem put1_self (S : Single s l) : put1 s l l.st = s := by
  obtain ⟨ls, w, si, c, a⟩ := s
  have := S.lay
  simp only at this
  subst this
  rfl

theorem single_order (S : Single s l) : order s = [0] := by
  simp [order, entries, S.lay, entriesFrom, Multi.sortDesc, Multi.insertDesc]

theorem single_writePos (S : Single s l) : writePos s = some 0 := by
  simp [writePos, S.wr, S.lay, List.findIdx?_cons]

theorem single_allGood (S : Single s l) : AllGood s := by
  intro x hx; rw [S.lay] at hx; simp at hx; subst hx; exact S.good

theorem single_layer0 (S : Single s l) : s.layers[0]? = some l := by simp [S.lay]

theorem single_hasAt (S : Single s l) (cs : List Name) : hasAt s cs 0 = (l.st.root.get cs).isSome := by
  simp [hasAt, S.lay]

theorem single_find (S : Single s l) (cs : List Name) :
    (order s).find? (hasAt s cs) = if (l.st.root.get cs).isSome then some 0 else none := by
  rw [single_order S]
  simp [List.find?_cons, single_hasAt S]
  cases (l.st.root.get cs).isSome <;> rfl

theorem single_set (S : Single s l) (t : State) :
    ({ s with layers := s.layers.set 0 { l with st := t } } : MState State) = put1 s l t := by
  simp [put1, S.lay]

/-- the refinement statement for one call: the reference's outcome with the layer's new state, or both fail,
nothing changes and the class is admissible -/
def Sim1 (s : MState State) (l : Layer State) (op : Op) (r : MState State × Out) : Prop :=
  ((Ref.step l.st op).2.isOk = true ∧ r = (put1 s l (Ref.step l.st op).1, (Ref.step l.st op).2)) ∨
  (∃ e e', (Ref.step l.st op).2 = .err e ∧ r = (s, .err e') ∧ e' ∈ adm l.st op)

/-- the MultiFS call IS the reference's call on the layer (class included) -/
theorem sim1_exact (S : Single s l) (op : Op) (hb : bulk op = false) (r : MState State × Out)
    (h : r = (put1 s l (Ref.step l.st op).1, (Ref.step l.st op).2)) : Sim1 s l op r := by
  cases hr : (Ref.step l.st op).2 with
  | ok v => left; rw [h]; simp [hr, Res.isOk]
  | err e =>
    right
    refine ⟨e, e, hr, ?_, ref_err_adm l.st S.good op hb e hr⟩
    rw [h, hr, C06.failed_step_unchanged l.st op e hr, put1_self S]

theorem sim1_exact' (S : Single s l) (op : Op) (hb : bulk op = false) (o : Out)
    (h : Ref.step l.st op = (l.st, o)) : Sim1 s l op (s, o) := by
  apply sim1_exact S op hb
  rw [h, put1_self S]

/-- a call handed to the layer as it is -/
theorem sim1_call (F : FS State) (hF : RefinesRef F) (S : Single s l) (op : Op) (hb : bulk op = false) :
    Sim1 s l op (callLayer F s 0 op) := by
  rcases callLayer_cases F hF s (single_allGood S) 0 l (single_layer0 S) op hb with ⟨hok, h⟩ | ⟨e, e', hr, h, ha⟩
  · left; refine ⟨hok, ?_⟩; rw [h, single_set S]
  · right; exact ⟨e, e', by rw [hr], h, ha⟩

/-- a call answered through ANOTHER call `op'` on the layer whose reference outcome determines the
reference outcome of `op` (same resulting state, value mapped by `g`, same error, admissible classes
carried over) -/
theorem sim1_transfer (F : FS State) (hF : RefinesRef F) (S : Single s l) (op op' : Op) (hb' : bulk op' = false)
    (g : Val → Val)
    (hstate : (Ref.step l.st op).1 = (Ref.step l.st op').1)
    (hout : (Ref.step l.st op).2 = match (Ref.step l.st op').2 with
      | .ok v => .ok (g v)
      | .err e => .err e)
    (hadm : ∀ e, e ∈ adm l.st op' → e ∈ adm l.st op) :
    Sim1 s l op (match callLayer F s 0 op' with
      | (s1, .ok v) => (s1, .ok (g v))
      | (s1, .err e) => (s1, .err e)) := by
  rcases callLayer_cases F hF s (single_allGood S) 0 l (single_layer0 S) op' hb' with ⟨hok, h⟩ | ⟨e, e', hr, h, ha⟩
  · left
    cases hv : (Ref.step l.st op').2 with
    | err e => rw [hv] at hok; cases hok
    | ok v =>
      rw [hv] at hout
      refine ⟨by rw [hout]; rfl, ?_⟩
      rw [h, hv, single_set S, hstate, hout]
  · right
    refine ⟨e, e', ?_, ?_, hadm e' ha⟩
    · rw [hout, hr]
    · rw [h]


/-! ### the methods that are one call on one layer -/

theorem single_onWrite (F : FS State) (hF : RefinesRef F) (S : Single s l) (op : Op) (hb : bulk op = false) :
    Sim1 s l op (onWrite F s op) := by
  unfold onWrite; rw [single_writePos S]; exact sim1_call F hF S op hb

theorem ref_one (t : State) (hc : t.closed = false) (op : Op) (p : Str) (hp : op.paths = [p])
    (hno : ∀ q m, op ≠ .openbin q m) :
    Ref.step t op = match validate p with
      | .err e => (t, .err e)
      | .ok cs => step1 t cs op := by
  rw [QueryLemmas.step_one t op p hc hp hno]; cases validate p <;> rfl

/-- `_delegate_required(path).<method>(path)` / `_delegate(path)` with a default: when the path is missing
the reference gives the default -/
theorem single_onDelegate (F : FS State) (hF : RefinesRef F) (S : Single s l) (op : Op) (p : Str)
    (hp : op.paths = [p]) (hno : ∀ q m, op ≠ .openbin q m) (hb : bulk op = false) (onNone : Out)
    (hmiss : ∀ cs, validate p = .ok cs → l.st.root.get cs = none → step1 l.st cs op = (l.st, onNone)) :
    Sim1 s l op (onDelegate F s p op onNone) := by
  rw [onDelegate_eq F hF s (single_allGood S) p op onNone]
  cases hv : validate p with
  | err e =>
    simp only [single_order S, List.cons_ne_nil, if_false]
    apply sim1_exact' S op hb
    rw [ref_one l.st S.good.opn op p hp hno, hv]
  | ok cs =>
    simp only [single_find S cs]
    cases hget : l.st.root.get cs with
    | none =>
      simp only [Option.isSome_none, Bool.false_eq_true, if_false]
      apply sim1_exact' S op hb
      rw [ref_one l.st S.good.opn op p hp hno, hv]
      exact hmiss cs hv hget
    | some n =>
      simp only [Option.isSome_some, if_true]
      exact sim1_call F hF S op hb

theorem single_exists (F : FS State) (hF : RefinesRef F) (S : Single s l) (p : Str) :
    Sim1 s l (.exists_ p) (existsM F s p) := by
  rw [existsM_eq F hF s (single_allGood S) p]
  apply sim1_exact' S _ rfl
  rw [ref_exists l.st S.good.opn]
  cases hv : validate p with
  | err e => simp [single_order S]
  | ok cs => simp [anyHas, single_find S cs]; cases (l.st.root.get cs).isSome <;> rfl

theorem single_getinfo (F : FS State) (hF : RefinesRef F) (S : Single s l) (p : Str) :
    Sim1 s l (.getinfo p) (getinfoM F s p) := by
  have href := ref_one l.st S.good.opn (.getinfo p) p rfl (by intro q m h; cases h)
  cases hv : validate p with
  | err e =>
    rw [getinfoM_eq F hF s (single_allGood S) p, hv]
    simp only [single_order S, List.cons_ne_nil, if_false]
    apply sim1_exact' S _ rfl
    rw [href, hv]
  | ok cs =>
    cases hget : l.st.root.get cs with
    | none =>
      rw [getinfoM_eq F hF s (single_allGood S) p, hv]
      simp only [single_find S cs, hget, Option.isSome_none, Bool.false_eq_true, if_false]
      apply sim1_exact' S _ rfl
      rw [href, hv]; simp [step1, hget, fail]
    | some n =>
      have hf : (order s).find? (hasAt s cs) = some 0 := by rw [single_find S cs, hget]; rfl
      rw [getinfoM_has F hF s (single_allGood S) p cs hv 0 hf l n (single_layer0 S) hget]
      apply sim1_exact' S _ rfl
      rw [href, hv]
      cases n <;> simp [step1, hget, done]

/-! ### listings -/

theorem ref_listdir_nodup (t : State) (G : Good t) (p : Str) (ns : List Name)
    (h : (Ref.step t (.listdir p)).2 = .ok (.names ns)) : ns.Nodup :=
  C10.listdir_nodup t p ns G.wf h

theorem single_listdir (F : FS State) (hF : RefinesRef F) (S : Single s l) (p : Str) :
    Sim1 s l (.listdir p) (listdirM F s p) := by
  unfold listdirM
  rw [single_order S]
  simp only [listLoop]
  rcases callLayer_cases F hF s (single_allGood S) 0 l (single_layer0 S) (.listdir p) rfl with
    ⟨hok, h⟩ | ⟨e, e', hr, h, ha⟩
  · have hq : (Ref.step l.st (.listdir p)).1 = l.st := RouteLemmas.step_query_state _ _ rfl
    rw [h, hq, set_self _ _ _ (single_layer0 S)]
    cases hv : (Ref.step l.st (.listdir p)).2 with
    | err e => rw [hv] at hok; cases hok
    | ok v =>
      cases v with
      | names ns =>
        simp only [List.nil_append]
        apply sim1_exact' S (.listdir p) rfl
        rw [dedup_nodup ns (ref_listdir_nodup l.st S.good p ns hv)]
        exact Prod.ext hq hv
      | _ =>
        -- unreachable: `listdir` returns names
        exfalso
        have := ref_one l.st S.good.opn (.listdir p) p rfl (by intro q m h; cases h)
        rw [this] at hv
        cases hvp : validate p with
        | err e => rw [hvp] at hv; cases hv
        | ok cs =>
          rw [hvp] at hv
          simp only [step1] at hv
          split at hv <;> simp [fail, done] at hv
  · right
    refine ⟨e, e', by rw [hr], ?_, ha⟩
    rw [h]
    cases e' <;> simp

theorem adm_isempty_listdir (t : State) (hc : t.closed = false) (p : Str) :
    adm t (.isempty p) = adm t (.listdir p) := by
  rw [QueryLemmas.adm_one t _ p hc rfl (by intro q m h; cases h),
    QueryLemmas.adm_one t _ p hc rfl (by intro q m h; cases h)]
  cases validate p <;> rfl

theorem single_isempty (F : FS State) (hF : RefinesRef F) (S : Single s l) (p : Str) :
    Sim1 s l (.isempty p) (isemptyM F s p) := by
  unfold isemptyM
  rw [single_order S]
  have h1 := ref_one l.st S.good.opn (.isempty p) p rfl (by intro q m h; cases h)
  have h2 := ref_one l.st S.good.opn (.listdir p) p rfl (by intro q m h; cases h)
  have key := sim1_transfer F hF S (.isempty p) (.listdir p) rfl
    (fun v => match v with | .names (_ :: _) => .bool false | _ => .bool true)
    (by rw [RouteLemmas.step_query_state _ _ rfl, RouteLemmas.step_query_state _ _ rfl])
    (by
      rw [h1, h2]
      cases validate p with
      | err e => rfl
      | ok cs =>
        simp only [step1]
        cases l.st.root.get cs with
        | none => rfl
        | some n =>
          cases n with
          | file b => rfl
          | dir es => cases es <;> rfl)
    (by intro e he; rw [adm_isempty_listdir l.st S.good.opn]; exact he)
  have heq : scanFirstLoop F p [0] false s = (match callLayer F s 0 (.listdir p) with
      | (s1, .ok v) => (s1, .ok (match v with | .names (_ :: _) => .bool false | _ => .bool true))
      | (s1, .err e) => (s1, .err e)) := by
    simp only [scanFirstLoop]
    generalize callLayer F s 0 (.listdir p) = r
    obtain ⟨s1, o⟩ := r
    cases o with
    | err e => cases e <;> simp
    | ok v =>
      cases v with
      | names ns => cases ns <;> simp
      | _ => simp
  rw [heq]
  exact key


/-! ### `openbin` -/

theorem noRepeat_of_nodup : ∀ (m : Str), m.Nodup → Route.noRepeat m = true
  | [], _ => rfl
  | c :: cs, h => by
    have h' := List.nodup_cons.1 h
    simp [Route.noRepeat, h'.1, noRepeat_of_nodup cs h'.2]

/-- a mode string `Mode.validate_bin` accepts is accepted by `Mode(mode)` -/
theorem modeOk_of_parse (m : Str) (md : Mode) (h : parseBinMode m = some md) : Route.modeOk m = true := by
  unfold parseBinMode at h
  cases m with
  | nil => cases h
  | cons c cs =>
    simp only at h
    split at h
    · cases h
    · split at h
      · cases h
      · split at h
        · cases h
        · split at h
          · cases h
          · split at h
            · cases h
            · rename_i h1 h2 h3 h4 h5
              simp only [Route.modeOk]
              simp only [Bool.not_eq_true, Bool.not_eq_eq_eq_not, Bool.not_true] at h1 h2 h3 h4 h5
              simp_all [noRepeat_of_nodup]
              by_cases hr : c = 'r'
              · exact Or.inl hr
              · by_cases hw : c = 'w'
                · exact Or.inr (Or.inl hw)
                · by_cases hx : c = 'x'
                  · exact Or.inr (Or.inr (Or.inl hx))
                  · exact Or.inr (Or.inr (Or.inr (h2 hr hw hx)))

theorem parse_none_of_not_modeOk (m : Str) (h : Route.modeOk m = false) : parseBinMode m = none := by
  cases hp : parseBinMode m with
  | none => rfl
  | some md => rw [modeOk_of_parse m md hp] at h; cases h

theorem ref_openbin (t : State) (hc : t.closed = false) (p m : Str) :
    Ref.step t (.openbin p m) =
      if (parseBinMode m).isNone then (t, .err .ValueError)
      else match validate p with
        | .err e => (t, .err e)
        | .ok cs => step1 t cs (.openbin p m) := by
  rw [QueryLemmas.step_openbin t p m hc]
  split
  · rfl
  · cases validate p <;> rfl

/-- a non-creating mode on a missing path: ResourceNotFound -/
theorem step1_openbin_missing (t : State) (cs : List Name) (p m : Str) (md : Mode) (hm : parseBinMode m = some md)
    (hcr : md.create = false) (hg : t.root.get cs = none) :
    step1 t cs (.openbin p m) = (t, .err .ResourceNotFound) := by
  have hne : cs ≠ [] := by rintro rfl; simp [Node.get] at hg
  simp only [step1, hm, hne, if_false]
  split
  · rfl
  · rfl
  · simp [hg, hcr, fail]

theorem single_openbin (F : FS State) (hF : RefinesRef F) (S : Single s l) (p m : Str) :
    Sim1 s l (.openbin p m) (openbinM F s p m) := by
  unfold openbinM
  have href := ref_openbin l.st S.good.opn p m
  cases hmo : Route.modeOk m with
  | false =>
    simp only [Bool.not_false, if_true]
    apply sim1_exact' S _ rfl
    rw [href, parse_none_of_not_modeOk m hmo]; rfl
  | true =>
    simp only [Bool.not_true, Bool.false_eq_true, if_false]
    cases hcw : Route.checkWritable m with
    | true => simp only [if_true]; exact single_onWrite F hF S _ rfl
    | false =>
      simp only [Bool.false_eq_true, if_false]
      rw [onDelegate_eq F hF s (single_allGood S) p _ _]
      have hadm := QueryLemmas.adm_openbin l.st p m S.good.opn
      cases hv : validate p with
      | err e =>
        simp only [single_order S, List.cons_ne_nil, if_false]
        rw [hv] at hadm
        cases hpm : parseBinMode m with
        | none =>
          right
          refine ⟨.ValueError, e, ?_, rfl, ?_⟩
          · rw [href, hpm]; rfl
          · rw [hadm, hpm]; simp
        | some md =>
          apply sim1_exact' S _ rfl
          rw [href, hpm, hv]; rfl
      | ok cs =>
        simp only [single_find S cs]
        rw [hv] at hadm
        cases hget : l.st.root.get cs with
        | some n => simp only [Option.isSome_some, if_true]; exact sim1_call F hF S _ rfl
        | none =>
          simp only [Option.isSome_none, Bool.false_eq_true, if_false]
          cases hpm : parseBinMode m with
          | none =>
            right
            refine ⟨.ValueError, .ResourceNotFound, ?_, rfl, ?_⟩
            · rw [href, hpm]; rfl
            · rw [hadm]; simp [adm1, hpm, admFileArg, kindAt, hget]
          | some md =>
            apply sim1_exact' S _ rfl
            rw [href, hpm, hv]
            simp only [Option.isNone_some, Bool.false_eq_true, if_false]
            have hq : (m.contains 'w' || m.contains 'a' || m.contains '+' || m.contains 'x') = false := hcw
            exact step1_openbin_missing l.st cs p m md hpm (RouteLemmas.parse_readonly m md hpm hq).1 hget


/-! ### `create`, `touch` (through `open(path, "wb")` on the write layer) -/

theorem parse_wb : parseBinMode ['w', 'b'] = some ⟨false, true, true, true, false, false⟩ := by decide

/-- creating / truncating a file is what `openbin(path, "wb")` does to the tree -/
theorem step1_write_wb (t : State) (cs : List Name) (p : Str) (v : Val) :
    writeFile t cs (fun _ => []) v = match step1 t cs (.openbin p ['w', 'b']) with
      | (t', .ok _) => (t', .ok v)
      | (t', .err e) => (t', .err e) := by
  simp only [step1, writeFile, parse_wb]
  by_cases hne : cs = []
  · simp [hne, fail]
  · simp only [hne, if_false]
    cases hp : t.root.get (parentOf cs) with
    | none => simp [fail]
    | some n =>
      cases n with
      | file b => simp [fail]
      | dir es =>
        cases hg : t.root.get cs with
        | none => simp [upd]
        | some n => cases n <;> simp [fail, upd]

theorem sim1_congr {op op' : Op} {r : MState State × Out} (h1 : Ref.step l.st op = Ref.step l.st op')
    (h2 : adm l.st op = adm l.st op') (h : Sim1 s l op' r) : Sim1 s l op r := by
  unfold Sim1 at h ⊢; rw [h1, h2]; exact h

theorem adm_write_wb (t : State) (hc : t.closed = false) (op : Op) (p : Str) (hp : op.paths = [p])
    (hno : ∀ q m, op ≠ .openbin q m) (hadm : ∀ cs, adm1 t.root cs op = admFileTarget t.root cs) :
    adm t (.openbin p ['w', 'b']) = adm t op := by
  rw [QueryLemmas.adm_one t op p hc hp hno, QueryLemmas.adm_openbin t p _ hc]
  cases validate p with
  | err e => simp [parse_wb]
  | ok cs =>
    show adm1 t.root cs (.openbin p ['w', 'b']) = adm1 t.root cs op
    rw [hadm cs]; simp [adm1, parse_wb]

/-- the shared tail of `create` / `touch` when the file has to be made: `open(path, "wb")` on the write layer -/
theorem single_make (F : FS State) (hF : RefinesRef F) (S : Single s l) (op : Op) (p : Str) (v : Val)
    (hp : op.paths = [p]) (hno : ∀ q m, op ≠ .openbin q m)
    (hadm : ∀ cs, adm1 l.st.root cs op = admFileTarget l.st.root cs)
    (hstep : ∀ cs, validate p = .ok cs → step1 l.st cs op = writeFile l.st cs (fun _ => []) v) :
    Sim1 s l op (match callLayer F s 0 (.openbin p ['w', 'b']) with
      | (s1, .ok _) => (s1, .ok v)
      | (s1, .err e) => (s1, .err e)) := by
  have h1 := ref_one l.st S.good.opn op p hp hno
  have h2 := ref_openbin l.st S.good.opn p ['w', 'b']
  simp only [parse_wb, Option.isNone_some, Bool.false_eq_true, if_false] at h2
  have hrel : Ref.step l.st op = match Ref.step l.st (.openbin p ['w', 'b']) with
      | (t', .ok _) => (t', .ok v)
      | (t', .err e) => (t', .err e) := by
    rw [h1, h2]
    cases hv : validate p with
    | err e => rfl
    | ok cs => simp only; rw [hstep cs hv, step1_write_wb l.st cs p v]
  have key := sim1_transfer F hF S op (.openbin p ['w', 'b']) rfl (fun _ => v)
    (by rw [hrel]; generalize Ref.step l.st (.openbin p ['w', 'b']) = r; obtain ⟨t', o⟩ := r; cases o <;> rfl)
    (by rw [hrel]; generalize Ref.step l.st (.openbin p ['w', 'b']) = r; obtain ⟨t', o⟩ := r; cases o <;> rfl)
    (by intro e he; rw [← adm_write_wb l.st S.good.opn op p hp hno hadm]; exact he)
  exact key

theorem onWrite_single (F : FS State) (S : Single s l) (op : Op) : onWrite F s op = callLayer F s 0 op := by
  unfold onWrite; rw [single_writePos S]

theorem single_create (F : FS State) (hF : RefinesRef F) (S : Single s l) (p : Str) (w : Bool) :
    Sim1 s l (.create p w) (createM F s p w) := by
  have hmake : ∀ w', (∀ cs, validate p = .ok cs → step1 l.st cs (.create p w') =
        writeFile l.st cs (fun _ => []) (.bool true)) →
      Sim1 s l (.create p w') (match callLayer F s 0 (.openbin p ['w', 'b']) with
        | (s1, .ok _) => (s1, .ok (.bool true))
        | (s1, .err e) => (s1, .err e)) := fun w' hst =>
    single_make F hF S (.create p w') p (.bool true) rfl (by intro q m h; cases h) (fun _ => rfl) hst
  unfold createM
  cases w with
  | true =>
    have := hmake true (fun cs _ => by simp [step1])
    simp only [if_true, onWrite_single F S]
    generalize callLayer F s 0 (.openbin p ['w', 'b']) = r at this ⊢
    obtain ⟨s1, o⟩ := r
    cases o <;> exact this
  | false =>
    simp only [Bool.false_eq_true, if_false]
    rw [existsM_eq F hF s (single_allGood S) p]
    have href := ref_one l.st S.good.opn (.create p false) p rfl (by intro q m h; cases h)
    cases hv : validate p with
    | err e =>
      simp only [single_order S, List.cons_ne_nil, if_false]
      apply sim1_exact' S _ rfl
      rw [href, hv]
    | ok cs =>
      simp only [anyHas, single_find S cs]
      cases hget : l.st.root.get cs with
      | some n =>
        simp only [Option.isSome_some, if_true]
        apply sim1_exact' S _ rfl
        rw [href, hv]; simp [step1, hget, done]
      | none =>
        have := hmake false (fun cs' hv' => by
          rw [hv] at hv'; cases hv'
          simp [step1, hget])
        simp only [Option.isSome_none, Bool.false_eq_true, if_false, onWrite_single F S]
        generalize callLayer F s 0 (.openbin p ['w', 'b']) = r at this ⊢
        obtain ⟨s1, o⟩ := r
        cases o <;> exact this

theorem single_touch (F : FS State) (hF : RefinesRef F) (S : Single s l) (p : Str) :
    Sim1 s l (.touch p) (touchM F s p) := by
  unfold touchM createM
  simp only [Bool.false_eq_true, if_false]
  rw [existsM_eq F hF s (single_allGood S) p]
  have href := ref_one l.st S.good.opn (.touch p) p rfl (by intro q m h; cases h)
  cases hv : validate p with
  | err e =>
    simp only [single_order S, List.cons_ne_nil, if_false]
    apply sim1_exact' S _ rfl
    rw [href, hv]
  | ok cs =>
    simp only [anyHas, single_find S cs]
    cases hget : l.st.root.get cs with
    | some n =>
      simp only [Option.isSome_some, if_true]
      -- `create` answered False: `setinfo` on the write layer, which has the path
      have hset : Ref.step l.st (.settimes p) = (l.st, .ok .unit) := by
        rw [ref_one l.st S.good.opn (.settimes p) p rfl (by intro q m h; cases h), hv]
        simp [step1, hget, done]
      rw [onWrite_single F S,
        callLayer_query F hF s (single_allGood S) 0 l (single_layer0 S) _ rfl (by rw [hset]) (by rw [hset]; rfl),
        hset]
      apply sim1_exact' S _ rfl
      rw [href, hv]; simp [step1, hget, done]
    | none =>
      simp only [Option.isSome_none, Bool.false_eq_true, if_false]
      have := single_make F hF S (.touch p) p .unit rfl (by intro q m h; cases h) (fun _ => rfl)
        (fun cs' hv' => by rw [hv] at hv'; cases hv'; simp [step1, hget])
      simp only [onWrite_single F S]
      generalize callLayer F s 0 (.openbin p ['w', 'b']) = r at this ⊢
      obtain ⟨s1, o⟩ := r
      cases o <;> exact this


/-! ### `copy`, `move` (read through the layer that has the source, `upload` to the write layer) -/

open Fs.WrapLemmas in
theorem absOf_inj_valid {ca cb : List Name} (ha : ∀ c ∈ ca, cleanName c = true) (hb : ∀ c ∈ cb, cleanName c = true) :
    absOf ca = absOf cb ↔ ca = cb := by
  constructor
  · intro h
    have h1 := validate_absOf ha
    rw [h, validate_absOf hb] at h1
    cases h1; rfl
  · rintro rfl; rfl

theorem ref_two (t : State) (hc : t.closed = false) (op : Op) (a b : Str) (hp : op.paths = [a, b]) :
    Ref.step t op = match validate a with
      | .err e => (t, .err e)
      | .ok ca => match validate b with
        | .err e => (t, .err e)
        | .ok cb => step2 t ca cb op := by
  rw [QueryLemmas.step_two t op a b hc hp]
  cases validate a with
  | err e => rfl
  | ok ca => cases validate b <;> rfl

open Fs.WrapLemmas in
theorem ref_writebytes_abs (t : State) (hc : t.closed = false) (cb : List Name) (hcl : ∀ c ∈ cb, cleanName c = true)
    (data : Bytes) : Ref.step t (.writebytes (absOf cb) data) = writeFile t cb (fun _ => data) := by
  rw [ref_one t hc _ (absOf cb) rfl (by intro q m h; cases h), validate_absOf hcl]; rfl

/-- once the guards of `copy` have passed, the reference's `copy` is writing the source's bytes -/
theorem step2_copy_write (t : State) (ca cb : List Name) (a b : Str) (ow : Bool) (data : Bytes)
    (hs : t.root.get ca = some (.file data)) (hne : ca ≠ cb) (hd : ow = true ∨ t.root.get cb = none) :
    step2 t ca cb (.copy a b ow) = writeFile t cb (fun _ => data) := by
  have hg : (!ow && (t.root.get cb).isSome) = false := by
    rcases hd with h | h <;> simp [h]
  simp only [step2, hg, Bool.false_eq_true, if_false, hne, hs, writeFile]
  by_cases hcb : cb = []
  · simp [hcb]
  · simp only [hcb, if_false]
    cases t.root.get (parentOf cb) with
    | none => rfl
    | some n =>
      cases n with
      | file _ => rfl
      | dir es =>
        cases t.root.get cb with
        | none => rfl
        | some n => cases n <;> rfl

theorem mem_adm_copy_src {t : Node} {ca cb : List Name} {a b : Str} {ow : Bool} {e : Err}
    (h : e ∈ admFileArg t ca) : e ∈ adm2 t ca cb (.copy a b ow) := by
  simp only [adm2, List.mem_append]; exact Or.inl (Or.inl h)

theorem mem_adm_copy_dst {t : Node} {ca cb : List Name} {a b : Str} {ow : Bool} {e : Err} (hne : ca ≠ cb)
    (h : e ∈ admFileTarget t cb) : e ∈ adm2 t ca cb (.copy a b ow) := by
  simp only [adm2, List.mem_append, hne, if_false]; exact Or.inr h

open Fs.WrapLemmas in
/-- `with self.open(src, "rb") as f: self.upload(dst, f)` once the guards of `copy` have passed -/
theorem single_transfer_copy (F : FS State) (hF : RefinesRef F) (S : Single s l) (a b : Str) (ow : Bool)
    (ca cb : List Name) (hva : validate a = .ok ca) (hvb : validate b = .ok cb) (hne : ca ≠ cb)
    (hd : ow = true ∨ l.st.root.get cb = none) :
    Sim1 s l (.copy a b ow) (transferM F s (absOf ca) (absOf cb)) := by
  have hca := TreeLemmas.validate_clean a ca hva
  have hcb := TreeLemmas.validate_clean b cb hvb
  have href : Ref.step l.st (.copy a b ow) = step2 l.st ca cb (.copy a b ow) := by
    rw [ref_two l.st S.good.opn _ a b rfl, hva, hvb]
  have hadm : adm l.st (.copy a b ow) = adm2 l.st.root ca cb (.copy a b ow) := by
    rw [QueryLemmas.adm_two l.st _ a b S.good.opn rfl, hva, hvb]
  have hg : (!ow && (l.st.root.get cb).isSome) = false := by
    rcases hd with h | h <;> simp [h]
  unfold transferM
  rw [onDelegate_eq F hF s (single_allGood S) (absOf ca) _ _, validate_absOf hca]
  simp only [single_find S ca]
  cases hget : l.st.root.get ca with
  | none =>
    simp only [Option.isSome_none, Bool.false_eq_true, if_false]
    apply sim1_exact' S _ rfl
    rw [href]; simp [step2, hg, hne, hget, fail]
  | some n =>
    simp only [Option.isSome_some, if_true]
    have hrb : Ref.step l.st (.readbytes (absOf ca)) = step1 l.st ca (.readbytes (absOf ca)) := by
      rw [ref_one l.st S.good.opn _ (absOf ca) rfl (by intro q m h; cases h), validate_absOf hca]
    cases n with
    | dir es =>
      rcases callLayer_cases F hF s (single_allGood S) 0 l (single_layer0 S) (.readbytes (absOf ca)) rfl with
        ⟨hok, _⟩ | ⟨e, e', hr, h, ha⟩
      · rw [hrb] at hok; simp [step1, hget, fail, Res.isOk] at hok
      · rw [h]
        right
        refine ⟨.FileExpected, e', ?_, rfl, ?_⟩
        · rw [href]; simp [step2, hg, hne, hget, fail]
        · rw [hadm]
          rw [QueryLemmas.adm_one l.st _ (absOf ca) S.good.opn rfl (by intro q m h; cases h), validate_absOf hca] at ha
          exact mem_adm_copy_src ha
    | file data =>
      have hrb' : Ref.step l.st (.readbytes (absOf ca)) = (l.st, .ok (.bytes data)) := by
        rw [hrb]; simp [step1, hget, done]
      rw [callLayer_query F hF s (single_allGood S) 0 l (single_layer0 S) _ rfl (by rw [hrb']) (by rw [hrb']; rfl), hrb']
      simp only [onWrite_single F S]
      have hw := ref_writebytes_abs l.st S.good.opn cb hcb data
      have hc2 := step2_copy_write l.st ca cb a b ow data hget hne hd
      have key := sim1_transfer F hF S (.copy a b ow) (.writebytes (absOf cb) data) rfl (fun v => v)
        (by rw [href, hc2, hw])
        (by rw [href, hc2, hw]; cases (writeFile l.st cb (fun _ => data)).2 <;> rfl)
        (by
          intro e he
          rw [hadm]
          rw [QueryLemmas.adm_one l.st _ (absOf cb) S.good.opn rfl (by intro q m h; cases h), validate_absOf hcb] at he
          exact mem_adm_copy_dst hne he)
      generalize callLayer F s 0 (.writebytes (absOf cb) data) = r at key ⊢
      obtain ⟨s1, o⟩ := r
      cases o <;> exact key

open Fs.WrapLemmas in
theorem single_copy (F : FS State) (hF : RefinesRef F) (S : Single s l) (a b : Str) (ow : Bool) :
    Sim1 s l (.copy a b ow) (copyM F s a b ow) := by
  have href := ref_two l.st S.good.opn (.copy a b ow) a b rfl
  unfold copyM
  rw [validateM_eq F hF s (single_allGood S) a 0 (single_writePos S) (by simp [S.lay])]
  cases hva : validate a with
  | err e => simp only; apply sim1_exact' S _ rfl; rw [href, hva]
  | ok ca =>
    simp only
    rw [validateM_eq F hF s (single_allGood S) b 0 (single_writePos S) (by simp [S.lay])]
    cases hvb : validate b with
    | err e => simp only; apply sim1_exact' S _ rfl; rw [href, hva, hvb]
    | ok cb =>
      simp only
      have hca := TreeLemmas.validate_clean a ca hva
      have hcb := TreeLemmas.validate_clean b cb hvb
      have hinj := absOf_inj_valid hca hcb
      rw [hva, hvb] at href
      simp only at href
      have hbody : (ow = true ∨ l.st.root.get cb = none) →
          Sim1 s l (.copy a b ow) (if absOf ca = absOf cb then (s, .err .IllegalDestination)
            else transferM F s (absOf ca) (absOf cb)) := by
        intro hd
        have hg : (!ow && (l.st.root.get cb).isSome) = false := by
          rcases hd with h | h <;> simp [h]
        by_cases hne : ca = cb
        · simp only [hinj.2 hne, if_true]
          apply sim1_exact' S _ rfl
          rw [href]; simp [step2, hg, hne, fail]
        · have : ¬ absOf ca = absOf cb := fun h => hne (hinj.1 h)
          simp only [this, if_false]
          exact single_transfer_copy F hF S a b ow ca cb hva hvb hne hd
      cases ow with
      | true => simp only [if_true]; exact hbody (Or.inl rfl)
      | false =>
        simp only [Bool.false_eq_true, if_false]
        rw [existsM_eq F hF s (single_allGood S) (absOf cb), validate_absOf hcb]
        simp only [anyHas, single_find S cb]
        cases hget : l.st.root.get cb with
        | some n =>
          simp only [Option.isSome_some, if_true]
          apply sim1_exact' S _ rfl
          rw [href]; simp [step2, hget, fail]
        | none =>
          simp only [Option.isSome_none, Bool.false_eq_true, if_false]
          exact hbody (Or.inr hget)


theorem single_put1 (S : Single s l) (t' : State) (G' : Good t') : Single (put1 s l t') { l with st := t' } :=
  ⟨rfl, S.wr, S.opn, G'⟩

theorem put1_put1 (t' t'' : State) : put1 (put1 s l t') { l with st := t' } t'' = put1 s l t'' := rfl

/-- once the guards of `move` have passed, the reference's `move` is writing the source's bytes and then
deleting the source -/
theorem step2_move_write (t : State) (ca cb : List Name) (a b : Str) (ow : Bool) (data : Bytes)
    (hs : t.root.get ca = some (.file data)) (hne : ca ≠ cb) (hd : ow = true ∨ t.root.get cb = none) :
    step2 t ca cb (.move a b ow) = match writeFile t cb (fun _ => data) with
      | (t', .ok _) => ({ t' with root := t'.root.del ca }, .ok .unit)
      | (t', .err e) => (t', .err e) := by
  have hg : (!ow && (t.root.get cb).isSome) = false := by
    rcases hd with h | h <;> simp [h]
  simp only [step2, hg, Bool.false_eq_true, if_false, hne, hs, writeFile]
  by_cases hcb : cb = []
  · simp [hcb, fail]
  · simp only [hcb, if_false]
    cases t.root.get (parentOf cb) with
    | none => rfl
    | some n =>
      cases n with
      | file _ => rfl
      | dir es =>
        cases t.root.get cb with
        | none => rfl
        | some n => cases n <;> rfl

/-- a successful write at `cb` keeps a file at another path `ca` -/
theorem writeFile_keeps (t : State) (ca cb : List Name) (data d2 : Bytes) (hne : ca ≠ cb)
    (hs : t.root.get ca = some (.file data)) (t' : State) (v : Val)
    (hw : writeFile t cb (fun _ => d2) = (t', .ok v)) :
    t'.root.get ca = some (.file data) ∧ t'.closed = t.closed := by
  unfold writeFile at hw
  by_cases hcb : cb = []
  · simp [hcb, fail] at hw
  · simp only [hcb, if_false] at hw
    have hnp : ¬ cb <+: ca := by
      intro hpre
      obtain ⟨es, hes⟩ := TreeLemmas.get_proper_prefix_dir hpre (fun h => hne h.symm) hs
      rw [hes] at hw
      cases hp : t.root.get (parentOf cb) with
      | none => rw [hp] at hw; simp [fail] at hw
      | some n => rw [hp] at hw; cases n <;> simp [fail] at hw
    cases hp : t.root.get (parentOf cb) with
    | none => rw [hp] at hw; simp [fail] at hw
    | some n =>
      rw [hp] at hw
      cases n with
      | file _ => simp [fail] at hw
      | dir es =>
        simp only at hw
        cases hg : t.root.get cb with
        | none =>
          rw [hg] at hw; simp only [upd, Prod.mk.injEq] at hw
          obtain ⟨rfl, _⟩ := hw
          exact ⟨TreeLemmas.get_set_file cb ca t.root _ data hs hnp, rfl⟩
        | some n =>
          rw [hg] at hw
          cases n with
          | dir _ => simp [fail] at hw
          | file b0 =>
            simp only [upd, Prod.mk.injEq] at hw
            obtain ⟨rfl, _⟩ := hw
            exact ⟨TreeLemmas.get_set_file cb ca t.root _ data hs hnp, rfl⟩

theorem mem_adm_move_dst {t : Node} {ca cb : List Name} {a b : Str} {ow : Bool} {e : Err} (hne : ca ≠ cb)
    (h : e ∈ admFileTarget t cb) : e ∈ adm2 t ca cb (.move a b ow) := by
  simp only [adm2, List.mem_append, hne, ne_eq, not_false_eq_true, if_true]; exact Or.inr h

open Fs.WrapLemmas in
/-- the transfer and the final `remove(src)` of `move`, once its guards have passed -/
theorem single_transfer_move (F : FS State) (hF : RefinesRef F) (S : Single s l) (a b : Str) (ow : Bool)
    (ca cb : List Name) (data : Bytes) (hva : validate a = .ok ca) (hvb : validate b = .ok cb) (hne : ca ≠ cb)
    (hget : l.st.root.get ca = some (.file data)) (hd : ow = true ∨ l.st.root.get cb = none) :
    Sim1 s l (.move a b ow) (moveFinish F s (absOf ca) (absOf cb)) := by
  have hca := TreeLemmas.validate_clean a ca hva
  have hcb := TreeLemmas.validate_clean b cb hvb
  have href : Ref.step l.st (.move a b ow) = step2 l.st ca cb (.move a b ow) := by
    rw [ref_two l.st S.good.opn _ a b rfl, hva, hvb]
  have hadm : adm l.st (.move a b ow) = adm2 l.st.root ca cb (.move a b ow) := by
    rw [QueryLemmas.adm_two l.st _ a b S.good.opn rfl, hva, hvb]
  have hm2 := step2_move_write l.st ca cb a b ow data hget hne hd
  have hw := ref_writebytes_abs l.st S.good.opn cb hcb data
  unfold moveFinish transferM
  rw [onDelegate_eq F hF s (single_allGood S) (absOf ca) _ _, validate_absOf hca]
  simp only [single_find S ca, hget, Option.isSome_some, if_true]
  have hrb' : Ref.step l.st (.readbytes (absOf ca)) = (l.st, .ok (.bytes data)) := by
    rw [ref_one l.st S.good.opn _ (absOf ca) rfl (by intro q m h; cases h), validate_absOf hca]
    simp [step1, hget, done]
  rw [callLayer_query F hF s (single_allGood S) 0 l (single_layer0 S) _ rfl (by rw [hrb']) (by rw [hrb']; rfl), hrb']
  simp only [onWrite_single F S]
  rcases callLayer_cases F hF s (single_allGood S) 0 l (single_layer0 S) (.writebytes (absOf cb) data) rfl with
    ⟨hok, h⟩ | ⟨e, e', hr, h, ha⟩
  · -- the write succeeded: the source is still a file of the (new) layer state, `remove` takes it away
    rw [h, single_set S]
    cases hwv : (Ref.step l.st (.writebytes (absOf cb) data)).2 with
    | err e => rw [hwv] at hok; cases hok
    | ok v =>
      simp only
      have hwf : writeFile l.st cb (fun _ => data) = ((Ref.step l.st (.writebytes (absOf cb) data)).1, .ok v) := by
        rw [← hw]; exact Prod.ext rfl hwv
      obtain ⟨hkeep, hcl⟩ := writeFile_keeps l.st ca cb data data hne hget _ v hwf
      have G' : Good (Ref.step l.st (.writebytes (absOf cb) data)).1 :=
        good_step S.good _ (by intro h; cases h)
      have S' := single_put1 S _ G'
      rw [onDelegate_eq F hF _ (single_allGood S') (absOf ca) _ _, validate_absOf hca]
      simp only [single_find S' ca, hkeep, Option.isSome_some, if_true]
      have hne' : ca ≠ [] := by
        intro h0; subst h0
        simp only [Node.get, Option.some.injEq] at hget
        have hdir := S.good.dir
        rw [hget] at hdir; cases hdir
      have hrm : Ref.step (Ref.step l.st (.writebytes (absOf cb) data)).1 (.remove (absOf ca)) =
          ({ (Ref.step l.st (.writebytes (absOf cb) data)).1 with
              root := (Ref.step l.st (.writebytes (absOf cb) data)).1.root.del ca }, .ok .unit) := by
        rw [ref_one _ G'.opn _ (absOf ca) rfl (by intro q m h; cases h), validate_absOf hca]
        simp [step1, hne', hkeep, upd]
      rcases callLayer_cases F hF _ (single_allGood S') 0 _ (single_layer0 S') (.remove (absOf ca)) rfl with
        ⟨_, h2⟩ | ⟨e, _, hr2, _, _⟩
      · rw [h2, single_set S', put1_put1, hrm]
        left
        rw [href, hm2, hwf]
        exact ⟨rfl, rfl⟩
      · rw [hrm] at hr2; exact absurd (congrArg Prod.snd hr2) (by simp)
  · -- the write failed: nothing changed, and the reference's `move` fails too
    rw [h]
    right
    have hwf : writeFile l.st cb (fun _ => data) = (l.st, .err e) := by rw [← hw]; exact hr
    refine ⟨e, e', ?_, rfl, ?_⟩
    · rw [href, hm2, hwf]
    · rw [hadm]
      rw [QueryLemmas.adm_one l.st _ (absOf cb) S.good.opn rfl (by intro q m h; cases h), validate_absOf hcb] at ha
      exact mem_adm_move_dst hne ha


open Fs.WrapLemmas in
theorem single_move (F : FS State) (hF : RefinesRef F) (S : Single s l) (a b : Str) (ow : Bool) :
    Sim1 s l (.move a b ow) (moveM F s a b ow) := by
  have href := ref_two l.st S.good.opn (.move a b ow) a b rfl
  unfold moveM
  rw [validateM_eq F hF s (single_allGood S) a 0 (single_writePos S) (by simp [S.lay])]
  cases hva : validate a with
  | err e => simp only; apply sim1_exact' S _ rfl; rw [href, hva]
  | ok ca =>
    simp only
    rw [validateM_eq F hF s (single_allGood S) b 0 (single_writePos S) (by simp [S.lay])]
    cases hvb : validate b with
    | err e => simp only; apply sim1_exact' S _ rfl; rw [href, hva, hvb]
    | ok cb =>
      simp only
      have hca := TreeLemmas.validate_clean a ca hva
      have hcb := TreeLemmas.validate_clean b cb hvb
      have hinj := absOf_inj_valid hca hcb
      have hadm : adm l.st (.move a b ow) = adm2 l.st.root ca cb (.move a b ow) := by
        rw [QueryLemmas.adm_two l.st _ a b S.good.opn rfl, hva, hvb]
      rw [hva, hvb] at href
      simp only at href
      have hbody : (ow = true ∨ l.st.root.get cb = none) →
          Sim1 s l (.move a b ow) (moveBody F s (absOf ca) (absOf cb)) := by
        intro hd
        unfold moveBody
        have hg : (!ow && (l.st.root.get cb).isSome) = false := by
          rcases hd with h | h <;> simp [h]
        cases hget : l.st.root.get ca with
        | none =>
          rw [getinfoM_eq F hF s (single_allGood S) (absOf ca), validate_absOf hca]
          simp only [single_find S ca, hget, Option.isSome_none, Bool.false_eq_true, if_false]
          apply sim1_exact' S _ rfl
          rw [href]; simp [step2, hget, fail]
        | some n =>
          have hf : (order s).find? (hasAt s ca) = some 0 := by rw [single_find S ca, hget]; rfl
          rw [getinfoM_has F hF s (single_allGood S) (absOf ca) ca (validate_absOf hca) 0 hf l n (single_layer0 S) hget]
          cases n with
          | dir es =>
            simp only
            apply sim1_exact' S _ rfl
            rw [href]; simp [step2, hget, fail]
          | file data =>
            simp only
            by_cases hne : ca = cb
            · subst hne
              have how : ow = true := by
                rcases hd with h | h
                · exact h
                · rw [hget] at h; cases h
              subst how
              simp only [if_true]
              apply sim1_exact' S _ rfl
              rw [href]; simp [step2, hget, done]
            · have : ¬ absOf ca = absOf cb := fun h => hne (hinj.1 h)
              simp only [this, if_false]
              exact single_transfer_move F hF S a b ow ca cb data hva hvb hne hget hd
      cases ow with
      | true => simp only [if_true]; exact hbody (Or.inl rfl)
      | false =>
        simp only [Bool.false_eq_true, if_false]
        rw [existsM_eq F hF s (single_allGood S) (absOf cb), validate_absOf hcb]
        simp only [anyHas, single_find S cb]
        cases hgb : l.st.root.get cb with
        | none =>
          simp only [Option.isSome_none, Bool.false_eq_true, if_false]
          exact hbody (Or.inr hgb)
        | some nb =>
          simp only [Option.isSome_some, if_true]
          -- the destination exists: DestinationExists, whatever the source is
          have hmem : Err.DestinationExists ∈ adm l.st (.move a b false) := by
            rw [hadm]; simp [adm2, kindAt, hgb]; cases nb <;> simp
          cases hget : l.st.root.get ca with
          | none =>
            right
            exact ⟨.ResourceNotFound, .DestinationExists, by rw [href]; simp [step2, hget, fail], rfl, hmem⟩
          | some n =>
            cases n with
            | dir es =>
              right
              exact ⟨.FileExpected, .DestinationExists, by rw [href]; simp [step2, hget, fail], rfl, hmem⟩
            | file data =>
              apply sim1_exact' S _ rfl
              rw [href]; simp [step2, hget, hgb, fail]

end

/-- the inherited defaults that WALK the filesystem (`fs/walk.py`, `fs/copy.py`, `fs/move.py`) -/
def walker : Op → Bool
  | .removetree _ | .movedir _ _ _ | .copydir _ _ _ => true
  | _ => false

theorem sim1_step (fuel : Nat) (F : FS State) (hF : RefinesRef F) (s : MState State) (l : Layer State)
    (S : Single s l) (op : Op) (hop : op ≠ .close) (hwk : walker op = false) :
    Sim1 s l op (MultiFs.step fuel F s op) := by
  have hq : ∀ q m, Op.isdir "".toList ≠ Op.openbin q m := by intro q m h; cases h
  cases op <;> simp only [walker, Bool.true_eq_false] at hwk <;>
    simp only [MultiFs.step, S.opn, Bool.false_eq_true, if_false, stepOpen]
  case close => exact absurd rfl hop
  case exists_ p => exact single_exists F hF S p
  case isdir p =>
    exact single_onDelegate F hF S _ p rfl (by intro q m h; cases h) rfl _ (fun cs _ hg => by simp [step1, hg, done])
  case isfile p =>
    exact single_onDelegate F hF S _ p rfl (by intro q m h; cases h) rfl _ (fun cs _ hg => by simp [step1, hg, done])
  case listdir p => exact single_listdir F hF S p
  case getsize p =>
    exact single_onDelegate F hF S _ p rfl (by intro q m h; cases h) rfl _ (fun cs _ hg => by simp [step1, hg, fail])
  case gettype p =>
    exact single_onDelegate F hF S _ p rfl (by intro q m h; cases h) rfl _ (fun cs _ hg => by simp [step1, hg, fail])
  case isempty p => exact single_isempty F hF S p
  case getinfo p => exact single_getinfo F hF S p
  case readbytes p =>
    exact single_onDelegate F hF S _ p rfl (by intro q m h; cases h) rfl _ (fun cs _ hg => by simp [step1, hg, fail])
  case makedir p r => exact single_onWrite F hF S _ rfl
  case makedirs p r => exact single_onWrite F hF S _ rfl
  case writebytes p d => exact single_onWrite F hF S _ rfl
  case appendbytes p d => exact single_onWrite F hF S _ rfl
  case create p w => exact single_create F hF S p w
  case touch p => exact single_touch F hF S p
  case settimes p => exact single_onWrite F hF S _ rfl
  case openbin p m => exact single_openbin F hF S p m
  case remove p =>
    refine single_onDelegate F hF S _ p rfl (by intro q m h; cases h) rfl _ (fun cs _ hg => ?_)
    have hne : cs ≠ [] := by rintro rfl; simp [Node.get] at hg
    simp [step1, hne, hg, fail]
  case removedir p =>
    refine single_onDelegate F hF S _ p rfl (by intro q m h; cases h) rfl _ (fun cs _ hg => ?_)
    have hne : cs ≠ [] := by rintro rfl; simp [Node.get] at hg
    simp [step1, hne, hg, fail]
  case move a b o => exact single_move F hF S a b o
  case copy a b o => exact single_copy F hF S a b o


end Fs.MultiFsLemmas
