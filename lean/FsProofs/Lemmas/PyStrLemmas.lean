/-
  Bridging lemmas: the general Python primitives of `FsModel/PyStr.lean` (what generated code uses)
  versus the slash-specialised helpers of the hand transcription `FsModel/Path.lean`.
  Core Lean only.
-/
import FsModel.PyStr
import FsProofs.Lemmas.PathLemmas

namespace Fs.PyStrLemmas
open Fs Fs.Path Fs.PyStr

theorem cbeq_comm (a b : Char) : (a == b) = (b == a) := by
  by_cases h : a = b
  · subst h; rfl
  · have h' : ¬ b = a := fun e => h e.symm
    rw [beq_eq_false_iff_ne.2 h, beq_eq_false_iff_ne.2 h']

theorem pyLstrip_slash (s : Str) : pyLstrip ['/'] s = lstripSlash s := by
  induction s with
  | nil => rfl
  | cons c cs ih =>
    by_cases h : c = '/'
    · subst h; simp [pyLstrip, lstripSlash, ih]
    · simp [pyLstrip, lstripSlash, h]

theorem pyRstrip_slash (s : Str) : pyRstrip ['/'] s = rstripSlash s := by
  simp [pyRstrip, rstripSlash, pyLstrip_slash]

theorem pyStrip_slash (s : Str) : pyStrip ['/'] s = stripSlash s := by
  simp [pyStrip, stripSlash, pyLstrip_slash, pyRstrip_slash]

theorem startsWith_slash (s : Str) : Path.startsWith s ['/'] = startsWithSlash s := by
  cases s with
  | nil => rfl
  | cons c cs =>
    by_cases h : c = '/'
    · subst h; simp [Path.startsWith, startsWithSlash]
    · cases cs <;> simp [Path.startsWith, startsWithSlash, h]

theorem pyEndsWith_slash (s : Str) : pyEndsWith s ['/'] = endsWithSlash s := by
  simp [pyEndsWith, endsWithSlash, startsWith_slash]

theorem startsWith_nil (s : Str) : Path.startsWith s [] = true := by
  cases s <;> rfl

theorem startsWith_single (s : Str) (c : Char) : Path.startsWith s [c] = (s.head? == some c) := by
  cases s with
  | nil => rfl
  | cons x xs => simp [Path.startsWith, startsWith_nil]

/-- `[c] in s` is membership of the character -/
theorem pyIn_char (c : Char) (s : Str) : pyIn [c] s = s.contains c := by
  induction s with
  | nil => rfl
  | cons x xs ih =>
    simp only [pyIn, ih, startsWith_single]
    by_cases h : x = c
    · simp [h]
    · simp [h, Ne.symm h]

theorem pyIn_nil (s : Str) : pyIn [] s = true := by
  cases s <;> simp [pyIn, startsWith_nil]

/-- `p in "/"` -/
theorem pyIn_slash (p : Str) : pyIn p ['/'] = (p == [] || p == ['/']) := by
  match p with
  | [] => rfl
  | [c] => simp [pyIn, Path.startsWith, cbeq_comm '/' c]
  | c :: d :: r => simp [pyIn, Path.startsWith]

/-- `c in ".."` -/
theorem pyIn_dotdot (c : Str) : pyIn c ['.', '.'] = inDotDot c := by
  match c with
  | [] => rfl
  | [a] => simp [pyIn, Path.startsWith, inDotDot, cbeq_comm '.' a]
  | [a, b] =>
    simp [pyIn, Path.startsWith, inDotDot, cbeq_comm '.' a, cbeq_comm '.' b]
  | a :: b :: d :: r => simp [pyIn, Path.startsWith, inDotDot]

/-! ### primitives used by the Mode translation -/

theorem pyReplace_nil (s : Str) (c : Char) : pyReplace s c [] = s.filter (fun x => x != c) := by
  induction s with
  | nil => rfl
  | cons x xs ih =>
    have ih' : List.flatMap (fun x => if x = c then [] else [x]) xs = List.filter (fun x => x != c) xs := ih
    by_cases h : x = c
    · simp [pyReplace, h] at ih' ⊢; exact ih'
    · simp [pyReplace, h] at ih' ⊢; exact ih'

theorem pySumBool_map {α} (l : List α) (f : α → Bool) : pySumBool (l.map f) = (l.filter f).length := by
  induction l with
  | nil => rfl
  | cons x xs ih =>
    simp only [pySumBool] at ih ⊢
    cases h : f x <;> simp [h, ih]

theorem eraseDups_length_le_aux : ∀ (n : Nat) (l : List Char), l.length ≤ n → l.eraseDups.length ≤ l.length := by
  intro n
  induction n with
  | zero => intro l h; cases l with
    | nil => simp
    | cons a as => simp at h
  | succ n ih =>
    intro l h
    cases l with
    | nil => simp
    | cons a as =>
      rw [List.eraseDups_cons]
      simp only [List.length_cons] at h ⊢
      have h1 := List.length_filter_le (fun b => !b == a) as
      have h2 := ih (List.filter (fun b => !b == a) as) (by omega)
      omega

theorem eraseDups_length_le (l : List Char) : l.eraseDups.length ≤ l.length :=
  eraseDups_length_le_aux l.length l (Nat.le_refl _)

theorem eraseDups_length_eq_iff_aux : ∀ (n : Nat) (l : List Char), l.length ≤ n →
    (l.eraseDups.length = l.length ↔ l.Nodup) := by
  intro n
  induction n with
  | zero => intro l h; cases l with
    | nil => simp
    | cons a as => simp at h
  | succ n ih =>
    intro l h
    cases l with
    | nil => simp
    | cons a as =>
      rw [List.eraseDups_cons, List.nodup_cons]
      simp only [List.length_cons] at h ⊢
      have hle := eraseDups_length_le (List.filter (fun b => !b == a) as)
      have hfl := List.length_filter_le (fun b => !b == a) as
      constructor
      · intro he
        have hfe : List.filter (fun b => !b == a) as = as := by
          apply List.filter_eq_self.mpr
          intro x hx
          cases hp : (!x == a) with
          | true => rfl
          | false =>
            exfalso
            have := (List.length_filter_lt_length_iff_exists (p := fun b => !b == a) (l := as)).2
              ⟨x, hx, by simp [hp]⟩
            omega
        refine ⟨?_, ?_⟩
        · intro ha
          have := List.filter_eq_self.mp hfe a ha
          simp at this
        · rw [hfe] at he
          exact (ih as (by omega)).1 (by omega)
      · rintro ⟨ha, hnd⟩
        have hfe : List.filter (fun b => !b == a) as = as := by
          apply List.filter_eq_self.mpr
          intro x hx
          have : x ≠ a := fun e => ha (e ▸ hx)
          simp [this]
        rw [hfe, (ih as (by omega)).2 hnd]

theorem eraseDups_length_eq_iff (l : List Char) : l.eraseDups.length = l.length ↔ l.Nodup :=
  eraseDups_length_eq_iff_aux l.length l (Nat.le_refl _)

theorem not_nodup_eq (l : List Char) : (!decide l.Nodup) = (l.eraseDups.length != l.length) := by
  by_cases hN : l.Nodup
  · have := (eraseDups_length_eq_iff l).2 hN
    simp [hN, this]
  · have : ¬ (l.eraseDups.length = l.length) := fun e => hN ((eraseDups_length_eq_iff l).1 e)
    simp [hN, this]

end Fs.PyStrLemmas
