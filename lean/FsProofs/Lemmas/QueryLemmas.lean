import FsModel.Tree
import FsModel.Ref
import FsModel.RefAdm
import FsProofs.Lemmas.PathLemmas

namespace Fs.QueryLemmas
open Fs Fs.Ref Fs.Path

/-! ### unfolding `step` -/

theorem mapM_one (p : Str) :
    [p].mapM validate = match validate p with | .ok cs => .ok [cs] | .err e => .err e := by
  unfold List.mapM List.mapM.loop List.mapM.loop
  cases validate p <;> rfl

theorem mapM_two (a b : Str) :
    [a, b].mapM validate =
      match validate a with
      | .err e => .err e
      | .ok ca => match validate b with
        | .err e => .err e
        | .ok cb => .ok [ca, cb] := by
  unfold List.mapM List.mapM.loop List.mapM.loop List.mapM.loop
  cases validate a <;> cases validate b <;> rfl

theorem step_close (s : State) : step s .close = ({ s with closed := true }, .ok .unit) := rfl

theorem step_closed (s : State) (op : Op) (hop : op ≠ .close) (hc : s.closed = true) :
    step s op = fail s .FilesystemClosed := by
  cases op <;> first | exact absurd rfl hop | simp [step, hc]

/-- one-path operations other than `openbin` -/
theorem step_one (s : State) (op : Op) (p : Str) (hc : s.closed = false) (hp : op.paths = [p])
    (hno : ∀ q m, op ≠ .openbin q m) :
    step s op = match validate p with
      | .err e => fail s e
      | .ok cs => step1 s cs op := by
  cases op <;> simp only [Op.paths, List.cons.injEq, and_true, reduceCtorEq, and_false] at hp
  all_goals first
    | exact absurd rfl (hno _ _)
    | (subst hp; simp only [step, hc, Op.paths, mapM_one]; cases validate _ <;> rfl)

theorem step_openbin (s : State) (p m : Str) (hc : s.closed = false) :
    step s (.openbin p m) =
      if (parseBinMode m).isNone then fail s .ValueError
      else match validate p with
        | .err e => fail s e
        | .ok cs => step1 s cs (.openbin p m) := by
  simp only [step, hc, Op.paths, mapM_one]
  cases validate p <;> rfl

theorem step_two (s : State) (op : Op) (a b : Str) (hc : s.closed = false) (hp : op.paths = [a, b]) :
    step s op = match validate a with
      | .err e => fail s e
      | .ok ca => match validate b with
        | .err e => fail s e
        | .ok cb => step2 s ca cb op := by
  cases op <;> simp only [Op.paths, List.cons.injEq, and_true, reduceCtorEq, and_false] at hp
  all_goals
    obtain ⟨rfl, rfl⟩ := hp
    simp only [step, hc, Op.paths, mapM_two]
    generalize validate _ = va
    generalize validate _ = vb
    cases va <;> cases vb <;> rfl

/-! ### the shape of results -/

/-- the shape of a result: the state is untouched, or the call succeeded -/
def Shape (s : State) (r : State × Out) : Prop :=
  (∃ o, r = (s, o)) ∨ (∃ t v, r = upd s t v)

theorem shape_fail (s : State) (e : Err) : Shape s (fail s e) := Or.inl ⟨_, rfl⟩
theorem shape_done (s : State) (v : Val) : Shape s (done s v) := Or.inl ⟨_, rfl⟩
theorem shape_upd (s : State) (t : Node) (v : Val) : Shape s (upd s t v) := Or.inr ⟨_, _, rfl⟩

theorem Shape.err_state {s : State} {r : State × Out} {e : Err} (h : Shape s r) (he : r.2 = .err e) :
    r.1 = s := by
  rcases h with ⟨o, rfl⟩ | ⟨t, v, rfl⟩
  · rfl
  · simp [upd] at he

theorem writeFile_shape (s : State) (cs : List Name) (f : Option Bytes → Bytes) (v : Val) :
    Shape s (writeFile s cs f v) := by
  simp only [writeFile]
  repeat' split
  all_goals first | apply shape_fail | apply shape_done | apply shape_upd

theorem step1_shape (s : State) (cs : List Name) (op : Op) : Shape s (step1 s cs op) := by
  cases op <;> simp only [step1]
  all_goals repeat' split
  all_goals first | apply shape_fail | apply shape_done | apply shape_upd | apply writeFile_shape

theorem step2_shape (s : State) (a b : List Name) (op : Op) : Shape s (step2 s a b op) := by
  cases op <;> simp only [step2]
  all_goals repeat' split
  all_goals first | apply shape_fail | apply shape_done | apply shape_upd 


theorem op_cases (op : Op) :
    op = .close ∨ (∃ p m, op = .openbin p m) ∨
    (∃ p, op.paths = [p] ∧ ∀ q m, op ≠ .openbin q m) ∨ (∃ a b, op.paths = [a, b]) := by
  cases op <;> simp [Op.paths]

theorem step_shape (s : State) (op : Op) (hop : op ≠ .close) : Shape s (step s op) := by
  cases hc : s.closed
  · rcases op_cases op with rfl | ⟨p, m, rfl⟩ | ⟨p, hp, hno⟩ | ⟨a, b, hp⟩
    · exact absurd rfl hop
    · rw [step_openbin s p m hc]
      split
      · apply shape_fail
      · split
        · apply shape_fail
        · apply step1_shape
    · rw [step_one s op p hc hp hno]
      split
      · apply shape_fail
      · apply step1_shape
    · rw [step_two s op a b hc hp]
      split
      · apply shape_fail
      · split
        · apply shape_fail
        · apply step2_shape
  · rw [step_closed s op hop hc]; apply shape_fail

theorem adm_closed (s : State) (op : Op) (hop : op ≠ .close) (hc : s.closed = true) :
    adm s op = [.FilesystemClosed] := by
  cases op <;> first | exact absurd rfl hop | simp [adm, hc]

theorem adm_one (s : State) (op : Op) (p : Str) (hc : s.closed = false) (hp : op.paths = [p])
    (hno : ∀ q m, op ≠ .openbin q m) :
    adm s op = match validate p with
      | .err e => [e]
      | .ok cs => adm1 s.root cs op := by
  cases op <;> simp only [Op.paths, List.cons.injEq, and_true, reduceCtorEq, and_false] at hp
  all_goals first
    | exact absurd rfl (hno _ _)
    | (subst hp; simp only [adm, hc, Op.paths, mapM_one, admPath, List.flatMap_cons, List.flatMap_nil, List.append_nil]; generalize validate _ = v; cases v <;> simp)

theorem adm_openbin (s : State) (p m : Str) (hc : s.closed = false) :
    adm s (.openbin p m) = match validate p with
      | .err e => if (parseBinMode m).isNone then [.ValueError, e] else [e]
      | .ok cs => adm1 s.root cs (.openbin p m) := by
  simp only [adm, hc, Op.paths, mapM_one, admPath, List.flatMap_cons, List.flatMap_nil, List.append_nil]; generalize validate _ = v; cases v <;> simp

theorem adm_two (s : State) (op : Op) (a b : Str) (hc : s.closed = false) (hp : op.paths = [a, b]) :
    adm s op = match validate a, validate b with
      | .err ea, .err eb => [ea, eb]
      | .err ea, .ok cb => ea :: admAny s.root cb
      | .ok ca, .err eb => eb :: admAny s.root ca
      | .ok ca, .ok cb => adm2 s.root ca cb op := by
  cases op <;> simp only [Op.paths, List.cons.injEq, and_true, reduceCtorEq, and_false] at hp
  all_goals
    obtain ⟨rfl, rfl⟩ := hp
    simp only [adm, hc, Op.paths, mapM_two, admPath, List.flatMap_cons, List.flatMap_nil, List.append_nil]
    generalize validate _ = va
    generalize validate _ = vb
    cases va <;> cases vb <;> simp

/-! ### truthfulness of errors on valid paths -/

theorem blocked_of_parent_file (t : Node) (b : Bytes) : ∀ (cs pre : List Name), cs ≠ [] →
    t.get (pre ++ parentOf cs) = some (.file b) → blockedByFile t pre cs = true := by
  intro cs
  induction cs with
  | nil => intro pre h; exact absurd rfl h
  | cons c r ih =>
    intro pre _ hg
    cases r with
    | nil => simp [parentOf] at hg; simp [blockedByFile, hg]
    | cons d r' =>
      have : blockedByFile t (pre ++ [c]) (d :: r') = true := by
        apply ih _ (by simp)
        simpa [parentOf, List.dropLast] using hg
      rw [blockedByFile, this]; simp

theorem step1_truthful (s : State) (cs : List Name) (op : Op) (e : Err)
    (hroot : s.root.isDir = true)
    (h : (step1 s cs op).2 = .err e) : e ∈ adm1 s.root cs op := by
  cases op <;> simp only [step1, writeFile] at h
  all_goals simp only [adm1, admDirArg, admFileArg, admFileTarget, kindAt]
  all_goals repeat' split at h
  all_goals try (simp_all [fail, done, upd]; done)
  · rename_i h1 h2
    subst h1
    cases hr : s.root <;> simp_all [Node.get, fail]
  · rename_i hne _ _ heq
    have hb := blocked_of_parent_file s.root _ cs [] hne (by simpa using heq)
    simp_all [fail]
  · rename_i h1
    subst h1
    cases hr : s.root <;> simp_all [Node.get, fail, Node.isDir]

theorem step2_truthful (s : State) (a b : List Name) (op : Op) (e : Err)
    (h : (step2 s a b op).2 = .err e) : e ∈ adm2 s.root a b op ∨ e = .OperationFailed := by
  cases op <;> simp only [step2] at h
  all_goals simp only [adm2, admDirArg, admFileArg, admFileTarget, kindAt]
  all_goals repeat' split at h
  all_goals try (simp_all [fail, done, upd]; done)
  all_goals
    obtain ⟨o, hb⟩ : ∃ o, Node.get b s.root = o := ⟨_, rfl⟩
    obtain ⟨o', hpb⟩ : ∃ o, Node.get (parentOf b) s.root = o := ⟨_, rfl⟩
    rcases o with _ | ⟨_ | _⟩ <;> rcases o' with _ | ⟨_ | _⟩ <;> simp_all [fail]

/-! ### validation errors, membership in `adm` -/
theorem validate_err (p : Str) (e : Err) (h : validate p = .err e) :
    (e = .InvalidCharsInPath ∧ '\x00' ∈ p) ∨
    (e = .IllegalBackReference ∧ Path.normpath p = .err .IllegalBackReference) := by
  unfold validate at h
  split at h
  · next h0 => left; simp_all
  · right
    unfold Path.iteratepath at h
    cases hn : Path.normpath p with
    | ok q => rw [hn] at h; simp only [PathLemmas.bind_ok] at h; split at h <;> cases h
    | err e' =>
      rw [hn] at h
      have : e' = .IllegalBackReference := by
        rw [PathLemmas.normpath_eq_specNorm, PathSpec.specNorm] at hn
        cases hr : PathSpec.resolve (splitSlash p) <;> rw [hr] at hn <;> simp at hn
        exact hn.symm
      subst this
      cases h; exact ⟨rfl, rfl⟩

theorem validate_err_cases (p : Str) (e : Err) (h : validate p = .err e) :
    e = .InvalidCharsInPath ∨ e = .IllegalBackReference := by
  rcases validate_err p e h with ⟨h, _⟩ | ⟨h, _⟩ <;> simp [h]

/-- membership in `adm` for an open filesystem, one-path operation -/
theorem mem_adm_one {s : State} {op : Op} {p : Str} {x : Err} (hc : s.closed = false)
    (hp : op.paths = [p]) (hno : ∀ q m, op ≠ .openbin q m) (h : x ∈ adm s op) :
    validate p = .err x ∨ ∃ cs, validate p = .ok cs ∧ x ∈ adm1 s.root cs op := by
  rw [adm_one s op p hc hp hno] at h
  cases hv : validate p with
  | err e => rw [hv] at h; simp at h; simp [h]
  | ok cs => rw [hv] at h; exact Or.inr ⟨cs, rfl, h⟩

theorem isPrefix_iff (a b : List Name) : isPrefix a b = true ↔ a <+: b := by
  induction a generalizing b with
  | nil => simp [isPrefix]
  | cons x xs ih =>
    cases b with
    | nil => simp [isPrefix]
    | cons y ys => simp [isPrefix, ih, List.cons_prefix_cons]

theorem mode_chars (x : Char) :
    (x ∈ modeValidChars ∧ x ≠ 't') ↔ x ∈ ['r', 'w', 'x', 'a', 'b', '+'] := by
  simp only [modeValidChars, List.mem_cons, List.not_mem_nil, or_false]
  constructor
  · rintro ⟨h | h | h | h | h | h | h, ht⟩ <;> simp_all
  · rintro (h | h | h | h | h | h) <;> subst h <;> decide

/-! ### the root stays a directory -/

theorem dir_isDir (es : Ents) : (Node.dir es).isDir = true := rfl

theorem set_isDir (cs : List Name) (t v : Node) : (t.set cs v).isDir = t.isDir := by
  unfold Node.set
  split <;> try rfl
  split <;> rfl

theorem del_isDir (cs : List Name) (t : Node) : (t.del cs).isDir = t.isDir := by
  unfold Node.del
  split <;> try rfl
  split <;> rfl

theorem mkdirs_isDir (cs pre : List Name) (t : Node) : (mkdirs pre cs t).isDir = t.isDir := by
  induction cs generalizing pre t with
  | nil => rfl
  | cons c cs ih =>
    simp only [mkdirs]
    rw [ih]
    split
    · apply set_isDir
    · rfl

theorem setAt_dir_isDir (t : Node) (cs : List Name) (m : Ents) (h : t.isDir = true) :
    (setAt t cs (.dir m)).isDir = true := by
  unfold setAt; split
  · rfl
  · rw [set_isDir]; exact h

theorem step1_root_isDir (s : State) (cs : List Name) (op : Op) (h : s.root.isDir = true) :
    (step1 s cs op).1.root.isDir = true := by
  cases op <;> simp only [step1, writeFile]
  all_goals repeat' split
  all_goals simp [fail, done, upd, set_isDir, del_isDir, mkdirs_isDir, h, dir_isDir]

theorem step2_root_isDir (s : State) (a b : List Name) (op : Op) (h : s.root.isDir = true) :
    (step2 s a b op).1.root.isDir = true := by
  cases op <;> simp only [step2]
  all_goals repeat' split
  all_goals simp [fail, done, upd, set_isDir, del_isDir, mkdirs_isDir, setAt_dir_isDir, h]

/-- the root of every reachable state is a directory -/
theorem step_root_isDir (s : State) (op : Op) (h : s.root.isDir = true) :
    (step s op).1.root.isDir = true := by
  cases hc : s.closed
  · rcases op_cases op with rfl | ⟨p, m, rfl⟩ | ⟨p, hp, hno⟩ | ⟨a, b, hp⟩
    · exact h
    · rw [step_openbin s p m hc]
      split
      · exact h
      · split
        · exact h
        · exact step1_root_isDir _ _ _ h
    · rw [step_one s op p hc hp hno]
      split
      · exact h
      · exact step1_root_isDir _ _ _ h
    · rw [step_two s op a b hc hp]
      split
      · exact h
      · split
        · exact h
        · exact step2_root_isDir _ _ _ _ h
  · by_cases hop : op = .close
    · subst hop; exact h
    · rw [step_closed s op hop hc]; exact h

/-! ### tree lemmas -/

theorem lookup_isSome_iff (n : Name) (es : Ents) : (Ents.lookup n es).isSome = true ↔ n ∈ Ents.names es := by
  induction es with
  | nil => simp [Ents.lookup, Ents.names]
  | cons kv es ih =>
    obtain ⟨k, v⟩ := kv
    simp only [Ents.lookup, Ents.names, List.map_cons, List.mem_cons]
    by_cases hk : k = n
    · simp [hk]
    · simp only [hk, if_false]
      rw [ih]
      constructor
      · exact Or.inr
      · rintro (h | h)
        · exact absurd h.symm hk
        · exact h

theorem get_append (cs ds : List Name) (t : Node) :
    t.get (cs ++ ds) = (t.get cs).bind (Node.get ds) := by
  induction cs generalizing t with
  | nil => simp [Node.get]
  | cons c cs ih =>
    cases t with
    | file b => simp [Node.get]
    | dir es =>
      simp only [List.cons_append, Node.get]
      cases Ents.lookup c es with
      | none => rfl
      | some ch => exact ih ch

theorem get_single_dir (n : Name) (es : Ents) : (Node.dir es).get [n] = Ents.lookup n es := by
  simp only [Node.get]
  cases Ents.lookup n es <;> rfl

theorem entsWf_names_nodup (es : Ents) (h : entsWf es = true) : (Ents.names es).Nodup := by
  induction es with
  | nil => simp [Ents.names]
  | cons kv es ih =>
    obtain ⟨k, v⟩ := kv
    simp only [entsWf, Bool.and_eq_true] at h
    obtain ⟨⟨⟨_, hl⟩, _⟩, hes⟩ := h
    simp only [Ents.names, List.map_cons, List.nodup_cons]
    refine ⟨?_, ih hes⟩
    intro hm
    have := (lookup_isSome_iff k es).2 hm
    simp_all

theorem lookup_wf (c : Name) (es : Ents) (ch : Node) (h : entsWf es = true)
    (hl : Ents.lookup c es = some ch) : ch.wf = true := by
  induction es with
  | nil => simp [Ents.lookup] at hl
  | cons kv es ih =>
    obtain ⟨k, v⟩ := kv
    simp only [entsWf, Bool.and_eq_true] at h
    obtain ⟨⟨⟨_, _⟩, hv⟩, hes⟩ := h
    simp only [Ents.lookup] at hl
    split at hl
    · cases hl; exact hv
    · exact ih hes hl

theorem get_wf (cs : List Name) (t n : Node) (h : t.wf = true) (hg : t.get cs = some n) :
    n.wf = true := by
  induction cs generalizing t with
  | nil => simp [Node.get] at hg; subst hg; exact h
  | cons c cs ih =>
    cases t with
    | file b => simp [Node.get] at hg
    | dir es =>
      simp only [Node.get] at hg
      cases hl : Ents.lookup c es with
      | none => rw [hl] at hg; cases hg
      | some ch =>
        rw [hl] at hg
        exact ih ch (lookup_wf c es ch (by simpa [Node.wf] using h) hl) hg

/-! ### one-path operations that succeed -/

theorem step_q (s : State) (op : Op) (p : Str) (hp : op.paths = [p])
    (hno : ∀ q m, op ≠ .openbin q m) :
    step s op = if s.closed = true then fail s .FilesystemClosed else
      match validate p with
      | .err e => fail s e
      | .ok cs => step1 s cs op := by
  cases hc : s.closed
  · rw [step_one s op p hc hp hno, if_neg (by simp)]
    all_goals rfl
  · have : op ≠ .close := by rintro rfl; simp [Op.paths] at hp
    simp [step_closed s op this hc]

theorem step_q_of (s : State) (op : Op) (p : Str) (cs : List Name) (hp : op.paths = [p])
    (hno : ∀ q m, op ≠ .openbin q m) (hc : s.closed = false) (hv : validate p = .ok cs) :
    step s op = step1 s cs op := by
  rw [step_one s op p hc hp hno, hv]

theorem step_q_ok (s : State) (op : Op) (p : Str) (v : Val) (hp : op.paths = [p])
    (hno : ∀ q m, op ≠ .openbin q m) (h : (step s op).2 = .ok v) :
    ∃ cs, s.closed = false ∧ validate p = .ok cs := by
  rw [step_q s op p hp hno] at h
  cases hc : s.closed
  · cases hv : validate p with
    | ok cs => exact ⟨cs, rfl, rfl⟩
    | err e => rw [hc, hv] at h; simp [fail] at h
  · rw [hc] at h; simp [fail] at h

/-! ### spellings (C11) -/

section Spellings
open Fs.PathSpec Fs.PathLemmas

/-- what `normpath p = .ok q` means in component terms -/
theorem normpath_ok_resolve (p q : Str) (h : normpath p = .ok q) :
    ∃ cs, Clean cs ∧ resolve (splitSlash p) = some cs ∧ q = mkp (startsWithSlash p) cs := by
  rw [normpath_eq_specNorm, specNorm] at h
  cases hr : resolve (splitSlash p) with
  | none => rw [hr] at h; cases h
  | some cs =>
    rw [hr] at h
    simp only [Res.ok.injEq] at h
    exact ⟨cs, resolve_result_clean p cs hr, rfl, h.symm⟩

theorem normpath_of_resolve (p : Str) (cs : List Str) (h : resolve (splitSlash p) = some cs) :
    normpath p = .ok (mkp (startsWithSlash p) cs) := by
  rw [normpath_eq_specNorm, specNorm, h]; rfl

/-- two spellings with the same resolved components normalise to the same absolute path -/
theorem norm_abs_of_resolve (p p' : Str) (cs : List Str) (h : resolve (splitSlash p) = some cs)
    (h' : resolve (splitSlash p') = some cs) :
    ∃ q q', normpath p = .ok q ∧ normpath p' = .ok q' ∧ abspath q = abspath q' := by
  have hc := resolve_result_clean p cs h
  exact ⟨_, _, normpath_of_resolve p cs h, normpath_of_resolve p' cs h',
    by rw [abspath_mkp hc, abspath_mkp hc]⟩

theorem resolve_of_norm_abs (p p' q q' : Str) (h : normpath p = .ok q) (h' : normpath p' = .ok q')
    (ha : abspath q = abspath q') :
    ∃ cs, Clean cs ∧ resolve (splitSlash p) = some cs ∧ resolve (splitSlash p') = some cs := by
  obtain ⟨cs, hc, hr, rfl⟩ := normpath_ok_resolve p q h
  obtain ⟨cs', hc', hr', rfl⟩ := normpath_ok_resolve p' q' h'
  rw [abspath_mkp hc, abspath_mkp hc'] at ha
  have := mkp_inj hc hc' ha
  subst this
  exact ⟨cs, hc, hr, hr'⟩

theorem iteratepath_of_resolve (p : Str) (cs : List Str) (h : resolve (splitSlash p) = some cs) :
    iteratepath p = .ok cs := by
  have hc := resolve_result_clean p cs h
  unfold iteratepath
  rw [normpath_of_resolve p cs h, bind_ok]
  simp only [relpath, lstripSlash_mkp hc, pure_eq]
  by_cases hn : cs = []
  · subst hn; rfl
  · have : joinWith '/' cs ≠ [] := fun e => hn ((join_clean_eq_nil_iff hc).1 e)
    simp [this, splitSlash, splitOn_join_clean hc hn]

/-! resolution of the rewritten spellings -/

theorem resolve_cons_nil (l : List Str) : resolve ([] :: l) = resolve l := by
  simp [resolve, PathSpec.step]

theorem resolve_cons_dot (l : List Str) : resolve (['.'] :: l) = resolve l := by
  simp [resolve, PathSpec.step, dot]

theorem resolve_detour (x : Str) (l : List Str) (hx : CleanComp x) :
    resolve (x :: ['.', '.'] :: l) = resolve l := by
  obtain ⟨h1, h2, h3, _⟩ := hx
  simp only [dot, dotdot] at h2 h3
  simp [resolve, PathSpec.step, h1, h2, h3, dot, dotdot]

theorem resolve_snoc_nil (l : List Str) : resolve (l ++ [[]]) = resolve l := by
  simp only [resolve, List.foldl_append, List.foldl_cons, List.foldl_nil]
  cases List.foldl PathSpec.step (some []) l <;> simp [PathSpec.step]

theorem splitOn_snoc_sep (c : Char) (p : Str) : splitOn c (p ++ [c]) = splitOn c p ++ [[]] := by
  induction p with
  | nil => simp [splitOn]
  | cons x xs ih =>
    by_cases hx : x = c
    · subst hx; rw [List.cons_append, splitOn_cons_sep, splitOn_cons_sep, ih]; rfl
    · rw [List.cons_append, splitOn_cons_ne c x _ hx, splitOn_cons_ne c x _ hx, ih]
      have := splitOn_ne_nil c xs
      cases hs : splitOn c xs with
      | nil => exact absurd hs this
      | cons a b => simp

end Spellings

end Fs.QueryLemmas
