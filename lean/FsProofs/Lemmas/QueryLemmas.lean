import FsModel.Tree
import FsModel.Ref
import FsModel.RefAdm
import FsProofs.Lemmas.PathLemmas

namespace Fs.QueryLemmas
open Fs Fs.Ref

end Fs.QueryLemmas
