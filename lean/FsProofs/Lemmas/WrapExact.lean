/-
  SubFS over the reference itself, exactly (helper lemmas for `WrapRefines.sub_simulates`):
  `Sub.stepOpen (absOf sub) Ref.step s op = graft s sub (Ref.step (V es) op)` — the same outcome
  INCLUDING the error class — outside two decided exception classes.
-/
import FsProofs.Lemmas.WrapSimOps

namespace Fs.WrapLemmas
open Fs Fs.Ref Fs.TreeLemmas Fs.MemRefines

/-- exception class (`excOpenbin`, `nulRootTest`: FsProofs/Lemmas/WrapSimLemmas.lean): `copydir` into itself (the reference says IllegalDestination) when one of the
guards `WrapFS.copydir` evaluates BEFORE `copy_dir` fires: destination missing without `create`
(ResourceNotFound), source missing (ResourceNotFound) or not a directory (DirectoryExpected) -/
def excCopydir (es : Ents) : Op → Prop
  | .copydir a b c => ∃ ca cb, validate a = .ok ca ∧ validate b = .ok cb ∧ isPrefix ca cb = true ∧
      ((c = false ∧ (Node.dir es).get cb = none) ∨ ¬ ∃ eas, (Node.dir es).get ca = some (.dir eas))
  | _ => False

section Exact
variable {s : State} {sub : List Name} {es : Ents} (hc : s.closed = false)
  (hdir : s.root.get sub = some (.dir es)) (hsub : ∀ c ∈ sub, cleanName c = true)
include hc hdir hsub

/-- one inner call with delegated (valid) paths, exactly -/
theorem inner_exact (op : Op) (hop : op ≠ .close) (hval : ∀ p ∈ op.paths, ∃ cs, validate p = .ok cs)
    (hsp : rootSpecial op = false ∨ ∀ p ∈ op.paths, validate p ≠ .ok []) :
    Ref.step s (mapPaths (fdel sub) op) = graft s sub (Ref.step (V es) op) := by
  have hvf : ∀ p ∈ op.paths, validate (fdel sub p) = liftRes sub (validate (id p)) := by
    intro p hp
    obtain ⟨cs, hcs⟩ := hval p hp
    rw [validate_fdel hsub hcs]; simp [liftRes, hcs]
  have := ref_step_graft s sub es op (fdel sub) id hdir hop hvf hsp
  rw [mapPaths_id] at this
  rw [this]
  simp [viewOf, V, hc]

omit hc hdir hsub in
theorem empPost_graft (s : State) (sub : List Name) (r : State × Out) :
    empPost (graft s sub r) = graft s sub (empPost r) := by
  obtain ⟨s1, o⟩ := r
  cases o with
  | err e => rfl
  | ok v => cases v <;> rfl

omit hc hdir hsub in
/-- the reference's `copydir` when the destination is not inside the source -/
theorem ref_copydir_noprefix (a b : Str) (c : Bool) (ca cb : List Name) (ha : validate a = .ok ca)
    (hb : validate b = .ok cb) (hp : isPrefix ca cb = false) :
    (c = false → (Node.dir es).get cb = none → Ref.step (V es) (.copydir a b c) = fail (V es) .ResourceNotFound) ∧
    ((c = true ∨ ((Node.dir es).get cb).isSome = true) → (Node.dir es).get ca = none →
      Ref.step (V es) (.copydir a b c) = fail (V es) .ResourceNotFound) ∧
    (∀ d, (c = true ∨ ((Node.dir es).get cb).isSome = true) → (Node.dir es).get ca = some (.file d) →
      Ref.step (V es) (.copydir a b c) = fail (V es) .DirectoryExpected) := by
  have hR : ∀ c, Ref.step (V es) (.copydir a b c) = step2 (V es) ca cb (.copydir a b c) := fun c =>
    ref_two_valid (V es) _ a b ca cb rfl rfl ha hb
  refine ⟨?_, ?_, ?_⟩
  · intro h1 h2; subst h1
    rw [hR]; simp [step2, V, hp, h2]
  · intro h1 h2
    rw [hR]; simp only [step2, V, hp, h2, Bool.false_eq_true, if_false]
    cases hgb : (Node.dir es).get cb with
    | none =>
      rcases h1 with h1 | h1
      · subst h1; simp
      · simp [hgb] at h1
    | some nb => cases nb <;> rfl
  · intro d h1 h2
    rw [hR]; simp only [step2, V, hp, h2, Bool.false_eq_true, if_false]
    cases hgb : (Node.dir es).get cb with
    | none =>
      rcases h1 with h1 | h1
      · subst h1; simp
      · simp [hgb] at h1
    | some nb => cases nb <;> rfl


/-- **SubFS over the reference, exactly** -/
theorem sub_exact (hwf : s.root.wf = true) (op : Op) (hop : op ≠ .close) (hnn : ¬ nulRootTest op)
    (hx1 : ¬ excOpenbin op) (hx2 : ¬ excCopydir es op) :
    Wrap.Sub.stepOpen (absOf sub) Ref.step s op = graft s sub (Ref.step (V es) op) := by
  have hgf : ∀ e, graft s sub (fail (V es) e) = fail s e := by
    intro e; have := graft_fail hdir e; simpa [viewOf, V, hc] using this
  have hgd : ∀ v, graft s sub (done (V es) v) = done s v := by
    intro v; have := graft_done hdir v; simpa [viewOf, V, hc] using this
  by_cases hinv : ∃ p ∈ op.paths, ∀ cs, validate p ≠ .ok cs
  · -- a path that does not validate (climbing, NUL)
    have hinv' : ∃ p ∈ op.paths, ∃ e, validate p = .err e := by
      obtain ⟨p, hp, hne⟩ := hinv
      cases hv : validate p with
      | ok cs => exact absurd hv (hne cs)
      | err e => exact ⟨p, hp, e, hv⟩
    obtain ⟨e, hW, hrest⟩ := stepOpen_invalid Ref.step sub (clean_of_cleanName hsub) s op hinv'
    rw [hW, (hrest hnn).2 (V es) rfl hx1, hgf]
    rfl
  have hval : ∀ p ∈ op.paths, ∃ cs, validate p = .ok cs := by
    intro p hp
    cases hv : validate p with
    | ok cs => exact ⟨cs, rfl⟩
    | err e =>
      exfalso; apply hinv
      exact ⟨p, hp, fun cs h => by rw [hv] at h; cases h⟩
  have G : Good s ([] ++ sub) es := ⟨hc, hwf, by simpa using hdir, by simpa using hsub⟩
  cases op with
  | close => exact absurd rfl hop
  | getinfo p =>
    obtain ⟨cs, hv⟩ := hval p (by simp [Op.paths])
    obtain ⟨hd, hr⟩ := delegate_valid hsub hv
    by_cases hcs : cs = []
    · subst hcs
      have hfd : fdel sub p = absOf sub := by rw [fdel_ok hv]; simp
      have hF : Ref.step s (.getinfo (absOf sub)) = done s (.info (lastName sub) true 0) := by
        rw [ref_one_valid s _ (absOf sub) sub hc rfl (by simp) (validate_absOf hsub)]
        simp [step1, hdir]
      have hR : Ref.step (V es) (.getinfo p) = done (V es) (.info [] true 0) := by
        rw [ref_one_valid (V es) _ p [] rfl rfl (by simp) hv]
        simp [step1, V, Node.get, lastName]
      rw [hR, hgd]
      simp [Wrap.Sub.stepOpen, Wrap.stepOpen, Wrap.getinfo, hd, hr, hfd, hF, done]
    · have hr' : Wrap.isRootPath p = .ok false := by rw [hr]; simp [hcs]
      have := inner_exact hc hdir hsub (.getinfo p) (by simp) hval
        (Or.inr (by intro q hq; simp [Op.paths] at hq; subst hq; rw [hv]; simpa using hcs))
      rw [← this]
      simp only [Wrap.Sub.stepOpen, Wrap.stepOpen]
      exact getinfo_nonroot _ Ref.step s p _ hd hr'
  | isempty p =>
    obtain ⟨cs, hv⟩ := hval p (by simp [Op.paths])
    obtain ⟨hd, _⟩ := delegate_valid hsub hv
    have := inner_exact hc hdir hsub (.listdir p) (by simp)
      (by intro q hq; simp [Op.paths] at hq; subst hq; exact ⟨cs, hv⟩) (Or.inl rfl)
    simp only [mapPaths] at this
    have hW : Wrap.Sub.stepOpen (absOf sub) Ref.step s (.isempty p) = empPost (Ref.step s (.listdir (fdel sub p))) := by
      simp only [Wrap.Sub.stepOpen, Wrap.stepOpen, Wrap.isempty, hd]
      generalize Ref.step s (.listdir (fdel sub p)) = r
      obtain ⟨s1, o⟩ := r
      cases o with
      | err e => rfl
      | ok v => cases v <;> rfl
    rw [hW, this, empPost_graft, ← ref_isempty]
  | removedir p =>
    obtain ⟨cs, hv⟩ := hval p (by simp [Op.paths])
    obtain ⟨hd, hr⟩ := delegate_valid hsub hv
    by_cases hcs : cs = []
    · subst hcs
      have hR : Ref.step (V es) (.removedir p) = fail (V es) .RemoveRootError := by
        rw [ref_one_valid (V es) _ p [] rfl rfl (by simp) hv]; simp [step1]
      rw [hR, hgf]
      simp [Wrap.Sub.stepOpen, Wrap.stepOpen, Wrap.removedir, hr, fail]
    · have hr' : Wrap.isRootPath p = .ok false := by rw [hr]; simp [hcs]
      have := inner_exact hc hdir hsub (.removedir p) (by simp) hval
        (Or.inr (by intro q hq; simp [Op.paths] at hq; subst hq; rw [hv]; simpa using hcs))
      rw [← this]
      simp [Wrap.Sub.stepOpen, Wrap.stepOpen, Wrap.removedir, hr', hd, mapPaths]
  | removetree p =>
    obtain ⟨cs, hv⟩ := hval p (by simp [Op.paths])
    obtain ⟨hd, hr⟩ := delegate_valid hsub hv
    by_cases hcs : cs = []
    · subst hcs
      have hfd : fdel sub p = absOf sub := by rw [fdel_ok hv]; simp
      have hlist : Ref.step s (.listdir (absOf sub)) = (s, .ok (.names (Ents.names es))) := by
        rw [ref_one_valid s _ (absOf sub) sub hc rfl (by simp) (validate_absOf hsub)]
        simp [step1, hdir, done]
      have hR : Ref.step (V es) (.removetree p) = upd (V es) (.dir []) := by
        rw [ref_one_valid (V es) _ p [] rfl rfl (by simp) hv]; simp [step1]
      have hloop := rmLoop_sim (F := Ref.step) (pth := []) (sub := sub) sim_ref es s G
      rw [hR]
      simp only [Wrap.Sub.stepOpen, Wrap.stepOpen, Wrap.removetree, hr, hd, hfd, decide_true, if_true, hlist]
      rw [hloop]
      simp [graft, upd, V]
    · have hr' : Wrap.isRootPath p = .ok false := by rw [hr]; simp [hcs]
      have := inner_exact hc hdir hsub (.removetree p) (by simp) hval
        (Or.inr (by intro q hq; simp [Op.paths] at hq; subst hq; rw [hv]; simpa using hcs))
      rw [← this]
      simp [Wrap.Sub.stepOpen, Wrap.stepOpen, Wrap.removetree, hr', hd, mapPaths]
  | copy a b ow =>
    obtain ⟨ca, ha⟩ := hval a (by simp [Op.paths])
    obtain ⟨cb, hb⟩ := hval b (by simp [Op.paths])
    obtain ⟨hda, _⟩ := delegate_valid hsub ha
    obtain ⟨hdb, _⟩ := delegate_valid hsub hb
    have hvalc : ∀ o, ∀ q ∈ (Op.copy a b o).paths, ∃ cs, validate q = .ok cs := fun o => hval
    have hT := inner_exact hc hdir hsub (.copy a b true) (by simp) (hvalc true) (Or.inl rfl)
    simp only [mapPaths] at hT
    cases ow with
    | true =>
      rw [← hT]
      simp [Wrap.Sub.stepOpen, Wrap.stepOpen, Wrap.copy, hda, hdb]
    | false =>
      have hE := inner_exact hc hdir hsub (.exists_ b) (by simp)
        (by intro q hq; simp [Op.paths] at hq; subst hq; exact ⟨cb, hb⟩) (Or.inl rfl)
      simp only [mapPaths] at hE
      rw [ref_exists_valid (V es) b cb rfl hb, hgd] at hE
      cases hg : ((Node.dir es).get cb).isSome with
      | true =>
        have hR : Ref.step (V es) (.copy a b false) = fail (V es) .DestinationExists := by
          rw [ref_two_valid (V es) _ a b ca cb rfl rfl ha hb]
          simp [step2, V, hg]
        rw [hR, hgf]
        simp [Wrap.Sub.stepOpen, Wrap.stepOpen, Wrap.copy, hda, hdb, hE, V, hg, done, fail]
      | false =>
        have hR : Ref.step (V es) (.copy a b false) = Ref.step (V es) (.copy a b true) := by
          rw [ref_two_valid (V es) _ a b ca cb rfl rfl ha hb, ref_two_valid (V es) _ a b ca cb rfl rfl ha hb]
          simp [step2, V, hg]
        rw [hR, ← hT]
        simp [Wrap.Sub.stepOpen, Wrap.stepOpen, Wrap.copy, hda, hdb, hE, V, hg, done]
  | copydir a b c =>
    obtain ⟨ca, ha⟩ := hval a (by simp [Op.paths])
    obtain ⟨cb, hb⟩ := hval b (by simp [Op.paths])
    obtain ⟨hda, _⟩ := delegate_valid hsub ha
    obtain ⟨hdb, _⟩ := delegate_valid hsub hb
    obtain ⟨_, _, _, g4⟩ := ref_copydir_guards (es := es) a b c ca cb ha hb
    have hE := inner_exact hc hdir hsub (.exists_ b) (by simp)
      (by intro q hq; simp [Op.paths] at hq; subst hq; exact ⟨cb, hb⟩) (Or.inl rfl)
    simp only [mapPaths] at hE
    rw [ref_exists_valid (V es) b cb rfl hb, hgd] at hE
    have hT := inner_exact hc hdir hsub (.copydir a b true) (by simp) (fun q hq => hval q hq) (Or.inl rfl)
    simp only [mapPaths] at hT
    -- the source, as the inner getinfo sees it
    have hI : Ref.step s (.getinfo (fdel sub a)) =
        (match (Node.dir es).get ca with
         | none => fail s .ResourceNotFound
         | some (.file d) => done s (.info (lastName (sub ++ ca)) false d.length)
         | some (.dir _) => done s (.info (lastName (sub ++ ca)) true 0)) := by
      rw [fdel_ok ha, ref_one_valid s _ _ (sub ++ ca) hc rfl (by simp) (by rw [← fdel_ok ha]; exact validate_fdel hsub ha)]
      simp only [step1, get_sub hdir]
      cases (Node.dir es).get ca with
      | none => rfl
      | some n => cases n <;> rfl
    -- the part after the destination guard
    have hgo : (c = true ∨ ((Node.dir es).get cb).isSome = true) →
        Wrap.copydirGo Ref.step (fdel sub a) (fdel sub b) s = graft s sub (Ref.step (V es) (.copydir a b c)) := by
      intro hcc
      simp only [Wrap.copydirGo, hI]
      cases hga : (Node.dir es).get ca with
      | none =>
        have hnp : isPrefix ca cb = false := by
          cases hp : isPrefix ca cb with
          | false => rfl
          | true => exact absurd ⟨ca, cb, ha, hb, hp, Or.inr (by simp [hga])⟩ hx2
        rw [(ref_copydir_noprefix a b c ca cb ha hb hnp).2.1 hcc hga, hgf]; rfl
      | some nd =>
        cases nd with
        | file d =>
          have hnp : isPrefix ca cb = false := by
            cases hp : isPrefix ca cb with
            | false => rfl
            | true => exact absurd ⟨ca, cb, ha, hb, hp, Or.inr (by simp [hga])⟩ hx2
          rw [(ref_copydir_noprefix a b c ca cb ha hb hnp).2.2 d hcc hga, hgf]; rfl
        | dir eas =>
          simp only [done]
          rw [hT, g4 eas hga hcc]
    cases c with
    | true =>
      rw [← hgo (Or.inl rfl)]
      simp [Wrap.Sub.stepOpen, Wrap.stepOpen, Wrap.copydir, hda, hdb]
    | false =>
      cases hg : ((Node.dir es).get cb).isSome with
      | true =>
        rw [← hgo (Or.inr hg)]
        simp [Wrap.Sub.stepOpen, Wrap.stepOpen, Wrap.copydir, hda, hdb, hE, V, hg, done]
      | false =>
        have hgn : (Node.dir es).get cb = none := by
          cases hh : (Node.dir es).get cb with
          | none => rfl
          | some x => simp [hh] at hg
        have hnp : isPrefix ca cb = false := by
          cases hp : isPrefix ca cb with
          | false => rfl
          | true => exact absurd ⟨ca, cb, ha, hb, hp, Or.inl ⟨rfl, hgn⟩⟩ hx2
        rw [(ref_copydir_noprefix a b false ca cb ha hb hnp).1 rfl hgn, hgf]
        simp [Wrap.Sub.stepOpen, Wrap.stepOpen, Wrap.copydir, hda, hdb, hE, V, hg, done, fail]
  | move a b o =>
    obtain ⟨ca, ha⟩ := hval a (by simp [Op.paths])
    obtain ⟨cb, hb⟩ := hval b (by simp [Op.paths])
    rw [← inner_exact hc hdir hsub _ hop hval (Or.inl rfl)]
    simp [Wrap.Sub.stepOpen, Wrap.stepOpen, Wrap.direct2, (delegate_valid hsub ha).1, (delegate_valid hsub hb).1, mapPaths]
  | movedir a b o =>
    obtain ⟨ca, ha⟩ := hval a (by simp [Op.paths])
    obtain ⟨cb, hb⟩ := hval b (by simp [Op.paths])
    rw [← inner_exact hc hdir hsub _ hop hval (Or.inl rfl)]
    simp [Wrap.Sub.stepOpen, Wrap.stepOpen, Wrap.direct2, (delegate_valid hsub ha).1, (delegate_valid hsub hb).1, mapPaths]
  | _ =>
    all_goals (
      obtain ⟨cs, hv⟩ := hval _ (List.mem_singleton_self _)
      rw [← inner_exact hc hdir hsub _ hop hval (Or.inl rfl)]
      simp [Wrap.Sub.stepOpen, Wrap.stepOpen, Wrap.direct1, (delegate_valid hsub hv).1, mapPaths])

end Exact


/-! ### every path argument, NUL included: the view only ever sees the NORMALISED path -/

section Norm
open Fs.Path Fs.PathSpec Fs.PathLemmas

/-- the normalised absolute spelling of a path that resolves (what `delegate_path` keeps of it) -/
def normPath (p : Str) : Str :=
  match resolve (splitSlash p) with
  | some cs => absOf cs
  | none => p

theorem normPath_of_resolve {p : Str} {cs : List Name} (h : resolve (splitSlash p) = some cs) :
    normPath p = absOf cs ∧ resolve (splitSlash (normPath p)) = some cs := by
  have hc := resolve_result_clean p cs h
  have h1 : normPath p = absOf cs := by simp [normPath, h]
  refine ⟨h1, ?_⟩
  rw [h1, absOf, splitSlash, resolve_splitOn_mkp hc]

/-- `SubFS` cannot tell a path from its normalised spelling: both are delegated to the same parent
path and pass the same root test — for every operation and inner filesystem.  In particular a NUL
that disappears in normalisation (`"z\x00/../b"`) is never seen by the parent. -/
theorem stepOpen_norm {σ : Type} (F : Wrap.FS σ) (sub : List Name) (hs : Clean sub) (s : σ) (op : Op)
    (hnn : noNul op) (hall : ∀ p ∈ op.paths, ∃ cs, resolve (splitSlash p) = some cs) :
    Wrap.Sub.stepOpen (absOf sub) F s op = Wrap.Sub.stepOpen (absOf sub) F s (mapPaths normPath op) := by
  have hd : ∀ p ∈ op.paths, Wrap.Sub.delegate (absOf sub) (normPath p) = Wrap.Sub.delegate (absOf sub) p ∧
      Wrap.isRootPath (normPath p) = Wrap.isRootPath p := by
    intro p hp
    obtain ⟨cs, hr⟩ := hall p hp
    obtain ⟨hnp, hr'⟩ := normPath_of_resolve hr
    have hn' : '\x00' ∉ normPath p := by
      rw [hnp]
      apply nul_not_mem_absOf
      intro c hc hm
      rcases TreeLemmas.foldl_step_mem _ _ _ hr c hc with h' | h'
      · cases h'
      · exact hnn p hp (TreeLemmas.mem_of_mem_splitOn '/' p c h' _ hm)
    exact ⟨by rw [delegate_of_resolve hs (hnn p hp) hr, delegate_of_resolve hs hn' hr'],
      by rw [isRootPath_of_resolve hr, isRootPath_of_resolve hr']⟩
  cases op
  case close => rfl
  case move a b o =>
    simp only [Wrap.Sub.stepOpen, Wrap.stepOpen, Wrap.direct2, mapPaths,
      (hd a (by simp [Op.paths])).1, (hd b (by simp [Op.paths])).1]
  case movedir a b o =>
    simp only [Wrap.Sub.stepOpen, Wrap.stepOpen, Wrap.direct2, mapPaths,
      (hd a (by simp [Op.paths])).1, (hd b (by simp [Op.paths])).1]
  case copy a b o =>
    simp only [Wrap.Sub.stepOpen, Wrap.stepOpen, Wrap.copy, mapPaths,
      (hd a (by simp [Op.paths])).1, (hd b (by simp [Op.paths])).1]
  case copydir a b o =>
    simp only [Wrap.Sub.stepOpen, Wrap.stepOpen, Wrap.copydir, mapPaths,
      (hd a (by simp [Op.paths])).1, (hd b (by simp [Op.paths])).1]
  all_goals
    simp only [Wrap.Sub.stepOpen, Wrap.stepOpen, Wrap.direct1, Wrap.getinfo, Wrap.isempty, Wrap.removedir,
      Wrap.removetree, mapPaths, (hd _ (List.mem_singleton_self _)).1, (hd _ (List.mem_singleton_self _)).2]

end Norm


/-! ### the frame, for every operation and every path argument -/

section Frame
open Fs.Path Fs.PathSpec Fs.PathLemmas

/-- `t` differs from `s` at most below `sub`, where it holds a directory -/
def Fr (s : State) (sub : List Name) (t : State) : Prop :=
  ∃ x, t = { s with root := setAt s.root sub (.dir x) }

/-- a path handed to the parent: the sub-directory followed by clean components -/
def Under (sub : List Name) (nonroot : Bool) (q : Str) : Prop :=
  ∃ cs, Clean cs ∧ q = absOf (sub ++ cs) ∧ (nonroot = true → cs ≠ [])

theorem fr_refl {s : State} {sub : List Name} {es : Ents} (h : s.root.get sub = some (.dir es)) : Fr s sub s :=
  ⟨es, by rw [setAt_self _ _ _ h]⟩

theorem fr_get {s t : State} {sub : List Name} {es : Ents} (h : s.root.get sub = some (.dir es))
    (ht : Fr s sub t) : ∃ x, t.root.get sub = some (.dir x) := by
  obtain ⟨x, rfl⟩ := ht
  exact ⟨x, get_setAt_self h _⟩

theorem validate_absOf_clean {cs ks : List Name} (hc : Clean cs) (h : validate (absOf cs) = .ok ks) : ks = cs := by
  unfold validate at h
  split at h
  · cases h
  · rw [absOf, ConfineLemmas.iteratepath_mkp true hc] at h
    cases h; rfl

/-- one call of the reference with every path under `sub` (and not the sub-directory itself for
the three root-special operations) changes nothing outside `sub` -/
theorem ref_call_framed {s t : State} {sub : List Name} {es : Ents} (hsub : Clean sub)
    (h : s.root.get sub = some (.dir es)) (ht : Fr s sub t) (op : Op) (hop : op ≠ .close)
    (hu : ∀ q ∈ op.paths, Under sub (rootSpecial op) q) : Fr s sub (Ref.step t op).1 := by
  obtain ⟨x0, hx0⟩ := fr_get h ht
  obtain ⟨x, rfl⟩ := ht
  have hback : ∀ y, Fr s sub { ({ s with root := setAt s.root sub (.dir x) } : State) with
      root := setAt (setAt s.root sub (.dir x)) sub (.dir y) } := by
    intro y; exact ⟨y, by simp [setAt_setAt]⟩
  generalize hT : ({ s with root := setAt s.root sub (.dir x) } : State) = T at hx0 ⊢
  have hsame : Fr s sub T := ⟨x, hT.symm⟩
  have hgr : ∀ r : State × Out, r.1.root.isDir = true → Fr s sub (graft T sub r).1 := by
    intro r hr
    cases hrr : r.1.root with
    | file b => rw [hrr] at hr; cases hr
    | dir y =>
      subst hT
      refine ⟨y, ?_⟩
      simp [graft, hrr, setAt_setAt]
  cases TreeLemmas.step_case T op with
  | close h1 _ => exact absurd h1 hop
  | fail e _ h1 => rw [h1]; exact hsame
  | one q ks hc hp hv h1 =>
    obtain ⟨cs, hcl, rfl, hnr⟩ := hu q (by simp [hp])
    have := validate_absOf_clean (clean_append.2 ⟨hsub, hcl⟩) hv
    subst this
    rw [h1, step1_graft T sub cs x0 op hx0 (by
      cases hs : rootSpecial op with
      | false => exact Or.inr rfl
      | true => exact Or.inl (hnr hs))]
    exact hgr _ (QueryLemmas.step1_root_isDir _ _ _ rfl)
  | two q r ka kb hc hp hva hvb h1 =>
    obtain ⟨ca, hca, rfl, _⟩ := hu q (by simp [hp])
    obtain ⟨cb, hcb, rfl, _⟩ := hu r (by simp [hp])
    have e1 := validate_absOf_clean (clean_append.2 ⟨hsub, hca⟩) hva
    have e2 := validate_absOf_clean (clean_append.2 ⟨hsub, hcb⟩) hvb
    subst e1; subst e2
    rw [h1, step2_graft T sub ca cb x0 op hx0]
    exact hgr _ (QueryLemmas.step2_root_isDir _ _ _ _ rfl)


/-- queries leave the state alone -/
theorem query_same (t : State) (q : Str) :
    (Ref.step t (.exists_ q)).1 = t ∧ (Ref.step t (.getinfo q)).1 = t ∧ (Ref.step t (.listdir q)).1 = t := by
  refine ⟨?_, ?_, ?_⟩
  all_goals
    rw [QueryLemmas.step_q t _ q rfl (by simp)]
    split
    · rfl
    · split
      · rfl
      · simp only [step1]; repeat' split
        all_goals rfl

theorem entsWf_names_clean (es : Ents) (h : entsWf es = true) : ∀ n ∈ Ents.names es, cleanName n = true := by
  induction es with
  | nil => intro n hn; simp [Ents.names] at hn
  | cons e es ih =>
    obtain ⟨k, v⟩ := e
    simp only [entsWf, Bool.and_eq_true] at h
    intro n hn
    simp only [Ents.names, List.map_cons, List.mem_cons] at hn
    rcases hn with rfl | hn
    · exact h.1.1.1
    · exact ih h.2 n hn

theorem under_of_resolve {sub cs : List Name} {p : Str} (nr : Bool) (hr : resolve (splitSlash p) = some cs)
    (hnr : nr = true → cs ≠ []) : Under sub nr (absOf (sub ++ cs)) :=
  ⟨cs, resolve_result_clean p cs hr, rfl, hnr⟩

section Walk
variable {s : State} {sub : List Name} {es : Ents} (hsub : ∀ c ∈ sub, cleanName c = true)
  (h : s.root.get sub = some (.dir es))
include hsub h

theorem rmLoop_framed : ∀ (l : List Name), (∀ n ∈ l, cleanName n = true) → ∀ t, Fr s sub t →
    Fr s sub (Wrap.rmLoop Ref.step (absOf sub) l t).1 := by
  have hcs := clean_of_cleanName hsub
  intro l
  induction l with
  | nil => intro _ t ht; exact ht
  | cons n ns ih =>
    intro hl t ht
    have hn := hl n (by simp)
    have hu : Under sub true (absOf (sub ++ [n])) :=
      ⟨[n], clean_of_cleanName (cs := [n]) (by simpa using hn), rfl, fun _ => by simp⟩
    simp only [Wrap.rmLoop, join_child hcs hn]
    have hq := (query_same t (absOf (sub ++ [n]))).2.1
    generalize hgi : Ref.step t (.getinfo (absOf (sub ++ [n]))) = r at hq
    obtain ⟨t1, o⟩ := r
    simp only at hq; subst hq
    cases o with
    | err e => exact ht
    | ok v =>
      cases v with
      | info nm d sz =>
        cases d with
        | true =>
          simp only []
          have hf := ref_call_framed hcs h ht (.removetree (absOf (sub ++ [n]))) (by simp)
            (by intro q hq; simp [Op.paths] at hq; subst hq; exact hu)
          generalize Ref.step t1 (.removetree (absOf (sub ++ [n]))) = r2 at hf
          obtain ⟨t2, o2⟩ := r2
          cases o2 with
          | err e => exact hf
          | ok v2 => exact ih (fun m hm => hl m (by simp [hm])) t2 hf
        | false =>
          simp only []
          have hf := ref_call_framed hcs h ht (.remove (absOf (sub ++ [n]))) (by simp)
            (by intro q hq; simp [Op.paths] at hq; subst hq
                exact ⟨[n], clean_of_cleanName (cs := [n]) (by simpa using hn), rfl,
                  fun hh => by simp [rootSpecial] at hh⟩)
          generalize Ref.step t1 (.remove (absOf (sub ++ [n]))) = r2 at hf
          obtain ⟨t2, o2⟩ := r2
          cases o2 with
          | err e => exact hf
          | ok v2 => exact ih (fun m hm => hl m (by simp [hm])) t2 hf
      | _ => exact ht


/-- **the frame, universally**: whatever the operation and whatever the path strings (climbing,
NUL, the exception classes — everything), an open SubFS over the reference leaves the parent equal to
what it was except below its sub-directory, which is still a directory -/
theorem stepOpen_framed (hc : s.closed = false) (hwf : s.root.wf = true) (op : Op) :
    Fr s sub (Wrap.Sub.stepOpen (absOf sub) Ref.step s op).1 := by
  have hcs := clean_of_cleanName hsub
  have h0 : Fr s sub s := fr_refl h
  have call : ∀ (op' : Op), op' ≠ .close → (∀ q ∈ op'.paths, Under sub (rootSpecial op') q) →
      Fr s sub (Ref.step s op').1 := fun op' hop hu => ref_call_framed hcs h h0 op' hop hu
  -- a one-path method that is a single delegated call
  have d1 : ∀ (p : Str) (mk : Str → Op), (∀ q, (mk q).paths = [q]) → (∀ q, mk q ≠ .close) →
      (∀ q, rootSpecial (mk q) = false) → Fr s sub (Wrap.direct1 (Wrap.Sub.delegate (absOf sub)) Ref.step s p mk).1 := by
    intro p mk hp hne hrs
    rcases delegate_cases sub hcs p with ⟨cs, _, hr, hd, _⟩ | ⟨_, _, hd⟩
    · simp only [Wrap.direct1, hd]
      refine call _ (hne _) ?_
      intro q hq; rw [hp] at hq; simp at hq; subst hq
      exact under_of_resolve _ hr (by rw [hrs]; intro hh; cases hh)
    · simp only [Wrap.direct1, hd]; exact h0
  have d2 : ∀ (a b : Str) (mk : Str → Str → Op), (∀ x y, (mk x y).paths = [x, y]) → (∀ x y, mk x y ≠ .close) →
      (∀ x y, rootSpecial (mk x y) = false) →
      Fr s sub (Wrap.direct2 (Wrap.Sub.delegate (absOf sub)) Ref.step s a b mk).1 := by
    intro a b mk hp hne hrs
    rcases delegate_cases sub hcs a with ⟨ca, _, hra, hda, _⟩ | ⟨_, _, hda⟩
    · rcases delegate_cases sub hcs b with ⟨cb, _, hrb, hdb, _⟩ | ⟨_, _, hdb⟩
      · simp only [Wrap.direct2, hda, hdb]
        refine call _ (hne _ _) ?_
        intro q hq; rw [hp] at hq; simp at hq
        rcases hq with rfl | rfl
        · exact under_of_resolve _ hra (by rw [hrs]; intro hh; cases hh)
        · exact under_of_resolve _ hrb (by rw [hrs]; intro hh; cases hh)
      · simp only [Wrap.direct2, hda, hdb]; exact h0
    · simp only [Wrap.direct2, hda]; exact h0
  cases op with
  | close => exact h0
  | getinfo p =>
    simp only [Wrap.Sub.stepOpen, Wrap.stepOpen, Wrap.getinfo]
    rcases delegate_cases sub hcs p with ⟨cs, _, hr, hd, hroot⟩ | ⟨_, _, hd⟩
    · simp only [hd, hroot]
      have hq := (query_same s (absOf (sub ++ cs))).2.1
      generalize Ref.step s (.getinfo (absOf (sub ++ cs))) = r at hq
      obtain ⟨t1, o⟩ := r
      simp only at hq; subst hq
      cases o with
      | err e => exact h0
      | ok v => cases v <;> first | exact h0 | (simp only []; split <;> exact h0)
    · simp only [hd]; exact h0
  | isempty p =>
    simp only [Wrap.Sub.stepOpen, Wrap.stepOpen, Wrap.isempty]
    rcases delegate_cases sub hcs p with ⟨cs, _, hr, hd, _⟩ | ⟨_, _, hd⟩
    · simp only [hd]
      have hq := (query_same s (absOf (sub ++ cs))).2.2
      generalize Ref.step s (.listdir (absOf (sub ++ cs))) = r at hq
      obtain ⟨t1, o⟩ := r
      simp only at hq; subst hq
      cases o with
      | err e => exact h0
      | ok v => cases v <;> exact h0
    · simp only [hd]; exact h0
  | removedir p =>
    simp only [Wrap.Sub.stepOpen, Wrap.stepOpen, Wrap.removedir]
    rcases delegate_cases sub hcs p with ⟨cs, _, hr, hd, hroot⟩ | ⟨_, _, hd⟩
    · simp only [hd, hroot]
      by_cases hcs' : cs = []
      · simp only [hcs', decide_true]; exact h0
      · simp only [hcs', decide_false]
        refine call _ (by simp) ?_
        intro q hq; simp [Op.paths] at hq; subst hq
        exact under_of_resolve _ hr (fun _ => hcs')
    · rcases isRootPath_cases p with ⟨_, hroot⟩ | ⟨cs, _, hroot⟩
      · simp only [hroot]; exact h0
      · simp only [hroot, hd]
        by_cases hcs' : cs = []
        · simp only [hcs', decide_true]; exact h0
        · simp only [hcs', decide_false]; exact h0
  | removetree p =>
    simp only [Wrap.Sub.stepOpen, Wrap.stepOpen, Wrap.removetree]
    rcases delegate_cases sub hcs p with ⟨cs, _, hr, hd, hroot⟩ | ⟨_, _, hd⟩
    · simp only [hd, hroot]
      by_cases hcs' : cs = []
      · subst hcs'
        simp only [decide_true, if_true, List.append_nil]
        have hlist : Ref.step s (.listdir (absOf sub)) = (s, .ok (.names (Ents.names es))) := by
          rw [ref_one_valid s _ (absOf sub) sub hc rfl (by simp) (validate_absOf hsub)]
          simp [step1, h, done]
        rw [hlist]
        have hw : entsWf es = true := by
          have := get_wf _ _ _ hwf h
          simpa [Node.wf] using this
        exact rmLoop_framed hsub h _ (entsWf_names_clean es hw) s h0
      · simp only [hcs', decide_false, Bool.false_eq_true, if_false]
        refine call _ (by simp) ?_
        intro q hq; simp [Op.paths] at hq; subst hq
        exact under_of_resolve _ hr (fun _ => hcs')
    · rcases isRootPath_cases p with ⟨_, hroot⟩ | ⟨cs, _, hroot⟩
      · simp only [hroot]; exact h0
      · simp only [hroot, hd]; exact h0
  | copy a b ow =>
    simp only [Wrap.Sub.stepOpen, Wrap.stepOpen, Wrap.copy]
    rcases delegate_cases sub hcs a with ⟨ca, _, hra, hda, _⟩ | ⟨_, _, hda⟩
    · rcases delegate_cases sub hcs b with ⟨cb, _, hrb, hdb, _⟩ | ⟨_, _, hdb⟩
      · simp only [hda, hdb]
        have hgo : Fr s sub (Ref.step s (.copy (absOf (sub ++ ca)) (absOf (sub ++ cb)) true)).1 := by
          refine call _ (by simp) ?_
          intro q hq; simp [Op.paths] at hq
          rcases hq with rfl | rfl
          · exact under_of_resolve _ hra (by intro hh; cases hh)
          · exact under_of_resolve _ hrb (by intro hh; cases hh)
        cases ow with
        | true => exact hgo
        | false =>
          simp only [Bool.false_eq_true, if_false]
          have hq := (query_same s (absOf (sub ++ cb))).1
          generalize Ref.step s (.exists_ (absOf (sub ++ cb))) = r at hq
          obtain ⟨t1, o⟩ := r
          simp only at hq; subst hq
          cases o with
          | err e => exact h0
          | ok v =>
            cases v with
            | bool bb => cases bb <;> first | exact hgo | exact h0
            | _ => exact h0
      · simp only [hda, hdb]; exact h0
    · simp only [hda]; exact h0
  | copydir a b c =>
    simp only [Wrap.Sub.stepOpen, Wrap.stepOpen, Wrap.copydir]
    rcases delegate_cases sub hcs a with ⟨ca, _, hra, hda, _⟩ | ⟨_, _, hda⟩
    · rcases delegate_cases sub hcs b with ⟨cb, _, hrb, hdb, _⟩ | ⟨_, _, hdb⟩
      · simp only [hda, hdb]
        have hgo : Fr s sub (Wrap.copydirGo Ref.step (absOf (sub ++ ca)) (absOf (sub ++ cb)) s).1 := by
          simp only [Wrap.copydirGo]
          have hq := (query_same s (absOf (sub ++ ca))).2.1
          generalize Ref.step s (.getinfo (absOf (sub ++ ca))) = r at hq
          obtain ⟨t1, o⟩ := r
          simp only at hq; subst hq
          cases o with
          | err e => exact h0
          | ok v =>
            cases v with
            | info nm d sz =>
              cases d with
              | false => exact h0
              | true =>
                refine call _ (by simp) ?_
                intro q hq; simp [Op.paths] at hq
                rcases hq with rfl | rfl
                · exact under_of_resolve _ hra (by intro hh; cases hh)
                · exact under_of_resolve _ hrb (by intro hh; cases hh)
            | _ => exact h0
        cases c with
        | true => exact hgo
        | false =>
          simp only [Bool.false_eq_true, if_false]
          have hq := (query_same s (absOf (sub ++ cb))).1
          generalize Ref.step s (.exists_ (absOf (sub ++ cb))) = r at hq
          obtain ⟨t1, o⟩ := r
          simp only at hq; subst hq
          cases o with
          | err e => exact h0
          | ok v =>
            cases v with
            | bool bb => cases bb <;> first | exact hgo | exact h0
            | _ => exact hgo
      · simp only [hda, hdb]; exact h0
    · simp only [hda]; exact h0
  | move a b o => exact d2 a b (.move · · o) (fun _ _ => rfl) (by simp) (fun _ _ => rfl)
  | movedir a b o => exact d2 a b (.movedir · · o) (fun _ _ => rfl) (by simp) (fun _ _ => rfl)
  | exists_ p => exact d1 p .exists_ (fun _ => rfl) (by simp) (fun _ => rfl)
  | isdir p => exact d1 p .isdir (fun _ => rfl) (by simp) (fun _ => rfl)
  | isfile p => exact d1 p .isfile (fun _ => rfl) (by simp) (fun _ => rfl)
  | listdir p => exact d1 p .listdir (fun _ => rfl) (by simp) (fun _ => rfl)
  | getsize p => exact d1 p .getsize (fun _ => rfl) (by simp) (fun _ => rfl)
  | gettype p => exact d1 p .gettype (fun _ => rfl) (by simp) (fun _ => rfl)
  | readbytes p => exact d1 p .readbytes (fun _ => rfl) (by simp) (fun _ => rfl)
  | makedir p r => exact d1 p (.makedir · r) (fun _ => rfl) (by simp) (fun _ => rfl)
  | makedirs p r => exact d1 p (.makedirs · r) (fun _ => rfl) (by simp) (fun _ => rfl)
  | writebytes p d => exact d1 p (.writebytes · d) (fun _ => rfl) (by simp) (fun _ => rfl)
  | appendbytes p d => exact d1 p (.appendbytes · d) (fun _ => rfl) (by simp) (fun _ => rfl)
  | create p w => exact d1 p (.create · w) (fun _ => rfl) (by simp) (fun _ => rfl)
  | touch p => exact d1 p .touch (fun _ => rfl) (by simp) (fun _ => rfl)
  | settimes p => exact d1 p .settimes (fun _ => rfl) (by simp) (fun _ => rfl)
  | openbin p m => exact d1 p (.openbin · m) (fun _ => rfl) (by simp) (fun _ => rfl)
  | remove p => exact d1 p .remove (fun _ => rfl) (by simp) (fun _ => rfl)

end Walk

end Frame


/-! ### WrapFS (identity delegate) over the reference: the six non-plain methods, on valid paths -/

section WrapId
open Fs.Path Fs.PathSpec Fs.PathLemmas

/-- `join(_delegate_path, info.name)` when the (raw) delegate path names the root -/
theorem join_root_child (p k : Str) (hr : resolve (splitSlash p) = some []) (hk : CleanComp k) :
    ∃ a, join [p, k] = .ok (mkp a [k]) := by
  have hck : Clean [k] := by intro c hc; simp at hc; subst hc; exact hk
  have hsk : startsWithSlash k = false := startsWithSlash_of_not_mem _ hk.2.2.2
  by_cases hp : p = []
  · subst hp
    refine ⟨false, ?_⟩
    unfold join
    rw [join_go_cons_nil, join_go_cons _ _ _ _ hk.1, hsk]
    simp only [Bool.false_eq_true, if_false, join_go_nil, List.reverse_cons, List.reverse_nil, List.nil_append,
      joinSlash, joinWith]
    have := normpath_mkp (a := false) hck
    have e : mkp false [k] = k := by simp [mkp, joinWith]
    rw [e] at this
    rw [this]; rfl
  · have hres : resolve (splitSlash (p ++ '/' :: k)) = some [k] := by
      simp only [splitSlash]
      rw [ConfineLemmas.splitOn_append_sep', ConfineLemmas.resolve_append]
      simp only [splitSlash] at hr
      rw [hr, splitOn_of_not_mem _ _ hk.2.2.2]
      simp [PathSpec.step, hk.1, hk.2.1, hk.2.2.1]
    have hn := ConfineLemmas.normpath_of_resolve _ _ hres
    have hsw : startsWithSlash (p ++ '/' :: k) = startsWithSlash p := startsWithSlash_append _ _ hp
    rw [hsw] at hn
    unfold join
    rw [join_go_cons _ _ _ _ hp]
    cases hsp : startsWithSlash p with
    | true =>
      refine ⟨true, ?_⟩
      simp only [if_true]
      rw [join_go_cons _ _ _ _ hk.1, hsk]
      simp only [Bool.false_eq_true, if_false, join_go_nil, List.reverse_cons, List.reverse_nil, List.nil_append,
        joinSlash, joinWith, List.cons_append, List.singleton_append]
      rw [hsp] at hn
      rw [hn, bind_ok, pure_eq]
      simp only [if_true, abspath_mkp hck]
    | false =>
      refine ⟨false, ?_⟩
      simp only [Bool.false_eq_true, if_false]
      rw [join_go_cons _ _ _ _ hk.1, hsk]
      simp only [Bool.false_eq_true, if_false, join_go_nil, List.reverse_cons, List.reverse_nil, List.nil_append,
        joinSlash, joinWith, List.cons_append, List.singleton_append]
      rw [hsp] at hn
      rw [hn]; rfl

theorem validate_mkp_single (a : Bool) (k : Name) (hk : cleanName k = true) : validate (mkp a [k]) = .ok [k] := by
  have hck : Clean [k] := clean_of_cleanName (cs := [k]) (by simpa using hk)
  unfold validate
  have hn : (mkp a [k]).contains '\x00' = false := by
    have h0 : '\x00' ∉ k := noNul_of_cleanName (cs := [k]) (by simpa using hk) k (by simp)
    have : '\x00' ∉ mkp a [k] := by
      intro hm
      cases a <;> simp [mkp, joinWith] at hm <;> exact h0 hm
    simpa using this
  rw [hn]
  simp only [Bool.false_eq_true, if_false]
  exact ConfineLemmas.iteratepath_mkp a hck

/-- the root branch of `WrapFS.removetree` over the reference at its own root: everything goes,
the root stays -/
theorem rmLoop_ref_root (q : Str) (hq : resolve (splitSlash q) = some []) : ∀ (es : Ents) (cl : Bool),
    entsWf es = true → cl = false →
    Wrap.rmLoop Ref.step q (Ents.names es) ⟨.dir es, cl⟩ = (⟨.dir [], cl⟩, .ok .unit) := by
  intro es
  induction es with
  | nil => intro cl _ _; rfl
  | cons e es' ih =>
    intro cl hwf hcl
    subst hcl
    obtain ⟨k, v⟩ := e
    simp only [entsWf, Bool.and_eq_true] at hwf
    obtain ⟨⟨⟨hk, _⟩, _⟩, hw'⟩ := hwf
    have hkc : CleanComp k := clean_of_cleanName (cs := [k]) (by simpa using hk) k (by simp)
    obtain ⟨a, hj⟩ := join_root_child q k hq hkc
    have hv := validate_mkp_single a k hk
    simp only [Ents.names, List.map_cons, Wrap.rmLoop, hj]
    have hgi : Ref.step ⟨.dir ((k, v) :: es'), false⟩ (.getinfo (mkp a [k])) =
        step1 ⟨.dir ((k, v) :: es'), false⟩ [k] (.getinfo (mkp a [k])) :=
      ref_one_valid _ _ _ [k] rfl rfl (by simp) hv
    cases v with
    | dir sub_es =>
      have h1 : Ref.step ⟨.dir ((k, .dir sub_es) :: es'), false⟩ (.getinfo (mkp a [k])) =
          (⟨.dir ((k, .dir sub_es) :: es'), false⟩, .ok (.info k true 0)) := by
        rw [hgi]; simp [step1, Node.get, Ents.lookup, lastName, done]
      have h2 : Ref.step ⟨.dir ((k, .dir sub_es) :: es'), false⟩ (.removetree (mkp a [k])) =
          (⟨.dir es', false⟩, .ok .unit) := by
        rw [ref_one_valid _ _ _ [k] rfl rfl (by simp) hv]
        simp [step1, Node.get, Ents.lookup, Node.del, Ents.erase, upd]
      simp only [h1, h2]
      have := ih false hw' rfl
      simp only [Ents.names] at this
      exact this
    | file data =>
      have h1 : Ref.step ⟨.dir ((k, .file data) :: es'), false⟩ (.getinfo (mkp a [k])) =
          (⟨.dir ((k, .file data) :: es'), false⟩, .ok (.info k false data.length)) := by
        rw [hgi]; simp [step1, Node.get, Ents.lookup, lastName, done]
      have h2 : Ref.step ⟨.dir ((k, .file data) :: es'), false⟩ (.remove (mkp a [k])) =
          (⟨.dir es', false⟩, .ok .unit) := by
        rw [ref_one_valid _ _ _ [k] rfl rfl (by simp) hv]
        simp [step1, Node.get, Ents.lookup, Node.del, Ents.erase, upd]
      simp only [h1, h2]
      have := ih false hw' rfl
      simp only [Ents.names] at this
      exact this


/-- **WrapFS over the reference is the identity** on every operation whose path arguments are valid
(outside the `copydir` class-order exception) -/
theorem wrap_id_exact (es : Ents) (hwf : entsWf es = true) (op : Op) (hop : op ≠ .close)
    (hval : ∀ p ∈ op.paths, ∃ cs, validate p = .ok cs) (hx2 : ¬ excCopydir es op) :
    Wrap.stepOpen Wrap.idDelegate Ref.step (V es) op = Ref.step (V es) op := by
  have hroot : ∀ p cs, validate p = .ok cs → Wrap.isRootPath p = .ok (decide (cs = [])) :=
    fun p cs hv => isRootPath_of_resolve (validate_ok_resolve hv)
  cases op with
  | close => exact absurd rfl hop
  | getinfo p =>
    obtain ⟨cs, hv⟩ := hval p (by simp [Op.paths])
    simp only [Wrap.stepOpen, Wrap.getinfo, Wrap.idDelegate, hroot p cs hv]
    rw [ref_one_valid (V es) _ p cs rfl rfl (by simp) hv]
    simp only [step1]
    cases hg : (V es).root.get cs with
    | none => rfl
    | some n =>
      by_cases hcs : cs = []
      · subst hcs; cases n <;> simp [done, lastName]
      · cases n <;> simp [done, hcs]
  | isempty p =>
    have hW : Wrap.stepOpen Wrap.idDelegate Ref.step (V es) (.isempty p) = empPost (Ref.step (V es) (.listdir p)) := by
      simp only [Wrap.stepOpen, Wrap.isempty, Wrap.idDelegate]
      generalize Ref.step (V es) (.listdir p) = r
      obtain ⟨s1, o⟩ := r
      cases o with
      | err e => rfl
      | ok v => cases v <;> rfl
    rw [hW, ← ref_isempty]
  | removedir p =>
    obtain ⟨cs, hv⟩ := hval p (by simp [Op.paths])
    simp only [Wrap.stepOpen, Wrap.removedir, Wrap.idDelegate, hroot p cs hv]
    by_cases hcs : cs = []
    · subst hcs
      rw [ref_one_valid (V es) _ p [] rfl rfl (by simp) hv]
      simp [step1, fail]
    · simp [hcs]
  | removetree p =>
    obtain ⟨cs, hv⟩ := hval p (by simp [Op.paths])
    simp only [Wrap.stepOpen, Wrap.removetree, Wrap.idDelegate, hroot p cs hv]
    by_cases hcs : cs = []
    · subst hcs
      have hlist : Ref.step (V es) (.listdir p) = (V es, .ok (.names (Ents.names es))) := by
        rw [ref_one_valid (V es) _ p [] rfl rfl (by simp) hv]; simp [step1, V, Node.get, done]
      have hR : Ref.step (V es) (.removetree p) = upd (V es) (.dir []) := by
        rw [ref_one_valid (V es) _ p [] rfl rfl (by simp) hv]; simp [step1]
      simp only [decide_true, if_true, hlist, hR]
      have := rmLoop_ref_root p (validate_ok_resolve hv) es false hwf rfl
      simp only [V] at this ⊢
      rw [this]; rfl
    · simp [hcs]
  | copy a b ow =>
    obtain ⟨ca, ha⟩ := hval a (by simp [Op.paths])
    obtain ⟨cb, hb⟩ := hval b (by simp [Op.paths])
    simp only [Wrap.stepOpen, Wrap.copy, Wrap.idDelegate]
    cases ow with
    | true => simp
    | false =>
      simp only [Bool.false_eq_true, if_false, ref_exists_valid (V es) b cb rfl hb, done]
      cases hg : ((V es).root.get cb).isSome with
      | true =>
        have hR : Ref.step (V es) (.copy a b false) = fail (V es) .DestinationExists := by
          rw [ref_two_valid (V es) _ a b ca cb rfl rfl ha hb]
          simp [step2, hg]
        rw [hR]; rfl
      | false =>
        have hR : Ref.step (V es) (.copy a b false) = Ref.step (V es) (.copy a b true) := by
          rw [ref_two_valid (V es) _ a b ca cb rfl rfl ha hb, ref_two_valid (V es) _ a b ca cb rfl rfl ha hb]
          simp [step2, hg]
        rw [hR]
  | copydir a b c =>
    obtain ⟨ca, ha⟩ := hval a (by simp [Op.paths])
    obtain ⟨cb, hb⟩ := hval b (by simp [Op.paths])
    obtain ⟨_, _, _, g4⟩ := ref_copydir_guards (es := es) a b c ca cb ha hb
    have hI : Ref.step (V es) (.getinfo a) =
        (match (Node.dir es).get ca with
         | none => fail (V es) .ResourceNotFound
         | some (.file d) => done (V es) (.info (lastName ca) false d.length)
         | some (.dir _) => done (V es) (.info (lastName ca) true 0)) := by
      rw [ref_one_valid (V es) _ a ca rfl rfl (by simp) ha]
      simp only [step1, V]
      cases (Node.dir es).get ca with
      | none => rfl
      | some n => cases n <;> rfl
    have hgo : (c = true ∨ ((Node.dir es).get cb).isSome = true) →
        Wrap.copydirGo Ref.step a b (V es) = Ref.step (V es) (.copydir a b c) := by
      intro hcc
      simp only [Wrap.copydirGo, hI]
      cases hga : (Node.dir es).get ca with
      | none =>
        have hnp : isPrefix ca cb = false := by
          cases hp : isPrefix ca cb with
          | false => rfl
          | true => exact absurd ⟨ca, cb, ha, hb, hp, Or.inr (by simp [hga])⟩ hx2
        rw [(ref_copydir_noprefix a b c ca cb ha hb hnp).2.1 hcc hga]; rfl
      | some nd =>
        cases nd with
        | file d =>
          have hnp : isPrefix ca cb = false := by
            cases hp : isPrefix ca cb with
            | false => rfl
            | true => exact absurd ⟨ca, cb, ha, hb, hp, Or.inr (by simp [hga])⟩ hx2
          rw [(ref_copydir_noprefix a b c ca cb ha hb hnp).2.2 d hcc hga]; rfl
        | dir eas =>
          simp only [done]
          rw [g4 eas hga hcc]
    simp only [Wrap.stepOpen, Wrap.copydir, Wrap.idDelegate]
    cases c with
    | true => simpa using hgo (Or.inl rfl)
    | false =>
      simp only [Bool.false_eq_true, if_false, ref_exists_valid (V es) b cb rfl hb, done]
      cases hg : ((Node.dir es).get cb).isSome with
      | true =>
        have hg' : ((V es).root.get cb).isSome = true := hg
        simp only [hg']
        exact hgo (Or.inr hg)
      | false =>
        have hg' : ((V es).root.get cb).isSome = false := hg
        have hgn : (Node.dir es).get cb = none := by
          cases hh : (Node.dir es).get cb with
          | none => rfl
          | some x => simp [hh] at hg
        have hnp : isPrefix ca cb = false := by
          cases hp : isPrefix ca cb with
          | false => rfl
          | true => exact absurd ⟨ca, cb, ha, hb, hp, Or.inl ⟨rfl, hgn⟩⟩ hx2
        simp only [hg']
        rw [(ref_copydir_noprefix a b false ca cb ha hb hnp).1 rfl hgn]; rfl
  | _ => simp [Wrap.stepOpen, Wrap.direct1, Wrap.direct2, Wrap.idDelegate]

end WrapId

end Fs.WrapLemmas
