/-
  Tree-level description of what `copy_dir` (fs/copy.py) computes, phase by phase, used by
  FsProofs/BaseWalkLaws.lean.  No strings, no operations: pure functions on `Node` / `Ents`.

  `copy_dir` runs two breadth-first walks over the source: `copy_structure` (phase `struct`: every
  sub-directory is created at the destination, `makedir(recreate=True)`) and the file walk (phase `files`:
  every file is copied over the destination position).  `lvl ph es ds` is what visiting ONE source directory
  with entries `es` does to the entries `ds` of the corresponding destination directory; `recNode ph` is the
  whole sub-tree (one level, then the sub-directories in source order); `recQ` a queue of pending
  directories, given by their paths relative to source / destination root.
  `none` = a file/directory name conflict (the walk fails there).
-/
import FsModel.Ref

namespace Fs.BaseWalkSpec
open Fs Fs.Ref

inductive Phase where
  | struct | files
  deriving DecidableEq, Repr

/-- the class the walk fails with on a name conflict: `makedir(recreate=True)` on a file /
`copy(overwrite=True)` onto a directory -/
def cls : Phase → Err
  | .struct => .DirectoryExpected
  | .files => .FileExpected

/-- one source directory (entries `es`) against the destination directory (entries `ds`) -/
def lvl : Phase → Ents → Ents → Option Ents
  | _, [], ds => some ds
  | .struct, (_, .file _) :: es, ds => lvl .struct es ds
  | .struct, (k, .dir _) :: es, ds =>
    match Ents.lookup k ds with
    | none => lvl .struct es (Ents.put k (.dir []) ds)
    | some (.dir _) => lvl .struct es ds
    | some (.file _) => none
  | .files, (_, .dir _) :: es, ds => lvl .files es ds
  | .files, (k, .file b) :: es, ds =>
    match Ents.lookup k ds with
    | some (.dir _) => none
    | _ => lvl .files es (Ents.put k (.file b) ds)

/-- the sub-directories of a directory, in entry order (what the walker queues) -/
def kids : Ents → List Name
  | [] => []
  | (_, .file _) :: es => kids es
  | (k, .dir _) :: es => k :: kids es

mutual
/-- a source directory over the destination directory: this level, then every sub-directory -/
def recNode (ph : Phase) : Node → Node → Option Node
  | .dir es, .dir ds =>
    match lvl ph es ds with
    | none => none
    | some d1 => (recKids ph es d1).map .dir
  | _, _ => none
/-- the sub-directories of the source entries, each over the destination entry of its name (which must
be a directory by now) -/
def recKids (ph : Phase) : Ents → Ents → Option Ents
  | [], ds => some ds
  | (k, v) :: es, ds =>
    match v with
    | .file _ => recKids ph es ds
    | .dir _ =>
      match Ents.lookup k ds with
      | some dn =>
        (match recNode ph v dn with
         | none => none
         | some m => recKids ph es (Ents.put k m ds))
      | none => none
end

/-- process the pending directory at relative path `r`: source sub-tree `S.get r` over destination
sub-tree `D.get r` -/
def modAt (ph : Phase) (S D : Node) (r : List Name) : Option Node :=
  match S.get r, D.get r with
  | some sn, some dn => (recNode ph sn dn).map (setAt D r)
  | _, _ => none

/-- a queue of pending directories, in order -/
def recQ (ph : Phase) (S : Node) : List (List Name) → Node → Option Node
  | [], D => some D
  | r :: Q, D => (modAt ph S D r).bind (recQ ph S Q)

/-- the destination after `copy_dir` of the source directory `S` into the destination directory `D`:
structure first, then files -/
def opMerge (S D : Node) : Option Node :=
  (recNode .struct S D).bind (recNode .files S)

/-- what can be observed of a node without its entries: a file's bytes / "a directory" -/
def shallow : Node → Option Bytes
  | .file b => some b
  | .dir _ => none

/-- the two trees show the same thing at every path (names, types, bytes; entry ORDER aside) -/
def ObsEq (a b : Node) : Prop := ∀ q, (a.get q).map shallow = (b.get q).map shallow

/-- neither path is a prefix of the other -/
def Inc (p q : List Name) : Prop := ¬ p <+: q ∧ ¬ q <+: p

/-- every directory of `S` at or below `r` is a directory of `D` -/
def Cov (S D : Node) (r : List Name) : Prop :=
  ∀ x es, S.get (r ++ x) = some (.dir es) → ∃ ds, D.get (r ++ x) = some (.dir ds)

end Fs.BaseWalkSpec
