/-
  One call on FTPFS (`Ftp.step` over the modelled server) against the reference (`Ref.step1` / `step2`),
  operation by operation — the FTP counterpart of the `mem_*` lemmas of `MemLemmas` and the `os_*` lemmas of
  `OsLemmas`.
-/
import FsProofs.Lemmas.FtpModelLemmas
import FsProofs.Lemmas.QueryLemmas

namespace Fs.FtpStepLemmas
open Fs Fs.Path Fs.Ref Fs.FtpParse Fs.FtpServer Fs.Ftp Fs.FtpLemmas Fs.FtpServerLemmas Fs.FtpModelLemmas
open Fs.MemLemmas Fs.OsLemmas
set_option linter.unusedSimpArgs false
set_option linter.unusedVariables false

/-- a path argument the protocol and the listing format carry: no CR / LF in the text (the command line),
    every component a name the listing carries faithfully -/
def ArgOk (cfg : Profile) (p : Str) : Prop :=
  NoCrLf p ∧ ∀ cs, Ref.validate p = .ok cs → ∀ c ∈ cs, NameOk cfg c

theorem any_invalid_eq (p : Str) (h : NoCrLf p) : p.any isInvalidChar = p.contains '\x00' := by
  induction p with
  | nil => rfl
  | cons c r ih =>
    have hr : NoCrLf r := ⟨fun hm => h.1 (List.mem_cons_of_mem _ hm), fun hm => h.2 (List.mem_cons_of_mem _ hm)⟩
    have h1 : c ≠ '\r' := fun e => h.1 (by rw [e]; simp)
    have h2 : c ≠ '\n' := fun e => h.2 (by rw [e]; simp)
    simp only [List.any_cons, ih hr, List.contains_cons, isInvalidChar]
    have e1 : (c == '\r') = false := by simpa using h1
    have e2 : (c == '\n') = false := by simpa using h2
    have e3 : ('\x00' == c) = (c == '\x00') := BEq.comm
    rw [e1, e2, e3]
    simp

/-- FTPFS's `validatepath` is the reference's on a path without CR / LF -/
theorem validate_eq (p : Str) (h : NoCrLf p) : Ftp.validate p = Ref.validate p := by
  unfold Ftp.validate Ref.validate
  rw [any_invalid_eq p h]

theorem pathOk_of {cfg : Profile} {p : Str} {cs : List Name} (ha : ArgOk cfg p) (hv : Ref.validate p = .ok cs) :
    PathOk cfg cs :=
  ⟨TreeLemmas.validate_clean p cs hv, ha.2 cs hv⟩

theorem fvalidate_of {cfg : Profile} {p : Str} {cs : List Name} (ha : ArgOk cfg p) (hv : Ref.validate p = .ok cs) :
    Ftp.validate p = .ok cs := by rw [validate_eq p ha.1, hv]

theorem run_mapRes (X : Server) (p : Prog (Res α)) (f : α → Val) (t : Node) :
    Ftp.run X (mapRes p f) t = ((Ftp.run X p t).1, match (Ftp.run X p t).2 with
      | .ok a => .ok (f a)
      | .err e => .err e) := by
  unfold mapRes
  rw [run_bind]
  cases (Ftp.run X p t).2 <;> rfl

/-- one call on an open FTPFS over a conforming server: the FEAT exchange tells the variant, then the
    operation's program runs -/
theorem step_open {cfg : Profile} (s : State) (h : Hyp cfg s.root) (hc : s.closed = false) (op : Op)
    (hop : op ≠ .close) :
    Ftp.step (exec cfg) cfg.cy s op =
      ({ s with root := (Ftp.run (exec cfg) (opProg cfg.cy cfg.mlsd cfg.mfmt op) s.root).1 },
       (Ftp.run (exec cfg) (opProg cfg.cy cfg.mlsd cfg.mfmt op) s.root).2) := by
  have hcall : Ftp.run (exec cfg) (callProg cfg.cy op) s.root =
      Ftp.run (exec cfg) (opProg cfg.cy cfg.mlsd cfg.mfmt op) s.root := by
    unfold callProg
    rw [run_bind, run_features cfg h.conf, supports_mlst cfg h.conf, supports_mfmt cfg h.conf]
  cases op <;> first | exact absurd rfl hop | simp only [Ftp.step, hc, Bool.false_eq_true, if_false, hcall]

theorem state_eta (s : State) : ({ s with root := s.root } : State) = s := by cases s; rfl

/-! ### one-path operations, valid path -/

section
variable {cfg : Profile} (t : Node) (p : Str) (cs : List Name) (h : Hyp cfg t)
  (hv : Ref.validate p = .ok cs) (ha : ArgOk cfg p)
include h hv ha

theorem ftp_exists : Ftp.step (exec cfg) cfg.cy ⟨t, false⟩ (.exists_ p) = step1 ⟨t, false⟩ cs (.exists_ p) := by
  rw [step_open ⟨t, false⟩ h rfl _ (by simp)]
  simp only [opProg, run_mapRes, withPath, fvalidate_of ha hv, run_existsC h cs (pathOk_of ha hv), step1, done]

theorem ftp_isdir : Ftp.step (exec cfg) cfg.cy ⟨t, false⟩ (.isdir p) = step1 ⟨t, false⟩ cs (.isdir p) := by
  rw [step_open ⟨t, false⟩ h rfl _ (by simp)]
  simp only [opProg, run_mapRes, withPath, fvalidate_of ha hv, run_isdirC h cs (pathOk_of ha hv), step1, done,
    isDirAt]
  rfl

theorem ftp_isfile : Ftp.step (exec cfg) cfg.cy ⟨t, false⟩ (.isfile p) = step1 ⟨t, false⟩ cs (.isfile p) := by
  rw [step_open ⟨t, false⟩ h rfl _ (by simp)]
  simp only [opProg, run_mapRes, withPath, fvalidate_of ha hv, run_isfileC h cs (pathOk_of ha hv), step1, done,
    FtpModelLemmas.isFileAt]
  rfl

theorem ftp_listdir : Ftp.step (exec cfg) cfg.cy ⟨t, false⟩ (.listdir p) = step1 ⟨t, false⟩ cs (.listdir p) := by
  rw [step_open ⟨t, false⟩ h rfl _ (by simp)]
  simp only [opProg, run_mapRes, withPath, fvalidate_of ha hv, run_scandirC h cs (pathOk_of ha hv), step1,
    scandirSpec]
  cases hg : t.get cs with
  | none => rfl
  | some n => cases n <;> simp [done, fail, entOf, Ents.names]

theorem ftp_isempty : Ftp.step (exec cfg) cfg.cy ⟨t, false⟩ (.isempty p) = step1 ⟨t, false⟩ cs (.isempty p) := by
  rw [step_open ⟨t, false⟩ h rfl _ (by simp)]
  simp only [opProg, run_mapRes, withPath, fvalidate_of ha hv, run_isemptyC h cs (pathOk_of ha hv), step1,
    isemptySpec]
  cases hg : t.get cs with
  | none => rfl
  | some n => cases n <;> rfl

theorem ftp_getsize : Ftp.step (exec cfg) cfg.cy ⟨t, false⟩ (.getsize p) = step1 ⟨t, false⟩ cs (.getsize p) := by
  rw [step_open ⟨t, false⟩ h rfl _ (by simp)]
  simp only [opProg, run_mapRes, withPath, fvalidate_of ha hv, run_getinfoP h cs (pathOk_of ha hv), step1,
    infoSpec]
  cases hg : t.get cs with
  | none => rfl
  | some n =>
    have hd := entAt_isDir cfg cs n (root_isDir_of h hg)
    by_cases hne : cs = []
    · have := root_isDir_of h hg hne
      cases n <;> simp_all [entAt, Node.isDir, done]
    · cases n <;> simp [entAt, hne, Node.isDir, done, FtpServer.sizeOf]

theorem ftp_gettype : Ftp.step (exec cfg) cfg.cy ⟨t, false⟩ (.gettype p) = step1 ⟨t, false⟩ cs (.gettype p) := by
  rw [step_open ⟨t, false⟩ h rfl _ (by simp)]
  simp only [opProg, run_mapRes, withPath, fvalidate_of ha hv, run_getinfoP h cs (pathOk_of ha hv), step1,
    infoSpec]
  cases hg : t.get cs with
  | none => rfl
  | some n =>
    by_cases hne : cs = []
    · have := root_isDir_of h hg hne
      cases n <;> simp_all [entAt, Node.isDir, done]
    · cases n <;> simp [entAt, hne, Node.isDir, done]

theorem ftp_getinfo : Ftp.step (exec cfg) cfg.cy ⟨t, false⟩ (.getinfo p) = step1 ⟨t, false⟩ cs (.getinfo p) := by
  rw [step_open ⟨t, false⟩ h rfl _ (by simp)]
  simp only [opProg, run_mapRes, withPath, fvalidate_of ha hv, run_getinfoP h cs (pathOk_of ha hv), step1,
    infoSpec]
  cases hg : t.get cs with
  | none => rfl
  | some n =>
    by_cases hne : cs = []
    · have := root_isDir_of h hg hne
      cases n <;> simp_all [entAt, Node.isDir, done, lastName]
    · cases n <;> simp [entAt, hne, Node.isDir, done, lastName, FtpServer.sizeOf]

theorem ftp_readbytes : Ftp.step (exec cfg) cfg.cy ⟨t, false⟩ (.readbytes p) = step1 ⟨t, false⟩ cs (.readbytes p) := by
  rw [step_open ⟨t, false⟩ h rfl _ (by simp)]
  simp only [opProg, run_mapRes, readbytes, fvalidate_of ha hv, run_readbytesC h cs (pathOk_of ha hv), step1,
    readSpec]
  cases hg : t.get cs with
  | none => rfl
  | some n => cases n <;> rfl

theorem ftp_settimes : Ftp.step (exec cfg) cfg.cy ⟨t, false⟩ (.settimes p) = step1 ⟨t, false⟩ cs (.settimes p) := by
  rw [step_open ⟨t, false⟩ h rfl _ (by simp)]
  simp only [opProg, run_mapRes, run_setinfo h cs (pathOk_of ha hv) p _ rfl (fvalidate_of ha hv), step1,
    setinfoSpec]
  cases (t.get cs).isSome <;> rfl

theorem ftp_makedir (r : Bool) : Ftp.step (exec cfg) cfg.cy ⟨t, false⟩ (.makedir p r) = step1 ⟨t, false⟩ cs (.makedir p r) := by
  rw [step_open ⟨t, false⟩ h rfl _ (by simp)]
  simp only [opProg, run_mapRes, run_makedirC h cs (pathOk_of ha hv) r p (fvalidate_of ha hv), step1, makedirSpec,
    parentOf]
  rcases sit t cs with hr | ⟨hne, hpa, hg⟩ | ⟨b, hne, hpa, hg⟩ | ⟨es, hne, hpa, hl, hg⟩ | ⟨es, n, hne, hpa, hl, hg⟩
  · subst hr; cases r <;> simp [done, fail]
  · simp [hne, hpa, fail]
  · simp [hne, hpa, fail]
  · simp [hne, hpa, hl, hg, upd]
  · cases n <;> cases r <;> simp [hne, hpa, hl, hg, done, fail]

theorem ftp_writebytes (d : Bytes) :
    Ftp.step (exec cfg) cfg.cy ⟨t, false⟩ (.writebytes p d) = step1 ⟨t, false⟩ cs (.writebytes p d) := by
  rw [step_open ⟨t, false⟩ h rfl _ (by simp)]
  simp only [opProg, run_mapRes, writebytes, fvalidate_of ha hv, run_uploadC h cs (pathOk_of ha hv), step1,
    writeSpec, writeFile, parentOf]
  rcases sit t cs with hr | ⟨hne, hpa, hg⟩ | ⟨b, hne, hpa, hg⟩ | ⟨es, hne, hpa, hl, hg⟩ | ⟨es, n, hne, hpa, hl, hg⟩
  · subst hr; simp [fail]
  · simp [hne, hpa, fail]
  · simp [hne, hpa, fail]
  · simp [hne, hpa, hl, hg, upd]
  · cases n <;> simp [hne, hpa, hl, hg, upd, fail]

theorem ftp_appendbytes (d : Bytes) :
    Ftp.step (exec cfg) cfg.cy ⟨t, false⟩ (.appendbytes p d) = step1 ⟨t, false⟩ cs (.appendbytes p d) := by
  rw [step_open ⟨t, false⟩ h rfl _ (by simp)]
  simp only [opProg, run_mapRes, run_appendbytes h cs (pathOk_of ha hv) p d (fvalidate_of ha hv), step1,
    writeSpec, writeFile, parentOf]
  rcases sit t cs with hr | ⟨hne, hpa, hg⟩ | ⟨b, hne, hpa, hg⟩ | ⟨es, hne, hpa, hl, hg⟩ | ⟨es, n, hne, hpa, hl, hg⟩
  · subst hr; simp [fail]
  · simp [hne, hpa, fail]
  · simp [hne, hpa, fail]
  · simp [hne, hpa, hl, hg, upd]
  · cases n <;> simp [hne, hpa, hl, hg, upd, fail]

theorem ftp_create (w : Bool) : Ftp.step (exec cfg) cfg.cy ⟨t, false⟩ (.create p w) = step1 ⟨t, false⟩ cs (.create p w) := by
  rw [step_open ⟨t, false⟩ h rfl _ (by simp)]
  simp only [opProg, run_mapRes, run_create h cs (pathOk_of ha hv) p w (fvalidate_of ha hv), step1, createSpec,
    writeSpec, writeFile, parentOf]
  rcases sit t cs with hr | ⟨hne, hpa, hg⟩ | ⟨b, hne, hpa, hg⟩ | ⟨es, hne, hpa, hl, hg⟩ | ⟨es, n, hne, hpa, hl, hg⟩
  · subst hr
    obtain ⟨res, hroot⟩ := root_dir h.isDir
    cases w <;> simp [hroot, Node.get, done, fail]
  · cases w <;> simp [hne, hpa, hg, fail]
  · cases w <;> simp [hne, hpa, hg, fail]
  · cases w <;> simp [hne, hpa, hl, hg, upd]
  · cases n <;> cases w <;> simp [hne, hpa, hl, hg, upd, done, fail]

theorem ftp_touch : Ftp.step (exec cfg) cfg.cy ⟨t, false⟩ (.touch p) = step1 ⟨t, false⟩ cs (.touch p) := by
  rw [step_open ⟨t, false⟩ h rfl _ (by simp)]
  simp only [opProg, run_mapRes, run_touch h cs (pathOk_of ha hv) p _ rfl (fvalidate_of ha hv), step1, touchSpec,
    writeSpec, writeFile, parentOf]
  rcases sit t cs with hr | ⟨hne, hpa, hg⟩ | ⟨b, hne, hpa, hg⟩ | ⟨es, hne, hpa, hl, hg⟩ | ⟨es, n, hne, hpa, hl, hg⟩
  · subst hr
    obtain ⟨res, hroot⟩ := root_dir h.isDir
    simp [hroot, Node.get, done]
  · simp [hne, hpa, hg, fail]
  · simp [hne, hpa, hg, fail]
  · simp [hne, hpa, hl, hg, upd]
  · simp [hne, hpa, hl, hg, done]

theorem ftp_remove : Ftp.step (exec cfg) cfg.cy ⟨t, false⟩ (.remove p) = step1 ⟨t, false⟩ cs (.remove p) := by
  rw [step_open ⟨t, false⟩ h rfl _ (by simp)]
  simp only [opProg, run_mapRes, remove, fvalidate_of ha hv, run_removeC h cs (pathOk_of ha hv), step1, removeSpec]
  by_cases hne : cs = []
  · subst hne
    obtain ⟨res, hroot⟩ := root_dir h.isDir
    simp [hroot, Node.get, fail]
  · simp only [hne, if_false]
    cases hg : t.get cs with
    | none => simp [fail]
    | some n => cases n <;> simp [fail, upd]

theorem ftp_removedir : Ftp.step (exec cfg) cfg.cy ⟨t, false⟩ (.removedir p) = step1 ⟨t, false⟩ cs (.removedir p) := by
  rw [step_open ⟨t, false⟩ h rfl _ (by simp)]
  simp only [opProg, run_mapRes, removedir, fvalidate_of ha hv, run_removedirC h cs (pathOk_of ha hv), step1,
    removedirSpec]
  by_cases hne : cs = []
  · simp [hne, fail]
  · simp only [hne, if_false]
    cases hg : t.get cs with
    | none => simp [fail]
    | some n =>
      cases n with
      | file b => simp [fail]
      | dir es => cases es <;> simp [fail, upd]

theorem ftp_removetree : Ftp.step (exec cfg) cfg.cy ⟨t, false⟩ (.removetree p) = step1 ⟨t, false⟩ cs (.removetree p) := by
  rw [step_open ⟨t, false⟩ h rfl _ (by simp)]
  simp only [opProg, run_mapRes, run_removetree h cs (pathOk_of ha hv) p (fvalidate_of ha hv), step1, removetreeSpec]
  by_cases hne : cs = []
  · subst hne
    obtain ⟨res, hroot⟩ := root_dir h.isDir
    simp [hroot, Node.get, upd]
  · simp only [hne, if_false]
    cases hg : t.get cs with
    | none => simp [fail]
    | some n => cases n <;> simp [fail, upd]

theorem ftp_openbin (mode : Str) (md : Mode) (hm : parseBinMode mode = some md) :
    Ftp.step (exec cfg) cfg.cy ⟨t, false⟩ (.openbin p mode) = step1 ⟨t, false⟩ cs (.openbin p mode) := by
  rw [step_open ⟨t, false⟩ h rfl _ (by simp)]
  simp only [opProg, run_mapRes, run_openbin h cs (pathOk_of ha hv) p mode md hm (fvalidate_of ha hv), step1, hm,
    openbinSpec, parentOf]
  rcases sit t cs with hr | ⟨hne, hpa, hg⟩ | ⟨b, hne, hpa, hg⟩ | ⟨es, hne, hpa, hl, hg⟩ | ⟨es, n, hne, hpa, hl, hg⟩
  · subst hr; simp [fail]
  · simp [hne, hpa, fail]
  · simp [hne, hpa, fail]
  · cases hcr : md.create <;> simp [hne, hpa, hl, hg, hcr, upd, fail]
  · cases n with
    | dir ds => simp [hne, hpa, hl, hg, fail]
    | file b =>
      cases hex : md.exclusive <;> cases htr : md.truncate <;>
        simp [hne, hpa, hl, hg, hex, htr, upd, done, fail]

end

theorem entAt_eq (cfg : Profile) (cs : List Name) (n : Node) (hd : cs = [] → n.isDir = true) :
    entAt cfg cs n = ((entAt cfg cs n).1, n.isDir, (entAt cfg cs n).2.2) := by
  have := entAt_isDir cfg cs n hd
  rw [← this]

/-! ### `makedirs` = MemoryFS's (the same base-class code over an equivalent `getinfo` / `makedir`) -/

theorem makedirSpec_step1 (t : Node) (p : Str) (cs : List Name) (rc : Bool) :
    ((⟨(makedirSpec t cs rc).1, false⟩ : State), unitVal (makedirSpec t cs rc).2) =
      step1 ⟨t, false⟩ cs (.makedir p rc) := by
  simp only [step1, makedirSpec, parentOf]
  rcases sit t cs with hr | ⟨hne, hpa, hg⟩ | ⟨b, hne, hpa, hg⟩ | ⟨es, hne, hpa, hl, hg⟩ | ⟨es, n, hne, hpa, hl, hg⟩
  · subst hr; cases rc <;> simp [done, fail, unitVal]
  · simp [hne, hpa, fail, unitVal]
  · simp [hne, hpa, fail, unitVal]
  · simp [hne, hpa, hl, hg, upd, unitVal]
  · cases n <;> cases rc <;> simp [hne, hpa, hl, hg, done, fail, unitVal]

theorem pathOk_take {cfg : Profile} {cs : List Name} (hp : PathOk cfg cs) (i : Nat) : PathOk cfg (cs.take i) :=
  ⟨fun c hc => hp.clean c (List.mem_of_mem_take hc), fun c hc => hp.name c (List.mem_of_mem_take hc)⟩

theorem run_interGo {cfg : Profile} {t : Node} (h : Hyp cfg t) : ∀ (L acc : List (List Name)),
    (∀ d ∈ L, PathOk cfg d) →
    Ftp.run (exec cfg) (interGo cfg.cy cfg.mlsd L acc) t = (t, Mem.intermediateDirs.go ⟨t, false⟩ L acc) := by
  intro L
  induction L with
  | nil => intro acc _; simp [interGo, go_nil]
  | cons pre rest ih =>
    intro acc hL
    have hp := hL pre (by simp)
    simp only [interGo, run_bind, run_getinfoP h pre hp, infoSpec]
    cases hg : t.get pre with
    | none =>
      rw [go_cons_none ⟨t, false⟩ pre rest acc hg]
      exact ih _ (fun d hd => hL d (by simp [hd]))
    | some n =>
      simp only []
      rw [entAt_eq cfg pre n (root_isDir_of h hg)]
      cases n with
      | file b => rw [go_cons_file ⟨t, false⟩ pre rest acc b hg]; simp [Node.isDir]
      | dir es => rw [go_cons_dir ⟨t, false⟩ pre rest acc es hg]; simp [Node.isDir]

theorem go_members (s : State) : ∀ (L acc r : List (List Name)), Mem.intermediateDirs.go s L acc = .ok r →
    ∀ d ∈ r, d ∈ L ∨ d ∈ acc := by
  intro L
  induction L with
  | nil => intro acc r hr d hd; rw [go_nil] at hr; cases hr; exact Or.inr hd
  | cons pre rest ih =>
    intro acc r hr d hd
    cases hg : s.root.get pre with
    | none =>
      rw [go_cons_none s pre rest acc hg] at hr
      rcases ih _ _ hr d hd with h | h
      · exact Or.inl (List.mem_cons_of_mem _ h)
      · rcases List.mem_cons.1 h with rfl | h'
        · exact Or.inl (by simp)
        · exact Or.inr h'
    | some n =>
      cases n with
      | file b => rw [go_cons_file s pre rest acc b hg] at hr; cases hr
      | dir es => rw [go_cons_dir s pre rest acc es hg] at hr; cases hr; exact Or.inr hd

theorem hyp_foldl {cfg : Profile} (dirs : List (List Name)) (hd : ∀ d ∈ dirs, PathOk cfg d) :
    ∀ (t : Node), Hyp cfg t → Hyp cfg (dirs.foldl (fun t d => Node.set d t (Node.dir [])) t) := by
  induction dirs with
  | nil => intro t h; exact h
  | cons d ds ih =>
    intro t h
    simp only [List.foldl_cons]
    exact ih (fun x hx => hd x (by simp [hx])) _ (hyp_set h d (hd d (by simp)) _ rfl (treeOk_emptyDir cfg))

theorem mem_opendirCheck (t : Node) (p : Str) (cs : List Name) (hv : Ref.validate p = .ok cs) :
    Mem.opendirCheck ⟨t, false⟩ p = opendirSpec t cs := by
  simp only [Mem.opendirCheck, Mem.getinfo, Mem.vpath, hv, opendirSpec, Bool.false_eq_true, if_false]
  cases hg : t.get cs with
  | none => rfl
  | some n => cases n <;> rfl

/-- `FS.makedirs` over FTPFS computes what it computes over MemoryFS (run level: tree and verdict) -/
theorem run_makedirs_mem {cfg : Profile} (t : Node) (p : Str) (cs : List Name) (h : Hyp cfg t)
    (hv : Ref.validate p = .ok cs) (ha : ArgOk cfg p) (r : Bool) :
    ((⟨(Ftp.run (exec cfg) (makedirs cfg.cy cfg.mlsd p r) t).1, false⟩ : State),
      unitVal (Ftp.run (exec cfg) (makedirs cfg.cy cfg.mlsd p r) t).2) = Mem.makedirs ⟨t, false⟩ p r := by
  have hp := pathOk_of ha hv
  have hL : ∀ d ∈ ((List.range (cs.length + 1)).reverse.map fun i => cs.take i), PathOk cfg d := by
    intro d hd
    obtain ⟨i, _, rfl⟩ := List.mem_map.1 hd
    exact pathOk_take hp i
  simp only [makedirs, fvalidate_of ha hv, run_bind, intermediateDirs, run_interGo h _ [] hL,
    Mem.makedirs, Bool.false_eq_true, if_false, hv, Mem.intermediateDirs]
  cases hgo : Mem.intermediateDirs.go ⟨t, false⟩ ((List.range (cs.length + 1)).reverse.map fun i => cs.take i) [] with
  | err e => simp [fail, unitVal]
  | ok l =>
    have hdirs : ∀ d ∈ l.dropLast, PathOk cfg d := by
      intro d hd
      rcases go_members _ _ _ _ hgo d (List.dropLast_subset _ hd) with hm | hm
      · exact hL d hm
      · cases hm
    have h1 := hyp_foldl l.dropLast hdirs t h
    simp only [run_ret, Ftp.run]
    generalize ht1 : (l.dropLast.foldl (fun t d => Node.set d t (Node.dir [])) t) = t1 at h1
    have hmem : Mem.makedir ⟨t1, false⟩ p false = step1 ⟨t1, false⟩ cs (.makedir p false) := by
      have := mem_makedir ⟨t1, false⟩ p cs rfl hv false
      simpa [Mem.step] using this
    rw [run_bind, run_makedirC h1 cs hp false p (fvalidate_of ha hv), hmem, ← makedirSpec_step1 t1 p cs false]
    have h2 : Hyp cfg (makedirSpec t1 cs false).1 := by
      unfold makedirSpec
      repeat' split
      all_goals first | exact h1 | exact hyp_set h1 cs hp _ rfl (treeOk_emptyDir cfg)
    cases hms : (makedirSpec t1 cs false).2 with
    | ok u => cases u; simp [unitVal, done]
    | err e =>
      cases e <;> simp [unitVal, fail]
      cases r <;> simp [run_opendirC h2 cs hp, mem_opendirCheck _ p cs hv, fail, done]
      cases opendirSpec (makedirSpec t1 cs false).1 cs <;> simp

theorem ftp_makedirs_eq_mem {cfg : Profile} (t : Node) (p : Str) (cs : List Name) (h : Hyp cfg t)
    (hv : Ref.validate p = .ok cs) (ha : ArgOk cfg p) (r : Bool) :
    Ftp.step (exec cfg) cfg.cy ⟨t, false⟩ (.makedirs p r) = Mem.makedirs ⟨t, false⟩ p r := by
  rw [step_open ⟨t, false⟩ h rfl _ (by simp), ← run_makedirs_mem t p cs h hv ha r]
  simp only [opProg, run_mapRes]
  cases (Ftp.run (exec cfg) (makedirs cfg.cy cfg.mlsd p r) t).2 with
  | ok u => cases u; rfl
  | err e => rfl

/-! ### two-path operations, valid paths -/

def mdRb : Mode := ⟨true, false, false, false, false, false⟩

theorem openbin_rb_spec (t : Node) (hd : t.isDir = true) (cs : List Name) :
    openbinSpec t cs mdRb = (t, match t.get cs with
      | none => .err .ResourceNotFound
      | some (.dir _) => .err .FileExpected
      | some (.file _) => .ok cs) := by
  unfold openbinSpec mdRb
  rcases sit t cs with hr | ⟨hne, hpa, hg⟩ | ⟨b, hne, hpa, hg⟩ | ⟨es, hne, hpa, hl, hg⟩ | ⟨es, n, hne, hpa, hl, hg⟩
  · subst hr
    obtain ⟨res, hroot⟩ := root_dir hd
    simp [hroot, Node.get]
  · simp [hne, hpa, hg]
  · simp [hne, hpa, hg]
  · simp [hne, hpa, hl, hg]
  · cases n <;> simp [hne, hpa, hl, hg]

theorem run_existsOpt {cfg : Profile} {t : Node} (h : Hyp cfg t) (b : List Name) (hp : PathOk cfg b) (o : Bool) :
    Ftp.run (exec cfg) (if o then (Prog.ret (Res.ok false) : Prog (Res Bool)) else existsC cfg.cy cfg.mlsd b) t =
      (t, .ok (!o && (t.get b).isSome)) := by
  cases o <;> simp [run_existsC h b hp]

section
variable {cfg : Profile} (t : Node) (sp dp : Str) (a b : List Name) (h : Hyp cfg t)
  (hva : Ref.validate sp = .ok a) (hvb : Ref.validate dp = .ok b) (haa : ArgOk cfg sp) (hab' : ArgOk cfg dp)
include h hva hvb haa hab'

/-- `FS.copy` over FTPFS is the reference's `copy`, check for check -/
theorem ftp_copy (o : Bool) :
    Ftp.step (exec cfg) cfg.cy ⟨t, false⟩ (.copy sp dp o) = step2 ⟨t, false⟩ a b (.copy sp dp o) := by
  have hpa := pathOk_of haa hva
  have hpb := pathOk_of hab' hvb
  rw [step_open ⟨t, false⟩ h rfl _ (by simp)]
  simp only [opProg, run_mapRes, copy, fvalidate_of haa hva, fvalidate_of hab' hvb, run_bind, run_existsOpt h b hpb,
    step2, parentOf]
  by_cases h1 : (!o && (t.get b).isSome) = true
  · simp [h1, fail]
  · simp only [Bool.not_eq_true] at h1
    simp only [h1, Bool.false_eq_true, if_false]
    by_cases hab : a = b
    · simp [hab, fail]
    · simp only [hab, if_false, run_bind, run_openbin h a hpa sp _ _ mode_rb (fvalidate_of haa hva)]
      rw [show (⟨true, false, false, false, false, false⟩ : Mode) = mdRb from rfl, openbin_rb_spec t h.isDir a]
      cases hga : t.get a with
      | none => simp [fail]
      | some n =>
        cases n with
        | dir ds => simp [fail]
        | file data =>
          simp only [run_ret, run_bind, run_readbytesC h a hpa, readSpec, hga, run_uploadC h b hpb, writeSpec]
          rcases sit t b with hr | ⟨hne, hpp, hg⟩ | ⟨x, hne, hpp, hg⟩ | ⟨es, hne, hpp, hl, hg⟩ | ⟨es, n, hne, hpp, hl, hg⟩
          · subst hr; simp [fail]
          · simp [hne, hpp, fail]
          · simp [hne, hpp, fail]
          · simp [hne, hpp, hl, hg, upd]
          · cases n <;> simp [hne, hpp, hl, hg, upd, fail]

/-- `FS.move` over FTPFS: the reference's `move`, except that the destination is looked at first — when
    both fail, with a class that is truthful too -/
theorem ftp_move (o : Bool) :
    Agree (adm2 t a b (.move sp dp o)) ⟨t, false⟩ (Ftp.step (exec cfg) cfg.cy ⟨t, false⟩ (.move sp dp o))
      (step2 ⟨t, false⟩ a b (.move sp dp o)) := by
  have hpa := pathOk_of haa hva
  have hpb := pathOk_of hab' hvb
  obtain ⟨res, hr⟩ := root_dir h.isDir
  have hroot : t.get [] = some (.dir res) := by simp [hr, Node.get]
  rw [step_open ⟨t, false⟩ h rfl _ (by simp)]
  simp only [opProg, run_mapRes, move, fvalidate_of haa hva, fvalidate_of hab' hvb, run_bind, run_existsOpt h b hpb,
    step2, parentOf]
  by_cases h1 : (!o && (t.get b).isSome) = true
  · have hadm : Err.DestinationExists ∈ adm2 t a b (.move sp dp o) := by
      cases o
      · simp only [Bool.not_false, Bool.true_and] at h1
        cases hgb : t.get b with
        | none => rw [hgb] at h1; cases h1
        | some n => cases n <;> simp [adm2, kindAt, hgb]
      · simp at h1
    simp only [h1]
    cases hga : t.get a with
    | none => exact agree_of_fails _ _ .DestinationExists _ _ (by simp) (by simp [fail, Res.isOk]) hadm
    | some n =>
      cases n with
      | dir ds => exact agree_of_fails _ _ .DestinationExists _ _ (by simp) (by simp [fail, Res.isOk]) hadm
      | file data => left; simp [fail]
  · simp only [Bool.not_eq_true] at h1
    simp only [h1, Bool.false_eq_true, if_false, run_bind, run_getinfoP h a hpa, infoSpec]
    left
    cases hga : t.get a with
    | none => simp [fail]
    | some n =>
      have hane : n.isDir = false → a ≠ [] := by
        intro hf e; subst e; rw [hroot] at hga; cases hga; cases hf
      simp only []
      rw [entAt_eq cfg a n (root_isDir_of h hga)]
      cases n with
      | dir ds => simp [Node.isDir, fail]
      | file data =>
        have hne := hane rfl
        simp only [Node.isDir]
        by_cases hab : a = b
        · simp [hab, done]
        · simp only [hab, if_false, run_bind, run_openbin h a hpa sp _ _ mode_rb (fvalidate_of haa hva)]
          rw [show (⟨true, false, false, false, false, false⟩ : Mode) = mdRb from rfl, openbin_rb_spec t h.isDir a]
          simp only [hga, run_ret, run_bind, run_readbytesC h a hpa, readSpec, run_uploadC h b hpb, writeSpec]
          have hsz : SizeOk (.file data) := (h.ok a _ hga).2
          have hmoved : ∀ es, t.get b.dropLast = some (.dir es) → b ≠ [] → (∀ ds, t.get b ≠ some (.dir ds)) →
              Ftp.run (exec cfg) (removeC cfg.cy cfg.mlsd a) (t.set b (.file data)) =
                ((t.set b (.file data)).del a, .ok ()) := by
            intro es hpp hbne hnd
            have h' : Hyp cfg (t.set b (.file data)) := hyp_set h b hpb _ rfl (treeOk_file cfg data hsz)
            have hnba : ¬ b <+: a := by
              intro hpre
              obtain ⟨ds, hds⟩ := TreeLemmas.get_proper_prefix_dir hpre (fun e => hab e.symm) hga
              exact hnd ds hds
            have hga' : (t.set b (.file data)).get a = some (.file data) :=
              TreeLemmas.get_set_file b a t _ data hga hnba
            rw [run_removeC h' a hpa]
            simp [removeSpec, hga']
          rcases sit t b with hr | ⟨hne', hpp, hg⟩ | ⟨x, hne', hpp, hg⟩ | ⟨es, hne', hpp, hl, hg⟩ | ⟨es, n, hne', hpp, hl, hg⟩
          · subst hr; simp [fail]
          · simp [hne', hpp, fail]
          · simp [hne', hpp, fail]
          · simp [hne', hpp, hl, hg, upd, hmoved es hpp hne' (by simp [hg])]
          · cases n with
            | dir ds => simp [hne', hpp, hl, hg, fail]
            | file x => simp [hne', hpp, hl, hg, upd, hmoved es hpp hne' (by simp [hg])]

end

/-! ### `copydir` -/

/-- creating the missing directories along one path leaves every other existing resource alone -/
theorem mkdirs_get_other (a : List Name) (n : Node) : ∀ (cs pre : List Name) (t : Node),
    t.get a = some n → ¬ a <+: pre ++ cs → (mkdirs pre cs t).get a = some n := by
  intro cs
  induction cs with
  | nil => intro pre t hg _; exact hg
  | cons c cs ih =>
    intro pre t hg hn
    simp only [mkdirs]
    have e : pre ++ c :: cs = (pre ++ [c]) ++ cs := by simp
    apply ih (pre ++ [c]) _ _ (by rw [← e]; exact hn)
    cases hh : t.get (pre ++ [c]) with
    | some x => exact hg
    | none =>
      simp only []
      have h1 : ¬ (pre ++ [c]) <+: a := by
        intro hpre
        obtain ⟨x, hx⟩ := TreeLemmas.get_prefix_exists hpre hg
        rw [hh] at hx; cases hx
      have h2 : ¬ a <+: (pre ++ [c]) := by
        intro hpre
        apply hn
        rw [e]
        exact List.IsPrefix.trans hpre (List.prefix_append _ _)
      rw [get_set_other a (pre ++ [c]) t _ h1 h2]; exact hg

theorem run_existsOptT {cfg : Profile} {t : Node} (h : Hyp cfg t) (b : List Name) (hp : PathOk cfg b) (c : Bool) :
    Ftp.run (exec cfg) (if c then (Prog.ret (Res.ok true) : Prog (Res Bool)) else existsC cfg.cy cfg.mlsd b) t =
      (t, .ok (c || (t.get b).isSome)) := by
  cases c <;> simp [run_existsC h b hp]

section
variable {cfg : Profile} (t : Node) (sp dp : Str) (a b : List Name) (h : Hyp cfg t)
  (hva : Ref.validate sp = .ok a) (hvb : Ref.validate dp = .ok b) (haa : ArgOk cfg sp) (hab' : ArgOk cfg dp)
include h hva hvb haa hab'

/-- `FS.copydir` over FTPFS is the reference's `copydir` -/
theorem ftp_copydir (c : Bool) :
    Ftp.step (exec cfg) cfg.cy ⟨t, false⟩ (.copydir sp dp c) = step2 ⟨t, false⟩ a b (.copydir sp dp c) := by
  have hpa := pathOk_of haa hva
  have hpb := pathOk_of hab' hvb
  have hmk := run_makedirs_mem t dp b h hvb hab' true
  rw [step_open ⟨t, false⟩ h rfl _ (by simp)]
  simp only [opProg, run_mapRes, copydir, fvalidate_of haa hva, fvalidate_of hab' hvb, step2]
  by_cases hpre : isPrefix a b = true
  · simp [hpre, fail]
  · simp only [hpre, if_false, Bool.false_eq_true, run_bind, run_existsOptT h b hpb, run_getinfoP h a hpa, infoSpec]
    cases hgb : t.get b with
    | none =>
      cases c
      · simp [fail]
      · simp only [Bool.true_or, Bool.not_true, Bool.false_eq_true, if_false, run_bind, run_getinfoP h a hpa, infoSpec]
        cases hga : t.get a with
        | none => simp [fail]
        | some n =>
          simp only []
          rw [entAt_eq cfg a n (root_isDir_of h hga)]
          cases n with
          | file x => simp [Node.isDir, fail]
          | dir es =>
            simp only [Node.isDir, run_bind]
            cases hbl : blockedByFile t [] b
            · have hes : entsWf es = true := ents_wf h.wf hga
              have hbne : b ≠ [] := by rintro rfl; simp [Node.get] at hgb
              rw [makedirs_new ⟨t, false⟩ dp b rfl hvb h.isDir true hbl hgb] at hmk
              simp only [upd, Prod.mk.injEq, State.mk.injEq, and_true] at hmk
              obtain ⟨ht1, hr1⟩ := hmk
              have hr1' : (Ftp.run (exec cfg) (makedirs cfg.cy cfg.mlsd dp true) t).2 = .ok () := by
                cases hx : (Ftp.run (exec cfg) (makedirs cfg.cy cfg.mlsd dp true) t).2 with
                | ok u => rfl
                | err e => rw [hx] at hr1; simp [unitVal] at hr1
              have hnab : ¬ a <+: [] ++ b := by
                simpa using fun hh => hpre ((TreeLemmas.isPrefix_iff a b).2 hh)
              have hm : mergeDir a b (mkdirs [] b t) = some ((mkdirs [] b t).set b (.dir es)) := by
                simp only [mergeDir, mkdirs_get_other a _ b [] t hga hnab,
                  mkdirs_new_get ⟨t, false⟩ dp b rfl hvb h.isDir hbl hgb,
                  mergeEnts_fresh es [] hes (fun _ _ => rfl), List.nil_append, Option.map_some, setAt, hbne, if_false]
              simp [hr1', ht1, Ftp.run, hm, upd]
            · rw [makedirs_blocked ⟨t, false⟩ dp b rfl hvb h.isDir true (Or.inl hbl)] at hmk
              simp only [fail, Prod.mk.injEq, State.mk.injEq, and_true] at hmk
              obtain ⟨ht1, hr1⟩ := hmk
              cases hx : (Ftp.run (exec cfg) (makedirs cfg.cy cfg.mlsd dp true) t).2 with
              | ok u => rw [hx] at hr1; cases u; simp [unitVal] at hr1
              | err e =>
                rw [hx] at hr1
                simp only [unitVal, Res.err.injEq] at hr1
                simp [hr1, ht1, fail]
    | some n =>
      cases n with
      | file x =>
        simp only [Option.isSome_some, Bool.or_true, run_bind, run_getinfoP h a hpa, infoSpec]
        cases hga : t.get a with
        | none => simp [fail]
        | some n =>
          simp only []
          rw [entAt_eq cfg a n (root_isDir_of h hga)]
          cases n with
          | file y => simp [Node.isDir, fail]
          | dir es =>
            simp only [Node.isDir, run_bind]
            rw [makedirs_blocked ⟨t, false⟩ dp b rfl hvb h.isDir true (Or.inr (isFileAt_of_file hgb))] at hmk
            simp only [fail, Prod.mk.injEq, State.mk.injEq, and_true] at hmk
            obtain ⟨ht1, hr1⟩ := hmk
            cases hx : (Ftp.run (exec cfg) (makedirs cfg.cy cfg.mlsd dp true) t).2 with
            | ok u => rw [hx] at hr1; cases u; simp [unitVal] at hr1
            | err e =>
              rw [hx] at hr1
              simp only [unitVal, Res.err.injEq] at hr1
              simp [hr1, ht1, fail]
      | dir ds =>
        simp only [Option.isSome_some, Bool.or_true, run_bind, run_getinfoP h a hpa, infoSpec]
        cases hga : t.get a with
        | none => simp [fail]
        | some n =>
          simp only []
          rw [entAt_eq cfg a n (root_isDir_of h hga)]
          cases n with
          | file y => simp [Node.isDir, fail]
          | dir es =>
            simp only [Node.isDir, run_bind]
            rw [makedirs_dir ⟨t, false⟩ dp b rfl hvb h.isDir true ds hgb] at hmk
            simp only [if_true, done, Prod.mk.injEq, State.mk.injEq, and_true] at hmk
            obtain ⟨ht1, hr1⟩ := hmk
            have hr1' : (Ftp.run (exec cfg) (makedirs cfg.cy cfg.mlsd dp true) t).2 = .ok () := by
              cases hx : (Ftp.run (exec cfg) (makedirs cfg.cy cfg.mlsd dp true) t).2 with
              | ok u => rfl
              | err e => rw [hx] at hr1; simp [unitVal] at hr1
            simp only [hr1', ht1, Ftp.run, mergeDir, hga, hgb]
            cases mergeEnts es ds <;> simp [fail, upd]

end

/-! ### `movedir` (base-class `move_dir`) -/

section
variable {cfg : Profile} (t : Node) (sp dp : Str) (a b : List Name) (h : Hyp cfg t)
  (hva : Ref.validate sp = .ok a) (hvb : Ref.validate dp = .ok b) (haa : ArgOk cfg sp) (hab' : ArgOk cfg dp)
include h hva hvb haa hab'

/-- after the destination holds the merged entries, `removetree(src)` takes the source away -/
theorem removetree_src (t2 : Node) (h2 : Hyp cfg t2) (es : Ents) (hane : a ≠ [])
    (hga : t2.get a = some (.dir es)) :
    Ftp.run (exec cfg) (removetree cfg.cy cfg.mlsd sp) t2 = (t2.del a, .ok ()) := by
  rw [run_removetree h2 a (pathOk_of haa hva) sp (fvalidate_of haa hva)]
  simp [removetreeSpec, hga, hane]

theorem ftp_movedir (c : Bool) (hk : ¬ (b <+: a ∧ a ≠ b)) :
    Agree (adm2 t a b (.movedir sp dp c)) ⟨t, false⟩ (Ftp.step (exec cfg) cfg.cy ⟨t, false⟩ (.movedir sp dp c))
      (step2 ⟨t, false⟩ a b (.movedir sp dp c)) := by
  have hpa := pathOk_of haa hva
  have hpb := pathOk_of hab' hvb
  rw [step_open ⟨t, false⟩ h rfl _ (by simp)]
  simp only [opProg, run_mapRes, movedir, fvalidate_of haa hva, fvalidate_of hab' hvb, step2, parentOf]
  by_cases hab : a = b
  · left; simp [hab, done]
  · by_cases hpre : Ref.isPrefix a b = true
    · left; simp [hab, hpre, fail]
    · have hnab : ¬ a <+: b := fun hh => hpre ((TreeLemmas.isPrefix_iff a b).2 hh)
      have hnba : ¬ b <+: a := fun hh => hk ⟨hh, hab⟩
      have hane : a ≠ [] := by rintro rfl; exact hnab List.nil_prefix
      have hbne : b ≠ [] := by rintro rfl; exact hnba List.nil_prefix
      simp only [hab, hpre, if_false, Bool.false_eq_true, run_bind, run_existsOptT h b hpb]
      cases hga : t.get a with
      | none =>
        left
        cases hcb : (c || (t.get b).isSome)
        · simp [fail]
        · simp [run_bind, run_getinfoP h a hpa, infoSpec, hga, fail]
      | some n =>
        rcases n with data | es
        · cases hcb : (c || (t.get b).isSome)
          · simp only [Bool.or_eq_false_iff] at hcb
            have hgb : t.get b = none := by
              cases hh : t.get b with
              | none => rfl
              | some x => rw [hh] at hcb; simp at hcb
            refine agree_of_fails _ _ .ResourceNotFound _ _ (by simp) (by simp [fail, Res.isOk]) ?_
            simp [adm2, hab, kindAt, hgb, hcb.1]
          · left
            simp only [run_bind, run_getinfoP h a hpa, infoSpec, hga]
            rw [entAt_eq cfg a _ (root_isDir_of h hga)]
            simp [Node.isDir, fail]
        · have hes : entsWf es = true := ents_wf h.wf hga
          have hesok : TreeOk cfg (.dir es) := treeOk_sub h.ok hga
          have hinfo : Ftp.run (exec cfg) (getinfoP cfg.cy cfg.mlsd a) t = (t, .ok (entAt cfg a (.dir es))) := by
            rw [run_getinfoP h a hpa]; simp [infoSpec, hga]
          have hmkd := run_makedirC h b hpb true dp (fvalidate_of hab' hvb)
          left
          rcases sit t b with h' | ⟨hne', hp', hg'⟩ | ⟨x', hne', hp', hg'⟩ | ⟨es', hne', hp', hl', hg'⟩ | ⟨es', n', hne', hp', hl', hg'⟩
          · exact absurd h' hbne
          · simp only [makedirSpec, hne', if_false, hp'] at hmkd
            cases c
            · simp [hg', fail]
            · simp only [Bool.true_or, run_bind, hinfo]
              rw [entAt_eq cfg a _ (root_isDir_of h hga)]
              simp [Node.isDir, run_bind, hmkd, hg', hp', fail]
          · simp only [makedirSpec, hne', if_false, hp'] at hmkd
            cases c
            · simp [hg', fail]
            · simp only [Bool.true_or, run_bind, hinfo]
              rw [entAt_eq cfg a _ (root_isDir_of h hga)]
              simp [Node.isDir, run_bind, hmkd, hg', hp', fail]
          · simp only [makedirSpec, hne', if_false, hp', hl'] at hmkd
            cases c
            · simp [hg', fail]
            · have hs1 : (t.set b (.dir [])).get b = some (.dir []) := TreeLemmas.get_set_same b _ _ es' hne' hp'
              have hga1 : (t.set b (.dir [])).get a = some (.dir es) := by
                rw [get_set_other a b _ _ hnba hnab]; exact hga
              have hga2 : (t.set b (.dir es)).get a = some (.dir es) := by
                rw [get_set_other a b _ _ hnba hnab]; exact hga
              have h2 : Hyp cfg (t.set b (.dir es)) :=
                hyp_set h b hpb _ (by simpa [Node.wf] using hes) hesok
              have hm : mergeDir a b (t.set b (.dir [])) = some (t.set b (.dir es)) := by
                simp only [mergeDir, hga1, hs1, mergeEnts_fresh es [] hes (fun _ _ => rfl), List.nil_append,
                  Option.map_some, setAt, hbne, if_false, set_set]
              simp only [Bool.true_or, run_bind, hinfo]
              rw [entAt_eq cfg a _ (root_isDir_of h hga)]
              simp [Node.isDir, run_bind, hmkd, hg', hp', Ftp.run, hm,
                removetree_src t sp dp a b h hva hvb haa hab' _ h2 es hane hga2, upd]
          · simp only [makedirSpec, hne', if_false, hp', hl'] at hmkd
            simp only [hg', Option.isSome_some, Bool.or_true, run_bind, hinfo]
            rw [entAt_eq cfg a _ (root_isDir_of h hga)]
            rcases n' with data' | ds'
            · simp [Node.isDir, run_bind, hmkd, fail]
            · have hdsw : entsWf ds' = true := ents_wf h.wf hg'
              have hdsok : TreeOk cfg (.dir ds') := treeOk_sub h.ok hg'
              simp only [Node.isDir, if_true, run_bind, hmkd, run_ret, Ftp.run, mergeDir, hga, hg',
                MemLemmas.get_del_other a b t hnab hnba]
              cases hm : mergeEnts es ds' with
              | none => simp [fail]
              | some m =>
                have hmw : entsWf m = true := TreeLemmas.mergeEnts_wf es ds' m hes hdsw hm
                have hmok : TreeOk cfg (.dir m) :=
                  treeOk_dir_of_ents (mergeEnts_ok es ds' m hes hdsw (ents_of_treeOk_dir hes hesok)
                    (ents_of_treeOk_dir hdsw hdsok) hm)
                have h2 : Hyp cfg (t.set b (.dir m)) := hyp_set h b hpb _ (by simpa [Node.wf] using hmw) hmok
                have hga2 : (t.set b (.dir m)).get a = some (.dir es) := by
                  rw [get_set_other a b _ _ hnba hnab]; exact hga
                simp [setAt, hbne, removetree_src t sp dp a b h hva hvb haa hab' _ h2 es hane hga2,
                  MemLemmas.set_del_comm a b t _ hnab hnba, upd]

end

end Fs.FtpStepLemmas
