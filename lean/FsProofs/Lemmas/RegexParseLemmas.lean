import FsModel.Regex
import FsModel.Wild
import FsModel.Glob
import FsProofs.Lemmas.GlobLemmas

namespace Fs.RegexParseLemmas
open Fs Fs.Regex Fs.GlobLemmas

/-! ### characters -/

theorem special_cases (c : Char) (h : isSpecial c = true) (P : Char → Prop)
    (hp : ∀ x ∈ ['(', ')', '[', ']', '{', '}', '?', '*', '+', '-', '|', '^', '$', '\\', '.', '&', '~', '#', ' ',
      '\t', '\n', '\r', Char.ofNat 11, Char.ofNat 12], P x) : P c := by
  simp only [isSpecial, Bool.or_eq_true, beq_iff_eq, or_assoc] at h
  rcases h with h | h | h | h | h | h | h | h | h | h | h | h | h | h | h | h | h | h | h | h | h | h | h | h <;>
    (subst h; exact hp _ (by simp))

theorem special_not_alnum (c : Char) (h : isSpecial c = true) : isAsciiAlnum c = false ∧ c ≠ 'Z' := by
  apply special_cases c h
  decide

/-- an unescaped literal is none of the characters the parser treats specially -/
theorem notSpecial_facts (c : Char) (h : isSpecial c = false) :
    c ≠ '^' ∧ c ≠ '$' ∧ c ≠ '\\' ∧ c ≠ '.' ∧ c ≠ '[' ∧ c ≠ '(' ∧ c ≠ ')' ∧ c ≠ '|' ∧ c ≠ '{' ∧
      isQuant c = false ∧ c ≠ ']' ∧ c ≠ '-' := by
  simp only [isSpecial, Bool.or_eq_false_iff, beq_eq_false_iff_ne, ne_eq] at h
  simp only [isQuant, Bool.or_eq_false_iff, beq_eq_false_iff_ne, ne_eq]
  simp only [and_assoc] at h
  obtain ⟨h1, h2, h3, h4, h5, h6, h7, h8, h9, h10, h11, h12, h13, h14, h15, h16, h17, h18, h19, h20, h21, h22, h23, h24⟩ := h
  exact ⟨h12, h13, h14, h15, h3, h1, h2, h11, h5, ⟨⟨h8, h9⟩, h7⟩, h4, h10⟩


/-! ### a bracket expression: `parseSetLoop` reads back what `Wild.rawItems` describes -/

theorem setChar_raw (first : Bool) (a : Char) (rest : Str) :
    setChar ((Wild.rawChar first a).toPy ++ rest) = .ok (Wild.rawChar first a, rest) := by
  by_cases h1 : a = '\\'
  · subst h1; simp [Wild.rawChar, LChar.toPy, setChar, isAsciiAlnum]
  · by_cases h2 : first = true ∧ a = '^'
    · obtain ⟨rfl, rfl⟩ := h2; simp [Wild.rawChar, LChar.toPy, setChar, isAsciiAlnum]
    · have he : (a == '\\' || (first && a == '^')) = false := by
        cases first <;> simp_all
      simp only [Wild.rawChar, he, LChar.toPy, Bool.false_eq_true, if_false, List.cons_append, List.nil_append]
      rw [setChar]
      · intro h _; exact h1 h
      · intro c r h _; exact h1 h

/-- the first character of a member's text -/
theorem rawChar_head (first : Bool) (a : Char) (rest : Str) :
    ∃ t, (Wild.rawChar first a).toPy ++ rest = (if (Wild.rawChar first a).esc then '\\' else a) :: t := by
  simp only [LChar.toPy]
  split <;> simp [Wild.rawChar]


/-- what `parseSetLoop` does once it has read the member `code1` (the text after it is `rest`) -/
def afterCode (fuel : Nat) (code1 : LChar) (rest : Str) (acc : List SetItem) : TR (List SetItem × Str) :=
  match rest with
  | '-' :: rest' =>
    (match rest' with
     | [] => .err .reError
     | ']' :: rest'' => .ok ((SetItem.ch ⟨'-', false⟩ :: SetItem.ch code1 :: acc).reverse, rest'')
     | _ =>
       match setChar rest' with
       | .err e => .err e
       | .ok (code2, rest'') =>
         if code2.c < code1.c then .err .reError
         else parseSetLoop fuel rest'' (SetItem.range code1 code2 :: acc))
  | _ => parseSetLoop fuel rest (SetItem.ch code1 :: acc)

theorem parseSet_step (fuel : Nat) (first : Bool) (a : Char) (R : Str) (acc : List SetItem)
    (h : a = ']' → acc = []) :
    parseSetLoop (fuel + 1) ((Wild.rawChar first a).toPy ++ R) acc = afterCode fuel (Wild.rawChar first a) R acc := by
  have hs := setChar_raw first a R
  by_cases hesc : (Wild.rawChar first a).esc = true
  · have ht : (Wild.rawChar first a).toPy ++ R = '\\' :: (Wild.rawChar first a).c :: R := by
      simp [LChar.toPy, hesc]
    rw [ht] at hs ⊢
    rw [parseSetLoop]
    have hne : ('\\' == ']') = false := by decide
    simp only [hne, Bool.false_and, Bool.false_eq_true, if_false, hs]
    rfl
  · have hesc' : (Wild.rawChar first a).esc = false := by simpa using hesc
    have ht : (Wild.rawChar first a).toPy ++ R = a :: R := by
      simp only [LChar.toPy, hesc', Bool.false_eq_true, if_false]
      simp [Wild.rawChar]
    rw [ht] at hs ⊢
    rw [parseSetLoop]
    by_cases ha : a = ']'
    · have hacc := h ha
      subst ha; subst hacc
      have hr : Wild.rawChar first ']' = ⟨']', false⟩ := by cases first <;> rfl
      simp only [beq_self_eq_true, List.isEmpty_nil, Bool.not_true, Bool.and_false, Bool.false_eq_true, if_false,
        if_true, hr]
      rfl
    · have hne : (a == ']') = false := by simpa using ha
      simp only [hne, Bool.false_and, Bool.false_eq_true, if_false, hs]
      rfl


theorem parseSet_close (fuel : Nat) (rest : Str) (acc : List SetItem) (h : acc ≠ []) :
    parseSetLoop (fuel + 1) (']' :: rest) acc = .ok (acc.reverse, rest) := by
  rw [parseSetLoop]
  cases acc with
  | nil => contradiction
  | cons x xs => simp

/-- the first character of the text of a raw body is never `-` unless the body starts with `-` -/
theorem rawText_head_dash (s : Str) (rest : Str) (t : Str) (h : rawText false s ++ ']' :: rest = '-' :: t) :
    ∃ s', s = '-' :: s' ∧ t = rawText false s' ++ ']' :: rest := by
  cases s with
  | nil => simp [rawText] at h
  | cons c s' =>
    simp only [rawText, Wild.rawChar, LChar.toPy, Bool.false_and, Bool.or_false] at h
    by_cases hc : c = '\\'
    · subst hc; simp at h
    · have : (c == '\\') = false := by simpa using hc
      simp only [this, Bool.false_eq_true, if_false, List.cons_append, List.nil_append, List.cons.injEq] at h
      obtain ⟨rfl, rfl⟩ := h
      exact ⟨s', rfl, rfl⟩

theorem afterCode_range (fuel : Nat) (code1 : LChar) (b : Char) (T : Str) (acc : List SetItem) (hb : b ≠ ']') :
    afterCode fuel code1 ('-' :: ((Wild.rawChar false b).toPy ++ T)) acc =
      (if b < code1.c then TR.err .reError
       else parseSetLoop fuel T (SetItem.range code1 (Wild.rawChar false b) :: acc)) := by
  have hs := setChar_raw false b T
  by_cases hesc : b = '\\'
  · subst hesc
    have ht : (Wild.rawChar false '\\').toPy ++ T = '\\' :: '\\' :: T := by simp [Wild.rawChar, LChar.toPy]
    rw [ht] at hs ⊢
    simp only [afterCode, hs]
    rfl
  · have ht : (Wild.rawChar false b).toPy ++ T = b :: T := by simp [Wild.rawChar, LChar.toPy, hesc]
    rw [ht] at hs ⊢
    rw [afterCode]
    · simp only [hs]
      have : (Wild.rawChar false b).c = b := rfl
      rw [this]
    · intro h; cases h
    · intro r h; simp at h; exact hb h.1

theorem afterCode_dash_end (fuel : Nat) (code1 : LChar) (rest : Str) (acc : List SetItem) :
    afterCode fuel code1 ('-' :: ']' :: rest) acc =
      .ok ((SetItem.ch ⟨'-', false⟩ :: SetItem.ch code1 :: acc).reverse, rest) := rfl

theorem afterCode_single (fuel : Nat) (code1 : LChar) (R : Str) (acc : List SetItem)
    (h : ∀ t, R ≠ '-' :: t) :
    afterCode fuel code1 R acc = parseSetLoop fuel R (SetItem.ch code1 :: acc) := by
  rw [afterCode]
  intro t ht; exact h t ht

theorem parseSet_raw : ∀ (s : Str) (first : Bool) (fuel : Nat) (acc : List SetItem) (rest : Str),
    s.length < fuel → (∀ c ∈ s.tail, c ≠ ']') → (s.head? = some ']' → acc = []) → (s = [] → acc ≠ []) →
    parseSetLoop fuel (rawText first s ++ ']' :: rest) acc =
      (match Wild.rawItems s first with
       | .ok l => TR.ok (acc.reverse ++ l, rest)
       | .err e => TR.err e) := by
  intro s first
  fun_induction Wild.rawItems s first with
  | case1 first =>
    intro fuel acc rest hf _ _ hne
    cases fuel with
    | zero => simp at hf
    | succ n => simp [rawText, parseSet_close n rest acc (hne rfl)]
  | case2 a b r first hlt =>
    intro fuel acc rest hf hnc hhead _
    cases fuel with
    | zero => simp at hf
    | succ n =>
      have hb : b ≠ ']' := hnc b (by simp)
      have hd : (Wild.rawChar false '-').toPy = ['-'] := by simp [Wild.rawChar, LChar.toPy]
      simp only [rawText, List.append_assoc, hd, List.cons_append, List.nil_append]
      rw [parseSet_step n first a _ acc (by intro ha; exact hhead (by simp [ha])), afterCode_range _ _ _ _ _ hb]
      have : (Wild.rawChar first a).c = a := rfl
      simp [this, hlt]
  | case3 a b r first hlt l' hl ih =>
    intro fuel acc rest hf hnc hhead _
    cases fuel with
    | zero => simp at hf
    | succ n =>
      have hb : b ≠ ']' := hnc b (by simp)
      have hd : (Wild.rawChar false '-').toPy = ['-'] := by simp [Wild.rawChar, LChar.toPy]
      simp only [rawText, List.append_assoc, hd, List.cons_append, List.nil_append]
      rw [parseSet_step n first a _ acc (by intro ha; exact hhead (by simp [ha])), afterCode_range _ _ _ _ _ hb]
      have : (Wild.rawChar first a).c = a := rfl
      simp only [this, hlt, if_false]
      rw [ih n _ rest (by simp at hf; omega) (by intro c hc; exact hnc c (by
            simp only [List.tail_cons] at hc ⊢
            exact List.mem_cons_of_mem _ (List.mem_cons_of_mem _ (List.mem_of_mem_tail hc))))
          (by intro hh
              cases r with
              | nil => simp at hh
              | cons x xs => simp at hh; exact absurd hh (hnc x (by simp)))
          (by intro _; simp), hl]
      simp
  | case4 a b r first hlt e he ih =>
    intro fuel acc rest hf hnc hhead _
    cases fuel with
    | zero => simp at hf
    | succ n =>
      have hb : b ≠ ']' := hnc b (by simp)
      have hd : (Wild.rawChar false '-').toPy = ['-'] := by simp [Wild.rawChar, LChar.toPy]
      simp only [rawText, List.append_assoc, hd, List.cons_append, List.nil_append]
      rw [parseSet_step n first a _ acc (by intro ha; exact hhead (by simp [ha])), afterCode_range _ _ _ _ _ hb]
      have : (Wild.rawChar first a).c = a := rfl
      simp only [this, hlt, if_false]
      rw [ih n _ rest (by simp at hf; omega) (by intro c hc; exact hnc c (by
            simp only [List.tail_cons] at hc ⊢
            exact List.mem_cons_of_mem _ (List.mem_cons_of_mem _ (List.mem_of_mem_tail hc))))
          (by intro hh
              cases r with
              | nil => simp at hh
              | cons x xs => simp at hh; exact absurd hh (hnc x (by simp)))
          (by intro _; simp), he]
  | case5 a r first hne l' hl ih =>
    intro fuel acc rest hf hnc hhead _
    cases fuel with
    | zero => simp at hf
    | succ n =>
      simp only [rawText, List.append_assoc]
      rw [parseSet_step n first a _ acc (by intro ha; exact hhead (by simp [ha]))]
      by_cases hr : r = ['-']
      · subst hr
        have hd : rawText false ['-'] = ['-'] := by simp [rawText, Wild.rawChar, LChar.toPy]
        rw [hd]
        simp only [List.cons_append, List.nil_append, afterCode_dash_end]
        have : Wild.rawItems ['-'] false = .ok [SetItem.ch ⟨'-', false⟩] := by
          simp [Wild.rawItems, Wild.rawChar]
        rw [this] at hl
        cases hl
        simp
      · rw [afterCode_single]
        · rw [ih n _ rest (by simp at hf; omega)
            (by intro c hc; exact hnc c (by simp only [List.tail_cons]; exact List.mem_of_mem_tail hc))
            (by intro hh
                cases r with
                | nil => simp at hh
                | cons x xs => simp at hh; exact absurd hh (hnc x (by simp)))
            (by intro _; simp), hl]
          simp
        · intro t ht
          obtain ⟨s', hs', _⟩ := rawText_head_dash r rest t ht
          cases s' with
          | nil => exact hr hs'
          | cons b rest' => exact hne b rest' hs'
  | case6 a r first hne e he ih =>
    intro fuel acc rest hf hnc hhead _
    cases fuel with
    | zero => simp at hf
    | succ n =>
      simp only [rawText, List.append_assoc]
      rw [parseSet_step n first a _ acc (by intro ha; exact hhead (by simp [ha]))]
      by_cases hr : r = ['-']
      · subst hr
        have hd : rawText false ['-'] = ['-'] := by simp [rawText, Wild.rawChar, LChar.toPy]
        rw [hd]
        simp only [List.cons_append, List.nil_append, afterCode_dash_end]
        have : Wild.rawItems ['-'] false = .ok [SetItem.ch ⟨'-', false⟩] := by
          simp [Wild.rawItems, Wild.rawChar]
        rw [this] at he
        cases he
      · rw [afterCode_single]
        · rw [ih n _ rest (by simp at hf; omega)
            (by intro c hc; exact hnc c (by simp only [List.tail_cons]; exact List.mem_of_mem_tail hc))
            (by intro hh
                cases r with
                | nil => simp at hh
                | cons x xs => simp at hh; exact absurd hh (hnc x (by simp)))
            (by intro _; simp), he]
        · intro t ht
          obtain ⟨s', hs', _⟩ := rawText_head_dash r rest t ht
          cases s' with
          | nil => exact hr hs'
          | cons b rest' => exact hne b rest' hs'


/-! ### a whole bracket expression -/

/-- what `parseItems` / `parseAtom` do after a `[` -/
def classParse (r : Str) : TR (Atom × Str) :=
  let (neg, body) := match r with
    | '^' :: b => (true, b)
    | b => (false, b)
  (match parseSetLoop (body.length + 1) body [] with
   | .err e => .err e
   | .ok (items, r1) => .ok (.set neg items, r1))

/-- the raw text of a bracket expression found by `Wild.scanClass`: non-empty, and only the first character
of its body (after an optional `!`) can be `]` -/
def negOf (stuff : Str) : Bool := stuff.head? == some '!'

/-- the body of a bracket expression: its text after an optional `!` -/
def bodyOf (stuff : Str) : Str := if negOf stuff then stuff.tail else stuff

def StuffOk (stuff : Str) : Prop := bodyOf stuff ≠ [] ∧ ∀ c ∈ (bodyOf stuff).tail, c ≠ ']'

theorem untilClose_noClose (s a b : Str) (h : Wild.untilClose s = some (a, b)) : ∀ c ∈ a, c ≠ ']' := by
  induction s generalizing a b with
  | nil => simp [Wild.untilClose] at h
  | cons x xs ih =>
    simp only [Wild.untilClose] at h
    split at h
    · cases h; simp
    · cases hu : Wild.untilClose xs with
      | none => rw [hu] at h; cases h
      | some p =>
        obtain ⟨a', b'⟩ := p
        rw [hu] at h
        simp only [Option.some.injEq, Prod.mk.injEq] at h
        obtain ⟨rfl, rfl⟩ := h
        intro c hc
        rcases List.mem_cons.1 hc with rfl | hc
        · assumption
        · exact ih a' b' hu c hc

theorem untilClose_nil_iff (s b : Str) (h : Wild.untilClose s = some ([], b)) : s.head? = some ']' := by
  cases s with
  | nil => simp [Wild.untilClose] at h
  | cons x xs =>
    simp only [Wild.untilClose] at h
    split at h
    · next hx => simp [hx]
    · cases hu : Wild.untilClose xs with
      | none => rw [hu] at h; cases h
      | some p => rw [hu] at h; cases h

theorem untilClose_cons (c : Char) (r a b : Str) (hc : c ≠ ']') (h : Wild.untilClose (c :: r) = some (a, b)) :
    ∃ a', a = c :: a' ∧ Wild.untilClose r = some (a', b) := by
  simp only [Wild.untilClose, hc, if_false] at h
  cases hu : Wild.untilClose r with
  | none => rw [hu] at h; cases h
  | some p =>
    obtain ⟨a', b'⟩ := p
    rw [hu] at h
    simp only [Option.some.injEq, Prod.mk.injEq] at h
    obtain ⟨rfl, rfl⟩ := h
    exact ⟨a', rfl, rfl⟩

/-- `scanClass` in terms of `untilClose`, by the first two characters -/
theorem scanClass_bang_close (r : Str) :
    Wild.scanClass ('!' :: ']' :: r) = (Wild.untilClose r).map fun p => ('!' :: ']' :: p.1, p.2) := by
  simp only [Wild.scanClass]
  cases Wild.untilClose r with
  | none => rfl
  | some p => rfl

theorem scanClass_bang (r : Str) (h : r.head? ≠ some ']') :
    Wild.scanClass ('!' :: r) = (Wild.untilClose r).map fun p => ('!' :: p.1, p.2) := by
  cases r with
  | nil => rfl
  | cons d r' =>
    have hd : d ≠ ']' := by simpa using h
    have : Wild.scanClass ('!' :: d :: r') =
        match Wild.untilClose (d :: r') with
        | none => none
        | some (a, b) => some ('!' :: a, b) := by
      simp only [Wild.scanClass]
      split <;> simp_all
    rw [this]
    cases Wild.untilClose (d :: r') with
    | none => rfl
    | some p => rfl

theorem scanClass_close (r : Str) :
    Wild.scanClass (']' :: r) = (Wild.untilClose r).map fun p => (']' :: p.1, p.2) := by
  have : Wild.scanClass (']' :: r) =
      match Wild.untilClose r with
      | none => none
      | some (a, b) => some (']' :: a, b) := by
    simp only [Wild.scanClass]
    split <;> simp_all
  rw [this]
  cases Wild.untilClose r with
  | none => rfl
  | some p => rfl

theorem scanClass_plain (c : Char) (r : Str) (h1 : c ≠ '!') (h2 : c ≠ ']') :
    Wild.scanClass (c :: r) = Wild.untilClose (c :: r) := by
  have : Wild.scanClass (c :: r) =
      match Wild.untilClose (c :: r) with
      | none => none
      | some (a, b) => some (a, b) := by
    simp only [Wild.scanClass]
    split <;> simp_all
  rw [this]
  cases Wild.untilClose (c :: r) with
  | none => rfl
  | some p => rfl

theorem scanClass_stuffOk (cs stuff rest : Str) (h : Wild.scanClass cs = some (stuff, rest)) : StuffOk stuff := by
  cases cs with
  | nil => simp [Wild.scanClass, Wild.untilClose] at h
  | cons c r =>
    by_cases hb : c = '!'
    · subst hb
      cases r with
      | nil => simp [Wild.scanClass, Wild.untilClose] at h
      | cons d r' =>
        by_cases hd : d = ']'
        · subst hd
          rw [scanClass_bang_close] at h
          cases hu : Wild.untilClose r' with
          | none => rw [hu] at h; cases h
          | some p =>
            rw [hu] at h
            simp only [Option.map_some, Option.some.injEq, Prod.mk.injEq] at h
            obtain ⟨rfl, rfl⟩ := h
            exact ⟨by simp [bodyOf, negOf], by simpa [bodyOf, negOf] using untilClose_noClose r' p.1 p.2 (by rw [hu])⟩
        · rw [scanClass_bang _ (by simpa using hd)] at h
          cases hu : Wild.untilClose (d :: r') with
          | none => rw [hu] at h; cases h
          | some p =>
            rw [hu] at h
            simp only [Option.map_some, Option.some.injEq, Prod.mk.injEq] at h
            obtain ⟨rfl, rfl⟩ := h
            obtain ⟨a', ha', _⟩ := untilClose_cons d r' p.1 p.2 hd (by rw [hu])
            have hnc := untilClose_noClose (d :: r') p.1 p.2 (by rw [hu])
            refine ⟨by rw [ha']; simp [bodyOf, negOf], ?_⟩
            intro x hx
            simp only [bodyOf, negOf, List.head?_cons, beq_self_eq_true, if_true, List.tail_cons] at hx
            exact hnc x (List.mem_of_mem_tail hx)
    · by_cases hd : c = ']'
      · subst hd
        rw [scanClass_close] at h
        cases hu : Wild.untilClose r with
        | none => rw [hu] at h; cases h
        | some p =>
          rw [hu] at h
          simp only [Option.map_some, Option.some.injEq, Prod.mk.injEq] at h
          obtain ⟨rfl, rfl⟩ := h
          have hn : negOf (']' :: p.1) = false := by simp [negOf]
          exact ⟨by simp [bodyOf, hn], by simpa [bodyOf, hn] using untilClose_noClose r p.1 p.2 (by rw [hu])⟩
      · rw [scanClass_plain c r hb hd] at h
        obtain ⟨a', ha', _⟩ := untilClose_cons c r stuff rest hd h
        have hnc := untilClose_noClose (c :: r) stuff rest h
        subst ha'
        have hn : negOf (c :: a') = false := by simp [negOf, hb]
        refine ⟨by simp [bodyOf, hn], ?_⟩
        intro x hx
        simp only [bodyOf, hn, Bool.false_eq_true, if_false] at hx
        exact hnc x (List.mem_of_mem_tail hx)


theorem rawText_length (first : Bool) (s : Str) : s.length ≤ (rawText first s).length := by
  induction s generalizing first with
  | nil => simp [rawText]
  | cons c r ih =>
    simp only [rawText, List.length_append, List.length_cons]
    have := ih false
    have h1 : 1 ≤ ((Wild.rawChar first c).toPy).length := by
      simp only [LChar.toPy]; split <;> simp
    omega

theorem classText_eq (stuff : Str) :
    Wild.classText ['^'] stuff =
      '[' :: ((if negOf stuff then '^' :: rawText false (bodyOf stuff) else rawText true stuff) ++ [']']) := by
  cases stuff with
  | nil => simp [Wild.classText, Wild.escBackslash, rawText, negOf]
  | cons c r =>
    by_cases h1 : c = '!'
    · subst h1
      simp [Wild.classText, escBackslash_cons, rawText_false, negOf, bodyOf]
    · have hn : negOf (c :: r) = false := by simp [negOf, h1]
      simp only [hn, Bool.false_eq_true, if_false]
      by_cases h2 : c = '^'
      · subst h2
        simp [Wild.classText, escBackslash_cons, rawText, rawText_false, Wild.rawChar, LChar.toPy]
      · by_cases h3 : c = '\\'
        · subst h3
          simp [Wild.classText, escBackslash_cons, rawText, rawText_false, Wild.rawChar, LChar.toPy]
        · simp [Wild.classText, escBackslash_cons, rawText, rawText_false, Wild.rawChar, LChar.toPy, h1, h2, h3]

theorem classAtom_eq (stuff : Str) :
    Wild.classAtom stuff =
      (if negOf stuff then (Wild.rawItems (bodyOf stuff) false).map (Atom.set true)
       else (Wild.rawItems stuff true).map (Atom.set false)) := by
  cases stuff with
  | nil => simp [Wild.classAtom, negOf]
  | cons c r =>
    by_cases h1 : c = '!'
    · subst h1; simp [Wild.classAtom, negOf, bodyOf]
    · have hn : negOf (c :: r) = false := by simp [negOf, h1]
      simp only [hn, Bool.false_eq_true, if_false]
      rw [Wild.classAtom]
      intro r' h; simp at h; exact h1 h.1

/-- the text of a non-negated body never starts with `^` -/
theorem rawText_true_head (s : Str) (t : Str) : rawText true s ++ t ≠ '^' :: (rawText true s ++ t).tail ∨ s = [] := by
  cases s with
  | nil => right; rfl
  | cons c r =>
    left
    simp only [rawText, Wild.rawChar, LChar.toPy]
    by_cases hc : c = '^'
    · subst hc; simp
    · by_cases hb : c = '\\'
      · subst hb; simp
      · simp [hc, hb]


theorem classParse_neg (b : Str) :
    classParse ('^' :: b) =
      (match parseSetLoop (b.length + 1) b [] with
       | .err e => .err e
       | .ok (items, r1) => .ok (.set true items, r1)) := rfl

theorem classParse_pos (r : Str) (h : ∀ b, r ≠ '^' :: b) :
    classParse r =
      (match parseSetLoop (r.length + 1) r [] with
       | .err e => .err e
       | .ok (items, r1) => .ok (.set false items, r1)) := by
  unfold classParse
  split
  next neg body heq =>
  split at heq
  · next b => exact absurd rfl (h b)
  · cases heq; rfl

theorem rawText_true_ne_caret (s t b : Str) (hs : s ≠ []) : rawText true s ++ t ≠ '^' :: b := by
  cases s with
  | nil => contradiction
  | cons c r =>
    simp only [rawText, Wild.rawChar, LChar.toPy]
    by_cases hc : c = '^'
    · subst hc; simp
    · by_cases hb : c = '\\'
      · subst hb; simp
      · simp [hc, hb]

/-- parsing the text of a bracket expression (after its `[`) gives the atom of the hand model -/
theorem classParse_text (stuff rest : Str) (h : StuffOk stuff) :
    classParse ((if negOf stuff then '^' :: rawText false (bodyOf stuff) else rawText true stuff) ++ [']'] ++ rest) =
      (match Wild.classAtom stuff with
       | .ok a => .ok (a, rest)
       | .err e => .err e) := by
  obtain ⟨hne, hnc⟩ := h
  rw [classAtom_eq]
  cases hn : negOf stuff with
  | true =>
    simp only [if_true, List.cons_append, List.append_assoc, classParse_neg, List.nil_append]
    have hl := rawText_length false (bodyOf stuff)
    rw [parseSet_raw (bodyOf stuff) false _ [] rest (by simp; omega) hnc (fun _ => rfl) (fun e => absurd e hne)]
    cases Wild.rawItems (bodyOf stuff) false <;> simp [TR.map]
  | false =>
    have hb : bodyOf stuff = stuff := by simp [bodyOf, hn]
    rw [hb] at hne hnc
    simp only [Bool.false_eq_true, if_false, List.append_assoc]
    rw [classParse_pos _ (fun b => rawText_true_ne_caret stuff _ b hne)]
    have hl := rawText_length true stuff
    rw [show ([']'] ++ rest) = ']' :: rest from rfl,
      parseSet_raw stuff true _ [] rest (by simp; omega) hnc (fun _ => rfl) (fun e => absurd e hne)]
    cases Wild.rawItems stuff true <;> simp [TR.map]

end Fs.RegexParseLemmas
