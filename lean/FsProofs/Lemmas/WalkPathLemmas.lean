/-
  String-level facts of the walk model: on rendered component paths `_calculate_depth` counts the
  components, `combine(dir, name)` — the glob string of directory *and* file entries — renders the
  extended component list, and `abspath(normpath(·))` of a rendered path gives back its components.
-/
import FsModel.Walk
import FsProofs.Lemmas.PathLemmas

namespace Fs.WalkPathLemmas
open Fs Fs.Path Fs.PathSpec Fs.PathLemmas Fs.Walk

theorem render_eq_mkp (cs : WPath) : render cs = mkp true cs := rfl

theorem cleanComp_of_cleanName (c : Name) (h : cleanName c = true) : CleanComp c := by
  unfold cleanName at h
  simp only [Bool.and_eq_true, bne_iff_ne, ne_eq, Bool.not_eq_true', List.contains_eq_mem,
    decide_eq_false_iff_not] at h
  exact ⟨h.1.1.1.1, h.1.1.1.2, h.1.1.2, h.1.2⟩

theorem count_slash_join (cs : List Str) (h : ∀ c ∈ cs, '/' ∉ c) (hne : cs ≠ []) :
    (joinWith '/' cs).count '/' + 1 = cs.length := by
  induction cs with
  | nil => exact absurd rfl hne
  | cons a rest ih =>
    rw [joinWith_cons]
    have ha : a.count '/' = 0 := List.count_eq_zero.mpr (h a (by simp))
    split
    · next hr => subst hr; simp [ha]
    · next hr =>
      have := ih (fun c hc => h c (by simp [hc])) hr
      simp only [List.count_append, List.count_cons_self, ha, List.length_cons]
      omega

/-- `_calculate_depth` of a rendered clean component path is its number of components -/
theorem calculateDepth_render (cs : WPath) (h : Clean cs) : calculateDepth (render cs) = cs.length := by
  unfold calculateDepth
  rw [render_eq_mkp, stripSlash_mkp h]
  by_cases hne : cs = []
  · subst hne; simp [joinWith]
  · have hj : joinWith '/' cs ≠ [] := fun e => hne ((join_clean_eq_nil_iff h).1 e)
    have := count_slash_join cs (clean_not_mem h) hne
    simp only [beq_iff_eq, hj, if_false]
    exact this

/-- the glob string of a directory entry is the rendered extended path -/
theorem dirGlobPath_eq (dir : WPath) (k : Name) (h : Clean (dir ++ [k])) :
    dirGlobPath dir k = render (dir ++ [k]) := by
  have hd : Clean dir := (clean_append.1 h).1
  have hk : CleanComp k := (clean_append.1 h).2 k (by simp)
  have hks : lstripSlash k = k := lstripSlash_of_not_starts k (startsWithSlash_of_not_mem k hk.2.2.2)
  unfold dirGlobPath combine
  have hr : (render dir == []) = false := by simp [render]
  simp only [hr, Bool.false_eq_true, if_false, hks]
  by_cases hne : dir = []
  · subst hne; simp [render, joinWith, rstripSlash, lstripSlash]
  · rw [render_eq_mkp, rstripSlash_mkp hd hne, render_eq_mkp, mkp_snoc k hne]

/-- the glob string of a file entry is the rendered extended path (since fix a47d87a: everywhere,
the root included) -/
theorem fileGlobPath_eq (dir : WPath) (k : Name) (h : Clean (dir ++ [k])) :
    fileGlobPath dir k = render (dir ++ [k]) := dirGlobPath_eq dir k h

/-- `abspath(normpath(p))` of the path string of a clean component list (absolute or relative
spelling) has exactly these components -/
theorem startOf_mkp (a : Bool) (cs : WPath) (h : Clean cs) : startOf (mkp a cs) = .ok cs := by
  unfold startOf
  rw [normpath_mkp h]
  simp only [Res.map, abspath_mkp h, PathSpec.comps, splitSlash, splitOn_mkp h]
  congr 1
  by_cases hne : cs = []
  · subst hne; simp
  · simp only [hne, if_false, if_true, List.cons_append, List.nil_append]
    rw [List.filter_cons]
    simp only [ne_eq, not_true_eq_false, decide_false, Bool.false_eq_true, if_false]
    rw [List.filter_eq_self]
    intro c hc
    simpa using (clean_ne_nil h) c hc

end Fs.WalkPathLemmas
