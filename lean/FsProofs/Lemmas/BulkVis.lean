/-
  C09 helper: a failure that fired is always visible — in `Copier.errors`, as an exception in
  flight in the producer, or as an exception in flight in a worker — and conversely.
-/
import FsProofs.Lemmas.BulkLemmas

namespace Fs.BulkLemmas
open Fs Fs.Bulk
set_option linter.unusedSimpArgs false

def phaseExc : Phase → Bool
  | .closeA e => e
  | .closeB e => e
  | _ => false

def nextExc : BNext → Bool
  | .cont ph => phaseExc ph
  | .fin e => e

def wExc : W → Bool
  | .run _ ph => phaseExc ph
  | .ending _ e => e
  | _ => false

def excMark (w : W) : List Unit := if wExc w then [()] else []

def prodExc : Prod → Bool
  | .failClose _ _ => true
  | .inl _ .failClose _ => true
  | .inl _ (.body ph) _ => phaseExc ph
  | .sentinels _ e => e
  | .joining _ e => e
  | .ptimes _ _ e => e
  | .qjoin e => e
  | .exiting e => e
  | .finished o => o != .ok
  | _ => false

def b2n (b : Bool) : Nat := if b then 1 else 0
@[simp] theorem b2n_true : b2n true = 1 := rfl
@[simp] theorem b2n_false : b2n false = 0 := rfl
theorem b2n_le (b : Bool) : b2n b ≤ 1 := by cases b <;> simp

def nExc (s : St) : Nat := List.count () (s.workers.flatMap excMark)

def visN (s : St) : Nat := s.errors.length + b2n (prodExc s.prod) + nExc s

def Vis (s : St) : Prop := 0 < s.nfail ↔ 0 < visN s

theorem BTrans.vis {c : Cfg} {s s1 : St} {i : Nat} {a : Side} {ph : Phase} {nx : BNext} {e : Ev}
    (hb : BTrans c s i a ph nx e s1) :
    (s1.nfail = s.nfail ∧ nextExc nx = phaseExc ph) ∨ (s1.nfail = s.nfail + 1 ∧ nextExc nx = true) := by
  cases hb <;> simp [nextExc, phaseExc]

theorem prodExc_afterBody (c : Cfg) (b : Bool) : prodExc (afterBody c b) = b := by
  unfold afterBody; split <;> rfl
theorem prodExc_nextLoop (c : Cfg) (r : List Nat) : prodExc (nextLoop c r) = false := by
  cases r with
  | nil => exact prodExc_afterBody c false
  | cons i r => rfl
theorem prodExc_ptimesNext (l : List Nat) (b : Bool) : prodExc (ptimesNext l b) = b := by
  cases l <;> rfl
theorem prodExc_afterJoin (c : Cfg) (l : List Nat) (b : Bool) : prodExc (afterJoin c l b) = b := by
  unfold afterJoin; split
  · exact prodExc_ptimesNext l b
  · rfl

theorem vis_init (c : Cfg) : Vis (init c) := by
  simp [Vis, visN, nExc, init, prodExc_nextLoop,
    flatMap_replicate_nil excMark W.idle (by simp [excMark, wExc])]

theorem count_excMark (w : W) : List.count () (excMark w) = b2n (wExc w) := by
  unfold excMark b2n; split <;> simp

theorem vis_worker {c : Cfg} {s s' : St} {w : Nat} {e : Ev} (h : Vis s)
    (hs : WTrans c s w s' e) : Vis s' := by
  unfold Vis visN nExc at *
  cases hs with
  | getTask i q hw hq =>
    have := count_flatMap_set excMark () s.workers w .idle (.run i (.reading 0)) hw
    simp [excMark, wExc, phaseExc] at this ⊢; omega
  | getSentinel q hw hq =>
    have := count_flatMap_set excMark () s.workers w .idle .stopping hw
    simp [excMark, wExc, phaseExc] at this ⊢; omega
  | bodyCont i ph ph' e s1 hw hb =>
    obtain ⟨h1, h2, h3, h4, _, _, _, _⟩ := hb.frame
    have hset := count_flatMap_set excMark () s.workers w (.run i ph) (.run i ph') hw
    rw [count_excMark, count_excMark] at hset
    simp only [wExc] at hset
    show 0 < s1.nfail ↔ 0 < s1.errors.length + b2n (prodExc s1.prod)
      + List.count () ((s1.workers.set w (.run i ph')).flatMap excMark)
    rw [h1, h3, h4]
    have hle := b2n_le (phaseExc ph)
    have hown := count_le_flatMap excMark () s.workers w (.run i ph) hw
    rw [count_excMark] at hown; simp only [wExc] at hown
    rcases hb.vis with ⟨hn, hx⟩ | ⟨hn, hx⟩
    · simp only [nextExc] at hx; rw [hn]; rw [hx] at hset; omega
    · simp only [nextExc] at hx; rw [hn]; rw [hx] at hset; simp only [b2n_true] at hset; omega
  | bodyFin i ph exc e s1 hw hb =>
    obtain ⟨h1, h2, h3, h4, _, _, _, _⟩ := hb.frame
    have hset := count_flatMap_set excMark () s.workers w (.run i ph) (.ending i exc) hw
    rw [count_excMark, count_excMark] at hset
    simp only [wExc] at hset
    show 0 < s1.nfail ↔ 0 < s1.errors.length + b2n (prodExc s1.prod)
      + List.count () ((s1.workers.set w (.ending i exc)).flatMap excMark)
    rw [h1, h3, h4]
    have hle := b2n_le (phaseExc ph)
    have hown := count_le_flatMap excMark () s.workers w (.run i ph) hw
    rw [count_excMark] at hown; simp only [wExc] at hown
    rcases hb.vis with ⟨hn, hx⟩ | ⟨hn, hx⟩
    · simp only [nextExc] at hx; subst hx; rw [hn]; omega
    · simp only [nextExc] at hx; subst hx; rw [hn]; simp only [b2n_true] at hset; omega
  | endTask i exc hw =>
    have hset := count_flatMap_set excMark () s.workers w (.ending i exc) .idle hw
    rw [count_excMark, count_excMark] at hset
    cases exc <;> simp [wExc] at hset ⊢ <;> omega
  | exitW hw =>
    have := count_flatMap_set excMark () s.workers w .stopping .exited hw
    simp [excMark, wExc] at this ⊢; omega


@[simp] theorem other_bne_ok : (Outcome.other != Outcome.ok) = true := by decide
@[simp] theorem bulk_bne_ok : (Outcome.bulk != Outcome.ok) = true := by decide
@[simp] theorem ok_bne_ok : (Outcome.ok != Outcome.ok) = false := by decide

theorem vis_prod {c : Cfg} {s s' : St} {e : Ev} (h : Vis s)
    (hs : PTrans c s s' e) : Vis s' := by
  unfold Vis visN nExc at *
  cases hs
  case inlBodyCont =>
    have hb := ‹BTrans c s _ _ _ _ _ _›; have hp := ‹s.prod = _›
    obtain ⟨h1, h2, h3, h4, _, _, _, _⟩ := hb.frame
    rw [hp] at h; simp only [prodExc] at h
    have hle := b2n_le (phaseExc ‹Phase›)
    rcases hb.vis with ⟨hn, hx⟩ | ⟨hn, hx⟩ <;>
      simp only [nextExc] at hx <;> simp only [prodExc, h3, h4, hn, hx, b2n_true] <;> omega
  case inlBodyRaise =>
    have hb := ‹BTrans c s _ _ _ _ _ _›; have hp := ‹s.prod = _›
    obtain ⟨h1, h2, h3, h4, _, _, _, _⟩ := hb.frame
    rw [hp] at h; simp only [prodExc] at h
    simp only [raiseP, prodExc_afterBody]
    rcases hb.vis with ⟨hn, hx⟩ | ⟨hn, hx⟩
    · simp only [nextExc] at hx; simp only [h3, h4, hn, ← hx, b2n_true] at h ⊢; omega
    · simp only [h3, h4, hn, b2n_true]; omega
  case inlBodyToPtime =>
    have hb := ‹BTrans c s _ _ _ _ _ _›; have hp := ‹s.prod = _›
    obtain ⟨h1, h2, h3, h4, _, _, _, _⟩ := hb.frame
    rw [hp] at h; simp only [prodExc] at h
    rcases hb.vis with ⟨hn, hx⟩ | ⟨hn, hx⟩
    · simp only [nextExc] at hx; simp only [prodExc, h3, h4, hn, ← hx, b2n_false] at h ⊢; omega
    · simp [nextExc] at hx
  case inlBodyNext =>
    have hb := ‹BTrans c s _ _ _ _ _ _›; have hp := ‹s.prod = _›
    obtain ⟨h1, h2, h3, h4, _, _, _, _⟩ := hb.frame
    rw [hp] at h; simp only [prodExc] at h
    simp only [prodExc_nextLoop]
    rcases hb.vis with ⟨hn, hx⟩ | ⟨hn, hx⟩
    · simp only [nextExc] at hx; simp only [h3, h4, hn, ← hx, b2n_false] at h ⊢; omega
    · simp [nextExc] at hx
  case exit exc hp =>
    rw [hp] at h; simp only [prodExc] at h
    simp only [prodExc]
    rcases Bool.eq_false_or_eq_true exc with hexc | hexc
    · simp only [hexc, b2n_true] at h ⊢; simp; omega
    · simp only [hexc, b2n_false] at h ⊢
      by_cases hE : s.errors = []
      · simp [hE] at h ⊢; omega
      · have : 0 < s.errors.length := List.length_pos_iff.mpr hE
        simp [hE]; omega
  all_goals
    have hp := ‹s.prod = _›
    rw [hp] at h
    (try simp only [raiseP, prodExc_afterBody, prodExc_nextLoop, prodExc_ptimesNext, prodExc_afterJoin,
      apply_ite prodExc] at h ⊢)
    simp only [prodExc, phaseExc, b2n_true, b2n_false, ite_self, List.length_append,
      List.length_cons, List.length_nil] at h ⊢
    omega

end Fs.BulkLemmas
