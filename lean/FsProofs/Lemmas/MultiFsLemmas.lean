/-
  Helper lemmas for FsProofs/MultiRefines.lean: the functor model of MultiFS (FsModel.MultiFs).

  Part 1 — configuration: `order` is a permutation of the positions, a layer call changes one layer's
  state and nothing else.
  Part 2 — a layer that refines `Ref` (`RefinesRef`): `exists` is exact, every other call is the
  reference's or fails with an admissible class and an unchanged state (`refines_cases`).
  Part 3 — the combinators on a stack of good layers: `delegate`, `onDelegate`, `getinfoM`, `existsM`,
  `validateM`, `onWrite`.
-/
import FsModel.MultiFs
import FsProofs.WrapRefines
import FsProofs.Lemmas.RouteLemmas
import FsProofs.C01

namespace Fs.MultiFsLemmas
open Fs Fs.Ref Fs.MultiFs Fs.WrapRefines Fs.MemRefines

/-! ## Part 1 — configuration -/

section Config
variable {σ : Type}

theorem entriesFrom_map_fs (i : Nat) (ls : List (Layer σ)) :
    (entriesFrom i ls).map (·.fs) = List.range' i ls.length := by
  induction ls generalizing i with
  | nil => rfl
  | cons l ls ih => simp [entriesFrom, ih, List.range'_succ]

/-- `iterate_fs` visits every layer exactly once -/
theorem order_perm (s : MState σ) : (order s).Perm (List.range s.layers.length) := by
  unfold order entries
  have h := (RouteLemmas.MultiL.sortDesc_perm (entriesFrom 0 s.layers)).map (·.fs)
  rw [entriesFrom_map_fs, ← List.range_eq_range'] at h
  exact h

theorem order_lt (s : MState σ) (i : Nat) (h : i ∈ order s) : i < s.layers.length := by
  have := (order_perm s).mem_iff.1 h
  simpa using this

theorem order_nodup (s : MState σ) : (order s).Nodup :=
  (order_perm s).nodup_iff.2 List.nodup_range

theorem mem_order (s : MState σ) (i : Nat) (h : i < s.layers.length) : i ∈ order s :=
  (order_perm s).mem_iff.2 (by simpa using h)

/-- the part of a layer that `iterate_fs` and `write_fs` look at -/
def lmeta (l : Layer σ) : Str × Int × Nat := (l.name, l.prio, l.idx)

theorem entriesFrom_congr (i : Nat) (ls ls' : List (Layer σ)) (h : ls'.map lmeta = ls.map lmeta) :
    entriesFrom i ls' = entriesFrom i ls := by
  induction ls generalizing i ls' with
  | nil => cases ls' <;> simp_all [entriesFrom]
  | cons l ls ih =>
    cases ls' with
    | nil => simp at h
    | cons l' ls' =>
      simp only [List.map_cons, List.cons.injEq, lmeta, Prod.mk.injEq] at h
      obtain ⟨⟨h1, h2, h3⟩, h4⟩ := h
      simp [entriesFrom, h1, h2, h3, ih _ _ h4]

theorem findIdx_congr (w : Nat) (ls ls' : List (Layer σ)) (h : ls'.map lmeta = ls.map lmeta) :
    ls'.findIdx? (fun l => l.idx == w) = ls.findIdx? (fun l => l.idx == w) := by
  induction ls generalizing ls' with
  | nil => cases ls' <;> simp_all
  | cons l ls ih =>
    cases ls' with
    | nil => simp at h
    | cons l' ls' =>
      simp only [List.map_cons, List.cons.injEq, lmeta, Prod.mk.injEq] at h
      obtain ⟨⟨_, _, h3⟩, h4⟩ := h
      simp [List.findIdx?_cons, h3, ih _ h4]

/-- same configuration: the same layers up to their states, the same flags -/
structure SameCfg (s s' : MState σ) : Prop where
  metas : s'.layers.map lmeta = s.layers.map lmeta
  widx : s'.writeIdx = s.writeIdx
  sidx : s'.sortIndex = s.sortIndex
  closed : s'.closed = s.closed
  auto : s'.autoClose = s.autoClose

theorem SameCfg.refl (s : MState σ) : SameCfg s s := ⟨rfl, rfl, rfl, rfl, rfl⟩

theorem SameCfg.trans {a b c : MState σ} (h1 : SameCfg a b) (h2 : SameCfg b c) : SameCfg a c :=
  ⟨h2.metas.trans h1.metas, h2.widx.trans h1.widx, h2.sidx.trans h1.sidx, h2.closed.trans h1.closed,
   h2.auto.trans h1.auto⟩

theorem SameCfg.order {s s' : MState σ} (h : SameCfg s s') : order s' = order s := by
  unfold MultiFs.order entries; rw [entriesFrom_congr 0 _ _ h.metas]

theorem SameCfg.writePos {s s' : MState σ} (h : SameCfg s s') : writePos s' = writePos s := by
  unfold MultiFs.writePos; rw [h.widx]
  cases s.writeIdx with
  | none => rfl
  | some w => exact findIdx_congr w _ _ h.metas

theorem SameCfg.length {s s' : MState σ} (h : SameCfg s s') : s'.layers.length = s.layers.length := by
  have := congrArg List.length h.metas; simpa using this

theorem set_map_lmeta (ls : List (Layer σ)) (i : Nat) (l : Layer σ) (t : σ) (h : ls[i]? = some l) :
    (ls.set i { l with st := t }).map lmeta = ls.map lmeta := by
  induction ls generalizing i with
  | nil => simp
  | cons x xs ih =>
    cases i with
    | zero => simp at h; subst h; simp [lmeta]
    | succ j => simp at h; simp [ih j h]

theorem callLayer_cfg (F : FS σ) (s : MState σ) (i : Nat) (op : Op) : SameCfg s (callLayer F s i op).1 := by
  unfold callLayer
  cases h : s.layers[i]? with
  | none => exact SameCfg.refl s
  | some l => exact ⟨set_map_lmeta _ _ _ _ h, rfl, rfl, rfl, rfl⟩

/-- what a layer call does: the layer at position `i` makes one step, nothing else changes -/
theorem callLayer_some (F : FS σ) (s : MState σ) (i : Nat) (op : Op) (l : Layer σ) (h : s.layers[i]? = some l) :
    callLayer F s i op =
      ({ s with layers := s.layers.set i { l with st := (F l.st op).1 } }, (F l.st op).2) := by
  simp [callLayer, h]

theorem set_self (ls : List (Layer σ)) (i : Nat) (l : Layer σ) (h : ls[i]? = some l) :
    ls.set i { l with st := l.st } = ls := by
  induction ls generalizing i with
  | nil => simp
  | cons x xs ih =>
    cases i with
    | zero => simp at h; subst h; rfl
    | succ j => simp at h; simp [ih j h]

/-- a layer call that leaves the layer's state alone leaves the MultiFS alone -/
theorem callLayer_pure (F : FS σ) (s : MState σ) (i : Nat) (op : Op) (l : Layer σ) (h : s.layers[i]? = some l)
    (hp : (F l.st op).1 = l.st) : callLayer F s i op = (s, (F l.st op).2) := by
  rw [callLayer_some F s i op l h, hp, set_self _ _ _ h]

end Config


/-! ## Part 2 — a layer that refines the reference -/

/-- a layer state the refinement hypothesis `RefinesRef` speaks about -/
structure Good (t : State) : Prop where
  opn : t.closed = false
  dir : t.root.isDir = true
  wf : t.root.wf = true

theorem good_step {t : State} (G : Good t) (op : Op) (hop : op ≠ .close) : Good (Ref.step t op).1 :=
  ⟨(WrapLemmas.step_closed_same t op hop).trans G.opn, C01.ref_root_is_dir t op G.dir,
   C01.ref_wf_preserved t op G.dir G.wf⟩

/-- the operations whose reference outcome can be the loose mid-way failure / the known deviation -/
def bulk : Op → Bool
  | .movedir _ _ _ | .copydir _ _ _ => true
  | _ => false

theorem step1_not_loose (s : State) (cs : List Name) (op : Op) : (step1 s cs op).2 ≠ .err .OperationFailed := by
  cases op <;> simp only [step1, writeFile] <;> (repeat' split) <;> simp [fail, done, upd]

theorem step2_not_loose (s : State) (a b : List Name) (op : Op) (hb : bulk op = false) :
    (step2 s a b op).2 ≠ .err .OperationFailed := by
  cases op <;> simp [bulk] at hb <;> simp only [step2] <;> (repeat' split) <;> simp [fail, done, upd]

theorem validate_not_loose (p : Str) : validate p ≠ .err .OperationFailed := by
  intro h
  rcases QueryLemmas.validate_err_cases p _ h with h' | h' <;> cases h'

theorem not_loose (t : State) (op : Op) (hb : bulk op = false) : (Ref.step t op).2 ≠ .err .OperationFailed := by
  by_cases hop : op = .close
  · subst hop; simp [Ref.step]
  cases hc : t.closed with
  | true => rw [QueryLemmas.step_closed t op hop hc]; simp [fail]
  | false =>
    rcases QueryLemmas.op_cases op with h | ⟨p, m, rfl⟩ | ⟨p, hp, hno⟩ | ⟨a, b, hp⟩
    · exact absurd h hop
    · rw [QueryLemmas.step_openbin t p m hc]
      split
      · simp [fail]
      · cases hv : validate p with
        | err e => intro h; simp [fail] at h; subst h; exact validate_not_loose p hv
        | ok cs => exact step1_not_loose t cs _
    · rw [QueryLemmas.step_one t op p hc hp hno]
      cases hv : validate p with
      | err e => intro h; simp [fail] at h; subst h; exact validate_not_loose p hv
      | ok cs => exact step1_not_loose t cs op
    · rw [QueryLemmas.step_two t op a b hc hp]
      cases hva : validate a with
      | err e => intro h; simp [fail] at h; subst h; exact validate_not_loose a hva
      | ok ca =>
        cases hvb : validate b with
        | err e => intro h; simp [fail] at h; subst h; exact validate_not_loose b hvb
        | ok cb => exact step2_not_loose t ca cb op hb

theorem not_dev (op : Op) (hb : bulk op = false) : ¬ knownDeviation op := by
  cases op <;> simp [bulk] at hb <;> simp [knownDeviation]

/-- the single interface to a layer `F` that refines the reference: a call is the reference's call,
or both fail, the layer's state is unchanged and its class is admissible -/
theorem refines_cases (F : FS State) (hF : RefinesRef F) (t : State) (G : Good t) (op : Op) (hb : bulk op = false) :
    ((Ref.step t op).2.isOk = true ∧ F t op = Ref.step t op) ∨
    (∃ e e', Ref.step t op = (t, .err e) ∧ F t op = (t, .err e') ∧ e' ∈ adm t op) := by
  obtain ⟨h1, h2, h3⟩ := hF t op G.opn G.dir G.wf (not_dev op hb) (not_loose t op hb)
  cases hr : (Ref.step t op).2 with
  | ok v => exact Or.inl ⟨by simp [Res.isOk], h2 (by simp [hr, Res.isOk])⟩
  | err e =>
    right
    have hF2 : (F t op).2.isOk = false := by rw [h1, hr]; rfl
    cases hf : (F t op).2 with
    | ok v => rw [hf] at hF2; cases hF2
    | err e' =>
      obtain ⟨ha, hs⟩ := h3 e' hf
      refine ⟨e, e', ?_, ?_, ha⟩
      · have := C06.failed_step_unchanged t op e hr
        exact Prod.ext this hr
      · exact Prod.ext hs hf


/-! ## Part 3 — the combinators on a stack of good layers -/

open Fs.WrapLemmas in
/-- a path that validates normalises to the absolute join of its components, which validates to the
same components -/
theorem normRes_of_validate {p : Str} {cs : List Name} (h : validate p = .ok cs) :
    normRes p = .ok (absOf cs) ∧ validate (absOf cs) = .ok cs := by
  have hcl := TreeLemmas.validate_clean p cs h
  have hr := validate_ok_resolve h
  refine ⟨?_, validate_absOf hcl⟩
  unfold normRes
  rw [ConfineLemmas.normpath_of_resolve p cs hr]
  simp only [absOf]
  rw [PathLemmas.abspath_mkp (clean_of_cleanName hcl)]

theorem ref_exists (t : State) (hc : t.closed = false) (p : Str) :
    Ref.step t (.exists_ p) = match validate p with
      | .err e => (t, .err e)
      | .ok cs => (t, .ok (.bool (t.root.get cs).isSome)) := by
  rw [QueryLemmas.step_one t _ p hc rfl (by intro q m h; cases h)]
  cases validate p <;> rfl

/-- `exists` of a layer that refines the reference IS the reference's (class included) -/
theorem exists_exact (F : FS State) (hF : RefinesRef F) (t : State) (G : Good t) (p : Str) :
    F t (.exists_ p) = Ref.step t (.exists_ p) := by
  rcases refines_cases F hF t G (.exists_ p) rfl with ⟨_, h⟩ | ⟨e, e', hr, hf, ha⟩
  · exact h
  · rw [hf, hr]
    rw [QueryLemmas.adm_one t _ p G.opn rfl (by intro q m h; cases h)] at ha
    rw [ref_exists t G.opn] at hr
    cases hv : validate p with
    | ok cs => rw [hv] at hr; simp at hr
    | err e0 =>
      rw [hv] at hr ha
      simp at hr ha
      rw [ha, hr]

def AllGood (s : MState State) : Prop := ∀ l ∈ s.layers, Good l.st

/-- the layer at position `i` has the path -/
def hasAt (s : MState State) (cs : List Name) (i : Nat) : Bool :=
  match s.layers[i]? with
  | some l => (l.st.root.get cs).isSome
  | none => false

theorem callLayer_exists (F : FS State) (hF : RefinesRef F) (s : MState State) (hg : AllGood s) (p : Str)
    (i : Nat) (hi : i < s.layers.length) :
    callLayer F s i (.exists_ p) = (s, match validate p with
      | .err e => .err e
      | .ok cs => .ok (.bool (hasAt s cs i))) := by
  obtain ⟨l, hl⟩ : ∃ l, s.layers[i]? = some l := ⟨s.layers[i], by simp [hi]⟩
  have G : Good l.st := hg l (List.mem_of_getElem? hl)
  have hx := exists_exact F hF l.st G p
  rw [ref_exists l.st G.opn] at hx
  have hst : (F l.st (.exists_ p)).1 = l.st := by rw [hx]; cases validate p <;> rfl
  rw [callLayer_pure F s i _ l hl hst, hx]
  cases validate p <;> simp [hasAt, hl]

theorem delegateLoop_spec (F : FS State) (hF : RefinesRef F) (s : MState State) (hg : AllGood s) (p : Str) :
    ∀ (is : List Nat), (∀ i ∈ is, i < s.layers.length) →
    delegateLoop F p is s = (s, match validate p with
      | .err e => if is = [] then .ok none else .err e
      | .ok cs => .ok (is.find? (hasAt s cs))) := by
  intro is
  induction is with
  | nil => intro _; cases validate p <;> simp [delegateLoop]
  | cons i is ih =>
    intro hlt
    have hi := hlt i (by simp)
    have ih' := ih (fun j hj => hlt j (by simp [hj]))
    rw [delegateLoop, callLayer_exists F hF s hg p i hi]
    cases hv : validate p with
    | err e => simp
    | ok cs =>
      rw [hv] at ih'
      cases hh : hasAt s cs i with
      | true => simp [hh]
      | false => simp only [List.find?_cons, hh]; exact ih'

theorem delegate_spec (F : FS State) (hF : RefinesRef F) (s : MState State) (hg : AllGood s) (p : Str) :
    delegate F s p = (s, match validate p with
      | .err e => if order s = [] then .ok none else .err e
      | .ok cs => .ok ((order s).find? (hasAt s cs))) :=
  delegateLoop_spec F hF s hg p (order s) (fun i hi => order_lt s i hi)

theorem onDelegate_eq (F : FS State) (hF : RefinesRef F) (s : MState State) (hg : AllGood s) (p : Str) (op : Op)
    (onNone : Out) :
    onDelegate F s p op onNone = match validate p with
      | .err e => if order s = [] then (s, onNone) else (s, .err e)
      | .ok cs =>
        match (order s).find? (hasAt s cs) with
        | none => (s, onNone)
        | some i => callLayer F s i op := by
  unfold onDelegate
  rw [delegate_spec F hF s hg p]
  cases hv : validate p with
  | err e => by_cases ho : order s = [] <;> simp [ho]
  | ok cs => dsimp only; generalize (order s).find? (hasAt s cs) = o; cases o <;> simp

theorem getinfoM_eq (F : FS State) (hF : RefinesRef F) (s : MState State) (hg : AllGood s) (p : Str) :
    getinfoM F s p = match validate p with
      | .err e => if order s = [] then (s, .err .ResourceNotFound) else (s, .err e)
      | .ok cs =>
        match (order s).find? (hasAt s cs) with
        | none => (s, .err .ResourceNotFound)
        | some i => callLayer F s i (.getinfo (WrapLemmas.absOf cs)) := by
  unfold getinfoM
  rw [delegate_spec F hF s hg p]
  cases hv : validate p with
  | err e => by_cases ho : order s = [] <;> simp [ho]
  | ok cs =>
    dsimp only
    generalize (order s).find? (hasAt s cs) = o
    cases o with
    | none => simp
    | some i => simp [(normRes_of_validate hv).1]


/-! ## Part 4 — layer calls, `existsM`, `validateM`, listings -/

/-- the reference's own error is admissible (no loose failure outside the bulk operations) -/
theorem ref_err_adm (t : State) (G : Good t) (op : Op) (hb : bulk op = false) (e : Err)
    (h : (Ref.step t op).2 = .err e) : e ∈ adm t op := by
  rcases C06.ref_error_truthful t op e G.dir h with h' | h'
  · exact h'
  · subst h'; exact absurd h (not_loose t op hb)

/-- a call on the layer at position `i` of a stack of good layers: the reference's call on that layer,
or both fail, nothing changes and the class is admissible for that layer -/
theorem callLayer_cases (F : FS State) (hF : RefinesRef F) (s : MState State) (hg : AllGood s) (i : Nat)
    (l : Layer State) (hl : s.layers[i]? = some l) (op : Op) (hb : bulk op = false) :
    ((Ref.step l.st op).2.isOk = true ∧
      callLayer F s i op =
        ({ s with layers := s.layers.set i { l with st := (Ref.step l.st op).1 } }, (Ref.step l.st op).2)) ∨
    (∃ e e', Ref.step l.st op = (l.st, .err e) ∧ callLayer F s i op = (s, .err e') ∧ e' ∈ adm l.st op) := by
  have G : Good l.st := hg l (List.mem_of_getElem? hl)
  rcases refines_cases F hF l.st G op hb with ⟨hok, h⟩ | ⟨e, e', hr, hf, ha⟩
  · left; refine ⟨hok, ?_⟩; rw [callLayer_some F s i op l hl, h]
  · right; refine ⟨e, e', hr, ?_, ha⟩
    rw [callLayer_pure F s i op l hl (by rw [hf]), hf]

/-- a query answered by the reference: the layer answers the same and nothing changes -/
theorem callLayer_query (F : FS State) (hF : RefinesRef F) (s : MState State) (hg : AllGood s) (i : Nat)
    (l : Layer State) (hl : s.layers[i]? = some l) (op : Op) (hb : bulk op = false)
    (hq : (Ref.step l.st op).1 = l.st) (hok : (Ref.step l.st op).2.isOk = true) :
    callLayer F s i op = (s, (Ref.step l.st op).2) := by
  rcases callLayer_cases F hF s hg i l hl op hb with ⟨_, h⟩ | ⟨e, _, hr, _, _⟩
  · rw [h, hq, set_self _ _ _ hl]
  · rw [hr] at hok; cases hok

theorem validate_err_ne_rnf {p : Str} {e : Err} (h : validate p = .err e) : e ≠ .ResourceNotFound := by
  rcases QueryLemmas.validate_err_cases p e h with h' | h' <;> subst h' <;> simp

open Fs.WrapLemmas in
theorem ref_getinfo_abs (t : State) (hc : t.closed = false) (cs : List Name) (hcl : ∀ c ∈ cs, cleanName c = true) :
    Ref.step t (.getinfo (absOf cs)) = step1 t cs (.getinfo (absOf cs)) := by
  rw [QueryLemmas.step_one t _ (absOf cs) hc rfl (by intro q m h; cases h), validate_absOf hcl]

/-- some layer (in `iterate_fs` order) has the path -/
def anyHas (s : MState State) (cs : List Name) : Bool := ((order s).find? (hasAt s cs)).isSome

theorem find_hasAt {s : MState State} {cs : List Name} {i : Nat} (h : (order s).find? (hasAt s cs) = some i) :
    ∃ l n, s.layers[i]? = some l ∧ l.st.root.get cs = some n := by
  have h1 := List.find?_some h
  unfold hasAt at h1
  cases hl : s.layers[i]? with
  | none => rw [hl] at h1; cases h1
  | some l =>
    rw [hl] at h1
    simp only at h1
    cases hn : l.st.root.get cs with
    | none => rw [hn] at h1; cases h1
    | some n => exact ⟨l, n, rfl, hn⟩

open Fs.WrapLemmas in
/-- `getinfo` on a stack of good layers: the `Info` of the first layer that has the path -/
theorem getinfoM_has (F : FS State) (hF : RefinesRef F) (s : MState State) (hg : AllGood s) (p : Str)
    (cs : List Name) (hv : validate p = .ok cs) (i : Nat) (hf : (order s).find? (hasAt s cs) = some i)
    (l : Layer State) (n : Node) (hl : s.layers[i]? = some l) (hn : l.st.root.get cs = some n) :
    getinfoM F s p = (s, .ok (match n with
      | .file b => .info (lastName cs) false b.length
      | .dir _ => .info (lastName cs) true 0)) := by
  have G : Good l.st := hg l (List.mem_of_getElem? hl)
  have hcl := TreeLemmas.validate_clean p cs hv
  rw [getinfoM_eq F hF s hg p, hv]
  simp only [hf]
  have href : Ref.step l.st (.getinfo (absOf cs)) = (l.st, .ok (match n with
      | .file b => .info (lastName cs) false b.length
      | .dir _ => .info (lastName cs) true 0)) := by
    rw [ref_getinfo_abs l.st G.opn cs hcl]
    cases n <;> simp [step1, hn, done]
  rw [callLayer_query F hF s hg i l hl _ rfl (by rw [href]) (by rw [href]; rfl), href]

/-- `FS.exists` on a stack of good layers -/
theorem existsM_eq (F : FS State) (hF : RefinesRef F) (s : MState State) (hg : AllGood s) (p : Str) :
    existsM F s p = (s, match validate p with
      | .err e => if order s = [] then .ok (.bool false) else .err e
      | .ok cs => .ok (.bool (anyHas s cs))) := by
  unfold existsM
  cases hv : validate p with
  | err e =>
    rw [getinfoM_eq F hF s hg p, hv]
    by_cases ho : order s = []
    · simp [ho]
    · simp only [ho, if_false]
      have := validate_err_ne_rnf hv
      cases e <;> simp_all
  | ok cs =>
    cases hf : (order s).find? (hasAt s cs) with
    | none =>
      rw [getinfoM_eq F hF s hg p, hv]; simp [hf, anyHas]
    | some i =>
      obtain ⟨l, n, hl, hn⟩ := find_hasAt hf
      rw [getinfoM_has F hF s hg p cs hv i hf l n hl hn]
      simp [anyHas, hf]

open Fs.WrapLemmas in
/-- `MultiFS.validatepath` with a write layer: the reference's `validate`, the absolute normal form -/
theorem validateM_eq (F : FS State) (hF : RefinesRef F) (s : MState State) (hg : AllGood s) (p : Str)
    (w : Nat) (hw : writePos s = some w) (hlt : w < s.layers.length) :
    validateM F s p = (s, match validate p with
      | .err e => .err e
      | .ok cs => .ok (absOf cs)) := by
  unfold validateM
  rw [hw]
  simp only
  rw [callLayer_exists F hF s hg p w hlt]
  cases hv : validate p with
  | err e => rfl
  | ok cs => simp [(normRes_of_validate hv).1]

theorem dedupGo_nodup (seen l : List Name) (hn : l.Nodup) (hd : ∀ x ∈ l, x ∉ seen) : Multi.dedupGo seen l = l := by
  induction l generalizing seen with
  | nil => rfl
  | cons x xs ih =>
    have hx := hd x (by simp)
    simp only [Multi.dedupGo, hx, if_false]
    rw [ih (x :: seen) (List.nodup_cons.1 hn).2]
    intro y hy
    simp only [List.mem_cons, not_or]
    exact ⟨fun h => (List.nodup_cons.1 hn).1 (h ▸ hy), hd y (by simp [hy])⟩

theorem dedup_nodup (l : List Name) (hn : l.Nodup) : Multi.dedup l = l :=
  dedupGo_nodup [] l hn (by simp)


/-! ## Part 5 — `close`, the C17 routing model -/

section
variable {σ : Type}

theorem closeLoop_all (F : FS σ) : ∀ (post pre : List (Layer σ)) (s : MState σ), s.layers = pre ++ post →
    (∀ l ∈ post, (F l.st .close).2.isOk = true) →
    closeLoop F (List.range' pre.length post.length) s =
      ({ s with layers := pre ++ post.map fun l => { l with st := (F l.st .close).1 } }, .ok .unit) := by
  intro post
  induction post with
  | nil =>
    intro pre s hs _
    simp only [List.length_nil, List.range'_zero, closeLoop, List.map_nil, List.append_nil]
    rw [← List.append_nil pre, ← hs]
  | cons l post ih =>
    intro pre s hs hok
    have hl : s.layers[pre.length]? = some l := by simp [hs]
    rw [List.length_cons, List.range'_succ, closeLoop, callLayer_some F s _ _ l hl]
    have h1 := hok l (by simp)
    cases hr : (F l.st .close).2 with
    | err e => rw [hr] at h1; cases h1
    | ok v =>
      simp only
      have hset : s.layers.set pre.length { l with st := (F l.st .close).1 } =
          (pre ++ [{ l with st := (F l.st .close).1 }]) ++ post := by
        rw [hs]; simp
      have := ih (pre ++ [{ l with st := (F l.st .close).1 }])
        { s with layers := s.layers.set pre.length { l with st := (F l.st .close).1 } } hset
        (fun x hx => hok x (by simp [hx]))
      simp only [List.length_append, List.length_singleton] at this
      rw [this]
      simp

end

theorem ofList_get (s : MState State) (i : Nat) (l : Layer State) (h : s.layers[i]? = some l) :
    Route.Fss.ofList (s.layers.map (·.st)) i = l.st := by
  simp [Route.Fss.ofList, h]

theorem delegateLoop_route (s : MState State) (p : Str) : ∀ (es : List Multi.Entry),
    (∀ e ∈ es, e.fs < s.layers.length) → ∀ f : Route.Fss, (∀ i, f i = Route.Fss.ofList (s.layers.map (·.st)) i) →
    delegateLoop Ref.step p (es.map (·.fs)) s = (s, (Multi.delegateLoop f p es).2.1) := by
  intro es
  induction es with
  | nil => intro _ f _; rfl
  | cons e es ih =>
    intro hlt f hf
    have hi := hlt e (by simp)
    obtain ⟨l, hl⟩ : ∃ l, s.layers[e.fs]? = some l := ⟨s.layers[e.fs], by simp [hi]⟩
    have hpure : (Ref.step l.st (.exists_ p)).1 = l.st := RouteLemmas.step_query_state _ _ rfl
    have hfe : f e.fs = l.st := by rw [hf, ofList_get s _ l hl]
    simp only [List.map_cons, delegateLoop, Multi.delegateLoop, Route.memberCall]
    rw [callLayer_pure Ref.step s e.fs _ l hl hpure, hfe]
    have hf' : ∀ i, (f.set e.fs (Ref.step l.st (.exists_ p)).1) i = Route.Fss.ofList (s.layers.map (·.st)) i := by
      intro i
      rw [hpure, ← hfe, RouteLemmas.set_self]; exact hf i
    have ih' := ih (fun x hx => hlt x (by simp [hx])) _ hf'
    cases hr : (Ref.step l.st (.exists_ p)).2 with
    | err er => simp
    | ok v =>
      cases v with
      | bool b => cases b <;> simp [ih']
      | _ => simp [ih']

theorem entries_fs_lt (s : MState State) : ∀ e ∈ entries s, e.fs < s.layers.length := by
  intro e he
  have : e.fs ∈ (entries s).map (·.fs) := List.mem_map_of_mem he
  rw [entries, entriesFrom_map_fs] at this
  simpa using this


theorem find_congr_mem {α : Type} (p q : α → Bool) : ∀ (l : List α), (∀ x ∈ l, p x = q x) → l.find? p = l.find? q
  | [], _ => rfl
  | x :: xs, h => by
    simp only [List.find?_cons, h x (by simp)]
    rw [find_congr_mem p q xs (fun y hy => h y (by simp [hy]))]


end Fs.MultiFsLemmas
