/-
  Helper lemmas for `FsProofs/GlobGenEq.lean`; nothing here mentions the generated definitions.
  `glob._translate` is `wildcard._translate` with three differences (a `**` raises ValueError, `?` is `[^/]`,
  a bracket expression is preceded by `(?!/)`), so the index lemmas of `WildGenLemmas` are reused.
  Core Lean only.
-/
import FsModel.Glob
import FsProofs.Lemmas.WildGenLemmas

namespace Fs.GlobGenLemmas
open Fs Fs.PyStr Fs.PyRe Fs.PyStrLemmas Fs.PathGenLemmas Fs.WildGenLemmas Fs.Regex

theorem gtextGo_skip (s : Str) (k : Nat) : Glob.textGo s k = Glob.textGo (s.drop k) 0 := by
  induction s generalizing k with
  | nil => simp [Glob.textGo]
  | cons c r ih =>
    cases k with
    | zero => rfl
    | succ k => simp only [Glob.textGo, List.drop_succ_cons]; exact ih k

/-- one round of the outer loop of `glob._translate` -/
def gstep (pat : Str) (s : Nat × List Str) : Flow (Nat × List Str) Empty :=
  match pat[s.1]? with
  | none => .brk s
  | some c =>
    if c = '*' then
      (if pat[s.1 + 1]? = some '*' then .exc .ValueError
       else .next (s.1 + 1, s.2 ++ [['[', '^', '/', ']', '*']]))
    else if c = '?' then .next (s.1 + 1, s.2 ++ [['[', '^', '/', ']']])
    else if c = '[' then
      (if bracketEnd pat (s.1 + 1) < pat.length then
        .next (bracketEnd pat (s.1 + 1) + 1,
          s.2 ++ [['(', '?', '!', '/', ')'] ++
            Wild.classText ['^'] ((pat.take (bracketEnd pat (s.1 + 1))).drop (s.1 + 1))])
       else .next (s.1 + 1, s.2 ++ [['\\', '[']]))
    else .next (s.1 + 1, s.2 ++ [Wild.reEscape c])

/-- what the loop of `glob._translate` yields, in terms of the hand model's `textGo` -/
def gout (res : List Str) (r : TR Str) (w : LoopOut (Nat × List Str) Empty) : Prop :=
  match r with
  | .ok t => ∃ i' res', w = .done (i', res') ∧ res'.flatten = res.flatten ++ t
  | .err e => e = .valueError ∧ w = .exc .ValueError

theorem gout_tappend (res : List Str) (a : Str) (r : TR Str) (w : LoopOut (Nat × List Str) Empty)
    (h : gout (res ++ [a]) r w) : gout res (Glob.tappend a r) w := by
  cases r with
  | err e => exact h
  | ok t =>
    obtain ⟨i', res', e1, e2⟩ := h
    exact ⟨i', res', e1, by rw [e2]; simp [List.flatten_append]⟩

theorem pyWhile_gstep (pat : Str) (f : Nat × List Str → Flow (Nat × List Str) Empty)
    (hf : ∀ s, f s = gstep pat s) (fuel i : Nat) (res : List Str) (h : pat.length - i < fuel) :
    gout res (Glob.textGo (pat.drop i) 0) (pyWhile fuel (i, res) f) := by
  induction fuel generalizing i res with
  | zero => omega
  | succ n ih =>
    rw [pyWhile, hf, gstep]
    cases hc : pat[i]? with
    | none =>
      have : pat.length ≤ i := by
        rcases Nat.lt_or_ge i pat.length with h' | h'
        · rw [List.getElem?_eq_getElem h'] at hc; cases hc
        · exact h'
      simp only [List.drop_eq_nil_of_le this, Glob.textGo]
      exact ⟨i, res, rfl, by simp⟩
    | some c =>
      have hd := drop_eq_cons_of_getElem? pat i c hc
      have hi : i < pat.length := by
        rcases Nat.lt_or_ge i pat.length with h' | h'
        · exact h'
        · rw [List.getElem?_eq_none h'] at hc; cases hc
      simp only [hd, Glob.textGo]
      by_cases h1 : c = '*'
      · simp only [h1, if_true]
        have hh : (pat.drop (i + 1)).head? = pat[i + 1]? := by simp [List.head?_drop]
        rw [hh]
        by_cases hss : pat[i + 1]? = some '*'
        · simp only [hss, if_true]; exact ⟨rfl, rfl⟩
        · simp only [hss, if_false]
          exact gout_tappend _ _ _ _ (ih (i + 1) _ (by omega))
      · by_cases h2 : c = '?'
        · simp only [h1, h2, if_true, if_false]
          exact gout_tappend _ _ _ _ (ih (i + 1) _ (by omega))
        · by_cases h3 : c = '['
          · simp only [h1, h2, h3, if_true, if_false]
            rw [scanClass_eq_relEnd, bracketEnd_eq]
            have hl : (pat.drop (i + 1)).length = pat.length - (i + 1) := by simp
            by_cases hk : relEnd (pat.drop (i + 1)) < (pat.drop (i + 1)).length
            · have hk' : i + 1 + relEnd (pat.drop (i + 1)) < pat.length := by omega
              simp only [hk, hk', if_true]
              have e3 : List.drop (i + 1) (List.take (i + 1 + relEnd (pat.drop (i + 1))) pat) =
                  List.take (relEnd (pat.drop (i + 1))) (pat.drop (i + 1)) := by
                rw [List.drop_take]; congr 1; omega
              have e4 : (List.take (relEnd (pat.drop (i + 1))) (pat.drop (i + 1))).length =
                  relEnd (pat.drop (i + 1)) := by
                rw [List.length_take]; omega
              have e5 : Glob.textGo (pat.drop (i + 1))
                  ((List.take (relEnd (pat.drop (i + 1))) (pat.drop (i + 1))).length + 1) =
                  Glob.textGo (pat.drop (i + 1 + relEnd (pat.drop (i + 1)) + 1)) 0 := by
                rw [gtextGo_skip, e4, List.drop_drop]; congr 2
              rw [e3, e5]
              have := ih (i + 1 + relEnd (pat.drop (i + 1)) + 1)
                (res ++ [['(', '?', '!', '/', ')'] ++
                  Wild.classText ['^'] (List.take (relEnd (pat.drop (i + 1))) (pat.drop (i + 1)))]) (by omega)
              exact gout_tappend _ _ _ _ this
            · have hk' : ¬ i + 1 + relEnd (pat.drop (i + 1)) < pat.length := by omega
              simp only [hk, hk', if_false]
              exact gout_tappend _ _ _ _ (ih (i + 1) _ (by omega))
          · simp only [h1, h2, h3, if_false]
            exact gout_tappend _ _ _ _ (ih (i + 1) _ (by omega))

theorem pyWhile_gstep' (pat : Str) (f : Nat × List Str → Flow (Nat × List Str) Empty)
    (hf : ∀ s, f s = gstep pat s) (fuel i : Nat) (res : List Str) (h : pat.length - i < fuel)
    (w : LoopOut (Nat × List Str) Empty) (hW : pyWhile fuel (i, res) f = w) :
    gout res (Glob.textGo (pat.drop i) 0) w := by
  rw [← hW]; exact pyWhile_gstep pat f hf fuel i res h

/-! ### `_translate_glob` -/

/-- a result of the hand model in the vocabulary of generated code (inverse of `toTR` on what occurs) -/
def ofTR : TR α → Res α
  | .ok a => .ok a
  | .err e => .err (errOfTErr e)

theorem toTR_ofTR (r : TR α) : toTR (ofTR r) = r := by
  cases r with
  | ok a => rfl
  | err e => cases e <;> rfl

theorem gtextGo_err (s : Str) (k : Nat) (e : TErr) (h : Glob.textGo s k = .err e) : e = .valueError := by
  induction s generalizing k with
  | nil => simp [Glob.textGo] at h
  | cons c r ih =>
    cases k with
    | succ k => simp only [Glob.textGo] at h; exact ih k h
    | zero =>
      simp only [Glob.textGo] at h
      have tapp : ∀ (a : Str) (k : Nat), Glob.tappend a (Glob.textGo r k) = .err e → e = .valueError := by
        intro a k h'
        cases hr : Glob.textGo r k with
        | ok t => rw [hr] at h'; cases h'
        | err e' => rw [hr] at h'; cases h'; exact ih k hr
      split at h
      · split at h
        · cases h; rfl
        · exact tapp _ _ h
      · split at h
        · exact tapp _ _ h
        · split at h
          · split at h
            · exact tapp _ _ h
            · exact tapp _ _ h
          · exact tapp _ _ h

theorem hasSS_cons (x y : Char) (r : Str) (h : ¬ (x = '*' ∧ y = '*')) :
    Glob.hasSS (x :: y :: r) = Glob.hasSS (y :: r) := by
  rw [Glob.hasSS]
  intro r' hx hy
  simp at hy; exact h ⟨hx, hy.1⟩

theorem splitSS_cons (x y : Char) (r : Str) (h : ¬ (x = '*' ∧ y = '*')) :
    Glob.splitSS (x :: y :: r) =
      (match Glob.splitSS (y :: r) with | hd :: t => (x :: hd) :: t | [] => [[x]]) := by
  rw [Glob.splitSS]
  · rfl
  · intro r' hx hy
    simp at hy; exact h ⟨hx, hy.1⟩

/-- `"**" in component` -/
theorem pyIn_ss (c : Str) : pyIn ['*', '*'] c = Glob.hasSS c := by
  induction c with
  | nil => rfl
  | cons x r ih =>
    cases r with
    | nil => simp [pyIn, Path.startsWith, Glob.hasSS]
    | cons y r' =>
      by_cases hxy : x = '*' ∧ y = '*'
      · obtain ⟨rfl, rfl⟩ := hxy
        simp [pyIn, Path.startsWith, Glob.hasSS, startsWith_nil]
      · rw [hasSS_cons x y r' hxy, ← ih]
        have : Path.startsWith (x :: y :: r') ['*', '*'] = false := by
          simp only [Path.startsWith, startsWith_nil, Bool.and_true]
          by_cases hx : x = '*'
          · have hy : ¬ y = '*' := fun e => hxy ⟨hx, e⟩
            simp [hx, hy]
          · simp [hx]
        simp only [pyIn, this, Bool.false_or]

/-- `component.split("**")` -/
theorem pySplitS_ss_aux : ∀ (n : Nat) (c : Str), c.length ≤ n → splitSGo ['*', '*'] c 0 = Glob.splitSS c := by
  intro n
  induction n with
  | zero => intro c h; cases c with
    | nil => rfl
    | cons x r => simp at h
  | succ n ih =>
    intro c h
    match c with
    | [] => rfl
    | [x] =>
      simp [splitSGo, Path.startsWith, Glob.splitSS]
    | x :: y :: r =>
      by_cases hxy : x = '*' ∧ y = '*'
      · obtain ⟨rfl, rfl⟩ := hxy
        have e : splitSGo ['*', '*'] ('*' :: '*' :: r) 0 = [] :: splitSGo ['*', '*'] r 0 := by
          simp [splitSGo, Path.startsWith, startsWith_nil]
        rw [e, ih r (by simp at h; omega)]
        rfl
      · have hsw : Path.startsWith (x :: y :: r) ['*', '*'] = false := by
          simp only [Path.startsWith, startsWith_nil, Bool.and_true]
          by_cases hx : x = '*'
          · have hy : ¬ y = '*' := fun e => hxy ⟨hx, e⟩
            simp [hx, hy]
          · simp [hx]
        have e : splitSGo ['*', '*'] (x :: y :: r) 0 =
            (match splitSGo ['*', '*'] (y :: r) 0 with | hd :: t => (x :: hd) :: t | [] => [[x]]) := by
          rw [splitSGo]; simp only [hsw, Bool.and_false, Bool.false_eq_true, if_false]; rfl
        rw [e, splitSS_cons x y r hxy, ih (y :: r) (by simp at h ⊢; omega)]

theorem pySplitS_ss (c : Str) : pySplitS c ['*', '*'] = Glob.splitSS c :=
  pySplitS_ss_aux c.length c (Nat.le_refl _)

theorem pyJoinS_eq_joinStr (sep : Str) (l : List Str) : pyJoinS sep l = Glob.joinStr sep l := by
  induction l with
  | nil => rfl
  | cons a r ih =>
    cases r with
    | nil => rfl
    | cons b r' => simp only [pyJoinS, Glob.joinStr]; rw [ih]

theorem pyMapM_ofTR {α β} (g : α → TR β) (l : List α) :
    pyMapM l (fun a => ofTR (g a)) = ofTR (Glob.mapM' g l) := by
  induction l with
  | nil => rfl
  | cons a r ih =>
    simp only [pyMapM, Glob.mapM']
    rw [ih]
    cases g a with
    | err e => rfl
    | ok b => cases Glob.mapM' g r <;> rfl

/-- one round of the component loop of `_translate_glob`: state = (recursive, re_patterns) -/
def compStep (c : Str) (s : Bool × List Str) : Flow (Bool × List Str) Empty :=
  match ofTR (Glob.compText c) with
  | .err e => .exc e
  | .ok t => .next (s.1 || Glob.hasSS c, s.2 ++ [t])

theorem pyFor_compStep (f : Str → Bool × List Str → Flow (Bool × List Str) Empty)
    (hf : ∀ c s, f c s = compStep c s) (comps : List Str) (rec_ : Bool) (pats : List Str) :
    pyFor comps (rec_, pats) f =
      (match ofTR (Glob.mapM' Glob.compText comps) with
       | .err e => .exc e
       | .ok pieces => .done (rec_ || comps.any Glob.hasSS, pats ++ pieces)) := by
  induction comps generalizing rec_ pats with
  | nil => simp [pyFor, Glob.mapM', ofTR]
  | cons c cs ih =>
    rw [pyFor, hf, compStep, Glob.mapM']
    cases hct : Glob.compText c with
    | err e => rfl
    | ok t =>
      simp only [ofTR]
      rw [ih]
      cases Glob.mapM' Glob.compText cs with
      | err e => rfl
      | ok pieces => simp [ofTR, TR.map, Bool.or_assoc]

/-! ### `get_matcher(..., accept_prefix=True)`: the loops that build the prefix patterns -/

/-- a loop whose body only appends to its accumulator -/
theorem pyFor_append {α β : Type} (h : α → List β) (f : α → List β → Flow (List β) Empty)
    (hf : ∀ x s, f x s = .next (s ++ h x)) (xs : List α) (acc : List β) :
    pyFor xs acc f = .done (acc ++ xs.flatMap h) := by
  induction xs generalizing acc with
  | nil => simp [pyFor]
  | cons x xs ih => rw [pyFor, hf]; simp only []; rw [ih]; simp

theorem range'_one_eq_tail (n : Nat) : List.range' 1 (n - 1) = (List.range n).tail := by
  cases n with
  | zero => rfl
  | succ n => simp [List.range_succ_eq_map, List.range'_eq_map_range, Nat.add_comm]

/-- `for i, component in enumerate(split): if "**" in component: append(g i); break` -/
theorem pyFor_firstSS (g : Nat → Str) (f : Nat × Str → List Str → Flow (List Str) Empty)
    (hf : ∀ x s, f x s = if Glob.hasSS x.2 then .brk (s ++ [g x.1]) else .next s)
    (l : List Str) (off : Nat) (acc : List Str) :
    pyFor ((List.range' off l.length).zip l) acc f =
      .done (acc ++ (match Glob.firstSS l off with | some i => [g i] | none => [])) := by
  induction l generalizing off with
  | nil => simp [pyFor, Glob.firstSS]
  | cons c cs ih =>
    simp only [List.length_cons, List.range'_succ, List.zip_cons_cons, pyFor, hf, Glob.firstSS]
    by_cases hc : Glob.hasSS c = true
    · simp [hc]
    · simp only [hc, Bool.false_eq_true, if_false]
      exact ih (off + 1)

theorem pyEnumerate_eq {α} (l : List α) : pyEnumerate l = (List.range' 0 l.length).zip l := by
  simp [pyEnumerate, List.range_eq_range']

/-- what `get_matcher` adds for one pattern -/
def prefixOf (pat : Str) : List Str :=
  let split := Path.splitSlash pat
  ((List.range split.length).tail.flatMap fun i =>
      [Path.joinSlash (split.take i), Path.joinSlash (split.take i) ++ ['/']]) ++
    (match Glob.firstSS split 0 with
     | some i => [Path.joinSlash (split.take i ++ [['*', '*']])]
     | none => []) ++ [pat]

theorem prefixPatterns_eq (ps : List Str) : Glob.prefixPatterns ps = ps.flatMap prefixOf := by
  induction ps with
  | nil => rfl
  | cons p ps ih =>
    simp only [Glob.prefixPatterns, List.flatMap_cons, prefixOf, ih]
    simp only [List.append_assoc, List.cons_append, List.nil_append, List.append_cancel_left_eq]
    cases Glob.firstSS (Path.splitSlash p) 0 <;> rfl

/-! ### `_split_pattern_by_sep`: indices of the separating slashes, then slices between them -/

/-- absolute positions (counted from `k`) of the `/` outside brackets -/
def sepIdx : Str → Bool → Nat → List Nat
  | [], _, _ => []
  | c :: cs, o, k =>
    if c = '/' ∧ o = false then k :: sepIdx cs o (k + 1)
    else if c = '[' then sepIdx cs true (k + 1)
    else if c = ']' then sepIdx cs false (k + 1)
    else sepIdx cs o (k + 1)

/-- one round of `for i, c in enumerate(pattern)` -/
def sepStep (x : Nat × Str) (s : List Int × Bool) : Flow (List Int × Bool) Empty :=
  if x.2 = ['/'] ∧ s.2 = false then .next (s.1 ++ [Int.ofNat x.1], s.2)
  else if x.2 = ['['] then .next (s.1, true)
  else if x.2 = [']'] then .next (s.1, false)
  else .next s

theorem pyFor_sepStep (f : Nat × Str → List Int × Bool → Flow (List Int × Bool) Empty)
    (hf : ∀ x s, f x s = sepStep x s) (cs : Str) (off : Nat) (idx : List Int) (o : Bool) :
    ∃ o', pyFor ((List.range' off cs.length).zip (pyChars cs)) (idx, o) f =
      .done (idx ++ (sepIdx cs o off).map Int.ofNat, o') := by
  induction cs generalizing off idx o with
  | nil => exact ⟨o, by simp [pyFor, pyChars, sepIdx]⟩
  | cons c cs ih =>
    simp only [List.length_cons, List.range'_succ, pyChars, List.map_cons, List.zip_cons_cons, pyFor, hf,
      sepStep, sepIdx]
    by_cases h1 : c = '/' ∧ o = false
    · obtain ⟨rfl, rfl⟩ := h1
      obtain ⟨o', h⟩ := ih (off + 1) (idx ++ [Int.ofNat off]) false
      refine ⟨o', ?_⟩
      simp only [and_self, if_true]
      simp only [pyChars] at h
      rw [h]; simp
    · have h1' : ¬ ([c] = ['/'] ∧ o = false) := by simpa using h1
      simp only [h1, h1', if_false]
      by_cases h2 : c = '['
      · subst h2
        obtain ⟨o', h⟩ := ih (off + 1) idx true
        simp only [pyChars] at h
        exact ⟨o', by simpa using h⟩
      · by_cases h3 : c = ']'
        · subst h3
          obtain ⟨o', h⟩ := ih (off + 1) idx false
          simp only [pyChars] at h
          exact ⟨o', by simpa using h⟩
        · obtain ⟨o', h⟩ := ih (off + 1) idx o
          simp only [pyChars] at h
          exact ⟨o', by simp [h2, h3]; simpa using h⟩


theorem zip_take_tail {α} (l : List α) : (l.take (l.length - 1)).zip l.tail = l.zip l.tail := by
  induction l with
  | nil => rfl
  | cons a r ih =>
    cases r with
    | nil => rfl
    | cons b r' =>
      have : (a :: b :: r').length - 1 = ((b :: r').length - 1) + 1 := by simp
      rw [this, List.take_succ_cons]
      simp only [List.tail_cons, List.zip_cons_cons]
      simp only [List.tail_cons] at ih
      rw [ih]

theorem pySliceTo_neg_one {α} (l : List α) : pySliceTo l (-1 : Int) = l.take (l.length - 1) := by
  have : clampIdx l.length (-1 : Int) = l.length - 1 := by
    simp only [clampIdx]
    have h0 : ((-1 : Int) < 0) := by decide
    simp only [h0, if_true, Int.ofNat_eq_natCast]
    omega
  rw [pySliceTo, this]

theorem pySlice_ofNat {α} (s : List α) (b k : Nat) (hk : k ≤ s.length) :
    pySlice s (Int.ofNat b - 1 + Int.ofNat 1) (Int.ofNat k) = (s.take k).drop b := by
  have e : (Int.ofNat b - 1 + Int.ofNat 1) = Int.ofNat b := by simp
  rw [e, pySlice, clampIdx_ofNat _ _ hk]
  by_cases hb : b ≤ s.length
  · rw [clampIdx_ofNat _ _ hb]
  · have h0 : ¬ (Int.ofNat b < 0) := by simp
    have : clampIdx s.length (Int.ofNat b) = s.length := by
      simp only [clampIdx, h0, if_false]; exact Nat.min_eq_right (by simp; omega)
    rw [this, List.drop_eq_nil_of_le (by simp; omega), List.drop_eq_nil_of_le (by simp; omega)]

/-- consecutive pairs -/
def zipPairs (I : List Int) : List (Int × Int) := I.zip I.tail

theorem sepIdx_ge (cs : Str) (o : Bool) (k : Nat) : ∀ x ∈ sepIdx cs o k, k ≤ x ∧ x < k + cs.length := by
  induction cs generalizing o k with
  | nil => intro x hx; simp [sepIdx] at hx
  | cons c cs ih =>
    intro x hx
    simp only [sepIdx] at hx
    split at hx
    · rcases List.mem_cons.1 hx with rfl | h
      · simp
      · have := ih _ _ x h; simp; omega
    · split at hx
      · have := ih _ _ x hx; simp; omega
      · split at hx
        · have := ih _ _ x hx; simp; omega
        · have := ih _ _ x hx; simp; omega

theorem slices_eq (pat : Str) : ∀ (cs pre : Str) (o : Bool) (cur : Str) (b : Nat),
    pat = pre ++ cs → b ≤ pre.length → cur.reverse = (pat.take pre.length).drop b →
    Glob.splitSepGo cs o cur =
      (zipPairs ((Int.ofNat b - 1) :: ((sepIdx cs o pre.length).map Int.ofNat ++ [Int.ofNat pat.length]))).map
        (fun x => pySlice pat (x.1 + Int.ofNat 1) x.2) := by
  intro cs
  induction cs with
  | nil =>
    intro pre o cur b hp hb hc
    simp only [Glob.splitSepGo, sepIdx, List.map_nil, List.nil_append, zipPairs, List.tail_cons,
      List.zip_cons_cons, List.zip_nil_right, List.map_cons, List.map_nil]
    rw [pySlice_ofNat _ _ _ (Nat.le_refl _), hc]
    have : pre.length = pat.length := by rw [hp]; simp
    rw [this]
  | cons c cs ih =>
    intro pre o cur b hp hb hc
    have hp' : pat = (pre ++ [c]) ++ cs := by rw [hp]; simp
    have hlen : (pre ++ [c]).length = pre.length + 1 := by simp
    have hk : pre.length < pat.length := by rw [hp]; simp
    have htake : pat.take (pre.length + 1) = pat.take pre.length ++ [c] := by
      rw [hp]
      have e1 : (pre ++ c :: cs).take (pre.length + 1) = pre ++ [c] := by
        have : pre ++ c :: cs = (pre ++ [c]) ++ cs := by simp
        rw [this, List.take_left' (by simp)]
      have e2 : (pre ++ c :: cs).take pre.length = pre := List.take_left' rfl
      rw [e1, e2]
    simp only [Glob.splitSepGo, sepIdx]
    by_cases h1 : c = '/' ∧ o = false
    · simp only [h1, and_self, if_true, List.map_cons, List.cons_append, zipPairs, List.tail_cons,
        List.zip_cons_cons, List.map_cons]
      rw [pySlice_ofNat _ _ _ (by omega), hc]
      congr 1
      have := ih (pre ++ [c]) false [] (pre.length + 1) hp' (by simp) (by simp [hlen])
      rw [hlen] at this
      obtain ⟨rfl, rfl⟩ := h1
      rw [this]
      simp [zipPairs]
    · simp only [h1, if_false]
      have hcur : (c :: cur).reverse = (pat.take (pre ++ [c]).length).drop b := by
        rw [hlen, htake, List.reverse_cons, hc, List.drop_append_of_le_length (by simp; omega)]
      by_cases h2 : c = '['
      · simp only [h2, if_true]
        have := ih (pre ++ [c]) true (c :: cur) b hp' (by simp; omega) hcur
        rw [hlen, h2] at this; exact this
      · by_cases h3 : c = ']'
        · simp only [h2, h3, if_true, if_false]
          have := ih (pre ++ [c]) false (c :: cur) b hp' (by simp; omega) hcur
          rw [hlen, h3] at this; exact this
        · simp only [h2, h3, if_false]
          have := ih (pre ++ [c]) o (c :: cur) b hp' (by simp; omega) hcur
          rw [hlen] at this; exact this

theorem pyFor_sepStep' (f : Nat × Str → List Int × Bool → Flow (List Int × Bool) Empty)
    (hf : ∀ x s, f x s = sepStep x s) (cs : Str) (idx : List Int) (o : Bool)
    (w : LoopOut (List Int × Bool) Empty) (hW : pyFor (pyEnumerate (pyChars cs)) (idx, o) f = w) :
    ∃ o', w = .done (idx ++ (sepIdx cs o 0).map Int.ofNat, o') := by
  have hl : (pyChars cs).length = cs.length := by simp [pyChars]
  rw [pyEnumerate_eq, hl] at hW
  obtain ⟨o', h⟩ := pyFor_sepStep f hf cs 0 idx o
  exact ⟨o', by rw [← hW, h]⟩

/-- the list comprehension over `zip(indices[:-1], indices[1:])` -/
theorem slices_final (pat : Str) (S : List Nat) (hS : S = sepIdx pat false 0) :
    List.map (fun it' : Int × Int => pySlice pat (it'.1 + Int.ofNat 1) it'.2)
      (List.zip (pySliceTo (([(-1 : Int)] ++ S.map Int.ofNat) ++ [Int.ofNat pat.length]) (-1 : Int))
        (List.drop 1 (([(-1 : Int)] ++ S.map Int.ofNat) ++ [Int.ofNat pat.length]))) =
      Glob.splitPatternBySep pat := by
  rw [pySliceTo_neg_one, List.drop_one, zip_take_tail]
  have := slices_eq pat pat [] false [] 0 rfl (Nat.le_refl _) rfl
  rw [Glob.splitPatternBySep, this, hS]
  rfl

end Fs.GlobGenLemmas
