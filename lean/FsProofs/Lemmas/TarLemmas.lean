/-
  ReadTarFS: the ordered dictionary of normalised member names and the queries over its keys.
-/
import FsProofs.Lemmas.ZipLemmas

namespace Fs.TarLemmas
open Fs Fs.Path Fs.PathSpec Fs.PathLemmas Fs.Archive Fs.ArchiveLemmas Fs.ZipLemmas

/-! ### OrderedDict -/

theorem odGet_odPut (k k' : Str) (m : Member) (es : List (Str × Member)) :
    odGet k (odPut k' m es) = if k' = k then some m else odGet k es := by
  induction es with
  | nil => simp [odPut, odGet]
  | cons e es ih =>
    obtain ⟨k0, m0⟩ := e
    simp only [odPut]
    by_cases h0 : k0 = k'
    · subst h0
      simp only [if_true, odGet]
      by_cases h1 : k0 = k <;> simp [h1]
    · simp only [h0, if_false, odGet, ih]
      by_cases h1 : k0 = k
      · subst h1
        simp [Ne.symm h0]
      · simp [h1]

theorem mem_keys_odPut (x k : Str) (m : Member) (es : List (Str × Member)) :
    x ∈ (odPut k m es).map Prod.fst ↔ x = k ∨ x ∈ es.map Prod.fst := by
  induction es with
  | nil => simp [odPut]
  | cons e es ih =>
    obtain ⟨k0, m0⟩ := e
    simp only [odPut]
    by_cases h0 : k0 = k
    · subst h0
      simp
    · simp only [h0, if_false, List.map_cons, List.mem_cons, ih]
      constructor
      · rintro (h | h | h)
        · exact Or.inr (Or.inl h)
        · exact Or.inl h
        · exact Or.inr (Or.inr h)
      · rintro (h | h | h)
        · exact Or.inr (Or.inl h)
        · exact Or.inl h
        · exact Or.inr (Or.inr h)

/-- the body of the loop that fills the dictionary -/
def tarStep (acc : List (Str × Member)) (m : Member) : List (Str × Member) :=
  match tarKey m.name with
  | none => acc
  | some k => odPut k m acc

theorem tarEntries_eq (ms : List Member) : tarEntries ms = ms.foldl tarStep [] := rfl

theorem odGet_tarStep (k : Str) (acc : List (Str × Member)) (m : Member) :
    odGet k (tarStep acc m) = ([m].find? fun x => tarKey x.name == some k).or (odGet k acc) := by
  simp only [tarStep, List.find?_cons, List.find?_nil]
  cases hk : tarKey m.name with
  | none => simp
  | some k' =>
    simp only [odGet_odPut]
    by_cases h : k' = k
    · simp [h]
    · have : (k' == k) = false := by simpa using h
      simp [h, this]

theorem odGet_foldl (k : Str) (ms : List Member) (acc : List (Str × Member)) :
    odGet k (ms.foldl tarStep acc) =
      (ms.reverse.find? fun m => tarKey m.name == some k).or (odGet k acc) := by
  induction ms generalizing acc with
  | nil => simp
  | cons m ms ih =>
    rw [List.foldl_cons, ih, odGet_tarStep, List.reverse_cons, List.find?_append, Option.or_assoc]

/-- `OrderedDict` lookup: the last member whose name normalises to the key wins -/
theorem odGet_tarEntries (k : Str) (ms : List Member) :
    odGet k (tarEntries ms) = ms.reverse.find? fun m => tarKey m.name == some k := by
  rw [tarEntries_eq, odGet_foldl]; simp [odGet]

theorem mem_keys_foldl (x : Str) (ms : List Member) (acc : List (Str × Member)) :
    x ∈ (ms.foldl tarStep acc).map Prod.fst ↔
      x ∈ acc.map Prod.fst ∨ ∃ m ∈ ms, tarKey m.name = some x := by
  induction ms generalizing acc with
  | nil => simp
  | cons m ms ih =>
    rw [List.foldl_cons, ih]
    simp only [tarStep]
    cases hk : tarKey m.name with
    | none =>
      simp only [List.mem_cons, exists_eq_or_imp, hk]
      simp
    | some k =>
      simp only [mem_keys_odPut, List.mem_cons, exists_eq_or_imp, hk, Option.some.injEq]
      constructor
      · rintro ((h | h) | h)
        · exact Or.inr (Or.inl h.symm)
        · exact Or.inl h
        · exact Or.inr (Or.inr h)
      · rintro (h | h | h)
        · exact Or.inl (Or.inr h)
        · exact Or.inl (Or.inl h.symm)
        · exact Or.inr h

theorem mem_keys_tarEntries (x : Str) (ms : List Member) :
    x ∈ (tarEntries ms).map Prod.fst ↔ ∃ m ∈ ms, tarKey m.name = some x := by
  rw [tarEntries_eq, mem_keys_foldl]; simp

/-! ### the keys are relative joins of clean components -/

theorem startsWithSlash_lstrip (s : Str) : startsWithSlash (lstripSlash s) = false := by
  induction s with
  | nil => rfl
  | cons c s ih =>
    simp only [lstripSlash]
    by_cases h : c = '/'
    · simp [h, ih]
    · simp [h, startsWithSlash_cons]

theorem startsWithSlash_rstrip (x : Str) (h : startsWithSlash x = false) :
    startsWithSlash (rstripSlash x) = false := by
  cases x with
  | nil => rfl
  | cons c xs =>
    rw [startsWithSlash_cons] at h
    simp only [decide_eq_false_iff_not] at h
    rw [rstripSlash_cons]
    split
    · simp [h, startsWithSlash_cons]
    · simp [h, startsWithSlash_cons]

theorem tarKey_form {name k : Str} (h : tarKey name = some k) :
    ∃ bs, Clean bs ∧ bs ≠ [] ∧ k = mkp false bs := by
  unfold tarKey at h
  cases hn : normpath (stripSlash name) with
  | err e => rw [hn] at h; cases h
  | ok n =>
    rw [hn] at h
    simp only at h
    by_cases hne : (n == []) = true
    · simp [hne] at h
    · simp only [hne, Bool.false_eq_true, if_false, Option.some.injEq] at h
      subst h
      obtain ⟨bs, hbs, hk⟩ := normpath_ok_clean _ _ hn
      have hs : startsWithSlash (stripSlash name) = false :=
        startsWithSlash_rstrip _ (startsWithSlash_lstrip name)
      rw [hs] at hk
      refine ⟨bs, hbs, ?_, hk⟩
      intro e
      subst e
      subst hk
      simp [mkp, joinWith] at hne

theorem tarKey_mkp {cs : List Name} (h : Clean cs) (hne : cs ≠ []) :
    tarKey (mkp false cs) = some (mkp false cs) := by
  have h1 : stripSlash (mkp false cs) = mkp false cs := by rw [stripSlash_mkp h]; simp [mkp]
  have h2 : mkp false cs ≠ [] := mkp_ne_nil h hne
  simp [tarKey, h1, normpath_mkp h, h2]

/-- every key is `mkp false bs` for clean, non-empty `bs` -/
def Keyed (es : List (Str × Member)) : Prop :=
  ∀ e ∈ es, ∃ bs, Clean bs ∧ bs ≠ [] ∧ e.1 = mkp false bs

theorem keyed_tarEntries (ms : List Member) : Keyed (tarEntries ms) := by
  intro e he
  have : e.1 ∈ (tarEntries ms).map Prod.fst := List.mem_map.2 ⟨e, he, rfl⟩
  obtain ⟨m, _, hk⟩ := (mem_keys_tarEntries e.1 ms).1 this
  exact tarKey_form hk

/-! ### small list facts -/

theorem mem_dedupe (x : Str) (l : List Str) : x ∈ dedupe l ↔ x ∈ l := by
  induction l with
  | nil => simp [dedupe]
  | cons y ys ih =>
    simp only [dedupe, List.mem_cons, List.mem_filter, ih, bne_iff_ne, ne_eq]
    constructor
    · rintro (h | ⟨h, _⟩)
      · exact Or.inl h
      · exact Or.inr h
    · rintro (h | h)
      · exact Or.inl h
      · by_cases e : x = y
        · exact Or.inl e
        · exact Or.inr ⟨h, e⟩

theorem nodup_dedupe (l : List Str) : (dedupe l).Nodup := by
  induction l with
  | nil => simp [dedupe]
  | cons y ys ih =>
    rw [dedupe, List.nodup_cons]
    refine ⟨?_, ih.filter _⟩
    intro h
    have := (List.mem_filter.1 h).2
    simp at this

theorem mapRes_spec {α β} (f : α → Res β) (l : List α) (h : ∀ x ∈ l, ∃ y, f x = .ok y) :
    ∃ ys, mapRes f l = .ok ys ∧ ∀ y, y ∈ ys ↔ ∃ x ∈ l, f x = .ok y := by
  induction l with
  | nil => exact ⟨[], rfl, by simp⟩
  | cons a l ih =>
    obtain ⟨y0, hy0⟩ := h a List.mem_cons_self
    obtain ⟨ys, h1, h2⟩ := ih (fun x hx => h x (List.mem_cons_of_mem _ hx))
    refine ⟨y0 :: ys, by simp [mapRes, hy0, h1], ?_⟩
    intro y
    simp only [List.mem_cons, h2, exists_eq_or_imp, hy0, Res.ok.injEq]
    constructor
    · rintro (h | h)
      · exact Or.inl h.symm
      · exact Or.inr h
    · rintro (h | h)
      · exact Or.inl h.symm
      · exact Or.inr h


/-! ### the order of the keys: first occurrences -/

theorem keys_odPut (k : Str) (m : Member) (es : List (Str × Member)) :
    (odPut k m es).map Prod.fst =
      if k ∈ es.map Prod.fst then es.map Prod.fst else es.map Prod.fst ++ [k] := by
  induction es with
  | nil => simp [odPut]
  | cons e es ih =>
    obtain ⟨k0, m0⟩ := e
    simp only [odPut]
    by_cases h0 : k0 = k
    · subst h0; simp
    · have h0' : ¬ k = k0 := fun e => h0 e.symm
      simp only [h0, if_false, List.map_cons, ih, List.mem_cons, h0', false_or]
      split <;> simp

theorem dedupe_snoc (l : List Str) (k : Str) :
    dedupe (l ++ [k]) = if k ∈ l then dedupe l else dedupe l ++ [k] := by
  induction l with
  | nil => simp [dedupe]
  | cons y ys ih =>
    simp only [List.cons_append, dedupe, ih, List.mem_cons]
    by_cases hk : k ∈ ys
    · simp [hk]
    · simp only [hk, if_false, or_false, List.filter_append]
      by_cases hy : k = y
      · subst hy; simp
      · simp [hy]

theorem filterMap_snoc {α β} (f : α → Option β) (l : List α) (a : α) :
    (l ++ [a]).filterMap f = l.filterMap f ++ (match f a with | some b => [b] | none => []) := by
  rw [List.filterMap_append]
  cases h : f a <;> simp [h]

/-- `OrderedDict`: the keys stand in the order of their *first* occurrence -/
theorem keys_tarEntries (ms : List Member) :
    (tarEntries ms).map Prod.fst = dedupe (ms.filterMap fun m => tarKey m.name) := by
  suffices h : ∀ n (ms : List Member), ms.length = n →
      (tarEntries ms).map Prod.fst = dedupe (ms.filterMap fun m => tarKey m.name) from h _ ms rfl
  intro n
  induction n with
  | zero =>
    intro ms hl
    have : ms = [] := List.eq_nil_of_length_eq_zero hl
    subst this; rfl
  | succ n ih =>
    intro ms hl
    rcases list_nil_or_snoc ms with rfl | ⟨i, x, rfl⟩
    · simp at hl
    · have hi : i.length = n := by simp at hl; exact hl
      have := ih i hi
      rw [tarEntries_eq, List.foldl_append, List.foldl_cons, List.foldl_nil, ← tarEntries_eq, filterMap_snoc]
      simp only [tarStep]
      cases hk : tarKey x.name with
      | none => simpa using this
      | some k =>
        simp only
        rw [keys_odPut, this, dedupe_snoc]
        simp only [mem_dedupe]

/-! ### `isbase` / `frombase` / `parts` over the keys -/

/-- what is left of `mkp false (cs ++ rest)` after dropping `mkp false cs` -/
def sfx (cs rest : List Name) : Str :=
  if cs = [] then mkp false rest else if rest = [] then [] else '/' :: joinWith '/' rest

theorem mkp_append_sfx (cs rest : List Name) : mkp false (cs ++ rest) = mkp false cs ++ sfx cs rest := by
  unfold sfx
  by_cases hc : cs = []
  · subst hc; simp [mkp, joinWith]
  · by_cases hr : rest = []
    · subst hr; simp [hc]
    · simp only [hc, hr, if_false, mkp, Bool.false_eq_true, List.nil_append]
      exact joinWith_append _ _ _ hc hr

theorem frombase_key {cs rest : List Name} (hc : Clean cs) (hb : Clean (cs ++ rest)) :
    frombase (mkp false cs) (mkp false (cs ++ rest)) = .ok (sfx cs rest) := by
  have hpar := (isparent_mkp_iff false cs (cs ++ rest) hc hb).2 (List.prefix_append _ _)
  rw [mkp_append_sfx] at hpar ⊢
  exact frombase_of_append _ _ hpar

theorem relpath_sfx {cs rest : List Name} (hr : Clean rest) : relpath (sfx cs rest) = mkp false rest := by
  unfold sfx
  by_cases hc : cs = []
  · simp only [hc, if_true]; exact relpath_mkp hr
  · by_cases hr0 : rest = []
    · subst hr0; simp [hc, relpath, lstripSlash, mkp, joinWith]
    · simp only [hc, hr0, if_false, relpath, lstripSlash, if_true]
      have := lstripSlash_of_not_starts _ (startsWithSlash_join_clean hr)
      simpa [mkp] using this

theorem parts_mkp (a : Bool) {cs : List Str} (h : Clean cs) :
    parts (mkp a cs) = .ok ((if a then ['/'] else ['.', '/']) :: cs) := by
  unfold parts
  rw [normpath_mkp h, bind_ok]
  simp only [stripSlash_mkp h, startsWithSlash_mkp h, pure_eq]
  by_cases hc : cs = []
  · subst hc; simp [joinWith]
  · have : joinWith '/' cs ≠ [] := fun e => hc ((join_clean_eq_nil_iff h).1 e)
    simp [this, splitSlash, splitOn_join_clean h hc]

theorem firstPart_sfx {cs : List Name} {x : Name} {rest : List Name} (hr : Clean (x :: rest)) :
    TarFS.firstPart (sfx cs (x :: rest)) = .ok x := by
  have h1 : sfx cs (x :: rest) = mkp (decide (cs ≠ [])) (x :: rest) := by
    unfold sfx
    by_cases hc : cs = []
    · simp [hc]
    · simp [hc, mkp]
  rw [h1, TarFS.firstPart, parts_mkp _ hr]

/-- the generator pipeline of `ReadTarFS.listdir` over well-formed keys: no duplicates, and exactly
the first components below `cs` of the keys that extend `cs` -/
theorem childNames_spec {z : TarFS} (hz : Keyed z.entries) {cs : List Name} (hc : Clean cs) :
    ∃ l, z.childNames (mkp false cs) = .ok l ∧ l.Nodup ∧
      ∀ x, x ∈ l ↔ ∃ e ∈ z.entries, ∃ rest, Clean (cs ++ x :: rest) ∧ e.1 = mkp false (cs ++ x :: rest) := by
  have hA : ∀ e ∈ z.entries.filter (fun e => isbase (mkp false cs) e.1),
      ∃ rest, Clean (cs ++ rest) ∧ e.1 = mkp false (cs ++ rest) ∧
        frombase (mkp false cs) e.1 = .ok (sfx cs rest) := by
    intro e he
    obtain ⟨he1, he2⟩ := List.mem_filter.1 he
    obtain ⟨bs, hbs, _, hk⟩ := hz e he1
    rw [hk] at he2
    obtain ⟨rest, rfl⟩ := (isbase_mkp_iff false false cs bs hc hbs).1 he2
    exact ⟨rest, hbs, hk, by rw [hk]; exact frombase_key hc hbs⟩
  obtain ⟨ch, hch1, hch2⟩ := mapRes_spec (fun e => frombase (mkp false cs) e.1)
    (z.entries.filter fun e => isbase (mkp false cs) e.1)
    (fun e he => by obtain ⟨rest, _, _, h⟩ := hA e he; exact ⟨_, h⟩)
  have hC : ∀ c ∈ ch, ∃ e ∈ z.entries, ∃ rest, Clean (cs ++ rest) ∧ e.1 = mkp false (cs ++ rest) ∧
      c = sfx cs rest := by
    intro c hcm
    obtain ⟨e, he, hf⟩ := (hch2 c).1 hcm
    obtain ⟨rest, h1, h2, h3⟩ := hA e he
    rw [h3] at hf
    cases hf
    exact ⟨e, (List.mem_filter.1 he).1, rest, h1, h2, rfl⟩
  have hB : ∀ c ∈ ch.filter (fun c => relpath c != []), ∃ x, TarFS.firstPart c = .ok x := by
    intro c hcm
    obtain ⟨hcm1, hcm2⟩ := List.mem_filter.1 hcm
    obtain ⟨e, _, rest, h1, _, rfl⟩ := hC c hcm1
    have hrest := (clean_append.1 h1).2
    rw [relpath_sfx hrest] at hcm2
    cases rest with
    | nil => simp [mkp, joinWith] at hcm2
    | cons x rest' => exact ⟨x, firstPart_sfx hrest⟩
  obtain ⟨ct, hct1, hct2⟩ := mapRes_spec TarFS.firstPart (ch.filter fun c => relpath c != []) hB
  refine ⟨dedupe ct, by simp [TarFS.childNames, hch1, hct1], nodup_dedupe ct, ?_⟩
  intro x
  rw [mem_dedupe, hct2]
  constructor
  · rintro ⟨c, hcm, hf⟩
    obtain ⟨hcm1, hcm2⟩ := List.mem_filter.1 hcm
    obtain ⟨e, he, rest, h1, h2, rfl⟩ := hC c hcm1
    have hrest := (clean_append.1 h1).2
    rw [relpath_sfx hrest] at hcm2
    cases rest with
    | nil => simp [mkp, joinWith] at hcm2
    | cons y rest' =>
      rw [firstPart_sfx hrest] at hf
      cases hf
      exact ⟨e, he, rest', h1, h2⟩
  · rintro ⟨e, he, rest, h1, h2⟩
    have hb : isbase (mkp false cs) e.1 = true := by
      rw [h2]; exact (isbase_mkp_iff false false cs _ hc h1).2 (List.prefix_append _ _)
    have hef : e ∈ z.entries.filter (fun e => isbase (mkp false cs) e.1) := List.mem_filter.2 ⟨he, hb⟩
    have hfb : frombase (mkp false cs) e.1 = .ok (sfx cs (x :: rest)) := by
      rw [h2]; exact frombase_key hc h1
    have hrest := (clean_append.1 h1).2
    refine ⟨sfx cs (x :: rest), List.mem_filter.2 ⟨(hch2 _).2 ⟨e, hef, hfb⟩, ?_⟩, firstPart_sfx hrest⟩
    rw [relpath_sfx hrest]
    have : mkp false (x :: rest) ≠ [] := mkp_ne_nil hrest (by simp)
    simpa using this


/-! ### the archive `write_tar` emits, reopened -/

theorem find?_reverse_unique {α} {P : α → Bool} {l : List α} {a : α} (ha : a ∈ l) (hp : P a = true)
    (hu : ∀ b ∈ l, P b = true → b = a) : l.reverse.find? P = some a := by
  cases hf : l.reverse.find? P with
  | none =>
    rw [List.find?_eq_none] at hf
    exact absurd hp (hf a (List.mem_reverse.2 ha))
  | some b =>
    have h1 := List.find?_some hf
    have h2 := List.mem_of_find?_eq_some hf
    rw [hu b (List.mem_reverse.1 h2) h1]

theorem basename_mkp {cs : List Name} (h : Clean cs) (hne : cs ≠ []) :
    basename (mkp false cs) = Ref.lastName cs := by
  rcases list_nil_or_snoc cs with rfl | ⟨i, x, rfl⟩
  · exact absurd rfl hne
  · rw [basename, split_mkp_snoc false i x h]
    simp [Ref.lastName]

theorem rel_of_validate {p : Str} {cs : List Name} (hv : Ref.validate p = .ok cs) :
    TarFS.rel p = .ok (mkp false cs) := by
  obtain ⟨hac, hnorm⟩ := validate_ok hv
  simp only [TarFS.rel, hnorm, abspath_mkp hac.clean, relpath_mkp hac.clean]

theorem rel_mkp {cs : List Name} (h : Clean cs) : TarFS.rel (mkp false cs) = .ok (mkp false cs) := by
  simp only [TarFS.rel, normpath_mkp h, abspath_mkp h, relpath_mkp h]

section
variable {t : Node} (ht : t.wf = true) (hd : t.isDir = true) (mt : List Name → Int)
include ht hd

theorem tarMember_key {m : Member} (hm : m ∈ tarMembers mt t) :
    ∃ bs n, bs ≠ [] ∧ t.get bs = some n ∧ Clean bs ∧
      m = ⟨mkp false bs, n.isDir, fileBytes n, tarTime (mt bs)⟩ ∧ tarKey m.name = some (mkp false bs) := by
  simp only [tarMembers, List.mem_map] at hm
  obtain ⟨⟨bs, n⟩, hw, rfl⟩ := hm
  obtain ⟨hne, hg⟩ := (mem_walkInfo ht hd bs n).1 hw
  have hcl := (wf_get ht hg).1.clean
  refine ⟨bs, n, hne, hg, hcl, by simp [tarName_eq hcl], ?_⟩
  simp only [tarName_eq hcl]
  exact tarKey_mkp hcl hne

theorem tarMember_mem {cs : List Name} {n : Node} (hne : cs ≠ []) (hg : t.get cs = some n) :
    (⟨mkp false cs, n.isDir, fileBytes n, tarTime (mt cs)⟩ : Member) ∈ tarMembers mt t := by
  simp only [tarMembers, List.mem_map]
  refine ⟨(cs, n), (mem_walkInfo ht hd cs n).2 ⟨hne, hg⟩, ?_⟩
  simp [tarName_eq (wf_get ht hg).1.clean]

/-- the dictionary entry of a resource of the source tree -/
theorem odGet_tarMembers_some {cs : List Name} {n : Node} (hne : cs ≠ []) (hg : t.get cs = some n) :
    odGet (mkp false cs) (tarEntries (tarMembers mt t)) =
      some ⟨mkp false cs, n.isDir, fileBytes n, tarTime (mt cs)⟩ := by
  rw [odGet_tarEntries]
  have hcl := (wf_get ht hg).1.clean
  apply find?_reverse_unique (tarMember_mem ht hd mt hne hg)
  · simp [tarKey_mkp hcl hne]
  · intro b hb hP
    obtain ⟨bs, n', _, hg', hcl', rfl, hk⟩ := tarMember_key ht hd mt hb
    rw [hk] at hP
    simp only [beq_iff_eq, Option.some.injEq] at hP
    have := mkp_inj hcl' hcl hP
    subst this
    rw [hg] at hg'
    cases hg'
    rfl

theorem odGet_tarMembers_none {cs : List Name} (hc : Clean cs) (hg : cs = [] ∨ t.get cs = none) :
    odGet (mkp false cs) (tarEntries (tarMembers mt t)) = none := by
  rw [odGet_tarEntries, List.find?_eq_none]
  intro m hm hP
  obtain ⟨bs, n', hne', hg', hcl', rfl, hk⟩ := tarMember_key ht hd mt (List.mem_reverse.1 hm)
  rw [hk] at hP
  simp only [beq_iff_eq, Option.some.injEq] at hP
  have := mkp_inj hcl' hc hP
  subst this
  rcases hg with h | h
  · exact hne' h
  · rw [h] at hg'; cases hg'

/-- a key of the dictionary is the joined path of a resource, and conversely -/
theorem mem_entries_tarMembers (k : Str) :
    (∃ e ∈ tarEntries (tarMembers mt t), e.1 = k) ↔
      ∃ bs n, bs ≠ [] ∧ t.get bs = some n ∧ k = mkp false bs := by
  have h0 : (∃ e ∈ tarEntries (tarMembers mt t), e.1 = k) ↔ k ∈ (tarEntries (tarMembers mt t)).map Prod.fst := by
    simp [List.mem_map]
  rw [h0, mem_keys_tarEntries]
  constructor
  · rintro ⟨m, hm, hk⟩
    obtain ⟨bs, n, hne, hg, _, _, hk'⟩ := tarMember_key ht hd mt hm
    rw [hk] at hk'
    cases hk'
    exact ⟨bs, n, hne, hg, rfl⟩
  · rintro ⟨bs, n, hne, hg, rfl⟩
    refine ⟨_, tarMember_mem ht hd mt hne hg, ?_⟩
    exact tarKey_mkp (wf_get ht hg).1.clean hne

theorem any_isbase_tarMembers {cs : List Name} (hc : Clean cs) :
    (tarEntries (tarMembers mt t)).any (fun e => isbase (mkp false cs) e.1) = true ↔
      ∃ bs n, bs ≠ [] ∧ t.get bs = some n ∧ cs <+: bs := by
  rw [List.any_eq_true]
  constructor
  · rintro ⟨e, he, hb⟩
    obtain ⟨bs, n, hne, hg, hk⟩ := (mem_entries_tarMembers ht hd mt e.1).1 ⟨e, he, rfl⟩
    rw [hk] at hb
    exact ⟨bs, n, hne, hg, (isbase_mkp_iff false false cs bs hc (wf_get ht hg).1.clean).1 hb⟩
  · rintro ⟨bs, n, hne, hg, hp⟩
    obtain ⟨e, he, hk⟩ := (mem_entries_tarMembers ht hd mt (mkp false bs)).2 ⟨bs, n, hne, hg, rfl⟩
    refine ⟨e, he, ?_⟩
    rw [hk]
    exact (isbase_mkp_iff false false cs bs hc (wf_get ht hg).1.clean).2 hp

end


/-- the listing of a directory of the reopened archive -/
theorem tar_childNames_perm {t : Node} (mt : List Name → Int) (ht : t.wf = true) (hd : t.isDir = true)
    {cs : List Name} (hcl : Clean cs) {es : Ents} (hg : t.get cs = some (.dir es)) :
    ∃ l, (readTar (tarMembers mt t)).childNames (mkp false cs) = .ok l ∧ l.Perm (Ents.names es) := by
  have hkeyed : Keyed (readTar (tarMembers mt t)).entries := keyed_tarEntries _
  obtain ⟨l, h1, h2, h3⟩ := childNames_spec hkeyed hcl
  refine ⟨l, h1, ?_⟩
  have wes := wf_dir.1 (wf_get ht hg).2
  rw [List.perm_ext_iff_of_nodup h2 (names_nodup wes)]
  intro x
  rw [h3, mem_names_iff, ← get_snoc_dir hg x]
  constructor
  · rintro ⟨e, he, rest, hclr, hk⟩
    obtain ⟨bs, n, _, hgb, hk'⟩ := (mem_entries_tarMembers ht hd mt e.1).1 ⟨e, he, rfl⟩
    rw [hk] at hk'
    have := mkp_inj hclr (wf_get ht hgb).1.clean hk'
    subst this
    by_cases hr : rest = []
    · subst hr; rw [hgb]; simp
    · have : cs ++ x :: rest = (cs ++ [x]) ++ rest := by simp
      rw [this] at hgb
      obtain ⟨es', hes'⟩ := get_prefix_dir hgb hr
      rw [hes']; simp
  · intro hx
    cases hgx : t.get (cs ++ [x]) with
    | none => exact absurd hgx hx
    | some v =>
      obtain ⟨e, he, hk⟩ := (mem_entries_tarMembers ht hd mt (mkp false (cs ++ [x]))).2
        ⟨cs ++ [x], v, by simp, hgx, rfl⟩
      exact ⟨e, he, [], (wf_get ht hgx).1.clean, hk⟩

/-- everything `ReadTarFS` answers at a validated path below the root of the reopened archive -/
theorem tar_obs_agree {t : Node} (mt : List Name → Int) (ht : t.wf = true) (hd : t.isDir = true)
    {p : Str} {cs : List Name} (hv : Ref.validate p = .ok cs) (hc : cs ≠ []) :
    Agree t (tarTime (mt cs)) cs ((readTar (tarMembers mt t)).obs p) := by
  obtain ⟨hac, _⟩ := validate_ok hv
  have hcl := hac.clean
  have hrel := rel_of_validate hv
  have hrel2 := rel_mkp hcl
  have hnil : (mkp false cs == []) = false := by
    have : mkp false cs ≠ [] := mkp_ne_nil hcl hc
    simp [this]
  unfold Agree
  cases hg : t.get cs with
  | none =>
    have hod := odGet_tarMembers_none ht hd mt hcl (Or.inr hg)
    have hany : (tarEntries (tarMembers mt t)).any (fun e => isbase (mkp false cs) e.1) = false := by
      rw [Bool.eq_false_iff]
      intro h
      obtain ⟨bs, n, _, hgb, ⟨b, rfl⟩⟩ := (any_isbase_tarMembers ht hd mt hcl).1 h
      rw [get_append, hg] at hgb
      cases hgb
    have hisdir : (readTar (tarMembers mt t)).isdir (mkp false cs) = .ok false := by
      simp only [TarFS.isdir, hrel2, readTar, hnil, Bool.false_eq_true, if_false]; rw [hod]; simp only; rw [hany]
    have hdet : (readTar (tarMembers mt t)).details p = .err .ResourceNotFound := by
      simp only [TarFS.details, hrel, hnil, Bool.false_eq_true, if_false]
      have h1 : odGet (mkp false cs) (readTar (tarMembers mt t)).entries = none := hod
      rw [h1]; simp only; rw [hisdir]
    have h1 : odGet (mkp false cs) (readTar (tarMembers mt t)).entries = none := hod
    have h2 : (readTar (tarMembers mt t)).entries.any (fun e => isbase (mkp false cs) e.1) = false := hany
    simp only [TarFS.obs, TarFS.exists_, TarFS.isdir, TarFS.isfile, TarFS.listdir, TarFS.openRead, hrel, hdet,
      h1, h2, hnil, Bool.false_eq_true, if_false]
    simp
  | some n =>
    have hod := odGet_tarMembers_some ht hd mt hc hg
    have h1 : odGet (mkp false cs) (readTar (tarMembers mt t)).entries =
        some ⟨mkp false cs, n.isDir, fileBytes n, tarTime (mt cs)⟩ := hod
    cases n with
    | file b =>
      simp only [Node.isDir, fileBytes] at h1
      have hdet : (readTar (tarMembers mt t)).details p =
          .ok ⟨Ref.lastName cs, false, some b.length, some (tarTime (mt cs))⟩ := by
        simp only [TarFS.details, hrel, hnil, Bool.false_eq_true, if_false, h1, basename_mkp hcl hc]
      simp only [TarFS.obs, TarFS.exists_, TarFS.isdir, TarFS.isfile, TarFS.listdir, TarFS.openRead, hrel, hdet, h1,
        hnil, Bool.false_eq_true, if_false]
      simp
    | dir es =>
      simp only [Node.isDir, fileBytes] at h1
      obtain ⟨l, hl1, hl2⟩ := tar_childNames_perm mt ht hd hcl hg
      have hdet : (readTar (tarMembers mt t)).details p =
          .ok ⟨Ref.lastName cs, true, some 0, some (tarTime (mt cs))⟩ := by
        simp only [TarFS.details, hrel, hnil, Bool.false_eq_true, if_false, h1, basename_mkp hcl hc,
          List.length_nil]
      simp only [TarFS.obs, TarFS.exists_, TarFS.isdir, TarFS.isfile, TarFS.listdir, TarFS.openRead, hrel, hdet, h1,
        hnil, Bool.false_eq_true, if_false]
      refine ⟨?_, ?_, ?_, ⟨l, ?_, hl2⟩, ?_, ?_⟩
      · trivial
      · simp
      · simp
      · simpa using hl1
      · simp
      · simp [hc]

/-- … and at its root, for every tree (the empty one included) -/
theorem tar_obs_root {t : Node} (mt : List Name → Int) (ht : t.wf = true) (hd : t.isDir = true)
    {p : Str} (hv : Ref.validate p = .ok []) :
    let o := (readTar (tarMembers mt t)).obs p
    o.exists_ = .ok true ∧ o.isdir = .ok true ∧ o.isfile = .ok false ∧
    (∃ l, o.listdir = .ok l ∧ l.Perm (Ents.names t.entries)) ∧
    o.details = .ok ⟨[], true, none, none⟩ ∧ o.read = .err .ResourceNotFound := by
  have hcl : Clean ([] : List Name) := clean_nil
  have hrel := rel_of_validate hv
  cases t with
  | file d => simp [Node.isDir] at hd
  | dir es =>
    have hg : (Node.dir es).get [] = some (.dir es) := get_nil _
    obtain ⟨l, hl1, hl2⟩ := tar_childNames_perm mt ht hd hcl hg
    have hod : odGet (mkp false []) (readTar (tarMembers mt (.dir es))).entries = none :=
      odGet_tarMembers_none ht hd mt hcl (Or.inl rfl)
    have hnil : (mkp false ([] : List Name) == []) = true := rfl
    have hdet : (readTar (tarMembers mt (.dir es))).details p = .ok ⟨[], true, none, none⟩ := by
      simp only [TarFS.details, hrel, hnil, if_true]
    simp only [TarFS.obs, TarFS.exists_, TarFS.isdir, TarFS.isfile, TarFS.listdir, TarFS.openRead, hrel, hdet,
      hod, hnil, if_true, Node.entries]
    refine ⟨?_, ?_, ?_, ⟨l, ?_, hl2⟩, ?_, ?_⟩
    · trivial
    · trivial
    · trivial
    · simpa using hl1
    · trivial
    · trivial

/-! ### any member list: names and stat of listed paths -/

theorem lastName_snoc (cs : List Name) (x : Name) : Ref.lastName (cs ++ [x]) = x := by
  simp [Ref.lastName]

theorem rel_mkp' (a : Bool) {cs : List Name} (h : Clean cs) : TarFS.rel (mkp a cs) = .ok (mkp false cs) := by
  simp only [TarFS.rel, normpath_mkp h, abspath_mkp h, relpath_mkp h]

/-- `Info.name` is the last component of the path that was asked for -/
theorem tar_details_name (z : TarFS) (p : Str) (d : Details) (h : z.details p = .ok d) :
    ∃ cs, Clean cs ∧ TarFS.rel p = .ok (mkp false cs) ∧ d.name = Ref.lastName cs := by
  simp only [TarFS.details] at h
  cases hr : TarFS.rel p with
  | err e => rw [hr] at h; cases h
  | ok r =>
    rw [hr] at h
    simp only [TarFS.rel] at hr
    cases hn : normpath p with
    | err e => rw [hn] at hr; cases hr
    | ok n =>
      rw [hn] at hr
      obtain ⟨cs, hcs, rfl⟩ := normpath_ok_clean p n hn
      simp only [abspath_mkp hcs, relpath_mkp hcs, Res.ok.injEq] at hr
      subst hr
      refine ⟨cs, hcs, rfl, ?_⟩
      simp only at h
      by_cases hc : cs = []
      · subst hc
        have : (mkp false ([] : List Name) == []) = true := rfl
        simp only [this, if_true, Res.ok.injEq] at h
        subst h; rfl
      · have hnil : (mkp false cs == []) = false := by
          have : mkp false cs ≠ [] := mkp_ne_nil hcs hc
          simp [this]
        simp only [hnil, Bool.false_eq_true, if_false] at h
        cases hod : odGet (mkp false cs) z.entries with
        | some m =>
          rw [hod] at h
          simp only [Res.ok.injEq] at h
          subst h
          exact basename_mkp hcs hc
        | none =>
          rw [hod] at h
          simp only at h
          cases hi : z.isdir (mkp false cs) with
          | err e => rw [hi] at h; cases h
          | ok b =>
            rw [hi] at h
            cases b with
            | false => cases h
            | true =>
              simp only [Res.ok.injEq] at h
              subst h
              exact basename_mkp hcs hc

/-- every name `listdir` returns can be stat'ed, is described under that very name, and — when it is
a file — can be opened -/
theorem tar_listed_stat {z : TarFS} (hz : Keyed z.entries) {cs : List Name} (hcs : Clean cs)
    {l : List Name} (hl : z.listdir (mkp true cs) = .ok l) {x : Name} (hx : x ∈ l) :
    ∃ d, z.details (mkp true (cs ++ [x])) = .ok d ∧ d.name = x ∧
      (d.isDir = false → ∃ b, z.openRead (mkp true (cs ++ [x])) = .ok b) := by
  -- the listing comes from `childNames`
  simp only [TarFS.listdir, rel_mkp' true hcs] at hl
  cases hd : z.details (mkp true cs) with
  | err e => rw [hd] at hl; cases hl
  | ok d0 =>
    rw [hd] at hl
    simp only at hl
    split at hl
    · cases hl
    · obtain ⟨l', h1, _, h3⟩ := childNames_spec hz hcs
      rw [h1] at hl
      cases hl
      obtain ⟨e, he, rest, hclr, hk⟩ := (h3 x).1 hx
      have hcx : Clean (cs ++ [x]) := by
        have := clean_append.1 hclr
        exact clean_append.2 ⟨this.1, clean_cons.2 ⟨(clean_cons.1 this.2).1, clean_nil⟩⟩
      have hne : cs ++ [x] ≠ [] := by simp
      have hnil : (mkp false (cs ++ [x]) == []) = false := by
        have : mkp false (cs ++ [x]) ≠ [] := mkp_ne_nil hcx hne
        simp [this]
      have hrel := rel_mkp' true hcx
      simp only [TarFS.details, TarFS.openRead, hrel, hnil, Bool.false_eq_true, if_false,
        basename_mkp hcx hne, lastName_snoc]
      cases hod : odGet (mkp false (cs ++ [x])) z.entries with
      | some m =>
        simp only
        refine ⟨_, rfl, rfl, ?_⟩
        intro hm
        simp only at hm
        simp [hm]
      | none =>
        have hany : z.entries.any (fun e => isbase (mkp false (cs ++ [x])) e.1) = true := by
          rw [List.any_eq_true]
          refine ⟨e, he, ?_⟩
          rw [hk]
          apply (isbase_mkp_iff false false _ _ hcx hclr).2
          exact ⟨rest, by simp⟩
        have hisdir : z.isdir (mkp false (cs ++ [x])) = .ok true := by
          simp only [TarFS.isdir, rel_mkp' false hcx, hnil, Bool.false_eq_true, if_false, hod, hany]
        simp only [hisdir]
        exact ⟨_, rfl, rfl, fun h => by simp at h⟩

end Fs.TarLemmas
