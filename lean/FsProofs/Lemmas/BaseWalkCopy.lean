/-
  Helper lemmas for FsProofs/BaseWalkLaws.lean, part 3: the breadth-first walks of `copy_dir`
  (`copy_structure`, then the file walk) over the primitives of `Ref.step`, from a source directory `a` into
  an existing destination directory `b` that does not overlap with it, compute the tree-level description
  `BaseWalkSpec.recQ` of the pending queue — hence `recNode` of the whole source.
-/
import FsProofs.Lemmas.BaseWalkRm
import FsProofs.Lemmas.BaseWalkComm

namespace Fs.BaseWalkCopy
open Fs Fs.Path Fs.Ref Fs.BaseWalk Fs.TreeLemmas Fs.WrapLemmas Fs.BaseWalkPrim Fs.BaseWalkRm Fs.BaseWalkSpec
  Fs.BaseWalkComm

/-! ### entries level: what `lvl` guarantees -/

theorem lvl_wf : ∀ (ph : Phase) (es ds d1 : Ents), entsWf es = true → entsWf ds = true →
    lvl ph es ds = some d1 → entsWf d1 = true
  | _, [], ds, d1, _, hd, h => by simp [lvl] at h; subst h; exact hd
  | .struct, (k, .file _) :: es, ds, d1, he, hd, h => by
    simp only [entsWf, Bool.and_eq_true] at he
    simp only [lvl] at h
    exact lvl_wf .struct es ds d1 he.2 hd h
  | .struct, (k, .dir e) :: es, ds, d1, he, hd, h => by
    simp only [entsWf, Bool.and_eq_true] at he
    simp only [lvl] at h
    cases hl : Ents.lookup k ds with
    | none =>
      simp only [hl] at h
      exact lvl_wf .struct es _ d1 he.2 (entsWf_put _ _ _ he.1.1.1 (by simp [Node.wf, entsWf]) hd) h
    | some n =>
      cases n with
      | file b => simp [hl] at h
      | dir e' => simp only [hl] at h; exact lvl_wf .struct es ds d1 he.2 hd h
  | .files, (k, .dir _) :: es, ds, d1, he, hd, h => by
    simp only [entsWf, Bool.and_eq_true] at he
    simp only [lvl] at h
    exact lvl_wf .files es ds d1 he.2 hd h
  | .files, (k, .file b) :: es, ds, d1, he, hd, h => by
    simp only [entsWf, Bool.and_eq_true] at he
    simp only [lvl] at h
    have hput : entsWf (Ents.put k (.file b) ds) = true := entsWf_put _ _ _ he.1.1.1 (by simp [Node.wf]) hd
    cases hl : Ents.lookup k ds with
    | none => simp only [hl] at h; exact lvl_wf .files es _ d1 he.2 hput h
    | some n =>
      cases n with
      | dir e' => simp [hl] at h
      | file b' => simp only [hl] at h; exact lvl_wf .files es _ d1 he.2 hput h

/-- a name the level does not touch keeps its entry -/
theorem lvl_lookup_other : ∀ (ph : Phase) (es ds d1 : Ents) (k : Name), Ents.lookup k es = none →
    lvl ph es ds = some d1 → Ents.lookup k d1 = Ents.lookup k ds
  | _, [], ds, d1, k, _, h => by simp [lvl] at h; subst h; rfl
  | .struct, (c, .file _) :: es, ds, d1, k, hk, h => by
    have hne : c ≠ k := by intro e; simp [Ents.lookup, e] at hk
    simp only [Ents.lookup, hne, if_false] at hk
    simp only [lvl] at h
    exact lvl_lookup_other .struct es ds d1 k hk h
  | .struct, (c, .dir e) :: es, ds, d1, k, hk, h => by
    have hne : c ≠ k := by intro e; simp [Ents.lookup, e] at hk
    simp only [Ents.lookup, hne, if_false] at hk
    simp only [lvl] at h
    cases hl : Ents.lookup c ds with
    | none =>
      simp only [hl] at h
      rw [lvl_lookup_other .struct es _ d1 k hk h, lookup_put_other _ _ _ _ (Ne.symm hne)]
    | some n =>
      cases n with
      | file b => simp [hl] at h
      | dir e' => simp only [hl] at h; exact lvl_lookup_other .struct es ds d1 k hk h
  | .files, (c, .dir _) :: es, ds, d1, k, hk, h => by
    have hne : c ≠ k := by intro e; simp [Ents.lookup, e] at hk
    simp only [Ents.lookup, hne, if_false] at hk
    simp only [lvl] at h
    exact lvl_lookup_other .files es ds d1 k hk h
  | .files, (c, .file b) :: es, ds, d1, k, hk, h => by
    have hne : c ≠ k := by intro e; simp [Ents.lookup, e] at hk
    simp only [Ents.lookup, hne, if_false] at hk
    simp only [lvl] at h
    cases hl : Ents.lookup c ds with
    | none =>
      simp only [hl] at h
      rw [lvl_lookup_other .files es _ d1 k hk h, lookup_put_other _ _ _ _ (Ne.symm hne)]
    | some n =>
      cases n with
      | dir e' => simp [hl] at h
      | file b' =>
        simp only [hl] at h
        rw [lvl_lookup_other .files es _ d1 k hk h, lookup_put_other _ _ _ _ (Ne.symm hne)]

/-- after the `struct` level every sub-directory of the source is a directory of the destination; after
the `files` level the destination entry of a source sub-directory is what it was -/
theorem lvl_kid : ∀ (ph : Phase) (es ds d1 : Ents) (k : Name) (e : Ents), entsWf es = true →
    Ents.lookup k es = some (.dir e) → lvl ph es ds = some d1 →
    (ph = .struct → ∃ e', Ents.lookup k d1 = some (.dir e')) ∧ (ph = .files → Ents.lookup k d1 = Ents.lookup k ds)
  | _, [], _, _, k, e, _, hk, _ => by simp [Ents.lookup] at hk
  | .struct, (c, .file b) :: es, ds, d1, k, e, he, hk, h => by
    simp only [entsWf, Bool.and_eq_true] at he
    have hne : c ≠ k := by intro x; simp [Ents.lookup, x] at hk
    simp only [Ents.lookup, hne, if_false] at hk
    simp only [lvl] at h
    exact lvl_kid .struct es ds d1 k e he.2 hk h
  | .struct, (c, .dir e0) :: es, ds, d1, k, e, he, hk, h => by
    simp only [entsWf, Bool.and_eq_true] at he
    refine ⟨fun _ => ?_, fun x => by cases x⟩
    simp only [lvl] at h
    by_cases hck : c = k
    · subst hck
      have hnone : Ents.lookup c es = none := by simpa using he.1.1.2
      cases hl : Ents.lookup c ds with
      | none =>
        simp only [hl] at h
        rw [lvl_lookup_other .struct es _ d1 c hnone h, lookup_put_same]; exact ⟨_, rfl⟩
      | some n =>
        cases n with
        | file b => simp [hl] at h
        | dir e' =>
          simp only [hl] at h
          rw [lvl_lookup_other .struct es _ d1 c hnone h, hl]; exact ⟨_, rfl⟩
    · simp only [Ents.lookup, hck, if_false] at hk
      cases hl : Ents.lookup c ds with
      | none => simp only [hl] at h; exact (lvl_kid .struct es _ d1 k e he.2 hk h).1 rfl
      | some n =>
        cases n with
        | file b => simp [hl] at h
        | dir e' => simp only [hl] at h; exact (lvl_kid .struct es _ d1 k e he.2 hk h).1 rfl
  | .files, (c, .dir e0) :: es, ds, d1, k, e, he, hk, h => by
    simp only [entsWf, Bool.and_eq_true] at he
    refine ⟨(fun x => by cases x), fun _ => ?_⟩
    simp only [lvl] at h
    by_cases hck : c = k
    · subst hck
      have hnone : Ents.lookup c es = none := by simpa using he.1.1.2
      exact lvl_lookup_other .files es ds d1 c hnone h
    · simp only [Ents.lookup, hck, if_false] at hk
      exact (lvl_kid .files es ds d1 k e he.2 hk h).2 rfl
  | .files, (c, .file b) :: es, ds, d1, k, e, he, hk, h => by
    simp only [entsWf, Bool.and_eq_true] at he
    refine ⟨(fun x => by cases x), fun _ => ?_⟩
    have hne : c ≠ k := by intro x; simp [Ents.lookup, x] at hk
    simp only [Ents.lookup, hne, if_false] at hk
    simp only [lvl] at h
    cases hl : Ents.lookup c ds with
    | none =>
      simp only [hl] at h
      rw [(lvl_kid .files es _ d1 k e he.2 hk h).2 rfl, lookup_put_other _ _ _ _ (Ne.symm hne)]
    | some n =>
      cases n with
      | dir e' => simp [hl] at h
      | file b' =>
        simp only [hl] at h
        rw [(lvl_kid .files es _ d1 k e he.2 hk h).2 rfl, lookup_put_other _ _ _ _ (Ne.symm hne)]


/-! ### the setting: source `a`, destination `b`, neither inside the other -/

/-- a tree with a directory `S` at `a` and something at `b`; the walks replace the node at `b` -/
structure Ctx where
  root0 : Node
  a : List Name
  b : List Name
  S : Node
  hdir : root0.isDir = true
  hwf : root0.wf = true
  ha : CleanN a
  hb : CleanN b
  inc : Inc a b
  hS : root0.get a = some S
  hB : (root0.get b).isSome = true

namespace Ctx

/-- the state in which the destination sub-tree is `D` -/
def st (C : Ctx) (D : Node) : State := { root := setAt C.root0 C.b D, closed := false }

theorem S_wf (C : Ctx) : C.S.wf = true := TreeLemmas.get_wf C.a C.root0 _ C.hwf C.hS

theorem good (C : Ctx) {ds : Ents} (hw : entsWf ds = true) : GoodS (C.st (.dir ds)) :=
  ⟨rfl, QueryLemmas.setAt_dir_isDir _ _ _ C.hdir, TreeLemmas.setAt_wf _ _ _ C.hb C.hwf hw⟩

theorem get_b (C : Ctx) (D : Node) (r : List Name) : (C.st D).root.get (C.b ++ r) = D.get r := by
  obtain ⟨u, hu⟩ := Option.isSome_iff_exists.1 C.hB
  exact get_setAt hu D r

theorem get_a (C : Ctx) (D : Node) (r : List Name) : (C.st D).root.get (C.a ++ r) = C.S.get r := by
  have h1 : ¬ C.b <+: C.a ++ r := not_prefix_append C.inc.1 C.inc.2
  have h2 : ¬ C.a ++ r <+: C.b := fun h => C.inc.1 ((List.prefix_append _ _).trans h)
  show (setAt C.root0 C.b D).get (C.a ++ r) = _
  rw [get_setAt_diverge _ _ _ _ h1 h2, get_sub C.hS]

theorem setAt_b (C : Ctx) (D : Node) (r : List Name) (x : Node) :
    setAt (C.st D).root (C.b ++ r) x = (C.st (setAt D r x)).root := by
  obtain ⟨u, hu⟩ := Option.isSome_iff_exists.1 C.hB
  exact setAt_setAt_sub hu D x r

theorem clean_src (C : Ctx) {r : List Name} {n : Node} (h : C.S.get r = some n) : CleanN r :=
  names_clean_of_get r C.S n C.S_wf h

theorem ne_ab (C : Ctx) (r : List Name) : C.a ++ r ≠ C.b ++ r := by
  intro h
  have := List.append_cancel_right h
  exact C.inc.1 (this ▸ List.prefix_refl _)

end Ctx

/-- the entries of a sub-directory are listed after it was found by `lookup` -/
theorem clean_of_lookup {es : Ents} {k : Name} {v : Node} (hw : entsWf es = true) (h : Ents.lookup k es = some v) :
    cleanName k = true := lookup_clean k v es hw h

theorem infos_cons (e : Name × Node) (es : Ents) : infos (e :: es) = infoOf e :: infos es := rfl

/-! ### one directory of `copy_structure` -/

/-- `structEntries` on (a suffix of) the entries of the source directory `a/r`, the destination directory
`b/r` holding `ds`: the `struct` level -/
theorem structEntries_ref (C : Ctx) (r : List Name) (hr : CleanN r) :
    ∀ (es' : Ents) (ds : Ents) (D : Node) (q : List Str), entsWf es' = true → entsWf ds = true →
      D.wf = true → D.isDir = true → D.get r = some (.dir ds) →
      match lvl .struct es' ds with
      | some d1 => structEntries PR (absOf C.a) (absOf C.b) (absOf (C.a ++ r)) (infos es') q (C.st D) =
          (C.st (setAt D r (.dir d1)), .ok (q ++ (kids es').map (fun k => absOf (C.a ++ (r ++ [k])))))
      | none => ∃ D', structEntries PR (absOf C.a) (absOf C.b) (absOf (C.a ++ r)) (infos es') q (C.st D) =
          (C.st D', .err .DirectoryExpected)
  | [], ds, D, q, _, _, _, _, hg => by
    simp only [lvl, infos, List.map_nil, structEntries, kids, List.append_nil]
    rw [setAt_self _ _ _ hg]
  | (k, .file fb) :: es', ds, D, q, he, hd, hDw, hDd, hg => by
    simp only [entsWf, Bool.and_eq_true] at he
    have ih := structEntries_ref C r hr es' ds D q he.2 hd hDw hDd hg
    rw [infos_cons]
    simp only [lvl, infoOf, structEntries, Bool.false_eq_true, if_false, kids]
    exact ih
  | (k, .dir ke) :: es', ds, D, q, he, hd, hDw, hDd, hg => by
    simp only [entsWf, Bool.and_eq_true] at he
    have hk : cleanName k = true := he.1.1.1
    have hrk : CleanN (r ++ [k]) := cleanN_snoc hr hk
    have hark : CleanN (C.a ++ r) := cleanN_append.2 ⟨C.ha, hr⟩
    have hbrk : CleanN (C.b ++ (r ++ [k])) := cleanN_append.2 ⟨C.hb, hrk⟩
    obtain ⟨dse, hDe⟩ : ∃ dse, D = .dir dse := by
      cases D with
      | dir x => exact ⟨x, rfl⟩
      | file x => simp [Node.isDir] at hDd
    have hDw' : entsWf dse = true := by subst hDe; simpa [Node.wf] using hDw
    have G : GoodS (C.st D) := by subst hDe; exact C.good hDw'
    -- the call `makedir(b/r/k, recreate=True)`
    have hcomb : combine (absOf (C.a ++ r)) k = absOf (C.a ++ (r ++ [k])) := by
      rw [combine_absOf hark hk, List.append_assoc]
    have htgt : target (absOf C.a) (absOf C.b) (absOf (C.a ++ (r ++ [k]))) = .ok (absOf (C.b ++ (r ++ [k]))) :=
      target_absOf C.ha C.hb hrk (by simp)
    have hpar : (C.st D).root.get (parentOf (C.b ++ (r ++ [k]))) = some (.dir ds) := by
      have : parentOf (C.b ++ (r ++ [k])) = C.b ++ r := by simp [parentOf, ← List.append_assoc]
      rw [this, C.get_b, hg]
    have hkid : (C.st D).root.get (C.b ++ (r ++ [k])) = Ents.lookup k ds := by
      rw [C.get_b, get_child hg]
    have hne : C.b ++ (r ++ [k]) ≠ [] := by simp
    have hmk : PR.makedir (C.st D) (absOf (C.b ++ (r ++ [k]))) =
        step1 (C.st D) (C.b ++ (r ++ [k])) (.makedir (absOf (C.b ++ (r ++ [k]))) true) := by
      show Ref.step (C.st D) (.makedir _ true) = _
      exact ref_one _ G.opn _ hbrk rfl (by intro q m e; cases e)
    rw [infos_cons]
    simp only [lvl, infoOf, structEntries, if_true, kids]
    rw [hcomb, htgt]
    simp only
    rw [hmk]
    simp only [step1, hne, if_false, hpar, hkid]
    cases hl : Ents.lookup k ds with
    | none =>
      simp only [upd]
      have hset : (C.st D).root.set (C.b ++ (r ++ [k])) (.dir []) = (C.st (setAt D r (.dir (Ents.put k (.dir []) ds)))).root := by
        rw [← setAt_ne hne, C.setAt_b, ← setAt_child hg ds k (.dir []), setAt_self _ _ _ hg]
      have hst : ({ (C.st D) with root := (C.st D).root.set (C.b ++ (r ++ [k])) (.dir []) } : State) =
          C.st (setAt D r (.dir (Ents.put k (.dir []) ds))) := by
        rw [hset]; rfl
      rw [hst]
      have hd1 : entsWf (Ents.put k (.dir []) ds) = true := entsWf_put _ _ _ hk (by simp [Node.wf, entsWf]) hd
      have ih := structEntries_ref C r hr es' (Ents.put k (.dir []) ds) (setAt D r (.dir (Ents.put k (.dir []) ds)))
        (q ++ [absOf (C.a ++ (r ++ [k]))]) he.2 hd1
        (by subst hDe; exact TreeLemmas.setAt_wf _ _ _ hr hDw hd1)
        (by subst hDe; exact QueryLemmas.setAt_dir_isDir _ _ _ hDd)
        (get_setAt_self hg _)
      cases hlv : lvl .struct es' (Ents.put k (.dir []) ds) with
      | none =>
        rw [hlv] at ih
        exact ih
      | some d1 =>
        rw [hlv] at ih
        simp only at ih ⊢
        rw [ih, setAt_setAt]
        simp [List.append_assoc]
    | some n =>
      cases n with
      | file fb => exact ⟨D, by simp [fail]⟩
      | dir e' =>
        simp only [done, if_true]
        have ih := structEntries_ref C r hr es' ds D (q ++ [absOf (C.a ++ (r ++ [k]))]) he.2 hd hDw hDd hg
        cases hlv : lvl .struct es' ds with
        | none => rw [hlv] at ih; exact ih
        | some d1 =>
          rw [hlv] at ih
          simp only at ih ⊢
          rw [ih]
          simp [List.append_assoc]

/-! ### one directory of the file walk -/

/-- `fileEntries` on (a suffix of) the entries `es0` of the source directory `a/r`, the destination
directory `b/r` holding `ds`: the `files` level -/
theorem fileEntries_ref (C : Ctx) (r : List Name) (hr : CleanN r) (es0 : Ents) (hS : C.S.get r = some (.dir es0)) :
    ∀ (es' : Ents) (ds : Ents) (D : Node) (q : List Str), (∀ e ∈ es', e ∈ es0) → entsWf es' = true →
      entsWf ds = true → D.wf = true → D.isDir = true → D.get r = some (.dir ds) →
      match lvl .files es' ds with
      | some d1 => fileEntries PR (absOf C.a) (absOf C.b) (absOf (C.a ++ r)) (infos es') q (C.st D) =
          (C.st (setAt D r (.dir d1)), .ok (q ++ (kids es').map (fun k => absOf (C.a ++ (r ++ [k])))))
      | none => ∃ D', fileEntries PR (absOf C.a) (absOf C.b) (absOf (C.a ++ r)) (infos es') q (C.st D) =
          (C.st D', .err .FileExpected)
  | [], ds, D, q, _, _, _, _, _, hg => by
    simp only [lvl, infos, List.map_nil, fileEntries, kids, List.append_nil]
    rw [setAt_self _ _ _ hg]
  | (k, .dir ke) :: es', ds, D, q, hsub, he, hd, hDw, hDd, hg => by
    simp only [entsWf, Bool.and_eq_true] at he
    have hk : cleanName k = true := he.1.1.1
    have hark : CleanN (C.a ++ r) := cleanN_append.2 ⟨C.ha, hr⟩
    have hcomb : combine (absOf (C.a ++ r)) k = absOf (C.a ++ (r ++ [k])) := by
      rw [combine_absOf hark hk, List.append_assoc]
    have ih := fileEntries_ref C r hr es0 hS es' ds D (q ++ [absOf (C.a ++ (r ++ [k]))])
      (fun e h => hsub e (by simp [h])) he.2 hd hDw hDd hg
    rw [infos_cons]
    simp only [lvl, infoOf, fileEntries, if_true, kids]
    rw [hcomb]
    cases hlv : lvl .files es' ds with
    | none => rw [hlv] at ih; exact ih
    | some d1 =>
      rw [hlv] at ih
      simp only at ih ⊢
      rw [ih]
      simp [List.append_assoc]
  | (k, .file fb) :: es', ds, D, q, hsub, he, hd, hDw, hDd, hg => by
    simp only [entsWf, Bool.and_eq_true] at he
    have hk : cleanName k = true := he.1.1.1
    have hrk : CleanN (r ++ [k]) := cleanN_snoc hr hk
    have hark : CleanN (C.a ++ r) := cleanN_append.2 ⟨C.ha, hr⟩
    have hsrc : CleanN (C.a ++ (r ++ [k])) := cleanN_append.2 ⟨C.ha, hrk⟩
    have hdst : CleanN (C.b ++ (r ++ [k])) := cleanN_append.2 ⟨C.hb, hrk⟩
    obtain ⟨dse, hDe⟩ : ∃ dse, D = .dir dse := by
      cases D with
      | dir x => exact ⟨x, rfl⟩
      | file x => simp [Node.isDir] at hDd
    have hDw' : entsWf dse = true := by subst hDe; simpa [Node.wf] using hDw
    have G : GoodS (C.st D) := by subst hDe; exact C.good hDw'
    have hw0 : entsWf es0 = true := by
      have := TreeLemmas.get_wf r C.S _ C.S_wf hS
      simpa [Node.wf] using this
    have hl0 : Ents.lookup k es0 = some (.file fb) := lookup_of_mem_wf es0 k _ hw0 (hsub _ (by simp))
    have hcomb : combine (absOf (C.a ++ r)) k = absOf (C.a ++ (r ++ [k])) := by
      rw [combine_absOf hark hk, List.append_assoc]
    have htgt : target (absOf C.a) (absOf C.b) (absOf (C.a ++ (r ++ [k]))) = .ok (absOf (C.b ++ (r ++ [k]))) :=
      target_absOf C.ha C.hb hrk (by simp)
    have hgs : (C.st D).root.get (C.a ++ (r ++ [k])) = some (.file fb) := by
      rw [C.get_a, get_child hS, hl0]
    have hpar : (C.st D).root.get (parentOf (C.b ++ (r ++ [k]))) = some (.dir ds) := by
      have : parentOf (C.b ++ (r ++ [k])) = C.b ++ r := by simp [parentOf, ← List.append_assoc]
      rw [this, C.get_b, hg]
    have hkid : (C.st D).root.get (C.b ++ (r ++ [k])) = Ents.lookup k ds := by
      rw [C.get_b, get_child hg]
    have hne : C.b ++ (r ++ [k]) ≠ [] := by simp
    have hneq : C.a ++ (r ++ [k]) ≠ C.b ++ (r ++ [k]) := C.ne_ab _
    have hsne : absOf (C.a ++ (r ++ [k])) ≠ absOf (C.b ++ (r ++ [k])) := fun e => hneq (absOf_inj hsrc hdst e)
    -- `copy_file_internal`
    have hcfi : copyFileInternal PR (C.st D) (absOf (C.a ++ (r ++ [k]))) (absOf (C.b ++ (r ++ [k]))) =
        step2 (C.st D) (C.a ++ (r ++ [k])) (C.b ++ (r ++ [k]))
          (.copy (absOf (C.a ++ (r ++ [k]))) (absOf (C.b ++ (r ++ [k]))) true) := by
      have hv1 : PR.validatepath (C.st D) (absOf (C.a ++ (r ++ [k]))) = (C.st D, .ok (absOf (C.a ++ (r ++ [k])))) :=
        validateOf_ref_absOf _ G.opn hsrc
      have hv2 : PR.validatepath (C.st D) (absOf (C.b ++ (r ++ [k]))) = (C.st D, .ok (absOf (C.b ++ (r ++ [k])))) :=
        validateOf_ref_absOf _ G.opn hdst
      simp only [copyFileInternal, hv1, hv2, hsne, if_false]
      show Ref.step (C.st D) (.copy _ _ true) = _
      exact ref_two _ G.opn _ hsrc hdst rfl
    rw [infos_cons]
    simp only [lvl, infoOf, fileEntries, Bool.false_eq_true, if_false, kids]
    rw [hcomb, htgt]
    simp only
    rw [hcfi]
    simp only [step2, Bool.not_true, Bool.false_and, Bool.false_eq_true, if_false, hneq, hgs, hne, hpar, hkid]
    have hput : entsWf (Ents.put k (.file fb) ds) = true := entsWf_put _ _ _ hk (by simp [Node.wf]) hd
    have hset : (C.st D).root.set (C.b ++ (r ++ [k])) (.file fb) =
        (C.st (setAt D r (.dir (Ents.put k (.file fb) ds)))).root := by
      rw [← setAt_ne hne, C.setAt_b, ← setAt_child hg ds k (.file fb), setAt_self _ _ _ hg]
    have hst : ({ (C.st D) with root := (C.st D).root.set (C.b ++ (r ++ [k])) (.file fb) } : State) =
        C.st (setAt D r (.dir (Ents.put k (.file fb) ds))) := by
      rw [hset]; rfl
    have ih := fileEntries_ref C r hr es0 hS es' (Ents.put k (.file fb) ds)
      (setAt D r (.dir (Ents.put k (.file fb) ds))) q (fun e h => hsub e (by simp [h])) he.2 hput
      (by subst hDe; exact TreeLemmas.setAt_wf _ _ _ hr hDw hput)
      (by subst hDe; exact QueryLemmas.setAt_dir_isDir _ _ _ hDd)
      (get_setAt_self hg _)
    cases hl : Ents.lookup k ds with
    | none =>
      simp only [upd]
      rw [hst]
      cases hlv : lvl .files es' (Ents.put k (.file fb) ds) with
      | none => rw [hlv] at ih; exact ih
      | some d1 => rw [hlv] at ih; simp only at ih ⊢; rw [ih, setAt_setAt]
    | some n =>
      cases n with
      | dir e' => exact ⟨D, by simp [fail]⟩
      | file b' =>
        simp only [upd]
        rw [hst]
        cases hlv : lvl .files es' (Ents.put k (.file fb) ds) with
        | none => rw [hlv] at ih; exact ih
        | some d1 => rw [hlv] at ih; simp only at ih ⊢; rw [ih, setAt_setAt]

/-! ### the breadth-first walk -/

/-- what the consumer of the walk does with one directory: the level `lvl ph` on the destination directory,
the sub-directories appended to the queue — or the conflict class -/
def VisitSpec (C : Ctx) (ph : Phase) (visit : Str → List ScanInfo → List Str → State → State × Res (List Str)) : Prop :=
  ∀ (r : List Name) (es ds : Ents) (D : Node) (q : List Str), C.S.get r = some (.dir es) → entsWf ds = true →
    D.wf = true → D.isDir = true → D.get r = some (.dir ds) →
    match lvl ph es ds with
    | some d1 => visit (absOf (C.a ++ r)) (infos es) q (C.st D) =
        (C.st (setAt D r (.dir d1)), .ok (q ++ (kids es).map (fun k => absOf (C.a ++ (r ++ [k])))))
    | none => ∃ D', visit (absOf (C.a ++ r)) (infos es) q (C.st D) = (C.st D', .err (cls ph))

theorem visitSpec_struct (C : Ctx) : VisitSpec C .struct (structEntries PR (absOf C.a) (absOf C.b)) := by
  intro r es ds D q hs hd hDw hDd hg
  have hw : entsWf es = true := entsWf_of_get C.S_wf hs
  exact structEntries_ref C r (C.clean_src hs) es ds D q hw hd hDw hDd hg

theorem visitSpec_files (C : Ctx) : VisitSpec C .files (fileEntries PR (absOf C.a) (absOf C.b)) := by
  intro r es ds D q hs hd hDw hDd hg
  have hw : entsWf es = true := entsWf_of_get C.S_wf hs
  exact fileEntries_ref C r (C.clean_src hs) es hs es ds D q (fun e h => h) hw hd hDw hDd hg

/-- the invariant on a pending directory: its destination is there (`struct`: the directory itself, it was
created when its parent was visited; `files`: every directory below it, the structure walk is over) -/
def J (ph : Phase) (S D : Node) (r : List Name) : Prop :=
  match ph with
  | .struct => ∃ ds, D.get r = some (.dir ds)
  | .files => Cov S D r

theorem J_dir {ph : Phase} {S D : Node} {r : List Name} {es : Ents} (hs : S.get r = some (.dir es))
    (h : J ph S D r) : ∃ ds, D.get r = some (.dir ds) := by
  cases ph with
  | struct => exact h
  | files => simpa using h [] es (by simpa using hs)

theorem J_other {ph : Phase} {S D : Node} {r r' : List Name} (x : Node) (hi : Inc r r') (h : J ph S D r') :
    J ph S (setAt D r x) r' := by
  cases ph with
  | struct =>
    obtain ⟨ds, hd⟩ := h
    exact ⟨ds, by rw [get_setAt_diverge _ _ _ _ hi.1 hi.2]; exact hd⟩
  | files =>
    intro y e hy
    obtain ⟨ds, hd⟩ := h y e hy
    refine ⟨ds, ?_⟩
    rw [get_setAt_diverge _ _ _ _ ?_ ?_]; exact hd
    · intro hp
      rcases List.prefix_or_prefix_of_prefix hp (List.prefix_append r' y) with h1 | h1
      · exact hi.1 h1
      · exact hi.2 h1
    · intro hp; exact hi.2 ((List.prefix_append r' y).trans hp)

theorem J_kid {ph : Phase} {S D : Node} {r : List Name} {es ds d1 : Ents} {k : Name} {e : Ents}
    (hw : entsWf es = true) (hd : D.get r = some (.dir ds)) (hk : Ents.lookup k es = some (.dir e))
    (hl : lvl ph es ds = some d1) (h : J ph S D r) : J ph S (setAt D r (.dir d1)) (r ++ [k]) := by
  have hkid := lvl_kid ph es ds d1 k e hw hk hl
  cases ph with
  | struct =>
    obtain ⟨e', he'⟩ := hkid.1 rfl
    exact ⟨e', by rw [get_setAt hd]; simp [Node.get, he']⟩
  | files =>
    intro y e0 hy
    have hc := h ([k] ++ y) e0 (by simpa [List.append_assoc] using hy)
    obtain ⟨ds', hds'⟩ := hc
    refine ⟨ds', ?_⟩
    rw [List.append_assoc, get_setAt hd]
    rw [get_sub hd] at hds'
    simpa [Node.get, hkid.2 rfl] using hds'

/-- the size of the source sub-trees still to be walked -/
def qCount (S : Node) (Q : List (List Name)) : Nat := (Q.map (subCount S)).sum

theorem qCount_append (S : Node) (Q1 Q2 : List (List Name)) : qCount S (Q1 ++ Q2) = qCount S Q1 + qCount S Q2 := by
  simp [qCount]

theorem kids_count (S : Node) (r : List Name) (es : Ents) (hs : S.get r = some (.dir es)) (hw : entsWf es = true) :
    qCount S ((kids es).map (fun k => r ++ [k])) ≤ entsCount es := by
  have key : ∀ (es' : Ents), (∀ e ∈ es', e ∈ es) →
      qCount S ((kids es').map (fun k => r ++ [k])) ≤ entsCount es' := by
    intro es'
    induction es' with
    | nil => intro _; simp [kids, qCount]
    | cons x xs ih =>
      intro hsub
      obtain ⟨k, v⟩ := x
      have ih' := ih (fun e h => hsub e (by simp [h]))
      cases v with
      | file b => simp only [kids, entsCount]; omega
      | dir e =>
        have hl := lookup_of_mem_wf es k (.dir e) hw (hsub _ (by simp))
        have : subCount S (r ++ [k]) = (Node.dir e).count := by
          simp [subCount, get_child hs, hl]
        simp only [kids, List.map_cons, qCount, List.sum_cons, entsCount, this] at ih' ⊢
        omega
  exact key es (fun e h => h)

theorem map_paths (a r : List Name) (ks : List Name) :
    ks.map (fun k => absOf (a ++ (r ++ [k]))) = (ks.map (fun k => r ++ [k])).map (fun r' => absOf (a ++ r')) := by
  simp [List.map_map, Function.comp_def]

/-- **the breadth-first walk computes `recQ`.**  From a queue of pending directories that is an antichain,
each a directory of the source whose destination is in place, with fuel for the directories still to come:
the walk ends in the destination `recQ` describes — or fails with the conflict class of the phase when
`recQ` has none. -/
theorem walk_ref (C : Ctx) (ph : Phase) (visit : Str → List ScanInfo → List Str → State → State × Res (List Str))
    (HV : VisitSpec C ph visit) :
    ∀ (fuel : Nat) (Q : List (List Name)) (D : Node), D.wf = true → D.isDir = true →
      (∀ r ∈ Q, ∃ es, C.S.get r = some (.dir es)) → (∀ r ∈ Q, J ph C.S D r) → Q.Pairwise Inc →
      qCount C.S Q < fuel →
      match recQ ph C.S Q D with
      | some D' => walkBreadth PR visit fuel (Q.map (fun r => absOf (C.a ++ r))) (C.st D) = (C.st D', .ok .unit)
      | none => ∃ D', walkBreadth PR visit fuel (Q.map (fun r => absOf (C.a ++ r))) (C.st D) =
          (C.st D', .err (cls ph))
  | 0, _, _, _, _, _, _, _, hf => by omega
  | f + 1, [], D, _, _, _, _, _, _ => by simp [recQ, walkBreadth]
  | f + 1, r :: Q', D, hDw, hDd, hsrc, hJ, hpw, hf => by
    obtain ⟨es, hs⟩ := hsrc r (by simp)
    obtain ⟨ds, hd⟩ := J_dir hs (hJ r (by simp))
    have hwe : entsWf es = true := entsWf_of_get C.S_wf hs
    have hwd : entsWf ds = true := entsWf_of_get hDw hd
    have hr : CleanN r := C.clean_src hs
    obtain ⟨dse, hDe⟩ : ∃ dse, D = .dir dse := by
      cases D with
      | dir x => exact ⟨x, rfl⟩
      | file x => simp [Node.isDir] at hDd
    have G : GoodS (C.st D) := by
      subst hDe; exact C.good (by simpa [Node.wf] using hDw)
    have hsc : PR.scandir (C.st D) (absOf (C.a ++ r)) = (C.st D, .ok (infos es)) := by
      show scanOf Ref.step (C.st D) (absOf (C.a ++ r)) = _
      rw [scanOf_ref _ G.opn G.wf (cleanN_append.2 ⟨C.ha, hr⟩), C.get_a, hs]
    have hv := HV r es ds D (Q'.map (fun r => absOf (C.a ++ r))) hs hwd hDw hDd hd
    simp only [List.map_cons, walkBreadth, hsc]
    cases hl : lvl ph es ds with
    | none =>
      rw [hl] at hv
      obtain ⟨D', hD'⟩ := hv
      have : recQ ph C.S (r :: Q') D = none := by
        simp [recQ, modAt_unfold_none ph C.S D r es ds hs hd hl]
      rw [this]
      exact ⟨D', by rw [hD']⟩
    | some d1 =>
      rw [hl] at hv
      simp only at hv
      rw [hv]
      simp only
      -- the new queue and destination
      have hpw' := List.pairwise_cons.1 hpw
      have hD1w : (setAt D r (.dir d1)).wf = true := by
        subst hDe; exact TreeLemmas.setAt_wf _ _ _ hr hDw (lvl_wf ph es ds d1 hwe hwd hl)
      have hD1d : (setAt D r (.dir d1)).isDir = true := by
        subst hDe; exact QueryLemmas.setAt_dir_isDir _ _ _ hDd
      have hkl : ∀ k ∈ kids es, ∃ e, Ents.lookup k es = some (.dir e) := fun k hk => lookup_of_mem_kids hwe hk
      have hincK : ∀ p ∈ (kids es).map (fun k => r ++ [k]), ∀ q ∈ Q', Inc p q := by
        intro p hp q hq
        obtain ⟨k, _, rfl⟩ := List.mem_map.1 hp
        exact inc_child_left k (hpw'.1 q hq)
      have hrec : recQ ph C.S (r :: Q') D = recQ ph C.S (Q' ++ (kids es).map (fun k => r ++ [k])) (setAt D r (.dir d1)) := by
        rw [← recQ_comm ph C.S _ _ _ hincK, recQ_append]
        simp only [recQ]
        rw [modAt_unfold_some ph C.S D r es ds d1 C.S_wf hs hd hl]
      rw [hrec, map_paths, ← List.map_append]
      refine walk_ref C ph visit HV f _ _ hD1w hD1d ?_ ?_ ?_ ?_
      · intro r' hr'
        rcases List.mem_append.1 hr' with h | h
        · exact hsrc r' (by simp [h])
        · obtain ⟨k, hk, rfl⟩ := List.mem_map.1 h
          obtain ⟨e, he⟩ := hkl k hk
          exact ⟨e, by rw [get_child hs, he]⟩
      · intro r' hr'
        rcases List.mem_append.1 hr' with h | h
        · exact J_other _ (hpw'.1 r' h) (hJ r' (by simp [h]))
        · obtain ⟨k, hk, rfl⟩ := List.mem_map.1 h
          obtain ⟨e, he⟩ := hkl k hk
          exact J_kid hwe hd he hl (hJ r (by simp))
      · rw [List.pairwise_append]
        refine ⟨hpw'.2, ?_, ?_⟩
        · rw [List.pairwise_map]
          exact (kids_nodup es hwe).imp (fun h => inc_siblings r h)
        · intro q hq p hp
          exact inc_symm (hincK p hp q hq)
      · have h1 := kids_count C.S r es hs hwe
        have h2 : subCount C.S r = 1 + entsCount es := by simp [subCount, hs, Node.count]
        simp only [qCount, List.map_cons, List.sum_cons] at hf
        rw [qCount_append]
        simp only [qCount] at h1 ⊢
        omega

end Fs.BaseWalkCopy
