/-
  Helper lemmas for C07: association-list stores, the frame property of primitive steps and of
  whole programs under any fault, agreement of an un-hit faulted run with the un-faulted run,
  and "an injected exception that no handler swallows is never turned into a normal return".
-/
import FsModel.Fault

set_option linter.unusedSimpArgs false

namespace Fs.Fault

/-! ### association lists -/

theorem fget_filter_key (P : Path → Bool) (l : Files) (x : Path) (h : P x = true) :
    fget (l.filter (fun e => P e.1)) x = fget l x := by
  induction l with
  | nil => rfl
  | cons e r ih =>
    obtain ⟨q, b⟩ := e
    by_cases hq : q = x
    · subst hq; simp [List.filter, h, fget]
    · by_cases hp : P q = true
      · simp [List.filter, hp, fget, hq, ih]
      · simp [List.filter, hp, fget, hq, ih]

theorem fget_filter_key_false (P : Path → Bool) (l : Files) (x : Path) (h : P x = false) :
    fget (l.filter (fun e => P e.1)) x = none := by
  induction l with
  | nil => rfl
  | cons e r ih =>
    obtain ⟨q, b⟩ := e
    by_cases hp : P q = true
    · have hq : q ≠ x := by intro hqx; subst hqx; rw [h] at hp; cases hp
      simp [List.filter, hp, fget, hq, ih]
    · simp [List.filter, hp, ih]

theorem fget_fdel_self (l : Files) (p : Path) : fget (fdel l p) p = none := by
  unfold fdel
  exact fget_filter_key_false (fun q => decide (q ≠ p)) l p (by simp)

theorem fget_fdel_ne (l : Files) (p x : Path) (h : p ≠ x) : fget (fdel l p) x = fget l x := by
  unfold fdel
  exact fget_filter_key (fun q => decide (q ≠ p)) l x (by simp [Ne.symm h])

theorem fget_fset_self (l : Files) (p : Path) (b : Bytes) : fget (fset l p b) p = some b := by
  simp [fset, fget]

theorem fget_fset_ne (l : Files) (p x : Path) (b : Bytes) (h : p ≠ x) :
    fget (fset l p b) x = fget l x := by
  simp [fset, fget, h, fget_fdel_ne l p x h]

theorem fget_append (l1 l2 : Files) (x : Path) :
    fget (l1 ++ l2) x = (fget l1 x).orElse (fun _ => fget l2 x) := by
  induction l1 with
  | nil => simp [fget]
  | cons e r ih =>
    obtain ⟨q, b⟩ := e
    by_cases hq : q = x
    · simp [fget, hq]
    · simp [fget, hq, ih]

theorem fget_none_of_keys (l : Files) (x : Path) (h : ∀ e ∈ l, e.1 ≠ x) : fget l x = none := by
  induction l with
  | nil => rfl
  | cons e r ih =>
    obtain ⟨q, b⟩ := e
    have hq : q ≠ x := h (q, b) (by simp)
    simp [fget, hq]
    exact ih (fun e he => h e (by simp [he]))

theorem isPre_iff (r p : Path) : isPre r p = true ↔ r <+: p := by
  unfold isPre; exact List.isPrefixOf_iff_prefix

theorem isPre_refl (p : Path) : isPre p p = true := (isPre_iff p p).2 (List.prefix_refl p)

theorem isPre_rebase (root q x : Path) : isPre q (rebase root q x) = true := by
  rw [isPre_iff]; unfold rebase; exact List.prefix_append q _

theorem rebase_self (p q : Path) : rebase p q p = q := by simp [rebase]

/-- `rebase` is injective on the subtree `root` -/
theorem rebase_inj (root droot x y : Path) (hx : isPre root x = true) (hy : isPre root y = true)
    (h : rebase root droot x = rebase root droot y) : x = y := by
  rw [isPre_iff] at hx hy
  obtain ⟨tx, rfl⟩ := hx
  obtain ⟨ty, rfl⟩ := hy
  simp [rebase] at h
  rw [h]

/-! ### state accessors -/

@[simp] theorem State.get_put_same (s : State) (σ : Side) (st : Store) : (s.put σ st).get σ = st := by
  cases σ <;> rfl

theorem State.get_put_ne (s : State) (σ ρ : Side) (st : Store) (h : σ ≠ ρ) :
    (s.put σ st).get ρ = s.get ρ := by
  cases σ <;> cases ρ <;> first | rfl | exact absurd rfl h

@[simp] theorem State.file_put_same (s : State) (σ : Side) (st : Store) (x : Path) :
    (s.put σ st).file σ x = fget st.files x := by
  simp [State.file]

theorem State.file_put_ne (s : State) (σ ρ : Side) (st : Store) (x : Path) (h : σ ≠ ρ) :
    (s.put σ st).file ρ x = s.file ρ x := by
  simp [State.file, State.get_put_ne s σ ρ st h]

@[simp] theorem State.put_buf (s : State) (σ : Side) (st : Store) : (s.put σ st).buf = s.buf := by
  cases σ <;> rfl

@[simp] theorem State.file_buf (s : State) (b : Bytes) (ρ : Side) (x : Path) :
    State.file { s with buf := b } ρ x = s.file ρ x := by
  cases ρ <;> rfl

/-- updating the files of side `σ` leaves `(ρ, x)` alone unless it is the updated entry -/
theorem State.file_put_of (s : State) (σ ρ : Side) (st : Store) (x : Path)
    (h : σ = ρ → fget st.files x = fget (s.get σ).files x) :
    (s.put σ st).file ρ x = s.file ρ x := by
  by_cases hσ : σ = ρ
  · subst hσ; simp [State.file, h rfl]
  · exact State.file_put_ne s σ ρ st x hσ

/-! ### the frame property of one primitive step -/

theorem Store.moveTree_frame (st : Store) (p q x : Path) (hp : isPre p x = false) (hq : isPre q x = false) :
    fget (st.moveTree p q).files x = fget st.files x := by
  unfold Store.moveTree
  simp only
  rw [fget_append]
  have h1 : fget ((st.files.filter (fun e => isPre p e.1)).map (fun e => (rebase p q e.1, e.2))) x = none := by
    apply fget_none_of_keys
    intro e he
    simp only [List.mem_map] at he
    obtain ⟨e', _, rfl⟩ := he
    intro hx
    simp only at hx
    have := isPre_rebase p q e'.1
    rw [hx, hq] at this
    cases this
  rw [h1]
  simp only [Option.orElse]
  exact fget_filter_key (fun k => !isPre p k) st.files x (by simp [hp])

theorem Store.delTree_frame (st : Store) (p x : Path) (hp : isPre p x = false) :
    fget (st.delTree p).files x = fget st.files x := by
  unfold Store.delTree
  exact fget_filter_key (fun k => !isPre p k) st.files x (by simp [hp])

theorem Prim.step_frame (pr : Prim) (s s' : State) (ρ : Side) (x : Path)
    (h : pr.step s = .ok s') (hm : pr.mutates ρ x = false) : s'.file ρ x = s.file ρ x := by
  cases pr with
  | call n σ p => simp [Prim.step] at h; subst h; rfl
  | exists_ σ p => simp [Prim.step] at h; subst h; rfl
  | getinfo σ p => simp [Prim.step] at h; split at h <;> simp at h; subst h; rfl
  | scandir σ p =>
    simp only [Prim.step] at h
    split at h
    · simp at h; subst h; rfl
    · split at h <;> simp at h
  | openR σ p =>
    simp only [Prim.step] at h
    split at h
    · simp at h; subst h; rfl
    · split at h <;> simp at h
  | openW σ p =>
    simp only [Prim.step] at h
    split at h
    · simp at h
    · split at h
      · simp at h
      · split at h
        · simp at h
        · simp at h; subst h
          apply State.file_put_of
          intro hσ
          simp [Prim.mutates, hσ] at hm
          simp [Store.setFile, fget_fset_ne _ _ _ _ hm]
  | read σ p off len => simp [Prim.step] at h; subst h; simp
  | write σ p =>
    simp only [Prim.step] at h
    split at h
    · simp at h; subst h
      apply State.file_put_of
      intro hσ
      simp [Prim.mutates, hσ] at hm
      simp [Store.setFile, fget_fset_ne _ _ _ _ hm]
    · simp at h; subst h; rfl
  | close σ p => simp [Prim.step] at h; subst h; rfl
  | makedir σ p rc =>
    simp only [Prim.step] at h
    have key : ∀ st : Store, st.files = (s.get σ).files → (s.put σ st).file ρ x = s.file ρ x := by
      intro st hst; apply State.file_put_of; intro _; rw [hst]
    split at h
    · split at h <;> simp at h; subst h; rfl
    · split at h
      · simp at h
      · split at h
        · split at h <;> simp at h; subst h; rfl
        · split at h
          · simp at h
          · simp at h; subst h; exact key _ rfl
  | remove σ p os =>
    simp only [Prim.step] at h
    split at h
    · simp at h; subst h
      apply State.file_put_of
      intro hσ
      simp [Prim.mutates, hσ] at hm
      simp [Store.delFile, fget_fdel_ne _ _ _ hm]
    · split at h
      · simp at h
      · split at h <;> simp at h
  | removedir σ p os =>
    simp only [Prim.step] at h
    split at h
    · simp at h
    · split at h
      · split at h
        · simp at h
        · simp at h; subst h
          apply State.file_put_of; intro _; rfl
      · split at h
        · simp at h
        · split at h <;> simp at h
  | setinfo σ p => simp [Prim.step] at h; split at h <;> simp at h; subst h; rfl
  | copyAtomic σ p q =>
    simp only [Prim.step] at h
    split at h
    · simp at h
    · split at h
      · simp at h
      · split at h
        · simp at h
        · split at h
          · simp at h
          · simp at h; subst h
            apply State.file_put_of
            intro hσ
            simp [Prim.mutates, hσ] at hm
            simp [Store.setFile, fget_fset_ne _ _ _ _ hm]
  | rename σ p τ q =>
    simp only [Prim.step] at h
    split at h
    · simp at h
    · split at h
      · simp at h
      · simp at h; subst h
        simp only [Prim.mutates, Bool.or_eq_false_iff, Bool.and_eq_false_iff, decide_eq_false_iff_not] at hm
        obtain ⟨hm1, hm2⟩ := hm
        have e1 : ((s.put σ ((s.get σ).delFile p)).file ρ x) = s.file ρ x := by
          apply State.file_put_of
          intro hσ
          have : p ≠ x := by cases hm1 with | inl h => exact absurd hσ h | inr h => exact h
          simp [Store.delFile, fget_fdel_ne _ _ _ this]
        rw [← e1]
        apply State.file_put_of
        intro hτ
        have : q ≠ x := by cases hm2 with | inl h => exact absurd hτ h | inr h => exact h
        simp [Store.setFile, fget_fset_ne _ _ _ _ this]
  | relinkFile σ p q ow =>
    simp only [Prim.step] at h
    split at h
    · simp at h
    · split at h
      · simp at h
      · split at h
        · simp at h
        · split at h
          · simp at h; subst h; rfl
          · split at h
            · simp at h
            · simp at h; subst h
              apply State.file_put_of
              intro hσ
              simp [Prim.mutates, hσ] at hm
              obtain ⟨hp, hq⟩ := hm
              simp [Store.setFile, Store.delFile, fget_fset_ne _ _ _ _ hq, fget_fdel_ne _ _ _ hp]
  | relinkDir σ p q cr =>
    simp only [Prim.step] at h
    split at h
    · simp at h
    · split at h
      · simp at h
      · split at h
        · simp at h
        · simp at h; subst h
          apply State.file_put_of
          intro hσ
          simp [Prim.mutates, hσ] at hm
          exact Store.moveTree_frame _ p q x hm.1 hm.2
  | unlinkTree σ p =>
    simp only [Prim.step] at h
    have key : (s.put σ ((s.get σ).delTree p)).file ρ x = s.file ρ x := by
      apply State.file_put_of
      intro hσ
      simp [Prim.mutates, hσ] at hm
      exact Store.delTree_frame _ p x hm
    split at h
    · simp at h; subst h; exact key
    · split at h
      · simp at h; subst h; exact key
      · split at h <;> simp at h

/-! ### execution lemmas -/

/-- what one primitive step can do under any fault: nothing, or its own effect -/
theorem execPrim_cases (f : Option Fault) (p : Prim) (n : Nat) (s : State) :
    ((execPrim f p n s).state = s ∧ (execPrim f p n s).out ≠ .ok) ∨
    (p.step s = .ok (execPrim f p n s).state) := by
  unfold execPrim
  cases f with
  | none =>
    cases hs : p.step s with
    | ok s' => right; simp
    | error x => left; simp
  | some flt =>
    obtain ⟨k, kind, late⟩ := flt
    simp only
    by_cases hk : k = n
    · simp only [hk, if_true]
      cases kind with
      | crash => left; simp
      | fserr =>
        cases late with
        | false => left; simp
        | true =>
          cases hs : p.step s with
          | ok s' => right; simp
          | error x => left; simp
      | oserr =>
        cases late with
        | false => left; simp
        | true =>
          cases hs : p.step s with
          | ok s' => right; simp
          | error x => left; simp
    · simp only [hk, if_false]
      cases hs : p.step s with
      | ok s' => right; simp
      | error x => left; simp

theorem execPrim_frame (f : Option Fault) (p : Prim) (n : Nat) (s : State) (ρ : Side) (x : Path)
    (hm : p.mutates ρ x = false) : (execPrim f p n s).state.file ρ x = s.file ρ x := by
  rcases execPrim_cases f p n s with ⟨h, _⟩ | h
  · rw [h]
  · exact Prim.step_frame p s _ ρ x h hm

/-- FRAME: a program none of whose steps can touch `(ρ, x)` leaves it unchanged — under every
    fault, whether it returns, raises or crashes. -/
theorem exec_frame (f : Option Fault) (ρ : Side) (x : Path) (prog : Prog) :
    ∀ (n : Nat) (s : State), (∀ pr ∈ prog.prims, pr.mutates ρ x = false) →
      (exec f prog n s).state.file ρ x = s.file ρ x := by
  induction prog with
  | skip => intro n s _; rfl
  | prim p => intro n s h; exact execPrim_frame f p n s ρ x (h p (by simp [Prog.prims]))
  | raise e => intro n s _; rfl
  | seq a b iha ihb =>
    intro n s h
    have ha := iha n s (fun pr hpr => h pr (by simp [Prog.prims, hpr]))
    simp only [exec]
    split
    · rw [← ha]
      exact ihb _ _ (fun pr hpr => h pr (by simp [Prog.prims, hpr]))
    · exact ha
  | tryCatch p c hd rr ih =>
    intro n s h
    have hp := execPrim_frame f p n s ρ x (h p (by simp [Prog.prims]))
    have hh := ih (execPrim f p n s).ctr (execPrim f p n s).state
      (fun pr hpr => h pr (by simp [Prog.prims, hpr]))
    simp only [exec]
    split
    · split
      · split <;> (simp only []; rw [hh, hp])
      · exact hp
    · exact hp
  | tryElse p c hd e ihh ihe =>
    intro n s h
    have hp := execPrim_frame f p n s ρ x (h p (by simp [Prog.prims]))
    have hh := ihh (execPrim f p n s).ctr (execPrim f p n s).state
      (fun pr hpr => h pr (by simp [Prog.prims, hpr]))
    have he := ihe (execPrim f p n s).ctr (execPrim f p n s).state
      (fun pr hpr => h pr (by simp [Prog.prims, hpr]))
    simp only [exec]
    split
    · simp only []; rw [he, hp]
    · split
      · simp only []; rw [hh, hp]
      · exact hp
    · exact hp
  | tryFinally b fin ihb ihf =>
    intro n s h
    have hb := ihb n s (fun pr hpr => h pr (by simp [Prog.prims, hpr]))
    have hf := ihf (exec f b n s).ctr (exec f b n s).state
      (fun pr hpr => h pr (by simp [Prog.prims, hpr]))
    simp only [exec]
    split
    · exact hb
    · split <;> (simp only []; rw [hf, hb])


theorem execPrim_none_hit (p : Prim) (n : Nat) (s : State) : (execPrim none p n s).hit = false := by
  unfold execPrim; cases p.step s <;> rfl

theorem exec_none_hit (prog : Prog) : ∀ (n : Nat) (s : State), (exec none prog n s).hit = false := by
  induction prog with
  | skip => intro n s; rfl
  | prim p => intro n s; exact execPrim_none_hit p n s
  | raise e => intro n s; rfl
  | seq a b iha ihb =>
    intro n s
    simp only [exec]
    split
    · simp [iha, ihb]
    · exact iha n s
  | tryCatch p c hd rr ih =>
    intro n s
    simp only [exec]
    split
    · split
      · split <;> simp [execPrim_none_hit, ih]
      · exact execPrim_none_hit p n s
    · exact execPrim_none_hit p n s
  | tryElse p c hd e ihh ihe =>
    intro n s
    simp only [exec]
    split
    · simp [execPrim_none_hit, ihe]
    · split
      · simp [execPrim_none_hit, ihh]
      · exact execPrim_none_hit p n s
    · exact execPrim_none_hit p n s
  | tryFinally b fin ihb ihf =>
    intro n s
    simp only [exec]
    split
    · exact ihb n s
    · split <;> simp [ihb, ihf]

theorem execPrim_nohit_eq (flt : Fault) (p : Prim) (n : Nat) (s : State)
    (h : (execPrim (some flt) p n s).hit = false) : execPrim (some flt) p n s = execPrim none p n s := by
  obtain ⟨k, kind, late⟩ := flt
  unfold execPrim at h ⊢
  simp only at h ⊢
  by_cases hk : k = n
  · simp only [hk, if_true] at h
    cases kind <;> cases late <;> simp at h <;> (cases hs : p.step s <;> simp [hs] at h)
  · simp only [hk, if_false]

theorem execPrim_hit_out (flt : Fault) (p : Prim) (n : Nat) (s : State)
    (h : (execPrim (some flt) p n s).hit = true) :
    (execPrim (some flt) p n s).out = .crashed ∨ (execPrim (some flt) p n s).out = .raised flt.kind.exc := by
  obtain ⟨k, kind, late⟩ := flt
  unfold execPrim at h ⊢
  simp only at h ⊢
  by_cases hk : k = n
  · simp only [hk, if_true]
    cases kind <;> cases late <;> simp <;> (cases hs : p.step s <;> simp)
  · simp only [hk, if_false] at h
    cases hs : p.step s <;> simp [hs] at h


theorem exec_nohit_eq (flt : Fault) (prog : Prog) : ∀ (n : Nat) (s : State),
    (exec (some flt) prog n s).hit = false → exec (some flt) prog n s = exec none prog n s := by
  induction prog with
  | skip => intro n s _; rfl
  | prim p => intro n s h; exact execPrim_nohit_eq flt p n s h
  | raise e => intro n s _; rfl
  | seq a b iha ihb =>
    intro n s h
    simp only [exec] at h ⊢
    cases ho : (exec (some flt) a n s).out with
    | ok =>
      simp only [ho] at h
      simp only [Bool.or_eq_false_iff] at h
      have ea := iha n s h.1
      have eb := ihb _ _ h.2
      rw [ea] at ho eb
      simp only [ho]
      rw [ea, eb]
    | raised x =>
      simp only [ho] at h
      have ea := iha n s h
      rw [ea] at ho
      simp only [ho]
      exact ea
    | crashed =>
      simp only [ho] at h
      have ea := iha n s h
      rw [ea] at ho
      simp only [ho]
      exact ea
  | tryCatch p c hd rr ih =>
    intro n s h
    simp only [exec] at h ⊢
    cases ho : (execPrim (some flt) p n s).out with
    | ok =>
      simp only [ho] at h
      have ea := execPrim_nohit_eq flt p n s h
      rw [ea] at ho
      simp only [ho]; exact ea
    | crashed =>
      simp only [ho] at h
      have ea := execPrim_nohit_eq flt p n s h
      rw [ea] at ho
      simp only [ho]; exact ea
    | raised x =>
      simp only [ho] at h
      by_cases hc : c.matches x = true
      · simp only [hc, if_true] at h
        cases ho2 : (exec (some flt) hd (execPrim (some flt) p n s).ctr (execPrim (some flt) p n s).state).out with
        | ok =>
          simp only [ho2, Bool.or_eq_false_iff] at h
          have ea := execPrim_nohit_eq flt p n s h.1
          have eb := ih _ _ h.2
          rw [ea] at ho eb ho2
          rw [eb] at ho2
          simp only [ho, hc, if_true, ho2]
          rw [ea, eb]
        | raised y =>
          simp only [ho2, Bool.or_eq_false_iff] at h
          have ea := execPrim_nohit_eq flt p n s h.1
          have eb := ih _ _ h.2
          rw [ea] at ho eb ho2
          rw [eb] at ho2
          simp only [ho, hc, if_true, ho2]
          rw [ea, eb]
        | crashed =>
          simp only [ho2, Bool.or_eq_false_iff] at h
          have ea := execPrim_nohit_eq flt p n s h.1
          have eb := ih _ _ h.2
          rw [ea] at ho eb ho2
          rw [eb] at ho2
          simp only [ho, hc, if_true, ho2]
          rw [ea, eb]
      · simp only [hc] at h
        have ea := execPrim_nohit_eq flt p n s h
        rw [ea] at ho
        simp only [ho, hc]; exact ea
  | tryElse p c hd e ihh ihe =>
    intro n s h
    simp only [exec] at h ⊢
    cases ho : (execPrim (some flt) p n s).out with
    | ok =>
      simp only [ho, Bool.or_eq_false_iff] at h
      have ea := execPrim_nohit_eq flt p n s h.1
      have eb := ihe _ _ h.2
      rw [ea] at ho eb
      simp only [ho]
      rw [ea, eb]
    | crashed =>
      simp only [ho] at h
      have ea := execPrim_nohit_eq flt p n s h
      rw [ea] at ho
      simp only [ho]; exact ea
    | raised x =>
      simp only [ho] at h
      by_cases hc : c.matches x = true
      · simp only [hc, if_true, Bool.or_eq_false_iff] at h
        have ea := execPrim_nohit_eq flt p n s h.1
        have eb := ihh _ _ h.2
        rw [ea] at ho eb
        simp only [ho, hc, if_true]
        rw [ea, eb]
      · simp only [hc] at h
        have ea := execPrim_nohit_eq flt p n s h
        rw [ea] at ho
        simp only [ho, hc]; exact ea
  | tryFinally b fin ihb ihf =>
    intro n s h
    simp only [exec] at h ⊢
    cases ho : (exec (some flt) b n s).out with
    | crashed =>
      simp only [ho] at h
      have ea := ihb n s h
      rw [ea] at ho
      simp only [ho]; exact ea
    | ok =>
      simp only [ho] at h
      cases ho2 : (exec (some flt) fin (exec (some flt) b n s).ctr (exec (some flt) b n s).state).out <;>
      · simp only [ho2, Bool.or_eq_false_iff] at h
        have ea := ihb n s h.1
        have eb := ihf _ _ h.2
        rw [ea] at ho eb ho2
        rw [eb] at ho2
        simp only [ho, ho2]
        rw [ea, eb]
    | raised x =>
      simp only [ho] at h
      cases ho2 : (exec (some flt) fin (exec (some flt) b n s).ctr (exec (some flt) b n s).state).out <;>
      · simp only [ho2, Bool.or_eq_false_iff] at h
        have ea := ihb n s h.1
        have eb := ihf _ _ h.2
        rw [ea] at ho eb ho2
        rw [eb] at ho2
        simp only [ho, ho2]
        rw [ea, eb]


/-- an injected exception that no handler swallows is never turned into a normal return -/
theorem exec_hit_not_ok (flt : Fault) (prog : Prog) : ∀ (n : Nat) (s : State),
    prog.transparent flt.kind.exc = true → (exec (some flt) prog n s).hit = true →
    (exec (some flt) prog n s).out ≠ .ok := by
  induction prog with
  | skip => intro n s _ h; simp [exec] at h
  | prim p =>
    intro n s _ h
    rcases execPrim_hit_out flt p n s h with h' | h' <;> simp [exec, h']
  | raise e => intro n s _ h; simp [exec] at h
  | seq a b iha ihb =>
    intro n s ht h
    simp only [Prog.transparent, Bool.and_eq_true] at ht
    simp only [exec] at h ⊢
    cases ho : (exec (some flt) a n s).out with
    | ok =>
      simp only [ho] at h ⊢
      have ha : (exec (some flt) a n s).hit = false := by
        cases hh : (exec (some flt) a n s).hit with
        | false => rfl
        | true => exact absurd ho (iha n s ht.1 hh)
      simp only [ha, Bool.false_or] at h
      exact ihb _ _ ht.2 h
    | raised x => simp [ho]
    | crashed => simp [ho]
  | tryCatch p c hd rr ih =>
    intro n s ht h
    simp only [Prog.transparent, Bool.and_eq_true, Bool.or_eq_true, Bool.not_eq_true'] at ht
    simp only [exec] at h ⊢
    cases ho : (execPrim (some flt) p n s).out with
    | ok =>
      simp only [ho] at h ⊢
      rcases execPrim_hit_out flt p n s h with h' | h' <;> rw [h'] at ho <;> cases ho
    | crashed => simp [ho]
    | raised x =>
      simp only [ho] at h ⊢
      by_cases hc : c.matches x = true
      · simp only [hc, if_true] at h ⊢
        cases ho2 : (exec (some flt) hd (execPrim (some flt) p n s).ctr (execPrim (some flt) p n s).state).out with
        | ok =>
          simp only [ho2] at h ⊢
          -- the handler returned: either it re-raises, or the injected exception was not the one caught
          cases hrr : rr with
          | true => simp
          | false =>
            simp only [hrr] at ht
            have hh2 : (exec (some flt) hd (execPrim (some flt) p n s).ctr (execPrim (some flt) p n s).state).hit = false := by
              cases hh : (exec (some flt) hd (execPrim (some flt) p n s).ctr (execPrim (some flt) p n s).state).hit with
              | false => rfl
              | true => exact absurd ho2 (ih _ _ ht.2 hh)
            simp only [hh2, Bool.or_false] at h
            rcases execPrim_hit_out flt p n s h with h' | h'
            · rw [h'] at ho; cases ho
            · rw [h'] at ho; cases ho
              rcases ht.1 with hm | hm
              · rw [hm] at hc; cases hc
              · cases hm
        | raised y => simp
        | crashed => simp
      · simp only [hc]; simp [ho]
  | tryElse p c hd e ihh ihe =>
    intro n s ht h
    simp only [Prog.transparent, Bool.and_eq_true, Bool.not_eq_true'] at ht
    simp only [exec] at h ⊢
    cases ho : (execPrim (some flt) p n s).out with
    | ok =>
      simp only [ho] at h ⊢
      have hp : (execPrim (some flt) p n s).hit = false := by
        cases hh : (execPrim (some flt) p n s).hit with
        | false => rfl
        | true => rcases execPrim_hit_out flt p n s hh with h' | h' <;> rw [h'] at ho <;> cases ho
      simp only [hp, Bool.false_or] at h
      exact ihe _ _ ht.2 h
    | crashed => simp [ho]
    | raised x =>
      simp only [ho] at h ⊢
      by_cases hc : c.matches x = true
      · simp only [hc, if_true] at h ⊢
        have hp : (execPrim (some flt) p n s).hit = false := by
          cases hh : (execPrim (some flt) p n s).hit with
          | false => rfl
          | true =>
            rcases execPrim_hit_out flt p n s hh with h' | h'
            · rw [h'] at ho; cases ho
            · rw [h'] at ho; cases ho
              rw [ht.1.1] at hc; cases hc
        simp only [hp, Bool.false_or] at h
        exact ihh _ _ ht.1.2 h
      · simp only [hc]; simp [ho]
  | tryFinally b fin ihb ihf =>
    intro n s ht h
    simp only [Prog.transparent, Bool.and_eq_true] at ht
    simp only [exec] at h ⊢
    cases ho : (exec (some flt) b n s).out with
    | crashed => simp [ho]
    | ok =>
      simp only [ho] at h ⊢
      cases ho2 : (exec (some flt) fin (exec (some flt) b n s).ctr (exec (some flt) b n s).state).out with
      | ok =>
        simp only [ho2] at h ⊢
        have hb : (exec (some flt) b n s).hit = false := by
          cases hh : (exec (some flt) b n s).hit with
          | false => rfl
          | true => exact absurd ho (ihb n s ht.1 hh)
        simp only [hb, Bool.false_or] at h
        exact absurd ho2 (ihf _ _ ht.2 h)
      | raised y => simp
      | crashed => simp
    | raised x =>
      simp only [ho] at h ⊢
      cases ho2 : (exec (some flt) fin (exec (some flt) b n s).ctr (exec (some flt) b n s).state).out with
      | ok => simp
      | raised y => simp
      | crashed => simp


/-! ### partial correctness of un-faulted runs -/

/-- if the un-faulted run of `prog` from `s` returns normally, the final state satisfies `Q` -/
def Post (prog : Prog) (s : State) (Q : State → Prop) : Prop :=
  ∀ n, (exec none prog n s).out = .ok → Q (exec none prog n s).state

theorem execPrim_none (p : Prim) (n : Nat) (s : State) :
    execPrim none p n s = match p.step s with
      | .ok s' => ⟨s', .ok, n + 1, false⟩
      | .error x => ⟨s, .raised x, n + 1, false⟩ := rfl

theorem Post.skip {s : State} {Q : State → Prop} (h : Q s) : Post .skip s Q := fun _ _ => h

theorem Post.raise {s : State} {Q : State → Prop} (x : Exc) : Post (.raise x) s Q := by
  intro n h; simp [exec] at h

theorem Post.prim {p : Prim} {s : State} {Q : State → Prop} (h : ∀ s', p.step s = .ok s' → Q s') :
    Post (.prim p) s Q := by
  intro n ho
  simp only [exec, execPrim_none] at ho ⊢
  cases hs : p.step s with
  | ok s' => simp only [hs]; exact h s' hs
  | error x => simp [hs] at ho

theorem Post.seq {a b : Prog} {s : State} {Q : State → Prop}
    (h : Post a s (fun s1 => Post b s1 Q)) : Post (a ;; b) s Q := by
  intro n ho
  simp only [exec] at ho ⊢
  cases hoa : (exec none a n s).out with
  | ok =>
    simp only [hoa] at ho ⊢
    exact h n hoa _ ho
  | raised x => simp [hoa] at ho
  | crashed => simp [hoa] at ho

theorem Post.tryFinally {b fin : Prog} {s : State} {Q : State → Prop}
    (h : Post b s (fun s1 => Post fin s1 Q)) : Post (.tryFinally b fin) s Q := by
  intro n ho
  simp only [exec] at ho ⊢
  cases hob : (exec none b n s).out with
  | ok =>
    simp only [hob] at ho ⊢
    cases hof : (exec none fin (exec none b n s).ctr (exec none b n s).state).out with
    | ok => simp only [hof]; exact h n hob _ hof
    | raised x => simp [hof] at ho
    | crashed => simp [hof] at ho
  | raised x =>
    simp only [hob] at ho
    cases hof : (exec none fin (exec none b n s).ctr (exec none b n s).state).out <;> simp [hof] at ho
  | crashed => simp [hob] at ho

theorem Post.mono {prog : Prog} {s : State} {Q Q' : State → Prop}
    (h : Post prog s Q) (hq : ∀ s', Q s' → Q' s') : Post prog s Q' := fun n ho => hq _ (h n ho)

/-- whatever is known about the final state of `prog` for *every* run can be used -/
theorem Post.of_all {prog : Prog} {s : State} {Q : State → Prop}
    (h : ∀ n, Q (exec none prog n s).state) : Post prog s Q := fun n _ => h n

theorem Post.and {prog : Prog} {s : State} {Q Q' : State → Prop}
    (h : Post prog s Q) (h' : Post prog s Q') : Post prog s (fun x => Q x ∧ Q' x) :=
  fun n ho => ⟨h n ho, h' n ho⟩

theorem Post.tryCatch {p : Prim} {c : Catch} {hd : Prog} {rr : Bool} {s : State} {Q : State → Prop}
    (hok : ∀ s', p.step s = .ok s' → Q s')
    (herr : ∀ x, p.step s = .error x → c.matches x = true → rr = false → Post hd s Q) :
    Post (.tryCatch p c hd rr) s Q := by
  intro n ho
  simp only [exec, execPrim_none] at ho ⊢
  cases hs : p.step s with
  | ok s' => simp only [hs]; exact hok s' hs
  | error x =>
    simp only [hs] at ho ⊢
    by_cases hc : c.matches x = true
    · simp only [hc, if_true] at ho ⊢
      cases hoh : (exec none hd (n + 1) s).out with
      | ok =>
        simp only [hoh] at ho ⊢
        cases hrr : rr with
        | true => simp [hrr] at ho
        | false => exact herr x hs hc hrr (n + 1) hoh
      | raised y => simp [hoh] at ho
      | crashed => simp [hoh] at ho
    · simp [hc] at ho

theorem Post.tryElse {p : Prim} {c : Catch} {hd e : Prog} {s : State} {Q : State → Prop}
    (hok : ∀ s', p.step s = .ok s' → Post e s' Q)
    (herr : ∀ x, p.step s = .error x → c.matches x = true → Post hd s Q) :
    Post (.tryElse p c hd e) s Q := by
  intro n ho
  simp only [exec, execPrim_none] at ho ⊢
  cases hs : p.step s with
  | ok s' =>
    simp only [hs] at ho ⊢
    exact hok s' hs (n + 1) ho
  | error x =>
    simp only [hs] at ho ⊢
    by_cases hc : c.matches x = true
    · simp only [hc, if_true] at ho ⊢
      exact herr x hs hc (n + 1) ho
    · simp [hc] at ho


/-! ### effects of the steps of a stream copy -/

theorem nChunks_mul_ge (c len : Nat) (hc : 0 < c) : len ≤ nChunks c len * c := by
  unfold nChunks
  have h1 := Nat.div_add_mod (len + c - 1) c
  have h2 := Nat.mod_lt (len + c - 1) hc
  have h3 : c * ((len + c - 1) / c) = (len + c - 1) / c * c := Nat.mul_comm _ _
  omega

theorem step_openR {σ : Side} {p : Path} {s s' : State} (h : (Prim.openR σ p).step s = .ok s') : s' = s := by
  simp only [Prim.step] at h
  split at h
  · simp at h; exact h.symm
  · split at h <;> simp at h

theorem step_call {nm : String} {σ : Side} {p : Path} {s s' : State}
    (h : (Prim.call nm σ p).step s = .ok s') : s' = s := by
  simp [Prim.step] at h; exact h.symm

theorem step_close {σ : Side} {p : Path} {s s' : State} (h : (Prim.close σ p).step s = .ok s') : s' = s := by
  simp [Prim.step] at h; exact h.symm

theorem step_getinfo {σ : Side} {p : Path} {s s' : State} (h : (Prim.getinfo σ p).step s = .ok s') : s' = s := by
  simp only [Prim.step] at h
  split at h <;> simp at h; exact h.symm

theorem step_setinfo {σ : Side} {p : Path} {s s' : State} (h : (Prim.setinfo σ p).step s = .ok s') : s' = s := by
  simp only [Prim.step] at h
  split at h <;> simp at h; exact h.symm

theorem step_openW {σ : Side} {p : Path} {s s' : State} (h : (Prim.openW σ p).step s = .ok s') :
    s' = s.put σ ((s.get σ).setFile p []) := by
  simp only [Prim.step] at h
  split at h
  · simp at h
  · split at h
    · simp at h
    · split at h
      · simp at h
      · simp at h; exact h.symm

theorem step_read {σ : Side} {p : Path} {off len : Nat} {s s' : State}
    (h : (Prim.read σ p off len).step s = .ok s') :
    s'.buf = (((s.file σ p).getD []).drop off).take len ∧ ∀ ρ x, s'.file ρ x = s.file ρ x := by
  simp [Prim.step] at h; subst h
  simp

theorem step_write {τ : Side} {q : Path} {cur : Bytes} {s s' : State} (hc : s.file τ q = some cur)
    (h : (Prim.write τ q).step s = .ok s') :
    s'.file τ q = some (cur ++ s.buf) ∧ ∀ ρ x, ¬ (τ = ρ ∧ q = x) → s'.file ρ x = s.file ρ x := by
  simp only [Prim.step, hc] at h
  simp at h; subst h
  constructor
  · simp [Store.setFile, fget_fset_self]
  · intro ρ x hne
    apply State.file_put_of
    intro hτ
    have : q ≠ x := fun hq => hne ⟨hτ, hq⟩
    simp [Store.setFile, fget_fset_ne _ _ _ _ this]

/-- the loop of `copy_file_data`: from "destination holds the first `i` chunks" to "destination
    holds the first `i + k` chunks" -/
theorem copyLoop_post (σ : Side) (p : Path) (τ : Side) (q : Path) (c : Nat) (b : Bytes)
    (hne : ¬ (τ = σ ∧ q = p)) :
    ∀ (k i : Nat) (s : State), s.file σ p = some b → s.file τ q = some (b.take (i * c)) →
      Post (copyLoop σ p τ q c i k) s
        (fun s' => s'.file τ q = some (b.take ((i + k) * c)) ∧ s'.file σ p = some b) := by
  intro k
  induction k with
  | zero =>
    intro i s hs hd
    unfold copyLoop
    apply Post.prim
    intro s' h
    have := step_read h
    simp [this.2, hs, hd]
  | succ k ih =>
    intro i s hs hd
    unfold copyLoop
    apply Post.seq
    apply Post.prim
    intro s1 h1
    have r1 := step_read h1
    apply Post.seq
    apply Post.prim
    intro s2 h2
    have hd1 : s1.file τ q = some (b.take (i * c)) := by rw [r1.2]; exact hd
    have w := step_write hd1 h2
    have hd2 : s2.file τ q = some (b.take ((i + 1) * c)) := by
      rw [w.1, r1.1, hs]
      simp [Nat.add_mul, List.take_add]
    have hs2 : s2.file σ p = some b := by
      rw [w.2 σ p hne, r1.2]; exact hs
    refine Post.mono (ih (i + 1) s2 hs2 hd2) ?_
    intro s' hq
    have e : i + 1 + k = i + (k + 1) := by omega
    rw [e] at hq
    exact hq


theorem openW_effect {τ : Side} {q : Path} {s s' : State} (h : (Prim.openW τ q).step s = .ok s') :
    s'.file τ q = some [] ∧ ∀ ρ x, ¬ (τ = ρ ∧ q = x) → s'.file ρ x = s.file ρ x := by
  have := step_openW h; subst this
  constructor
  · simp [Store.setFile, fget_fset_self]
  · intro ρ x hne
    apply State.file_put_of
    intro hτ
    have : q ≠ x := fun hq => hne ⟨hτ, hq⟩
    simp [Store.setFile, fget_fset_ne _ _ _ _ this]

theorem take_nChunks (c : Nat) (b : Bytes) (hc : 0 < c) : b.take ((0 + nChunks c b.length) * c) = b := by
  apply List.take_of_length_le
  rw [Nat.zero_add]
  exact nChunks_mul_ge c b.length hc

theorem uploadCopy_post (σ : Side) (p : Path) (τ : Side) (q : Path) (c len : Nat) (b : Bytes)
    (hc : 0 < c) (hl : len = b.length) (hne : ¬ (τ = σ ∧ q = p)) (s : State) (hs : s.file σ p = some b) :
    Post (uploadCopy σ p τ q c len) s (fun s' => s'.file τ q = some b ∧ s'.file σ p = some b) := by
  subst hl
  unfold uploadCopy
  apply Post.seq; apply Post.prim; intro s1 h1
  have := step_openR h1; subst this
  apply Post.tryFinally
  apply Post.seq; apply Post.prim; intro s2 h2
  have := step_call h2; subst this
  apply Post.seq; apply Post.prim; intro s3 h3
  have e3 := openW_effect h3
  have hs3 : s3.file σ p = some b := by rw [e3.2 σ p hne]; exact hs
  have hd3 : s3.file τ q = some (b.take (0 * c)) := by rw [e3.1]; simp
  apply Post.tryFinally
  refine Post.mono (copyLoop_post σ p τ q c b hne (nChunks c b.length) 0 s3 hs3 hd3) ?_
  intro s4 h4
  apply Post.prim; intro s5 h5
  have := step_close h5; subst this
  apply Post.prim; intro s6 h6
  have := step_close h6; subst this
  rw [take_nChunks c b hc] at h4
  exact h4

theorem downloadCopy_post (σ : Side) (p : Path) (τ : Side) (q : Path) (c len : Nat) (b : Bytes)
    (hc : 0 < c) (hl : len = b.length) (hne : ¬ (τ = σ ∧ q = p)) (s : State) (hs : s.file σ p = some b) :
    Post (downloadCopy σ p τ q c len) s (fun s' => s'.file τ q = some b ∧ s'.file σ p = some b) := by
  subst hl
  unfold downloadCopy
  apply Post.seq; apply Post.prim; intro s3 h3
  have e3 := openW_effect h3
  have hs3 : s3.file σ p = some b := by rw [e3.2 σ p hne]; exact hs
  have hd3 : s3.file τ q = some (b.take (0 * c)) := by rw [e3.1]; simp
  apply Post.tryFinally
  apply Post.seq; apply Post.prim; intro s2 h2
  have := step_call h2; subst this
  apply Post.seq; apply Post.prim; intro s1 h1
  have := step_openR h1; subst this
  apply Post.tryFinally
  refine Post.mono (copyLoop_post σ p τ q c b hne (nChunks c b.length) 0 s1 hs3 hd3) ?_
  intro s4 h4
  apply Post.prim; intro s5 h5
  have := step_close h5; subst this
  apply Post.prim; intro s6 h6
  have := step_close h6; subst this
  rw [take_nChunks c b hc] at h4
  exact h4

theorem copyModTime_post (σ : Side) (p : Path) (τ : Side) (q : Path) (s : State) (Q : State → Prop)
    (h : Q s) : Post (copyModTime σ p τ q) s Q := by
  unfold copyModTime
  apply Post.seq; apply Post.prim; intro s1 h1
  have := step_getinfo h1; subst this
  apply Post.prim; intro s2 h2
  have := step_setinfo h2; subst this
  exact h

theorem preservePart_post (pt : Bool) (σ : Side) (p : Path) (τ : Side) (q : Path) (s : State)
    (Q : State → Prop) (h : Q s) : Post (preservePart pt σ p τ q) s Q := by
  unfold preservePart
  cases pt
  · exact Post.skip h
  · exact copyModTime_post σ p τ q s Q h


/-! ### footprints: which file entries the steps of a program can change -/

/-- every step of `prog` that can change a file entry changes only `(τ, q)` -/
def OnlyMut (prog : Prog) (τ : Side) (q : Path) : Prop :=
  ∀ pr ∈ prog.prims, ∀ ρ x, pr.mutates ρ x = true → τ = ρ ∧ q = x

/-- no step of `prog` can change any file entry -/
def NoMut (prog : Prog) : Prop := ∀ pr ∈ prog.prims, ∀ ρ x, pr.mutates ρ x = false

theorem NoMut.only {prog : Prog} (h : NoMut prog) (τ : Side) (q : Path) : OnlyMut prog τ q := by
  intro pr hpr ρ x hm; rw [h pr hpr ρ x] at hm; cases hm

theorem OnlyMut.seq {a b : Prog} {τ : Side} {q : Path} (ha : OnlyMut a τ q) (hb : OnlyMut b τ q) :
    OnlyMut (a ;; b) τ q := by
  intro pr hpr
  simp only [Prog.prims, List.mem_append] at hpr
  rcases hpr with h | h
  · exact ha pr h
  · exact hb pr h

theorem OnlyMut.tryFinally {a b : Prog} {τ : Side} {q : Path} (ha : OnlyMut a τ q) (hb : OnlyMut b τ q) :
    OnlyMut (.tryFinally a b) τ q := by
  intro pr hpr
  simp only [Prog.prims, List.mem_append] at hpr
  rcases hpr with h | h
  · exact ha pr h
  · exact hb pr h

theorem OnlyMut.prim {p : Prim} {τ : Side} {q : Path} (h : ∀ ρ x, p.mutates ρ x = true → τ = ρ ∧ q = x) :
    OnlyMut (.prim p) τ q := by
  intro pr hpr
  simp only [Prog.prims, List.mem_singleton] at hpr
  subst hpr; exact h

theorem OnlyMut.skip {τ : Side} {q : Path} : OnlyMut .skip τ q := by
  intro pr hpr; simp [Prog.prims] at hpr

theorem OnlyMut.raise {τ : Side} {q : Path} {x : Exc} : OnlyMut (.raise x) τ q := by
  intro pr hpr; simp [Prog.prims] at hpr

theorem OnlyMut.pure {p : Prim} {τ : Side} {q : Path} (h : ∀ ρ x, p.mutates ρ x = false) :
    OnlyMut (.prim p) τ q :=
  OnlyMut.prim (fun ρ x hm => by rw [h ρ x] at hm; cases hm)

theorem OnlyMut.frame {prog : Prog} {τ : Side} {q : Path} (h : OnlyMut prog τ q) (f : Option Fault)
    (ρ : Side) (x : Path) (hne : ¬ (τ = ρ ∧ q = x)) (n : Nat) (s : State) :
    (exec f prog n s).state.file ρ x = s.file ρ x := by
  apply exec_frame
  intro pr hpr
  cases hm : pr.mutates ρ x with
  | false => rfl
  | true => exact absurd (h pr hpr ρ x hm) hne

theorem copyLoop_only (σ : Side) (p : Path) (τ : Side) (q : Path) (c : Nat) :
    ∀ k i, OnlyMut (copyLoop σ p τ q c i k) τ q := by
  intro k
  induction k with
  | zero => intro i; unfold copyLoop; exact OnlyMut.pure (fun _ _ => rfl)
  | succ k ih =>
    intro i; unfold copyLoop
    refine OnlyMut.seq (OnlyMut.pure (fun _ _ => rfl)) (OnlyMut.seq (OnlyMut.prim ?_) (ih (i + 1)))
    intro ρ x hm
    simpa [Prim.mutates] using hm

theorem openW_only (τ : Side) (q : Path) : OnlyMut (.prim (.openW τ q)) τ q :=
  OnlyMut.prim (fun ρ x hm => by simpa [Prim.mutates] using hm)

theorem uploadCopy_only (σ : Side) (p : Path) (τ : Side) (q : Path) (c len : Nat) :
    OnlyMut (uploadCopy σ p τ q c len) τ q := by
  unfold uploadCopy
  exact OnlyMut.seq (OnlyMut.pure (fun _ _ => rfl))
    (OnlyMut.tryFinally
      (OnlyMut.seq (OnlyMut.pure (fun _ _ => rfl))
        (OnlyMut.seq (openW_only τ q)
          (OnlyMut.tryFinally (copyLoop_only σ p τ q c _ 0) (OnlyMut.pure (fun _ _ => rfl)))))
      (OnlyMut.pure (fun _ _ => rfl)))

theorem downloadCopy_only (σ : Side) (p : Path) (τ : Side) (q : Path) (c len : Nat) :
    OnlyMut (downloadCopy σ p τ q c len) τ q := by
  unfold downloadCopy
  exact OnlyMut.seq (openW_only τ q)
    (OnlyMut.tryFinally
      (OnlyMut.seq (OnlyMut.pure (fun _ _ => rfl))
        (OnlyMut.seq (OnlyMut.pure (fun _ _ => rfl))
          (OnlyMut.tryFinally (copyLoop_only σ p τ q c _ 0) (OnlyMut.pure (fun _ _ => rfl)))))
      (OnlyMut.pure (fun _ _ => rfl)))

theorem preservePart_only (pt : Bool) (σ : Side) (p : Path) (τ : Side) (q : Path) (τ' : Side) (q' : Path) :
    OnlyMut (preservePart pt σ p τ q) τ' q' := by
  unfold preservePart copyModTime
  cases pt
  · exact OnlyMut.skip
  · exact OnlyMut.seq (OnlyMut.pure (fun _ _ => rfl)) (OnlyMut.pure (fun _ _ => rfl))

theorem fsMoveCopyPart_only (cfg : Cfg) (s : State) (σ : Side) (p : Path) (τ : Side) (q : Path) :
    OnlyMut (fsMoveCopyPart cfg s σ p τ q) τ q := by
  unfold fsMoveCopyPart
  exact OnlyMut.seq (uploadCopy_only _ _ _ _ _ _) (preservePart_only _ _ _ _ _ _ _)

theorem fsCopy_only (cfg : Cfg) (s : State) (σ : Side) (p q : Path) : OnlyMut (fsCopy cfg s σ p q) σ q := by
  unfold fsCopy
  refine OnlyMut.seq (OnlyMut.pure (fun _ _ => rfl)) ?_
  cases cfg.srcB with
  | os => exact OnlyMut.prim (fun ρ x hm => by simpa [Prim.mutates] using hm)
  | base =>
    simp only
    split
    · exact OnlyMut.raise
    · exact OnlyMut.seq (uploadCopy_only _ _ _ _ _ _) (preservePart_only _ _ _ _ _ _ _)
  | mem =>
    simp only
    split
    · exact OnlyMut.raise
    · exact OnlyMut.seq (uploadCopy_only _ _ _ _ _ _) (preservePart_only _ _ _ _ _ _ _)

theorem copyFileInternal_only (cfg : Cfg) (s : State) (p q : Path) :
    OnlyMut (copyFileInternal cfg s p q) cfg.dstSide q := by
  unfold copyFileInternal Cfg.dstSide
  cases hsame : cfg.same with
  | true =>
    simp only [if_true]
    split
    · exact OnlyMut.raise
    · exact fsCopy_only cfg s .a p q
  | false =>
    simp only [Bool.false_eq_true, if_false]
    refine OnlyMut.seq ?_ (preservePart_only _ _ _ _ _ _ _)
    cases cfg.dstB with
    | os => exact downloadCopy_only _ _ _ _ _ _
    | base => exact uploadCopy_only _ _ _ _ _ _
    | mem => exact uploadCopy_only _ _ _ _ _ _


/-! ### transparency of the move programs for the injected exceptions -/

theorem kind_exc_cases (k : Kind) : k.exc = .os ∨ k.exc = .fs .OperationFailed := by
  cases k <;> simp [Kind.exc]

theorem seqs_transparent (x : Exc) (l : List Prog) (h : ∀ p ∈ l, p.transparent x = true) :
    (Prog.seqs l).transparent x = true := by
  induction l with
  | nil => rfl
  | cons p ps ih =>
    simp only [Prog.seqs, Prog.transparent, Bool.and_eq_true]
    exact ⟨h p (by simp), ih (fun q hq => h q (by simp [hq]))⟩

theorem copyLoop_transparent (x : Exc) (σ : Side) (p : Path) (τ : Side) (q : Path) (c : Nat) :
    ∀ k i, (copyLoop σ p τ q c i k).transparent x = true := by
  intro k
  induction k with
  | zero => intro i; rfl
  | succ k ih => intro i; simp [copyLoop, Prog.transparent, ih]

theorem uploadCopy_transparent (x : Exc) (σ : Side) (p : Path) (τ : Side) (q : Path) (c len : Nat) :
    (uploadCopy σ p τ q c len).transparent x = true := by
  simp [uploadCopy, Prog.transparent, copyLoop_transparent]

theorem downloadCopy_transparent (x : Exc) (σ : Side) (p : Path) (τ : Side) (q : Path) (c len : Nat) :
    (downloadCopy σ p τ q c len).transparent x = true := by
  simp [downloadCopy, Prog.transparent, copyLoop_transparent]

theorem preservePart_transparent (x : Exc) (pt : Bool) (σ : Side) (p : Path) (τ : Side) (q : Path) :
    (preservePart pt σ p τ q).transparent x = true := by
  cases pt <;> simp [preservePart, copyModTime, Prog.transparent]

theorem fsMoveCopyPart_transparent (x : Exc) (cfg : Cfg) (s : State) (σ : Side) (p : Path) (τ : Side) (q : Path) :
    (fsMoveCopyPart cfg s σ p τ q).transparent x = true := by
  simp [fsMoveCopyPart, Prog.transparent, uploadCopy_transparent, preservePart_transparent]

theorem fsCopy_transparent (x : Exc) (cfg : Cfg) (s : State) (σ : Side) (p q : Path) :
    (fsCopy cfg s σ p q).transparent x = true := by
  unfold fsCopy
  cases cfg.srcB <;> simp only [Prog.transparent, Bool.true_and]
  all_goals (split <;> simp [Prog.transparent, uploadCopy_transparent, preservePart_transparent])

theorem copyFileInternal_transparent (x : Exc) (cfg : Cfg) (s : State) (p q : Path) :
    (copyFileInternal cfg s p q).transparent x = true := by
  unfold copyFileInternal
  split
  · split
    · rfl
    · exact fsCopy_transparent x cfg s .a p q
  · cases cfg.dstB <;>
      simp [Prog.transparent, uploadCopy_transparent, downloadCopy_transparent, preservePart_transparent]

theorem makedirsExisting_transparent (k : Kind) (τ : Side) (q : Path) :
    (makedirsExisting τ q).transparent k.exc = true := by
  cases k <;> simp [makedirsExisting, Prog.transparent, Kind.exc, Catch.matches]

theorem copyStructure_transparent (k : Kind) (cfg : Cfg) (s : State) (root droot : Path) :
    (copyStructure cfg s root droot).transparent k.exc = true := by
  unfold copyStructure
  split
  · rfl
  · simp only [Prog.transparent, makedirsExisting_transparent, Bool.true_and]
    apply seqs_transparent
    intro p hp
    simp only [List.mem_map] at hp
    obtain ⟨d, _, rfl⟩ := hp
    simp only [Prog.transparent, Bool.true_and]
    apply seqs_transparent
    intro p hp
    simp only [List.mem_map] at hp
    obtain ⟨y, _, rfl⟩ := hp
    rfl

theorem copyFiles_transparent (x : Exc) (cfg : Cfg) (s : State) (root droot : Path) :
    (copyFiles cfg s root droot).transparent x = true := by
  unfold copyFiles
  simp only [Prog.transparent, Bool.and_eq_true]
  constructor
  · apply seqs_transparent
    intro p hp
    simp only [List.mem_map] at hp
    obtain ⟨d, _, rfl⟩ := hp
    rfl
  · apply seqs_transparent
    intro p hp
    simp only [List.mem_map] at hp
    obtain ⟨y, _, rfl⟩ := hp
    exact copyFileInternal_transparent x cfg s _ _

theorem moveDirCopyPhase_transparent (k : Kind) (cfg : Cfg) (s : State) (root droot : Path) :
    (moveDirCopyPhase cfg s root droot).transparent k.exc = true := by
  unfold moveDirCopyPhase
  simp only [Prog.transparent, Bool.true_and]
  split
  · simp [Prog.transparent, copyStructure_transparent, copyFiles_transparent]
  · rfl

theorem removeTree_transparent (x : Exc) (cfg : Cfg) (s : State) (root : Path) :
    (removeTree cfg s root).transparent x = true := by
  unfold removeTree
  simp only [Prog.transparent, Bool.true_and]
  cases cfg.srcB with
  | mem => rfl
  | base =>
    simp only [Prog.transparent, Bool.and_eq_true]
    constructor
    · apply seqs_transparent
      intro p hp
      simp only [List.mem_map] at hp
      obtain ⟨d, _, rfl⟩ := hp
      simp only [Prog.transparent, Bool.and_eq_true]
      refine ⟨by simp [Prog.transparent], ?_, by split <;> rfl⟩
      apply seqs_transparent
      intro p hp
      simp only [List.mem_map] at hp
      obtain ⟨y, _, rfl⟩ := hp
      rfl
    · split <;> rfl
  | os =>
    simp only [Prog.transparent, Bool.and_eq_true]
    constructor
    · apply seqs_transparent
      intro p hp
      simp only [List.mem_map] at hp
      obtain ⟨d, _, rfl⟩ := hp
      simp only [Prog.transparent, Bool.and_eq_true]
      refine ⟨by simp [Prog.transparent], ?_, by split <;> rfl⟩
      apply seqs_transparent
      intro p hp
      simp only [List.mem_map] at hp
      obtain ⟨y, _, rfl⟩ := hp
      rfl
    · split <;> rfl

theorem moveDir_transparent (k : Kind) (cfg : Cfg) (s : State) (root droot : Path) :
    (moveDir cfg s root droot).transparent k.exc = true := by
  simp [moveDir, Prog.transparent, moveDirCopyPhase_transparent, removeTree_transparent]

end Fs.Fault
