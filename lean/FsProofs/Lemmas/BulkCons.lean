/-
  C09 helper: task conservation.  Every task index is, at every moment, in exactly one of
  pending / queued / in flight / done / dropped.
-/
import FsProofs.Lemmas.BulkLemmas

namespace Fs.BulkLemmas
open Fs Fs.Bulk
set_option linter.unusedSimpArgs false

def Cons (c : Cfg) (s : St) : Prop :=
  ∀ x, List.count x s.allTasksView = List.count x (List.range c.tasks.length)

theorem pending_afterBody (c : Cfg) (b : Bool) : (afterBody c b).pending = [] := by
  unfold afterBody; split <;> rfl
theorem inflight_afterBody (c : Cfg) (b : Bool) : (afterBody c b).inflight = [] := by
  unfold afterBody; split <;> rfl
theorem pending_nextLoop (c : Cfg) (rest : List Nat) : (nextLoop c rest).pending = rest := by
  cases rest with
  | nil => exact pending_afterBody c false
  | cons i r => rfl
theorem inflight_nextLoop (c : Cfg) (rest : List Nat) : (nextLoop c rest).inflight = [] := by
  cases rest with
  | nil => exact inflight_afterBody c false
  | cons i r => rfl

theorem cons_init (c : Cfg) : Cons c (init c) := by
  intro x
  simp [init, St.allTasksView, St.pending, St.queued, St.inflight, pending_nextLoop, inflight_nextLoop,
    flatMap_replicate_nil W.tasks W.idle rfl]

theorem cons_worker {c : Cfg} {s s' : St} {w : Nat} {e : Ev} (h : Cons c s)
    (hs : WTrans c s w s' e) : Cons c s' := by
  intro x
  have hx := h x
  cases hs with
  | getTask i q hw hq =>
    have := count_flatMap_set W.tasks x s.workers w .idle (.run i (.reading 0)) hw
    simp [St.allTasksView, St.pending, St.queued, St.inflight, hq, W.tasks, W.task?,
      List.count_append, List.count_cons] at hx this ⊢
    omega
  | getSentinel q hw hq =>
    have := count_flatMap_set W.tasks x s.workers w .idle .stopping hw
    simp [St.allTasksView, St.pending, St.queued, St.inflight, hq, W.tasks, W.task?,
      List.count_append, List.count_cons] at hx this ⊢
    omega
  | bodyCont i ph ph' e s1 hw hb =>
    obtain ⟨h1, h2, h3, _, _, _, h7, h8⟩ := hb.frame
    have := count_flatMap_set W.tasks x s.workers w (.run i ph) (.run i ph') hw
    simp [St.allTasksView, St.pending, St.queued, St.inflight, h1, h2, h3, h7, h8, W.tasks, W.task?,
      List.count_append, List.count_cons] at hx this ⊢
    omega
  | bodyFin i ph exc e s1 hw hb =>
    obtain ⟨h1, h2, h3, _, _, _, h7, h8⟩ := hb.frame
    have := count_flatMap_set W.tasks x s.workers w (.run i ph) (.ending i exc) hw
    simp [St.allTasksView, St.pending, St.queued, St.inflight, h1, h2, h3, h7, h8, W.tasks, W.task?,
      List.count_append, List.count_cons] at hx this ⊢
    omega
  | endTask i exc hw =>
    have := count_flatMap_set W.tasks x s.workers w (.ending i exc) .idle hw
    simp [St.allTasksView, St.pending, St.queued, St.inflight, W.tasks, W.task?,
      List.count_append, List.count_cons] at hx this ⊢
    omega
  | exitW hw =>
    have := count_flatMap_set W.tasks x s.workers w .stopping .exited hw
    simp [St.allTasksView, St.pending, St.queued, St.inflight, W.tasks, W.task?,
      List.count_append, List.count_cons] at hx this ⊢
    omega


theorem pending_raiseP (c : Cfg) (s : St) (d : List Nat) : (raiseP c s d).prod.pending = [] :=
  pending_afterBody c true
theorem inflight_raiseP (c : Cfg) (s : St) (d : List Nat) : (raiseP c s d).prod.inflight = [] :=
  inflight_afterBody c true

theorem pending_ptimesNext (l : List Nat) (b : Bool) : (ptimesNext l b).pending = [] := by
  cases l <;> rfl
theorem inflight_ptimesNext (l : List Nat) (b : Bool) : (ptimesNext l b).inflight = [] := by
  cases l <;> rfl
theorem pending_afterJoin (c : Cfg) (l : List Nat) (b : Bool) : (afterJoin c l b).pending = [] := by
  unfold afterJoin; split
  · exact pending_ptimesNext l b
  · rfl
theorem inflight_afterJoin (c : Cfg) (l : List Nat) (b : Bool) : (afterJoin c l b).inflight = [] := by
  unfold afterJoin; split
  · exact inflight_ptimesNext l b
  · rfl

theorem cons_prod {c : Cfg} {s s' : St} {e : Ev} (h : Cons c s)
    (hs : PTrans c s s' e) : Cons c s' := by
  intro x
  have hx := h x
  cases hs
  case inlBodyCont =>
    obtain ⟨h1, h2, h3, _, _, _, h7, h8⟩ := BTrans.frame (by assumption)
    simp_all [St.allTasksView, St.pending, St.queued, St.inflight, Prod.pending, Prod.inflight,
      List.count_append, List.count_cons]
  case inlBodyRaise =>
    obtain ⟨h1, h2, h3, _, _, _, h7, h8⟩ := BTrans.frame (by assumption)
    simp only [St.allTasksView, St.pending, St.queued, St.inflight, raiseP, pending_afterBody,
      inflight_afterBody] at hx ⊢
    simp_all [Prod.pending, Prod.inflight, List.count_append, List.count_cons]
    omega
  case inlBodyToPtime =>
    obtain ⟨h1, h2, h3, _, _, _, h7, h8⟩ := BTrans.frame (by assumption)
    simp_all [St.allTasksView, St.pending, St.queued, St.inflight, Prod.pending, Prod.inflight,
      List.count_append, List.count_cons]
  case inlBodyNext =>
    obtain ⟨h1, h2, h3, _, _, _, h7, h8⟩ := BTrans.frame (by assumption)
    simp only [St.allTasksView, St.pending, St.queued, St.inflight, pending_nextLoop,
      inflight_nextLoop] at hx ⊢
    simp_all [Prod.pending, Prod.inflight, List.count_append, List.count_cons]
    omega
  all_goals
    (try simp only [St.allTasksView, St.pending, St.queued, St.inflight, raiseP, pending_nextLoop,
      inflight_nextLoop, pending_afterBody, inflight_afterBody, pending_afterJoin, inflight_afterJoin, pending_ptimesNext, inflight_ptimesNext,
      apply_ite Prod.pending, apply_ite Prod.inflight] at hx ⊢) <;>
    simp_all [Prod.pending, Prod.inflight, List.count_append, List.count_cons, List.filterMap_append] <;>
    omega

end Fs.BulkLemmas
