/-
  Helper lemmas for the listing part of `MultiRefines.multi_queries_refine_overlay`:
  `MultiFS.listdir` / `isempty` on a stack of good, type-consistent layers against the overlay.
-/
import FsProofs.Lemmas.MultiFsQuery

namespace Fs.MultiFsLemmas
open Fs Fs.Ref Fs.MultiFs Fs.WrapRefines Fs.MemRefines

/-! ### `dedup` (keep first occurrences) -/

theorem dedupGo_congr : ∀ (b s s' : List Name), (∀ y, y ∈ s ↔ y ∈ s') → Multi.dedupGo s b = Multi.dedupGo s' b := by
  intro b
  induction b with
  | nil => intro _ _ _; rfl
  | cons x xs ih =>
    intro s s' h
    simp only [Multi.dedupGo]
    by_cases hx : x ∈ s
    · simp only [hx, (h x).1 hx, if_true]; exact ih s s' h
    · have hx' : x ∉ s' := fun h' => hx ((h x).2 h')
      simp only [hx, hx', if_false]
      rw [ih (x :: s) (x :: s') (fun y => by simp [h y])]

theorem dedupGo_filter : ∀ (b s1 s2 : List Name),
    Multi.dedupGo (s1 ++ s2) b = (Multi.dedupGo s1 b).filter (fun x => decide (x ∉ s2)) := by
  intro b
  induction b with
  | nil => intro _ _; rfl
  | cons x xs ih =>
    intro s1 s2
    simp only [Multi.dedupGo]
    by_cases h1 : x ∈ s1
    · simp only [List.mem_append, h1, true_or, if_true]; exact ih s1 s2
    · by_cases h2 : x ∈ s2
      · simp only [List.mem_append, h1, h2, or_true, if_true, if_false, List.filter_cons, not_true_eq_false,
          decide_false, Bool.false_eq_true]
        rw [← ih (x :: s1) s2]
        exact dedupGo_congr xs _ _ (fun y => by
          simp only [List.mem_append, List.mem_cons]
          constructor
          · rintro (h | h); exact Or.inl (Or.inr h); exact Or.inr h
          · rintro ((rfl | h) | h); exact Or.inr h2; exact Or.inl h; exact Or.inr h)
      · simp only [List.mem_append, h1, h2, or_self, if_false, List.filter_cons, not_false_eq_true, decide_true,
          if_true]
        rw [← ih (x :: s1) s2]
        rfl

theorem dedupGo_append_fresh : ∀ (a seen R : List Name), a.Nodup → (∀ x ∈ a, x ∉ seen) →
    Multi.dedupGo seen (a ++ R) = a ++ Multi.dedupGo (a.reverse ++ seen) R := by
  intro a
  induction a with
  | nil => intro _ _ _ _; rfl
  | cons x xs ih =>
    intro seen R hn hd
    have hx := hd x (by simp)
    have hn' := List.nodup_cons.1 hn
    have hside : ∀ y ∈ xs, y ∉ x :: seen := by
      intro y hy
      simp only [List.mem_cons, not_or]
      exact ⟨fun h => hn'.1 (h ▸ hy), hd y (by simp [hy])⟩
    simp only [List.cons_append, Multi.dedupGo, hx, if_false, List.reverse_cons, List.append_assoc]
    rw [ih (x :: seen) R hn'.2 hside]
    simp

/-- first occurrences of `a ++ R` when `a` has no repetition: `a`, then what is new in `R` -/
theorem dedup_append (a R : List Name) (ha : a.Nodup) :
    Multi.dedup (a ++ R) = a ++ (Multi.dedup R).filter (fun x => decide (x ∉ a)) := by
  unfold Multi.dedup
  rw [dedupGo_append_fresh a [] R ha (by simp)]
  have := dedupGo_filter R [] (a.reverse ++ [])
  simp only [List.nil_append] at this
  rw [this]
  congr 1
  apply List.filter_congr
  intro x _
  simp

theorem dedup_eq_nil (l : List Name) : Multi.dedup l = [] ↔ l = [] := by
  constructor
  · intro h
    cases l with
    | nil => rfl
    | cons x xs => simp [Multi.dedup, Multi.dedupGo] at h
  · rintro rfl; rfl

/-! ### the names of a merged directory -/

theorem names_erase_filter (k : Name) : ∀ (ds : Ents), (Ents.names ds).Nodup →
    Ents.names (Ents.erase k ds) = (Ents.names ds).filter (fun x => decide (x ≠ k)) := by
  intro ds
  induction ds with
  | nil => intro _; rfl
  | cons e ds ih =>
    intro hn
    obtain ⟨k', v⟩ := e
    have hn2 : (k' :: Ents.names ds).Nodup := hn
    have hn' := List.nodup_cons.1 hn2
    by_cases hk : k' = k
    · subst hk
      simp only [Ents.erase, if_true, Ents.names, List.map_cons, List.filter_cons, ne_eq, not_true_eq_false,
        decide_false, Bool.false_eq_true, if_false]
      symm
      apply List.filter_eq_self.2
      intro x hx
      simp only [decide_eq_true_eq]
      rintro rfl
      exact hn'.1 hx
    · have := ih hn'.2
      simp only [Ents.names] at this
      simp [Ents.erase, hk, Ents.names, this]

theorem names_overEnts : ∀ (es ds : Ents), (Ents.names ds).Nodup →
    Ents.names (overEnts es ds) = Ents.names es ++ (Ents.names ds).filter (fun x => decide (x ∉ Ents.names es)) := by
  intro es
  induction es with
  | nil =>
    intro ds _
    simp only [overEnts, Ents.names, List.map_nil, List.nil_append]
    exact (List.filter_eq_self.2 (fun x _ => by simp)).symm
  | cons e es ih =>
    intro ds hn
    obtain ⟨k, v⟩ := e
    have hne : (Ents.names (Ents.erase k ds)).Nodup := by
      rw [names_erase_filter k ds hn]; exact hn.filter _
    have h1 := ih (Ents.erase k ds) hne
    rw [names_erase_filter k ds hn] at h1
    simp only [Ents.names] at h1 ⊢
    simp only [overEnts, List.map_cons, List.cons_append, List.cons.injEq, true_and]
    rw [h1, List.filter_filter]
    congr 1
    apply List.filter_congr
    intro x _
    by_cases h1 : x = k <;> by_cases h2 : x ∈ List.map (fun x => x.fst) es <;> simp [h1, h2]

/-- the names a layer contributes to a union listing of the path -/
def namesOf : Option Node → List Name
  | some (.dir es) => Ents.names es
  | _ => []

/-- every layer that has the path has it as a well-formed directory -/
def AllDirs (xs : List (Option Node)) : Prop := ∀ n, some n ∈ xs → ∃ es, n = .dir es ∧ (Ents.names es).Nodup

theorem flatMap_namesOf_none : ∀ (xs : List (Option Node)), (∀ x ∈ xs, x = none) → xs.flatMap namesOf = []
  | [], _ => rfl
  | x :: xs, h => by
    have hx := h x (by simp)
    subst hx
    simp [List.flatMap_cons, namesOf, flatMap_namesOf_none xs (fun y hy => h y (by simp [hy]))]

/-- **the listing of a merged directory**: the de-duplicated concatenation, in layer order -/
theorem ovAt_dir_names : ∀ (xs : List (Option Node)), AllDirs xs →
    (ovAt xs = none ∧ ∀ x ∈ xs, x = none) ∨
    ∃ es', ovAt xs = some (.dir es') ∧ Ents.names es' = Multi.dedup (xs.flatMap namesOf) := by
  intro xs
  induction xs with
  | nil => intro _; exact Or.inl ⟨rfl, by simp⟩
  | cons x xs ih =>
    intro h
    have h' : AllDirs xs := fun n hn => h n (by simp [hn])
    cases x with
    | none =>
      rcases ih h' with ⟨h1, h2⟩ | ⟨es', h1, h2⟩
      · exact Or.inl ⟨by simp [ovAt, h1], by intro y hy; simp at hy; rcases hy with rfl | hy; rfl; exact h2 y hy⟩
      · exact Or.inr ⟨es', by simp [ovAt, h1], by simp [List.flatMap_cons, namesOf, h2]⟩
    | some n =>
      obtain ⟨es, rfl, hnd⟩ := h n (by simp)
      right
      rcases ih h' with ⟨h1, h2⟩ | ⟨ds', h1, h2⟩
      · refine ⟨es, by show some (overNode (.dir es) (ovAt xs)) = some (.dir es); rw [h1, overNode_none], ?_⟩
        simp only [List.flatMap_cons, namesOf, flatMap_namesOf_none xs h2, List.append_nil]
        exact (dedup_nodup _ hnd).symm
      · refine ⟨overEnts es ds', by
          show some (overNode (.dir es) (ovAt xs)) = some (.dir (overEnts es ds')); rw [h1]; simp only [overNode], ?_⟩
        have hnd' : (Ents.names ds').Nodup := by rw [h2]; exact RouteLemmas.MultiL.nodup_dedupGo [] _
        rw [names_overEnts es ds' hnd', h2]
        simp only [List.flatMap_cons, namesOf]
        exact (dedup_append _ _ hnd).symm


/-! ### blocked paths -/

/-- a path is blocked iff some PROPER prefix of it is a file -/
theorem blocked_iff (t : Node) : ∀ (cs pre : List Name),
    blockedByFile t pre cs = true ↔ ∃ r b, r <+: cs ∧ r ≠ cs ∧ t.get (pre ++ r) = some (.file b) := by
  intro cs
  induction cs with
  | nil =>
    intro pre
    simp only [blockedByFile, Bool.false_eq_true, false_iff, not_exists, not_and]
    intro r b hr hne
    exact absurd (List.prefix_nil.1 hr) hne
  | cons c cs ih =>
    intro pre
    simp only [blockedByFile, Bool.or_eq_true]
    constructor
    · rintro (h | h)
      · cases hg : t.get pre with
        | none => rw [hg] at h; cases h
        | some n =>
          cases n with
          | dir _ => rw [hg] at h; cases h
          | file b => exact ⟨[], b, List.nil_prefix, by simp, by simpa using hg⟩
      · by_cases hcs : cs = []
        · simp [hcs] at h
        · simp only [hcs, if_false] at h
          obtain ⟨r, b, hr, hne, hg⟩ := (ih (pre ++ [c])).1 h
          exact ⟨c :: r, b, List.cons_prefix_cons.2 ⟨rfl, hr⟩, by simpa using hne, by simpa using hg⟩
    · rintro ⟨r, b, hr, hne, hg⟩
      cases r with
      | nil => left; simp only [List.append_nil] at hg; simp [hg]
      | cons c' r' =>
        obtain ⟨rfl, hr'⟩ := List.cons_prefix_cons.1 hr
        have hne' : r' ≠ cs := fun h => hne (by rw [h])
        have hcs : cs ≠ [] := by rintro rfl; exact hne' (List.prefix_nil.1 hr')
        right
        simp only [hcs, if_false]
        exact (ih (pre ++ [c'])).2 ⟨r', b, hr', hne', by simpa using hg⟩

section
variable {s : MState State}

theorem find_some_of_hasAt (cs : List Name) (j : Nat) (hj : j ∈ order s) (h : hasAt s cs j = true) :
    ∃ i, (order s).find? (hasAt s cs) = some i := by
  cases hf : (order s).find? (hasAt s cs) with
  | some i => exact ⟨i, rfl⟩
  | none =>
    have := List.find?_eq_none.1 hf j hj
    rw [h] at this; exact absurd rfl this

/-- a path blocked in some layer is blocked in the overlay (the file in the way is seen by everybody) -/
theorem blocked_overlay (G : GoodStack s) (cs : List Name) (j : Nat) (l : Layer State)
    (hl : s.layers[j]? = some l) (hb : blockedByFile l.st.root [] cs = true) :
    blockedByFile (overlay s).root [] cs = true := by
  obtain ⟨r, b, hr, hne, hg⟩ := (blocked_iff l.st.root cs []).1 hb
  simp only [List.nil_append] at hg
  have hjlt : j < s.layers.length := by
    have := (List.getElem?_eq_some_iff.1 hl).1; exact this
  have hhas : hasAt s r j = true := by simp [hasAt, hl, hg]
  obtain ⟨i, hf⟩ := find_some_of_hasAt r j (mem_order s j hjlt) hhas
  obtain ⟨li, n, hli, hn⟩ := find_hasAt hf
  have hcons := G.cons li (List.mem_of_getElem? hli) l (List.mem_of_getElem? hl) r n (.file b) hn hg
  obtain ⟨rest, hov⟩ := overlay_get_some s G.cons G.ne r i hf li n hli hn
  cases n with
  | dir es => simp [Node.isDir] at hcons
  | file b' =>
    rw [overNode_file] at hov
    exact (blocked_iff (overlay s).root cs []).2 ⟨r, b', hr, hne, by simpa using hov⟩

/-! ### what a layer answers to `listdir` -/

theorem ref_listdir (t : State) (hc : t.closed = false) (p : Str) (cs : List Name) (hv : validate p = .ok cs) :
    Ref.step t (.listdir p) = match t.root.get cs with
      | none => (t, .err .ResourceNotFound)
      | some (.file _) => (t, .err .DirectoryExpected)
      | some (.dir es) => (t, .ok (.names (Ents.names es))) := by
  rw [ref_one t hc _ p rfl (by intro q m h; cases h), hv]
  simp only [step1]
  cases t.root.get cs with
  | none => rfl
  | some n => cases n <;> rfl

theorem callLayer_listdir (F : FS State) (hF : RefinesRef F) (hg : AllGood s) (i : Nat) (l : Layer State)
    (hl : s.layers[i]? = some l) (p : Str) (cs : List Name) (hv : validate p = .ok cs) :
    match l.st.root.get cs with
    | some (.dir es) => callLayer F s i (.listdir p) = (s, .ok (.names (Ents.names es)))
    | some (.file _) => callLayer F s i (.listdir p) = (s, .err .DirectoryExpected)
    | none => ∃ e', callLayer F s i (.listdir p) = (s, .err e') ∧
        (e' = .ResourceNotFound ∨ (e' = .DirectoryExpected ∧ blockedByFile l.st.root [] cs = true)) := by
  have G : Good l.st := hg l (List.mem_of_getElem? hl)
  have href := ref_listdir l.st G.opn p cs hv
  have hadm : adm l.st (.listdir p) = adm1 l.st.root cs (.listdir p) := by
    rw [QueryLemmas.adm_one l.st _ p G.opn rfl (by intro q m h; cases h), hv]
  rcases callLayer_cases F hF s hg i l hl (.listdir p) rfl with ⟨hok, h⟩ | ⟨e, e', hr, h, ha⟩
  · rw [h, RouteLemmas.step_query_state l.st _ rfl, set_self _ _ _ hl]
    cases hn : l.st.root.get cs with
    | none => rw [href, hn] at hok; cases hok
    | some n =>
      cases n with
      | file _ => rw [href, hn] at hok; cases hok
      | dir es => simp only; rw [href, hn]
  · rw [h]
    rw [hadm] at ha
    cases hn : l.st.root.get cs with
    | none =>
      simp only [adm1, admDirArg, kindAt, hn, reduceCtorEq, false_or, if_true, List.mem_append, List.mem_singleton] at ha
      refine ⟨e', rfl, ?_⟩
      rcases ha with ha | ha
      · exact Or.inl ha
      · split at ha
        · next hb => simp at ha; exact Or.inr ⟨ha, hb⟩
        · cases ha
    | some n =>
      cases n with
      | dir es => rw [href, hn] at hr; exact absurd (congrArg Prod.snd hr) (by simp)
      | file b =>
        simp only
        have hb := MemLemmas.not_blocked_of_get l.st.root _ [] cs (by simpa using hn)
        simp [adm1, admDirArg, kindAt, hn, hb] at ha
        rw [ha]


/-! ### the loops of `listdir` / `isempty` on a stack -/

/-- no layer among `is` holds the path as a FILE -/
def NoFile (s : MState State) (cs : List Name) (is : List Nat) : Prop :=
  ∀ i ∈ is, ∀ b, nodeAt s cs i ≠ some (.file b)

theorem nodeAt_layer {i : Nat} {l : Layer State} (hl : s.layers[i]? = some l) (cs : List Name) :
    nodeAt s cs i = l.st.root.get cs := by simp [nodeAt, hl]

/-- once a layer has listed the path every later layer is skipped or appended -/
theorem listLoop_ex (F : FS State) (hF : RefinesRef F) (hg : AllGood s) (p : Str) (cs : List Name)
    (hv : validate p = .ok cs) : ∀ (is : List Nat), (∀ i ∈ is, i < s.layers.length) → NoFile s cs is →
    ∀ acc, listLoop F p is acc true s = (s, .ok (acc ++ (is.map (nodeAt s cs)).flatMap namesOf, true)) := by
  intro is
  induction is with
  | nil => intro _ _ acc; simp [listLoop]
  | cons i is ih =>
    intro hlt hnf acc
    have hi := hlt i (by simp)
    obtain ⟨l, hl⟩ : ∃ l, s.layers[i]? = some l := ⟨s.layers[i], by simp [hi]⟩
    have ih' := ih (fun j hj => hlt j (by simp [hj])) (fun j hj => hnf j (by simp [hj]))
    have hc := callLayer_listdir F hF hg i l hl p cs hv
    have hna := nodeAt_layer hl cs
    simp only [listLoop, List.map_cons, List.flatMap_cons]
    cases hn : l.st.root.get cs with
    | none =>
      rw [hn] at hc
      obtain ⟨e', hce, he⟩ := hc
      rw [hce, hna, hn]
      rcases he with rfl | ⟨rfl, _⟩ <;> simp [namesOf, ih']
    | some n =>
      cases n with
      | file b => exact absurd (by rw [hna, hn]) (hnf i (by simp) b)
      | dir es =>
        rw [hn] at hc
        simp only at hc
        rw [hc, hna, hn]
        simp [namesOf, ih', List.append_assoc]

/-- layers that do not have the path, met before any layer has listed it: skipped — or one of them, in
which a file blocks the path, answers DirectoryExpected -/
theorem listLoop_missing (F : FS State) (hF : RefinesRef F) (hg : AllGood s) (p : Str) (cs : List Name)
    (hv : validate p = .ok cs) (rest : List Nat) (acc : List Name) : ∀ (pre : List Nat),
    (∀ i ∈ pre, i < s.layers.length) → (∀ i ∈ pre, nodeAt s cs i = none) →
    listLoop F p (pre ++ rest) acc false s = listLoop F p rest acc false s ∨
    (listLoop F p (pre ++ rest) acc false s = (s, .err .DirectoryExpected) ∧
      ∃ j ∈ pre, ∃ l, s.layers[j]? = some l ∧ blockedByFile l.st.root [] cs = true) := by
  intro pre
  induction pre with
  | nil => intro _ _; exact Or.inl rfl
  | cons i pre ih =>
    intro hlt hnone
    have hi := hlt i (by simp)
    obtain ⟨l, hl⟩ : ∃ l, s.layers[i]? = some l := ⟨s.layers[i], by simp [hi]⟩
    have hc := callLayer_listdir F hF hg i l hl p cs hv
    have hn : l.st.root.get cs = none := by rw [← nodeAt_layer hl cs]; exact hnone i (by simp)
    rw [hn] at hc
    obtain ⟨e', hce, he⟩ := hc
    simp only [List.cons_append, listLoop, hce]
    rcases he with rfl | ⟨rfl, hb⟩
    · simp only
      rcases ih (fun j hj => hlt j (by simp [hj])) (fun j hj => hnone j (by simp [hj])) with h | ⟨h, j, hj, hx⟩
      · exact Or.inl h
      · exact Or.inr ⟨h, j, by simp [hj], hx⟩
    · simp only [Bool.false_eq_true, if_false]
      exact Or.inr ⟨trivial, i, by simp, l, hl, hb⟩

theorem scanFirst_ex (F : FS State) (hF : RefinesRef F) (hg : AllGood s) (p : Str) (cs : List Name)
    (hv : validate p = .ok cs) : ∀ (is : List Nat), (∀ i ∈ is, i < s.layers.length) → NoFile s cs is →
    scanFirstLoop F p is true s = (s, .ok (.bool ((is.map (nodeAt s cs)).flatMap namesOf).isEmpty)) := by
  intro is
  induction is with
  | nil => intro _ _; simp [scanFirstLoop]
  | cons i is ih =>
    intro hlt hnf
    have hi := hlt i (by simp)
    obtain ⟨l, hl⟩ : ∃ l, s.layers[i]? = some l := ⟨s.layers[i], by simp [hi]⟩
    have ih' := ih (fun j hj => hlt j (by simp [hj])) (fun j hj => hnf j (by simp [hj]))
    have hc := callLayer_listdir F hF hg i l hl p cs hv
    have hna := nodeAt_layer hl cs
    simp only [scanFirstLoop, List.map_cons, List.flatMap_cons]
    cases hn : l.st.root.get cs with
    | none =>
      rw [hn] at hc
      obtain ⟨e', hce, he⟩ := hc
      rw [hce, hna, hn]
      rcases he with rfl | ⟨rfl, _⟩ <;> simp [namesOf, ih']
    | some n =>
      cases n with
      | file b => exact absurd (by rw [hna, hn]) (hnf i (by simp) b)
      | dir es =>
        rw [hn] at hc
        simp only at hc
        rw [hc, hna, hn]
        cases hes : Ents.names es with
        | nil => simp [namesOf, hes, ih']
        | cons x xs => simp [namesOf, hes]

theorem scanFirst_missing (F : FS State) (hF : RefinesRef F) (hg : AllGood s) (p : Str) (cs : List Name)
    (hv : validate p = .ok cs) (rest : List Nat) : ∀ (pre : List Nat),
    (∀ i ∈ pre, i < s.layers.length) → (∀ i ∈ pre, nodeAt s cs i = none) →
    scanFirstLoop F p (pre ++ rest) false s = scanFirstLoop F p rest false s ∨
    (scanFirstLoop F p (pre ++ rest) false s = (s, .err .DirectoryExpected) ∧
      ∃ j ∈ pre, ∃ l, s.layers[j]? = some l ∧ blockedByFile l.st.root [] cs = true) := by
  intro pre
  induction pre with
  | nil => intro _ _; exact Or.inl rfl
  | cons i pre ih =>
    intro hlt hnone
    have hi := hlt i (by simp)
    obtain ⟨l, hl⟩ : ∃ l, s.layers[i]? = some l := ⟨s.layers[i], by simp [hi]⟩
    have hc := callLayer_listdir F hF hg i l hl p cs hv
    have hn : l.st.root.get cs = none := by rw [← nodeAt_layer hl cs]; exact hnone i (by simp)
    rw [hn] at hc
    obtain ⟨e', hce, he⟩ := hc
    simp only [List.cons_append, scanFirstLoop, hce]
    rcases he with rfl | ⟨rfl, hb⟩
    · simp only
      rcases ih (fun j hj => hlt j (by simp [hj])) (fun j hj => hnone j (by simp [hj])) with h | ⟨h, j, hj, hx⟩
      · exact Or.inl h
      · exact Or.inr ⟨h, j, by simp [hj], hx⟩
    · simp only [Bool.false_eq_true, if_false]
      exact Or.inr ⟨trivial, i, by simp, l, hl, hb⟩


/-! ### `listdir` / `isempty` against the overlay -/

/-- when one layer holds the path as a directory: no layer holds it as a file, no layer has a file in the
way, and every layer's directory there is well-formed -/
theorem dir_facts (G : GoodStack s) (cs : List Name) (i0 : Nat) (l0 : Layer State) (es0 : Ents)
    (hl0 : s.layers[i0]? = some l0) (hn0 : l0.st.root.get cs = some (.dir es0)) :
    (∀ (j : Nat) (l : Layer State), s.layers[j]? = some l → blockedByFile l.st.root [] cs = false) ∧
    (∀ is, NoFile s cs is) ∧
    AllDirs ((order s).map (nodeAt s cs)) := by
  have hm0 := List.mem_of_getElem? hl0
  refine ⟨?_, ?_, ?_⟩
  · intro j l hl
    cases hb : blockedByFile l.st.root [] cs with
    | false => rfl
    | true =>
      exfalso
      obtain ⟨r, b, hr, hne, hg⟩ := (blocked_iff l.st.root cs []).1 hb
      simp only [List.nil_append] at hg
      obtain ⟨es, hes⟩ := TreeLemmas.get_proper_prefix_dir hr hne hn0
      have := G.cons l (List.mem_of_getElem? hl) l0 hm0 r _ _ hg hes
      simp [Node.isDir] at this
  · intro is j _ b hnb
    unfold nodeAt at hnb
    cases hl : s.layers[j]? with
    | none => rw [hl] at hnb; cases hnb
    | some l =>
      rw [hl] at hnb
      simp only [Option.bind_some] at hnb
      have := G.cons l (List.mem_of_getElem? hl) l0 hm0 cs _ _ hnb hn0
      simp [Node.isDir] at this
  · intro n hn
    obtain ⟨j, _, hj⟩ := List.mem_map.1 hn
    unfold nodeAt at hj
    cases hl : s.layers[j]? with
    | none => rw [hl] at hj; cases hj
    | some l =>
      rw [hl] at hj
      simp only [Option.bind_some] at hj
      have hml := List.mem_of_getElem? hl
      have hc := G.cons l hml l0 hm0 cs _ _ hj hn0
      cases n with
      | file b => simp [Node.isDir] at hc
      | dir es =>
        refine ⟨es, rfl, ?_⟩
        have hwf := QueryLemmas.get_wf cs l.st.root _ (G.good l hml).wf hj
        exact QueryLemmas.entsWf_names_nodup es (by simpa [Node.wf] using hwf)

theorem find_none_nodeAt (cs : List Name) (hf : (order s).find? (hasAt s cs) = none) :
    ∀ i ∈ order s, nodeAt s cs i = none := by
  intro i hi
  have := List.find?_eq_none.1 hf i hi
  rw [hasAt_eq] at this
  cases hn : nodeAt s cs i with
  | none => rfl
  | some n => rw [hn] at this; simp at this

/-- an invalid path: the first layer asked refuses it with the reference's class -/
theorem callLayer_listdir_invalid (F : FS State) (hF : RefinesRef F) (hg : AllGood s) (i : Nat) (l : Layer State)
    (hl : s.layers[i]? = some l) (p : Str) (e : Err) (hv : validate p = .err e) :
    callLayer F s i (.listdir p) = (s, .err e) := by
  have G : Good l.st := hg l (List.mem_of_getElem? hl)
  rcases callLayer_cases F hF s hg i l hl (.listdir p) rfl with ⟨hok, _⟩ | ⟨e0, e', _, h, ha⟩
  · rw [ref_one l.st G.opn _ p rfl (by intro q m h; cases h), hv] at hok; cases hok
  · rw [QueryLemmas.adm_one l.st _ p G.opn rfl (by intro q m h; cases h), hv] at ha
    simp at ha
    rw [h, ha]

theorem stack_listdir (F : FS State) (hF : RefinesRef F) (G : GoodStack s) (p : Str) :
    QSim s (.listdir p) (listdirM F s p) := by
  unfold listdirM
  have hlt : ∀ i ∈ order s, i < s.layers.length := fun i hi => order_lt s i hi
  cases hv : validate p with
  | err e =>
    have hro := ref_one (overlay s) (overlay_open G) (.listdir p) p rfl (by intro q m h; cases h)
    cases ho : order s with
    | nil => exact absurd ho (order_ne_nil G)
    | cons i rest =>
      have hi := hlt i (by simp [ho])
      obtain ⟨l, hl⟩ : ∃ l, s.layers[i]? = some l := ⟨s.layers[i], by simp [hi]⟩
      simp only [listLoop, callLayer_listdir_invalid F hF G.good i l hl p e hv]
      have hne := QueryLemmas.validate_err_cases p e hv
      refine ⟨?_, Or.inl ?_⟩ <;> rcases hne with rfl | rfl <;> simp [hro, hv]
  | ok cs =>
    have hro := ref_listdir (overlay s) (overlay_open G) p cs hv
    have hao : adm (overlay s) (.listdir p) = adm1 (overlay s).root cs (.listdir p) := by
      rw [QueryLemmas.adm_one (overlay s) _ p (overlay_open G) rfl (by intro q m h; cases h), hv]
    cases hf : (order s).find? (hasAt s cs) with
    | none =>
      have hnone := find_none_nodeAt cs hf
      have hget := overlay_get_none s G.cons G.ne cs hf
      rcases listLoop_missing F hF G.good p cs hv [] [] (order s) hlt hnone with h | ⟨h, j, _, l, hl, hb⟩
      · rw [List.append_nil] at h
        rw [h]
        simp only [listLoop]
        exact ⟨rfl, Or.inl (by rw [hro, hget])⟩
      · rw [List.append_nil] at h
        rw [h]
        refine ⟨rfl, Or.inr ⟨.ResourceNotFound, .DirectoryExpected, by rw [hro, hget], rfl, ?_⟩⟩
        rw [hao]
        simp [adm1, admDirArg, blocked_overlay G cs j l hl hb]
    | some i0 =>
      obtain ⟨n, pre, post, hn0, hsplit, hpre, _⟩ := ovAt_find_some s cs _ i0 hf
      obtain ⟨l0, n', hl0, hn0'⟩ := find_hasAt hf
      have hnn : n' = n := by rw [nodeAt_layer hl0 cs, hn0'] at hn0; exact Option.some.inj hn0
      subst hnn
      have hpre_lt : ∀ i ∈ pre, i < s.layers.length := fun i hi => hlt i (by rw [hsplit]; simp [hi])
      have hpost_lt : ∀ i ∈ post, i < s.layers.length := fun i hi => hlt i (by rw [hsplit]; simp [hi])
      have hc0 := callLayer_listdir F hF G.good i0 l0 hl0 p cs hv
      obtain ⟨rest, hov⟩ := overlay_get_some s G.cons G.ne cs i0 hf l0 n' hl0 hn0'
      rw [hsplit]
      cases n' with
      | file b =>
        rw [hn0'] at hc0
        simp only at hc0
        rw [overNode_file] at hov
        have hres : listLoop F p (pre ++ i0 :: post) [] false s = (s, .err .DirectoryExpected) := by
          rcases listLoop_missing F hF G.good p cs hv (i0 :: post) [] pre hpre_lt hpre with h | ⟨h, _⟩
          · rw [h]; simp [listLoop, hc0]
          · exact h
        rw [hres]
        exact ⟨rfl, Or.inl (by rw [hro, hov])⟩
      | dir es0 =>
        obtain ⟨hnb, hnf, hall⟩ := dir_facts G cs i0 l0 es0 hl0 hn0'
        rw [hn0'] at hc0
        simp only at hc0
        have hres : listLoop F p (pre ++ i0 :: post) [] false s =
            (s, .ok (Ents.names es0 ++ (post.map (nodeAt s cs)).flatMap namesOf, true)) := by
          rcases listLoop_missing F hF G.good p cs hv (i0 :: post) [] pre hpre_lt hpre with h | ⟨_, j, _, l, hl, hb⟩
          · rw [h]
            simp only [listLoop, hc0, List.nil_append]
            exact listLoop_ex F hF G.good p cs hv post hpost_lt (hnf post) _
          · rw [hnb j l hl] at hb; cases hb
        rw [hres]
        simp only
        refine ⟨rfl, Or.inl ?_⟩
        rcases ovAt_dir_names _ hall with ⟨hnone, _⟩ | ⟨es', hes', hnames⟩
        · rw [← overlay_get s G.cons G.ne cs, hov] at hnone; cases hnone
        · rw [hro, overlay_get s G.cons G.ne cs, hes']
          simp only
          rw [hnames, hsplit]
          simp only [List.map_append, List.map_cons, List.flatMap_append, List.flatMap_cons]
          rw [flatMap_namesOf_none (pre.map (nodeAt s cs)) (by
            intro x hx; obtain ⟨j, hj, rfl⟩ := List.mem_map.1 hx; exact hpre j hj)]
          simp [nodeAt_layer hl0 cs, hn0', namesOf]

theorem adm_isempty_listdir' (t : State) (hc : t.closed = false) (p : Str) :
    adm t (.isempty p) = adm t (.listdir p) := adm_isempty_listdir t hc p

theorem stack_isempty (F : FS State) (hF : RefinesRef F) (G : GoodStack s) (p : Str) :
    QSim s (.isempty p) (isemptyM F s p) := by
  unfold isemptyM
  have hlt : ∀ i ∈ order s, i < s.layers.length := fun i hi => order_lt s i hi
  have hro1 := ref_one (overlay s) (overlay_open G) (.isempty p) p rfl (by intro q m h; cases h)
  cases hv : validate p with
  | err e =>
    cases ho : order s with
    | nil => exact absurd ho (order_ne_nil G)
    | cons i rest =>
      have hi := hlt i (by simp [ho])
      obtain ⟨l, hl⟩ : ∃ l, s.layers[i]? = some l := ⟨s.layers[i], by simp [hi]⟩
      simp only [scanFirstLoop, callLayer_listdir_invalid F hF G.good i l hl p e hv]
      have hne := QueryLemmas.validate_err_cases p e hv
      refine ⟨?_, Or.inl ?_⟩ <;> rcases hne with rfl | rfl <;> simp [hro1, hv]
  | ok cs =>
    have hro : Ref.step (overlay s) (.isempty p) = match (overlay s).root.get cs with
        | none => (overlay s, .err .ResourceNotFound)
        | some (.file _) => (overlay s, .err .DirectoryExpected)
        | some (.dir es) => (overlay s, .ok (.bool es.isEmpty)) := by
      rw [hro1, hv]; simp only [step1]
      cases (overlay s).root.get cs with
      | none => rfl
      | some n => cases n <;> rfl
    have hao : adm (overlay s) (.isempty p) = adm1 (overlay s).root cs (.isempty p) := by
      rw [QueryLemmas.adm_one (overlay s) _ p (overlay_open G) rfl (by intro q m h; cases h), hv]
    cases hf : (order s).find? (hasAt s cs) with
    | none =>
      have hnone := find_none_nodeAt cs hf
      have hget := overlay_get_none s G.cons G.ne cs hf
      rcases scanFirst_missing F hF G.good p cs hv [] (order s) hlt hnone with h | ⟨h, j, _, l, hl, hb⟩
      · rw [List.append_nil] at h
        rw [h]
        simp only [scanFirstLoop]
        exact ⟨rfl, Or.inl (by rw [hro, hget]; rfl)⟩
      · rw [List.append_nil] at h
        rw [h]
        refine ⟨rfl, Or.inr ⟨.ResourceNotFound, .DirectoryExpected, by rw [hro, hget], rfl, ?_⟩⟩
        rw [hao]
        simp [adm1, admDirArg, blocked_overlay G cs j l hl hb]
    | some i0 =>
      obtain ⟨n, pre, post, hn0, hsplit, hpre, _⟩ := ovAt_find_some s cs _ i0 hf
      obtain ⟨l0, n', hl0, hn0'⟩ := find_hasAt hf
      have hnn : n' = n := by rw [nodeAt_layer hl0 cs, hn0'] at hn0; exact Option.some.inj hn0
      subst hnn
      have hpre_lt : ∀ i ∈ pre, i < s.layers.length := fun i hi => hlt i (by rw [hsplit]; simp [hi])
      have hpost_lt : ∀ i ∈ post, i < s.layers.length := fun i hi => hlt i (by rw [hsplit]; simp [hi])
      have hc0 := callLayer_listdir F hF G.good i0 l0 hl0 p cs hv
      obtain ⟨rest, hov⟩ := overlay_get_some s G.cons G.ne cs i0 hf l0 n' hl0 hn0'
      rw [hsplit]
      cases n' with
      | file b =>
        rw [hn0'] at hc0
        simp only at hc0
        rw [overNode_file] at hov
        have hres : scanFirstLoop F p (pre ++ i0 :: post) false s = (s, .err .DirectoryExpected) := by
          rcases scanFirst_missing F hF G.good p cs hv (i0 :: post) pre hpre_lt hpre with h | ⟨h, _⟩
          · rw [h]; simp [scanFirstLoop, hc0]
          · exact h
        rw [hres]
        exact ⟨rfl, Or.inl (by rw [hro, hov])⟩
      | dir es0 =>
        obtain ⟨hnb, hnf, hall⟩ := dir_facts G cs i0 l0 es0 hl0 hn0'
        rw [hn0'] at hc0
        simp only at hc0
        have hres : scanFirstLoop F p (pre ++ i0 :: post) false s =
            (s, .ok (.bool (Ents.names es0 ++ (post.map (nodeAt s cs)).flatMap namesOf).isEmpty)) := by
          rcases scanFirst_missing F hF G.good p cs hv (i0 :: post) pre hpre_lt hpre with h | ⟨_, j, _, l, hl, hb⟩
          · rw [h]
            simp only [scanFirstLoop, hc0]
            cases hes : Ents.names es0 with
            | nil =>
              simp only [List.nil_append]
              exact scanFirst_ex F hF G.good p cs hv post hpost_lt (hnf post)
            | cons x xs => simp
          · rw [hnb j l hl] at hb; cases hb
        rw [hres]
        refine ⟨rfl, Or.inl ?_⟩
        rcases ovAt_dir_names _ hall with ⟨hnone, _⟩ | ⟨es', hes', hnames⟩
        · rw [← overlay_get s G.cons G.ne cs, hov] at hnone; cases hnone
        · rw [hro, overlay_get s G.cons G.ne cs, hes']
          simp only
          have hflat : ((order s).map (nodeAt s cs)).flatMap namesOf =
              Ents.names es0 ++ (post.map (nodeAt s cs)).flatMap namesOf := by
            rw [hsplit]
            simp only [List.map_append, List.map_cons, List.flatMap_append, List.flatMap_cons]
            rw [flatMap_namesOf_none (pre.map (nodeAt s cs)) (by
              intro x hx; obtain ⟨j, hj, rfl⟩ := List.mem_map.1 hx; exact hpre j hj)]
            simp [nodeAt_layer hl0 cs, hn0', namesOf]
          rw [hflat] at hnames
          have : es'.isEmpty = (Ents.names es0 ++ (post.map (nodeAt s cs)).flatMap namesOf).isEmpty := by
            have h1 : es'.isEmpty = (Ents.names es').isEmpty := by cases es' <;> rfl
            rw [h1, hnames]
            cases hl : Ents.names es0 ++ (post.map (nodeAt s cs)).flatMap namesOf with
            | nil => rfl
            | cons x xs =>
              have : Multi.dedup (x :: xs) ≠ [] := fun h => by
                have := (dedup_eq_nil _).1 h; cases this
              cases hd : Multi.dedup (x :: xs) with
              | nil => exact absurd hd this
              | cons _ _ => rfl
          rw [this]

end

end Fs.MultiFsLemmas
