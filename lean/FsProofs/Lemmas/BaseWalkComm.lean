/-
  Commutation / unfolding lemmas for the tree-level description of `copy_dir` (BaseWalkSpec):
  * writes at incomparable existing paths commute (`set_set_comm`, `setAt_setAt_comm`);
  * processing pending directories at incomparable paths commutes (`modAt_comm`, `recQ_comm`);
  * `recQ` over a concatenated queue (`recQ_append`);
  * one-level unfolding of `modAt` into a queue of the children (`modAt_unfold_some/none`);
  * antichain bookkeeping (`Inc`, `kids`).
-/
import FsModel.Ref
import FsProofs.Lemmas.BaseWalkSpec
import FsProofs.Lemmas.TreeLemmas
import FsProofs.Lemmas.WrapLemmas
import FsProofs.Lemmas.MemLemmas

namespace Fs.BaseWalkComm
open Fs Fs.Ref Fs.BaseWalkSpec Fs.TreeLemmas

/-! ### antichain bookkeeping -/

theorem inc_symm {p q : List Name} (h : Inc p q) : Inc q p := ⟨h.2, h.1⟩

theorem inc_child_left {r q : List Name} (k : Name) (h : Inc r q) : Inc (r ++ [k]) q := by
  refine ⟨fun hp => h.1 (List.IsPrefix.trans (List.prefix_append r [k]) hp), fun hq => ?_⟩
  rcases List.prefix_concat_iff.1 hq with e | hq'
  · exact h.1 (e ▸ List.prefix_append r [k])
  · exact h.2 hq'

theorem inc_siblings (r : List Name) {k k' : Name} (h : k ≠ k') : Inc (r ++ [k]) (r ++ [k']) := by
  constructor
  · intro hp
    rw [List.prefix_append_right_inj] at hp
    have := List.cons_prefix_cons.1 hp
    exact h this.1
  · intro hp
    rw [List.prefix_append_right_inj] at hp
    have := List.cons_prefix_cons.1 hp
    exact h this.1.symm

/-- a queued name is an entry name -/
theorem lookup_isSome_of_mem_kids {es : Ents} {k : Name} (h : k ∈ kids es) :
    (Ents.lookup k es).isSome = true := by
  induction es with
  | nil => simp [kids] at h
  | cons e es ih =>
    obtain ⟨c, v⟩ := e
    by_cases hc : c = k
    · simp [Ents.lookup, hc]
    · cases v with
      | file b =>
        simp only [kids] at h
        simpa [Ents.lookup, hc] using ih h
      | dir e' =>
        simp only [kids, List.mem_cons] at h
        rcases h with h | h
        · exact absurd h.symm hc
        · simpa [Ents.lookup, hc] using ih h

/-- (no well-formedness needed) a name whose entry is a directory is queued -/
theorem mem_kids_of_lookup {es : Ents} {k : Name} {e : Ents} (h : Ents.lookup k es = some (.dir e)) :
    k ∈ kids es := by
  induction es with
  | nil => simp [Ents.lookup] at h
  | cons x es ih =>
    obtain ⟨c, v⟩ := x
    by_cases hc : c = k
    · subst hc
      simp only [Ents.lookup, if_true, Option.some.injEq] at h
      subst h
      simp [kids]
    · simp only [Ents.lookup, hc, if_false] at h
      cases v with
      | file b => simpa [kids] using ih h
      | dir e' => simp [kids, ih h]

/-- with unique names, a queued name's entry is a directory -/
theorem lookup_of_mem_kids {es : Ents} {k : Name} (hw : entsWf es = true) (h : k ∈ kids es) :
    ∃ e, Ents.lookup k es = some (.dir e) := by
  induction es with
  | nil => simp [kids] at h
  | cons x es ih =>
    obtain ⟨c, v⟩ := x
    simp only [entsWf, Bool.and_eq_true] at hw
    obtain ⟨⟨⟨_, hn⟩, _⟩, hw'⟩ := hw
    by_cases hc : c = k
    · subst hc
      cases v with
      | file b =>
        simp only [kids] at h
        have := lookup_isSome_of_mem_kids h
        simp_all
      | dir e' => exact ⟨e', by simp [Ents.lookup]⟩
    · cases v with
      | file b =>
        simp only [kids] at h
        simpa [Ents.lookup, hc] using ih hw' h
      | dir e' =>
        simp only [kids, List.mem_cons] at h
        rcases h with h | h
        · exact absurd h.symm hc
        · simpa [Ents.lookup, hc] using ih hw' h

theorem mem_kids {es : Ents} {k : Name} (hw : entsWf es = true) :
    k ∈ kids es ↔ ∃ e, Ents.lookup k es = some (.dir e) :=
  ⟨lookup_of_mem_kids hw, fun ⟨_, h⟩ => mem_kids_of_lookup h⟩

theorem kids_nodup (es : Ents) (h : entsWf es = true) : (kids es).Nodup := by
  induction es with
  | nil => simp [kids]
  | cons x es ih =>
    obtain ⟨c, v⟩ := x
    simp only [entsWf, Bool.and_eq_true] at h
    obtain ⟨⟨⟨_, hn⟩, _⟩, hw'⟩ := h
    cases v with
    | file b => simpa [kids] using ih hw'
    | dir e' =>
      simp only [kids, List.nodup_cons]
      refine ⟨fun hm => ?_, ih hw'⟩
      have := lookup_isSome_of_mem_kids hm
      simp_all

/-! ### writes at incomparable existing paths commute -/

theorem lookup_isSome_of_get {x : Name} {as : List Name} {es : Ents}
    (h : ((Node.dir es).get (x :: as)).isSome = true) : (Ents.lookup x es).isSome = true := by
  simp only [Node.get] at h
  cases hl : Ents.lookup x es with
  | none => simp [hl] at h
  | some ch => rfl

theorem set_set_comm (p q : List Name) (t x y : Node) (h : Inc p q)
    (hp : (t.get p).isSome) (hq : (t.get q).isSome) :
    (t.set p x).set q y = (t.set q y).set p x := by
  obtain ⟨h1, h2⟩ := h
  induction p generalizing q t with
  | nil => exact absurd List.nil_prefix h1
  | cons a as ih =>
    cases q with
    | nil => exact absurd List.nil_prefix h2
    | cons b bs =>
      cases t with
      | file d => simp [Node.get] at hp
      | dir es =>
        have hla := lookup_isSome_of_get hp
        have hlb := lookup_isSome_of_get hq
        by_cases hab : a = b
        · subst hab
          have h1' : ¬ as <+: bs := fun h => h1 (List.cons_prefix_cons.2 ⟨rfl, h⟩)
          have h2' : ¬ bs <+: as := fun h => h2 (List.cons_prefix_cons.2 ⟨rfl, h⟩)
          cases as with
          | nil => exact absurd List.nil_prefix h1'
          | cons a1 as' =>
            cases bs with
            | nil => exact absurd List.nil_prefix h2'
            | cons b1 bs' =>
              cases hl : Ents.lookup a es with
              | none => simp [hl] at hla
              | some ch =>
                simp only [Node.get, hl] at hp hq
                simp only [Node.set, hl, lookup_put_same, WrapLemmas.put_put]
                rw [ih (b1 :: bs') ch hp hq h1' h2']
        · have hba : b ≠ a := fun h => hab h.symm
          cases as with
          | nil =>
            cases bs with
            | nil => simp [Node.set, MemLemmas.put_put_comm b a y x es hba hlb]
            | cons b1 bs' =>
              cases hl : Ents.lookup b es with
              | none => simp [hl] at hlb
              | some ch =>
                simp [Node.set, hl, lookup_put_other _ _ _ _ hba,
                  MemLemmas.put_put_comm b a _ x es hba hlb]
          | cons a1 as' =>
            cases bs with
            | nil =>
              cases hl : Ents.lookup a es with
              | none => simp [hl] at hla
              | some ch =>
                simp [Node.set, hl, lookup_put_other _ _ _ _ hab,
                  MemLemmas.put_put_comm b a y _ es hba hlb]
            | cons b1 bs' =>
              cases hlx : Ents.lookup a es with
              | none => simp [hlx] at hla
              | some chx =>
                cases hly : Ents.lookup b es with
                | none => simp [hly] at hlb
                | some chy =>
                  simp [Node.set, hlx, hly, lookup_put_other _ _ _ _ hba,
                    lookup_put_other _ _ _ _ hab, MemLemmas.put_put_comm b a _ _ es hba hlb]

theorem setAt_setAt_comm (p q : List Name) (t x y : Node) (h : Inc p q)
    (hp : (t.get p).isSome) (hq : (t.get q).isSome) :
    setAt (setAt t p x) q y = setAt (setAt t q y) p x := by
  have hpn : p ≠ [] := fun e => h.1 (e ▸ List.nil_prefix)
  have hqn : q ≠ [] := fun e => h.2 (e ▸ List.nil_prefix)
  simp only [WrapLemmas.setAt_ne hpn, WrapLemmas.setAt_ne hqn]
  exact set_set_comm p q t x y h hp hq

/-! ### `modAt` at incomparable paths -/

theorem modAt_eq_some {ph : Phase} {S D D1 : Node} {p : List Name} (hm : modAt ph S D p = some D1) :
    ∃ sn dn m, S.get p = some sn ∧ D.get p = some dn ∧ recNode ph sn dn = some m ∧ D1 = setAt D p m := by
  unfold modAt at hm
  split at hm
  · next sn dn hs hd =>
    cases hr : recNode ph sn dn with
    | none => simp [hr] at hm
    | some m =>
      simp only [hr, Option.map_some, Option.some.injEq] at hm
      exact ⟨sn, dn, m, hs, hd, hr, hm.symm⟩
  · cases hm

theorem modAt_of {ph : Phase} {S D : Node} {p : List Name} {sn dn : Node} (hs : S.get p = some sn)
    (hd : D.get p = some dn) : modAt ph S D p = (recNode ph sn dn).map (setAt D p) := by
  simp [modAt, hs, hd]

theorem modAt_none_src {ph : Phase} {S D : Node} {p : List Name} (hs : S.get p = none) :
    modAt ph S D p = none := by
  simp [modAt, hs]

theorem modAt_none_dst {ph : Phase} {S D : Node} {p : List Name} (hd : D.get p = none) :
    modAt ph S D p = none := by
  unfold modAt
  split
  · next h1 h2 => rw [hd] at h2; cases h2
  · rfl

/-- the general form: `q` is neither at/below `p` nor above it -/
theorem modAt_get_diverge (ph : Phase) (S D D1 : Node) (p q : List Name) (h1 : ¬ p <+: q) (h2 : ¬ q <+: p)
    (hm : modAt ph S D p = some D1) : D1.get q = D.get q := by
  obtain ⟨sn, dn, m, _, _, _, rfl⟩ := modAt_eq_some hm
  exact WrapLemmas.get_setAt_diverge p q D m h1 h2

theorem modAt_get_other (ph : Phase) (S D D1 : Node) (p q : List Name) (h : Inc p q)
    (hm : modAt ph S D p = some D1) : D1.get q = D.get q :=
  modAt_get_diverge ph S D D1 p q h.1 h.2 hm

theorem modAt_comm (ph : Phase) (S D : Node) (p q : List Name) (h : Inc p q) :
    (modAt ph S D p).bind (fun D1 => modAt ph S D1 q) =
      (modAt ph S D q).bind (fun D1 => modAt ph S D1 p) := by
  have h' := inc_symm h
  cases hsp : S.get p with
  | none =>
    rw [modAt_none_src hsp]
    cases hq : modAt ph S D q with
    | none => rfl
    | some D1 => simp [modAt_none_src hsp]
  | some sp =>
  cases hdp : D.get p with
  | none =>
    rw [modAt_none_dst hdp]
    cases hq : modAt ph S D q with
    | none => rfl
    | some D1 =>
      have := modAt_get_other ph S D D1 q p h' hq
      simp [modAt_none_dst (this.trans hdp)]
  | some dp =>
  cases hsq : S.get q with
  | none =>
    rw [modAt_none_src hsq]
    cases hp : modAt ph S D p with
    | none => rfl
    | some D1 => simp [modAt_none_src hsq]
  | some sq =>
  cases hdq : D.get q with
  | none =>
    rw [modAt_none_dst hdq]
    cases hp : modAt ph S D p with
    | none => rfl
    | some D1 =>
      have := modAt_get_other ph S D D1 p q h hp
      simp [modAt_none_dst (this.trans hdq)]
  | some dq =>
    rw [modAt_of hsp hdp, modAt_of hsq hdq]
    cases hrp : recNode ph sp dp with
    | none =>
      cases hrq : recNode ph sq dq with
      | none => rfl
      | some mq =>
        have hg : (setAt D q mq).get p = some dp :=
          (WrapLemmas.get_setAt_diverge q p D mq h'.1 h'.2).trans hdp
        simp [modAt_of hsp hg, hrp]
    | some mp =>
      have hgq : (setAt D p mp).get q = some dq :=
        (WrapLemmas.get_setAt_diverge p q D mp h.1 h.2).trans hdq
      cases hrq : recNode ph sq dq with
      | none => simp [modAt_of hsq hgq, hrq]
      | some mq =>
        have hgp : (setAt D q mq).get p = some dp :=
          (WrapLemmas.get_setAt_diverge q p D mq h'.1 h'.2).trans hdp
        simp only [Option.map_some, Option.bind_some, modAt_of hsq hgq, modAt_of hsp hgp, hrq, hrp]
        rw [setAt_setAt_comm p q D mp mq h (by simp [hdp]) (by simp [hdq])]

/-! ### queues -/

theorem recQ_append (ph : Phase) (S : Node) (Q1 Q2 : List (List Name)) (D : Node) :
    recQ ph S (Q1 ++ Q2) D = (recQ ph S Q1 D).bind (recQ ph S Q2) := by
  induction Q1 generalizing D with
  | nil => simp [recQ]
  | cons r Q1 ih =>
    simp only [List.cons_append, recQ]
    cases hm : modAt ph S D r with
    | none => rfl
    | some D1 => simp [ih]

/-- one pending directory moves past a queue of directories incomparable to it -/
theorem modAt_recQ_comm (ph : Phase) (S : Node) (p : List Name) (Q : List (List Name)) (D : Node)
    (h : ∀ q ∈ Q, Inc p q) :
    (modAt ph S D p).bind (recQ ph S Q) = (recQ ph S Q D).bind (fun D1 => modAt ph S D1 p) := by
  induction Q generalizing D with
  | nil => simp [recQ]
  | cons q Q ih =>
    have hq : Inc p q := h q (by simp)
    have hQ : ∀ q ∈ Q, Inc p q := fun x hx => h x (by simp [hx])
    simp only [recQ]
    calc (modAt ph S D p).bind (fun D1 => (modAt ph S D1 q).bind (recQ ph S Q))
        = ((modAt ph S D p).bind (fun D1 => modAt ph S D1 q)).bind (recQ ph S Q) := by
          rw [Option.bind_assoc]
      _ = ((modAt ph S D q).bind (fun D1 => modAt ph S D1 p)).bind (recQ ph S Q) := by
          rw [modAt_comm ph S D p q hq]
      _ = (modAt ph S D q).bind (fun D1 => (modAt ph S D1 p).bind (recQ ph S Q)) := by
          rw [Option.bind_assoc]
      _ = (modAt ph S D q).bind (fun D1 => (recQ ph S Q D1).bind (fun D2 => modAt ph S D2 p)) := by
          congr 1; funext D1; exact ih D1 hQ
      _ = ((modAt ph S D q).bind (recQ ph S Q)).bind (fun D1 => modAt ph S D1 p) := by
          rw [Option.bind_assoc]

theorem recQ_comm (ph : Phase) (S : Node) (Q1 Q2 : List (List Name)) (D : Node)
    (h : ∀ p ∈ Q1, ∀ q ∈ Q2, Inc p q) :
    recQ ph S (Q1 ++ Q2) D = recQ ph S (Q2 ++ Q1) D := by
  induction Q1 generalizing D with
  | nil => simp
  | cons p Q1 ih =>
    have hp : ∀ q ∈ Q2, Inc p q := h p (by simp)
    have hQ : ∀ p ∈ Q1, ∀ q ∈ Q2, Inc p q := fun x hx => h x (by simp [hx])
    calc recQ ph S (p :: Q1 ++ Q2) D
        = (modAt ph S D p).bind (recQ ph S (Q1 ++ Q2)) := by simp [recQ]
      _ = (modAt ph S D p).bind (fun D1 => (recQ ph S Q2 D1).bind (recQ ph S Q1)) := by
          congr 1; funext D1; rw [ih D1 hQ, recQ_append]
      _ = ((modAt ph S D p).bind (recQ ph S Q2)).bind (recQ ph S Q1) := by
          rw [Option.bind_assoc]
      _ = ((recQ ph S Q2 D).bind (fun D1 => modAt ph S D1 p)).bind (recQ ph S Q1) := by
          rw [modAt_recQ_comm ph S p Q2 D hp]
      _ = (recQ ph S Q2 D).bind (fun D1 => (modAt ph S D1 p).bind (recQ ph S Q1)) := by
          rw [Option.bind_assoc]
      _ = (recQ ph S Q2 D).bind (recQ ph S (p :: Q1)) := by
          congr 1
      _ = recQ ph S (Q2 ++ p :: Q1) D := by rw [recQ_append]

/-! ### one-level unfolding of `modAt` -/

/-- with unique names, the entry found anywhere in the list is the one `lookup` returns -/
theorem lookup_mid (pre post : Ents) (k : Name) (v : Node)
    (hw : entsWf (pre ++ (k, v) :: post) = true) : Ents.lookup k (pre ++ (k, v) :: post) = some v := by
  induction pre with
  | nil => simp [Ents.lookup]
  | cons x pre ih =>
    obtain ⟨c, w⟩ := x
    simp only [List.cons_append, entsWf, Bool.and_eq_true] at hw
    obtain ⟨⟨⟨_, hn⟩, _⟩, hw'⟩ := hw
    have hk := ih hw'
    have hc : c ≠ k := by
      intro e; subst e; rw [hk] at hn; simp at hn
    simp [Ents.lookup, hc, hk]

theorem get_child {t : Node} {r : List Name} {es : Ents} (h : t.get r = some (.dir es)) (k : Name) :
    t.get (r ++ [k]) = Ents.lookup k es := by
  rw [WrapLemmas.get_sub h [k]]
  simp only [Node.get]
  cases Ents.lookup k es <;> rfl

theorem setAt_child {D u : Node} {r : List Name} (h : D.get r = some u) (dcur : Ents) (k : Name) (m : Node) :
    setAt (setAt D r (.dir dcur)) (r ++ [k]) m = setAt D r (.dir (Ents.put k m dcur)) := by
  rw [WrapLemmas.setAt_setAt_sub h (.dir dcur) m [k]]
  simp [setAt, Node.set]

/-- the sub-directories of a suffix `es'` of the source entries, as a queue of pending directories -/
theorem recKids_recQ (ph : Phase) (S D : Node) (r : List Name) (es : Ents) (u : Node)
    (hw : entsWf es = true) (hs : S.get r = some (.dir es)) (hd : D.get r = some u) :
    ∀ (es' pre dcur : Ents), es = pre ++ es' →
      recQ ph S ((kids es').map (fun k => r ++ [k])) (setAt D r (.dir dcur)) =
        (recKids ph es' dcur).map (fun m => setAt D r (.dir m)) := by
  intro es'
  induction es' with
  | nil => intro pre dcur _; simp [kids, recQ, recKids]
  | cons x es' ih =>
    intro pre dcur he
    obtain ⟨k, v⟩ := x
    have he' : es = (pre ++ [(k, v)]) ++ es' := by simp [he]
    cases v with
    | file b =>
      simp only [kids, recKids]
      exact ih _ dcur he'
    | dir e =>
      have hlk : Ents.lookup k es = some (.dir e) := by
        rw [he]; exact lookup_mid pre es' k (.dir e) (he ▸ hw)
      have hsk : S.get (r ++ [k]) = some (.dir e) := (get_child hs k).trans hlk
      have hdk : (setAt D r (.dir dcur)).get (r ++ [k]) = Ents.lookup k dcur :=
        get_child (WrapLemmas.get_setAt_self hd (.dir dcur)) k
      simp only [kids, List.map_cons, recQ]
      rw [recKids]
      cases hl : Ents.lookup k dcur with
      | none =>
        rw [hl] at hdk
        simp [modAt_none_dst hdk]
      | some dn =>
        rw [hl] at hdk
        rw [modAt_of hsk hdk]
        dsimp only
        cases hr : recNode ph (.dir e) dn with
        | none => simp
        | some m =>
          simp only [Option.map_some, Option.bind_some]
          rw [setAt_child hd dcur k m]
          exact ih _ _ he'

theorem modAt_unfold_some (ph : Phase) (S D : Node) (r : List Name) (es ds d1 : Ents)
    (hS : S.wf = true) (hs : S.get r = some (.dir es)) (hd : D.get r = some (.dir ds))
    (hl : lvl ph es ds = some d1) :
    modAt ph S D r = recQ ph S ((kids es).map (fun k => r ++ [k])) (setAt D r (.dir d1)) := by
  have hw : entsWf es = true := by
    have := get_wf r S (.dir es) hS hs
    simpa [Node.wf] using this
  rw [recKids_recQ ph S D r es (.dir ds) hw hs hd es [] d1 (by simp), modAt_of hs hd]
  simp only [recNode, hl, Option.map_map]
  rfl

theorem modAt_unfold_none (ph : Phase) (S D : Node) (r : List Name) (es ds : Ents)
    (hs : S.get r = some (.dir es)) (hd : D.get r = some (.dir ds))
    (hl : lvl ph es ds = none) : modAt ph S D r = none := by
  rw [modAt_of hs hd]
  simp [recNode, hl]

end Fs.BaseWalkComm
