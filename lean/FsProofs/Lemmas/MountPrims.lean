/-
  The MountFS functor (FsModel/MountFs.lean) against the reference on the GLUED tree: vocabulary
  (`Kind`, `PrimRefines`, `Inv`, `glue`, fixtures) and the primitive-level refinement `prim_spec`
  used by FsProofs/MountRefines.lean.
-/
import FsModel.MountFs
import FsModel.RouteSpec
import FsProofs.Lemmas.MountTree
import FsProofs.Lemmas.RouteLemmas
import FsProofs.Lemmas.WrapLemmas
import FsProofs.C06

namespace Fs.MountLemmas
open Fs Fs.Path Fs.PathSpec Fs.PathLemmas Fs.Ref Fs.Route Fs.MountFs Fs.MountTree Fs.WrapLemmas Fs.TreeLemmas

/-! ## vocabulary -/

/-- how the states of a member filesystem type are read by the reference: the tree a user of the
member sees, the invariant under which that reading is valid, and the FIXTURES inside the member
(paths that cannot be removed through it: mount points of a member that is itself a MountFS) -/
structure Kind (σ : Type) where
  abs : σ → State
  inv : σ → Prop
  fix : σ → List (List Name)
  std : ∀ s, inv s → (abs s).closed = false ∧ (abs s).root.wf = true ∧ (abs s).root.isDir = true

/-- a plain filesystem state: itself, open, a well-formed directory tree, no fixtures -/
def plainKind : Kind State where
  abs := id
  inv := fun s => s.closed = false ∧ s.root.wf = true ∧ s.root.isDir = true
  fix := fun _ => []
  std := fun _ h => h

/-- no path argument contains NUL -/
def noNulOp (op : Op) : Prop := ∀ p ∈ op.paths, '\x00' ∉ p

/-- the member-level calls a MountFS makes (the methods it defines itself, as reference operations) -/
def isMemberOp : Op → Bool
  | .exists_ _ | .getinfo _ | .listdir _ | .isempty _ | .makedir _ _ | .openbin _ _ | .readbytes _
  | .writebytes _ _ | .appendbytes _ _ | .remove _ | .removedir _ | .settimes _ | .getsize _ | .gettype _
  | .isdir _ | .isfile _ => true
  | _ => false

/-- `remove` / `removedir` of exactly a fixture -/
def hitsFixture (fix : List (List Name)) : Op → Prop
  | .remove p | .removedir p => ∃ cs, validate p = .ok cs ∧ cs ∈ fix
  | _ => False

/-- the calls whose error CLASS a composite relies on: `getinfo` (`FS.exists` turns exactly
ResourceNotFound into `False`) and `readbytes` of the root (a directory: FileExpected — what a mount
point answers) -/
def exactOp : Op → Prop
  | .getinfo _ => True
  | .readbytes p => validate p = .ok []
  | _ => False

/-- outcome of an implementation (`o`) against the reference's (`o'`): equal when the reference
succeeds; when it fails, a failure with an admissible class — the reference's own class for `exactOp` -/
def OutRel (s : State) (op : Op) (o o' : Out) : Prop :=
  (o'.isOk = true → o = o') ∧
  (∀ e', o' = .err e' → ∃ e, o = .err e ∧ e ∈ adm s op ∧ (exactOp op → e = e'))

/-- one call of `F` refines the reference's on the abstract state -/
def Refines1 {σ : Type} (K : Kind σ) (F : FS σ) (s : σ) (op : Op) : Prop :=
  K.inv (F s op).1 ∧ K.fix (F s op).1 = K.fix s ∧ K.abs (F s op).1 = (Ref.step (K.abs s) op).1 ∧
  OutRel (K.abs s) op (F s op).2 (Ref.step (K.abs s) op).2

/-- **what a MountFS needs from a member**: every member-level call on a NUL-free path (the only paths a
MountFS hands on since /repo 48e26ed: `_delegate` refuses the others itself) that does not
remove a fixture refines the reference -/
def PrimRefines {σ : Type} (K : Kind σ) (F : FS σ) : Prop :=
  ∀ s op, K.inv s → isMemberOp op = true → noNulOp op → ¬ hitsFixture (K.fix s) op → Refines1 K F s op

/-! ## paths -/

theorem validate_mkp (a : Bool) {cs : List Name} (h : ∀ c ∈ cs, cleanName c = true) :
    validate (mkp a cs) = .ok cs := by
  unfold validate
  have hn : '\x00' ∉ mkp a cs := by
    intro hm
    have hm' : '\x00' ∈ joinWith '/' cs := by
      cases a <;> simp only [mkp, if_true, List.mem_append, List.mem_singleton] at hm
      · simpa using hm
      · rcases hm with hm | hm
        · cases hm
        · exact hm
    rcases mem_joinWith _ _ hm' with h' | ⟨c, hc, hx⟩
    · cases h'
    · exact noNul_of_cleanName h c hc hx
  have : (mkp a cs).contains '\x00' = false := by simpa using hn
  rw [this]
  simp only [Bool.false_eq_true, if_false]
  exact ConfineLemmas.iteratepath_mkp a (clean_of_cleanName h)

theorem noNul_mkp (a : Bool) {cs : List Name} (h : ∀ c ∈ cs, cleanName c = true) : '\x00' ∉ mkp a cs :=
  not_nul_of_validate_ok (validate_mkp a h)

/-- a path that validates normalises to the spelling of its components -/
theorem normpath_of_validate {p : Str} {cs : List Name} (h : validate p = .ok cs) :
    normpath p = .ok (mkp (startsWithSlash p) cs) :=
  ConfineLemmas.normpath_of_resolve p cs (validate_ok_resolve h)

/-- a NUL-free path that does not validate does not normalise either (`_delegate` raises) -/
theorem normpath_of_validate_err {p : Str} {e : Err} (hn : '\x00' ∉ p) (h : validate p = .err e) :
    e = .IllegalBackReference ∧ normpath p = .err .IllegalBackReference := by
  obtain ⟨h1, h2⟩ := validate_err_noNul hn h
  exact ⟨h1, ConfineLemmas.normpath_err_of_resolve p h2⟩

/-! ## the state of a MountFS against its glued tree -/

section Mount
variable {σ : Type}

/-- the key `mount()` stores for a mount point given by its components -/
def keyOf (mp : List Name) : Str := Mount.mountKey (RouteSpec.absOf mp)

/-- the member trees with their mount paths, in table order -/
def grafts (K : Kind σ) (mps : List (List Name)) (l : List (Str × σ)) : List (List Name × Node) :=
  mps.zip (l.map fun e => (K.abs e.2).root)

/-- **the tree the user of the MountFS sees**: the default tree with each member's tree grafted at
its mount path (over the placeholder directory `mount()` created there) -/
def glue (K : Kind σ) (mps : List (List Name)) (ms : MState σ) : State :=
  ⟨glueN ms.dflt.root (grafts K mps ms.mounts), ms.closed⟩

/-- the fixtures of the composition: its own mount points (the root is no fixture: it cannot be
removed anyway) and the members' fixtures below theirs -/
def fixOf (K : Kind σ) (mps : List (List Name)) (ms : MState σ) : List (List Name) :=
  mps.filter (· ≠ []) ++ (mps.zip ms.mounts).flatMap fun x => (K.fix x.2.2).map (x.1 ++ ·)

/-- the states the refinement talks about: an open MountFS whose table holds exactly the clean,
pairwise non-nested mount points `mps` (in order), over an open well-formed default tree that has a
placeholder directory at every mount point, every member within its own invariant -/
structure Inv (K : Kind σ) (mps : List (List Name)) (ms : MState σ) : Prop where
  opn : ms.closed = false
  dstd : ms.dflt.closed = false ∧ ms.dflt.root.wf = true ∧ ms.dflt.root.isDir = true
  keys : ms.mounts.map (·.1) = mps.map keyOf
  clean : ∀ mp ∈ mps, ∀ c ∈ mp, cleanName c = true
  disj : Disjoint mps
  minv : ∀ e ∈ ms.mounts, K.inv e.2
  ph : ∀ mp ∈ mps, ∃ es, ms.dflt.root.get mp = some (.dir es)

/-! ### routing (relating `MountFs.delegate` to C17's `routeSpec`) -/

def idxFrom : Nat → List (List Name) → List (List Name × Nat)
  | _, [] => []
  | k, mp :: r => (mp, k) :: idxFrom (k + 1) r

theorem table_eq (l : List (Str × σ)) : ∀ (mps : List (List Name)) (k : Nat),
    l.map (·.1) = mps.map keyOf → tableFrom k l = RouteSpec.tableOf (idxFrom k mps) := by
  induction l with
  | nil =>
    intro mps k h
    cases mps with
    | nil => rfl
    | cons _ _ => simp at h
  | cons e l ih =>
    intro mps k h
    cases mps with
    | nil => simp at h
    | cons mp r =>
      obtain ⟨key, s⟩ := e
      simp only [List.map_cons, List.cons.injEq] at h
      obtain ⟨h1, h2⟩ := h
      simp only [tableFrom, idxFrom, RouteSpec.tableOf, List.map_cons]
      rw [← RouteSpec.tableOf, ← ih r (k + 1) h2]
      rw [h1, keyOf]

theorem idxFrom_clean (mps : List (List Name)) (k : Nat) (h : ∀ mp ∈ mps, Clean mp) :
    ∀ e ∈ idxFrom k mps, Clean e.1 := by
  induction mps generalizing k with
  | nil => intro e he; simp [idxFrom] at he
  | cons mp r ih =>
    intro e he
    simp only [idxFrom, List.mem_cons] at he
    rcases he with rfl | he
    · exact h mp (by simp)
    · exact ih (k + 1) (fun m hm => h m (by simp [hm])) e he

theorem routeSpec_idx_none (mps : List (List Name)) (k : Nat) (cs : List Name) :
    RouteSpec.routeSpec (idxFrom k mps) cs = none ↔ ∀ mp ∈ mps, ¬ mp <+: cs := by
  induction mps generalizing k with
  | nil => simp [idxFrom, RouteSpec.routeSpec]
  | cons mp r ih =>
    simp only [idxFrom, RouteSpec.routeSpec]
    by_cases hp : mp.isPrefixOf cs = true
    · have hp' := List.isPrefixOf_iff_prefix.1 hp
      simp only [hp, if_true, reduceCtorEq, false_iff]
      intro h; exact h mp (by simp) hp'
    · have hp' : ¬ mp <+: cs := fun h => hp (List.isPrefixOf_iff_prefix.2 h)
      simp only [hp, Bool.false_eq_true, if_false, ih, List.mem_cons, forall_eq_or_imp, hp', not_false_eq_true,
        true_and]

theorem routeSpec_idx_some (mps : List (List Name)) (k : Nat) (cs : List Name) (j : Nat) (rest : List Name)
    (h : RouteSpec.routeSpec (idxFrom k mps) cs = some (j, rest)) :
    ∃ pre mp post, mps = pre ++ mp :: post ∧ j = k + pre.length ∧ cs = mp ++ rest ∧ ∀ q ∈ pre, ¬ q <+: cs := by
  induction mps generalizing k with
  | nil => simp [idxFrom, RouteSpec.routeSpec] at h
  | cons mp r ih =>
    simp only [idxFrom, RouteSpec.routeSpec] at h
    by_cases hp : mp.isPrefixOf cs = true
    · simp only [hp, if_true, Option.some.injEq, Prod.mk.injEq] at h
      obtain ⟨rfl, rfl⟩ := h
      obtain ⟨t, rfl⟩ := List.isPrefixOf_iff_prefix.1 hp
      exact ⟨[], mp, r, rfl, by simp, by simp, by simp⟩
    · simp only [hp, Bool.false_eq_true, if_false] at h
      have hp' : ¬ mp <+: cs := fun h => hp (List.isPrefixOf_iff_prefix.2 h)
      obtain ⟨pre, m, post, h1, h2, h3, h4⟩ := ih (k + 1) h
      refine ⟨mp :: pre, m, post, by rw [h1]; rfl, by simp [h2]; omega, h3, ?_⟩
      intro q hq
      rcases List.mem_cons.1 hq with rfl | hq
      · exact hp'
      · exact h4 q hq

/-- **`_delegate` on a state of the invariant**, for a path that validates to `cs`: the first mount
point that is a component prefix of `cs` (member index = position + 1, remainder joined), else
`default_fs` with the raw path -/
theorem delegate_spec {K : Kind σ} {mps : List (List Name)} {ms : MState σ} (hinv : Inv K mps ms)
    {p : Str} {cs : List Name} (hv : validate p = .ok cs) :
    delegate ms p =
      match RouteSpec.routeSpec (idxFrom 1 mps) cs with
      | some (i, rest) => .ok (i, joinSlash rest)
      | none => .ok (0, p) := by
  have hc : Clean cs := clean_of_cleanName (validate_clean p cs hv)
  have hcl : ∀ e ∈ idxFrom 1 mps, Clean e.1 :=
    idxFrom_clean mps 1 (fun mp hmp => clean_of_cleanName (hinv.clean mp hmp))
  rw [delegate, table, table_eq ms.mounts mps 1 hinv.keys]
  exact RouteLemmas.delegate_tableOf (idxFrom 1 mps) hcl p _ cs hc (not_nul_of_validate_ok hv) (normpath_of_validate hv)

/-- **`_delegate` refuses exactly the paths the reference's `validate` refuses, with the same class** (since
/repo 48e26ed: invalid characters on the RAW path first, then `normpath`) -/
theorem delegate_err {ms : MState σ} {p : Str} {e : Err} (h : validate p = .err e) : delegate ms p = .err e := by
  by_cases hn : '\x00' ∈ p
  · have : e = .InvalidCharsInPath := by
      simp only [validate] at h
      have hc : p.contains '\x00' = true := by simpa using hn
      simp only [hc, if_true, Res.err.injEq] at h
      exact h.symm
    subst this
    exact RouteLemmas.delegate_nul hn
  · obtain ⟨he, hnorm⟩ := normpath_of_validate_err hn h
    subst he
    rw [delegate, RouteLemmas.delegate_noNul hn, hnorm]

/-! ### calling one member -/

theorem callAt_mid (F : FS σ) (A B : List (Str × σ)) (k : Str) (s : σ) (op : Op) :
    callAt F (A ++ (k, s) :: B) A.length op = (A ++ (k, (F s op).1) :: B, (F s op).2) := by
  induction A with
  | nil => rfl
  | cons a A ih => simp only [List.cons_append, List.length_cons, callAt, ih]

/-- the member states split where the mount points do -/
theorem mounts_split {l : List (Str × σ)} {pre post : List (List Name)} {mp : List Name}
    (h : l.map (·.1) = (pre ++ mp :: post).map keyOf) :
    ∃ A s B, l = A ++ (keyOf mp, s) :: B ∧ A.length = pre.length ∧ A.map (·.1) = pre.map keyOf ∧
      B.map (·.1) = post.map keyOf := by
  induction pre generalizing l with
  | nil =>
    cases l with
    | nil => simp at h
    | cons e B =>
      obtain ⟨k, s⟩ := e
      simp only [List.nil_append, List.map_cons, List.cons.injEq] at h
      obtain ⟨h1, h2⟩ := h
      subst h1
      exact ⟨[], s, B, rfl, rfl, rfl, h2⟩
  | cons q pre ih =>
    cases l with
    | nil => simp at h
    | cons e l =>
      simp only [List.cons_append, List.map_cons, List.cons.injEq] at h
      obtain ⟨h1, h2⟩ := h
      obtain ⟨A, s, B, rfl, hl, hA, hB⟩ := ih h2
      exact ⟨e :: A, s, B, rfl, by simp [hl], by simp [h1, hA], hB⟩

theorem grafts_split (K : Kind σ) (pre post : List (List Name)) (mp : List Name) (A B : List (Str × σ)) (k : Str)
    (s : σ) (hl : A.length = pre.length) :
    grafts K (pre ++ mp :: post) (A ++ (k, s) :: B) =
      grafts K pre A ++ (mp, (K.abs s).root) :: grafts K post B := by
  simp only [grafts, List.map_append, List.map_cons]
  rw [List.zip_append (by simp [hl])]
  rfl

end Mount

/-! ## reference steps on a glued tree -/

theorem memberOp_ne_close {op : Op} (h : isMemberOp op = true) : op ≠ .close := by
  intro e; subst e; simp [isMemberOp] at h

theorem memberOp_frame {op : Op} (h : isMemberOp op = true) : frameOp op = true := by
  cases op <;> simp_all [isMemberOp, frameOp]

theorem memberOp_paths {op : Op} (h : isMemberOp op = true) : ∃ p, op.paths = [p] := by
  cases op <;> simp_all [isMemberOp, Op.paths]

/-- a one-path step on an open state, by the validated components -/
theorem step_of_validate {s : State} {op : Op} {p : Str} {cs : List Name} (hc : s.closed = false)
    (hp : op.paths = [p]) (hv : validate p = .ok cs) :
    Ref.step s op =
      (match op with
       | .openbin _ m => if (parseBinMode m).isNone then fail s .ValueError else step1 s cs op
       | _ => step1 s cs op) := by
  by_cases ho : ∃ q m, op = .openbin q m
  · obtain ⟨q, m, rfl⟩ := ho
    simp only [Op.paths, List.cons.injEq, and_true] at hp
    subst hp
    rw [QueryLemmas.step_openbin s q m hc, hv]
  · have hno : ∀ q m, op ≠ .openbin q m := fun q m e => ho ⟨q, m, e⟩
    rw [QueryLemmas.step_one s op p hc hp hno, hv]
    cases op <;> first | rfl | exact absurd rfl (hno _ _)

theorem adm_of_validate {s : State} {op : Op} {p : Str} {cs : List Name} (hc : s.closed = false)
    (hp : op.paths = [p]) (hv : validate p = .ok cs) : adm s op = adm1 s.root cs op := by
  by_cases ho : ∃ q m, op = .openbin q m
  · obtain ⟨q, m, rfl⟩ := ho
    simp only [Op.paths, List.cons.injEq, and_true] at hp
    subst hp
    rw [QueryLemmas.adm_openbin s q m hc, hv]
  · have hno : ∀ q m, op ≠ .openbin q m := fun q m e => ho ⟨q, m, e⟩
    rw [QueryLemmas.adm_one s op p hc hp hno, hv]

/-- the same call with another spelling of the same components -/
theorem step_respell {s : State} {op : Op} {p q : Str} {cs : List Name} (hc : s.closed = false)
    (hp : op.paths = [p]) (hv : validate p = .ok cs) (hq : validate q = .ok cs) :
    Ref.step s (mapPaths (fun _ => q) op) = Ref.step s op := by
  have hp' : (mapPaths (fun _ => q) op).paths = [q] := by rw [paths_mapPaths, hp]; rfl
  rw [step_of_validate hc hp hv, step_of_validate hc hp' hq]
  cases op <;> simp only [mapPaths, step1]

theorem adm_respell {s : State} {op : Op} {p q : Str} {cs : List Name} (hc : s.closed = false)
    (hp : op.paths = [p]) (hv : validate p = .ok cs) (hq : validate q = .ok cs) :
    adm s (mapPaths (fun _ => q) op) = adm s op := by
  have hp' : (mapPaths (fun _ => q) op).paths = [q] := by rw [paths_mapPaths, hp]; rfl
  rw [adm_of_validate hc hp hv, adm_of_validate hc hp' hq, adm1_mapPaths]

theorem step1_closed (s : State) (cs : List Name) (op : Op) : (step1 s cs op).1.closed = s.closed := by
  rcases QueryLemmas.step1_shape s cs op with ⟨o, h⟩ | ⟨t, v, h⟩ <;> rw [h] <;> rfl

/-- **a call below a mount point**: the reference step on the glued tree `G` at `mp ++ rest` is the
reference step on the member's tree at `rest`, grafted back at `mp` (error class included); at the
mount point itself (`rest = []`) for every call but `getinfo` (name) and `removedir` -/
theorem step_at_mount {G : State} {mp rest : List Name} {es : Ents} {op : Op} {p r : Str}
    (hc : G.closed = false) (hg : G.root.get mp = some (.dir es)) (hp : op.paths = [p])
    (hv : validate p = .ok (mp ++ rest)) (hr : validate r = .ok rest)
    (hsp : mp = [] ∨ rest ≠ [] ∨ rootSpecial op = false) :
    Ref.step G op = graft G mp (Ref.step ⟨.dir es, false⟩ (mapPaths (fun _ => r) op)) := by
  have hp' : (mapPaths (fun _ => r) op).paths = [r] := by rw [paths_mapPaths, hp]; rfl
  have hview : viewOf G (.dir es) = ⟨.dir es, false⟩ := by simp [viewOf, hc]
  have key : step1 G (mp ++ rest) op = graft G mp (step1 ⟨.dir es, false⟩ rest op) := by
    by_cases hmp : mp = []
    · subst hmp
      obtain ⟨root, cl⟩ := G
      simp only [Node.get, Option.some.injEq] at hg
      simp only at hc
      subst hg; subst hc
      simp only [List.nil_append]
      refine (graft_nil _ _ ?_).symm
      exact step1_closed _ _ _
    · rw [← hview]
      refine step1_graft G mp rest es op hg ?_
      rcases hsp with h | h | h
      · exact absurd h hmp
      · exact Or.inl h
      · exact Or.inr h
  rw [step_of_validate hc hp hv, step_of_validate (s := ⟨.dir es, false⟩) rfl hp' hr]
  cases op <;> simp only [mapPaths] <;> try exact key
  · -- openbin
    rename_i q m
    by_cases hmode : (parseBinMode m).isNone = true
    · simp only [hmode, if_true]
      rw [← hview]; exact (graft_fail hg _).symm
    · simp only [hmode, Bool.false_eq_true, if_false]
      have := key
      simpa [step1] using this

/-- every class admissible for the member at `rest` is admissible for the glued tree at `mp ++ rest`
(at the mount point itself: except for the calls that treat the ROOT of a filesystem specially) -/
theorem adm1_at_mount {T : Node} {mp rest : List Name} {es : Ents} {op : Op}
    (hg : T.get mp = some (.dir es)) (hm : isMemberOp op = true)
    (hx : rest = [] → mp ≠ [] → (∀ q, op ≠ .readbytes q) ∧ (∀ q, op ≠ .remove q) ∧ (∀ q, op ≠ .removedir q) ∧
      (∀ q m, op = .openbin q m → (parseBinMode m).isSome = true)) :
    ∀ e ∈ adm1 (.dir es) rest op, e ∈ adm1 T (mp ++ rest) op := by
  by_cases hsub : mp = []
  · subst hsub
    simp only [Node.get, Option.some.injEq] at hg
    subst hg
    intro e he; simpa using he
  have hk : ∀ r, kindAt T (mp ++ r) = kindAt (.dir es) r := fun r => kindAt_sub hg r
  have hbl : ∀ r, blockedByFile T [] (mp ++ r) = blockedByFile (.dir es) [] r :=
    fun r => blocked_sub [] mp (by simpa using hg) r
  have hgg : ∀ r, T.get (mp ++ r) = (Node.dir es).get r := fun r => get_sub hg r
  by_cases hcs : rest = []
  · subst hcs
    obtain ⟨h1, h2, h3, h4⟩ := hx rfl hsub
    obtain ⟨ps, hps⟩ := get_parent_dir hsub hg
    have hkp : kindAt T (parentOf mp) = some true := by simp [kindAt, parentOf, hps]
    have hk0 : kindAt T mp = some true := by simp [kindAt, hg]
    have hk0' : kindAt (.dir es) [] = some true := by simp [kindAt, Node.get]
    have hb0 : blockedByFile T [] mp = false := by
      have := hbl []; simpa [blockedByFile] using this
    intro e
    cases op <;> simp only [isMemberOp, Bool.false_eq_true] at hm
    all_goals first
      | exact absurd rfl (h1 _)
      | exact absurd rfl (h2 _)
      | exact absurd rfl (h3 _)
      | skip
    all_goals simp [adm1, admDirArg, admFileArg, admFileTarget, List.append_nil, hsub, hkp, hk0, hk0', hb0,
      blockedByFile]
    all_goals try (intro h1; simp_all)
    all_goals try (split <;> simp_all)
    all_goals try (have := h4 _ _ rfl; simp_all)
  · have hp := parentOf_append mp rest hcs
    intro e he
    have : adm1 T (mp ++ rest) op = adm1 (.dir es) rest op := by
      cases op <;> simp [adm1, admDirArg, admFileArg, admFileTarget, hk, hbl, hp, hgg, hcs, hsub]
    rw [this]; exact he

/-! ### calls routed to the default tree -/

/-- how a path that is not at/below any mount path reads in the glued tree: as in the default tree,
or (an ancestor of a mount point) as a non-empty directory in both -/
theorem glueN_rel (d : Node) (l : List (List Name × Node)) (q : List Name)
    (hdis : Disjoint (l.map (·.1))) (hph : ∀ e ∈ l, (d.get e.1).isSome = true) (hn : ∀ e ∈ l, ¬ e.1 <+: q) :
    (glueN d l).get q = d.get q ∨
    ∃ es es', d.get q = some (.dir es) ∧ (glueN d l).get q = some (.dir es') ∧ es ≠ [] ∧ es' ≠ [] := by
  induction l with
  | nil => left; rfl
  | cons e r ih =>
    have hd : Disjoint (r.map (·.1)) := by
      simp only [Disjoint, List.map_cons] at hdis
      exact (List.pairwise_cons.1 hdis).2
    have hdiv : ∀ e' ∈ r, Diverge e'.1 e.1 := by
      intro e' he'
      simp only [Disjoint, List.map_cons] at hdis
      exact ((List.pairwise_cons.1 hdis).1 e'.1 (List.mem_map_of_mem (f := (·.1)) he')).symm
    have hne : e.1 ≠ [] := by intro h0; exact hn e (by simp) (by rw [h0]; exact List.nil_prefix)
    have hT : ((glueN d r).get e.1).isSome = true := by
      rw [glueN_get_diverge d r e.1 hdiv]; exact hph e (by simp)
    have ih' := ih hd (fun e' h' => hph e' (by simp [h'])) (fun e' h' => hn e' (by simp [h']))
    simp only [glueN]
    rw [setAt_eq_set hne]
    rcases get_rel e.1 q (glueN d r) e.2 hT (hn e (by simp)) with h | ⟨es, es', h1, h2, _, h4, h5⟩
    · rw [h]; exact ih'
    · rcases ih' with h' | ⟨fs, fs', g1, g2, g3, _⟩
      · right; exact ⟨es, es', by rw [← h', h1], h2, h4, h5⟩
      · right
        rw [g2] at h1
        cases h1
        exact ⟨fs, es', g1, h2, g3, h5⟩

theorem kindAt_glueN (d : Node) (l : List (List Name × Node)) (q : List Name)
    (hdis : Disjoint (l.map (·.1))) (hph : ∀ e ∈ l, (d.get e.1).isSome = true) (hn : ∀ e ∈ l, ¬ e.1 <+: q) :
    kindAt (glueN d l) q = kindAt d q := by
  rcases glueN_rel d l q hdis hph hn with h | ⟨es, es', h1, h2, _, _⟩
  · simp only [kindAt, h]
  · simp only [kindAt, h1, h2]

theorem blocked_glueN (d : Node) (l : List (List Name × Node)) (hdis : Disjoint (l.map (·.1)))
    (hph : ∀ e ∈ l, (d.get e.1).isSome = true) :
    ∀ (cs pre : List Name), (∀ e ∈ l, ¬ e.1 <+: pre ++ cs) →
      blockedByFile (glueN d l) pre cs = blockedByFile d pre cs := by
  intro cs
  induction cs with
  | nil => intro pre _; rfl
  | cons c cs ih =>
    intro pre hn
    have hpre : ∀ e ∈ l, ¬ e.1 <+: pre := fun e he h => hn e he (h.trans (List.prefix_append _ _))
    have hk := kindAt_glueN d l pre hdis hph hpre
    have hrec := ih (pre ++ [c]) (by simpa using hn)
    simp only [blockedByFile, hrec]
    simp only [kindAt] at hk
    cases h1 : (glueN d l).get pre with
    | none => rw [h1] at hk; cases h2 : d.get pre with
      | none => rfl
      | some n => rw [h2] at hk; cases n <;> simp at hk
    | some n =>
      rw [h1] at hk
      cases h2 : d.get pre with
      | none => rw [h2] at hk; cases n <;> simp at hk
      | some n' => rw [h2] at hk; cases n <;> cases n' <;> simp_all

theorem adm1_glueN (d : Node) (l : List (List Name × Node)) (cs : List Name) (op : Op)
    (hdis : Disjoint (l.map (·.1))) (hph : ∀ e ∈ l, (d.get e.1).isSome = true) (hn : ∀ e ∈ l, ¬ e.1 <+: cs)
    (hm : isMemberOp op = true) : adm1 (glueN d l) cs op = adm1 d cs op := by
  have hk := kindAt_glueN d l cs hdis hph hn
  have hkp := kindAt_glueN d l (parentOf cs) hdis hph (fun e he => not_below_parent (hn e he))
  have hb := blocked_glueN d l hdis hph cs [] (by simpa using hn)
  cases op <;> simp only [isMemberOp, Bool.false_eq_true] at hm
  all_goals simp only [adm1, admDirArg, admFileArg, admFileTarget, hk, hkp, hb]
  -- removedir also looks at the entries
  rcases glueN_rel d l cs hdis hph hn with h | ⟨es, es', h1, h2, h3, h4⟩
  · rw [h]
  · rw [h1, h2]
    cases es <;> cases es' <;> simp_all

/-- **a call routed to the default tree** (its path is not at/below any mount path): the reference
step on the glued tree is the reference step on the default tree, re-glued; same outcome, same
admissible classes; the placeholders survive -/
theorem step_default {d : Node} {l : List (List Name × Node)} {cs : List Name} {op : Op} {p : Str}
    (hdis : Disjoint (l.map (·.1))) (hph : ∀ e ∈ l, (d.get e.1).isSome = true) (hn : ∀ e ∈ l, ¬ e.1 <+: cs)
    (hm : isMemberOp op = true) (hp : op.paths = [p]) (hv : validate p = .ok cs) :
    Ref.step ⟨glueN d l, false⟩ op =
      (⟨glueN (Ref.step ⟨d, false⟩ op).1.root l, false⟩, (Ref.step ⟨d, false⟩ op).2) ∧
    (∀ e ∈ l, (Ref.step ⟨d, false⟩ op).1.root.get e.1 = d.get e.1) ∧
    adm ⟨glueN d l, false⟩ op = adm ⟨d, false⟩ op := by
  obtain ⟨f1, f2, f3⟩ := step1_glueN d false l cs op hdis hph hn (memberOp_frame hm)
  refine ⟨?_, ?_, ?_⟩
  · rw [step_of_validate (s := ⟨glueN d l, false⟩) rfl hp hv, step_of_validate (s := ⟨d, false⟩) rfl hp hv]
    cases op <;> simp only [] <;> try exact f1
    rename_i q m
    by_cases hmode : (parseBinMode m).isNone = true
    · simp [hmode, fail]
    · simp only [hmode, Bool.false_eq_true, if_false]; exact f1
  · rw [step_of_validate (s := ⟨d, false⟩) rfl hp hv]
    cases op <;> simp only [] <;> try exact f2
    rename_i q m
    by_cases hmode : (parseBinMode m).isNone = true
    · simp [hmode, fail]
    · simp only [hmode, Bool.false_eq_true, if_false]; exact f2
  · rw [adm_of_validate (s := ⟨glueN d l, false⟩) rfl hp hv, adm_of_validate (s := ⟨d, false⟩) rfl hp hv]
    exact adm1_glueN d l cs op hdis hph hn hm


/-! ## calls of a MountFS against the reference on the glued tree -/

section Calls
variable {σ : Type}

theorem grafts_fst (K : Kind σ) (mps : List (List Name)) (l : List (Str × σ)) (h : mps.length = l.length) :
    (grafts K mps l).map (·.1) = mps := by
  simp only [grafts]
  exact List.map_fst_zip (by simp [h])

theorem keys_length {mps : List (List Name)} {l : List (Str × σ)} (h : l.map (·.1) = mps.map keyOf) :
    mps.length = l.length := by
  have := congrArg List.length h
  simpa using this.symm

theorem grafts_ph {K : Kind σ} {mps : List (List Name)} {ms : MState σ} (hinv : Inv K mps ms) :
    ∀ e ∈ grafts K mps ms.mounts, (ms.dflt.root.get e.1).isSome = true := by
  intro e he
  have : e.1 ∈ mps := by
    have := List.mem_map_of_mem (f := (·.1)) he
    rw [grafts_fst K mps ms.mounts (keys_length hinv.keys)] at this
    exact this
  obtain ⟨es, h⟩ := hinv.ph e.1 this
  simp [h]

theorem grafts_disj {K : Kind σ} {mps : List (List Name)} {ms : MState σ} (hinv : Inv K mps ms) :
    Disjoint ((grafts K mps ms.mounts).map (·.1)) := by
  rw [grafts_fst K mps ms.mounts (keys_length hinv.keys)]; exact hinv.disj

/-- the decomposition of a state of the invariant at one of its mount points -/
structure At (K : Kind σ) (pre : List (List Name)) (mp : List Name) (post : List (List Name)) (ms : MState σ)
    (A : List (Str × σ)) (s : σ) (B : List (Str × σ)) : Prop where
  eq : ms.mounts = A ++ (keyOf mp, s) :: B
  lenA : A.length = pre.length
  lenB : B.length = post.length
  sinv : K.inv s

theorem at_of_inv {K : Kind σ} {pre post : List (List Name)} {mp : List Name} {ms : MState σ}
    (hinv : Inv K (pre ++ mp :: post) ms) : ∃ A s B, At K pre mp post ms A s B := by
  obtain ⟨A, s, B, h1, h2, _, h4⟩ := mounts_split hinv.keys
  refine ⟨A, s, B, h1, h2, ?_, hinv.minv (keyOf mp, s) (by rw [h1]; simp)⟩
  have := congrArg List.length h4
  simpa using this

theorem glue_get_mount {K : Kind σ} {pre post : List (List Name)} {mp : List Name} {ms : MState σ}
    {A B : List (Str × σ)} {s : σ} (hinv : Inv K (pre ++ mp :: post) ms) (hat : At K pre mp post ms A s B) :
    (glue K (pre ++ mp :: post) ms).root.get mp = some (K.abs s).root := by
  have hd := grafts_disj hinv
  have hph := hinv.ph mp (by simp)
  simp only [glue]
  rw [hat.eq, grafts_split K pre post mp A B _ s hat.lenA] at hd ⊢
  obtain ⟨es, hes⟩ := hph
  exact glueN_get_mount _ _ _ mp _ hd (by simp [hes])

theorem call_member_eq (D : FS State) (F : FS σ) {K : Kind σ} {pre post : List (List Name)} {mp : List Name}
    {ms : MState σ} {A B : List (Str × σ)} {s : σ} (hat : At K pre mp post ms A s B) (op : Op) :
    call D F ms (pre.length + 1) op =
      ({ ms with mounts := A ++ (keyOf mp, (F s op).1) :: B }, (F s op).2) := by
  simp only [call]
  rw [hat.eq, ← hat.lenA, callAt_mid]

/-- the state after a member made a refining step: invariant, fixtures, and the glued tree with the
member's new tree grafted at its mount path -/
theorem member_step_state {K : Kind σ} {pre post : List (List Name)} {mp : List Name} {ms : MState σ}
    {A B : List (Str × σ)} {s s' : σ} (hinv : Inv K (pre ++ mp :: post) ms) (hat : At K pre mp post ms A s B)
    (hs' : K.inv s') (hfix : K.fix s' = K.fix s) :
    let ms' : MState σ := { ms with mounts := A ++ (keyOf mp, s') :: B }
    Inv K (pre ++ mp :: post) ms' ∧ fixOf K (pre ++ mp :: post) ms' = fixOf K (pre ++ mp :: post) ms ∧
    glue K (pre ++ mp :: post) ms' =
      ⟨setAt (glue K (pre ++ mp :: post) ms).root mp (K.abs s').root, false⟩ := by
  intro ms'
  refine ⟨?_, ?_, ?_⟩
  · refine ⟨hinv.opn, hinv.dstd, ?_, hinv.clean, hinv.disj, ?_, hinv.ph⟩
    · have := hinv.keys
      rw [hat.eq] at this
      simpa [ms'] using this
    · intro e he
      simp only [ms', List.mem_append, List.mem_cons] at he
      rcases he with he | rfl | he
      · exact hinv.minv e (by rw [hat.eq]; simp [he])
      · exact hs'
      · exact hinv.minv e (by rw [hat.eq]; simp [he])
  · simp only [fixOf, ms']
    rw [hat.eq, List.zip_append (by simp [hat.lenA]), List.zip_append (by simp [hat.lenA])]
    simp only [List.zip_cons_cons, List.flatMap_append, List.flatMap_cons, hfix]
  · have hd := grafts_disj hinv
    obtain ⟨es, hes⟩ := hinv.ph mp (by simp)
    simp only [glue, ms']
    rw [hat.eq] at hd ⊢
    rw [grafts_split K pre post mp A B _ s hat.lenA] at hd ⊢
    rw [grafts_split K pre post mp A B _ s' hat.lenA]
    rw [glueN_update _ _ _ mp (K.abs s).root (K.abs s').root hd (by simp [hes]), hinv.opn]

theorem default_step_state {K : Kind σ} {mps : List (List Name)} {ms : MState σ} (hinv : Inv K mps ms) {d' : State}
    (hd' : d'.closed = false ∧ d'.root.wf = true ∧ d'.root.isDir = true)
    (hph : ∀ mp ∈ mps, d'.root.get mp = ms.dflt.root.get mp) :
    let ms' : MState σ := { ms with dflt := d' }
    Inv K mps ms' ∧ fixOf K mps ms' = fixOf K mps ms ∧
    glue K mps ms' = ⟨glueN d'.root (grafts K mps ms.mounts), false⟩ := by
  intro ms'
  refine ⟨⟨hinv.opn, hd', hinv.keys, hinv.clean, hinv.disj, hinv.minv, ?_⟩, rfl, ?_⟩
  · intro mp hmp
    obtain ⟨es, hes⟩ := hinv.ph mp hmp
    exact ⟨es, by simp only [ms']; rw [hph mp hmp, hes]⟩
  · simp only [glue, ms', hinv.opn]

theorem mapPaths_self {op : Op} {p : Str} (hp : op.paths = [p]) : mapPaths (fun _ => p) op = op := by
  cases op <;> simp_all [Op.paths, mapPaths]

theorem isMemberOp_mapPaths (f : Str → Str) (op : Op) : isMemberOp (mapPaths f op) = isMemberOp op := by
  cases op <;> rfl

theorem step_of_validate_err {s : State} {op : Op} {p : Str} {e : Err} (hc : s.closed = false)
    (hp : op.paths = [p]) (hv : validate p = .err e)
    (hmode : ∀ q m, op = .openbin q m → (parseBinMode m).isSome = true) :
    Ref.step s op = fail s e ∧ adm s op = [e] := by
  by_cases ho : ∃ q m, op = .openbin q m
  · obtain ⟨q, m, rfl⟩ := ho
    simp only [Op.paths, List.cons.injEq, and_true] at hp
    subst hp
    have hm := hmode q m rfl
    have hm' : (parseBinMode m).isNone = false := by
      cases h : parseBinMode m <;> simp_all
    rw [QueryLemmas.step_openbin s q m hc, QueryLemmas.adm_openbin s q m hc, hv]
    simp [hm']
  · have hno : ∀ q m, op ≠ .openbin q m := fun q m e => ho ⟨q, m, e⟩
    rw [QueryLemmas.step_one s op p hc hp hno, QueryLemmas.adm_one s op p hc hp hno, hv]
    exact ⟨rfl, rfl⟩

/-- a failing one-path reference step on an open directory tree reports an admissible class -/
theorem step_err_adm {s : State} {op : Op} {p : Str} {e : Err} (hc : s.closed = false) (hd : s.root.isDir = true)
    (hp : op.paths = [p]) (h : (Ref.step s op).2 = .err e) : e ∈ adm s op := by
  have hop : op ≠ .close := by intro e; subst e; simp [Op.paths] at hp
  rcases C06.ref_error_truthful s op e hd h with h' | h'
  · exact h'
  · subst h'
    exfalso
    cases hv : validate p with
    | err e' =>
      by_cases ho : ∃ q m, op = .openbin q m
      · obtain ⟨q, m, rfl⟩ := ho
        simp only [Op.paths, List.cons.injEq, and_true] at hp
        subst hp
        rw [QueryLemmas.step_openbin s q m hc, hv] at h
        split at h
        · simp [fail] at h
        · simp only [fail, Res.err.injEq] at h
          subst h
          rcases QueryLemmas.validate_err_cases _ _ hv with h' | h' <;> cases h'
      · have hno : ∀ q m, op ≠ .openbin q m := fun q m e => ho ⟨q, m, e⟩
        rw [QueryLemmas.step_one s op p hc hp hno, hv] at h
        simp only [fail, Res.err.injEq] at h
        subst h
        rcases QueryLemmas.validate_err_cases _ _ hv with h' | h' <;> cases h'
    | ok cs =>
      rw [step_of_validate hc hp hv] at h
      have key : ∀ o, (step1 s cs o).2 ≠ .err .OperationFailed := by
        intro o ho
        have := QueryLemmas.step1_truthful s cs o _ hd ho
        cases o <;> simp [adm1, admDirArg, admFileArg, admFileTarget] at this
        all_goals try (split at this <;> simp_all)
      cases op <;> simp only [] at h <;> try exact key _ h
      split at h
      · simp [fail] at h
      · exact key _ h

theorem root_dir_of_std {K : Kind σ} {s : σ} (h : K.inv s) : ∃ es, K.abs s = ⟨.dir es, false⟩ := by
  obtain ⟨h1, _, h3⟩ := K.std s h
  generalize K.abs s = st at h1 h3
  obtain ⟨root, cl⟩ := st
  simp only at h1 h3
  subst h1
  cases root with
  | file b => simp [Node.isDir] at h3
  | dir es => exact ⟨es, rfl⟩

theorem glue_std {K : Kind σ} {mps : List (List Name)} {ms : MState σ} (hinv : Inv K mps ms) :
    (glue K mps ms).closed = false := hinv.opn

/-- **the common body `fs, _path = self._delegate(path); return fs.<method>(_path, …)` refines the
reference on the glued tree** — for every member-level call, on any path string, that is not the removal
of a fixture (and, for `getinfo`, does not name a mount point: that case has the name fix-up) -/
theorem routed_spec (D : FS State) (F : FS σ) {K : Kind σ} {mps : List (List Name)} {ms : MState σ}
    (hD : PrimRefines plainKind D) (hF : PrimRefines K F) (hinv : Inv K mps ms)
    (op : Op) (p : Str) (hp : op.paths = [p]) (hm : isMemberOp op = true)
    (hfix : ¬ hitsFixture (fixOf K mps ms) op)
    (hgi : ∀ q, op = .getinfo q → ∀ mp ∈ mps, mp ≠ [] → validate p ≠ .ok mp)
    (hmode : ∀ q m, op = .openbin q m → (parseBinMode m).isSome = true) :
    let r := routed D F ms p (fun q => mapPaths (fun _ => q) op)
    let G := glue K mps ms
    Inv K mps r.1 ∧ fixOf K mps r.1 = fixOf K mps ms ∧ glue K mps r.1 = (Ref.step G op).1 ∧
    OutRel G op r.2 (Ref.step G op).2 := by
  intro r G
  have hGc : G.closed = false := hinv.opn
  cases hv : validate p with
  | err e =>
    have hr : r = (ms, .err e) := by
      simp only [r, routed, delegate_err hv]
    obtain ⟨h1, h2⟩ := step_of_validate_err hGc hp hv hmode
    rw [hr, h1]
    refine ⟨hinv, rfl, rfl, ?_, ?_⟩
    · intro h; simp [fail, Res.isOk] at h
    · intro e' he'
      simp only [fail, Res.err.injEq] at he'
      subst he'
      exact ⟨_, rfl, by rw [h2]; simp, fun _ => rfl⟩
  | ok cs =>
    have hcn := validate_clean p cs hv
    have hdel := delegate_spec hinv hv
    cases hrs : RouteSpec.routeSpec (idxFrom 1 mps) cs with
    | none =>
      rw [hrs] at hdel
      have hnone := (routeSpec_idx_none mps 1 cs).1 hrs
      have hr : r = call D F ms 0 op := by
        simp only [r, routed, hdel, mapPaths_self hp]
      have hDr := hD ms.dflt op hinv.dstd hm (by intro q hq; rw [hp] at hq; simp at hq; subst hq; exact not_nul_of_validate_ok hv)
        (by cases op <;> simp [hitsFixture, plainKind])
      obtain ⟨d1, _, d3, d4⟩ := hDr
      simp only [plainKind, id] at d1 d3 d4
      have hdflt : ms.dflt = ⟨ms.dflt.root, false⟩ := by
        have := hinv.dstd.1
        generalize ms.dflt = dd at this
        obtain ⟨rt, cl⟩ := dd
        simp only at this
        subst this; rfl
      have hl : ∀ e ∈ grafts K mps ms.mounts, ¬ e.1 <+: cs := by
        intro e he
        have : e.1 ∈ mps := by
          have := List.mem_map_of_mem (f := (·.1)) he
          rw [grafts_fst K mps ms.mounts (keys_length hinv.keys)] at this
          exact this
        exact hnone e.1 this
      obtain ⟨s1, s2, s3⟩ := step_default (grafts_disj hinv) (grafts_ph hinv) hl hm hp hv
      rw [← hdflt] at s1 s2 s3
      have hGeq : G = ⟨glueN ms.dflt.root (grafts K mps ms.mounts), false⟩ := by
        simp only [G, glue, hinv.opn]
      have hph' : ∀ mp ∈ mps, (D ms.dflt op).1.root.get mp = ms.dflt.root.get mp := by
        intro mp hmp
        rw [d3]
        have : mp ∈ (grafts K mps ms.mounts).map (·.1) := by
          rw [grafts_fst K mps ms.mounts (keys_length hinv.keys)]; exact hmp
        obtain ⟨e, he, rfl⟩ := List.mem_map.1 this
        exact s2 e he
      obtain ⟨i1, i2, i3⟩ := default_step_state hinv d1 hph'
      rw [hr]
      simp only [call]
      refine ⟨i1, i2, ?_, ?_⟩
      · rw [i3, hGeq, s1, d3]
      · rw [hGeq, s1]
        refine ⟨d4.1, ?_⟩
        intro e' he'
        obtain ⟨e, h1, h2, h3⟩ := d4.2 e' he'
        exact ⟨e, h1, by rw [s3]; exact h2, h3⟩
    | some ir =>
      obtain ⟨i, rest⟩ := ir
      rw [hrs] at hdel
      obtain ⟨pre, mp, post, rfl, hi, hcs, _⟩ := routeSpec_idx_some mps 1 cs i rest hrs
      subst hcs
      obtain ⟨A, s, B, hat⟩ := at_of_inv hinv
      have hrest : ∀ c ∈ rest, cleanName c = true := fun c hc => hcn c (by simp [hc])
      have hvr : validate (joinSlash rest) = .ok rest := validate_mkp false hrest
      have hnr : '\x00' ∉ joinSlash rest := noNul_mkp false hrest
      let op' := mapPaths (fun _ => joinSlash rest) op
      have hp' : op'.paths = [joinSlash rest] := by simp only [op', paths_mapPaths, hp]; rfl
      have hi' : i = pre.length + 1 := by omega
      have hr : r = ({ ms with mounts := A ++ (keyOf mp, (F s op').1) :: B }, (F s op').2) := by
        simp only [r, routed, hdel, hi']
        exact call_member_eq D F hat op'
      -- the member's fixtures lie below the composition's
      have hfixs : ¬ hitsFixture (K.fix s) op' := by
        intro hh
        apply hfix
        have hmem : ∀ f ∈ K.fix s, mp ++ f ∈ fixOf K (pre ++ mp :: post) ms := by
          intro f hf
          simp only [fixOf, List.mem_append]
          right
          rw [hat.eq, List.zip_append (by simp [hat.lenA])]
          simp only [List.zip_cons_cons, List.flatMap_append, List.flatMap_cons, List.mem_append, List.mem_map]
          exact Or.inr (Or.inl ⟨f, hf, rfl⟩)
        cases op <;> simp only [op', mapPaths, hitsFixture] at hh ⊢
        all_goals
          simp only [Op.paths, List.cons.injEq, and_true] at hp
          subst hp
          obtain ⟨cs', h1, h2⟩ := hh
          rw [hvr] at h1
          cases h1
          exact ⟨_, hv, hmem _ h2⟩
      obtain ⟨f1, f2, f3, f4⟩ := hF s op' hat.sinv (by rw [isMemberOp_mapPaths]; exact hm)
        (by intro q hq; rw [hp'] at hq; simp at hq; subst hq; exact hnr) hfixs
      obtain ⟨es, hes⟩ := root_dir_of_std hat.sinv
      have hget : G.root.get mp = some (.dir es) := by
        have := glue_get_mount hinv hat
        rw [hes] at this
        exact this
      -- below the mount point, or at it for a call that does not single out the root
      have hsp : mp = [] ∨ rest ≠ [] ∨ rootSpecial op = false := by
        by_cases h1 : mp = []
        · exact Or.inl h1
        by_cases h2 : rest = []
        · subst h2
          right; right
          have hmpfix : mp ∈ fixOf K (pre ++ mp :: post) ms := by
            simp only [fixOf, List.mem_append, List.mem_filter]
            left; exact ⟨by simp, by simpa using h1⟩
          cases op <;> simp only [isMemberOp, Bool.false_eq_true] at hm <;> try rfl
          · -- getinfo
            rename_i q
            simp only [Op.paths, List.cons.injEq, and_true] at hp
            subst hp
            exact absurd (by simpa using hv) (hgi _ rfl mp (by simp) h1)
          · -- removedir
            rename_i q
            simp only [Op.paths, List.cons.injEq, and_true] at hp
            subst hp
            exact absurd ⟨_, by simpa using hv, hmpfix⟩ hfix
        · exact Or.inr (Or.inl h2)
      have hstep := step_at_mount hGc hget hp hv hvr hsp
      rw [hes] at f3 f4
      obtain ⟨i1, i2, i3⟩ := member_step_state hinv hat f1 f2
      rw [hr]
      refine ⟨i1, i2, ?_, ?_⟩
      · rw [i3, f3, hstep]
        simp only [graft, hGc]
        rfl
      · rw [hstep]
        simp only [graft]
        refine ⟨f4.1, ?_⟩
        intro e' he'
        obtain ⟨e, h1, h2, h3⟩ := f4.2 e' he'
        refine ⟨e, h1, ?_, ?_⟩
        · -- admissible on the glued tree
          have hadmG : adm G op = adm1 G.root (mp ++ rest) op := adm_of_validate hGc hp hv
          have hadmS : adm ⟨.dir es, false⟩ op' = adm1 (.dir es) rest op := by
            rw [adm_of_validate (s := ⟨.dir es, false⟩) rfl hp' hvr, adm1_mapPaths]
          by_cases hx : rest = [] ∧ mp ≠ [] ∧ ∃ q, op = .readbytes q
          · obtain ⟨hx1, _, q, rfl⟩ := hx
            subst hx1
            have : e = e' := h3 (by simpa [op', mapPaths, exactOp] using hvr)
            subst this
            have hGd : G.root.isDir = true := by
              by_cases hmp0 : mp = []
              · subst hmp0; simp only [Node.get, Option.some.injEq] at hget; rw [hget]; rfl
              · obtain ⟨n, hn⟩ : ∃ n, G.root = n := ⟨_, rfl⟩
                cases n with
                | dir _ => rw [hn]; rfl
                | file b =>
                  rw [hn] at hget
                  cases mp with
                  | nil => exact absurd rfl hmp0
                  | cons c t => simp [Node.get] at hget
            exact step_err_adm hGc hGd hp (by rw [hstep]; simpa [graft] using he')
          · rw [hadmG]
            rw [hadmS] at h2
            refine adm1_at_mount hget hm ?_ e h2
            intro hr0 hmp0
            refine ⟨?_, ?_, ?_, hmode⟩
            · intro q hq; exact hx ⟨hr0, hmp0, q, hq⟩
            · intro q hq
              subst hq; subst hr0
              simp only [Op.paths, List.cons.injEq, and_true] at hp
              subst hp
              apply hfix
              refine ⟨_, by simpa using hv, ?_⟩
              simp only [fixOf, List.mem_append, List.mem_filter]
              left; exact ⟨by simp, by simpa using hmp0⟩
            · intro q hq
              subst hq; subst hr0
              simp only [Op.paths, List.cons.injEq, and_true] at hp
              subst hp
              apply hfix
              refine ⟨_, by simpa using hv, ?_⟩
              simp only [fixOf, List.mem_append, List.mem_filter]
              left; exact ⟨by simp, by simpa using hmp0⟩
        · intro hex
          apply h3
          cases op <;> simp only [exactOp] at hex ⊢
          · trivial
          · rename_i q
            simp only [Op.paths, List.cons.injEq, and_true] at hp
            subst hp
            rw [hv] at hex
            simp only [Res.ok.injEq, List.append_eq_nil_iff] at hex
            obtain ⟨_, h2'⟩ := hex
            subst h2'
            simpa [op', mapPaths] using hvr

end Calls

section Prims
variable {σ : Type}

/-- the conclusion shape shared by all primitive-level statements -/
def StepOk (K : Kind σ) (mps : List (List Name)) (ms : MState σ) (op : Op) (r : MState σ × Out) : Prop :=
  Inv K mps r.1 ∧ fixOf K mps r.1 = fixOf K mps ms ∧ glue K mps r.1 = (Ref.step (glue K mps ms) op).1 ∧
  OutRel (glue K mps ms) op r.2 (Ref.step (glue K mps ms) op).2

theorem basename_mkp {a : Bool} {cs : List Name} (h : Clean cs) : basename (mkp a cs) = lastName cs := by
  rcases list_nil_or_snoc cs with rfl | ⟨i, x, rfl⟩
  · simp [basename, split_mkp_nil, lastName]
  · simp [basename, split_mkp_snoc a i x h, lastName]

theorem relpath_joinSlash {rest : List Name} (h : Clean rest) : relpath (joinSlash rest) = [] ↔ rest = [] := by
  have : joinSlash rest = mkp false rest := by simp [mkp]
  rw [this]
  simp only [relpath, lstripSlash_mkp h]
  exact join_clean_eq_nil_iff h

/-- no two mount points of the invariant are comparable -/
theorem mp_not_prefix {mps : List (List Name)} (hd : Disjoint mps) {pre post : List (List Name)} {mp q : List Name}
    (he : mps = pre ++ mp :: post) (hq : q ∈ mps) (hp : mp <+: q) : q = mp := by
  subst he
  by_cases hne : q = mp
  · exact hne
  exfalso
  simp only [Disjoint] at hd
  have hpw := hd
  rw [List.pairwise_append] at hpw
  obtain ⟨_, h2, h3⟩ := hpw
  rcases List.mem_append.1 hq with h | h
  · exact (h3 q h mp (by simp)).2 hp
  · rcases List.mem_cons.1 h with h | h
    · exact hne h
    · exact ((List.pairwise_cons.1 h2).1 q h).1 hp

theorem renameInfo_false {b : Bool} (h : b = false) (n : Name) (o : Out) : renameInfo b n o = o := by
  subst h
  rcases o with (v | e) <;> try rfl
  cases v <;> rfl

/-- **`MountFS.getinfo`** -/
theorem getinfo_spec (D : FS State) (F : FS σ) {K : Kind σ} {mps : List (List Name)} {ms : MState σ}
    (hD : PrimRefines plainKind D) (hF : PrimRefines K F) (hinv : Inv K mps ms) (p : Str) :
    StepOk K mps ms (.getinfo p) (getinfoRouted D F ms p) := by
  have hfix : ¬ hitsFixture (fixOf K mps ms) (.getinfo p) := by simp [hitsFixture]
  have hmode : ∀ q m, Op.getinfo p = .openbin q m → (parseBinMode m).isSome = true := by intro q m h; cases h
  have hroute : ∀ (h : ∀ q, Op.getinfo p = .getinfo q → ∀ mp ∈ mps, mp ≠ [] → validate p ≠ .ok mp),
      StepOk K mps ms (.getinfo p) (routed D F ms p .getinfo) := fun h =>
    routed_spec D F hD hF hinv (.getinfo p) p rfl rfl hfix h hmode
  cases hv : validate p with
  | err e =>
    have h1 := hroute (by intro q _ mp _ _ h; rw [hv] at h; cases h)
    simp only [getinfoRouted, routed, delegate_err hv] at h1 ⊢
    exact h1
  | ok cs =>
    have hcn := validate_clean p cs hv
    have hdel := delegate_spec hinv hv
    have hnorm := normpath_of_validate hv
    cases hrs : RouteSpec.routeSpec (idxFrom 1 mps) cs with
    | none =>
      rw [hrs] at hdel
      have hnone := (routeSpec_idx_none mps 1 cs).1 hrs
      have h1 := hroute (by
        intro q _ mq hmq _ h
        rw [hv] at h
        simp only [Res.ok.injEq] at h
        subst h
        exact hnone _ hmq (List.prefix_refl _))
      simp only [getinfoRouted, routed, hdel] at h1 ⊢
      rw [renameInfo_false (by simp)]
      exact h1
    | some ir =>
      obtain ⟨i, rest⟩ := ir
      rw [hrs] at hdel
      obtain ⟨pre, mp, post, hmps, hi, hcs, _⟩ := routeSpec_idx_some mps 1 cs i rest hrs
      subst hcs
      have hrest : Clean rest := clean_of_cleanName (fun c hc => hcn c (by simp [hc]))
      have hi0 : i ≠ 0 := by omega
      by_cases hat0 : rest = [] ∧ mp ≠ []
      · -- the mount point itself: the member's root, under the mount point's name
        obtain ⟨hr0, hmp0⟩ := hat0
        subst hr0; subst hmps
        obtain ⟨A, s, B, hat⟩ := at_of_inv hinv
        obtain ⟨es, hes⟩ := root_dir_of_std hat.sinv
        have hi' : i = pre.length + 1 := by omega
        have hvr : validate (joinSlash ([] : List Name)) = .ok [] := by decide
        obtain ⟨f1, f2, f3, f4⟩ := hF s (.getinfo (joinSlash [])) hat.sinv rfl
          (by intro q hq; simp [Op.paths] at hq; subst hq; decide) (by simp [hitsFixture])
        rw [hes] at f3 f4
        have href : Ref.step ⟨.dir es, false⟩ (.getinfo (joinSlash [])) = (⟨.dir es, false⟩, .ok (.info [] true 0)) := by
          rw [step_of_validate (s := ⟨.dir es, false⟩) rfl rfl hvr]; rfl
        rw [href] at f3 f4
        have hout : (F s (.getinfo (joinSlash []))).2 = .ok (.info [] true 0) := f4.1 rfl
        obtain ⟨i1, i2, i3⟩ := member_step_state hinv hat f1 f2
        have hget := glue_get_mount hinv hat
        rw [hes] at hget
        have hG : Ref.step (glue K (pre ++ mp :: post) ms) (.getinfo p) =
            (glue K (pre ++ mp :: post) ms, .ok (.info (lastName mp) true 0)) := by
          rw [step_of_validate hinv.opn rfl (by simpa using hv)]
          simp only [step1, hget, done]
        have hname : basename (Mount.normOf p) = lastName mp := by
          simp only [Mount.normOf, hnorm]
          simpa using basename_mkp (clean_of_cleanName (fun c hc => hcn c (by simpa using hc)))
        simp only [getinfoRouted, hdel, hi']
        rw [call_member_eq D F hat]
        simp only [hout]
        have hrel : relpath (joinSlash ([] : List Name)) = [] := by decide
        have hdec : decide (pre.length + 1 ≠ 0 ∧ relpath (joinSlash ([] : List Name)) = []) = true := by
          simp [hrel]
        rw [hdec]
        simp only [renameInfo, if_true]
        refine ⟨i1, i2, ?_, ?_⟩
        · rw [i3, f3, hG]
          simp only
          rw [setAt_self _ _ _ hget]
          simp only [glue, hinv.opn]
        · rw [hG, hname]
          refine ⟨fun _ => rfl, ?_⟩
          intro e' he'; cases he'
      · -- strictly below a mount point, or the root mount: plain routing, no fix-up
        have h1 := hroute (by
          intro q _ mq hmq hmq0 h
          rw [hv] at h
          simp only [Res.ok.injEq] at h
          have hpre : mp <+: mq := by rw [← h]; exact List.prefix_append _ _
          have := mp_not_prefix hinv.disj hmps hmq hpre
          subst this
          have : rest = [] := by simpa using h
          exact hat0 ⟨this, hmq0⟩)
        simp only [getinfoRouted, routed, hdel] at h1 ⊢
        by_cases hr0 : rest = []
        · -- root mount: `basename` of the normalised root path is the empty name, as the reference says
          have hmp0 : mp = [] := by
            by_cases h : mp = []
            · exact h
            · exact absurd ⟨hr0, h⟩ hat0
          subst hr0; subst hmp0
          have hG : (Ref.step (glue K mps ms) (.getinfo p)).2 = .ok (.info [] true 0) := by
            subst hmps
            obtain ⟨A, s, B, hat⟩ := at_of_inv hinv
            obtain ⟨es, hes⟩ := root_dir_of_std hat.sinv
            have hget := glue_get_mount hinv hat
            rw [hes] at hget
            rw [step_of_validate hinv.opn rfl (by simpa using hv)]
            simp only [step1, hget, done, lastName]
            rfl
          have hname : basename (Mount.normOf p) = [] := by
            simp only [Mount.normOf, hnorm]
            simpa [lastName] using basename_mkp (a := startsWithSlash p) (cs := []) clean_nil
          obtain ⟨j1, j2, j3, j4⟩ := h1
          refine ⟨j1, j2, j3, ?_⟩
          have := j4.1 (by rw [hG]; rfl)
          rw [this, hG]
          simp only [renameInfo, hname]
          refine ⟨fun _ => by split <;> rfl, ?_⟩
          intro e' he'; cases he'
        · have hrel : ¬ relpath (joinSlash rest) = [] := fun h => hr0 ((relpath_joinSlash hrest).1 h)
          rw [renameInfo_false (by simp [hrel])]
          exact h1

end Prims

section Prims2
variable {σ : Type}

theorem glueN_wf_isDir (d : Node) (l : List (List Name × Node)) (hd : d.wf = true ∧ d.isDir = true)
    (hl : ∀ e ∈ l, (∀ c ∈ e.1, cleanName c = true) ∧ e.2.wf = true ∧ e.2.isDir = true) :
    (glueN d l).wf = true ∧ (glueN d l).isDir = true := by
  induction l with
  | nil => exact hd
  | cons e r ih =>
    obtain ⟨h1, h2, h3⟩ := hl e (by simp)
    obtain ⟨i1, i2⟩ := ih (fun e' h' => hl e' (by simp [h']))
    simp only [glueN]
    cases hx : e.2 with
    | file b => rw [hx] at h3; simp [Node.isDir] at h3
    | dir m =>
      rw [hx] at h2
      refine ⟨setAt_wf _ _ m h1 i1 (by simpa [Node.wf] using h2), ?_⟩
      rcases isDir_setAt (glueN d r) e.1 m with h | h
      · rw [h]; exact i2
      · exact h

theorem glue_wf_isDir {K : Kind σ} {mps : List (List Name)} {ms : MState σ} (hinv : Inv K mps ms) :
    (glue K mps ms).root.wf = true ∧ (glue K mps ms).root.isDir = true := by
  refine glueN_wf_isDir _ _ ⟨hinv.dstd.2.1, hinv.dstd.2.2⟩ ?_
  intro e he
  have hmem : e.1 ∈ mps := by
    have := List.mem_map_of_mem (f := (·.1)) he
    rw [grafts_fst K mps ms.mounts (keys_length hinv.keys)] at this
    exact this
  have h2 : e.2 ∈ ms.mounts.map fun x => (K.abs x.2).root := (List.of_mem_zip he).2
  obtain ⟨x, hx, hxe⟩ := List.mem_map.1 h2
  obtain ⟨_, w, dd⟩ := K.std x.2 (hinv.minv x hx)
  rw [← hxe]
  exact ⟨hinv.clean e.1 hmem, w, dd⟩

/-- a successful `getinfo` leaves the glued tree alone -/
theorem getinfo_keeps {s : State} (p : Str) : (Ref.step s (.getinfo p)).1 = s :=
  RouteLemmas.step_query_state s (.getinfo p) rfl

/-- **`_scan_mount_points` is invisible**: re-describing the entries of a listed directory through
`self.getinfo` succeeds for every entry and changes nothing the user can see -/
theorem scanMountPoints_ok (D : FS State) (F : FS σ) {K : Kind σ} {mps : List (List Name)}
    (hD : PrimRefines plainKind D) (hF : PrimRefines K F) (cs : List Name) (hcs : ∀ c ∈ cs, cleanName c = true)
    (G : State) (es : Ents) (hG : G.root.get cs = some (.dir es)) (hw : G.root.wf = true) :
    ∀ (names : List Name) (ms : MState σ), Inv K mps ms → glue K mps ms = G → (∀ n ∈ names, n ∈ Ents.names es) →
      let r := scanMountPoints D F ('/' :: dirs cs) names ms
      r.2 = .ok () ∧ Inv K mps r.1 ∧ fixOf K mps r.1 = fixOf K mps ms ∧ glue K mps r.1 = G := by
  intro names
  induction names with
  | nil => intro ms hinv hg _; exact ⟨rfl, hinv, rfl, hg⟩
  | cons n rest ih =>
    intro ms hinv hg hn
    simp only [scanMountPoints]
    split
    · -- a mount point: one full `getinfo`
      have hnm : n ∈ Ents.names es := hn n (by simp)
      obtain ⟨ch, hch⟩ : ∃ ch, Ents.lookup n es = some ch := by
        have := (QueryLemmas.lookup_isSome_iff n es).2 hnm
        exact Option.isSome_iff_exists.1 this
      have hesw : entsWf es = true := by
        have := TreeLemmas.get_wf cs G.root _ hw hG
        simpa [Node.wf] using this
      have hnc : cleanName n = true := lookup_clean n ch es hesw hch
      have hall : ∀ c ∈ cs ++ [n], cleanName c = true := by
        intro c hc
        rcases List.mem_append.1 hc with h | h
        · exact hcs c h
        · simp only [List.mem_singleton] at h; subst h; exact hnc
      have hq : ('/' :: dirs cs) ++ n = mkp true (cs ++ [n]) := by
        simp only [mkp, if_true, join_snoc]; rfl
      rw [hq]
      have hvq : validate (mkp true (cs ++ [n])) = .ok (cs ++ [n]) := validate_mkp true hall
      have hspec := getinfo_spec D F hD hF hinv (mkp true (cs ++ [n]))
      obtain ⟨j1, j2, j3, j4⟩ := hspec
      rw [hg, getinfo_keeps] at j3
      have hok : ((Ref.step G (.getinfo (mkp true (cs ++ [n])))).2).isOk = true := by
        have hGc : G.closed = false := by rw [← hg]; exact hinv.opn
        rw [step_of_validate hGc rfl hvq]
        have : G.root.get (cs ++ [n]) = some ch := by
          rw [TreeLemmas.get_append, hG]; simp [Node.get, hch]
        simp only [step1, this]
        cases ch <;> rfl
      rw [hg] at j4
      have hout := j4.1 hok
      simp only [checked, hinv.opn, Bool.false_eq_true, if_false]
      have : ∃ v, (getinfoRouted D F ms (mkp true (cs ++ [n]))).2 = .ok v := by
        rw [hout]
        cases h : (Ref.step G (.getinfo (mkp true (cs ++ [n])))).2 with
        | ok v => exact ⟨v, rfl⟩
        | err e => rw [h] at hok; simp [Res.isOk] at hok
      obtain ⟨v, hv⟩ := this
      simp only [hv]
      obtain ⟨k1, k2, k3, k4⟩ := ih _ j1 j3 (fun m hm => hn m (by simp [hm]))
      exact ⟨k1, k2, by rw [k3, j2], k4⟩
    · exact ih ms hinv hg (fun m hm => hn m (by simp [hm]))

/-- what `FS.isempty` makes of a `scandir` outcome -/
def firstOf : Out → Out
  | .ok (.names l) => .ok (.bool l.isEmpty)
  | o => o

theorem listdir_cases (s : State) (p : Str) :
    (∃ e, Ref.step s (.listdir p) = (s, .err e) ∧ Ref.step s (.isempty p) = (s, .err e) ∧
      adm s (.isempty p) = adm s (.listdir p)) ∨
    (∃ cs es, validate p = .ok cs ∧ s.closed = false ∧ s.root.get cs = some (.dir es) ∧
      Ref.step s (.listdir p) = (s, .ok (.names (Ents.names es))) ∧
      Ref.step s (.isempty p) = (s, .ok (.bool es.isEmpty))) := by
  cases hc : s.closed with
  | true =>
    left
    refine ⟨.FilesystemClosed, QueryLemmas.step_closed s _ (by simp) hc, QueryLemmas.step_closed s _ (by simp) hc, ?_⟩
    rw [QueryLemmas.adm_closed s _ (by simp) hc, QueryLemmas.adm_closed s _ (by simp) hc]
  | false =>
    cases hv : validate p with
    | err e =>
      left
      refine ⟨e, ?_, ?_, ?_⟩
      · rw [QueryLemmas.step_one s _ p hc rfl (by simp), hv]; rfl
      · rw [QueryLemmas.step_one s _ p hc rfl (by simp), hv]; rfl
      · rw [QueryLemmas.adm_one s _ p hc rfl (by simp), QueryLemmas.adm_one s _ p hc rfl (by simp), hv]
    | ok cs =>
      have h1 : Ref.step s (.listdir p) = step1 s cs (.listdir p) := step_of_validate hc rfl hv
      have h2 : Ref.step s (.isempty p) = step1 s cs (.isempty p) := step_of_validate hc rfl hv
      have h3 : adm s (.isempty p) = adm s (.listdir p) := by
        rw [adm_of_validate hc rfl hv, adm_of_validate hc (op := .listdir p) rfl hv]; rfl
      cases hg : s.root.get cs with
      | none => left; exact ⟨.ResourceNotFound, by rw [h1]; simp [step1, hg, fail], by rw [h2]; simp [step1, hg, fail], h3⟩
      | some n =>
        cases n with
        | file b =>
          left; exact ⟨.DirectoryExpected, by rw [h1]; simp [step1, hg, fail], by rw [h2]; simp [step1, hg, fail], h3⟩
        | dir es =>
          right
          exact ⟨cs, es, rfl, rfl, hg, by rw [h1]; simp [step1, hg, done], by rw [h2]; simp [step1, hg, done]⟩

/-- a refining `scandir` consumed for its first entry refines `isempty` -/
theorem stepOk_isempty {K : Kind σ} {mps : List (List Name)} {ms ms' : MState σ} {p : Str} {o : Out}
    (h : StepOk K mps ms (.listdir p) (ms', o)) : StepOk K mps ms (.isempty p) (ms', firstOf o) := by
  obtain ⟨h1, h2, h3, h4⟩ := h
  simp only at h1 h2 h3 h4
  rcases listdir_cases (glue K mps ms) p with ⟨e, r1, r2, r3⟩ | ⟨cs, es, _, _, _, r1, r2⟩
  · rw [r1] at h3 h4
    refine ⟨h1, h2, by rw [r2]; exact h3, ?_⟩
    rw [r2]
    obtain ⟨e2, g1, g2, _⟩ := h4.2 e rfl
    subst g1
    refine ⟨fun h => by simp [Res.isOk] at h, ?_⟩
    intro e' he'
    simp only [Res.err.injEq] at he'
    subst he'
    exact ⟨e2, rfl, by rw [r3]; exact g2, fun h => by simp [exactOp] at h⟩
  · rw [r1] at h3 h4
    refine ⟨h1, h2, by rw [r2]; exact h3, ?_⟩
    rw [r2]
    have := h4.1 rfl
    simp only at this
    subst this
    simp only [firstOf, Ents.names, List.isEmpty_map]
    exact ⟨fun _ => rfl, fun e' he' => by cases he'⟩

theorem mem_take {α : Type} {l : List α} {n : Nat} {x : α} (h : x ∈ l.take n) : x ∈ l := List.mem_of_mem_take h

/-- **`MountFS.scandir`** (consumed entirely — `listdir`-like — or for its first entry, as `FS.isempty` does) -/
theorem scan_spec (D : FS State) (F : FS σ) {K : Kind σ} {mps : List (List Name)} {ms : MState σ}
    (hD : PrimRefines plainKind D) (hF : PrimRefines K F) (hinv : Inv K mps ms) (p : Str)
    (fo : Bool) :
    StepOk K mps ms (if fo then .isempty p else .listdir p) (scanRouted D F ms p fo) := by
  have hR : StepOk K mps ms (.listdir p) (routed D F ms p .listdir) :=
    routed_spec D F hD hF hinv (.listdir p) p rfl rfl (by simp [hitsFixture]) (by intro q h; cases h)
      (by intro q m h; cases h)
  -- `scanRouted` = `routed` followed by `_scan_mount_points`, which is invisible
  have core : ∃ ms' o, scanRouted D F ms p fo = (ms', if fo then firstOf o else o) ∧
      StepOk K mps ms (.listdir p) (ms', o) := by
    cases hdl : delegate ms p with
    | err e =>
      refine ⟨ms, .err e, by simp [scanRouted, hdl, firstOf], ?_⟩
      simpa [routed, hdl] using hR
    | ok ir =>
      obtain ⟨i, r⟩ := ir
      simp only [routed, hdl] at hR
      simp only [scanRouted, hdl]
      generalize hx : call D F ms i (.listdir r) = x at hR ⊢
      obtain ⟨x1, x2⟩ := x
      obtain ⟨j1, j2, j3, j4⟩ := hR
      simp only at j1 j2 j3 j4 ⊢
      rcases listdir_cases (glue K mps ms) p with ⟨e, r1, _, _⟩ | ⟨cs, es, hv, _, hg, r1, _⟩
      · rw [r1] at j4
        obtain ⟨e2, g1, _⟩ := j4.2 e rfl
        subst g1
        refine ⟨x1, .err e2, by cases fo <;> simp [firstOf], j1, j2, j3, ?_⟩
        rw [r1]; exact j4
      · rw [r1] at j3 j4
        have := j4.1 rfl
        simp only at this
        subst this
        simp only at j3
        by_cases hbr : i = 0 ∧ ms.mounts ≠ []
        · simp only [hbr, ne_eq, not_false_eq_true, and_self, if_true]
          have hkey : Mount.mountKey (Mount.normOf p) = '/' :: dirs cs := by
            simp only [Mount.normOf, normpath_of_validate hv]
            exact RouteLemmas.mountKey_mkp (clean_of_cleanName (validate_clean p cs hv))
          rw [hkey]
          obtain ⟨k1, k2, k3, k4⟩ := scanMountPoints_ok D F hD hF cs (validate_clean p cs hv) (glue K mps ms) es hg
            (glue_wf_isDir hinv).1 (if fo then (Ents.names es).take 1 else Ents.names es) x1 j1 j3
            (by intro n hn; cases fo <;> simp only [Bool.false_eq_true, if_false, if_true] at hn
                · exact hn
                · exact List.mem_of_mem_take hn)
          refine ⟨_, .ok (.names (Ents.names es)), ?_, k2, by rw [k3, j2], by rw [k4, r1], by rw [r1]; exact j4⟩
          rw [k1]
          cases fo <;> simp [firstOf]
        · simp only [hbr, if_false]
          refine ⟨x1, .ok (.names (Ents.names es)), by cases fo <;> simp [firstOf], j1, j2, by rw [r1]; exact j3, ?_⟩
          rw [r1]; exact j4
  obtain ⟨ms', o, h1, h2⟩ := core
  rw [h1]
  cases fo
  · simpa using h2
  · simpa using stepOk_isempty h2

/-- the primitives (`Route.Prim`) the programs of `MountFs.prog` use -/
def usedPrim : Prim → Bool
  | .getinfo _ | .listdir _ | .scandir _ | .scanFirst _ | .makedir _ _ | .openbin _ _ | .openRead _ | .openWrite _
  | .openAppend _ _ | .remove _ | .removedir _ | .readbytes _ | .getsize _ | .gettype _ | .isdir _ | .isfile _
  | .setinfo _ | .upload _ _ | .writebytes _ _ => true
  | _ => false

/-- what a primitive means on ONE filesystem: the reference operation on its path -/
def primOp (pr : Prim) : Op := pr.memberOp pr.path

theorem primOp_member {pr : Prim} (h : usedPrim pr = true) : isMemberOp (primOp pr) = true := by
  cases pr <;> simp_all [usedPrim, primOp, Prim.memberOp, isMemberOp]

theorem primOp_paths (pr : Prim) (h : usedPrim pr = true) : (primOp pr).paths = [pr.path] := by
  cases pr <;> simp_all [usedPrim, primOp, Prim.memberOp, Prim.path, Op.paths]

theorem memberOp_mapPaths (pr : Prim) (q : Str) (h : usedPrim pr = true) :
    pr.memberOp q = mapPaths (fun _ => q) (primOp pr) := by
  cases pr <;> simp_all [usedPrim, primOp, Prim.memberOp, mapPaths]

theorem stepOk_closed_irrelevant {K : Kind σ} {mps : List (List Name)} {ms : MState σ} (hinv : Inv K mps ms)
    (k : MState σ × Out) : checked ms k = k := by
  simp [checked, hinv.opn]

/-- **`MountFS.removedir`** (as repaired in /repo 48e26ed): `_delegate` on the raw path, then the root refused,
then the member's `removedir` -/
theorem removedir_spec (D : FS State) (F : FS σ) {K : Kind σ} {mps : List (List Name)} {ms : MState σ}
    (hD : PrimRefines plainKind D) (hF : PrimRefines K F) (hinv : Inv K mps ms) (p : Str)
    (hfix : ¬ hitsFixture (fixOf K mps ms) (.removedir p)) :
    StepOk K mps ms (.removedir p) (prim D F ms (.removedir p)) := by
  have hGc : (glue K mps ms).closed = false := hinv.opn
  simp only [prim, stepOk_closed_irrelevant hinv]
  cases hv : validate p with
  | err e =>
    obtain ⟨h1, h2⟩ := step_of_validate_err hGc (op := .removedir p) rfl hv (by intro q m h; cases h)
    simp only [delegate_err hv]
    refine ⟨hinv, rfl, by rw [h1]; rfl, ?_⟩
    rw [h1]
    refine ⟨fun h => by simp [fail, Res.isOk] at h, ?_⟩
    intro e' he'
    simp only [fail, Res.err.injEq] at he'
    subst he'
    exact ⟨_, rfl, by rw [h2]; simp, fun h => by simp [exactOp] at h⟩
  | ok cs =>
    have hcn := validate_clean p cs hv
    have hc : Clean cs := clean_of_cleanName hcn
    have hnorm := normpath_of_validate hv
    have hdel : ∃ ir, delegate ms p = .ok ir := by
      rw [delegate_spec hinv hv]
      cases RouteSpec.routeSpec (idxFrom 1 mps) cs with
      | none => exact ⟨_, rfl⟩
      | some x => exact ⟨_, rfl⟩
    obtain ⟨ir, hir⟩ := hdel
    simp only [hir, Mount.normOf, hnorm]
    by_cases hroot : cs = []
    · subst hroot
      have hn0 : mkp (startsWithSlash p) [] = [] ∨ mkp (startsWithSlash p) [] = ['/'] := by
        cases startsWithSlash p <;> simp [mkp, joinWith]
      simp only [hn0, if_true]
      have hstep : Ref.step (glue K mps ms) (.removedir p) = fail (glue K mps ms) .RemoveRootError := by
        rw [step_of_validate hGc rfl hv]; simp [step1]
      refine ⟨hinv, rfl, by rw [hstep]; rfl, ?_⟩
      rw [hstep]
      refine ⟨fun h => by simp [fail, Res.isOk] at h, ?_⟩
      intro e' he'
      simp only [fail, Res.err.injEq] at he'
      subst he'
      refine ⟨_, rfl, ?_, fun h => by simp [exactOp] at h⟩
      rw [adm_of_validate hGc (op := .removedir p) rfl hv]
      simp [adm1]
    · have hn0 : ¬ (mkp (startsWithSlash p) cs = [] ∨ mkp (startsWithSlash p) cs = ['/']) := by
        intro h
        rcases h with h | h
        · exact hroot ((mkp_eq_nil_iff hc).1 h).2
        · exact hroot ((mkp_eq_slash_iff hc).1 h).2
      simp only [hn0, if_false]
      exact routed_spec D F hD hF hinv (.removedir p) p rfl rfl hfix (by intro q h; cases h) (by intro q m h; cases h)

/-- **every method MountFS defines refines its reference meaning on the glued tree** -/
theorem prim_spec (D : FS State) (F : FS σ) {K : Kind σ} {mps : List (List Name)} {ms : MState σ}
    (hD : PrimRefines plainKind D) (hF : PrimRefines K F) (hinv : Inv K mps ms) (pr : Prim)
    (hu : usedPrim pr = true) (hfix : ¬ hitsFixture (fixOf K mps ms) (primOp pr)) :
    StepOk K mps ms (primOp pr) (prim D F ms pr) := by
  have hGc : (glue K mps ms).closed = false := hinv.opn
  have plain : ∀ (hgi : ∀ q, primOp pr ≠ .getinfo q)
      (hmode : ∀ q m, primOp pr = .openbin q m → (parseBinMode m).isSome = true),
      StepOk K mps ms (primOp pr) (routed D F ms pr.path (pr.memberOp ·)) := by
    intro hgi hmode
    have := routed_spec D F hD hF hinv (primOp pr) pr.path (primOp_paths pr hu) (primOp_member hu) hfix
      (fun q h => absurd h (hgi q)) hmode
    have hfun : (fun q => mapPaths (fun _ => q) (primOp pr)) = (pr.memberOp ·) := by
      funext q; exact (memberOp_mapPaths pr q hu).symm
    rw [hfun] at this
    exact this
  cases pr <;> simp only [usedPrim, Bool.false_eq_true] at hu
  case getinfo p => simpa [prim, primOp, Prim.memberOp, Prim.path, stepOk_closed_irrelevant hinv] using getinfo_spec D F hD hF hinv p
  case scandir p => simpa [prim, primOp, Prim.memberOp, Prim.path, stepOk_closed_irrelevant hinv] using scan_spec D F hD hF hinv p false
  case scanFirst p => simpa [prim, primOp, Prim.memberOp, Prim.path, stepOk_closed_irrelevant hinv] using scan_spec D F hD hF hinv p true
  case removedir p => exact removedir_spec D F hD hF hinv p hfix
  case openbin p m =>
    simp only [prim]
    by_cases hmode : (parseBinMode m).isNone = true
    · simp only [hmode, if_true]
      have hstep : Ref.step (glue K mps ms) (.openbin p m) = fail (glue K mps ms) .ValueError := by
        rw [QueryLemmas.step_openbin _ p m hGc]; simp [hmode]
      refine ⟨hinv, rfl, by simp only [primOp, Prim.memberOp, Prim.path]; rw [hstep]; rfl, ?_⟩
      simp only [primOp, Prim.memberOp, Prim.path]
      rw [hstep]
      refine ⟨fun h => by simp [fail, Res.isOk] at h, ?_⟩
      intro e' he'
      simp only [fail, Res.err.injEq] at he'
      subst he'
      refine ⟨_, rfl, ?_, fun h => by simp [exactOp] at h⟩
      rw [QueryLemmas.adm_openbin _ p m hGc]
      have hnone : parseBinMode m = none := by
        cases h : parseBinMode m <;> simp_all
      cases validate p <;> simp [adm1, hnone]
    · simp only [hmode, Bool.false_eq_true, if_false, stepOk_closed_irrelevant hinv]
      have := plain (by intro q h; simp [primOp, Prim.memberOp] at h) (by
        intro q m' h
        simp only [primOp, Prim.memberOp, Prim.path, Op.openbin.injEq] at h
        obtain ⟨_, rfl⟩ := h
        cases h' : parseBinMode m <;> simp_all)
      simpa [Prim.memberOp, Prim.path] using this
  all_goals
    simp only [prim, stepOk_closed_irrelevant hinv]
    exact plain (by intro q h; simp [primOp, Prim.memberOp] at h) (by
      intro q m h
      first
        | (simp [primOp, Prim.memberOp] at h; done)
        | (simp only [primOp, Prim.memberOp, Prim.path, Op.openbin.injEq] at h
           obtain ⟨_, rfl⟩ := h
           decide))

/-- **`MountFS.validatepath`** agrees with the reference's `validate` (every path: `_delegate` looks at the raw
path's characters first, then normalises) -/
theorem validate_spec (D : FS State) (F : FS σ) {K : Kind σ} {mps : List (List Name)} {ms : MState σ}
    (hD : PrimRefines plainKind D) (hF : PrimRefines K F) (hinv : Inv K mps ms) (p : Str) :
    validatepath D F ms p = (match validate p with | .ok _ => .ok () | .err e => .err e) := by
  simp only [validatepath, hinv.opn, Bool.false_eq_true, if_false]
  cases hv : validate p with
  | err e =>
    simp [delegate_err hv]
  | ok cs =>
    have hR := routed_spec D F hD hF hinv (.exists_ p) p rfl rfl (by simp [hitsFixture]) (by intro q h; cases h)
      (by intro q m h; cases h)
    have hok : ((Ref.step (glue K mps ms) (.exists_ p)).2).isOk = true := by
      rw [step_of_validate hinv.opn rfl hv]; rfl
    have := hR.2.2.2.1 hok
    have hfun : (fun q => mapPaths (fun _ => q) (Op.exists_ p)) = Op.exists_ := rfl
    rw [hfun] at this
    simp only [routed] at this
    cases hdl : delegate ms p with
    | err e =>
      rw [hdl] at this
      simp only at this
      rw [← this] at hok
      simp [Res.isOk] at hok
    | ok ir =>
      obtain ⟨i, r⟩ := ir
      rw [hdl] at this
      simp only at this ⊢
      rw [this]
      cases h : (Ref.step (glue K mps ms) (.exists_ p)).2 with
      | ok v => rfl
      | err e => rw [h] at hok; simp [Res.isOk] at hok

/-- a MountFS (its states within `Inv K mps`) as a member kind: read through `glue`, fixtures `fixOf`
— so that the functor can be applied again -/
def mountKind (K : Kind σ) (mps : List (List Name)) (fx : List (List Name)) : Kind (MState σ) where
  abs := glue K mps
  inv := fun ms => Inv K mps ms ∧ fixOf K mps ms = fx
  fix := fun _ => fx
  std := fun _ h => ⟨h.1.opn, (glue_wf_isDir h.1).1, (glue_wf_isDir h.1).2⟩

end Prims2

end Fs.MountLemmas
