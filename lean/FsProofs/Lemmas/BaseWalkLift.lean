/-
  Helper lemmas for FsProofs/BaseWalkLaws.lean, part 5: from the primitives of `Ref.step` to the primitives of
  ANY filesystem `F` that refines the reference (`RefinesRef F`).  The bulk algorithms never look at the class
  of an error, they pass it on; so a run over `F` follows the run over `Ref.step` call by call (`Lift`): the
  same result while the reference's calls succeed, and when one fails both runs fail there, in the same state.
-/
import FsProofs.Lemmas.BaseWalkRm
import FsProofs.Lemmas.MultiFsLemmas

namespace Fs.BaseWalkLift
open Fs Fs.Path Fs.Ref Fs.BaseWalk Fs.BaseWalkPrim Fs.BaseWalkRm Fs.WrapRefines Fs.MemRefines Fs.MultiFsLemmas

/-- the run over `F` follows the run over the reference -/
def Lift {α : Type} (rF rR : State × Res α) : Prop :=
  (rR.2.isOk = true ∧ rF = rR) ∨ (rR.2.isOk = false ∧ rF.2.isOk = false ∧ rF.1 = rR.1)

theorem lift_refl {α : Type} (r : State × Res α) : Lift r r := by
  rcases r with ⟨s, v | e⟩
  · exact Or.inl ⟨rfl, rfl⟩
  · exact Or.inr ⟨rfl, rfl, rfl⟩

theorem lift_err {α : Type} (s : State) (e e' : Err) : Lift (α := α) (s, .err e') (s, .err e) :=
  Or.inr ⟨rfl, rfl, rfl⟩

/-- the two shapes of `Lift` -/
theorem lift_cases {α : Type} {rF rR : State × Res α} (h : Lift rF rR) :
    (∃ s v, rR = (s, .ok v) ∧ rF = (s, .ok v)) ∨ (∃ s e e', rR = (s, .err e) ∧ rF = (s, .err e')) := by
  rcases h with ⟨hok, heq⟩ | ⟨he, hfe, hst⟩
  · rcases rR with ⟨s, v | e⟩
    · exact Or.inl ⟨s, v, rfl, heq⟩
    · cases hok
  · rcases rR with ⟨s, v | e⟩
    · cases he
    · rcases rF with ⟨s', v' | e'⟩
      · cases hfe
      · simp only at hst; subst hst
        exact Or.inr ⟨s', e, e', rfl, rfl⟩

theorem good_of (t : State) (G : GoodS t) : MultiFsLemmas.Good t := ⟨G.opn, G.dir, G.wf⟩

/-- one primitive call -/
theorem lift_call (F : FS State) (hF : RefinesRef F) (t : State) (G : GoodS t) (op : Op) (hb : bulk op = false) :
    Lift (F t op) (Ref.step t op) := by
  rcases refines_cases F hF t (good_of t G) op hb with ⟨hok, h⟩ | ⟨e, e', hr, hf, _⟩
  · exact Or.inl ⟨hok, h⟩
  · rw [hr, hf]; exact lift_err t e e'

/-- … with the class of the failing call -/
theorem lift_call_adm (F : FS State) (hF : RefinesRef F) (t : State) (G : GoodS t) (op : Op) (hb : bulk op = false)
    (e : Err) (hr : (Ref.step t op).2 = .err e) : ∃ e', F t op = (t, .err e') ∧ e' ∈ adm t op := by
  rcases refines_cases F hF t (good_of t G) op hb with ⟨hok, _⟩ | ⟨e0, e', _, hf, ha⟩
  · rw [hr] at hok; cases hok
  · exact ⟨e', hf, ha⟩

/-! ### the fields of `primOfStep` -/
section Fields
variable {σ : Type} (F : FS σ) (s : σ) (p q : Str)
theorem prim_validatepath : (primOfStep F).validatepath s p = validateOf F s p := rfl
theorem prim_exists : (primOfStep F).exists_ s p = F s (.exists_ p) := rfl
theorem prim_getinfo : (primOfStep F).getinfo s p = F s (.getinfo p) := rfl
theorem prim_scandir : (primOfStep F).scandir s p = scanOf F s p := rfl
theorem prim_makedir : (primOfStep F).makedir s p = F s (.makedir p true) := rfl
theorem prim_makedirs : (primOfStep F).makedirs s p = F s (.makedirs p true) := rfl
theorem prim_copy : (primOfStep F).copy s p q = F s (.copy p q true) := rfl
theorem prim_remove : (primOfStep F).remove s p = F s (.remove p) := rfl
theorem prim_removedir : (primOfStep F).removedir s p = F s (.removedir p) := rfl
end Fields

section
variable (F : FS State) (hF : RefinesRef F)
include hF

/-! ### scanning, validating -/

theorem lift_scanNames (p : Str) : ∀ (ns : List Name) (acc : List ScanInfo) (t : State), GoodS t →
    Lift (scanNames F p ns acc t) (scanNames Ref.step p ns acc t) ∧ GoodS (scanNames Ref.step p ns acc t).1
  | [], _, t, G => ⟨lift_refl _, G⟩
  | n :: ns, acc, t, G => by
    have G1 := goodS_step G (.getinfo (combine p n)) (by intro h; cases h)
    simp only [scanNames]
    rcases lift_cases (lift_call F hF t G (.getinfo (combine p n)) rfl) with ⟨s, v, hr, hf⟩ | ⟨s, e, e', hr, hf⟩
    · rw [hr] at G1
      rw [hr, hf]
      cases v <;> first
        | exact ⟨lift_refl _, G1⟩
        | exact lift_scanNames p ns _ s G1
    · rw [hr] at G1
      rw [hr, hf]
      exact ⟨lift_err _ _ _, G1⟩

theorem lift_scanOf (t : State) (G : GoodS t) (p : Str) :
    Lift (scanOf F t p) (scanOf Ref.step t p) ∧ GoodS (scanOf Ref.step t p).1 := by
  have G1 := goodS_step G (.listdir p) (by intro h; cases h)
  simp only [scanOf]
  rcases lift_cases (lift_call F hF t G (.listdir p) rfl) with ⟨s, v, hr, hf⟩ | ⟨s, e, e', hr, hf⟩
  · rw [hr] at G1
    rw [hr, hf]
    cases v <;> first
      | exact ⟨lift_refl _, G1⟩
      | exact lift_scanNames F hF p _ _ s G1
  · rw [hr] at G1
    rw [hr, hf]
    exact ⟨lift_err _ _ _, G1⟩

theorem lift_validateOf (t : State) (G : GoodS t) (p : Str) :
    Lift (validateOf F t p) (validateOf Ref.step t p) ∧ GoodS (validateOf Ref.step t p).1 := by
  have G1 := goodS_step G (.exists_ p) (by intro h; cases h)
  simp only [validateOf]
  rcases lift_cases (lift_call F hF t G (.exists_ p) rfl) with ⟨s, v, hr, hf⟩ | ⟨s, e, e', hr, hf⟩
  · rw [hr] at G1
    rw [hr, hf]
    exact ⟨lift_refl _, G1⟩
  · rw [hr] at G1
    rw [hr, hf]
    exact ⟨lift_err _ _ _, G1⟩


/-- the primitives of `F` -/
abbrev PF : Prim State := primOfStep F

/-! ### `FS.removetree` -/

theorem lift_rmEntries (visitF visitR : Str → State → State × Out)
    (hv : ∀ d t, GoodS t → Lift (visitF d t) (visitR d t) ∧ GoodS (visitR d t).1) (d : Str) :
    ∀ (l : List ScanInfo) (t : State), GoodS t →
      Lift (rmEntries (PF F) visitF d l t) (rmEntries PR visitR d l t) ∧ GoodS (rmEntries PR visitR d l t).1
  | [], t, G => ⟨lift_refl _, G⟩
  | (n, isDir, sz) :: rest, t, G => by
    simp only [rmEntries]
    cases isDir with
    | true =>
      simp only [if_true]
      obtain ⟨hl, G1⟩ := hv (combine d n) t G
      rcases lift_cases hl with ⟨s, v, hr, hf⟩ | ⟨s, e, e', hr, hf⟩
      · rw [hr] at G1
        rw [hr, hf]
        simp only
        have G2 := goodS_step G1 (.removedir (combine d n)) (by intro h; cases h)
        rcases lift_cases (lift_call F hF s G1 (.removedir (combine d n)) rfl) with ⟨s2, v2, hr2, hf2⟩ | ⟨s2, e2, e2', hr2, hf2⟩
        · rw [hr2] at G2
          rw [prim_removedir, prim_removedir, hr2, hf2]
          exact lift_rmEntries visitF visitR hv d rest s2 G2
        · rw [hr2] at G2
          rw [prim_removedir, prim_removedir, hr2, hf2]
          exact ⟨lift_err _ _ _, G2⟩
      · rw [hr] at G1
        rw [hr, hf]
        exact ⟨lift_err _ _ _, G1⟩
    | false =>
      simp only [Bool.false_eq_true, if_false]
      have G2 := goodS_step G (.remove (combine d n)) (by intro h; cases h)
      rcases lift_cases (lift_call F hF t G (.remove (combine d n)) rfl) with ⟨s2, v2, hr2, hf2⟩ | ⟨s2, e2, e2', hr2, hf2⟩
      · rw [hr2] at G2
        rw [prim_remove, prim_remove, hr2, hf2]
        exact lift_rmEntries visitF visitR hv d rest s2 G2
      · rw [hr2] at G2
        rw [prim_remove, prim_remove, hr2, hf2]
        exact ⟨lift_err _ _ _, G2⟩

theorem lift_rmWalk : ∀ (fuel : Nat) (d : Str) (t : State), GoodS t →
    Lift (rmWalk (PF F) fuel d t) (rmWalk PR fuel d t) ∧ GoodS (rmWalk PR fuel d t).1
  | 0, _, t, G => ⟨lift_refl _, G⟩
  | fuel + 1, d, t, G => by
    simp only [rmWalk]
    obtain ⟨hl, G1⟩ := lift_scanOf F hF t G d
    rcases lift_cases hl with ⟨s, v, hr, hf⟩ | ⟨s, e, e', hr, hf⟩
    · rw [hr] at G1
      rw [prim_scandir, prim_scandir, hr, hf]
      exact lift_rmEntries F hF _ _ (fun d' t' G' => lift_rmWalk fuel d' t' G') d v s G1
    · rw [hr] at G1
      rw [prim_scandir, prim_scandir, hr, hf]
      exact ⟨lift_err _ _ _, G1⟩

theorem lift_removetreeBody (fuel : Nat) (t : State) (G : GoodS t) (p np : Str) :
    Lift (removetreeBody (PF F) fuel t p np) (removetreeBody PR fuel t p np) ∧ GoodS (removetreeBody PR fuel t p np).1 := by
  simp only [removetreeBody]
  obtain ⟨hl, G1⟩ := lift_rmWalk F hF fuel np t G
  rcases lift_cases hl with ⟨s, v, hr, hf⟩ | ⟨s, e, e', hr, hf⟩
  · rw [hr] at G1
    rw [hr, hf]
    simp only
    split
    · exact ⟨lift_refl _, G1⟩
    · exact ⟨lift_call F hF s G1 (.removedir p) rfl, goodS_step G1 _ (by intro h; cases h)⟩
  · rw [hr] at G1
    rw [hr, hf]
    exact ⟨lift_err _ _ _, G1⟩

theorem lift_removetree (fuel : Nat) (t : State) (G : GoodS t) (p : Str) :
    Lift (removetree (PF F) fuel t p) (removetree PR fuel t p) ∧ GoodS (removetree PR fuel t p).1 := by
  simp only [removetree]
  obtain ⟨hl, G1⟩ := lift_validateOf F hF t G p
  rcases lift_cases hl with ⟨s, np, hr, hf⟩ | ⟨s, e, e', hr, hf⟩
  · rw [hr] at G1
    rw [prim_validatepath, prim_validatepath, hr, hf]
    exact lift_removetreeBody F hF fuel s G1 p np
  · rw [hr] at G1
    rw [prim_validatepath, prim_validatepath, hr, hf]
    exact ⟨lift_err _ _ _, G1⟩

/-! ### `copy_dir` -/

theorem lift_structEntries (a b d : Str) : ∀ (l : List ScanInfo) (q : List Str) (t : State), GoodS t →
    Lift (structEntries (PF F) a b d l q t) (structEntries PR a b d l q t) ∧ GoodS (structEntries PR a b d l q t).1
  | [], _, t, G => ⟨lift_refl _, G⟩
  | (n, isDir, sz) :: rest, q, t, G => by
    simp only [structEntries]
    cases isDir with
    | false => simpa using lift_structEntries a b d rest q t G
    | true =>
      simp only [if_true]
      cases target a b (combine d n) with
      | err e => exact ⟨lift_refl _, G⟩
      | ok tg =>
        simp only
        have G2 := goodS_step G (.makedir tg true) (by intro h; cases h)
        rcases lift_cases (lift_call F hF t G (.makedir tg true) rfl) with ⟨s2, v2, hr2, hf2⟩ | ⟨s2, e2, e2', hr2, hf2⟩
        · rw [hr2] at G2
          rw [prim_makedir, prim_makedir, hr2, hf2]
          exact lift_structEntries a b d rest _ s2 G2
        · rw [hr2] at G2
          rw [prim_makedir, prim_makedir, hr2, hf2]
          exact ⟨lift_err _ _ _, G2⟩

theorem lift_copyFileInternal (t : State) (G : GoodS t) (a b : Str) :
    Lift (copyFileInternal (PF F) t a b) (copyFileInternal PR t a b) ∧ GoodS (copyFileInternal PR t a b).1 := by
  simp only [copyFileInternal]
  obtain ⟨hl, G1⟩ := lift_validateOf F hF t G a
  rcases lift_cases hl with ⟨s, v, hr, hf⟩ | ⟨s, e, e', hr, hf⟩
  · rw [hr] at G1
    rw [prim_validatepath, prim_validatepath, hr, hf]
    simp only
    obtain ⟨hl2, G2⟩ := lift_validateOf F hF s G1 b
    rcases lift_cases hl2 with ⟨s2, v2, hr2, hf2⟩ | ⟨s2, e2, e2', hr2, hf2⟩
    · rw [hr2] at G2
      rw [prim_validatepath, prim_validatepath, hr2, hf2]
      simp only
      split
      · exact ⟨lift_refl _, G2⟩
      · exact ⟨lift_call F hF s2 G2 (.copy a b true) rfl, goodS_step G2 _ (by intro h; cases h)⟩
    · rw [hr2] at G2
      rw [prim_validatepath, prim_validatepath, hr2, hf2]
      exact ⟨lift_err _ _ _, G2⟩
  · rw [hr] at G1
    rw [prim_validatepath, prim_validatepath, hr, hf]
    exact ⟨lift_err _ _ _, G1⟩

theorem lift_fileEntries (a b d : Str) : ∀ (l : List ScanInfo) (q : List Str) (t : State), GoodS t →
    Lift (fileEntries (PF F) a b d l q t) (fileEntries PR a b d l q t) ∧ GoodS (fileEntries PR a b d l q t).1
  | [], _, t, G => ⟨lift_refl _, G⟩
  | (n, isDir, sz) :: rest, q, t, G => by
    simp only [fileEntries]
    cases isDir with
    | true => simpa using lift_fileEntries a b d rest _ t G
    | false =>
      simp only [Bool.false_eq_true, if_false]
      cases target a b (combine d n) with
      | err e => exact ⟨lift_refl _, G⟩
      | ok tg =>
        simp only
        obtain ⟨hl, G2⟩ := lift_copyFileInternal F hF t G (combine d n) tg
        rcases lift_cases hl with ⟨s2, v2, hr2, hf2⟩ | ⟨s2, e2, e2', hr2, hf2⟩
        · rw [hr2] at G2
          rw [hr2, hf2]
          exact lift_fileEntries a b d rest _ s2 G2
        · rw [hr2] at G2
          rw [hr2, hf2]
          exact ⟨lift_err _ _ _, G2⟩

theorem lift_walkBreadth (visitF visitR : Str → List ScanInfo → List Str → State → State × Res (List Str))
    (hv : ∀ d l q t, GoodS t → Lift (visitF d l q t) (visitR d l q t) ∧ GoodS (visitR d l q t).1) :
    ∀ (fuel : Nat) (Q : List Str) (t : State), GoodS t →
      Lift (walkBreadth (PF F) visitF fuel Q t) (walkBreadth PR visitR fuel Q t) ∧
      GoodS (walkBreadth PR visitR fuel Q t).1
  | 0, _, t, G => ⟨lift_refl _, G⟩
  | _ + 1, [], t, G => ⟨lift_refl _, G⟩
  | fuel + 1, d :: Q, t, G => by
    simp only [walkBreadth]
    obtain ⟨hl, G1⟩ := lift_scanOf F hF t G d
    rcases lift_cases hl with ⟨s, v, hr, hf⟩ | ⟨s, e, e', hr, hf⟩
    · rw [hr] at G1
      rw [prim_scandir, prim_scandir, hr, hf]
      simp only
      obtain ⟨hl2, G2⟩ := hv d v Q s G1
      rcases lift_cases hl2 with ⟨s2, v2, hr2, hf2⟩ | ⟨s2, e2, e2', hr2, hf2⟩
      · rw [hr2] at G2
        rw [hr2, hf2]
        exact lift_walkBreadth visitF visitR hv fuel v2 s2 G2
      · rw [hr2] at G2
        rw [hr2, hf2]
        exact ⟨lift_err _ _ _, G2⟩
    · rw [hr] at G1
      rw [prim_scandir, prim_scandir, hr, hf]
      exact ⟨lift_err _ _ _, G1⟩

theorem lift_copyDir (fuel : Nat) (t : State) (G : GoodS t) (a b : Str) :
    Lift (copyDir (PF F) fuel t a b) (copyDir PR fuel t a b) ∧ GoodS (copyDir PR fuel t a b).1 := by
  simp only [copyDir]
  cases normRes a with
  | err e => exact ⟨lift_refl _, G⟩
  | ok na =>
    cases normRes b with
    | err e => exact ⟨lift_refl _, G⟩
    | ok nb =>
      simp only
      obtain ⟨hl, G1⟩ := lift_validateOf F hF t G a
      rcases lift_cases hl with ⟨s, ra, hr, hf⟩ | ⟨s, e, e', hr, hf⟩
      · rw [hr] at G1
        rw [prim_validatepath, prim_validatepath, hr, hf]
        simp only
        obtain ⟨hl2, G2⟩ := lift_validateOf F hF s G1 b
        rcases lift_cases hl2 with ⟨s2, rb, hr2, hf2⟩ | ⟨s2, e2, e2', hr2, hf2⟩
        · rw [hr2] at G2
          rw [prim_validatepath, prim_validatepath, hr2, hf2]
          simp only
          split
          · exact ⟨lift_refl _, G2⟩
          · have G3 := goodS_step G2 (.makedirs rb true) (by intro h; cases h)
            rcases lift_cases (lift_call F hF s2 G2 (.makedirs rb true) rfl) with ⟨s3, v3, hr3, hf3⟩ | ⟨s3, e3, e3', hr3, hf3⟩
            · rw [hr3] at G3
              rw [prim_makedirs, prim_makedirs, hr3, hf3]
              simp only [structLoop, filesLoop]
              obtain ⟨hl4, G4⟩ := lift_walkBreadth F hF _ _
                (fun d l q t' G' => lift_structEntries F hF ra rb d l q t' G') fuel [ra] s3 G3
              rcases lift_cases hl4 with ⟨s4, v4, hr4, hf4⟩ | ⟨s4, e4, e4', hr4, hf4⟩
              · rw [hr4] at G4
                rw [hr4, hf4]
                exact lift_walkBreadth F hF _ _ (fun d l q t' G' => lift_fileEntries F hF na nb d l q t' G') fuel [na] s4 G4
              · rw [hr4] at G4
                rw [hr4, hf4]
                exact ⟨lift_err _ _ _, G4⟩
            · rw [hr3] at G3
              rw [prim_makedirs, prim_makedirs, hr3, hf3]
              exact ⟨lift_err _ _ _, G3⟩
        · rw [hr2] at G2
          rw [prim_validatepath, prim_validatepath, hr2, hf2]
          exact ⟨lift_err _ _ _, G2⟩
      · rw [hr] at G1
        rw [prim_validatepath, prim_validatepath, hr, hf]
        exact ⟨lift_err _ _ _, G1⟩


/-! ### `FS.copydir`, `move_dir`, `FS.movedir` -/

theorem lift_whenDir (rF rR : State × Out) (h : Lift rF rR) (G1 : GoodS rR.1) (kF kR : State → State × Out)
    (hk : ∀ s, GoodS s → Lift (kF s) (kR s) ∧ GoodS (kR s).1) :
    Lift (whenDir rF kF) (whenDir rR kR) ∧ GoodS (whenDir rR kR).1 := by
  rcases lift_cases h with ⟨s, v, hr, hf⟩ | ⟨s, e, e', hr, hf⟩
  · rw [hr] at G1
    rw [hr, hf]
    simp only [whenDir]
    cases v with
    | info nm d sz =>
      cases d with
      | true => exact hk s G1
      | false => exact ⟨lift_refl _, G1⟩
    | _ => exact ⟨lift_refl _, G1⟩
  · rw [hr] at G1
    rw [hr, hf]
    exact ⟨lift_err _ _ _, G1⟩

theorem lift_whenExists (create : Bool) (p : Str) (t : State) (G : GoodS t) (kF kR : State → State × Out)
    (hk : ∀ s, GoodS s → Lift (kF s) (kR s) ∧ GoodS (kR s).1) :
    Lift (whenExists create (fun s => (PF F).exists_ s p) t kF) (whenExists create (fun s => PR.exists_ s p) t kR) ∧
    GoodS (whenExists create (fun s => PR.exists_ s p) t kR).1 := by
  cases create with
  | true => simpa [whenExists] using hk t G
  | false =>
    simp only [whenExists, Bool.false_eq_true, if_false]
    have G3 := goodS_step G (.exists_ p) (by intro h; cases h)
    rcases lift_cases (lift_call F hF t G (.exists_ p) rfl) with ⟨s3, v3, hr3, hf3⟩ | ⟨s3, e3, e3', hr3, hf3⟩
    · rw [hr3] at G3
      rw [prim_exists, prim_exists, hr3, hf3]
      cases v3 with
      | bool bb =>
        cases bb with
        | false => exact ⟨lift_refl _, G3⟩
        | true => exact hk s3 G3
      | _ => exact hk s3 G3
    · rw [hr3] at G3
      rw [prim_exists, prim_exists, hr3, hf3]
      exact ⟨lift_err _ _ _, G3⟩

theorem lift_copydir (fuel : Nat) (t : State) (G : GoodS t) (a b : Str) (create : Bool) :
    Lift (copydir (PF F) fuel t a b create) (copydir PR fuel t a b create) ∧ GoodS (copydir PR fuel t a b create).1 := by
  simp only [copydir]
  obtain ⟨hl, G1⟩ := lift_validateOf F hF t G a
  rcases lift_cases hl with ⟨s, ns, hr, hf⟩ | ⟨s, e, e', hr, hf⟩
  · rw [hr] at G1
    rw [prim_validatepath, prim_validatepath, hr, hf]
    simp only
    obtain ⟨hl2, G2⟩ := lift_validateOf F hF s G1 b
    rcases lift_cases hl2 with ⟨s2, nd, hr2, hf2⟩ | ⟨s2, e2, e2', hr2, hf2⟩
    · rw [hr2] at G2
      rw [prim_validatepath, prim_validatepath, hr2, hf2]
      simp only
      split
      · exact ⟨lift_refl _, G2⟩
      · refine lift_whenExists F hF create nd s2 G2 _ _ (fun s' G' => ?_)
        exact lift_whenDir F hF _ _ (lift_call F hF s' G' (.getinfo ns) rfl) (goodS_step G' _ (by intro h; cases h)) _ _
          (fun s'' G'' => lift_copyDir F hF fuel s'' G'' ns nd)
    · rw [hr2] at G2
      rw [prim_validatepath, prim_validatepath, hr2, hf2]
      exact ⟨lift_err _ _ _, G2⟩
  · rw [hr] at G1
    rw [prim_validatepath, prim_validatepath, hr, hf]
    exact ⟨lift_err _ _ _, G1⟩

theorem lift_moveDir (rtF rtR : State → Str → State × Out)
    (hrt : ∀ s p, GoodS s → Lift (rtF s p) (rtR s p) ∧ GoodS (rtR s p).1)
    (fuel : Nat) (t : State) (G : GoodS t) (a b : Str) :
    Lift (moveDir (PF F) rtF fuel t a b) (moveDir PR rtR fuel t a b) ∧ GoodS (moveDir PR rtR fuel t a b).1 := by
  simp only [moveDir]
  refine lift_whenDir F hF _ _ (lift_call F hF t G (.getinfo a) rfl) (goodS_step G _ (by intro h; cases h)) _ _
    (fun s G1 => ?_)
  simp only [moveDirBody, andThen]
  have G2 := goodS_step G1 (.makedir b true) (by intro h; cases h)
  rcases lift_cases (lift_call F hF s G1 (.makedir b true) rfl) with ⟨s2, v2, hr2, hf2⟩ | ⟨s2, e2, e2', hr2, hf2⟩
  · rw [hr2] at G2
    rw [prim_makedir, prim_makedir, hr2, hf2]
    simp only
    obtain ⟨hl3, G3⟩ := lift_copyDir F hF fuel s2 G2 a b
    rcases lift_cases hl3 with ⟨s3, v3, hr3, hf3⟩ | ⟨s3, e3, e3', hr3, hf3⟩
    · rw [hr3] at G3
      rw [hr3, hf3]
      exact hrt s3 a G3
    · rw [hr3] at G3
      rw [hr3, hf3]
      exact ⟨lift_err _ _ _, G3⟩
  · rw [hr2] at G2
    rw [prim_makedir, prim_makedir, hr2, hf2]
    exact ⟨lift_err _ _ _, G2⟩

theorem lift_movedir (rtF rtR : State → Str → State × Out)
    (hrt : ∀ s p, GoodS s → Lift (rtF s p) (rtR s p) ∧ GoodS (rtR s p).1)
    (fuel : Nat) (t : State) (G : GoodS t) (a b : Str) (create : Bool) :
    Lift (movedir (PF F) rtF fuel t a b create) (movedir PR rtR fuel t a b create) ∧
    GoodS (movedir PR rtR fuel t a b create).1 := by
  simp only [movedir]
  obtain ⟨hl, G1⟩ := lift_validateOf F hF t G a
  rcases lift_cases hl with ⟨s, ns, hr, hf⟩ | ⟨s, e, e', hr, hf⟩
  · rw [hr] at G1
    rw [prim_validatepath, prim_validatepath, hr, hf]
    simp only
    obtain ⟨hl2, G2⟩ := lift_validateOf F hF s G1 b
    rcases lift_cases hl2 with ⟨s2, nd, hr2, hf2⟩ | ⟨s2, e2, e2', hr2, hf2⟩
    · rw [hr2] at G2
      rw [prim_validatepath, prim_validatepath, hr2, hf2]
      simp only
      split
      · exact ⟨lift_refl _, G2⟩
      · split
        · exact ⟨lift_refl _, G2⟩
        · exact lift_whenExists F hF create b s2 G2 _ _
            (fun s' G' => lift_moveDir F hF rtF rtR hrt fuel s' G' a b)
    · rw [hr2] at G2
      rw [prim_validatepath, prim_validatepath, hr2, hf2]
      exact ⟨lift_err _ _ _, G2⟩
  · rw [hr] at G1
    rw [prim_validatepath, prim_validatepath, hr, hf]
    exact ⟨lift_err _ _ _, G1⟩

end

end Fs.BaseWalkLift
