/-
  Helper lemmas for the mirror part of C19: what one `_mirror` step leaves under every name.
-/
import FsModel.Copy
import FsProofs.Lemmas.CopyDirLemmas

namespace Fs.Copy
open Fs

/-- a loop over the source entries whose body touches only the entry's own name, and there only
as a function of what the two state components hold under that name -/
theorem foldl_local (body : CEnts × CEnts → Name × CNode → CEnts × CEnts)
    (F1 F2 : Name → CNode → Option CNode → Option CNode → Option CNode)
    (hother : ∀ st x k, k ≠ x.1 → lookup k (body st x).1 = lookup k st.1 ∧ lookup k (body st x).2 = lookup k st.2)
    (hself : ∀ st x, lookup x.1 (body st x).1 = F1 x.1 x.2 (lookup x.1 st.1) (lookup x.1 st.2) ∧
      lookup x.1 (body st x).2 = F2 x.1 x.2 (lookup x.1 st.1) (lookup x.1 st.2)) :
    ∀ (xs : CEnts), entsWf xs = true → ∀ (st : CEnts × CEnts) (k : Name),
      lookup k (xs.foldl body st).1 = (match lookup k xs with
        | none => lookup k st.1
        | some v => F1 k v (lookup k st.1) (lookup k st.2)) ∧
      lookup k (xs.foldl body st).2 = (match lookup k xs with
        | none => lookup k st.2
        | some v => F2 k v (lookup k st.1) (lookup k st.2))
  | [], _, st, k => by simp
  | (a, v) :: rest, hwf, st, k => by
    obtain ⟨ha, _, hrest⟩ := entsWf_cons hwf
    have ih := foldl_local body F1 F2 hother hself rest hrest (body st (a, v)) k
    simp only [List.foldl_cons]
    by_cases hk : a = k
    · subst hk
      rw [ih.1, ih.2, ha]
      simp only [lookup, if_true]
      exact hself st (a, v)
    · have hk' : k ≠ a := fun e => hk e.symm
      rw [ih.1, ih.2]
      simp only [lookup, hk, if_false]
      rw [(hother st (a, v) k hk').1, (hother st (a, v) k hk').2]
      exact ⟨rfl, rfl⟩

theorem lookup_foldl_erase (k : Name) : ∀ (dict cur : CEnts),
    lookup k (dict.foldl (fun cur x => erase x.1 cur) cur) =
      if (lookup k dict).isSome then none else lookup k cur
  | [], cur => by simp
  | (a, v) :: rest, cur => by
    simp only [List.foldl_cons]
    rw [lookup_foldl_erase k rest (erase a cur)]
    by_cases hk : a = k
    · subst hk; simp [lookup, lookup_erase_self]
    · have hk' : k ≠ a := fun e => hk e.symm
      simp [lookup, hk, lookup_erase_ne hk']

/-- the file a successful copy leaves at the destination -/
def copiedFile (e : Env) (o : MOpts) (b : Bytes) (m : Option Int) : CNode := .file b (newTime e o.preserve m)

/-- what one `_mirror` step leaves under name `k` in a directory whose source entries are `es` and
whose destination listing was `ds` -/
def stepSpec (e : Env) (o : MOpts) (w : Walker) (abs : List Name) (es ds : CEnts) (k : Name) : Option CNode :=
  match lookup k es with
  | none => none
  | some (.file b m) =>
    if w.fileOk abs k then
      (match lookup k ds with
       | some (.file b' m') => if o.copyIfNewer && !compare b m b' m' then some (.file b' m') else some (copiedFile e o b m)
       | _ => some (copiedFile e o b m))
    else none
  | some (.dir _) =>
    if w.dirOk abs k then
      (match lookup k ds with
       | some (.dir x) => some (.dir x)
       | some (.file _ _) => some (.dir [])
       | none => some (.dir []))
    else none

theorem mirrorStep_lookup (e : Env) (o : MOpts) (w : Walker) (abs : List Name) (es ds : CEnts)
    (hwf : entsWf es = true) (k : Name) :
    lookup k (mirrorStep e o w abs es ds) = stepSpec e o w abs es ds k := by
  unfold mirrorStep
  simp only []
  rw [lookup_foldl_erase]
  -- phase 1: files
  have p1 := foldl_local (filesBody e o w abs)
    (fun k v c d => match v with
      | .file b m => if w.fileOk abs k then
          (match d with
           | some (.file b' m') => if o.copyIfNewer && !compare b m b' m' then c else some (copiedFile e o b m)
           | _ => some (copiedFile e o b m))
        else c
      | .dir _ => c)
    (fun k v _ d => match v with
      | .file _ _ => if w.fileOk abs k then none else d
      | .dir _ => d)
    (by
      intro st x k hk
      obtain ⟨a, v⟩ := x
      cases v with
      | dir _ => exact ⟨rfl, rfl⟩
      | file b m =>
        simp only [filesBody]
        split
        · unfold mirrorFile
          simp only
          split <;> try split
          all_goals simp [lookup_put_ne hk, lookup_erase_ne hk]
        · exact ⟨rfl, rfl⟩)
    (by
      intro st x
      obtain ⟨a, v⟩ := x
      cases v with
      | dir _ => exact ⟨rfl, rfl⟩
      | file b m =>
        simp only [filesBody]
        split
        · unfold mirrorFile
          simp only
          split <;> try split
          all_goals simp_all [lookup_put_self, lookup_erase_self, copiedFile]
        · exact ⟨rfl, rfl⟩)
    es hwf (ds, ds) k
  -- phase 2: directories
  have p2 := foldl_local (dirsBody w abs)
    (fun k v c d => match v with
      | .dir _ => if w.dirOk abs k then
          (match d with
           | some (.dir _) => c
           | some (.file _ _) => some (.dir [])
           | none => some (.dir []))
        else c
      | .file _ _ => c)
    (fun k v _ d => match v with
      | .dir _ => if w.dirOk abs k then none else d
      | .file _ _ => d)
    (by
      intro st x k hk
      obtain ⟨a, v⟩ := x
      cases v with
      | file _ _ => exact ⟨rfl, rfl⟩
      | dir _ =>
        simp only [dirsBody]
        split
        · unfold mirrorDirEntry
          split
          all_goals simp [lookup_put_ne hk, lookup_erase_ne hk]
        · exact ⟨rfl, rfl⟩)
    (by
      intro st x
      obtain ⟨a, v⟩ := x
      cases v with
      | file _ _ => exact ⟨rfl, rfl⟩
      | dir _ =>
        simp only [dirsBody]
        split
        · unfold mirrorDirEntry
          split
          all_goals simp_all [lookup_put_self, lookup_erase_self]
        · exact ⟨rfl, rfl⟩)
    es hwf (es.foldl (filesBody e o w abs) (ds, ds)) k
  rw [p2.1, p2.2, p1.1, p1.2]
  unfold stepSpec
  cases hl : lookup k es with
  | none => simp only []; cases lookup k ds <;> simp
  | some v =>
    cases v with
    | file b m =>
      simp only []
      by_cases hf : w.fileOk abs k = true
      · simp only [hf, if_true, Option.isSome_none, Bool.false_eq_true, if_false]
        cases hd : lookup k ds with
        | none => rfl
        | some x => cases x <;> simp
      · simp only [hf, if_false]
        cases lookup k ds <;> simp
    | dir sub =>
      simp only []
      by_cases hf : w.dirOk abs k = true
      · simp only [hf, if_true, Option.isSome_none, Bool.false_eq_true, if_false]
        cases hd : lookup k ds with
        | none => rfl
        | some x => cases x <;> simp
      · simp only [hf, if_false]
        cases lookup k ds <;> simp

theorem mirrorSubs_lookup (e : Env) (o : MOpts) (w : Walker) (abs : List Name) (depth : Nat) :
    ∀ (es : CEnts), entsWf es = true → ∀ (cur : CEnts) (k : Name),
    lookup k (mirrorSubs e o w abs depth es cur) =
      match lookup k es with
      | some (.dir sub) =>
        if w.dirOk abs k && w.scan (depth + 1) then
          some (.dir (mirrorNode e o w (abs ++ [k]) (depth + 1) (.dir sub) (childEnts (lookup k cur))))
        else lookup k cur
      | _ => lookup k cur
  | [], _, cur, k => by simp [mirrorSubs]
  | (a, v) :: rest, hwf, cur, k => by
    obtain ⟨ha, _, hrest⟩ := entsWf_cons hwf
    cases v with
    | file b m =>
      rw [mirrorSubs, mirrorSubs_lookup e o w abs depth rest hrest cur k]
      by_cases hk : a = k
      · subst hk; simp [lookup, ha]
      · simp [lookup, hk]
    | dir sub =>
      rw [mirrorSubs]
      by_cases hsel : (w.dirOk abs a && w.scan (depth + 1)) = true
      · simp only [hsel, if_true]
        rw [mirrorSubs_lookup e o w abs depth rest hrest _ k]
        by_cases hk : a = k
        · subst hk; simp [lookup, ha, lookup_put_self, hsel]
        · have hk' : k ≠ a := fun e => hk e.symm
          simp [lookup, hk, lookup_put_ne hk']
      · simp only [hsel, Bool.false_eq_true, if_false]
        rw [mirrorSubs_lookup e o w abs depth rest hrest cur k]
        by_cases hk : a = k
        · subst hk; simp [lookup, ha, hsel]
        · simp [lookup, hk]

/-- what `_mirror` leaves under name `k` of a directory (source entries `es`, destination listing `ds`) -/
theorem mirrorNode_lookup (e : Env) (o : MOpts) (w : Walker) (abs : List Name) (depth : Nat) (es ds : CEnts)
    (hwf : entsWf es = true) (k : Name) :
    lookup k (mirrorNode e o w abs depth (.dir es) ds) =
      match lookup k es with
      | some (.dir sub) =>
        if w.dirOk abs k && w.scan (depth + 1) then
          some (.dir (mirrorNode e o w (abs ++ [k]) (depth + 1) (.dir sub) (childEnts (lookup k ds))))
        else stepSpec e o w abs es ds k
      | _ => stepSpec e o w abs es ds k := by
  rw [mirrorNode, mirrorSubs_lookup e o w abs depth es hwf, mirrorStep_lookup e o w abs es ds hwf]
  cases hl : lookup k es with
  | none => rfl
  | some v =>
    cases v with
    | file b m => rfl
    | dir sub =>
      simp only []
      split
      · rename_i hsel
        have hd : w.dirOk abs k = true := by
          cases h1 : w.dirOk abs k <;> simp [h1] at hsel ⊢
        simp only [stepSpec, hl, hd, if_true]
        cases hdl : lookup k ds with
        | none => rfl
        | some x => cases x <;> rfl
      · rfl

theorem wf_of_lookup {es : CEnts} {k : Name} {v : CNode} (hwf : entsWf es = true) (h : lookup k es = some v) :
    v.wf = true := by
  induction es with
  | nil => simp at h
  | cons x xs ih =>
    obtain ⟨a, b⟩ := x
    obtain ⟨_, hb, hxs⟩ := entsWf_cons hwf
    by_cases hk : a = k
    · simp [lookup, hk] at h; subst h; exact hb
    · simp [lookup, hk] at h; exact ih hxs h

/-! ### the second run of `mirror(copy_if_newer=True)` -/

theorem lookup_of_mem {es : CEnts} (hwf : entsWf es = true) {k : Name} {v : CNode} (h : (k, v) ∈ es) :
    lookup k es = some v := by
  induction es with
  | nil => simp at h
  | cons x xs ih =>
    obtain ⟨a, b⟩ := x
    obtain ⟨ha, _, hxs⟩ := entsWf_cons hwf
    rcases List.mem_cons.1 h with h | h
    · cases h; simp [lookup]
    · have := ih hxs h
      have hne : a ≠ k := by intro e; subst e; rw [ha] at this; cases this
      simp [lookup, hne, this]

theorem timesKnown_of_mem {e : Env} {o : MOpts} {es : CEnts} (ht : timesKnownEnts e o es = true)
    {k : Name} {v : CNode} (h : (k, v) ∈ es) : timesKnown e o v = true := by
  induction es with
  | nil => simp at h
  | cons x xs ih =>
    obtain ⟨a, b⟩ := x
    simp only [timesKnownEnts, Bool.and_eq_true] at ht
    rcases List.mem_cons.1 h with h | h
    · cases h; exact ht.1
    · exact ih ht.2 h

theorem fileCopied_after_copy (e : Env) (o : MOpts) (b : Bytes) (m : Option Int)
    (hc : o.copyIfNewer = true) (hd : e.dstTimes = true) (ht : timesKnown e o (.file b m) = true) :
    fileCopied o b m (some (copiedFile e o b m)) = false := by
  cases m with
  | none => simp [timesKnown] at ht
  | some t =>
    simp only [timesKnown, Bool.or_eq_true, decide_eq_true_eq] at ht
    simp only [fileCopied, copiedFile, hc, Bool.true_and, Bool.not_not, compare, newTime, hd, if_true,
      bne_self_eq_false, Bool.false_or]
    by_cases hp : o.preserve = true
    · simp [hp, newerThan]
    · have hle : t ≤ e.now := by rcases ht with h | h; exact absurd h hp; exact h
      simp only [hp]
      simp [newerThan]; omega

mutual
theorem secondRun_node (e : Env) (o : MOpts) (w : Walker)
    (hc : o.copyIfNewer = true) (hd : e.dstTimes = true) :
    ∀ (n : CNode) (abs : List Name) (depth : Nat) (ds : CEnts), n.wf = true → timesKnown e o n = true →
      copiedNode e o w abs depth n (mirrorNode e o w abs depth n ds) = []
  | .file _ _, _, _, _, _, _ => by simp [copiedNode]
  | .dir es, abs, depth, ds, hwf, ht => by
    have hwf' : entsWf es = true := by simpa [CNode.wf] using hwf
    have ht' : timesKnownEnts e o es = true := by simpa [timesKnown] using ht
    rw [copiedNode]
    have h1 : copiedHere o w abs es (mirrorNode e o w abs depth (.dir es) ds) = [] := by
      unfold copiedHere
      rw [List.filterMap_eq_nil_iff]
      intro x hx
      obtain ⟨k, v⟩ := x
      cases v with
      | dir _ => rfl
      | file b m =>
        simp only []
        have hl := lookup_of_mem hwf' hx
        have htf : timesKnown e o (.file b m) = true := timesKnown_of_mem ht' hx
        by_cases hf : w.fileOk abs k = true
        · have : fileCopied o b m (lookup k (mirrorNode e o w abs depth (.dir es) ds)) = false := by
            rw [mirrorNode_lookup _ _ _ _ _ _ _ hwf', hl]
            simp only [stepSpec, hl, hf, if_true]
            cases lookup k ds with
            | none => exact fileCopied_after_copy e o b m hc hd htf
            | some y =>
              cases y with
              | dir _ => exact fileCopied_after_copy e o b m hc hd htf
              | file b' m' =>
                simp only []
                by_cases hk : (o.copyIfNewer && !compare b m b' m') = true
                · simp only [hk, if_true, fileCopied]; simp
                · simp only [hk]; exact fileCopied_after_copy e o b m hc hd htf
          simp [hf, this]
        · simp [hf]
    rw [h1, List.nil_append]
    exact secondRun_subs e o w hc hd es es abs depth ds hwf' ht' (fun x hx => hx)
theorem secondRun_subs (e : Env) (o : MOpts) (w : Walker)
    (hc : o.copyIfNewer = true) (hd : e.dstTimes = true) :
    ∀ (es' es : CEnts) (abs : List Name) (depth : Nat) (ds : CEnts), entsWf es = true → timesKnownEnts e o es = true →
      (∀ x ∈ es', x ∈ es) →
      copiedSubs e o w abs depth es'
        (mirrorStep e o w abs es (mirrorNode e o w abs depth (.dir es) ds)) = []
  | [], _, _, _, _, _, _, _ => by simp [copiedSubs]
  | (k, v) :: rest, es, abs, depth, ds, hwf, ht, hsub => by
    have hrest := secondRun_subs e o w hc hd rest es abs depth ds hwf ht
      (fun x hx => hsub x (List.mem_cons_of_mem _ hx))
    cases v with
    | file _ _ => rw [copiedSubs, hrest]; rfl
    | dir sub =>
      rw [copiedSubs, hrest, List.append_nil]
      have hmem := hsub (k, .dir sub) (List.mem_cons_self ..)
      have hl := lookup_of_mem hwf hmem
      by_cases hdk : w.dirOk abs k = true
      · by_cases hscan : w.scan (depth + 1) = true
        · simp only [hdk, hscan, Bool.and_self, if_true]
          have hchild : childEnts (lookup k (mirrorStep e o w abs es (mirrorNode e o w abs depth (.dir es) ds)))
              = mirrorNode e o w (abs ++ [k]) (depth + 1) (.dir sub) (childEnts (lookup k ds)) := by
            rw [mirrorStep_lookup _ _ _ _ _ _ hwf]
            simp only [stepSpec, hl, hdk, if_true]
            rw [mirrorNode_lookup _ _ _ _ _ _ _ hwf, hl]
            simp only [hdk, hscan, Bool.and_self, if_true, childEnts]
          rw [hchild]
          rw [secondRun_node e o w hc hd (.dir sub) (abs ++ [k]) (depth + 1) _ (wf_of_lookup hwf hl)
            (timesKnown_of_mem ht hmem)]
          rfl
        · simp [hscan]
      · simp [hdk]
end

/-! ### exactness and idempotence, by induction on the path -/

theorem mirror_exact_aux (e : Env) (pt : Bool) : ∀ (q : List Name), q ≠ [] →
    ∀ (es ds : CEnts) (abs : List Name) (depth : Nat), entsWf es = true →
    view ((CNode.dir (mirrorNode e { copyIfNewer := false, preserve := pt } Walker.all abs depth (.dir es) ds)).get q)
      = copyView e pt (view ((CNode.dir es).get q))
  | [], h, _, _, _, _, _ => absurd rfl h
  | k :: r, _, es, ds, abs, depth, hwf => by
    rw [get_cons_dir, get_cons_dir, mirrorNode_lookup _ _ _ _ _ _ _ hwf]
    cases hl : lookup k es with
    | none => simp [stepSpec, hl, view, copyView]
    | some v =>
      cases v with
      | file b m =>
        have hs : stepSpec e { copyIfNewer := false, preserve := pt } Walker.all abs es ds k
            = some (.file b (newTime e pt m)) := by
          simp only [stepSpec, hl, Walker.all, if_true, Bool.false_and, Bool.false_eq_true, if_false, copiedFile]
          cases lookup k ds with
          | none => rfl
          | some x => cases x <;> rfl
        simp only [hs, Option.bind_some]
        cases r with
        | nil => simp [view, copyView]
        | cons c r' => simp [view, copyView]
      | dir sub =>
        simp only [Walker.all, Walker.scan, Bool.and_self, if_true, Option.bind_some]
        cases r with
        | nil => simp [view, copyView]
        | cons c r' =>
          exact mirror_exact_aux e pt (c :: r') (by simp) sub _ _ _ (by
            have := wf_of_lookup hwf hl; simpa [CNode.wf] using this)


theorem mirror_idempotent_aux (e : Env) (o : MOpts) (w : Walker) :
    ∀ (q : List Name), q ≠ [] →
    ∀ (es ds : CEnts) (abs : List Name) (depth : Nat), entsWf es = true →
    view ((CNode.dir (mirrorNode e o w abs depth (.dir es) (mirrorNode e o w abs depth (.dir es) ds))).get q)
      = view ((CNode.dir (mirrorNode e o w abs depth (.dir es) ds)).get q)
  | [], h, _, _, _, _, _ => absurd rfl h
  | k :: r, _, es, ds, abs, depth, hwf => by
    rw [get_cons_dir, get_cons_dir, mirrorNode_lookup _ _ _ _ _ _ _ hwf, mirrorNode_lookup _ _ _ _ _ _ _ hwf]
    cases hl : lookup k es with
    | none => simp [stepSpec, hl]
    | some v =>
      cases v with
      | file b m =>
        simp only []
        by_cases hf : w.fileOk abs k = true
        · -- first run: the source file, or the destination's own file kept by copy_if_newer
          have h1 : stepSpec e o w abs es ds k = some (copiedFile e o b m) ∨
              ∃ b' m', stepSpec e o w abs es ds k = some (.file b' m') ∧
                (o.copyIfNewer && !compare b m b' m') = true := by
            simp only [stepSpec, hl, hf, if_true]
            cases lookup k ds with
            | none => exact Or.inl rfl
            | some x =>
              cases x with
              | dir _ => exact Or.inl rfl
              | file b' m' =>
                simp only []
                by_cases hc : (o.copyIfNewer && !compare b m b' m') = true
                · right; exact ⟨b', m', by simp [hc], hc⟩
                · left; simp [hc]
          have h2 : stepSpec e o w abs es (mirrorNode e o w abs depth (.dir es) ds) k = stepSpec e o w abs es ds k := by
            conv => lhs; simp only [stepSpec, hl, hf, if_true]
            rw [mirrorNode_lookup _ _ _ _ _ _ _ hwf, hl]
            simp only []
            rcases h1 with h1 | ⟨b', m', h1, hc⟩
            · rw [h1]; simp only [copiedFile]; split <;> rfl
            · rw [h1]; simp only [hc, if_true]
          rw [h2]
        · simp [stepSpec, hl, hf]
      | dir sub =>
        simp only []
        by_cases hd : w.dirOk abs k = true
        · by_cases hsc : w.scan (depth + 1) = true
          · simp only [hd, hsc, Bool.and_self, if_true, Option.bind_some]
            cases r with
            | nil => simp [view]
            | cons c r' =>
              simp only [childEnts]
              exact mirror_idempotent_aux e o w (c :: r') (by simp) sub _ _ _ (by
                have := wf_of_lookup hwf hl; simpa [CNode.wf] using this)
          · -- yielded but not scanned (depth limit): the first run left a directory there (the
            -- destination's own, or a fresh empty one); the second run finds it and leaves it alone
            have hsel : (w.dirOk abs k && w.scan (depth + 1)) = false := by simp [hsc]
            simp only [hsel, Bool.false_eq_true, if_false]
            have h2 : stepSpec e o w abs es (mirrorNode e o w abs depth (.dir es) ds) k = stepSpec e o w abs es ds k := by
              conv => lhs; simp only [stepSpec, hl, hd, if_true]
              rw [mirrorNode_lookup _ _ _ _ _ _ _ hwf, hl]
              have hsc' : w.scan (depth + 1) = false := by simpa using hsc
              simp only [hsel, hsc', Bool.and_false, Bool.false_eq_true, if_false, stepSpec, hl, hd, if_true]
              cases lookup k ds with
              | none => rfl
              | some x => cases x <;> rfl
            rw [h2]
        · simp [stepSpec, hl, hd]


theorem mirror_newer_exact_aux (e : Env) (o : MOpts) : ∀ (q : List Name), q ≠ [] →
    ∀ (es ds : CEnts) (abs : List Name) (depth : Nat), entsWf es = true → newerSafe es ds →
    (view ((CNode.dir (mirrorNode e o Walker.all abs depth (.dir es) ds)).get q)).noTime
      = (view ((CNode.dir es).get q)).noTime
  | [], h, _, _, _, _, _, _ => absurd rfl h
  | k :: r, _, es, ds, abs, depth, hwf, hs => by
    rw [get_cons_dir, get_cons_dir, mirrorNode_lookup _ _ _ _ _ _ _ hwf]
    cases hl : lookup k es with
    | none => simp [stepSpec, hl, view]
    | some v =>
      cases v with
      | file b m =>
        have hsp : ∃ m'', stepSpec e o Walker.all abs es ds k = some (.file b m'') := by
          simp only [stepSpec, hl, Walker.all, if_true, copiedFile]
          cases hd : lookup k ds with
          | none => exact ⟨_, rfl⟩
          | some x =>
            cases x with
            | dir _ => exact ⟨_, rfl⟩
            | file b' m' =>
              simp only []
              by_cases hc : (o.copyIfNewer && !compare b m b' m') = true
              · simp only [hc, if_true]
                have := hs [k] b m b' m' (by simp [getE, get_cons_dir, hl]) (by simp [getE, get_cons_dir, hd])
                rcases this with h | h
                · simp [h] at hc
                · subst h; exact ⟨_, rfl⟩
              · simp only [hc]; exact ⟨_, rfl⟩
        obtain ⟨m'', hsp⟩ := hsp
        simp only [hsp, Option.bind_some]
        cases r with
        | nil => simp [view, View.noTime]
        | cons c r' => simp [view]
      | dir sub =>
        simp only [Walker.all, Walker.scan, Bool.and_self, if_true, Option.bind_some]
        cases r with
        | nil => simp [view]
        | cons c r' =>
          apply mirror_newer_exact_aux e o (c :: r') (by simp) sub _ _ _ (by
            have := wf_of_lookup hwf hl; simpa [CNode.wf] using this)
          intro q b m b' m' h1 h2
          have hq : q ≠ [] := by intro e'; subst e'; simp [getE] at h1
          apply hs (k :: q) b m b' m'
          · simpa [getE, get_cons_dir, hl] using h1
          · cases hd : lookup k ds with
            | none =>
              rw [hd] at h2
              cases q with
              | nil => exact absurd rfl hq
              | cons _ _ => simp [getE, childEnts, get_cons_dir] at h2
            | some x =>
              rw [hd] at h2
              cases x with
              | file _ _ =>
                cases q with
                | nil => exact absurd rfl hq
                | cons _ _ => simp [getE, childEnts, get_cons_dir] at h2
              | dir y => simpa [getE, get_cons_dir, hd, childEnts] using h2

end Fs.Copy
