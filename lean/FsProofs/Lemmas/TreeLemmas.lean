import FsModel.Tree
import FsModel.Ref
import FsModel.RefAdm

namespace Fs.TreeLemmas
open Fs Fs.Ref

end Fs.TreeLemmas
