import FsModel.Tree
import FsModel.Ref
import FsModel.RefAdm
import FsProofs.Lemmas.PathLemmas

namespace Fs.TreeLemmas
open Fs Fs.Ref

/-! ### entry lists -/

theorem lookup_put_same (c : Name) (n : Node) (es : Ents) :
    Ents.lookup c (Ents.put c n es) = some n := by
  induction es with
  | nil => simp [Ents.put, Ents.lookup]
  | cons e es ih =>
    obtain ⟨k, v⟩ := e
    by_cases h : k = c <;> simp [Ents.put, Ents.lookup, h, ih]

theorem lookup_put_other (c k : Name) (n : Node) (es : Ents) (h : k ≠ c) :
    Ents.lookup k (Ents.put c n es) = Ents.lookup k es := by
  induction es with
  | nil => simp [Ents.put, Ents.lookup, Ne.symm h]
  | cons e es ih =>
    obtain ⟨k', v⟩ := e
    by_cases h' : k' = c
    · subst h'
      simp [Ents.put, Ents.lookup, Ne.symm h]
    · by_cases h'' : k' = k
      · subst h''
        simp [Ents.put, Ents.lookup, h']
      · simp [Ents.put, Ents.lookup, h', h'', ih]

theorem lookup_erase_other (c k : Name) (es : Ents) (h : k ≠ c) :
    Ents.lookup k (Ents.erase c es) = Ents.lookup k es := by
  induction es with
  | nil => simp [Ents.erase]
  | cons e es ih =>
    obtain ⟨k', v⟩ := e
    by_cases h' : k' = c
    · subst h'
      simp [Ents.erase, Ents.lookup, Ne.symm h]
    · by_cases h'' : k' = k
      · subst h''
        simp [Ents.erase, Ents.lookup, h']
      · simp [Ents.erase, Ents.lookup, h', h'', ih]

theorem put_lookup_self (c : Name) (n : Node) (es : Ents) (h : Ents.lookup c es = some n) :
    Ents.put c n es = es := by
  induction es with
  | nil => simp [Ents.lookup] at h
  | cons e es ih =>
    obtain ⟨k, v⟩ := e
    by_cases h' : k = c
    · simp [Ents.lookup, h'] at h
      simp [Ents.put, h', h]
    · simp [Ents.lookup, h'] at h
      simp [Ents.put, h', ih h]

theorem lookup_erase_same (c : Name) (es : Ents) (h : entsWf es = true) :
    Ents.lookup c (Ents.erase c es) = none := by
  induction es with
  | nil => simp [Ents.erase, Ents.lookup]
  | cons e es ih =>
    obtain ⟨k, v⟩ := e
    simp only [entsWf, Bool.and_eq_true] at h
    by_cases h' : k = c
    · subst h'
      simpa [Ents.erase] using h.1.1.2
    · simp [Ents.erase, Ents.lookup, h', ih h.2]

theorem lookup_wf (c : Name) (n : Node) (es : Ents) (h : entsWf es = true)
    (hl : Ents.lookup c es = some n) : n.wf = true := by
  induction es with
  | nil => simp [Ents.lookup] at hl
  | cons e es ih =>
    obtain ⟨k, v⟩ := e
    simp only [entsWf, Bool.and_eq_true] at h
    by_cases h' : k = c
    · simp [Ents.lookup, h'] at hl
      subst hl
      exact h.1.2
    · simp [Ents.lookup, h'] at hl
      exact ih h.2 hl

theorem entsWf_put (c : Name) (n : Node) (es : Ents) (hc : cleanName c = true) (hn : n.wf = true)
    (h : entsWf es = true) : entsWf (Ents.put c n es) = true := by
  induction es with
  | nil => simp [Ents.put, entsWf, hc, hn, Ents.lookup]
  | cons e es ih =>
    obtain ⟨k, v⟩ := e
    simp only [entsWf, Bool.and_eq_true] at h
    by_cases h' : k = c
    · simp [Ents.put, h', entsWf, hn, h.2]
      subst h'
      exact ⟨h.1.1.1, by simpa using h.1.1.2⟩
    · simp only [Ents.put, h', if_false, entsWf, Bool.and_eq_true]
      rw [lookup_put_other _ _ _ _ h']
      exact ⟨⟨h.1.1, h.1.2⟩, ih h.2⟩

theorem entsWf_erase (c : Name) (es : Ents) (h : entsWf es = true) :
    entsWf (Ents.erase c es) = true := by
  induction es with
  | nil => simp [Ents.erase, entsWf]
  | cons e es ih =>
    obtain ⟨k, v⟩ := e
    simp only [entsWf, Bool.and_eq_true] at h
    by_cases h' : k = c
    · simp [Ents.erase, h', h.2]
    · simp only [Ents.erase, h', if_false, entsWf, Bool.and_eq_true]
      rw [lookup_erase_other _ _ _ h']
      exact ⟨⟨h.1.1, h.1.2⟩, ih h.2⟩

/-! ### get / set / del -/

theorem get_append (p r : List Name) (t : Node) :
    t.get (p ++ r) = (t.get p).bind (Node.get r) := by
  induction p generalizing t with
  | nil => simp [Node.get]
  | cons c p ih =>
    cases t with
    | file b => simp [Node.get]
    | dir es =>
      simp only [List.cons_append, Node.get]
      cases Ents.lookup c es with
      | none => simp
      | some ch => simp [ih]

theorem get_cons_file (c : Name) (cs : List Name) (b : Bytes) : (Node.file b).get (c :: cs) = none := by
  simp [Node.get]

theorem get_wf (p : List Name) (t n : Node) (h : t.wf = true) (hg : t.get p = some n) :
    n.wf = true := by
  induction p generalizing t with
  | nil => simp [Node.get] at hg; subst hg; exact h
  | cons c p ih =>
    cases t with
    | file b => simp [Node.get] at hg
    | dir es =>
      simp only [Node.get] at hg
      cases hl : Ents.lookup c es with
      | none => simp [hl] at hg
      | some ch =>
        rw [hl] at hg
        exact ih ch (lookup_wf _ _ _ (by simpa [Node.wf] using h) hl) hg

/-- a proper prefix of an existing path is a directory -/
theorem get_prefix_dir (p : List Name) (c : Name) (r : List Name) (t n : Node)
    (h : t.get (p ++ c :: r) = some n) : ∃ es, t.get p = some (.dir es) := by
  rw [get_append] at h
  cases hp : t.get p with
  | none => simp [hp] at h
  | some x =>
    cases x with
    | file b => simp [hp, Node.get] at h
    | dir es => exact ⟨es, rfl⟩

theorem get_prefix_some (p r : List Name) (t n : Node)
    (h : t.get (p ++ r) = some n) : ∃ x, t.get p = some x := by
  rw [get_append] at h
  cases hp : t.get p with
  | none => simp [hp] at h
  | some x => exact ⟨x, rfl⟩

theorem prefix_ne_split {a q : List Name} (h : a <+: q) (hne : a ≠ q) :
    ∃ c r, q = a ++ c :: r := by
  obtain ⟨r, rfl⟩ := h
  cases r with
  | nil => simp at hne
  | cons c r => exact ⟨c, r, rfl⟩

theorem get_proper_prefix_dir {a q : List Name} {t n : Node} (h : a <+: q) (hne : a ≠ q)
    (hq : t.get q = some n) : ∃ es, t.get a = some (.dir es) := by
  obtain ⟨c, r, rfl⟩ := prefix_ne_split h hne
  exact get_prefix_dir _ _ _ _ _ hq

theorem get_prefix_exists {a q : List Name} {t n : Node} (h : a <+: q)
    (hq : t.get q = some n) : ∃ x, t.get a = some x := by
  obtain ⟨r, rfl⟩ := h
  exact get_prefix_some _ _ _ _ hq

theorem get_parent_dir {cs : List Name} {t n : Node} (hne : cs ≠ []) (h : t.get cs = some n) :
    ∃ es, t.get cs.dropLast = some (.dir es) := by
  have : cs = cs.dropLast ++ [cs.getLast hne] := (List.dropLast_concat_getLast hne).symm
  rw [this] at h
  exact get_prefix_dir _ _ _ _ _ h

theorem isDir_set (cs : List Name) (t v : Node) : (t.set cs v).isDir = t.isDir := by
  fun_induction Node.set cs t v <;> simp [Node.isDir]

theorem isDir_del (cs : List Name) (t : Node) : (t.del cs).isDir = t.isDir := by
  fun_induction Node.del cs t <;> simp [Node.isDir]

theorem set_wf (cs : List Name) (t v : Node) (hc : ∀ c ∈ cs, cleanName c = true)
    (hv : v.wf = true) (ht : t.wf = true) : (t.set cs v).wf = true := by
  fun_induction Node.set cs t v with
  | case1 n v => exact ht
  | case2 c es v =>
    simp only [Node.wf] at ht ⊢
    exact entsWf_put _ _ _ (hc c (by simp)) hv ht
  | case3 c d cs es v ch hl ih =>
    simp only [Node.wf] at ht ⊢
    refine entsWf_put _ _ _ (hc c (by simp)) (ih ?_ hv (lookup_wf _ _ _ ht hl)) ht
    intro x hx
    exact hc x (List.mem_cons_of_mem _ hx)
  | case4 c d cs es v hl => exact ht
  | case5 c cs b v => exact ht

theorem del_wf (cs : List Name) (t : Node) (ht : t.wf = true) : (t.del cs).wf = true := by
  fun_induction Node.del cs t with
  | case1 n => exact ht
  | case2 c es =>
    simp only [Node.wf] at ht ⊢
    exact entsWf_erase _ _ ht
  | case3 c d cs es ch hl ih =>
    simp only [Node.wf] at ht ⊢
    have hch := lookup_wf _ _ _ ht hl
    -- the name already exists, so `put` keeps the (clean) key
    have hput : ∀ (es : Ents) (n : Node), entsWf es = true → n.wf = true →
        (Ents.lookup c es).isSome = true → entsWf (Ents.put c n es) = true := by
      intro es n
      induction es with
      | nil => intro _ _ h; simp [Ents.lookup] at h
      | cons e es ih' =>
        obtain ⟨k, v⟩ := e
        intro hw hn hs
        simp only [entsWf, Bool.and_eq_true] at hw
        by_cases h' : k = c
        · simp only [Ents.put, h', if_true, entsWf, Bool.and_eq_true]
          subst h'
          exact ⟨⟨⟨hw.1.1.1, hw.1.1.2⟩, hn⟩, hw.2⟩
        · simp only [Ents.put, h', if_false, entsWf, Bool.and_eq_true]
          rw [lookup_put_other _ _ _ _ h']
          simp only [Ents.lookup, h', if_false] at hs
          exact ⟨⟨hw.1.1, hw.1.2⟩, ih' hw.2 hn hs⟩
    exact hput es _ ht (ih hch) (by simp [hl])
  | case4 c d cs es hl => exact ht
  | case5 c cs b => exact ht

/-- FRAME for `set`: a file that is not at or below the written path is kept -/
theorem get_set_file (cs q : List Name) (t v : Node) (b : Bytes)
    (hq : t.get q = some (.file b)) (hn : ¬ cs <+: q) :
    (t.set cs v).get q = some (.file b) := by
  fun_induction Node.set cs t v generalizing q with
  | case1 n v => exact absurd (List.nil_prefix) hn
  | case2 c es v =>
    cases q with
    | nil => simp [Node.get] at hq
    | cons c' qs =>
      have hne : c' ≠ c := by
        intro e; subst e
        exact hn (List.cons_prefix_cons.2 ⟨rfl, List.nil_prefix⟩)
      simp only [Node.get] at hq ⊢
      rw [lookup_put_other _ _ _ _ hne]; exact hq
  | case3 c d cs es v ch hl ih =>
    cases q with
    | nil => simp [Node.get] at hq
    | cons c' qs =>
      by_cases hne : c' = c
      · subst hne
        simp only [Node.get, hl] at hq
        simp only [Node.get, lookup_put_same]
        exact ih qs hq (fun h => hn (List.cons_prefix_cons.2 ⟨rfl, h⟩))
      · simp only [Node.get] at hq ⊢
        rw [lookup_put_other _ _ _ _ hne]; exact hq
  | case4 c d cs es v hl => exact hq
  | case5 c cs b v => exact hq

/-- FRAME for `del` -/
theorem get_del_file (cs q : List Name) (t : Node) (b : Bytes)
    (hq : t.get q = some (.file b)) (hn : ¬ cs <+: q) :
    (t.del cs).get q = some (.file b) := by
  fun_induction Node.del cs t generalizing q with
  | case1 n => exact absurd (List.nil_prefix) hn
  | case2 c es =>
    cases q with
    | nil => simp [Node.get] at hq
    | cons c' qs =>
      have hne : c' ≠ c := by
        intro e; subst e
        exact hn (List.cons_prefix_cons.2 ⟨rfl, List.nil_prefix⟩)
      simp only [Node.get] at hq ⊢
      rw [lookup_erase_other _ _ _ hne]; exact hq
  | case3 c d cs es ch hl ih =>
    cases q with
    | nil => simp [Node.get] at hq
    | cons c' qs =>
      by_cases hne : c' = c
      · subst hne
        simp only [Node.get, hl] at hq
        simp only [Node.get, lookup_put_same]
        exact ih qs hq (fun h => hn (List.cons_prefix_cons.2 ⟨rfl, h⟩))
      · simp only [Node.get] at hq ⊢
        rw [lookup_put_other _ _ _ _ hne]; exact hq
  | case4 c d cs es hl => exact hq
  | case5 c cs b => exact hq

/-- what was written is what is read back (when the parent directory exists) -/
theorem get_set_append (cs r : List Name) (t v : Node) (es : Ents) (hne : cs ≠ [])
    (hp : t.get cs.dropLast = some (.dir es)) :
    (t.set cs v).get (cs ++ r) = v.get r := by
  fun_induction Node.set cs t v generalizing es with
  | case1 n v => exact absurd rfl hne
  | case2 c es' v => simp [Node.get, lookup_put_same]
  | case3 c d cs es' v ch hl ih =>
    rw [List.dropLast_cons_cons] at hp
    simp only [Node.get, hl] at hp
    simp only [List.cons_append, Node.get, lookup_put_same]
    exact ih es (by simp) hp
  | case4 c d cs es' v hl =>
    rw [List.dropLast_cons_cons] at hp
    simp [Node.get, hl] at hp
  | case5 c cs b v =>
    cases cs with
    | nil => simp [Node.get] at hp
    | cons d cs => rw [List.dropLast_cons_cons] at hp; simp [Node.get] at hp

theorem get_set_same (cs : List Name) (t v : Node) (es : Ents) (hne : cs ≠ [])
    (hp : t.get cs.dropLast = some (.dir es)) : (t.set cs v).get cs = some v := by
  have := get_set_append cs [] t v es hne hp
  simpa [Node.get] using this

/-- nothing is left at or below a deleted path (unique names needed) -/
theorem get_del_append (cs r : List Name) (t : Node) (hne : cs ≠ []) (hwf : t.wf = true) :
    (t.del cs).get (cs ++ r) = none := by
  fun_induction Node.del cs t with
  | case1 n => exact absurd rfl hne
  | case2 c es =>
    simp only [Node.wf] at hwf
    simp [Node.get, lookup_erase_same _ _ hwf]
  | case3 c d cs es ch hl ih =>
    simp only [Node.wf] at hwf
    simp only [List.cons_append, Node.get, lookup_put_same]
    exact ih (by simp) (lookup_wf _ _ _ hwf hl)
  | case4 c d cs es hl => simp [Node.get, hl]
  | case5 c cs b => simp [Node.get]

theorem isPrefix_iff (a b : List Name) : isPrefix a b = true ↔ a <+: b := by
  induction a generalizing b with
  | nil => simp [isPrefix]
  | cons x a ih =>
    cases b with
    | nil => simp [isPrefix]
    | cons y b => simp [isPrefix, List.cons_prefix_cons, ih]

/-! ### mkdirs -/

theorem isDir_mkdirs (pre cs : List Name) (t : Node) : (mkdirs pre cs t).isDir = t.isDir := by
  induction cs generalizing pre t with
  | nil => simp [mkdirs]
  | cons c cs ih =>
    simp only [mkdirs]
    rw [ih]
    split <;> simp [isDir_set]

theorem mkdirs_wf (pre cs : List Name) (t : Node) (hc : ∀ c ∈ pre ++ cs, cleanName c = true)
    (ht : t.wf = true) : (mkdirs pre cs t).wf = true := by
  induction cs generalizing pre t with
  | nil => simpa [mkdirs] using ht
  | cons c cs ih =>
    simp only [mkdirs]
    apply ih
    · intro x hx; apply hc; simpa using hx
    · split
      · apply set_wf _ _ _ _ (by simp [Node.wf, entsWf]) ht
        intro x hx; apply hc; simp at hx ⊢; rcases hx with h | h <;> simp [h]
      · exact ht

/-- `mkdirs` never disturbs a file -/
theorem mkdirs_file (pre cs q : List Name) (t : Node) (b : Bytes)
    (hq : t.get q = some (.file b)) : (mkdirs pre cs t).get q = some (.file b) := by
  induction cs generalizing pre t with
  | nil => simpa [mkdirs] using hq
  | cons c cs ih =>
    simp only [mkdirs]
    apply ih
    split
    · next hnone =>
      apply get_set_file _ _ _ _ _ hq
      intro hp
      obtain ⟨x, hx⟩ := get_prefix_exists hp hq
      rw [hnone] at hx; cases hx
    · exact hq

theorem blocked_of_none (t : Node) (p cs : List Name) (h : t.get p = none) :
    blockedByFile t p cs = false := by
  induction cs generalizing p with
  | nil => simp [blockedByFile]
  | cons c cs ih =>
    simp only [blockedByFile, h, Bool.false_or]
    split
    · rfl
    · apply ih; rw [get_append, h]; rfl

theorem blocked_of_empty_dir (t : Node) (p cs : List Name) (h : t.get p = some (.dir [])) :
    blockedByFile t p cs = false := by
  cases cs with
  | nil => simp [blockedByFile]
  | cons c cs =>
    simp only [blockedByFile, h, Bool.false_or]
    split
    · rfl
    · apply blocked_of_none; rw [get_append, h]; simp [Node.get, Ents.lookup]

/-- after `mkdirs` the whole path is a directory, unless a file is in the way -/
theorem mkdirs_get (pre cs : List Name) (t : Node) (es : Ents)
    (h1 : t.get pre = some (.dir es)) (h2 : blockedByFile t pre cs = false)
    (h3 : ∀ b, t.get (pre ++ cs) ≠ some (.file b)) :
    ∃ es', (mkdirs pre cs t).get (pre ++ cs) = some (.dir es') := by
  induction cs generalizing pre t es with
  | nil => exact ⟨es, by simpa [mkdirs] using h1⟩
  | cons c cs ih =>
    simp only [mkdirs]
    have e : pre ++ c :: cs = (pre ++ [c]) ++ cs := by simp
    rw [e]
    cases hh : t.get (pre ++ [c]) with
    | none =>
      simp only
      have hd : (pre ++ [c]).dropLast = pre := by simp
      have hs : (t.set (pre ++ [c]) (.dir [])).get (pre ++ [c]) = some (.dir []) :=
        get_set_same _ _ _ es (by simp) (by rw [hd]; exact h1)
      refine ih (pre ++ [c]) _ [] hs (blocked_of_empty_dir _ _ _ hs) ?_
      intro b
      rw [get_append, hs]
      cases cs <;> simp [Node.get, Ents.lookup]
    | some x =>
      simp only
      have hx : ∃ es', x = .dir es' := by
        cases x with
        | dir es' => exact ⟨es', rfl⟩
        | file b =>
          exfalso
          cases cs with
          | nil => exact h3 b (by simpa using hh)
          | cons d cs =>
            simp [blockedByFile, hh] at h2
      obtain ⟨es', rfl⟩ := hx
      refine ih (pre ++ [c]) t es' hh ?_ ?_
      · cases cs with
        | nil => simp [blockedByFile]
        | cons d cs => simpa [blockedByFile, h1] using h2
      · intro b; rw [← e]; exact h3 b

/-! ### merge -/

/-- names the source does not mention are kept -/
theorem mergeEnts_keep (k : Name) (es ds m : Ents) (hk : Ents.lookup k es = none)
    (hm : mergeEnts es ds = some m) : Ents.lookup k m = Ents.lookup k ds := by
  induction es generalizing ds with
  | nil => simp [mergeEnts] at hm; subst hm; rfl
  | cons e es ih =>
    obtain ⟨k', v⟩ := e
    have hne : k' ≠ k := by
      intro h; simp [Ents.lookup, h] at hk
    simp only [Ents.lookup, hne, if_false] at hk
    simp only [mergeEnts] at hm
    cases hn : mergeNode v (Ents.lookup k' ds) with
    | none => simp [hn] at hm
    | some n =>
      simp only [hn] at hm
      rw [ih _ hk hm, lookup_put_other _ _ _ _ (Ne.symm hne)]

mutual
/-- every file of the source is, with its bytes, at the same relative path of the result -/
theorem mergeNode_get : ∀ (v : Node) (o : Option Node) (n : Node) (r : List Name) (data : Bytes),
    v.wf = true → mergeNode v o = some n → v.get r = some (.file data) →
    n.get r = some (.file data)
  | .file b, o, n, r, data, _, hm, hg => by
    cases r with
    | cons c r => simp [Node.get] at hg
    | nil =>
      simp only [Node.get, Option.some.injEq, Node.file.injEq] at hg
      subst hg
      cases o with
      | none => simp [mergeNode] at hm; subst hm; rfl
      | some d =>
        cases d with
        | file _ => simp [mergeNode] at hm; subst hm; rfl
        | dir _ => simp [mergeNode] at hm
  | .dir es, o, n, r, data, hw, hm, hg => by
    simp only [Node.wf] at hw
    cases o with
    | none =>
      simp only [mergeNode, Option.map_eq_some_iff] at hm
      obtain ⟨m, hm, rfl⟩ := hm
      exact mergeEnts_get es [] m r data hw hm hg
    | some d =>
      cases d with
      | file _ => simp [mergeNode] at hm
      | dir ds =>
        simp only [mergeNode, Option.map_eq_some_iff] at hm
        obtain ⟨m, hm, rfl⟩ := hm
        exact mergeEnts_get es ds m r data hw hm hg
theorem mergeEnts_get : ∀ (es ds m : Ents) (r : List Name) (data : Bytes),
    entsWf es = true → mergeEnts es ds = some m → (Node.dir es).get r = some (.file data) →
    (Node.dir m).get r = some (.file data)
  | [], ds, m, r, data, _, _, hg => by
    cases r <;> simp [Node.get, Ents.lookup] at hg
  | (k, v) :: es, ds, m, r, data, hw, hm, hg => by
    simp only [entsWf, Bool.and_eq_true] at hw
    simp only [mergeEnts] at hm
    cases hn : mergeNode v (Ents.lookup k ds) with
    | none => simp [hn] at hm
    | some n =>
      simp only [hn] at hm
      cases r with
      | nil => simp [Node.get] at hg
      | cons c r =>
        by_cases hc : k = c
        · subst hc
          simp only [Node.get, Ents.lookup, if_true] at hg
          have h1 := mergeNode_get v _ n r data hw.1.2 hn hg
          have h2 := mergeEnts_keep k es _ m (by simpa using hw.1.1.2) hm
          rw [lookup_put_same] at h2
          simp only [Node.get, h2]
          exact h1
        · have hg' : (Node.dir es).get (c :: r) = some (.file data) := by
            simpa [Node.get, Ents.lookup, hc] using hg
          exact mergeEnts_get es _ m (c :: r) data hw.2 hm hg'
end

mutual
theorem mergeNode_wf : ∀ (v : Node) (o : Option Node) (n : Node),
    v.wf = true → (∀ x, o = some x → x.wf = true) → mergeNode v o = some n → n.wf = true
  | .file b, o, n, _, _, hm => by
    cases o with
    | none => simp [mergeNode] at hm; subst hm; rfl
    | some d =>
      cases d with
      | file _ => simp [mergeNode] at hm; subst hm; rfl
      | dir _ => simp [mergeNode] at hm
  | .dir es, o, n, hw, ho, hm => by
    simp only [Node.wf] at hw
    cases o with
    | none =>
      simp only [mergeNode, Option.map_eq_some_iff] at hm
      obtain ⟨m, hm, rfl⟩ := hm
      simp only [Node.wf]
      exact mergeEnts_wf es [] m hw (by simp [entsWf]) hm
    | some d =>
      cases d with
      | file _ => simp [mergeNode] at hm
      | dir ds =>
        simp only [mergeNode, Option.map_eq_some_iff] at hm
        obtain ⟨m, hm, rfl⟩ := hm
        have := ho _ rfl
        simp only [Node.wf] at this ⊢
        exact mergeEnts_wf es ds m hw this hm
theorem mergeEnts_wf : ∀ (es ds m : Ents),
    entsWf es = true → entsWf ds = true → mergeEnts es ds = some m → entsWf m = true
  | [], ds, m, _, hd, hm => by
    simp [mergeEnts] at hm; subst hm; exact hd
  | (k, v) :: es, ds, m, hw, hd, hm => by
    simp only [entsWf, Bool.and_eq_true] at hw
    simp only [mergeEnts] at hm
    cases hn : mergeNode v (Ents.lookup k ds) with
    | none => simp [hn] at hm
    | some n =>
      simp only [hn] at hm
      have hnw := mergeNode_wf v _ n hw.1.2 (fun x hx => lookup_wf _ _ _ hd hx) hn
      exact mergeEnts_wf es _ m hw.2 (entsWf_put _ _ _ hw.1.1.1 hnw hd) hm
end

/-! ### validate: every component of a validated path is a legal name -/

section Validate
open Fs.Path Fs.PathSpec Fs.PathLemmas

theorem mem_of_mem_splitOn (c : Char) (s : Str) : ∀ x ∈ splitOn c s, ∀ ch ∈ x, ch ∈ s := by
  induction s with
  | nil => simp [splitOn]
  | cons y ys ih =>
    by_cases hy : y = c
    · subst hy
      rw [splitOn_cons_sep]
      intro x hx ch hch
      simp only [List.mem_cons] at hx
      rcases hx with rfl | hx
      · simp at hch
      · exact List.mem_cons_of_mem _ (ih x hx ch hch)
    · rw [splitOn_cons_ne c y ys hy]
      have hn := splitOn_ne_nil c ys
      revert ih
      generalize splitOn c ys = l at hn ⊢
      cases l with
      | nil => contradiction
      | cons h t =>
        intro ih x hx ch hch
        simp only [List.headD_cons, List.tail_cons, List.mem_cons] at hx
        rcases hx with rfl | hx
        · simp only [List.mem_cons] at hch ⊢
          rcases hch with rfl | hch
          · exact Or.inl rfl
          · exact Or.inr (ih h (by simp) ch hch)
        · exact List.mem_cons_of_mem _ (ih x (by simp [hx]) ch hch)

theorem foldl_step_mem (cs s r : List Str) (h : cs.foldl PathSpec.step (some s) = some r) :
    ∀ x ∈ r, x ∈ s ∨ x ∈ cs := by
  induction cs generalizing s with
  | nil => simp at h; subst h; intro x hx; exact Or.inl hx
  | cons c cs ih =>
    rw [List.foldl_cons] at h
    by_cases h1 : c = [] ∨ c = dot
    · simp only [PathSpec.step, h1, if_true] at h
      intro x hx
      rcases ih s h x hx with h' | h'
      · exact Or.inl h'
      · exact Or.inr (List.mem_cons_of_mem _ h')
    · by_cases h3 : c = dotdot
      · subst h3
        have e1 : ¬ (dotdot = [] ∨ dotdot = dot) := by decide
        by_cases h4 : s = []
        · simp [PathSpec.step, e1, h4, foldl_step_none] at h
        · simp only [PathSpec.step, e1, h4, if_true, if_false] at h
          intro x hx
          rcases ih _ h x hx with h' | h'
          · exact Or.inl (List.dropLast_subset _ h')
          · exact Or.inr (List.mem_cons_of_mem _ h')
      · simp only [PathSpec.step, h1, h3, if_false] at h
        intro x hx
        rcases ih _ h x hx with h' | h'
        · simp only [List.mem_append, List.mem_singleton] at h'
          rcases h' with h' | rfl
          · exact Or.inl h'
          · exact Or.inr (by simp)
        · exact Or.inr (List.mem_cons_of_mem _ h')

theorem iteratepath_resolve (p : Str) (cs : List Str) (h : iteratepath p = .ok cs) :
    resolve (splitSlash p) = some cs := by
  unfold iteratepath at h
  rw [normpath_eq_specNorm, specNorm] at h
  cases hr : resolve (splitSlash p) with
  | none => rw [hr] at h; cases h
  | some r =>
    rw [hr] at h
    have hc := resolve_result_clean p r hr
    simp only [bind_ok] at h
    change (if relpath (mkp (startsWithSlash p) r) == [] then pure [] else
      pure (splitSlash (relpath (mkp (startsWithSlash p) r)))) = Res.ok cs at h
    simp only [relpath, lstripSlash_mkp hc, pure_eq] at h
    by_cases hn : r = []
    · subst hn
      simp [joinWith] at h
      rw [h]
    · have : joinWith '/' r ≠ [] := fun e => hn ((join_clean_eq_nil_iff hc).1 e)
      simp [this, splitSlash, splitOn_join_clean hc hn] at h
      rw [h]

theorem validate_clean (p : Str) (cs : List Name) (h : validate p = .ok cs) :
    ∀ c ∈ cs, cleanName c = true := by
  unfold validate at h
  split at h
  · cases h
  · next h0 =>
    have hr := iteratepath_resolve p cs h
    have hc := resolve_result_clean p cs hr
    intro c hc'
    obtain ⟨h1, h2, h3, h4⟩ := hc c hc'
    have h5 : '\x00' ∉ c := by
      intro hm
      rcases foldl_step_mem _ _ _ hr c hc' with h' | h'
      · cases h'
      · exact h0 (by simpa using mem_of_mem_splitOn '/' p c h' _ hm)
    simp only [dot, dotdot] at h2 h3
    simp [cleanName, h1, h2, h3, h4, h5]

end Validate

/-! ### the shape of `step` -/

theorem mapM_one (p : Str) : [p].mapM validate = (match validate p with | .ok cs => .ok [cs] | .err e => .err e) := by
  cases h : validate p <;> simp [List.mapM, List.mapM.loop, h] <;> rfl

theorem mapM_two (p q : Str) : [p, q].mapM validate =
    (match validate p with
     | .err e => .err e
     | .ok a => match validate q with | .ok b => .ok [a, b] | .err e => .err e) := by
  cases h : validate p <;> cases h' : validate q <;> simp [List.mapM, List.mapM.loop, h, h'] <;> rfl

inductive StepCase (s : State) (op : Op) : Prop
  | close : op = .close → step s op = ({ s with closed := true }, .ok .unit) → StepCase s op
  | fail (e : Err) : op ≠ .close → step s op = (s, .err e) → StepCase s op
  | one (p : Str) (cs : List Name) : s.closed = false → op.paths = [p] → validate p = .ok cs →
      step s op = step1 s cs op → StepCase s op
  | two (p q : Str) (a b : List Name) : s.closed = false → op.paths = [p, q] → validate p = .ok a →
      validate q = .ok b → step s op = step2 s a b op → StepCase s op

local macro "one_tac" p:ident hc:ident : tactic => `(tactic|
  (cases hv : validate $p with
   | err e => exact .fail e (by simp) (by simp [step, $hc:ident, Op.paths, mapM_one, hv, Ref.fail])
   | ok cs => exact .one $p cs $hc rfl hv (by simp [step, $hc:ident, Op.paths, mapM_one, hv])))

local macro "two_tac" p:ident q:ident hc:ident : tactic => `(tactic|
  (cases hv : validate $p with
   | err e => exact .fail e (by simp) (by simp [step, $hc:ident, Op.paths, mapM_two, hv, Ref.fail])
   | ok a =>
     cases hw : validate $q with
     | err e => exact .fail e (by simp) (by simp [step, $hc:ident, Op.paths, mapM_two, hv, hw, Ref.fail])
     | ok b => exact .two $p $q a b $hc rfl hv hw (by simp [step, $hc:ident, Op.paths, mapM_two, hv, hw])))

theorem step_case (s : State) (op : Op) : StepCase s op := by
  by_cases hc : s.closed = true
  · cases op <;> first
      | exact .close rfl rfl
      | exact .fail .FilesystemClosed (by simp) (by simp [step, hc, Ref.fail])
  · simp only [Bool.not_eq_true] at hc
    cases op with
    | close => exact .close rfl rfl
    | openbin p m =>
      by_cases hm : (parseBinMode m).isNone = true
      · exact .fail .ValueError (by simp) (by simp [step, hc, hm, Ref.fail])
      · cases hv : validate p with
        | err e => exact .fail e (by simp) (by simp [step, hc, hm, Op.paths, mapM_one, hv, Ref.fail])
        | ok cs => exact .one p cs hc rfl hv (by simp [step, hc, hm, Op.paths, mapM_one, hv])
    | move p q o => two_tac p q hc
    | copy p q o => two_tac p q hc
    | movedir p q o => two_tac p q hc
    | copydir p q o => two_tac p q hc
    | exists_ p => one_tac p hc
    | isdir p => one_tac p hc
    | isfile p => one_tac p hc
    | listdir p => one_tac p hc
    | getsize p => one_tac p hc
    | gettype p => one_tac p hc
    | isempty p => one_tac p hc
    | getinfo p => one_tac p hc
    | readbytes p => one_tac p hc
    | makedir p r => one_tac p hc
    | makedirs p r => one_tac p hc
    | writebytes p d => one_tac p hc
    | appendbytes p d => one_tac p hc
    | create p w => one_tac p hc
    | touch p => one_tac p hc
    | settimes p => one_tac p hc
    | remove p => one_tac p hc
    | removedir p => one_tac p hc
    | removetree p => one_tac p hc

/-- operations that (over)write one file -/
def isWrite : Op → Prop
  | .writebytes _ _ | .appendbytes _ _ | .create _ _ | .touch _ | .openbin _ _ => True
  | _ => False

/-- every possible effect of a one-path operation on the state -/
inductive Eff1 (s : State) (cs : List Name) (op : Op) : State × Out → Prop
  | same (o : Out) : Eff1 s cs op (s, o)
  | setFile (b : Bytes) (v : Val) (es : Ents) : cs ≠ [] → s.root.get cs.dropLast = some (.dir es) →
      (∀ ds, s.root.get cs ≠ some (.dir ds)) → isWrite op →
      Eff1 s cs op (upd s (s.root.set cs (.file b)) v)
  | mkdir (es : Ents) : cs ≠ [] → s.root.get cs.dropLast = some (.dir es) → s.root.get cs = none →
      (∃ p r, op = .makedir p r) → Eff1 s cs op (upd s (s.root.set cs (.dir [])))
  | mkdirs : s.root.get cs = none → blockedByFile s.root [] cs = false →
      (∃ p r, op = .makedirs p r) → Eff1 s cs op (upd s (mkdirs [] cs s.root))
  | delFile (b : Bytes) : cs ≠ [] → s.root.get cs = some (.file b) → (∃ p, op = .remove p) →
      Eff1 s cs op (upd s (s.root.del cs))
  | delEmpty : cs ≠ [] → s.root.get cs = some (.dir []) → (∃ p, op = .removedir p) →
      Eff1 s cs op (upd s (s.root.del cs))
  | delTree (es : Ents) : cs ≠ [] → s.root.get cs = some (.dir es) → (∃ p, op = .removetree p) →
      Eff1 s cs op (upd s (s.root.del cs))
  | clear : cs = [] → (∃ p, op = .removetree p) → Eff1 s cs op (upd s (.dir []))

theorem eff_writeFile (s : State) (cs : List Name) (op : Op) (f : Option Bytes → Bytes) (v : Val)
    (hw : isWrite op) : Eff1 s cs op (writeFile s cs f v) := by
  unfold writeFile
  simp only [parentOf]
  split
  · exact .same _
  · next hne =>
    split
    · exact .same _
    · exact .same _
    · next es hp =>
      split
      · exact .same _
      · next b hb => exact .setFile _ _ es hne hp (by simp [hb]) hw
      · next hb => exact .setFile _ _ es hne hp (by simp [hb]) hw

theorem eff1 (s : State) (cs : List Name) (op : Op) : Eff1 s cs op (step1 s cs op) := by
  cases op with
  | writebytes p d => simp only [step1]; exact eff_writeFile s cs (.writebytes p d) _ _ trivial
  | appendbytes p d => simp only [step1]; exact eff_writeFile s cs (.appendbytes p d) _ _ trivial
  | create p w =>
    simp only [step1]; split
    · exact .same _
    · exact eff_writeFile _ _ _ _ _ (by trivial)
  | touch p =>
    simp only [step1]; split
    · exact .same _
    · exact eff_writeFile _ _ _ _ _ (by trivial)
  | openbin p m =>
    simp only [step1, parentOf]
    split
    · exact .same _
    · split
      · exact .same _
      · next hne =>
        split
        · exact .same _
        · exact .same _
        · next es hp =>
          split
          · exact .same _
          · next b hb =>
            split
            · exact .same _
            · split
              · exact .setFile _ _ es hne hp (by simp [hb]) trivial
              · exact .same _
          · next hb =>
            split
            · exact .setFile _ _ es hne hp (by simp [hb]) trivial
            · exact .same _
  | makedir p r =>
    simp only [step1, parentOf]
    split
    · split <;> exact .same _
    · next hne =>
      split
      · exact .same _
      · exact .same _
      · next es hp =>
        split
        · split <;> exact .same _
        · split <;> exact .same _
        · next hb => exact .mkdir es hne hp hb ⟨_, _, rfl⟩
  | makedirs p r =>
    simp only [step1]
    split
    · exact .same _
    · next hbl =>
      split
      · split <;> exact .same _
      · split <;> exact .same _
      · next hb => exact .mkdirs hb (by simpa using hbl) ⟨_, _, rfl⟩
  | remove p =>
    simp only [step1]
    split
    · exact .same _
    · next hne =>
      split
      · exact .same _
      · exact .same _
      · next b hb => exact .delFile b hne hb ⟨_, rfl⟩
  | removedir p =>
    simp only [step1]
    split
    · exact .same _
    · next hne =>
      split
      · exact .same _
      · exact .same _
      · next es hb =>
        split
        · next he =>
          have : es = [] := by simpa using he
          subst this
          exact .delEmpty hne hb ⟨_, rfl⟩
        · exact .same _
  | removetree p =>
    simp only [step1]
    split
    · next he => exact .clear he ⟨_, rfl⟩
    · next hne =>
      split
      · exact .same _
      · exact .same _
      · next es hb => exact .delTree es hne hb ⟨_, rfl⟩
  | _ => simp only [step1] <;> (repeat' split) <;> exact .same _

/-- every possible effect of a two-path operation on the state -/
inductive Eff2 (st : State) (a b : List Name) (op : Op) : State × Out → Prop
  | fail (e : Err) : Eff2 st a b op (st, .err e)
  | noop (v : Val) : ((∃ p q c, op = .move p q c ∨ op = .copy p q c ∨ op = .movedir p q c ∨
      op = .copydir p q c) → a = b) → Eff2 st a b op (st, .ok v)
  | move (data : Bytes) (ps : Ents) : st.root.get a = some (.file data) → a ≠ b → b ≠ [] →
      st.root.get b.dropLast = some (.dir ps) → (∀ ds, st.root.get b ≠ some (.dir ds)) →
      (∃ p q o, op = .move p q o) →
      Eff2 st a b op (upd st ((st.root.set b (.file data)).del a))
  | copy (data : Bytes) (ps : Ents) : st.root.get a = some (.file data) → a ≠ b → b ≠ [] →
      st.root.get b.dropLast = some (.dir ps) → (∀ ds, st.root.get b ≠ some (.dir ds)) →
      (∃ p q o, op = .copy p q o) →
      Eff2 st a b op (upd st (st.root.set b (.file data)))
  | movedirMerge (es ds0 ds m : Ents) : a ≠ b → isPrefix a b = false →
      st.root.get a = some (.dir es) → st.root.get b = some (.dir ds0) →
      (st.root.del a).get b = some (.dir ds) → mergeEnts es ds = some m →
      (∃ p q c, op = .movedir p q c) →
      Eff2 st a b op (upd st (setAt (st.root.del a) b (.dir m)))
  | movedirNew (es ps : Ents) : a ≠ b → isPrefix a b = false →
      st.root.get a = some (.dir es) → st.root.get b = none →
      st.root.get b.dropLast = some (.dir ps) → (∃ p q c, op = .movedir p q c) →
      Eff2 st a b op (upd st ((st.root.set b (.dir es)).del a))
  | copydirMerge (es ds m : Ents) : isPrefix a b = false →
      st.root.get a = some (.dir es) → st.root.get b = some (.dir ds) →
      mergeEnts es ds = some m → (∃ p q c, op = .copydir p q c) →
      Eff2 st a b op (upd st (setAt st.root b (.dir m)))
  | copydirNew (es : Ents) : isPrefix a b = false →
      st.root.get a = some (.dir es) → st.root.get b = none →
      blockedByFile st.root [] b = false → (∃ p q c, op = .copydir p q c) →
      Eff2 st a b op (upd st ((mkdirs [] b st.root).set b (.dir es)))

theorem eff2 (st : State) (a b : List Name) (op : Op) : Eff2 st a b op (step2 st a b op) := by
  cases op with
  | move p q o =>
    simp only [step2, parentOf]
    split
    · first | exact .fail _ | exact .noop _ (fun _ => by assumption)
    · first | exact .fail _ | exact .noop _ (fun _ => by assumption)
    · next data ha =>
      split
      · first | exact .fail _ | exact .noop _ (fun _ => by assumption)
      · split
        · first | exact .fail _ | exact .noop _ (fun _ => by assumption)
        · next hab =>
          split
          · first | exact .fail _ | exact .noop _ (fun _ => by assumption)
          · next hb =>
            split
            · first | exact .fail _ | exact .noop _ (fun _ => by assumption)
            · first | exact .fail _ | exact .noop _ (fun _ => by assumption)
            · next ps hp =>
              split
              · first | exact .fail _ | exact .noop _ (fun _ => by assumption)
              · next hnd =>
                exact .move data ps ha hab hb hp (fun ds h => hnd ds h) ⟨_, _, _, rfl⟩
  | copy p q o =>
    simp only [step2, parentOf]
    split
    · first | exact .fail _ | exact .noop _ (fun _ => by assumption)
    · split
      · first | exact .fail _ | exact .noop _ (fun _ => by assumption)
      · next hab =>
        split
        · first | exact .fail _ | exact .noop _ (fun _ => by assumption)
        · first | exact .fail _ | exact .noop _ (fun _ => by assumption)
        · next data ha =>
          split
          · first | exact .fail _ | exact .noop _ (fun _ => by assumption)
          · next hb =>
            split
            · first | exact .fail _ | exact .noop _ (fun _ => by assumption)
            · first | exact .fail _ | exact .noop _ (fun _ => by assumption)
            · next ps hp =>
              split
              · first | exact .fail _ | exact .noop _ (fun _ => by assumption)
              · next hnd =>
                exact .copy data ps ha hab hb hp (fun ds h => hnd ds h) ⟨_, _, _, rfl⟩
  | movedir p q c =>
    simp only [step2, parentOf]
    split
    · first | exact .fail _ | exact .noop _ (fun _ => by assumption)
    · next hab =>
      split
      · first | exact .fail _ | exact .noop _ (fun _ => by assumption)
      · next hpre =>
        have hpre' : isPrefix a b = false := by simpa using hpre
        split
        · first | exact .fail _ | exact .noop _ (fun _ => by assumption)
        · first | exact .fail _ | exact .noop _ (fun _ => by assumption)
        · next es ha =>
          split
          · first | exact .fail _ | exact .noop _ (fun _ => by assumption)
          · next ds0 hb0 =>
            split
            · next ds hb =>
              split
              · first | exact .fail _ | exact .noop _ (fun _ => by assumption)
              · next m hm => exact .movedirMerge es ds0 ds m hab hpre' ha hb0 hb hm ⟨_, _, _, rfl⟩
            · first | exact .fail _ | exact .noop _ (fun _ => by assumption)
          · next hbn =>
            split
            · first | exact .fail _ | exact .noop _ (fun _ => by assumption)
            · split
              · next ps hp => exact .movedirNew es ps hab hpre' ha hbn hp ⟨_, _, _, rfl⟩
              · first | exact .fail _ | exact .noop _ (fun _ => by assumption)
  | copydir p q c =>
    simp only [step2]
    split
    · first | exact .fail _ | exact .noop _ (fun _ => by assumption)
    · next hpre =>
      have hpre' : isPrefix a b = false := by simpa using hpre
      split
      · split <;> first | exact .fail _ | exact .noop _ (fun _ => by assumption)
      · next ds hb =>
        split
        · first | exact .fail _ | exact .noop _ (fun _ => by assumption)
        · first | exact .fail _ | exact .noop _ (fun _ => by assumption)
        · next es ha =>
          split
          · first | exact .fail _ | exact .noop _ (fun _ => by assumption)
          · next m hm => exact .copydirMerge es ds m hpre' ha hb hm ⟨_, _, _, rfl⟩
      · next hbn =>
        split
        · first | exact .fail _ | exact .noop _ (fun _ => by assumption)
        · split
          · first | exact .fail _ | exact .noop _ (fun _ => by assumption)
          · first | exact .fail _ | exact .noop _ (fun _ => by assumption)
          · next es ha =>
            split
            · first | exact .fail _ | exact .noop _ (fun _ => by assumption)
            · next hbl => exact .copydirNew es hpre' ha hbn (by simpa using hbl) ⟨_, _, _, rfl⟩
  | _ => simp only [step2] <;> exact .noop _ (by simp)

/-! ### invariants of the effects -/

theorem isDir_setAt (t : Node) (b : List Name) (m : Ents) : (setAt t b (.dir m)).isDir = t.isDir ∨
    (setAt t b (.dir m)).isDir = true := by
  unfold setAt; split
  · exact Or.inr rfl
  · exact Or.inl (isDir_set _ _ _)

theorem eff1_isDir {s : State} {cs : List Name} {op : Op} {r : State × Out} (h : Eff1 s cs op r)
    (hd : s.root.isDir = true) : r.1.root.isDir = true := by
  cases h with
  | clear => rfl
  | _ => simp [upd, isDir_set, isDir_del, isDir_mkdirs, hd]

theorem eff2_isDir {s : State} {a b : List Name} {op : Op} {r : State × Out} (h : Eff2 s a b op r)
    (hd : s.root.isDir = true) : r.1.root.isDir = true := by
  cases h with
  | movedirMerge es ds0 ds m =>
    simp only [upd]
    rcases isDir_setAt (s.root.del a) b m with h | h
    · rw [h, isDir_del]; exact hd
    · exact h
  | copydirMerge es ds m =>
    simp only [upd]
    rcases isDir_setAt s.root b m with h | h
    · rw [h]; exact hd
    · exact h
  | _ => simp [upd, isDir_set, isDir_del, isDir_mkdirs, hd]

theorem setAt_wf (t : Node) (b : List Name) (m : Ents) (hb : ∀ c ∈ b, cleanName c = true)
    (ht : t.wf = true) (hm : entsWf m = true) : (setAt t b (.dir m)).wf = true := by
  unfold setAt; split
  · simpa [Node.wf] using hm
  · exact set_wf _ _ _ hb (by simpa [Node.wf] using hm) ht

theorem eff1_wf {s : State} {cs : List Name} {op : Op} {r : State × Out} (h : Eff1 s cs op r)
    (hc : ∀ c ∈ cs, cleanName c = true) (hw : s.root.wf = true) : r.1.root.wf = true := by
  cases h with
  | same o => exact hw
  | setFile b v es => exact set_wf _ _ _ hc rfl hw
  | mkdir es => exact set_wf _ _ _ hc rfl hw
  | mkdirs => exact mkdirs_wf _ _ _ (by simpa using hc) hw
  | delFile b => exact del_wf _ _ hw
  | delEmpty => exact del_wf _ _ hw
  | delTree es => exact del_wf _ _ hw
  | clear => rfl

theorem eff2_wf {s : State} {a b : List Name} {op : Op} {r : State × Out} (h : Eff2 s a b op r)
    (hb : ∀ c ∈ b, cleanName c = true) (hw : s.root.wf = true) : r.1.root.wf = true := by
  cases h with
  | fail e => exact hw
  | noop v _ => exact hw
  | move data ps => exact del_wf _ _ (set_wf _ _ _ hb rfl hw)
  | copy data ps => exact set_wf _ _ _ hb rfl hw
  | movedirMerge es ds0 ds m _ _ ha _ hd hm =>
    have h1 := del_wf a _ hw
    have hes : entsWf es = true := by simpa [Node.wf] using get_wf _ _ _ hw ha
    have hds : entsWf ds = true := by simpa [Node.wf] using get_wf _ _ _ h1 hd
    exact setAt_wf _ _ _ hb h1 (mergeEnts_wf _ _ _ hes hds hm)
  | movedirNew es ps _ _ ha =>
    have hes : (Node.dir es).wf = true := get_wf _ _ _ hw ha
    exact del_wf _ _ (set_wf _ _ _ hb hes hw)
  | copydirMerge es ds m _ ha hd hm =>
    have hes : entsWf es = true := by simpa [Node.wf] using get_wf _ _ _ hw ha
    have hds : entsWf ds = true := by simpa [Node.wf] using get_wf _ _ _ hw hd
    exact setAt_wf _ _ _ hb hw (mergeEnts_wf _ _ _ hes hds hm)
  | copydirNew es _ ha =>
    have hes : (Node.dir es).wf = true := get_wf _ _ _ hw ha
    exact set_wf _ _ _ hb hes (mkdirs_wf _ _ _ (by simpa using hb) hw)

/-! ### frame -/

/-- the component paths a one-path operation may change -/
def touch1 (op : Op) (cs q : List Name) : Prop :=
  match op with
  | .removetree _ => cs <+: q
  | .remove _ | .removedir _ | .writebytes _ _ | .appendbytes _ _ | .create _ _ | .touch _
  | .openbin _ _ | .makedir _ _ => q = cs
  | _ => False

/-- the component paths a two-path operation may change -/
def touch2 (op : Op) (a b q : List Name) : Prop :=
  match op with
  | .move _ _ _ => q = a ∨ q = b
  | .copy _ _ _ => q = b
  | .movedir _ _ _ => a <+: q ∨ b <+: q
  | .copydir _ _ _ => b <+: q
  | _ => False

theorem touch1_write {op : Op} (h : isWrite op) (cs q : List Name) : touch1 op cs q ↔ q = cs := by
  cases op <;> simp [isWrite] at h <;> simp [touch1]

/-- a file cannot sit strictly below a path that is not a directory -/
theorem not_prefix_of_not_dir {t : Node} {cs q : List Name} {b : Bytes}
    (hq : t.get q = some (.file b)) (hne : q ≠ cs) (hnd : ∀ ds, t.get cs ≠ some (.dir ds)) :
    ¬ cs <+: q := by
  intro hp
  obtain ⟨es, he⟩ := get_proper_prefix_dir hp (Ne.symm hne) hq
  exact hnd es he

theorem eff1_frame {s : State} {cs : List Name} {op : Op} {r : State × Out} (h : Eff1 s cs op r)
    (q : List Name) (b : Bytes) (hq : s.root.get q = some (.file b)) (hn : ¬ touch1 op cs q) :
    r.1.root.get q = some (.file b) := by
  cases h with
  | same o => exact hq
  | setFile b' v es hne hp hnd hw =>
    rw [touch1_write hw] at hn
    exact get_set_file _ _ _ _ _ hq (not_prefix_of_not_dir hq hn hnd)
  | mkdir es hne hp hnone hop =>
    obtain ⟨p, r, rfl⟩ := hop
    simp only [touch1] at hn
    exact get_set_file _ _ _ _ _ hq (not_prefix_of_not_dir hq hn (by simp [hnone]))
  | mkdirs => exact mkdirs_file _ _ _ _ _ hq
  | delFile b' hne hb hop =>
    obtain ⟨p, rfl⟩ := hop
    simp only [touch1] at hn
    exact get_del_file _ _ _ _ hq (not_prefix_of_not_dir hq hn (by simp [hb]))
  | delEmpty hne hb hop =>
    obtain ⟨p, rfl⟩ := hop
    simp only [touch1] at hn
    refine get_del_file _ _ _ _ hq ?_
    intro hp
    obtain ⟨c, r, rfl⟩ := prefix_ne_split hp (Ne.symm hn)
    rw [get_append, hb] at hq
    simp [Node.get, Ents.lookup] at hq
  | delTree es hne hb hop =>
    obtain ⟨p, rfl⟩ := hop
    simp only [touch1] at hn
    exact get_del_file _ _ _ _ hq hn
  | clear he hop =>
    obtain ⟨p, rfl⟩ := hop
    subst he
    exact absurd List.nil_prefix hn

theorem get_setAt_file (t : Node) (bp q : List Name) (m : Ents) (b : Bytes)
    (hq : t.get q = some (.file b)) (hn : ¬ bp <+: q) :
    (setAt t bp (.dir m)).get q = some (.file b) := by
  unfold setAt; split
  · next h => subst h; exact absurd List.nil_prefix hn
  · exact get_set_file _ _ _ _ _ hq hn

theorem eff2_frame {s : State} {a bp : List Name} {op : Op} {r : State × Out}
    (h : Eff2 s a bp op r) (q : List Name) (b : Bytes) (hq : s.root.get q = some (.file b))
    (hn : ¬ touch2 op a bp q) : r.1.root.get q = some (.file b) := by
  cases h with
  | fail e => exact hq
  | noop v _ => exact hq
  | move data ps ha hab hb hp hnd hop =>
    obtain ⟨p, q', o, rfl⟩ := hop
    simp only [touch2, not_or] at hn
    have h1 := get_set_file bp q s.root (.file data) b hq (not_prefix_of_not_dir hq hn.2 hnd)
    exact get_del_file _ _ _ _ h1 (not_prefix_of_not_dir hq hn.1 (by simp [ha]))
  | copy data ps ha hab hb hp hnd hop =>
    obtain ⟨p, q', o, rfl⟩ := hop
    simp only [touch2] at hn
    exact get_set_file bp q s.root (.file data) b hq (not_prefix_of_not_dir hq hn hnd)
  | movedirMerge es ds0 ds m _ _ ha _ hd hm hop =>
    obtain ⟨p, q', o, rfl⟩ := hop
    simp only [touch2, not_or] at hn
    exact get_setAt_file _ _ _ _ _ (get_del_file _ _ _ _ hq hn.1) hn.2
  | movedirNew es ps _ _ ha _ _ hop =>
    obtain ⟨p, q', o, rfl⟩ := hop
    simp only [touch2, not_or] at hn
    exact get_del_file _ _ _ _ (get_set_file _ _ _ _ _ hq hn.2) hn.1
  | copydirMerge es ds m _ ha hd hm hop =>
    obtain ⟨p, q', o, rfl⟩ := hop
    simp only [touch2] at hn
    exact get_setAt_file _ _ _ _ _ hq hn
  | copydirNew es _ ha _ _ hop =>
    obtain ⟨p, q', o, rfl⟩ := hop
    simp only [touch2] at hn
    exact get_set_file _ _ _ _ _ (mkdirs_file _ _ _ _ _ hq) hn

theorem eff1_err {s : State} {cs : List Name} {op : Op} {r : State × Out} (h : Eff1 s cs op r)
    (e : Err) (he : r.2 = .err e) : r.1 = s := by
  cases h <;> simp_all [upd]

theorem eff2_err {s : State} {a b : List Name} {op : Op} {r : State × Out} (h : Eff2 s a b op r)
    (e : Err) (he : r.2 = .err e) : r.1 = s := by
  cases h <;> simp_all [upd]

/-- a call that returned went through the operation proper -/
theorem step_two_ok {st : State} {op : Op} {p q : Str} {a b : List Name} {v : Val}
    (hp : op.paths = [p, q]) (ha : validate p = .ok a) (hb : validate q = .ok b)
    (hok : (step st op).2 = .ok v) : step st op = step2 st a b op := by
  cases step_case st op with
  | close h _ => subst h; simp [Op.paths] at hp
  | fail e _ h => rw [h] at hok; cases hok
  | one p' cs _ hp' _ _ => rw [hp] at hp'; simp at hp'
  | two p' q' a' b' _ hp' ha' hb' h =>
    rw [hp] at hp'
    simp only [List.cons.injEq, and_true] at hp'
    obtain ⟨rfl, rfl⟩ := hp'
    rw [ha] at ha'; rw [hb] at hb'
    cases ha'; cases hb'
    exact h

theorem step_one_ok {st : State} {op : Op} {p : Str} {a : List Name} {v : Val}
    (hp : op.paths = [p]) (ha : validate p = .ok a)
    (hok : (step st op).2 = .ok v) : step st op = step1 st a op := by
  cases step_case st op with
  | close h _ => subst h; simp [Op.paths] at hp
  | fail e _ h => rw [h] at hok; cases hok
  | one p' cs _ hp' ha' h =>
    rw [hp] at hp'
    simp only [List.cons.injEq, and_true] at hp'
    subst hp'
    rw [ha] at ha'
    cases ha'
    exact h
  | two p' q' a' b' _ hp' _ _ _ => rw [hp] at hp'; simp at hp'

/-! ### bulk copies -/

theorem get_setAt_append (t : Node) (b r : List Name) (m ds : Ents)
    (hb : t.get b = some (.dir ds)) : (setAt t b (.dir m)).get (b ++ r) = (Node.dir m).get r := by
  unfold setAt; split
  · next h => subst h; rfl
  · next h =>
    obtain ⟨ps, hp⟩ := get_parent_dir h hb
    exact get_set_append b r t _ ps h hp

/-- a file below the source directory, read relative to the source -/
theorem get_rel {t : Node} {a r : List Name} {es : Ents} {data : Bytes}
    (ha : t.get a = some (.dir es)) (hf : t.get (a ++ r) = some (.file data)) :
    (Node.dir es).get r = some (.file data) := by
  rw [get_append, ha] at hf; exact hf

/-- two prefixes of one path are comparable -/
theorem not_prefix_append {a b r : List Name} (h1 : ¬ a <+: b) (h2 : ¬ b <+: a) :
    ¬ b <+: a ++ r := by
  intro h
  rcases List.prefix_or_prefix_of_prefix (List.prefix_append a r) h with h | h
  · exact h1 h
  · exact h2 h

theorem root_dir_of_not_blocked {t : Node} {b : List Name} (hne : b ≠ [])
    (h : blockedByFile t [] b = false) : ∃ es, t.get [] = some (.dir es) := by
  cases b with
  | nil => exact absurd rfl hne
  | cons c cs =>
    cases t with
    | dir es => exact ⟨es, rfl⟩
    | file d => simp [blockedByFile, Node.get] at h

end Fs.TreeLemmas
