/-
  Helper lemmas for C09 (the bulk Copier): views of the state, the invariants and their
  preservation by every transition.  Core Lean only.
-/
import FsModel.Bulk

namespace Fs.BulkLemmas
open Fs Fs.Bulk

/-! ## list facts -/

theorem count_flatMap_set {α β : Type} [BEq β] [LawfulBEq β] (g : α → List β) (x : β) :
    ∀ (l : List α) (w : Nat) (a b : α), l[w]? = some a →
      List.count x (g a) + List.count x ((l.set w b).flatMap g)
        = List.count x (g b) + List.count x (l.flatMap g)
  | [], w, a, b, h => by simp at h
  | y :: ys, 0, a, b, h => by
    simp at h; subst h
    simp [List.flatMap_cons, List.count_append]; omega
  | y :: ys, w + 1, a, b, h => by
    simp at h
    have := count_flatMap_set g x ys w a b h
    simp [List.flatMap_cons, List.count_append]; omega

theorem count_le_flatMap {α β : Type} [BEq β] [LawfulBEq β] (g : α → List β) (x : β) :
    ∀ (l : List α) (w : Nat) (a : α), l[w]? = some a →
      List.count x (g a) ≤ List.count x (l.flatMap g)
  | [], w, a, h => by simp at h
  | y :: ys, 0, a, h => by
    simp at h; subst h
    simp [List.flatMap_cons, List.count_append]
  | y :: ys, w + 1, a, h => by
    simp at h
    have := count_le_flatMap g x ys w a h
    simp [List.flatMap_cons, List.count_append]; omega

theorem eq_nil_of_count_zero {β : Type} [BEq β] [LawfulBEq β] (l : List β)
    (h : ∀ x, List.count x l = 0) : l = [] := by
  cases l with
  | nil => rfl
  | cons a t => have := h a; simp at this

theorem flatMap_replicate_nil {α β : Type} (g : α → List β) (a : α) (h : g a = []) :
    ∀ n, (List.replicate n a).flatMap g = []
  | 0 => rfl
  | n + 1 => by simp [List.replicate_succ, List.flatMap_cons, h, flatMap_replicate_nil g a h n]

/-! ## the transitions as relations (proof device; `*_sound` ties them to the executable step) -/

/-- one step of a transfer body -/
inductive BTrans (c : Cfg) (s : St) (i : Nat) (a : Side) : Phase → BNext → Ev → St → Prop
  | readFail (k) : c.fails i (.read k) = true →
      BTrans c s i a (.reading k) (.cont (.closeA true)) (.read i k 0 false) { s with nfail := s.nfail + 1 }
  | readEof (k) : c.fails i (.read k) = false → (c.chunkOf i k).isEmpty = true →
      BTrans c s i a (.reading k) (.cont (.closeA false)) (.read i k 0 true) s
  | readData (k) : c.fails i (.read k) = false → (c.chunkOf i k).isEmpty = false →
      BTrans c s i a (.reading k) (.cont (.writing k)) (.read i k (c.chunkOf i k).length true) s
  | writeFail (k) : c.fails i (.write k) = true →
      BTrans c s i a (.writing k) (.cont (.closeA true)) (.write i k false) { s with nfail := s.nfail + 1 }
  | writeOk (k) : c.fails i (.write k) = false →
      BTrans c s i a (.writing k) (.cont (.reading (k + 1))) (.write i k true)
        { s with dest := s.dest.append (c.dstp i) (c.chunkOf i k) }
  | closeAFail (exc) : c.fails i (.close a) = true →
      BTrans c s i a (.closeA exc) (.cont (.closeB true)) (.close i a false)
        { s with opened := s.opened.erase (i, a), nfail := s.nfail + 1 }
  | closeAOk (exc) : c.fails i (.close a) = false →
      BTrans c s i a (.closeA exc) (.cont (.closeB exc)) (.close i a true)
        { s with opened := s.opened.erase (i, a) }
  | closeBFail (exc) : c.fails i (.close a.other) = true →
      BTrans c s i a (.closeB exc) (.fin true) (.close i a.other false)
        { s with opened := s.opened.erase (i, a.other), nfail := s.nfail + 1 }
  | closeBOk (exc) : c.fails i (.close a.other) = false →
      BTrans c s i a (.closeB exc) (.fin exc) (.close i a.other true)
        { s with opened := s.opened.erase (i, a.other) }

theorem bodyStep_sound (c : Cfg) (s : St) (i : Nat) (a : Side) (ph : Phase) :
    BTrans c s i a ph (bodyStep c s i a ph).1 (bodyStep c s i a ph).2.1 (bodyStep c s i a ph).2.2 := by
  cases ph with
  | reading k =>
    simp only [bodyStep]
    split
    · exact .readFail k (by assumption)
    · split
      · exact .readEof k (by simp_all) (by assumption)
      · exact .readData k (by simp_all) (by simp_all)
  | writing k =>
    simp only [bodyStep]
    split
    · exact .writeFail k (by assumption)
    · exact .writeOk k (by simp_all)
  | closeA exc =>
    simp only [bodyStep]
    split
    · exact .closeAFail exc (by assumption)
    · exact .closeAOk exc (by simp_all)
  | closeB exc =>
    simp only [bodyStep]
    split
    · exact .closeBFail exc (by assumption)
    · exact .closeBOk exc (by simp_all)


/-- a body step touches only `dest`, `opened`, `nfail` -/
theorem BTrans.frame {c : Cfg} {s s1 : St} {i : Nat} {a : Side} {ph : Phase} {nx : BNext} {e : Ev}
    (h : BTrans c s i a ph nx e s1) :
    s1.prod = s.prod ∧ s1.queue = s.queue ∧ s1.workers = s.workers ∧ s1.errors = s.errors ∧
    s1.allTasks = s.allTasks ∧ s1.timed = s.timed ∧ s1.done = s.done ∧ s1.dropped = s.dropped := by
  cases h <;> simp

/-- the transitions of worker `w` -/
inductive WTrans (c : Cfg) (s : St) (w : Nat) : St → Ev → Prop
  | getTask (i q) : s.workers[w]? = some .idle → s.queue = some i :: q →
      WTrans c s w { s with queue := q, workers := s.workers.set w (.run i (.reading 0)) } (.get (some i))
  | getSentinel (q) : s.workers[w]? = some .idle → s.queue = none :: q →
      WTrans c s w { s with queue := q, workers := s.workers.set w .stopping } (.get none)
  | bodyCont (i ph ph' e s1) : s.workers[w]? = some (.run i ph) → BTrans c s i .src ph (.cont ph') e s1 →
      WTrans c s w { s1 with workers := s1.workers.set w (.run i ph') } e
  | bodyFin (i ph exc e s1) : s.workers[w]? = some (.run i ph) → BTrans c s i .src ph (.fin exc) e s1 →
      WTrans c s w { s1 with workers := s1.workers.set w (.ending i exc) } e
  | endTask (i exc) : s.workers[w]? = some (.ending i exc) →
      WTrans c s w { s with workers := s.workers.set w .idle,
                            errors := if exc then s.errors ++ [i] else s.errors,
                            done := s.done ++ [i] } (.endTask i exc)
  | exitW : s.workers[w]? = some .stopping →
      WTrans c s w { s with workers := s.workers.set w .exited } .exitW

theorem workerStep_sound {c : Cfg} {s s' : St} {w : Nat} {e : Ev}
    (hs : workerStep c s w = some (s', e)) : WTrans c s w s' e := by
  unfold workerStep at hs
  split at hs
  · simp at hs
  · next hw =>
    split at hs
    · simp at hs
    · next i q hq => simp at hs; obtain ⟨rfl, rfl⟩ := hs; exact .getTask i q hw hq
    · next q hq => simp at hs; obtain ⟨rfl, rfl⟩ := hs; exact .getSentinel q hw hq
  · next i ph hw =>
    have hb := bodyStep_sound c s i .src ph
    split at hs
    · next ph' e1 s1 heq =>
      simp at hs; obtain ⟨rfl, rfl⟩ := hs
      rw [heq] at hb; exact .bodyCont i ph ph' e1 s1 hw hb
    · next exc e1 s1 heq =>
      simp at hs; obtain ⟨rfl, rfl⟩ := hs
      rw [heq] at hb; exact .bodyFin i ph exc e1 s1 hw hb
  · next i exc hw => simp at hs; obtain ⟨rfl, rfl⟩ := hs; exact .endTask i exc hw
  · next hw => simp at hs; obtain ⟨rfl, rfl⟩ := hs; exact .exitW hw
  · simp at hs


/-- the transitions of the producer -/
inductive PTrans (c : Cfg) (s : St) : St → Ev → Prop
  | inlOpen1Fail (i rest) : s.prod = .loop i rest → c.n = 0 → c.fails i (.open (firstSide c)) = true →
      PTrans c s (raiseP c { s with nfail := s.nfail + 1 } (i :: rest)) (.open i (firstSide c) false)
  | inlOpen1Ok (i rest) : s.prod = .loop i rest → c.n = 0 → c.fails i (.open (firstSide c)) = false →
      PTrans c s { s with prod := .inl i .second rest, opened := (i, firstSide c) :: s.opened,
                          dest := openEffect c s.dest i (firstSide c) } (.open i (firstSide c) true)
  | openSrcFail (i rest) : s.prod = .loop i rest → c.n ≠ 0 → c.fails i (.open .src) = true →
      PTrans c s (raiseP c { s with nfail := s.nfail + 1 } (i :: rest)) (.open i .src false)
  | openSrcOk (i rest) : s.prod = .loop i rest → c.n ≠ 0 → c.fails i (.open .src) = false →
      PTrans c s { s with prod := .srcOpen i rest, opened := (i, .src) :: s.opened } (.open i .src true)
  | openDstFail (i rest) : s.prod = .srcOpen i rest → c.fails i (.open .dst) = true →
      PTrans c s { s with prod := .failClose i rest, nfail := s.nfail + 1 } (.open i .dst false)
  | openDstOk (i rest) : s.prod = .srcOpen i rest → c.fails i (.open .dst) = false →
      PTrans c s { s with prod := .bothOpen i rest, allTasks := s.allTasks ++ [i],
                          opened := (i, .dst) :: s.opened,
                          dest := openEffect c s.dest i .dst } (.open i .dst true)
  | failCloseFail (i rest) : s.prod = .failClose i rest → c.fails i (.close .src) = true →
      PTrans c s (raiseP c { s with opened := s.opened.erase (i, .src), nfail := s.nfail + 1 } (i :: rest))
        (.close i .src false)
  | failCloseOk (i rest) : s.prod = .failClose i rest → c.fails i (.close .src) = false →
      PTrans c s (raiseP c { s with opened := s.opened.erase (i, .src) } (i :: rest)) (.close i .src true)
  | put (i rest) : s.prod = .bothOpen i rest → s.queue.length < c.n →
      PTrans c s { s with prod := nextLoop c rest, queue := s.queue ++ [some i] } (.put (some i))
  | inlOpen2Fail (i rest) : s.prod = .inl i .second rest → c.fails i (.open (firstSide c).other) = true →
      PTrans c s { s with prod := .inl i .failClose rest, nfail := s.nfail + 1 }
        (.open i (firstSide c).other false)
  | inlOpen2Ok (i rest) : s.prod = .inl i .second rest → c.fails i (.open (firstSide c).other) = false →
      PTrans c s { s with prod := .inl i (.body (.reading 0)) rest,
                          opened := (i, (firstSide c).other) :: s.opened,
                          dest := openEffect c s.dest i (firstSide c).other }
        (.open i (firstSide c).other true)
  | inlFailCloseFail (i rest) : s.prod = .inl i .failClose rest → c.fails i (.close (firstSide c)) = true →
      PTrans c s (raiseP c { s with opened := s.opened.erase (i, firstSide c), nfail := s.nfail + 1 } (i :: rest))
        (.close i (firstSide c) false)
  | inlFailCloseOk (i rest) : s.prod = .inl i .failClose rest → c.fails i (.close (firstSide c)) = false →
      PTrans c s (raiseP c { s with opened := s.opened.erase (i, firstSide c) } (i :: rest))
        (.close i (firstSide c) true)
  | inlBodyCont (i rest ph ph' e s1) : s.prod = .inl i (.body ph) rest →
      BTrans c s i (firstSide c).other ph (.cont ph') e s1 →
      PTrans c s { s1 with prod := .inl i (.body ph') rest } e
  | inlBodyRaise (i rest ph e s1) : s.prod = .inl i (.body ph) rest →
      BTrans c s i (firstSide c).other ph (.fin true) e s1 →
      PTrans c s (raiseP c { s1 with done := s1.done ++ [i] } rest) e
  | inlBodyToPtime (i rest ph e s1) : s.prod = .inl i (.body ph) rest →
      BTrans c s i (firstSide c).other ph (.fin false) e s1 → c.preserveTime = true →
      PTrans c s { s1 with prod := .inl i .ptime rest } e
  | inlBodyNext (i rest ph e s1) : s.prod = .inl i (.body ph) rest →
      BTrans c s i (firstSide c).other ph (.fin false) e s1 → c.preserveTime = false →
      PTrans c s { s1 with prod := nextLoop c rest, done := s1.done ++ [i] } e
  | inlPtimeFail (i rest) : s.prod = .inl i .ptime rest →
      (c.fails i .ptime || (s.dest.get (c.dstp i)).isNone) = true →
      PTrans c s (raiseP c { s with done := s.done ++ [i], nfail := s.nfail + 1 } rest) (.ptime i false)
  | inlPtimeOk (i rest) : s.prod = .inl i .ptime rest →
      (c.fails i .ptime || (s.dest.get (c.dstp i)).isNone) = false →
      PTrans c s { s with prod := nextLoop c rest, done := s.done ++ [i], timed := s.timed ++ [i] }
        (.ptime i true)
  | putSentinel (k exc) : s.prod = .sentinels k exc → s.queue.length < c.n →
      PTrans c s { s with prod := if k + 1 < c.n then .sentinels (k + 1) exc else .joining 0 exc,
                          queue := s.queue ++ [none] } (.put none)
  | join (k exc) : s.prod = .joining k exc → s.workers[k]? = some .exited →
      PTrans c s { s with prod := if k + 1 < c.n then .joining (k + 1) exc
                                  else afterJoin c s.allTasks exc } (.join k)
  | ptimesFail (i todo exc) : s.prod = .ptimes i todo exc →
      (c.fails i .ptime || (s.dest.get (c.dstp i)).isNone) = true →
      PTrans c s { s with prod := .exiting true, nfail := s.nfail + 1 } (.ptime i false)
  | ptimesOk (i todo exc) : s.prod = .ptimes i todo exc →
      (c.fails i .ptime || (s.dest.get (c.dstp i)).isNone) = false →
      PTrans c s { s with prod := ptimesNext todo exc, timed := s.timed ++ [i] } (.ptime i true)
  | qjoin (exc) : s.prod = .qjoin exc → unfinished s = 0 →
      PTrans c s { s with prod := .exiting exc } .qjoin
  | exit (exc) : s.prod = .exiting exc →
      PTrans c s { s with prod := .finished (if exc then .other else if s.errors.isEmpty then .ok else .bulk) }
        (.exit (if exc then .other else if s.errors.isEmpty then .ok else .bulk))

theorem prodStep_sound {c : Cfg} {s s' : St} {e : Ev}
    (hs : prodStep c s = some (s', e)) : PTrans c s s' e := by
  unfold prodStep at hs
  split at hs
  · next i rest hp =>
    split at hs
    · next hn =>
      split at hs
      · next hf => simp at hs; obtain ⟨rfl, rfl⟩ := hs; exact .inlOpen1Fail i rest hp hn hf
      · next hf => simp at hs; obtain ⟨rfl, rfl⟩ := hs; exact .inlOpen1Ok i rest hp hn (by simp_all)
    · next hn =>
      split at hs
      · next hf => simp at hs; obtain ⟨rfl, rfl⟩ := hs; exact .openSrcFail i rest hp hn hf
      · next hf => simp at hs; obtain ⟨rfl, rfl⟩ := hs; exact .openSrcOk i rest hp hn (by simp_all)
  · next i rest hp =>
    split at hs
    · next hf => simp at hs; obtain ⟨rfl, rfl⟩ := hs; exact .openDstFail i rest hp hf
    · next hf => simp at hs; obtain ⟨rfl, rfl⟩ := hs; exact .openDstOk i rest hp (by simp_all)
  · next i rest hp =>
    split at hs
    · next hf => simp at hs; obtain ⟨rfl, rfl⟩ := hs; exact .failCloseFail i rest hp hf
    · next hf => simp at hs; obtain ⟨rfl, rfl⟩ := hs; exact .failCloseOk i rest hp (by simp_all)
  · next i rest hp =>
    split at hs
    · next hq => simp at hs; obtain ⟨rfl, rfl⟩ := hs; exact .put i rest hp hq
    · simp at hs
  · next i rest hp =>
    split at hs
    · next hf => simp at hs; obtain ⟨rfl, rfl⟩ := hs; exact .inlOpen2Fail i rest hp hf
    · next hf => simp at hs; obtain ⟨rfl, rfl⟩ := hs; exact .inlOpen2Ok i rest hp (by simp_all)
  · next i rest hp =>
    split at hs
    · next hf => simp at hs; obtain ⟨rfl, rfl⟩ := hs; exact .inlFailCloseFail i rest hp hf
    · next hf => simp at hs; obtain ⟨rfl, rfl⟩ := hs; exact .inlFailCloseOk i rest hp (by simp_all)
  · next i ph rest hp =>
    have hb := bodyStep_sound c s i (firstSide c).other ph
    split at hs
    · next ph' e1 s1 heq =>
      simp at hs; obtain ⟨rfl, rfl⟩ := hs
      rw [heq] at hb; exact .inlBodyCont i rest ph ph' e1 s1 hp hb
    · next e1 s1 heq =>
      simp at hs; obtain ⟨rfl, rfl⟩ := hs
      rw [heq] at hb; exact .inlBodyRaise i rest ph e1 s1 hp hb
    · next e1 s1 heq =>
      rw [heq] at hb
      split at hs
      · next hpt => simp at hs; obtain ⟨rfl, rfl⟩ := hs; exact .inlBodyToPtime i rest ph e1 s1 hp hb hpt
      · next hpt => simp at hs; obtain ⟨rfl, rfl⟩ := hs; exact .inlBodyNext i rest ph e1 s1 hp hb (by simp_all)
  · next i rest hp =>
    split at hs
    · next hf => simp at hs; obtain ⟨rfl, rfl⟩ := hs; exact .inlPtimeFail i rest hp hf
    · next hf => simp at hs; obtain ⟨rfl, rfl⟩ := hs; exact .inlPtimeOk i rest hp (Bool.eq_false_iff.mpr hf)
  · next k exc hp =>
    split at hs
    · next hq => simp at hs; obtain ⟨rfl, rfl⟩ := hs; exact .putSentinel k exc hp hq
    · simp at hs
  · next k exc hp =>
    split at hs
    · next hj => simp at hs; obtain ⟨rfl, rfl⟩ := hs; exact .join k exc hp hj
    · simp at hs
  · next i todo exc hp =>
    split at hs
    · next hf => simp at hs; obtain ⟨rfl, rfl⟩ := hs; exact .ptimesFail i todo exc hp hf
    · next hf => simp at hs; obtain ⟨rfl, rfl⟩ := hs; exact .ptimesOk i todo exc hp (Bool.eq_false_iff.mpr hf)
  · next exc hp =>
    split at hs
    · next hu => simp at hs; obtain ⟨rfl, rfl⟩ := hs; exact .qjoin exc hp hu
    · simp at hs
  · next exc hp => simp only [Option.some.injEq, Prod.mk.injEq] at hs; obtain ⟨rfl, rfl⟩ := hs; exact .exit exc hp
  · simp at hs

end Fs.BulkLemmas
