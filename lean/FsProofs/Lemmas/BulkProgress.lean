/-
  C09 helper: the Copier never deadlocks — in every reachable state that is not final some
  thread can move.
-/
import FsProofs.Lemmas.BulkFinal

namespace Fs.BulkLemmas
open Fs Fs.Bulk
set_option linter.unusedSimpArgs false

theorem exists_not_stopped : ∀ ws : List W, List.count () (ws.flatMap stopMark) < ws.length →
    ∃ (w : Nat) (a : W), ws[w]? = some a ∧ stopped a = false
  | [], h => by simp at h
  | a :: ws, h => by
    by_cases ha : stopped a = true
    · have : List.count () (ws.flatMap stopMark) < ws.length := by
        simp [List.flatMap_cons, stopMark, ha, List.count_append] at h; omega
      obtain ⟨w, b, hw, hb⟩ := exists_not_stopped ws this
      exact ⟨w + 1, b, by simpa using hw, hb⟩
    · exact ⟨0, a, rfl, by simpa using ha⟩

theorem count_stopMark_le : ∀ ws : List W, List.count () (ws.flatMap stopMark) ≤ ws.length
  | [] => by simp
  | a :: ws => by
    have := count_stopMark_le ws
    simp [List.flatMap_cons, stopMark, List.count_append]
    split <;> simp <;> omega

theorem all_stopped_of_count_eq : ∀ ws : List W, List.count () (ws.flatMap stopMark) = ws.length →
    ∀ (w : Nat) (a : W), ws[w]? = some a → stopped a = true
  | [], _, w, a, hw => by simp at hw
  | b :: ws, h, w, a, hw => by
    have hle := count_stopMark_le ws
    by_cases hb : stopped b = true
    · have hrest : List.count () (ws.flatMap stopMark) = ws.length := by
        simp [List.flatMap_cons, stopMark, hb, List.count_append] at h; omega
      cases w with
      | zero => simp at hw; subst hw; exact hb
      | succ w => exact all_stopped_of_count_eq ws hrest w a (by simpa using hw)
    · simp [List.flatMap_cons, stopMark, hb, List.count_append] at h; omega

theorem bodyStep_exists (c : Cfg) (s : St) (i : Nat) (a : Side) (ph : Phase) :
    (∃ ph' e s1, bodyStep c s i a ph = (.cont ph', e, s1)) ∨ (∃ x e s1, bodyStep c s i a ph = (.fin x, e, s1)) := by
  rcases h : bodyStep c s i a ph with ⟨nx, e, s1⟩
  cases nx with
  | cont ph' => exact Or.inl ⟨ph', e, s1, rfl⟩
  | fin x => exact Or.inr ⟨x, e, s1, rfl⟩

/-- a worker that is neither exited nor idle-on-an-empty-queue can move -/
theorem worker_enabled {c : Cfg} {s : St} {w : Nat} {a : W} (hw : s.workers[w]? = some a)
    (ha : a ≠ W.exited) (hq : a = W.idle → s.queue ≠ []) : ∃ s' e, workerStep c s w = some (s', e) := by
  unfold workerStep
  rw [hw]
  cases a with
  | idle =>
    have := hq rfl
    cases hqq : s.queue with
    | nil => exact absurd hqq this
    | cons x q => cases x <;> simp
  | run i ph =>
    rcases bodyStep_exists c s i .src ph with ⟨ph', e, s1, h⟩ | ⟨x, e, s1, h⟩ <;> simp [h]
  | ending i exc => simp
  | stopping => simp
  | exited => exact absurd rfl ha

theorem some_worker_enabled {c : Cfg} {s : St} (hlt : nStopped s < s.workers.length) (hq : s.queue ≠ []) :
    ∃ l s' e, stepEv c s l = some (s', e) := by
  obtain ⟨w, a, hw, ha⟩ := exists_not_stopped s.workers hlt
  obtain ⟨s', e, h⟩ := worker_enabled (c := c) hw (by intro h; subst h; simp [stopped] at ha) (fun _ => hq)
  exact ⟨.w w, s', e, h⟩

theorem prod_enabled_of {c : Cfg} {s : St} (h : (prodStep c s).isSome = true) :
    ∃ l s' e, stepEv c s l = some (s', e) := by
  cases hp : prodStep c s with
  | none => simp [hp] at h
  | some r => exact ⟨.p, r.1, r.2, by simp [stepEv, hp]⟩

theorem progress {c : Cfg} {s : St} (hI : Inv c s) :
    s.prod.isFinished = true ∨ ∃ l s' e, stepEv c s l = some (s', e) := by
  have hA := hI.invA
  have hstage := hA.stage
  have hsent := hA.sent
  cases hp : s.prod with
  | finished o => left; rfl
  | loop i rest =>
    right; apply prod_enabled_of; unfold prodStep; rw [hp]; simp only
    split <;> split <;> rfl
  | srcOpen i rest =>
    right; apply prod_enabled_of; unfold prodStep; rw [hp]; simp only; split <;> rfl
  | failClose i rest =>
    right; apply prod_enabled_of; unfold prodStep; rw [hp]; simp only; split <;> rfl
  | inl i st rest =>
    right; apply prod_enabled_of; unfold prodStep; rw [hp]
    cases st with
    | second => simp only; split <;> rfl
    | failClose => simp only; split <;> rfl
    | body ph =>
      simp only
      rcases bodyStep_exists c s i (firstSide c).other ph with ⟨ph', e, s1, h⟩ | ⟨x, e, s1, h⟩
      · rw [h]; rfl
      · rw [h]; cases x
        · simp only; split <;> rfl
        · rfl
    | ptime => simp only; split <;> rfl
  | ptimes i todo exc =>
    right; apply prod_enabled_of; unfold prodStep; rw [hp]; simp only; split <;> rfl
  | exiting exc =>
    right; apply prod_enabled_of; unfold prodStep; rw [hp]; rfl
  | bothOpen i rest =>
    right
    rw [hp] at hstage hsent; simp [stageOk, sentPut] at hstage hsent
    by_cases hlen : s.queue.length < c.n
    · apply prod_enabled_of; unfold prodStep; rw [hp]; simp [hlen]
    · have hqne : s.queue ≠ [] := by
        intro h; rw [h] at hlen; simp at hlen; omega
      exact some_worker_enabled (by rw [hA.wlen]; omega) hqne
  | sentinels k exc =>
    right
    rw [hp] at hstage hsent; simp [stageOk, sentPut] at hstage hsent
    by_cases hlen : s.queue.length < c.n
    · apply prod_enabled_of; unfold prodStep; rw [hp]; simp [hlen]
    · have hqne : s.queue ≠ [] := by
        intro h; rw [h] at hlen; simp at hlen; omega
      exact some_worker_enabled (by rw [hA.wlen]; omega) hqne
  | joining k exc =>
    right
    rw [hp] at hstage hsent; simp [stageOk, sentPut] at hstage hsent
    have hk : k < s.workers.length := by rw [hA.wlen]; exact hstage
    have hw : s.workers[k]? = some s.workers[k] := List.getElem?_eq_getElem hk
    by_cases hex : s.workers[k] = W.exited
    · apply prod_enabled_of; unfold prodStep; rw [hp]; simp [hw, hex]
    · by_cases hidle : s.workers[k] = W.idle ∧ s.queue = []
      · -- every sentinel was consumed, so every worker is stopping or exited: not idle
        exfalso
        have hn : nStopped s = s.workers.length := by
          rw [hidle.2] at hsent; simp at hsent; rw [hA.wlen]; exact hsent
        have := all_stopped_of_count_eq s.workers hn k _ hw
        rw [hidle.1] at this; simp [stopped] at this
      · obtain ⟨s', e, h⟩ := worker_enabled (c := c) hw hex
          (fun hi hq => hidle ⟨hi, hq⟩)
        exact ⟨.w k, s', e, h⟩
  | qjoin exc =>
    right
    have hj : joined c.n s.prod = c.n := by simp [hp, joined]
    have hq := queue_empty_of_joined hA hj (by simp [hp, sentPut])
    have hex := allExited_of_joined hA hj
    apply prod_enabled_of; unfold prodStep; rw [hp]
    have hu : unfinished s = 0 := by
      simp only [unfinished, hq, List.length_nil, Nat.zero_add, List.length_eq_zero_iff,
        List.filter_eq_nil_iff]
      intro w hw; rw [hex w hw]; simp [busy]
    simp [hu]

end Fs.BulkLemmas
