/-
  C09 helper: shape of the queue (tasks before sentinels, bounded), sentinel accounting,
  and "joined workers have exited".
-/
import FsProofs.Lemmas.BulkLemmas

namespace Fs.BulkLemmas
open Fs Fs.Bulk
set_option linter.unusedSimpArgs false

def stopped : W → Bool
  | .stopping => true
  | .exited => true
  | _ => false

def stopMark (w : W) : List Unit := if stopped w then [()] else []

def nStopped (s : St) : Nat := List.count () (s.workers.flatMap stopMark)

/-- sentinels put so far -/
def sentPut (n : Nat) : Prod → Nat
  | .sentinels k _ => k
  | .joining _ _ => n
  | .ptimes _ _ _ => n
  | .qjoin _ => n
  | .exiting _ => n
  | .finished _ => n
  | _ => 0

/-- workers 0..joined-1 are known to have exited -/
def joined (n : Nat) : Prod → Nat
  | .joining k _ => k
  | .ptimes _ _ _ => n
  | .qjoin _ => n
  | .exiting _ => n
  | .finished _ => n
  | _ => 0

/-- tasks before sentinels -/
def qshape : List (Option Nat) → Bool
  | [] => true
  | some _ :: q => qshape q
  | none :: q => q.all Option.isNone

def stageOk (c : Cfg) : Prod → Prop
  | .sentinels k _ => k < c.n
  | .joining k _ => k < c.n
  | .srcOpen _ _ => c.n ≠ 0
  | .failClose _ _ => c.n ≠ 0
  | .bothOpen _ _ => c.n ≠ 0
  | .inl _ _ _ => c.n = 0
  | .ptimes _ _ _ => c.n ≠ 0
  | .qjoin _ => c.n ≠ 0
  | _ => True

structure InvA (c : Cfg) (s : St) : Prop where
  wlen : s.workers.length = c.n
  qlen : s.queue.length ≤ c.n
  sent : List.count none s.queue + nStopped s = sentPut c.n s.prod
  shape : qshape s.queue = true
  nosome : 0 < nStopped s → s.queued = []
  joinedEx : ∀ j, j < joined c.n s.prod → s.workers[j]? = some W.exited
  stage : stageOk c s.prod

theorem qshape_of_allNone : ∀ q : List (Option Nat), q.all Option.isNone = true → qshape q = true
  | [], _ => rfl
  | some _ :: q, h => by simp at h
  | none :: q, h => by simp at h; simpa [qshape] using h

theorem qshape_tail (x : Option Nat) (q : List (Option Nat)) (h : qshape (x :: q) = true) :
    qshape q = true := by
  cases x with
  | none => exact qshape_of_allNone q (by simpa [qshape] using h)
  | some i => simpa [qshape] using h

theorem qshape_append_none : ∀ q : List (Option Nat), qshape q = true → qshape (q ++ [none]) = true
  | [], _ => by simp [qshape]
  | some _ :: q, h => by simpa [qshape] using qshape_append_none q (by simpa [qshape] using h)
  | none :: q, h => by simp [qshape] at h ⊢; exact h

theorem qshape_append_some (i : Nat) : ∀ q : List (Option Nat), List.count none q = 0 →
    qshape (q ++ [some i]) = true
  | [], _ => by simp [qshape]
  | some _ :: q, h => by
    simp [List.count_cons] at h
    simpa [qshape] using qshape_append_some i q h
  | none :: q, h => by simp [List.count_cons] at h

theorem filterMap_nil_of_head_none (q : List (Option Nat)) (h : qshape (none :: q) = true) :
    q.filterMap id = [] := by
  simp [qshape] at h
  induction q with
  | nil => rfl
  | cons x t ih =>
    simp at h
    cases x with
    | none => simpa using ih h.2
    | some i => simp at h

theorem eq_nil_of_no_none_no_some : ∀ q : List (Option Nat), List.count none q = 0 →
    q.filterMap id = [] → q = []
  | [], _, _ => rfl
  | none :: q, h, _ => by simp [List.count_cons] at h
  | some i :: q, _, h => by simp at h

theorem sentPut_afterBody (c : Cfg) (b : Bool) : sentPut c.n (afterBody c b) = 0 := by
  unfold afterBody; split
  · next h => simp [sentPut, h]
  · rfl
theorem joined_afterBody (c : Cfg) (b : Bool) : joined c.n (afterBody c b) = 0 := by
  unfold afterBody; split
  · next h => simp [joined, h]
  · rfl
theorem stage_afterBody (c : Cfg) (b : Bool) : stageOk c (afterBody c b) := by
  unfold afterBody; split
  · trivial
  · next h => simp [stageOk]; omega
theorem sentPut_nextLoop (c : Cfg) (r : List Nat) : sentPut c.n (nextLoop c r) = 0 := by
  cases r with
  | nil => exact sentPut_afterBody c false
  | cons i r => rfl
theorem joined_nextLoop (c : Cfg) (r : List Nat) : joined c.n (nextLoop c r) = 0 := by
  cases r with
  | nil => exact joined_afterBody c false
  | cons i r => rfl
theorem stage_nextLoop (c : Cfg) (r : List Nat) : stageOk c (nextLoop c r) := by
  cases r with
  | nil => exact stage_afterBody c false
  | cons i r => trivial
theorem sentPut_ptimesNext (n : Nat) (l : List Nat) (b : Bool) : sentPut n (ptimesNext l b) = n := by
  cases l <;> rfl
theorem joined_ptimesNext (n : Nat) (l : List Nat) (b : Bool) : joined n (ptimesNext l b) = n := by
  cases l <;> rfl
theorem stage_ptimesNext (c : Cfg) (l : List Nat) (b : Bool) (h : c.n ≠ 0) : stageOk c (ptimesNext l b) := by
  cases l <;> exact h
theorem sentPut_afterJoin (c : Cfg) (l : List Nat) (b : Bool) : sentPut c.n (afterJoin c l b) = c.n := by
  unfold afterJoin; split
  · exact sentPut_ptimesNext _ l b
  · rfl
theorem joined_afterJoin (c : Cfg) (l : List Nat) (b : Bool) : joined c.n (afterJoin c l b) = c.n := by
  unfold afterJoin; split
  · exact joined_ptimesNext _ l b
  · rfl
theorem stage_afterJoin (c : Cfg) (l : List Nat) (b : Bool) (h : c.n ≠ 0) : stageOk c (afterJoin c l b) := by
  unfold afterJoin; split
  · exact stage_ptimesNext c l b h
  · exact h

theorem invA_init (c : Cfg) : InvA c (init c) where
  wlen := by simp [init]
  qlen := by simp [init]
  sent := by
    simp [init, nStopped, sentPut_nextLoop, flatMap_replicate_nil stopMark W.idle (by simp [stopMark, stopped])]
  shape := rfl
  nosome := by intro _; rfl
  joinedEx := by intro j hj; simp [init, joined_nextLoop] at hj
  stage := stage_nextLoop c _


theorem joinedEx_set {l : List W} {w : Nat} {a b : W} {J : Nat}
    (h : ∀ j, j < J → l[j]? = some W.exited) (hw : l[w]? = some a) (ha : a ≠ W.exited ∨ b = W.exited) :
    ∀ j, j < J → (l.set w b)[j]? = some W.exited := by
  intro j hj
  rw [List.getElem?_set]
  split
  · next hwj =>
    subst hwj
    have := h w hj
    rw [hw] at this
    rcases ha with ha | ha
    · simp at this; exact absurd this ha
    · subst ha
      split
      · rfl
      · next hlt => simp at hlt; rw [List.getElem?_eq_none hlt] at hw; simp at hw
  · exact h j hj

/-- a worker moves between two states with the same "stopped" mark, queue and producer untouched -/
theorem invA_worker_same {c : Cfg} {s s' : St} {w : Nat} {a b : W} (h : InvA c s)
    (hw : s.workers[w]? = some a) (hp : s'.prod = s.prod) (hq : s'.queue = s.queue)
    (hws : s'.workers = s.workers.set w b) (hm : stopMark a = stopMark b)
    (ha : a ≠ W.exited ∨ b = W.exited) : InvA c s' := by
  have hcnt := count_flatMap_set stopMark () s.workers w a b hw
  have hst : nStopped s' = nStopped s := by simp [nStopped, hws, hm] at hcnt ⊢; omega
  exact {
    wlen := by rw [hws, List.length_set]; exact h.wlen
    qlen := by rw [hq]; exact h.qlen
    sent := by rw [hq, hp, hst]; exact h.sent
    shape := by rw [hq]; exact h.shape
    nosome := by intro hpos; rw [hst] at hpos; simpa [St.queued, hq] using h.nosome hpos
    joinedEx := by rw [hp, hws]; exact joinedEx_set h.joinedEx hw ha
    stage := by rw [hp]; exact h.stage }

theorem invA_worker {c : Cfg} {s s' : St} {w : Nat} {e : Ev} (h : InvA c s)
    (hs : WTrans c s w s' e) : InvA c s' := by
  cases hs with
  | getTask i q hw hq =>
    have hcnt := count_flatMap_set stopMark () s.workers w .idle (.run i (.reading 0)) hw
    have hst : nStopped { s with queue := q, workers := s.workers.set w (.run i (.reading 0)) } = nStopped s := by
      simp [nStopped, stopMark, stopped] at hcnt ⊢; omega
    exact {
      wlen := by simp [h.wlen]
      qlen := by have := h.qlen; simp [hq] at this ⊢; omega
      sent := by have := h.sent; rw [hst]; simp [hq, List.count_cons] at this ⊢; exact this
      shape := by have := h.shape; rw [hq] at this; exact qshape_tail _ _ this
      nosome := by
        intro hpos; rw [hst] at hpos
        have := h.nosome hpos; simp [St.queued, hq] at this
      joinedEx := joinedEx_set h.joinedEx hw (Or.inl (by simp))
      stage := h.stage }
  | getSentinel q hw hq =>
    have hcnt := count_flatMap_set stopMark () s.workers w .idle .stopping hw
    have hst : nStopped { s with queue := q, workers := s.workers.set w .stopping } = nStopped s + 1 := by
      simp [nStopped, stopMark, stopped] at hcnt ⊢; omega
    exact {
      wlen := by simp [h.wlen]
      qlen := by have := h.qlen; simp [hq] at this ⊢; omega
      sent := by have := h.sent; rw [hst]; simp [hq, List.count_cons] at this ⊢; omega
      shape := by have := h.shape; rw [hq] at this; exact qshape_tail _ _ this
      nosome := by
        intro _
        have := h.shape; rw [hq] at this
        exact filterMap_nil_of_head_none q this
      joinedEx := joinedEx_set h.joinedEx hw (Or.inl (by simp))
      stage := h.stage }
  | bodyCont i ph ph' e s1 hw hb =>
    obtain ⟨h1, h2, h3, _, _, _, _, _⟩ := hb.frame
    exact invA_worker_same (b := .run i ph') h hw h1 h2 (by simp [h3]) (by simp [stopMark, stopped])
      (Or.inl (by simp))
  | bodyFin i ph exc e s1 hw hb =>
    obtain ⟨h1, h2, h3, _, _, _, _, _⟩ := hb.frame
    exact invA_worker_same (b := .ending i exc) h hw h1 h2 (by simp [h3]) (by simp [stopMark, stopped])
      (Or.inl (by simp))
  | endTask i exc hw =>
    exact invA_worker_same (b := .idle) h hw rfl rfl rfl (by simp [stopMark, stopped]) (Or.inl (by simp))
  | exitW hw =>
    exact invA_worker_same (b := .exited) h hw rfl rfl rfl (by simp [stopMark, stopped]) (Or.inr rfl)


/-- the producer moves without touching queue or workers -/
theorem invA_prod_same {c : Cfg} {s s' : St} (h : InvA c s)
    (hq : s'.queue = s.queue) (hw : s'.workers = s.workers)
    (hsent : sentPut c.n s'.prod = sentPut c.n s.prod)
    (hj : joined c.n s'.prod ≤ joined c.n s.prod) (hst : stageOk c s'.prod) : InvA c s' := by
  have hn : nStopped s' = nStopped s := by simp [nStopped, hw]
  exact {
    wlen := by rw [hw]; exact h.wlen
    qlen := by rw [hq]; exact h.qlen
    sent := by rw [hq, hn, hsent]; exact h.sent
    shape := by rw [hq]; exact h.shape
    nosome := by intro hpos; rw [hn] at hpos; simpa [St.queued, hq] using h.nosome hpos
    joinedEx := by intro j hj'; rw [hw]; exact h.joinedEx j (by omega)
    stage := hst }

theorem invA_prod {c : Cfg} {s s' : St} {e : Ev} (h : InvA c s)
    (hs : PTrans c s s' e) : InvA c s' := by
  have hstage := h.stage
  cases hs
  case put =>
    rename_i i rest hp hlen
    have hsent := h.sent
    rw [hp] at hsent hstage
    simp [sentPut] at hsent
    have hn : nStopped { s with prod := nextLoop c rest, queue := s.queue ++ [some i] } = nStopped s := rfl
    exact {
      wlen := h.wlen
      qlen := by simp; omega
      sent := by rw [hn]; simp [sentPut_nextLoop, List.count_append, List.count_cons]; omega
      shape := qshape_append_some i _ hsent.1
      nosome := by intro hpos; rw [hn] at hpos; omega
      joinedEx := by intro j hj; simp [joined_nextLoop] at hj
      stage := stage_nextLoop c rest }
  case putSentinel =>
    rename_i k exc hp hlen
    have hsent := h.sent
    rw [hp] at hsent hstage
    simp [sentPut, stageOk] at hsent hstage
    have hn : nStopped { s with prod := (if k + 1 < c.n then Prod.sentinels (k + 1) exc else Prod.joining 0 exc),
                                queue := s.queue ++ [none] } = nStopped s := rfl
    exact {
      wlen := h.wlen
      qlen := by simp; omega
      sent := by
        rw [hn]; simp [List.count_append, List.count_cons]
        split <;> simp [sentPut] <;> omega
      shape := qshape_append_none _ h.shape
      nosome := by intro hpos; rw [hn] at hpos; simpa [St.queued] using h.nosome hpos
      joinedEx := by
        intro j hj; simp at hj; split at hj <;> simp [joined] at hj
      stage := by simp; split <;> simp [stageOk] <;> omega }
  case join =>
    rename_i k exc hp hex
    rw [hp] at hstage; simp [stageOk] at hstage
    have hj := h.joinedEx
    rw [hp] at hj; simp [joined] at hj
    have hsent := h.sent
    rw [hp] at hsent; simp [sentPut] at hsent
    have hn : nStopped { s with prod := (if k + 1 < c.n then Prod.joining (k + 1) exc
                                         else afterJoin c s.allTasks exc) } = nStopped s := rfl
    exact {
      wlen := h.wlen
      qlen := h.qlen
      sent := by
        show List.count none s.queue + nStopped s
          = sentPut c.n (if k + 1 < c.n then Prod.joining (k + 1) exc else afterJoin c s.allTasks exc)
        split
        · simp [sentPut]; omega
        · rw [sentPut_afterJoin]; omega
      shape := h.shape
      nosome := by intro hpos; rw [hn] at hpos; simpa [St.queued] using h.nosome hpos
      joinedEx := by
        intro j hjj; simp at hjj
        by_cases hjk : j < k
        · exact hj j hjk
        · have : j = k := by
            split at hjj
            · simp [joined] at hjj; omega
            · simp [joined_afterJoin] at hjj; omega
          subst this; exact hex
      stage := by simp; split
                  · simpa [stageOk]
                  · exact stage_afterJoin c _ _ (by omega) }
  case inlBodyCont =>
    have hb := ‹BTrans c s _ _ _ _ _ _›; have hp := ‹s.prod = _›
    obtain ⟨h1, h2, h3, _, _, _, _, _⟩ := hb.frame
    rw [hp] at hstage
    exact invA_prod_same h h2 h3 (by simp [hp, sentPut]) (by simp [hp, joined]) hstage
  case inlBodyRaise =>
    have hb := ‹BTrans c s _ _ _ _ _ _›; have hp := ‹s.prod = _›
    obtain ⟨h1, h2, h3, _, _, _, _, _⟩ := hb.frame
    exact invA_prod_same h h2 h3 (by simp only [raiseP, sentPut_afterBody]; simp [hp, sentPut])
      (by simp only [raiseP, joined_afterBody]; omega) (stage_afterBody c true)
  case inlBodyToPtime =>
    have hb := ‹BTrans c s _ _ _ _ _ _›; have hp := ‹s.prod = _›
    obtain ⟨h1, h2, h3, _, _, _, _, _⟩ := hb.frame
    rw [hp] at hstage
    exact invA_prod_same h h2 h3 (by simp [hp, sentPut]) (by simp [hp, joined]) hstage
  case inlBodyNext =>
    have hb := ‹BTrans c s _ _ _ _ _ _›; have hp := ‹s.prod = _›
    obtain ⟨h1, h2, h3, _, _, _, _, _⟩ := hb.frame
    exact invA_prod_same h h2 h3 (by simp only [sentPut_nextLoop]; simp [hp, sentPut])
      (by simp only [joined_nextLoop]; omega) (stage_nextLoop c _)
  all_goals
    have hp := ‹s.prod = _›
    rw [hp] at hstage
    refine invA_prod_same h rfl rfl ?_ ?_ ?_
    all_goals
      first
      | exact stage_afterBody c _
      | exact stage_nextLoop c _
      | exact stage_ptimesNext c _ _ (by simpa [stageOk] using hstage)
      | ((try simp only [raiseP, sentPut_afterBody, joined_afterBody, sentPut_nextLoop, joined_nextLoop,
            sentPut_ptimesNext, joined_ptimesNext]) <;>
         simp_all [sentPut, joined, stageOk])

end Fs.BulkLemmas
