/-
  Helper lemmas for FsProofs/BaseWalkLaws.lean, part 7: the calls `FS.copydir` / `FS.movedir` REJECT (argument
  checks, `getinfo(src)`, `makedirs(dst)` / `makedir(dst)`), over ANY filesystem `F` that refines the
  reference: nothing changes and the class is admissible.
-/
import FsProofs.Lemmas.BaseWalkLift
import FsProofs.Lemmas.BaseWalkMoveDir

namespace Fs.BaseWalkAdm
open Fs Fs.Path Fs.Ref Fs.BaseWalk Fs.TreeLemmas Fs.WrapLemmas Fs.BaseWalkPrim Fs.BaseWalkRm Fs.BaseWalkCopyDir
  Fs.BaseWalkMoveDir Fs.BaseWalkLift Fs.WrapRefines Fs.MemRefines Fs.MultiFsLemmas

section
variable (F : FS State) (hF : RefinesRef F)
include hF

/-- `validatepath` of a refining filesystem is the reference's, class included -/
theorem validateOf_exact (t : State) (G : GoodS t) (p : Str) : validateOf F t p = validateOf Ref.step t p := by
  simp only [validateOf, exists_exact F hF t (good_of t G) p]

theorem validate_F (t : State) (G : GoodS t) (p : Str) (cs : List Name) (hv : validate p = .ok cs) :
    (PF F).validatepath t p = (t, .ok (absOf cs)) := by
  show validateOf F t p = _
  rw [validateOf_exact F hF t G p, validateOf_ref t G.opn, hv]

theorem exists_F (t : State) (G : GoodS t) (p : Str) (cs : List Name) (hv : validate p = .ok cs) :
    (PF F).exists_ t p = (t, .ok (.bool (t.root.get cs).isSome)) := by
  show F t (.exists_ p) = _
  rw [exists_exact F hF t (good_of t G) p, QueryLemmas.step_one t _ p G.opn rfl (by intro x m e; cases e), hv]; rfl

/-- `getinfo` on a path that validates: the reference's value, or an admissible class -/
theorem getinfo_F (t : State) (G : GoodS t) (p : Str) (cs : List Name) (hv : validate p = .ok cs) :
    match t.root.get cs with
    | none => ∃ e', (PF F).getinfo t p = (t, .err e') ∧ e' ∈ adm1 t.root cs (.getinfo p)
    | some (.file fb) => (PF F).getinfo t p = (t, .ok (.info (lastName cs) false fb.length))
    | some (.dir _) => (PF F).getinfo t p = (t, .ok (.info (lastName cs) true 0)) := by
  have hr : Ref.step t (.getinfo p) = step1 t cs (.getinfo p) := by
    rw [QueryLemmas.step_one t _ p G.opn rfl (by intro x m e; cases e), hv]
  rcases hg : t.root.get cs with _ | ⟨fb | es⟩
  · obtain ⟨e', hf, ha⟩ := lift_call_adm F hF t G (.getinfo p) rfl .ResourceNotFound (by rw [hr]; simp [step1, hg, fail])
    rw [QueryLemmas.adm_one t _ p G.opn rfl (by intro x m e; cases e), hv] at ha
    exact ⟨e', hf, ha⟩
  · rcases refines_cases F hF t (good_of t G) (.getinfo p) rfl with ⟨_, h⟩ | ⟨e, e', hr', _, _⟩
    · show F t (.getinfo p) = _
      rw [h, hr]; simp [step1, hg, done]
    · rw [hr] at hr'; simp [step1, hg, done] at hr'
  · rcases refines_cases F hF t (good_of t G) (.getinfo p) rfl with ⟨_, h⟩ | ⟨e, e', hr', _, _⟩
    · show F t (.getinfo p) = _
      rw [h, hr]; simp [step1, hg, done]
    · rw [hr] at hr'; simp [step1, hg, done] at hr'

end

/-! ### `adm` of the bulk operations contains what their checks report -/

theorem adm_copydir (t : State) (hc : t.closed = false) (p q : Str) (c : Bool) (a b : List Name)
    (hva : validate p = .ok a) (hvb : validate q = .ok b) :
    adm t (.copydir p q c) = adm2 t.root a b (.copydir p q c) := by
  rw [QueryLemmas.adm_two t _ p q hc rfl, hva, hvb]

theorem adm_movedir (t : State) (hc : t.closed = false) (p q : Str) (c : Bool) (a b : List Name)
    (hva : validate p = .ok a) (hvb : validate q = .ok b) :
    adm t (.movedir p q c) = adm2 t.root a b (.movedir p q c) := by
  rw [QueryLemmas.adm_two t _ p q hc rfl, hva, hvb]

/-- a class admissible for `getinfo(src)` is admissible for the directory argument of a bulk operation -/
theorem getinfo_sub_dirArg (root : Node) (a : List Name) (x : Str) (e : Err) (h : e ∈ adm1 root a (.getinfo x)) :
    e ∈ admDirArg root a := by
  simp only [adm1, admDirArg, List.mem_append] at h ⊢
  rcases h with h | h
  · exact Or.inl h
  · right
    split at h
    · next hb => simp [hb] at h ⊢; exact h
    · simp at h


/-! ### what the checks of the bulk operations need of a primitive interface -/

/-- the calls `FS.copydir` / `FS.movedir` / `FS.removetree` make BEFORE anything is written, on an interface
`P` whose states are `emb t`: `validatepath` and `exists` are the reference's (class included), `getinfo` gives
the reference's value or an admissible class, a refused `makedir` / `makedirs` / `scandir` leaves everything
as it was and its class is admissible -/
structure PrimAdm {σ : Type} (P : Prim σ) (emb : State → σ) : Prop where
  vpath : ∀ t p, GoodS t → P.validatepath (emb t) p = (emb t, match validate p with
      | .err e => .err e
      | .ok cs => .ok (absOf cs))
  exists_ : ∀ t p cs, GoodS t → validate p = .ok cs → P.exists_ (emb t) p = (emb t, .ok (.bool (t.root.get cs).isSome))
  getinfo : ∀ t p cs, GoodS t → validate p = .ok cs →
    match t.root.get cs with
    | none => ∃ e', P.getinfo (emb t) p = (emb t, .err e') ∧ e' ∈ adm1 t.root cs (.getinfo p)
    | some (.file fb) => P.getinfo (emb t) p = (emb t, .ok (.info (lastName cs) false fb.length))
    | some (.dir _) => P.getinfo (emb t) p = (emb t, .ok (.info (lastName cs) true 0))
  makedir_adm : ∀ t p e, GoodS t → (Ref.step t (.makedir p true)).2 = .err e →
    ∃ e', P.makedir (emb t) p = (emb t, .err e') ∧ e' ∈ adm t (.makedir p true)
  makedirs_adm : ∀ t p e, GoodS t → (Ref.step t (.makedirs p true)).2 = .err e →
    ∃ e', P.makedirs (emb t) p = (emb t, .err e') ∧ e' ∈ adm t (.makedirs p true)
  scandir_adm : ∀ t p e, GoodS t → (Ref.step t (.listdir p)).2 = .err e →
    ∃ e', P.scandir (emb t) p = (emb t, .err e') ∧ e' ∈ adm t (.listdir p)

/-- the primitives of a filesystem that refines the reference -/
theorem primAdm_of_refines (F : FS State) (hF : RefinesRef F) : PrimAdm (PF F) id where
  vpath := fun t p G => by
    show validateOf F t p = _
    rw [validateOf_exact F hF t G p, validateOf_ref t G.opn]
    rfl
  exists_ := fun t p cs G hv => exists_F F hF t G p cs hv
  getinfo := fun t p cs G hv => getinfo_F F hF t G p cs hv
  makedir_adm := fun t p e G he => lift_call_adm F hF t G (.makedir p true) rfl e he
  makedirs_adm := fun t p e G he => lift_call_adm F hF t G (.makedirs p true) rfl e he
  scandir_adm := fun t p e G he => by
    obtain ⟨e', hf, ha⟩ := lift_call_adm F hF t G (.listdir p) rfl e he
    exact ⟨e', by show scanOf F t p = _; simp [scanOf, hf], ha⟩

/-- below an existing directory nothing is blocked -/
theorem not_blocked_of_parent {root : Node} {b : List Name} {ps : Ents} (hne : b ≠ [])
    (hp : root.get (parentOf b) = some (.dir ps)) : blockedByFile root [] b = false := by
  have h1 := MemLemmas.blocked_snoc root [] b.dropLast (b.getLast?.getD [])
  rw [MemLemmas.split_last b hne] at h1
  rw [h1, MemLemmas.not_blocked_of_get root _ [] b.dropLast (by simpa [parentOf] using hp),
    MemLemmas.isFileAt_false_of_dir (by simpa [parentOf] using hp)]
  rfl

theorem get_none_of_parent_not_dir {root : Node} {b : List Name} (hne : b ≠ [])
    (hp : ∀ ps, root.get (parentOf b) ≠ some (.dir ps)) : root.get b = none := by
  cases hg : root.get b with
  | none => rfl
  | some n =>
    obtain ⟨ps, hps⟩ := get_parent_dir hne hg
    exact absurd hps (hp ps)

section
variable {σ : Type} (P : Prim σ) (emb : State → σ) (A : PrimAdm P emb)
include A

/-- **`FS.copydir` rejects**: every case in which the source is not a directory or the destination cannot
be made a directory.  Nothing changes; the class is admissible for `copydir` — or it is the
`ResourceNotFound` a filesystem may answer to `makedirs` below a file. -/
theorem copydir_P_rejected (fuel : Nat) (t : State) (G : GoodS t) (p q : Str) (create : Bool) (a b : List Name)
    (hva : validate p = .ok a) (hvb : validate q = .ok b) (hab : ¬ a <+: b)
    (hno : ¬ ((∃ es, t.root.get a = some (.dir es)) ∧
      ((∃ ds, t.root.get b = some (.dir ds)) ∨ (t.root.get b = none ∧ create = true ∧ blockedByFile t.root [] b = false)))) :
    ∃ e', copydir P fuel (emb t) p q create = (emb t, .err e') ∧
      (e' ∈ adm t (.copydir p q create) ∨ (e' = .ResourceNotFound ∧ blockedByFile t.root [] b = true)) := by
  have ha : CleanN a := TreeLemmas.validate_clean p a hva
  have hb : CleanN b := TreeLemmas.validate_clean q b hvb
  rw [adm_copydir t G.opn p q create a b hva hvb]
  simp only [copydir, A.vpath t p G, A.vpath t q G, hva, hvb, isbase_absOf_false ha hb hab,
    Bool.false_eq_true, if_false]
  -- the source check and `copy_dir` up to `makedirs`
  have body : (∃ ds, t.root.get b = some (.dir ds)) ∨ (t.root.get b = none → create = true) →
      ∃ e', (whenDir (P.getinfo (emb t) (absOf a)) fun t1 => copyDir P fuel t1 (absOf a) (absOf b)) = (emb t, .err e') ∧
        (e' ∈ adm2 t.root a b (.copydir p q create) ∨ (e' = .ResourceNotFound ∧ blockedByFile t.root [] b = true)) := by
    intro hbc
    have hgi := A.getinfo t (absOf a) a G (validate_absOf ha)
    rcases hga : t.root.get a with _ | ⟨fa | es⟩
    · rw [hga] at hgi
      obtain ⟨e', hf, he'⟩ := hgi
      refine ⟨e', by simp [whenDir, hf], Or.inl ?_⟩
      have := getinfo_sub_dirArg _ _ _ _ he'
      simp only [adm2, List.mem_append]; exact Or.inl (Or.inl (Or.inl this))
    · rw [hga] at hgi
      refine ⟨.DirectoryExpected, by simp [whenDir, hgi], Or.inl ?_⟩
      simp [adm2, admDirArg, kindAt, hga]
    · rw [hga] at hgi
      simp only [whenDir, hgi, copyDir, normRes_absOf ha, normRes_absOf hb, A.vpath t _ G, validate_absOf ha,
        validate_absOf hb, isbase_absOf_false ha hb hab, Bool.false_eq_true, if_false]
      -- `makedirs(dst, recreate=True)` is refused
      have hmkR : ∃ e, (Ref.step t (.makedirs (absOf b) true)).2 = .err e := by
        rw [ref_one t G.opn _ hb rfl (by intro x m e; cases e)]
        simp only [step1]
        cases hbl : blockedByFile t.root [] b
        · rcases hgb : t.root.get b with _ | ⟨fb | ds⟩
          · exfalso
            rcases hbc with ⟨ds, hds⟩ | hcr
            · rw [hgb] at hds; cases hds
            · exact hno ⟨⟨es, hga⟩, Or.inr ⟨hgb, hcr hgb, hbl⟩⟩
          · exact ⟨.DirectoryExpected, by simp [fail]⟩
          · exact absurd ⟨⟨es, hga⟩, Or.inl ⟨ds, hgb⟩⟩ hno
        · exact ⟨.DirectoryExpected, by simp [fail]⟩
      obtain ⟨e, he⟩ := hmkR
      obtain ⟨e', hf, he'⟩ := A.makedirs_adm t (absOf b) e G he
      refine ⟨e', by rw [hf], ?_⟩
      rw [QueryLemmas.adm_one t _ _ G.opn rfl (by intro x m e; cases e), validate_absOf hb] at he'
      simp only [adm1, Bool.not_true, Bool.false_eq_true, and_false, if_false, List.nil_append, List.mem_append] at he'
      rcases he' with he' | he'
      · left
        split at he'
        · next hk => simp at he'; subst he'; simp [adm2, hk]
        · simp at he'
      · split at he'
        · next hbl =>
          simp only [List.mem_cons, List.mem_nil_iff, or_false] at he'
          rcases he' with rfl | rfl
          · left; simp [adm2, hbl]
          · right; exact ⟨rfl, hbl⟩
        · simp at he'
  cases create with
  | true => simpa [whenExists] using body (Or.inr fun _ => rfl)
  | false =>
    simp only [whenExists, Bool.false_eq_true, if_false, A.exists_ t (absOf b) b G (validate_absOf hb)]
    rcases hgb : t.root.get b with _ | nb
    · refine ⟨.ResourceNotFound, by simp, Or.inl ?_⟩
      simp [adm2, kindAt, hgb]
    · simp only [Option.isSome_some]
      rcases nb with fb | ds
      · -- a file at the destination: the source check, then `makedirs` is refused
        have := body (Or.inr fun h => by rw [hgb] at h; cases h)
        simpa using this
      · have := body (Or.inl ⟨ds, hgb⟩)
        simpa using this


/-- **`FS.movedir` rejects**: the source is not a directory, or the destination is missing and not to be
created / has no parent directory, or is a file.  Nothing changes and the class is admissible. -/
theorem movedir_P_rejected (rt : σ → Str → σ × Out) (fuel : Nat) (t : State) (G : GoodS t) (p q : Str)
    (create : Bool) (a b : List Name) (hva : validate p = .ok a) (hvb : validate q = .ok b) (hne : a ≠ b)
    (hab : ¬ a <+: b)
    (hno : ¬ ((∃ es, t.root.get a = some (.dir es)) ∧
      ((∃ ds, t.root.get b = some (.dir ds)) ∨
       (t.root.get b = none ∧ create = true ∧ ∃ ps, t.root.get (parentOf b) = some (.dir ps))))) :
    ∃ e', movedir P rt fuel (emb t) p q create = (emb t, .err e') ∧ e' ∈ adm t (.movedir p q create) := by
  have ha : CleanN a := TreeLemmas.validate_clean p a hva
  have hb : CleanN b := TreeLemmas.validate_clean q b hvb
  have hne' : absOf a ≠ absOf b := fun e => hne (absOf_inj ha hb e)
  rw [adm_movedir t G.opn p q create a b hva hvb]
  simp only [movedir, A.vpath t p G, A.vpath t q G, hva, hvb, hne', isbase_absOf_false ha hb hab,
    Bool.false_eq_true, if_false]
  have body : (∃ ds, t.root.get b = some (.dir ds)) ∨ (t.root.get b = none → create = true) →
      ∃ e', moveDir P rt fuel (emb t) p q = (emb t, .err e') ∧ e' ∈ adm2 t.root a b (.movedir p q create) := by
    intro hbc
    have hgi := A.getinfo t p a G hva
    rcases hga : t.root.get a with _ | ⟨fa | es⟩
    · rw [hga] at hgi
      obtain ⟨e', hf, he'⟩ := hgi
      refine ⟨e', by simp [moveDir, whenDir, hf], ?_⟩
      have := getinfo_sub_dirArg _ _ _ _ he'
      simp only [adm2, hne, if_false, List.mem_append]; exact Or.inl (Or.inl (Or.inl this))
    · rw [hga] at hgi
      refine ⟨.DirectoryExpected, by simp [moveDir, whenDir, hgi], ?_⟩
      simp [adm2, hne, admDirArg, kindAt, hga]
    · rw [hga] at hgi
      simp only [moveDir, whenDir, hgi, moveDirBody]
      -- `makedir(dst, recreate=True)` is refused
      have hbne : b ≠ [] := by
        rintro rfl
        exact hno ⟨⟨es, hga⟩, Or.inl (by
          obtain ⟨rs, hrs⟩ : ∃ rs, t.root = .dir rs := by
            cases hr : t.root with
            | dir rs => exact ⟨rs, rfl⟩
            | file x => have := G.dir; rw [hr] at this; cases this
          exact ⟨rs, by simp [Node.get, hrs]⟩)⟩
      have hmkR : ∃ e, (Ref.step t (.makedir q true)).2 = .err e := by
        rw [QueryLemmas.step_one t _ q G.opn rfl (by intro x m e; cases e), hvb]
        simp only [step1, hbne, if_false]
        rcases hpar : t.root.get (parentOf b) with _ | ⟨pf | ps⟩
        · exact ⟨.ResourceNotFound, by simp [fail]⟩
        · exact ⟨.ResourceNotFound, by simp [fail]⟩
        · rcases hgb : t.root.get b with _ | ⟨fb | ds⟩
          · exfalso
            rcases hbc with ⟨ds, hds⟩ | hcr
            · rw [hgb] at hds; cases hds
            · exact hno ⟨⟨es, hga⟩, Or.inr ⟨hgb, hcr hgb, ps, hpar⟩⟩
          · exact ⟨.DirectoryExpected, by simp [fail]⟩
          · exact absurd ⟨⟨es, hga⟩, Or.inl ⟨ds, hgb⟩⟩ hno
      obtain ⟨e, he⟩ := hmkR
      obtain ⟨e', hf, he'⟩ := A.makedir_adm t q e G he
      refine ⟨e', by simp only [andThen, hf], ?_⟩
      rw [QueryLemmas.adm_one t _ _ G.opn rfl (by intro x m e; cases e), hvb] at he'
      simp only [adm1, Bool.not_true, Bool.false_eq_true, and_false, if_false, List.nil_append, List.mem_append,
        and_true] at he'
      simp only [adm2, hne, if_false, List.mem_append]
      rcases he' with (he' | he') | he'
      · -- a file at the destination
        split at he'
        · next hk => simp at he'; subst he'; right; simp [hk]
        · simp at he'
      · -- no parent
        split at he'
        · next hk =>
          simp at he'; subst he'
          left; right
          have hpn : ∀ ps, t.root.get (parentOf b) ≠ some (.dir ps) := by
            intro ps h; simp [kindAt, h] at hk
          have hgb := get_none_of_parent_not_dir hk.1 hpn
          have : kindAt t.root (parentOf b) ≠ some true := by rw [hk.2]; simp
          have hcond : kindAt t.root b = none ∧ ((!create) = true ∨ kindAt t.root (parentOf b) ≠ some true) :=
            ⟨by simp [kindAt, hgb], Or.inr this⟩
          rw [if_pos hcond]; simp
        · simp at he'
      · -- a file in the way
        split at he'
        · next hbl =>
          have hpn : ∀ ps, t.root.get (parentOf b) ≠ some (.dir ps) := by
            intro ps h
            rw [not_blocked_of_parent hbne h] at hbl; cases hbl
          have hgb := get_none_of_parent_not_dir hbne hpn
          have hkp : kindAt t.root (parentOf b) ≠ some true := by
            intro h
            simp only [kindAt] at h
            rcases hpp : t.root.get (parentOf b) with _ | ⟨pf | ps⟩ <;> rw [hpp] at h <;> simp at h
            exact hpn ps hpp
          simp only [List.mem_cons, List.mem_nil_iff, or_false] at he'
          rcases he' with rfl | rfl
          · right; simp [hbl]
          · left; right
            have hcond : kindAt t.root b = none ∧ ((!create) = true ∨ kindAt t.root (parentOf b) ≠ some true) :=
              ⟨by simp [kindAt, hgb], Or.inr hkp⟩
            rw [if_pos hcond]; simp
        · simp at he'
  cases create with
  | true => simpa [whenExists] using body (Or.inr fun _ => rfl)
  | false =>
    simp only [whenExists, Bool.false_eq_true, if_false, A.exists_ t q b G hvb]
    rcases hgb : t.root.get b with _ | nb
    · refine ⟨.ResourceNotFound, by simp, ?_⟩
      simp [adm2, hne, kindAt, hgb]
    · simp only [Option.isSome_some]
      rcases nb with fb | ds
      · have := body (Or.inr fun h => by rw [hgb] at h; cases h)
        simpa using this
      · have := body (Or.inl ⟨ds, hgb⟩)
        simpa using this

end

/-! the two rejections, for the primitives of a filesystem `F` that refines the reference -/

theorem copydir_F_rejected (F : FS State) (hF : RefinesRef F) (fuel : Nat) (t : State) (G : GoodS t) (p q : Str)
    (create : Bool) (a b : List Name) (hva : validate p = .ok a) (hvb : validate q = .ok b) (hab : ¬ a <+: b)
    (hno : ¬ ((∃ es, t.root.get a = some (.dir es)) ∧
      ((∃ ds, t.root.get b = some (.dir ds)) ∨ (t.root.get b = none ∧ create = true ∧ blockedByFile t.root [] b = false)))) :
    ∃ e', copydir (PF F) fuel t p q create = (t, .err e') ∧
      (e' ∈ adm t (.copydir p q create) ∨ (e' = .ResourceNotFound ∧ blockedByFile t.root [] b = true)) :=
  copydir_P_rejected (PF F) id (primAdm_of_refines F hF) fuel t G p q create a b hva hvb hab hno

theorem movedir_F_rejected (F : FS State) (hF : RefinesRef F) (rt : State → Str → State × Out) (fuel : Nat)
    (t : State) (G : GoodS t) (p q : Str) (create : Bool) (a b : List Name) (hva : validate p = .ok a)
    (hvb : validate q = .ok b) (hne : a ≠ b) (hab : ¬ a <+: b)
    (hno : ¬ ((∃ es, t.root.get a = some (.dir es)) ∧
      ((∃ ds, t.root.get b = some (.dir ds)) ∨
       (t.root.get b = none ∧ create = true ∧ ∃ ps, t.root.get (parentOf b) = some (.dir ps))))) :
    ∃ e', movedir (PF F) rt fuel t p q create = (t, .err e') ∧ e' ∈ adm t (.movedir p q create) :=
  movedir_P_rejected (PF F) id (primAdm_of_refines F hF) rt fuel t G p q create a b hva hvb hne hab hno

end Fs.BaseWalkAdm
