/-
  Helper lemmas for FsProofs/BaseWalkLaws.lean, part 6: `FS.movedir` / `move_dir` over the primitives of
  `Ref.step`, source and destination not overlapping.
-/
import FsProofs.Lemmas.BaseWalkCopyDir

namespace Fs.BaseWalkMoveDir
open Fs Fs.Path Fs.Ref Fs.BaseWalk Fs.TreeLemmas Fs.WrapLemmas Fs.BaseWalkPrim Fs.BaseWalkRm Fs.BaseWalkSpec
  Fs.BaseWalkComm Fs.BaseWalkCopy Fs.BaseWalkMerge Fs.BaseWalkCopyDir

/-- `copy_dir` called with raw paths that validate is `copy_dir` on the normalised ones -/
theorem copyDir_raw (fuel : Nat) (t : State) (G : GoodS t) (p q : Str) (a b : List Name)
    (hva : validate p = .ok a) (hvb : validate q = .ok b) :
    copyDir PR fuel t p q = copyDir PR fuel t (absOf a) (absOf b) := by
  have ha : CleanN a := TreeLemmas.validate_clean p a hva
  have hb : CleanN b := TreeLemmas.validate_clean q b hvb
  have hv1 : PR.validatepath t p = (t, .ok (absOf a)) := by
    show validateOf Ref.step t p = _
    rw [validateOf_ref t G.opn, hva]
  have hv2 : PR.validatepath t q = (t, .ok (absOf b)) := by
    show validateOf Ref.step t q = _
    rw [validateOf_ref t G.opn, hvb]
  have hv1' : PR.validatepath t (absOf a) = (t, .ok (absOf a)) := validateOf_ref_absOf _ G.opn ha
  have hv2' : PR.validatepath t (absOf b) = (t, .ok (absOf b)) := validateOf_ref_absOf _ G.opn hb
  simp only [copyDir, normRes_of_validate hva, normRes_of_validate hvb, normRes_absOf ha, normRes_absOf hb,
    hv1, hv2, hv1', hv2']

/-- `FS.movedir` over the reference's primitives on paths that validate to different, non-nested
components: the checks in the order of the code, `makedir(dst, recreate=True)`, `copy_dir`, `removetree(src)` -/
theorem movedir_checks (rt : State → Str → State × Out) (fuel : Nat) (t : State) (G : GoodS t) (p q : Str)
    (create : Bool) (a b : List Name) (hva : validate p = .ok a) (hvb : validate q = .ok b) (hne : a ≠ b)
    (hab : ¬ a <+: b) :
    movedir PR rt fuel t p q create =
      if !create && (t.root.get b).isNone then (t, .err .ResourceNotFound)
      else match t.root.get a with
        | none => (t, .err .ResourceNotFound)
        | some (.file _) => (t, .err .DirectoryExpected)
        | some (.dir _) => moveDirBody PR rt fuel t p q := by
  have ha : CleanN a := TreeLemmas.validate_clean p a hva
  have hb : CleanN b := TreeLemmas.validate_clean q b hvb
  have hv1 : PR.validatepath t p = (t, .ok (absOf a)) := by
    show validateOf Ref.step t p = _
    rw [validateOf_ref t G.opn, hva]
  have hv2 : PR.validatepath t q = (t, .ok (absOf b)) := by
    show validateOf Ref.step t q = _
    rw [validateOf_ref t G.opn, hvb]
  have hne' : absOf a ≠ absOf b := fun e => hne (absOf_inj ha hb e)
  have hex : PR.exists_ t q = (t, .ok (.bool (t.root.get b).isSome)) := by
    show Ref.step t (.exists_ q) = _
    rw [QueryLemmas.step_one t _ q G.opn rfl (by intro x m e; cases e), hvb]; rfl
  have hgi : PR.getinfo t p = match t.root.get a with
      | none => (t, .err .ResourceNotFound)
      | some (.file fb) => (t, .ok (.info (lastName a) false fb.length))
      | some (.dir _) => (t, .ok (.info (lastName a) true 0)) := by
    show Ref.step t (.getinfo p) = _
    rw [QueryLemmas.step_one t _ p G.opn rfl (by intro x m e; cases e), hva]
    simp only [step1]
    rcases t.root.get a with _ | ⟨_ | _⟩ <;> rfl
  simp only [movedir, hv1, hv2, hne', isbase_absOf_false ha hb hab, Bool.false_eq_true, if_false]
  cases create <;> rcases hgb : t.root.get b with _ | nb <;> rcases hga : t.root.get a with _ | ⟨_ | _⟩ <;>
    simp [whenExists, whenDir, moveDir, hex, hgi, hga, hgb]


/-- what `move_dir` results in once its checks have passed (`root2` = the tree after
`makedir(dst, recreate=True)`): the outcome of `copy_dir` — a conflict stops the call BEFORE anything is
removed from the source —, and on success the source directory is gone -/
def MoveOutcome (root2 : Node) (a b : List Name) (es ds0 : Ents) (r : State × Out) : Prop :=
  match recNode .struct (.dir es) (.dir ds0) with
  | none => ∃ D', r = ({ root := setAt root2 b D', closed := false }, .err .DirectoryExpected)
  | some D1 =>
    match recNode .files (.dir es) D1 with
    | none => ∃ D', r = ({ root := setAt root2 b D', closed := false }, .err .FileExpected)
    | some D2 => r = ({ root := (setAt root2 b D2).del a, closed := false }, .ok .unit)

/-- the `removetree` the move ends with behaves like the reference's on the source (the base-class walker
with enough fuel: `removetree_ref_valid`; the class's own: refinement) -/
def RtSpec (rt : State → Str → State × Out) (fuel : Nat) (p : Str) (a : List Name) : Prop :=
  ∀ s, GoodS s → subCount s.root a < fuel → rt s p = Ref.step s (.removetree p)

theorem rtSpec_base (fuel : Nat) (p : Str) (a : List Name) (hva : validate p = .ok a) :
    RtSpec (removetree PR fuel) fuel p a :=
  fun s G hf => removetree_ref_valid fuel s G p a hva hf

theorem rtSpec_own (fuel : Nat) (p : Str) (a : List Name) :
    RtSpec (fun s x => Ref.step s (.removetree x)) fuel p a := fun _ _ _ => rfl

/-- after a successful `copy_dir` into `b` (`root2.get a` = the source directory, untouched) the source is
removed -/
theorem move_finish (rt : State → Str → State × Out) (fuel : Nat) (p : Str) (a b : List Name)
    (hva : validate p = .ok a) (hrt : RtSpec rt fuel p a) (inc : Inc a b) (hb : CleanN b)
    (root2 : Node) (hd2 : root2.isDir = true) (hw2 : root2.wf = true) (es ds0 : Ents)
    (hga : root2.get a = some (.dir es)) (hgb : root2.get b = some (.dir ds0)) (hf : (Node.dir es).count < fuel)
    (r : State × Out) (h : CopyOutcome root2 b es ds0 r) :
    MoveOutcome root2 a b es ds0 (andThen r fun t3 => rt t3 p) := by
  unfold CopyOutcome at h
  unfold MoveOutcome
  have hwe : entsWf es = true := entsWf_of_get hw2 hga
  have hwd : entsWf ds0 = true := entsWf_of_get hw2 hgb
  cases hst : recNode .struct (.dir es) (.dir ds0) with
  | none =>
    rw [hst] at h
    obtain ⟨D', rfl⟩ := h
    exact ⟨D', rfl⟩
  | some D1 =>
    rw [hst] at h
    simp only at h ⊢
    have hD1w : D1.wf = true := recNode_wf .struct _ _ D1 (by simpa [Node.wf] using hwe) (by simpa [Node.wf] using hwd) hst
    cases hfl : recNode .files (.dir es) D1 with
    | none =>
      rw [hfl] at h
      obtain ⟨D', rfl⟩ := h
      exact ⟨D', rfl⟩
    | some D2 =>
      rw [hfl] at h
      subst h
      simp only [andThen]
      obtain ⟨_, _, _, d2, _, _, _, _, rfl⟩ := recNode_inv hfl
      have hD2w : entsWf d2 = true := by
        have := recNode_wf .files _ _ _ (by simpa [Node.wf] using hwe) hD1w hfl
        simpa [Node.wf] using this
      have G3 : GoodS { root := setAt root2 b (.dir d2), closed := false } :=
        ⟨rfl, QueryLemmas.setAt_dir_isDir _ _ _ hd2, TreeLemmas.setAt_wf _ _ _ hb hw2 hD2w⟩
      have hga3 : (setAt root2 b (.dir d2)).get a = some (.dir es) := by
        rw [get_setAt_diverge _ _ _ _ inc.2 inc.1]; exact hga
      have hane : a ≠ [] := by rintro rfl; exact inc.1 List.nil_prefix
      rw [hrt _ G3 (by simpa [subCount, hga3] using hf),
        QueryLemmas.step_one _ _ p G3.opn rfl (by intro x m e; cases e), hva]
      simp [step1, hane, hga3, upd]

/-- `move_dir`'s body when the source is a directory and the destination an existing directory -/
theorem moveDirBody_existing (rt : State → Str → State × Out) (fuel : Nat) (t : State) (G : GoodS t) (p q : Str)
    (a b : List Name) (hva : validate p = .ok a) (hvb : validate q = .ok b) (inc : Inc a b)
    (hrt : RtSpec rt fuel p a) (es ds : Ents) (hga : t.root.get a = some (.dir es))
    (hgb : t.root.get b = some (.dir ds)) (hf : (Node.dir es).count < fuel) :
    MoveOutcome t.root a b es ds (moveDirBody PR rt fuel t p q) := by
  have ha : CleanN a := TreeLemmas.validate_clean p a hva
  have hb : CleanN b := TreeLemmas.validate_clean q b hvb
  have hbne : b ≠ [] := by rintro rfl; exact inc.2 List.nil_prefix
  obtain ⟨ps, hps⟩ := get_parent_dir hbne hgb
  have hmk : PR.makedir t q = (t, .ok .unit) := by
    show Ref.step t (.makedir q true) = _
    rw [QueryLemmas.step_one t _ q G.opn rfl (by intro x m e; cases e), hvb]
    have hps' : t.root.get (parentOf b) = some (.dir ps) := hps
    simp [step1, hbne, hps', hgb, done]
  have hnb : blockedByFile t.root [] b = false := MemLemmas.not_blocked_of_get t.root _ [] b (by simpa using hgb)
  have hcd : copyDir PR fuel t p q = phases fuel (absOf a) (absOf b) t := by
    rw [copyDir_raw fuel t G p q a b hva hvb, copyDir_unfold fuel t G a b ha hb inc.1]
    simp [step1, hnb, hgb, done]
  simp only [moveDirBody, hmk, hcd, andThen]
  exact move_finish rt fuel p a b hva hrt inc hb t.root G.dir G.wf es ds hga hgb hf _
    (phases_outcome fuel t G a b ha hb inc es ds hga hgb hf)

/-- … and when the destination is missing below an existing directory: `makedir` creates it empty -/
theorem moveDirBody_created (rt : State → Str → State × Out) (fuel : Nat) (t : State) (G : GoodS t) (p q : Str)
    (a b : List Name) (hva : validate p = .ok a) (hvb : validate q = .ok b) (inc : Inc a b)
    (hrt : RtSpec rt fuel p a) (es ps : Ents) (hga : t.root.get a = some (.dir es))
    (hgb : t.root.get b = none) (hpar : t.root.get (parentOf b) = some (.dir ps)) (hf : (Node.dir es).count < fuel) :
    MoveOutcome (t.root.set b (.dir [])) a b es [] (moveDirBody PR rt fuel t p q) := by
  have ha : CleanN a := TreeLemmas.validate_clean p a hva
  have hb : CleanN b := TreeLemmas.validate_clean q b hvb
  have hbne : b ≠ [] := by rintro rfl; exact inc.2 List.nil_prefix
  have hmk : PR.makedir t q = ({ t with root := t.root.set b (.dir []) }, .ok .unit) := by
    show Ref.step t (.makedir q true) = _
    rw [QueryLemmas.step_one t _ q G.opn rfl (by intro x m e; cases e), hvb]
    simp [step1, hbne, hpar, hgb, upd]
  have G2 : GoodS { t with root := t.root.set b (.dir []) } :=
    ⟨G.opn, by rw [QueryLemmas.set_isDir]; exact G.dir, TreeLemmas.set_wf _ _ _ hb (by simp [Node.wf, entsWf]) G.wf⟩
  have hgb2 : (t.root.set b (.dir [])).get b = some (.dir []) := get_set_same b _ _ ps hbne hpar
  have hga2 : (t.root.set b (.dir [])).get a = some (.dir es) := by
    rw [get_set_diverge _ _ _ _ inc.2 inc.1]; exact hga
  have hnb : blockedByFile (t.root.set b (.dir [])) [] b = false :=
    MemLemmas.not_blocked_of_get _ _ [] b (by simpa using hgb2)
  have hcd : copyDir PR fuel { t with root := t.root.set b (.dir []) } p q =
      phases fuel (absOf a) (absOf b) { t with root := t.root.set b (.dir []) } := by
    rw [copyDir_raw fuel _ G2 p q a b hva hvb, copyDir_unfold fuel _ G2 a b ha hb inc.1]
    simp [step1, hnb, hgb2, done]
  simp only [moveDirBody, hmk, hcd, andThen]
  exact move_finish rt fuel p a b hva hrt inc hb _ G2.dir G2.wf es [] hga2 hgb2 hf _
    (phases_outcome fuel _ G2 a b ha hb inc es [] hga2 hgb2 hf)

end Fs.BaseWalkMoveDir
