/-
  Helper lemmas for FsProofs/WrapRefines.lean (the functor model of WrapFS / SubFS):
  * operating on a tree below a sub-directory = operating on the sub-tree and putting it back
    (`get/set/del/mkdirs/blockedByFile` under a prefix; `setAt` algebra);
  * `Ref.step1/step2/step` under a prefix (`graft`);
  * `adm` under a prefix;
  * what `SubFS.delegate_path` returns, in terms of `Ref.validate`.
-/
import FsModel.Ref
import FsModel.RefAdm
import FsModel.Wrap
import FsProofs.Lemmas.TreeLemmas
import FsProofs.Lemmas.QueryLemmas
import FsProofs.Lemmas.ConfineLemmas

namespace Fs.WrapLemmas
open Fs Fs.Ref Fs.TreeLemmas

/-! ### `Ents.put` / `Node.set` algebra -/

theorem put_put (c : Name) (x y : Node) (es : Ents) :
    Ents.put c y (Ents.put c x es) = Ents.put c y es := by
  induction es with
  | nil => simp [Ents.put]
  | cons e es ih =>
    obtain ⟨k, v⟩ := e
    by_cases h : k = c
    · simp [Ents.put, h]
    · simp [Ents.put, h, ih]

theorem set_set (cs : List Name) (t x y : Node) : (t.set cs x).set cs y = t.set cs y := by
  fun_induction Node.set cs t x with
  | case1 n v => rfl
  | case2 c es v => simp [Node.set, put_put]
  | case3 c d cs es v ch hl ih =>
    simp only [Node.set, lookup_put_same, put_put, hl]
    rw [ih]
  | case4 c d cs es v hl => simp [Node.set, hl]
  | case5 c cs b v => rfl

theorem setAt_setAt (t : Node) (cs : List Name) (x y : Node) :
    setAt (setAt t cs x) cs y = setAt t cs y := by
  unfold setAt
  split
  · rfl
  · exact set_set _ _ _ _

theorem setAt_nil (t x : Node) : setAt t [] x = x := by simp [setAt]

theorem setAt_ne {cs : List Name} (h : cs ≠ []) (t x : Node) : setAt t cs x = t.set cs x := by
  simp [setAt, h]

/-- putting back what is there changes nothing -/
theorem set_self (cs : List Name) (t u : Node) (h : t.get cs = some u) : t.set cs u = t := by
  fun_induction Node.set cs t u with
  | case1 n v => rfl
  | case2 c es v =>
    simp only [Node.get] at h
    cases hl : Ents.lookup c es with
    | none => simp [hl] at h
    | some ch =>
      rw [hl] at h
      simp only [Node.get, Option.some.injEq] at h
      subst h
      rw [put_lookup_self _ _ _ hl]
  | case3 c d cs es v ch hl ih =>
    simp only [Node.get, hl] at h
    rw [ih h, put_lookup_self _ _ _ hl]
  | case4 c d cs es v hl => rfl
  | case5 c cs b v => rfl

theorem setAt_self (cs : List Name) (t u : Node) (h : t.get cs = some u) : setAt t cs u = t := by
  unfold setAt
  split
  · next h' => subst h'; simpa [Node.get] using h.symm
  · exact set_self _ _ _ h

/-! ### below a prefix -/

theorem get_sub {t u : Node} {sub : List Name} (h : t.get sub = some u) (r : List Name) :
    t.get (sub ++ r) = u.get r := by
  rw [get_append, h]; rfl

/-- writing below `sub` = writing inside the sub-tree, then putting the sub-tree back -/
theorem set_sub {t u : Node} {sub : List Name} (h : t.get sub = some u) (r : List Name) (hr : r ≠ [])
    (v : Node) : t.set (sub ++ r) v = setAt t sub (u.set r v) := by
  induction sub generalizing t with
  | nil =>
    simp only [Node.get, Option.some.injEq] at h
    subst h
    simp [setAt]
  | cons c sub ih =>
    cases t with
    | file b => simp [Node.get] at h
    | dir es =>
      simp only [Node.get] at h
      cases hl : Ents.lookup c es with
      | none => simp [hl] at h
      | some ch =>
        simp only [hl] at h
        have hne : sub ++ r ≠ [] := by simp [hr]
        obtain ⟨d, rest, hd⟩ : ∃ d rest, sub ++ r = d :: rest := by
          cases hsr : sub ++ r with
          | nil => exact absurd hsr hne
          | cons d rest => exact ⟨d, rest, rfl⟩
        have e1 : (Node.dir es).set (c :: (sub ++ r)) v = .dir (Ents.put c (ch.set (sub ++ r) v) es) := by
          rw [hd]; simp [Node.set, hl]
        rw [List.cons_append, e1, ih h, setAt_ne (cs := c :: sub) (by simp)]
        cases sub with
        | nil => simp [Node.set, setAt]
        | cons d' sub' => simp [Node.set, hl, setAt]

theorem del_sub {t u : Node} {sub : List Name} (h : t.get sub = some u) (r : List Name) (hr : r ≠ []) :
    t.del (sub ++ r) = setAt t sub (u.del r) := by
  induction sub generalizing t with
  | nil =>
    simp only [Node.get, Option.some.injEq] at h
    subst h
    simp [setAt]
  | cons c sub ih =>
    cases t with
    | file b => simp [Node.get] at h
    | dir es =>
      simp only [Node.get] at h
      cases hl : Ents.lookup c es with
      | none => simp [hl] at h
      | some ch =>
        simp only [hl] at h
        have hne : sub ++ r ≠ [] := by simp [hr]
        obtain ⟨d, rest, hd⟩ : ∃ d rest, sub ++ r = d :: rest := by
          cases hsr : sub ++ r with
          | nil => exact absurd hsr hne
          | cons d rest => exact ⟨d, rest, rfl⟩
        have e1 : (Node.dir es).del (c :: (sub ++ r)) = .dir (Ents.put c (ch.del (sub ++ r)) es) := by
          rw [hd]; simp [Node.del, hl]
        rw [List.cons_append, e1, ih h, setAt_ne (cs := c :: sub) (by simp)]
        cases sub with
        | nil => simp [Node.set, setAt]
        | cons d' sub' => simp [Node.set, hl, setAt]

/-- the sub-tree put at `sub` is read back at `sub` -/
theorem get_setAt {t u : Node} {sub : List Name} (h : t.get sub = some u) (x : Node) (r : List Name) :
    (setAt t sub x).get (sub ++ r) = x.get r := by
  unfold setAt
  split
  · next h' => subst h'; rfl
  · next h' =>
    obtain ⟨ps, hp⟩ := get_parent_dir h' h
    exact get_set_append sub r t _ ps h' hp

theorem get_setAt_self {t u : Node} {sub : List Name} (h : t.get sub = some u) (x : Node) :
    (setAt t sub x).get sub = some x := by
  have := get_setAt h x []
  simpa [Node.get] using this

/-- nested replacement -/
theorem setAt_append {t u : Node} {p : List Name} (h : t.get p = some u) (q : List Name) (x : Node) :
    setAt t p (setAt u q x) = setAt t (p ++ q) x := by
  by_cases hq : q = []
  · subst hq; simp [setAt]
  · rw [setAt_ne hq, setAt_ne (by simp [hq] : p ++ q ≠ []), set_sub h q hq]

theorem set_sub' {t u : Node} {sub : List Name} (h : t.get sub = some u) (r : List Name)
    (v : Node) (hsr : sub ++ r ≠ []) : t.set (sub ++ r) v = setAt t sub (setAt u r v) := by
  rw [setAt_append h, setAt_ne hsr]


/-! ### `mkdirs` / `blockedByFile` below a prefix -/

/-- walking through directories that exist creates nothing -/
theorem mkdirs_skip (pre sub cs : List Name) (t x : Node) (h : t.get (pre ++ sub) = some x) :
    mkdirs pre (sub ++ cs) t = mkdirs (pre ++ sub) cs t := by
  induction sub generalizing pre with
  | nil => simp
  | cons c sub ih =>
    have h' : t.get ((pre ++ [c]) ++ sub) = some x := by simpa using h
    obtain ⟨y, hy⟩ := get_prefix_some (pre ++ [c]) sub t x h'
    simp only [List.cons_append, mkdirs, hy]
    rw [ih (pre ++ [c]) h']
    simp

theorem mkdirs_sub {t u : Node} {sub : List Name} (h : t.get sub = some u) (pre cs : List Name) :
    mkdirs (sub ++ pre) cs t = setAt t sub (mkdirs pre cs u) := by
  induction cs generalizing t u pre with
  | nil => simp [mkdirs, setAt_self _ _ _ h]
  | cons c cs ih =>
    simp only [mkdirs]
    rw [List.append_assoc, get_sub h]
    cases hg : u.get (pre ++ [c]) with
    | some y =>
      simp only []
      exact ih h (pre ++ [c])
    | none =>
      simp only []
      rw [set_sub h (pre ++ [c]) (by simp)]
      have h2 : (setAt t sub (u.set (pre ++ [c]) (.dir []))).get sub = some (u.set (pre ++ [c]) (.dir [])) :=
        get_setAt_self h _
      have := ih h2 (pre ++ [c])
      rw [setAt_setAt] at this
      rw [← this]

theorem blocked_rel {t u : Node} {sub : List Name} (h : t.get sub = some u) (pre cs : List Name) :
    blockedByFile t (sub ++ pre) cs = blockedByFile u pre cs := by
  induction cs generalizing pre with
  | nil => simp [blockedByFile]
  | cons c cs ih =>
    simp only [blockedByFile, get_sub h]
    rw [← ih (pre ++ [c])]
    simp

/-- the path to an existing directory is not blocked, and from there on it is the sub-tree's
own question -/
theorem blocked_sub {t : Node} {es : Ents} (pre sub : List Name) (h : t.get (pre ++ sub) = some (.dir es))
    (cs : List Name) : blockedByFile t pre (sub ++ cs) = blockedByFile (.dir es) [] cs := by
  induction sub generalizing pre with
  | nil =>
    have h' : t.get pre = some (.dir es) := by simpa using h
    have := blocked_rel h' [] cs
    simpa using this
  | cons c sub ih =>
    have h' : t.get ((pre ++ [c]) ++ sub) = some (.dir es) := by simpa using h
    obtain ⟨ps, hp⟩ := get_prefix_dir pre c sub t _ h
    simp only [List.cons_append, blockedByFile, hp]
    by_cases he : sub ++ cs = []
    · have hcs : cs = [] := by
        cases sub <;> simp_all
      have hsub : sub = [] := by
        cases sub <;> simp_all
      simp [hsub, hcs, blockedByFile]
    · simp only [he, if_false, Bool.false_or]
      exact ih (pre ++ [c]) h'

/-! ### grafting a result of the sub-tree into the parent -/

/-- the state a view at a directory `u` of an open/closed filesystem shows -/
def viewOf (s : State) (u : Node) : State := { root := u, closed := s.closed }

/-- put the outcome of a step on the sub-tree back into the parent: the sub-tree at `sub` is
replaced (`setAt` = `Node.set`, or the whole root when `sub = []`), NOTHING else changes -/
def graft (s : State) (sub : List Name) (r : State × Out) : State × Out :=
  ({ s with root := setAt s.root sub r.1.root }, r.2)

theorem graft_fail {s : State} {sub : List Name} {u : Node} (h : s.root.get sub = some u) (e : Err) :
    graft s sub (fail (viewOf s u) e) = fail s e := by
  simp [graft, fail, viewOf, setAt_self _ _ _ h]

theorem graft_done {s : State} {sub : List Name} {u : Node} (h : s.root.get sub = some u) (v : Val) :
    graft s sub (done (viewOf s u) v) = done s v := by
  simp [graft, done, viewOf, setAt_self _ _ _ h]

theorem graft_upd (s : State) (sub : List Name) (u x : Node) (v : Val) :
    graft s sub (upd (viewOf s u) x v) = upd s (setAt s.root sub x) v := by
  simp [graft, upd, viewOf]

theorem graft_graft {s : State} {p : List Name} {u : Node} (h : s.root.get p = some u) (q : List Name)
    (r : State × Out) : graft s p (graft (viewOf s u) q r) = graft s (p ++ q) r := by
  simp [graft, viewOf, setAt_append h]

theorem graft_nil (s : State) (r : State × Out) (hc : r.1.closed = s.closed) : graft s [] r = r := by
  obtain ⟨⟨root, cl⟩, o⟩ := r
  simp only at hc
  simp [graft, setAt, hc]


theorem mkdirs_graft {t u : Node} {sub : List Name} (h : t.get sub = some u) (cs : List Name) :
    mkdirs [] (sub ++ cs) t = setAt t sub (mkdirs [] cs u) := by
  have := mkdirs_skip [] sub cs t u (by simpa using h)
  rw [this]
  have := mkdirs_sub h [] cs
  simpa using this

theorem parentOf_append (sub cs : List Name) (h : cs ≠ []) : parentOf (sub ++ cs) = sub ++ parentOf cs := by
  simp [parentOf, List.dropLast_append_of_ne_nil h]

theorem lastName_append (sub cs : List Name) (h : cs ≠ []) : lastName (sub ++ cs) = lastName cs := by
  cases hcs : cs.getLast? with
  | none => simp [List.getLast?_eq_none_iff] at hcs; exact absurd hcs h
  | some x => simp [lastName, List.getLast?_append, hcs]

/-- the three operations that treat the ROOT of a filesystem differently from any other
directory (a wrapper has to handle them itself, and `WrapFS` does) -/
def rootSpecial : Op → Bool
  | .getinfo _ | .removedir _ | .removetree _ => true
  | _ => false

/-- **one-path operations below a prefix**: executing on the parent at `sub ++ cs` is executing
on the sub-tree at `cs` and putting the sub-tree back — same outcome (error class included),
nothing outside `sub` changes.  For the root of the sub-tree (`cs = []`) this holds for every
operation except `getinfo` (name), `removedir`, `removetree`. -/
theorem step1_graft (s : State) (sub cs : List Name) (es : Ents) (op : Op)
    (h : s.root.get sub = some (.dir es)) (hsp : cs ≠ [] ∨ rootSpecial op = false) :
    step1 s (sub ++ cs) op = graft s sub (step1 (viewOf s (.dir es)) cs op) := by
  by_cases hsub : sub = []
  · subst hsub
    obtain ⟨root, cl⟩ := s
    simp only [Node.get, Option.some.injEq] at h
    subst h
    simp only [List.nil_append, viewOf]
    rcases QueryLemmas.step1_shape ⟨.dir es, cl⟩ cs op with ⟨o, ho⟩ | ⟨t, v, ho⟩ <;>
      rw [ho] <;> simp [graft, setAt, upd]
  have hg : ∀ r, s.root.get (sub ++ r) = (Node.dir es).get r := fun r => get_sub h r
  have hbl : ∀ r, blockedByFile s.root [] (sub ++ r) = blockedByFile (.dir es) [] r :=
    fun r => blocked_sub [] sub (by simpa using h) r
  by_cases hcs : cs = []
  · subst hcs
    have hop : rootSpecial op = false := by rcases hsp with h' | h' <;> simp_all
    obtain ⟨ps, hps⟩ := get_parent_dir hsub h
    have hps' : s.root.get (parentOf sub) = some (.dir ps) := hps
    have hbl0 := hbl []
    simp only [List.append_nil] at hbl0
    cases op <;> simp only [rootSpecial, reduceCtorEq] at hop
    all_goals simp only [step1, writeFile, viewOf, List.append_nil, hsub, h, hps', hbl0, Node.get, blockedByFile,
        if_true, if_false]
    all_goals try (repeat' split)
    all_goals try simp [graft, fail, done, upd, viewOf, setAt_self _ _ _ h]
    all_goals simp_all
  · have hne : sub ++ cs ≠ [] := by simp [hcs]
    have hp := parentOf_append sub cs hcs
    have hl := lastName_append sub cs hcs
    have hset : ∀ x, s.root.set (sub ++ cs) x = setAt s.root sub ((Node.dir es).set cs x) :=
      fun x => set_sub h cs hcs x
    have hdel : s.root.del (sub ++ cs) = setAt s.root sub ((Node.dir es).del cs) := del_sub h cs hcs
    have hmk : mkdirs [] (sub ++ cs) s.root = setAt s.root sub (mkdirs [] cs (.dir es)) := mkdirs_graft h cs
    obtain ⟨o, ho⟩ : ∃ o, (Node.dir es).get cs = o := ⟨_, rfl⟩
    obtain ⟨o', ho'⟩ : ∃ o, (Node.dir es).get (parentOf cs) = o := ⟨_, rfl⟩
    cases op
    all_goals simp only [step1, writeFile, viewOf, hne, hcs, hp, hl, hg, hbl, hset, hdel, hmk, ho, ho', if_false]
    all_goals rcases o with _ | ⟨_ | _⟩ <;> rcases o' with _ | ⟨_ | _⟩
    all_goals try (repeat' split)
    all_goals try simp [graft, fail, done, upd, viewOf, setAt_self _ _ _ h]


theorem set_setAt_sub {t u : Node} {sub : List Name} (h : t.get sub = some u) (x y : Node) (r : List Name)
    (hr : r ≠ []) : (setAt t sub x).set (sub ++ r) y = setAt t sub (x.set r y) := by
  rw [set_sub (get_setAt_self h x) r hr, setAt_setAt]

theorem del_setAt_sub {t u : Node} {sub : List Name} (h : t.get sub = some u) (x : Node) (r : List Name)
    (hr : r ≠ []) : (setAt t sub x).del (sub ++ r) = setAt t sub (x.del r) := by
  rw [del_sub (get_setAt_self h x) r hr, setAt_setAt]

theorem setAt_setAt_sub {t u : Node} {sub : List Name} (h : t.get sub = some u) (x y : Node) (r : List Name) :
    setAt (setAt t sub x) (sub ++ r) y = setAt t sub (setAt x r y) := by
  rw [← setAt_append (get_setAt_self h x) r y, setAt_setAt]

theorem isPrefix_append (sub a b : List Name) : isPrefix (sub ++ a) (sub ++ b) = isPrefix a b := by
  induction sub with
  | nil => rfl
  | cons c sub ih => simp [isPrefix, ih]


set_option hygiene false in
/-- the rewriting facts shared by the two-path graft lemmas (needs `h : s.root.get sub = some (.dir es)`
and `hsub : sub ≠ []` in the context) -/
local macro "graft_facts" : tactic => `(tactic|
  (have hg : ∀ r, s.root.get (sub ++ r) = (Node.dir es).get r := fun r => get_sub h r
   have hg2 : ∀ x r, (setAt s.root sub x).get (sub ++ r) = x.get r := fun x r => get_setAt h x r
   have hbl : ∀ r, blockedByFile s.root [] (sub ++ r) = blockedByFile (.dir es) [] r :=
     fun r => blocked_sub [] sub (by simpa using h) r
   have hmk : ∀ r, mkdirs [] (sub ++ r) s.root = setAt s.root sub (mkdirs [] r (.dir es)) :=
     fun r => mkdirs_graft h r
   have hsa : ∀ r y, setAt s.root (sub ++ r) y = setAt s.root sub (setAt (.dir es) r y) :=
     fun r y => (setAt_append h r y).symm
   have hsa2 : ∀ x r y, setAt (setAt s.root sub x) (sub ++ r) y = setAt s.root sub (setAt x r y) :=
     fun x r y => setAt_setAt_sub h x y r
   have hne : ∀ r, (sub ++ r = []) = False := fun r => by simp [hsub]
   have hset : ∀ r, r ≠ [] → ∀ x, s.root.set (sub ++ r) x = setAt s.root sub ((Node.dir es).set r x) :=
     fun r hr x => set_sub h r hr x
   have hset2 : ∀ r, r ≠ [] → ∀ x y, (setAt s.root sub x).set (sub ++ r) y = setAt s.root sub (x.set r y) :=
     fun r hr x y => set_setAt_sub h x y r hr
   have hdel : ∀ r, r ≠ [] → s.root.del (sub ++ r) = setAt s.root sub ((Node.dir es).del r) :=
     fun r hr => del_sub h r hr
   have hdel2 : ∀ r, r ≠ [] → ∀ x, (setAt s.root sub x).del (sub ++ r) = setAt s.root sub (x.del r) :=
     fun r hr x => del_setAt_sub h x r hr
   have hpar : ∀ r, r ≠ [] → parentOf (sub ++ r) = sub ++ parentOf r := fun r hr => parentOf_append sub r hr
   have hgf : ∀ e, graft s sub (fail (viewOf s (.dir es)) e) = fail s e := fun e => graft_fail h e
   have hgd : ∀ v, graft s sub (done (viewOf s (.dir es)) v) = done s v := fun v => graft_done h v))

theorem ne_nil_of_get_none {u : Node} {r : List Name} (h : u.get r = none) : r ≠ [] := by
  intro e; subst e; simp [Node.get] at h

theorem movedir_graft (s : State) (sub a b : List Name) (es : Ents) (p q : Str) (c : Bool)
    (h : s.root.get sub = some (.dir es)) (hsub : sub ≠ []) :
    step2 s (sub ++ a) (sub ++ b) (.movedir p q c) =
      graft s sub (step2 (viewOf s (.dir es)) a b (.movedir p q c)) := by
  graft_facts
  simp only [step2, List.append_cancel_left_eq, isPrefix_append, hg, viewOf]
  by_cases hab : a = b
  · simp only [hab, if_true]; exact (hgd _).symm
  simp only [hab, if_false]
  by_cases hpre : isPrefix a b = true
  · simp only [hpre, if_true]; exact (hgf _).symm
  simp only [hpre, Bool.false_eq_true, if_false]
  have ha : a ≠ [] := by intro e; subst e; simp [isPrefix] at hpre
  cases hoa : (Node.dir es).get a with
  | none => exact (hgf _).symm
  | some na =>
    cases na with
    | file d => exact (hgf _).symm
    | dir eas =>
      simp only []
      cases hob : (Node.dir es).get b with
      | none =>
        simp only []
        have hb := ne_nil_of_get_none hob
        cases c
        · simp only [Bool.not_false, if_true]; exact (hgf _).symm
        · simp only [Bool.not_true, Bool.false_eq_true, if_false, hpar b hb, hg]
          cases hop : (Node.dir es).get (parentOf b) with
          | none => exact (hgf _).symm
          | some nb =>
            cases nb with
            | file d => exact (hgf _).symm
            | dir ebs =>
              simp only [hset b hb, hdel2 a ha]
              exact (graft_upd s sub _ _ _).symm
      | some nb =>
        cases nb with
        | file d => exact (hgf _).symm
        | dir ds0 =>
          simp only [hdel a ha, hg2]
          cases hob' : ((Node.dir es).del a).get b with
          | none => exact (hgf _).symm
          | some nb' =>
            cases nb' with
            | file d => exact (hgf _).symm
            | dir ds =>
              simp only []
              cases hm : mergeEnts eas ds with
              | none => exact (hgf _).symm
              | some m =>
                simp only [hsa2]
                exact (graft_upd s sub _ _ _).symm

theorem copydir_graft (s : State) (sub a b : List Name) (es : Ents) (p q : Str) (c : Bool)
    (h : s.root.get sub = some (.dir es)) (hsub : sub ≠ []) :
    step2 s (sub ++ a) (sub ++ b) (.copydir p q c) =
      graft s sub (step2 (viewOf s (.dir es)) a b (.copydir p q c)) := by
  graft_facts
  simp only [step2, isPrefix_append, hg, hbl, viewOf]
  by_cases hpre : isPrefix a b = true
  · simp only [hpre, if_true]; exact (hgf _).symm
  simp only [hpre, Bool.false_eq_true, if_false]
  cases hob : (Node.dir es).get b with
  | none =>
    simp only []
    have hb := ne_nil_of_get_none hob
    cases c
    · simp only [Bool.not_false, if_true]; exact (hgf _).symm
    · simp only [Bool.not_true, Bool.false_eq_true, if_false]
      cases hoa : (Node.dir es).get a with
      | none => exact (hgf _).symm
      | some na =>
        cases na with
        | file d => exact (hgf _).symm
        | dir eas =>
          simp only []
          by_cases hblk : blockedByFile (Node.dir es) [] b = true
          · simp only [hblk, if_true]; exact (hgf _).symm
          · simp only [hblk, Bool.false_eq_true, if_false, hmk, hset2 b hb]
            exact (graft_upd s sub _ _ _).symm
  | some nb =>
    cases nb with
    | file d =>
      simp only []
      cases hoa : (Node.dir es).get a with
      | none => exact (hgf _).symm
      | some na => cases na <;> exact (hgf _).symm
    | dir ds =>
      simp only []
      cases hoa : (Node.dir es).get a with
      | none => exact (hgf _).symm
      | some na =>
        cases na with
        | file d => exact (hgf _).symm
        | dir eas =>
          simp only []
          cases hm : mergeEnts eas ds with
          | none => exact (hgf _).symm
          | some m =>
            simp only [hsa]
            exact (graft_upd s sub _ _ _).symm


theorem move_graft (s : State) (sub a b : List Name) (es : Ents) (p q : Str) (ow : Bool)
    (h : s.root.get sub = some (.dir es)) (hsub : sub ≠ []) :
    step2 s (sub ++ a) (sub ++ b) (.move p q ow) =
      graft s sub (step2 (viewOf s (.dir es)) a b (.move p q ow)) := by
  graft_facts
  obtain ⟨ps, hps⟩ := get_parent_dir hsub h
  simp only [step2, List.append_cancel_left_eq, hg, hne, viewOf, if_false]
  cases hoa : (Node.dir es).get a with
  | none => exact (hgf _).symm
  | some na =>
    cases na with
    | dir eas => exact (hgf _).symm
    | file data =>
      simp only []
      have ha : a ≠ [] := by intro e; subst e; simp [Node.get] at hoa
      by_cases hex : (!ow && ((Node.dir es).get b).isSome) = true
      · simp only [hex, if_true]; exact (hgf _).symm
      simp only [hex, Bool.false_eq_true, if_false]
      by_cases hab : a = b
      · simp only [hab, if_true]; exact (hgd _).symm
      simp only [hab, if_false]
      by_cases hb : b = []
      · subst hb
        simp only [List.append_nil, if_true]
        have : s.root.get (parentOf sub) = some (.dir ps) := hps
        simp only [this, h]
        exact (hgf _).symm
      · simp only [hb, if_false, hpar b hb, hg]
        cases hop : (Node.dir es).get (parentOf b) with
        | none => exact (hgf _).symm
        | some nb =>
          cases nb with
          | file d => exact (hgf _).symm
          | dir ebs =>
            simp only []
            cases hob : (Node.dir es).get b with
            | none =>
              simp only [hset b hb, hdel2 a ha]
              exact (graft_upd s sub _ _ _).symm
            | some nb' =>
              cases nb' with
              | dir _ => exact (hgf _).symm
              | file _ =>
                simp only [hset b hb, hdel2 a ha]
                exact (graft_upd s sub _ _ _).symm

theorem copy_graft (s : State) (sub a b : List Name) (es : Ents) (p q : Str) (ow : Bool)
    (h : s.root.get sub = some (.dir es)) (hsub : sub ≠ []) :
    step2 s (sub ++ a) (sub ++ b) (.copy p q ow) =
      graft s sub (step2 (viewOf s (.dir es)) a b (.copy p q ow)) := by
  graft_facts
  obtain ⟨ps, hps⟩ := get_parent_dir hsub h
  simp only [step2, List.append_cancel_left_eq, hg, hne, viewOf, if_false]
  by_cases hex : (!ow && ((Node.dir es).get b).isSome) = true
  · simp only [hex, if_true]; exact (hgf _).symm
  simp only [hex, Bool.false_eq_true, if_false]
  by_cases hab : a = b
  · simp only [hab, if_true]; exact (hgf _).symm
  simp only [hab, if_false]
  cases hoa : (Node.dir es).get a with
  | none => exact (hgf _).symm
  | some na =>
    cases na with
    | dir eas => exact (hgf _).symm
    | file data =>
      simp only []
      by_cases hb : b = []
      · subst hb
        simp only [List.append_nil, if_true]
        have : s.root.get (parentOf sub) = some (.dir ps) := hps
        simp only [this, h]
        exact (hgf _).symm
      · simp only [hb, if_false, hpar b hb, hg]
        cases hop : (Node.dir es).get (parentOf b) with
        | none => exact (hgf _).symm
        | some nb =>
          cases nb with
          | file d => exact (hgf _).symm
          | dir ebs =>
            simp only []
            cases hob : (Node.dir es).get b with
            | none =>
              simp only [hset b hb]
              exact (graft_upd s sub _ _ _).symm
            | some nb' =>
              cases nb' with
              | dir _ => exact (hgf _).symm
              | file _ =>
                simp only [hset b hb]
                exact (graft_upd s sub _ _ _).symm

/-- **two-path operations below a prefix** (no exception: also when source or destination is
the root of the sub-tree) -/
theorem step2_graft (s : State) (sub a b : List Name) (es : Ents) (op : Op)
    (h : s.root.get sub = some (.dir es)) :
    step2 s (sub ++ a) (sub ++ b) op = graft s sub (step2 (viewOf s (.dir es)) a b op) := by
  by_cases hsub : sub = []
  · subst hsub
    obtain ⟨root, cl⟩ := s
    simp only [Node.get, Option.some.injEq] at h
    subst h
    simp only [List.nil_append, viewOf]
    rcases QueryLemmas.step2_shape ⟨.dir es, cl⟩ a b op with ⟨o, ho⟩ | ⟨t, v, ho⟩ <;>
      rw [ho] <;> simp [graft, setAt, upd]
  cases op with
  | move p q o => exact move_graft s sub a b es p q o h hsub
  | copy p q o => exact copy_graft s sub a b es p q o h hsub
  | movedir p q o => exact movedir_graft s sub a b es p q o h hsub
  | copydir p q o => exact copydir_graft s sub a b es p q o h hsub
  | _ => simp only [step2]; exact (graft_done h _).symm


/-! ### the same call with other path strings -/

/-- replace every path argument `p` of a call by `f p` (what a wrapper does before delegating) -/
def mapPaths (f : Str → Str) : Op → Op
  | .exists_ p => .exists_ (f p) | .isdir p => .isdir (f p) | .isfile p => .isfile (f p)
  | .listdir p => .listdir (f p) | .getsize p => .getsize (f p) | .gettype p => .gettype (f p)
  | .isempty p => .isempty (f p) | .getinfo p => .getinfo (f p) | .readbytes p => .readbytes (f p)
  | .makedir p r => .makedir (f p) r | .makedirs p r => .makedirs (f p) r
  | .writebytes p d => .writebytes (f p) d | .appendbytes p d => .appendbytes (f p) d
  | .create p w => .create (f p) w | .touch p => .touch (f p) | .settimes p => .settimes (f p)
  | .openbin p m => .openbin (f p) m
  | .remove p => .remove (f p) | .removedir p => .removedir (f p) | .removetree p => .removetree (f p)
  | .move a b o => .move (f a) (f b) o | .copy a b o => .copy (f a) (f b) o
  | .movedir a b c => .movedir (f a) (f b) c | .copydir a b c => .copydir (f a) (f b) c
  | .close => .close

theorem paths_mapPaths (f : Str → Str) (op : Op) : (mapPaths f op).paths = op.paths.map f := by
  cases op <;> rfl

theorem step1_mapPaths (f : Str → Str) (s : State) (cs : List Name) (op : Op) :
    step1 s cs (mapPaths f op) = step1 s cs op := by cases op <;> rfl

theorem step2_mapPaths (f : Str → Str) (s : State) (a b : List Name) (op : Op) :
    step2 s a b (mapPaths f op) = step2 s a b op := by cases op <;> rfl

theorem rootSpecial_mapPaths (f : Str → Str) (op : Op) : rootSpecial (mapPaths f op) = rootSpecial op := by
  cases op <;> rfl

theorem mapPaths_ne_close (f : Str → Str) (op : Op) (h : op ≠ .close) : mapPaths f op ≠ .close := by
  cases op <;> simp_all [mapPaths]

theorem mapPaths_id (op : Op) : mapPaths id op = op := by cases op <;> rfl

/-- how the validated components of the delegated path relate to those of the path it stands for -/
def liftRes (sub : List Name) : Res (List Name) → Res (List Name)
  | .ok cs => .ok (sub ++ cs)
  | .err e => .err e

/-- **`Ref.step` below a prefix.**  If every path argument `f p` handed to the parent validates to
`sub ++` (the components of `g p`) — or fails like `g p` — then the parent's step is the sub-tree's
step grafted back; for the three root-special operations the path must not be the root. -/
theorem ref_step_graft (s : State) (sub : List Name) (es : Ents) (op : Op) (f g : Str → Str)
    (h : s.root.get sub = some (.dir es)) (hop : op ≠ .close)
    (hv : ∀ p ∈ op.paths, validate (f p) = liftRes sub (validate (g p)))
    (hsp : rootSpecial op = false ∨ ∀ p ∈ op.paths, validate (g p) ≠ .ok []) :
    Ref.step s (mapPaths f op) = graft s sub (Ref.step (viewOf s (.dir es)) (mapPaths g op)) := by
  cases hc : s.closed with
  | true =>
    rw [QueryLemmas.step_closed s _ (mapPaths_ne_close f op hop) hc,
      QueryLemmas.step_closed (viewOf s (.dir es)) _ (mapPaths_ne_close g op hop) (by simpa [viewOf] using hc)]
    exact (graft_fail h _).symm
  | false =>
    have hc' : (viewOf s (.dir es)).closed = false := by simpa [viewOf] using hc
    rcases QueryLemmas.op_cases op with rfl | ⟨p, m, rfl⟩ | ⟨p, hp, hno⟩ | ⟨a, b, hp⟩
    · exact absurd rfl hop
    · simp only [mapPaths]
      rw [QueryLemmas.step_openbin s _ m hc, QueryLemmas.step_openbin _ _ m hc']
      by_cases hm : (parseBinMode m).isNone = true
      · simp only [hm, if_true]; exact (graft_fail h _).symm
      · simp only [hm, Bool.false_eq_true, if_false]
        rw [hv p (by simp [Op.paths])]
        cases hg : validate (g p) with
        | err e => simp only [liftRes]; exact (graft_fail h _).symm
        | ok cs =>
          simp only [liftRes]
          exact step1_graft s sub cs es _ h (Or.inr rfl)
    · have hp1 : (mapPaths f op).paths = [f p] := by rw [paths_mapPaths, hp]; rfl
      have hp2 : (mapPaths g op).paths = [g p] := by rw [paths_mapPaths, hp]; rfl
      have hno1 : ∀ q m, mapPaths f op ≠ .openbin q m := by
        intro q m; cases op <;> simp_all [mapPaths]
      have hno2 : ∀ q m, mapPaths g op ≠ .openbin q m := by
        intro q m; cases op <;> simp_all [mapPaths]
      rw [QueryLemmas.step_one s _ _ hc hp1 hno1, QueryLemmas.step_one _ _ _ hc' hp2 hno2]
      rw [hv p (by simp [hp])]
      cases hg : validate (g p) with
      | err e => simp only [liftRes]; exact (graft_fail h _).symm
      | ok cs =>
        simp only [liftRes, step1_mapPaths]
        refine step1_graft s sub cs es op h ?_
        rcases hsp with hsp | hsp
        · exact Or.inr hsp
        · left; intro e; subst e; exact hsp p (by simp [hp]) hg
    · have hp1 : (mapPaths f op).paths = [f a, f b] := by rw [paths_mapPaths, hp]; rfl
      have hp2 : (mapPaths g op).paths = [g a, g b] := by rw [paths_mapPaths, hp]; rfl
      rw [QueryLemmas.step_two s _ _ _ hc hp1, QueryLemmas.step_two _ _ _ _ hc' hp2]
      rw [hv a (by simp [hp]), hv b (by simp [hp])]
      cases hga : validate (g a) with
      | err e => simp only [liftRes]; exact (graft_fail h _).symm
      | ok ca =>
        cases hgb : validate (g b) with
        | err e => simp only [liftRes]; exact (graft_fail h _).symm
        | ok cb =>
          simp only [liftRes, step2_mapPaths]
          exact step2_graft s sub ca cb es op h


/-! ### paths: what `SubFS.delegate_path` returns, in terms of `Ref.validate` -/

section Paths
open Fs.Path Fs.PathSpec Fs.PathLemmas Fs.ConfineLemmas

/-- the absolute path string `"/" ++ "/".join(cs)` (`C03.absOf`) -/
def absOf (cs : List Name) : Str := mkp true cs

theorem clean_of_cleanName {cs : List Name} (h : ∀ c ∈ cs, cleanName c = true) : Clean cs := by
  intro c hc
  have := h c hc
  simp only [cleanName, Bool.and_eq_true, bne_iff_ne, ne_eq, Bool.not_eq_true'] at this
  obtain ⟨⟨⟨⟨h1, h2⟩, h3⟩, h4⟩, _⟩ := this
  refine ⟨h1, h2, h3, ?_⟩
  intro hm
  have : c.contains '/' = true := by simpa using hm
  rw [this] at h4; cases h4

theorem noNul_of_cleanName {cs : List Name} (h : ∀ c ∈ cs, cleanName c = true) :
    ∀ c ∈ cs, '\x00' ∉ c := by
  intro c hc hm
  have := h c hc
  simp only [cleanName, Bool.and_eq_true, Bool.not_eq_true'] at this
  have h5 := this.2
  have : c.contains '\x00' = true := by simpa using hm
  rw [this] at h5; cases h5

theorem mem_joinWith (x : Char) (cs : List Str) (h : x ∈ joinWith '/' cs) : x = '/' ∨ ∃ c ∈ cs, x ∈ c := by
  induction cs with
  | nil => simp [joinWith] at h
  | cons a rest ih =>
    cases rest with
    | nil => simp only [joinWith] at h; exact Or.inr ⟨a, by simp, h⟩
    | cons b rest' =>
      simp only [joinWith, List.mem_append, List.mem_cons] at h
      rcases h with h | h | h
      · exact Or.inr ⟨a, by simp, h⟩
      · exact Or.inl h
      · rcases ih h with h' | ⟨c, hc, hx⟩
        · exact Or.inl h'
        · exact Or.inr ⟨c, List.mem_cons_of_mem _ hc, hx⟩

theorem nul_not_mem_absOf {cs : List Name} (h : ∀ c ∈ cs, '\x00' ∉ c) : '\x00' ∉ absOf cs := by
  intro hm
  simp only [absOf, mkp, if_true, List.mem_append, List.mem_singleton] at hm
  rcases hm with hm | hm
  · cases hm
  · rcases mem_joinWith _ _ hm with h' | ⟨c, hc, hx⟩
    · cases h'
    · exact h c hc hx

/-- a clean absolute path validates to its components -/
theorem validate_absOf {cs : List Name} (h : ∀ c ∈ cs, cleanName c = true) : validate (absOf cs) = .ok cs := by
  unfold validate
  have hn := nul_not_mem_absOf (noNul_of_cleanName h)
  have : (absOf cs).contains '\x00' = false := by simpa using hn
  rw [this]
  simp only [Bool.false_eq_true, if_false]
  exact iteratepath_mkp true (clean_of_cleanName h)

theorem validate_ok_resolve {p : Str} {cs : List Name} (h : validate p = .ok cs) :
    resolve (splitSlash p) = some cs := by
  unfold validate at h
  split at h
  · cases h
  · exact iteratepath_resolve p cs h

/-- a NUL-free path either validates or climbs -/
theorem validate_err_noNul {p : Str} {e : Err} (hn : '\x00' ∉ p) (h : validate p = .err e) :
    e = .IllegalBackReference ∧ resolve (splitSlash p) = none := by
  unfold validate at h
  have : p.contains '\x00' = false := by simpa using hn
  rw [this] at h
  simp only [Bool.false_eq_true, if_false] at h
  exact iteratepath_err p e h

/-- `SubFS.delegate_path` refuses a NUL before anything else (the repaired first line) -/
theorem delegate_of_nul {sub : List Name} {p : Str} (hn : '\x00' ∈ p) :
    Wrap.Sub.delegate (absOf sub) p = .err .InvalidCharsInPath := by
  simp [Wrap.Sub.delegate, Wrap.Sub.delegateWith, hn]

theorem delegate_noNul {sub : List Name} {p : Str} (hn : '\x00' ∉ p) :
    Wrap.Sub.delegate (absOf sub) p = Confine.subDelegate (absOf sub) p := by
  simp [Wrap.Sub.delegate, Wrap.Sub.delegateWith, hn]

/-- `SubFS.delegate_path` on a NUL-free path that resolves: the sub-directory followed by the
components (`C03.sub_delegate_eq`) -/
theorem delegate_of_resolve {sub cs : List Name} {p : Str} (hs : Clean sub) (hn : '\x00' ∉ p)
    (hr : resolve (splitSlash p) = some cs) :
    Wrap.Sub.delegate (absOf sub) p = .ok (absOf (sub ++ cs)) := by
  have hc : Clean cs := resolve_result_clean p cs hr
  rw [delegate_noNul hn]
  simp only [Confine.subDelegate, absOf]
  rw [normpath_of_resolve p cs hr, bind_ok]
  simp only [relpath, lstripSlash_mkp hc]
  exact join_sub_rel hs hc

/-- … and on a NUL-free path that climbs: refused, before anything is handed to the parent
(`C03.sub_delegate_err_iff`) -/
theorem delegate_of_climb {sub : List Name} {p : Str} (hn : '\x00' ∉ p) (hr : resolve (splitSlash p) = none) :
    Wrap.Sub.delegate (absOf sub) p = .err .IllegalBackReference := by
  rw [delegate_noNul hn]
  simp only [Confine.subDelegate]
  rw [normpath_err_of_resolve p hr, bind_err]

/-- **`delegate_path` is `validatepath` followed by the prefix**: it fails exactly when the
reference's `validate` fails, with the same class, and otherwise hands the parent the
sub-directory followed by the validated components -/
theorem delegate_eq_validate {sub : List Name} (hs : Clean sub) (p : Str) :
    Wrap.Sub.delegate (absOf sub) p =
      (match validate p with
       | .ok cs => .ok (absOf (sub ++ cs))
       | .err e => .err e) := by
  by_cases hn : '\x00' ∈ p
  · rw [delegate_of_nul hn]; simp [validate, hn]
  · cases hr : resolve (splitSlash p) with
    | some cs =>
      rw [delegate_of_resolve hs hn hr]
      simp [validate, hn, QueryLemmas.iteratepath_of_resolve p cs hr]
    | none =>
      rw [delegate_of_climb hn hr]
      have : iteratepath p = .err .IllegalBackReference := by
        unfold iteratepath
        rw [normpath_err_of_resolve p hr, bind_err]
      simp [validate, hn, this]

theorem not_nul_of_validate_ok {p : Str} {cs : List Name} (h : validate p = .ok cs) : '\x00' ∉ p := by
  unfold validate at h
  split at h
  · cases h
  · next h0 => simpa using h0

theorem isRootPath_of_resolve {p : Str} {cs : List Name} (hr : resolve (splitSlash p) = some cs) :
    Wrap.isRootPath p = .ok (decide (cs = [])) := by
  have hc : Clean cs := resolve_result_clean p cs hr
  simp only [Wrap.isRootPath]
  rw [normpath_of_resolve p cs hr]
  simp only [abspath_mkp hc]
  congr 1
  by_cases h : cs = []
  · subst h; simp [mkp, joinWith]
  · have : mkp true cs ≠ ['/'] := fun e => h ((mkp_eq_slash_iff hc).1 e).2
    simp [h, this]

theorem isRootPath_of_climb {p : Str} (hr : resolve (splitSlash p) = none) :
    Wrap.isRootPath p = .err .IllegalBackReference := by
  simp only [Wrap.isRootPath]
  rw [normpath_err_of_resolve p hr]

/-- `join(_delegate_path, info.name)` in the root branch of `WrapFS.removetree` -/
theorem join_child {pth : List Name} {n : Name} (hp : Clean pth) (hn : cleanName n = true) :
    join [absOf pth, n] = .ok (absOf (pth ++ [n])) := by
  have hc : Clean [n] := clean_of_cleanName (cs := [n]) (by simpa using hn)
  have := join_sub_rel hp hc
  simpa [joinWith, absOf] using this

end Paths


/-! ### `adm` below a prefix -/

theorem kindAt_sub {t u : Node} {sub : List Name} (h : t.get sub = some u) (r : List Name) :
    kindAt t (sub ++ r) = kindAt u r := by
  simp only [kindAt, get_sub h]

theorem adm1_mapPaths (f : Str → Str) (t : Node) (cs : List Name) (op : Op) :
    adm1 t cs (mapPaths f op) = adm1 t cs op := by cases op <;> rfl

theorem adm2_mapPaths (f : Str → Str) (t : Node) (a b : List Name) (op : Op) :
    adm2 t a b (mapPaths f op) = adm2 t a b op := by cases op <;> rfl

/-- every error class admissible for the parent at `sub ++ cs` is admissible for the sub-tree at `cs` -/
theorem adm1_sub_subset (t : Node) (sub cs : List Name) (es : Ents) (op : Op)
    (h : t.get sub = some (.dir es)) (hsp : cs ≠ [] ∨ rootSpecial op = false) :
    ∀ e ∈ adm1 t (sub ++ cs) op, e ∈ adm1 (.dir es) cs op := by
  by_cases hsub : sub = []
  · subst hsub
    simp only [Node.get, Option.some.injEq] at h
    subst h
    intro e he; simpa using he
  have hk : ∀ r, kindAt t (sub ++ r) = kindAt (.dir es) r := fun r => kindAt_sub h r
  have hbl : ∀ r, blockedByFile t [] (sub ++ r) = blockedByFile (.dir es) [] r :=
    fun r => blocked_sub [] sub (by simpa using h) r
  have hne : ∀ r, (sub ++ r = []) = False := fun r => by simp [hsub]
  have hg : ∀ r, t.get (sub ++ r) = (Node.dir es).get r := fun r => get_sub h r
  by_cases hcs : cs = []
  · subst hcs
    have hop : rootSpecial op = false := by rcases hsp with h' | h' <;> simp_all
    obtain ⟨ps, hps⟩ := get_parent_dir hsub h
    have hkp : kindAt t (parentOf sub) = some true := by simp [kindAt, parentOf, hps]
    have hk0 : kindAt t sub = some true := by simp [kindAt, h]
    have hk0' : kindAt (.dir es) [] = some true := by simp [kindAt, Node.get]
    have hb0 : blockedByFile t [] sub = false := by
      have := hbl []; simpa [blockedByFile] using this
    intro e
    cases op <;> simp only [rootSpecial, reduceCtorEq] at hop
    all_goals simp [adm1, admDirArg, admFileArg, admFileTarget, List.append_nil, hsub, hkp, hk0, hk0', hb0,
      blockedByFile, h, Node.get]
    all_goals try (intro h1; simp_all)
    all_goals try (split <;> simp_all)
    all_goals try grind
  · have hp := parentOf_append sub cs hcs
    intro e he
    have : adm1 t (sub ++ cs) op = adm1 (.dir es) cs op := by
      cases op <;> simp [adm1, admDirArg, admFileArg, admFileTarget, hk, hbl, hp, hg, hcs, hsub]
    rw [← this]; exact he


theorem adm2_sub_subset (t : Node) (sub a b : List Name) (es : Ents) (op : Op)
    (h : t.get sub = some (.dir es)) :
    ∀ e ∈ adm2 t (sub ++ a) (sub ++ b) op, e ∈ adm2 (.dir es) a b op := by
  by_cases hsub : sub = []
  · subst hsub
    simp only [Node.get, Option.some.injEq] at h
    subst h
    intro e he; simpa using he
  have hk : ∀ r, kindAt t (sub ++ r) = kindAt (.dir es) r := fun r => kindAt_sub h r
  have hbl : ∀ r, blockedByFile t [] (sub ++ r) = blockedByFile (.dir es) [] r :=
    fun r => blocked_sub [] sub (by simpa using h) r
  obtain ⟨ps, hps⟩ := get_parent_dir hsub h
  have hkpar : ∀ r, kindAt t (parentOf (sub ++ r)) = kindAt (.dir es) (parentOf r) := by
    intro r
    by_cases hr : r = []
    · subst hr; simp [kindAt, parentOf, hps, Node.get]
    · rw [parentOf_append sub r hr, hk]
  have hfa : ∀ r e, e ∈ admFileArg t (sub ++ r) → e ∈ admFileArg (.dir es) r := by
    intro r e
    simp only [admFileArg, hk, hbl, hsub, List.append_eq_nil_iff, false_and, or_false, List.mem_append]
    intro he
    rcases he with (he | he) | he
    · left; left; split at he
      · rename_i h1; simp [h1]; simpa using he
      · simp at he
    · left; right; exact he
    · right; exact he
  have hft : ∀ r e, e ∈ admFileTarget t (sub ++ r) → e ∈ admFileTarget (.dir es) r := by
    intro r e
    simp only [admFileTarget, hk, hbl, hkpar, hsub, List.append_eq_nil_iff, false_and, false_or, List.mem_append,
      ne_eq, not_false_eq_true, true_and]
    intro he
    rcases he with (he | he) | he
    · left; left; split at he
      · rename_i h1; simp [h1]; simpa using he
      · simp at he
    · left; right
      split at he
      · rename_i h1
        by_cases hr : r = []
        · subst hr; simp [kindAt, parentOf, Node.get] at h1
        · simp [hr, h1]; simpa using he
      · simp at he
    · right; exact he
  intro e
  cases op <;> simp only [adm2, admDirArg, hk, hbl, hkpar, isPrefix_append, List.append_cancel_left_eq,
    List.mem_append, List.not_mem_nil, imp_self, ne_eq]
  · -- move
    intro he
    rcases he with (he | he) | he
    · exact Or.inl (Or.inl (hfa _ _ he))
    · exact Or.inl (Or.inr he)
    · right; split at he
      · rename_i h1; simp only [h1, not_false_eq_true, if_true]; exact hft _ _ he
      · simp at he
  · -- copy
    intro he
    rcases he with (he | he) | he
    · exact Or.inl (Or.inl (hfa _ _ he))
    · exact Or.inl (Or.inr he)
    · right; split at he
      · rename_i h1; simp only [h1, if_true]; exact he
      · rename_i h1; simp only [h1, if_false]; exact hft _ _ he


/-- `adm` below a prefix, for a call whose (valid) path arguments `p` were replaced by paths `f p`
that validate to `sub ++` the components of `p` -/
theorem adm_sub_subset (t : Node) (sub : List Name) (es : Ents) (op : Op) (f : Str → Str)
    (h : t.get sub = some (.dir es)) (hop : op ≠ .close)
    (hv : ∀ p ∈ op.paths, ∃ cs, validate p = .ok cs ∧ validate (f p) = .ok (sub ++ cs))
    (hsp : rootSpecial op = false ∨ ∀ p ∈ op.paths, validate p ≠ .ok []) :
    ∀ e ∈ adm ⟨t, false⟩ (mapPaths f op), e ∈ adm ⟨.dir es, false⟩ op := by
  intro e he
  rcases QueryLemmas.op_cases op with rfl | ⟨p, m, rfl⟩ | ⟨p, hp, hno⟩ | ⟨a, b, hp⟩
  · exact absurd rfl hop
  · obtain ⟨cs, h1, h2⟩ := hv p (by simp [Op.paths])
    simp only [mapPaths] at he
    rw [QueryLemmas.adm_openbin _ _ _ rfl, h2] at he
    rw [QueryLemmas.adm_openbin _ _ _ rfl, h1]
    exact adm1_sub_subset t sub cs es (.openbin p m) h (Or.inr rfl) e he
  · obtain ⟨cs, h1, h2⟩ := hv p (by simp [hp])
    have hp1 : (mapPaths f op).paths = [f p] := by rw [paths_mapPaths, hp]; rfl
    have hno1 : ∀ q m, mapPaths f op ≠ .openbin q m := by
      intro q m; cases op <;> simp_all [mapPaths]
    rw [QueryLemmas.adm_one _ _ _ rfl hp1 hno1, h2] at he
    rw [QueryLemmas.adm_one _ _ _ rfl hp hno, h1]
    simp only [adm1_mapPaths] at he
    refine adm1_sub_subset t sub cs es op h ?_ e he
    rcases hsp with hsp | hsp
    · exact Or.inr hsp
    · left; intro e'; subst e'; exact hsp p (by simp [hp]) h1
  · obtain ⟨ca, ha1, ha2⟩ := hv a (by simp [hp])
    obtain ⟨cb, hb1, hb2⟩ := hv b (by simp [hp])
    have hp1 : (mapPaths f op).paths = [f a, f b] := by rw [paths_mapPaths, hp]; rfl
    rw [QueryLemmas.adm_two _ _ _ _ rfl hp1, ha2, hb2] at he
    rw [QueryLemmas.adm_two _ _ _ _ rfl hp, ha1, hb1]
    simp only [adm2_mapPaths] at he
    exact adm2_sub_subset t sub ca cb es op h e he


/-! ### paths that diverge from the replaced one -/

theorem get_set_diverge (cs q : List Name) (t v : Node) (h1 : ¬ cs <+: q) (h2 : ¬ q <+: cs) :
    (t.set cs v).get q = t.get q := by
  fun_induction Node.set cs t v generalizing q with
  | case1 n v => exact absurd List.nil_prefix h1
  | case2 c es v =>
    cases q with
    | nil => exact absurd List.nil_prefix h2
    | cons c' qs =>
      have hne : c' ≠ c := by
        intro e; subst e
        exact h1 (List.cons_prefix_cons.2 ⟨rfl, List.nil_prefix⟩)
      simp only [Node.get]
      rw [lookup_put_other _ _ _ _ hne]
  | case3 c d cs es v ch hl ih =>
    cases q with
    | nil => exact absurd List.nil_prefix h2
    | cons c' qs =>
      by_cases hne : c' = c
      · subst hne
        simp only [Node.get, lookup_put_same, hl]
        exact ih qs (fun hh => h1 (List.cons_prefix_cons.2 ⟨rfl, hh⟩))
          (fun hh => h2 (List.cons_prefix_cons.2 ⟨rfl, hh⟩))
      · simp only [Node.get]
        rw [lookup_put_other _ _ _ _ hne]
  | case4 c d cs es v hl => rfl
  | case5 c cs b v => rfl

/-- FRAME for `setAt`: a path that is neither at/below `sub` nor an ancestor of it sees nothing -/
theorem get_setAt_diverge (sub q : List Name) (t v : Node) (h1 : ¬ sub <+: q) (h2 : ¬ q <+: sub) :
    (setAt t sub v).get q = t.get q := by
  unfold setAt
  split
  · next hs => subst hs; exact absurd List.nil_prefix h1
  · exact get_set_diverge sub q t v h1 h2


/-! ### the names along an existing path of a well-formed tree are legal -/

theorem lookup_clean (c : Name) (n : Node) (es : Ents) (h : entsWf es = true) (hl : Ents.lookup c es = some n) :
    cleanName c = true := by
  induction es with
  | nil => simp [Ents.lookup] at hl
  | cons e es ih =>
    obtain ⟨k, v⟩ := e
    simp only [entsWf, Bool.and_eq_true] at h
    by_cases hk : k = c
    · subst hk; exact h.1.1.1
    · simp only [Ents.lookup, hk, if_false] at hl
      exact ih h.2 hl

theorem names_clean_of_get (p : List Name) (t n : Node) (h : t.wf = true) (hg : t.get p = some n) :
    ∀ c ∈ p, cleanName c = true := by
  induction p generalizing t with
  | nil => intro c hc; cases hc
  | cons c p ih =>
    cases t with
    | file b => simp [Node.get] at hg
    | dir es =>
      simp only [Node.get] at hg
      cases hl : Ents.lookup c es with
      | none => simp [hl] at hg
      | some ch =>
        simp only [hl] at hg
        have hw : entsWf es = true := by simpa [Node.wf] using h
        intro x hx
        simp only [List.mem_cons] at hx
        rcases hx with rfl | hx
        · exact lookup_clean _ _ _ hw hl
        · exact ih ch (lookup_wf _ _ _ hw hl) hg x hx

end Fs.WrapLemmas
