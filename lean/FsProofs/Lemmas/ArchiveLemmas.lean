/-
  Helper lemmas for C15 (archives): tree get/set at "kind" level, the breadth-first walk as
  a permutation of the recursive enumeration, the directory fold of ReadZipFS, the ordered
  dictionary of ReadTarFS.
-/
import FsModel.Archive
import FsProofs.Lemmas.PathLemmas

namespace Fs.ArchiveLemmas
open Fs Fs.Path Fs.PathSpec Fs.PathLemmas Fs.Archive

/-! ### names -/

theorem cleanName_clean {c : Name} (h : cleanName c = true) : CleanComp c := by
  simp only [cleanName, Bool.and_eq_true, bne_iff_ne, ne_eq, Bool.not_eq_true',
    List.contains_eq_mem, decide_eq_false_iff_not] at h
  obtain ⟨⟨⟨⟨h1, h2⟩, h3⟩, h4⟩, _⟩ := h
  exact ⟨h1, h2, h3, h4⟩

theorem cleanName_noNul {c : Name} (h : cleanName c = true) : '\x00' ∉ c := by
  simp only [cleanName, Bool.and_eq_true, bne_iff_ne, ne_eq, Bool.not_eq_true',
    List.contains_eq_mem, decide_eq_false_iff_not] at h
  exact h.2

theorem cleanName_of {c : Name} (h : CleanComp c) (hn : '\x00' ∉ c) : cleanName c = true := by
  obtain ⟨h1, h2, h3, h4⟩ := h
  simp only [cleanName, Bool.and_eq_true, bne_iff_ne, ne_eq, Bool.not_eq_true',
    List.contains_eq_mem, decide_eq_false_iff_not]
  exact ⟨⟨⟨⟨h1, h2⟩, h3⟩, h4⟩, hn⟩

/-- every component is a legal resource name -/
def AllClean (cs : List Name) : Prop := ∀ c ∈ cs, cleanName c = true

theorem AllClean.clean {cs : List Name} (h : AllClean cs) : Clean cs :=
  fun c hc => cleanName_clean (h c hc)

theorem allClean_nil : AllClean [] := by intro c hc; cases hc

theorem allClean_append {as bs : List Name} : AllClean (as ++ bs) ↔ AllClean as ∧ AllClean bs := by
  simp only [AllClean, List.mem_append]
  constructor
  · intro h; exact ⟨fun c hc => h c (Or.inl hc), fun c hc => h c (Or.inr hc)⟩
  · rintro ⟨h1, h2⟩ c (hc | hc)
    · exact h1 c hc
    · exact h2 c hc

/-! ### entries -/

theorem lookup_put (c c' : Name) (x : Node) (es : Ents) :
    Ents.lookup c' (Ents.put c x es) = if c' = c then some x else Ents.lookup c' es := by
  induction es with
  | nil =>
    simp only [Ents.put, Ents.lookup]
    by_cases h : c' = c
    · simp [h]
    · have : ¬ c = c' := fun e => h e.symm
      simp [h, this]
  | cons e es ih =>
    obtain ⟨k, v⟩ := e
    simp only [Ents.put]
    by_cases hk : k = c
    · subst hk
      simp only [if_true, Ents.lookup]
      by_cases h : c' = k
      · subst h; simp
      · have : ¬ k = c' := fun e => h e.symm
        simp [h, this]
    · simp only [hk, if_false, Ents.lookup]
      by_cases h2 : k = c'
      · subst h2
        simp [hk]
      · simp only [h2, if_false]
        exact ih

theorem lookup_mem {c : Name} {es : Ents} {n : Node} (h : Ents.lookup c es = some n) : (c, n) ∈ es := by
  induction es with
  | nil => simp [Ents.lookup] at h
  | cons e es ih =>
    obtain ⟨k, v⟩ := e
    simp only [Ents.lookup] at h
    by_cases hk : k = c
    · subst hk; simp at h; subst h; exact List.mem_cons_self
    · simp only [hk, if_false] at h
      exact List.mem_cons_of_mem _ (ih h)

theorem entsWf_cons {k : Name} {v : Node} {es : Ents} :
    entsWf ((k, v) :: es) = true ↔
      cleanName k = true ∧ Ents.lookup k es = none ∧ v.wf = true ∧ entsWf es = true := by
  simp only [entsWf, Bool.and_eq_true, Option.isNone_iff_eq_none]
  constructor
  · rintro ⟨⟨⟨a, b⟩, c⟩, d⟩; exact ⟨a, b, c, d⟩
  · rintro ⟨a, b, c, d⟩; exact ⟨⟨⟨a, b⟩, c⟩, d⟩

theorem entsWf_mem {es : Ents} (h : entsWf es = true) {k : Name} {v : Node} (hm : (k, v) ∈ es) :
    cleanName k = true ∧ v.wf = true := by
  induction es with
  | nil => cases hm
  | cons e es ih =>
    obtain ⟨k', v'⟩ := e
    obtain ⟨h1, _, h3, h4⟩ := entsWf_cons.1 h
    rcases List.mem_cons.1 hm with heq | hm'
    · cases heq; exact ⟨h1, h3⟩
    · exact ih h4 hm'

theorem entsWf_put {c : Name} {x : Node} {es : Ents} (hc : cleanName c = true) (hx : x.wf = true)
    (h : entsWf es = true) : entsWf (Ents.put c x es) = true := by
  induction es with
  | nil =>
    simp only [Ents.put]
    exact entsWf_cons.2 ⟨hc, rfl, hx, rfl⟩
  | cons e es ih =>
    obtain ⟨k, v⟩ := e
    obtain ⟨h1, h2, h3, h4⟩ := entsWf_cons.1 h
    simp only [Ents.put]
    by_cases hk : k = c
    · simp only [hk, if_true]
      subst hk
      exact entsWf_cons.2 ⟨h1, h2, hx, h4⟩
    · simp only [hk, if_false]
      refine entsWf_cons.2 ⟨h1, ?_, h3, ih h4⟩
      rw [lookup_put]
      simp [hk, h2]

theorem wf_dir {es : Ents} : (Node.dir es).wf = true ↔ entsWf es = true := by
  simp [Node.wf]

/-! ### get / set -/

/-- the resource type at a component path: `some true` = directory, `some false` = file -/
def kindAt (t : Node) (cs : List Name) : Option Bool := (t.get cs).map Node.isDir

theorem get_nil (t : Node) : t.get [] = some t := by
  cases t <;> rfl

theorem get_cons_dir (c : Name) (cs : List Name) (es : Ents) :
    (Node.dir es).get (c :: cs) = (Ents.lookup c es).bind (fun ch => ch.get cs) := by
  simp only [Node.get]
  cases Ents.lookup c es <;> rfl

theorem get_cons_file (c : Name) (cs : List Name) (b : Bytes) : (Node.file b).get (c :: cs) = none := rfl

theorem get_append (t : Node) (a b : List Name) :
    t.get (a ++ b) = (t.get a).bind (fun n => n.get b) := by
  induction a generalizing t with
  | nil => simp [get_nil]
  | cons c a ih =>
    cases t with
    | file d => simp [get_cons_file]
    | dir es =>
      simp only [List.cons_append, get_cons_dir]
      cases Ents.lookup c es with
      | none => rfl
      | some ch => simp [ih]

/-- whatever exists below a path exists below each of its prefixes, which are directories -/
theorem get_prefix_dir {t : Node} {a b : List Name} {n : Node} (h : t.get (a ++ b) = some n) (hb : b ≠ []) :
    ∃ es, t.get a = some (.dir es) := by
  rw [get_append] at h
  cases ha : t.get a with
  | none => rw [ha] at h; cases h
  | some m =>
    rw [ha] at h
    cases m with
    | dir es => exact ⟨es, rfl⟩
    | file d =>
      cases b with
      | nil => exact absurd rfl hb
      | cons c b => simp [get_cons_file] at h

theorem wf_get {t : Node} (h : t.wf = true) {cs : List Name} {n : Node} (hg : t.get cs = some n) :
    AllClean cs ∧ n.wf = true := by
  induction cs generalizing t with
  | nil => rw [get_nil] at hg; cases hg; exact ⟨allClean_nil, h⟩
  | cons c cs ih =>
    cases t with
    | file d => simp [get_cons_file] at hg
    | dir es =>
      rw [get_cons_dir] at hg
      cases hl : Ents.lookup c es with
      | none => rw [hl] at hg; cases hg
      | some ch =>
        rw [hl] at hg
        obtain ⟨hc, hw⟩ := entsWf_mem (wf_dir.1 h) (lookup_mem hl)
        obtain ⟨h1, h2⟩ := ih hw hg
        refine ⟨?_, h2⟩
        intro x hx
        rcases List.mem_cons.1 hx with rfl | hx
        · exact hc
        · exact h1 x hx

/-- a node without children -/
def Leaf (v : Node) : Prop := ∀ c cs, v.get (c :: cs) = none

theorem leaf_file (b : Bytes) : Leaf (.file b) := fun _ _ => rfl
theorem leaf_emptyDir : Leaf (.dir []) := fun _ _ => rfl

theorem set_cons_cons_dir (c d : Name) (cs : List Name) (es : Ents) (v : Node) :
    (Node.dir es).set (c :: d :: cs) v =
      match Ents.lookup c es with
      | some ch => .dir (Ents.put c (ch.set (d :: cs) v) es)
      | none => .dir es := by
  cases h : Ents.lookup c es <;> simp [Node.set, h]

/-- putting a leaf at an absent path whose parent is a directory changes the kind there and nowhere else -/
theorem kindAt_set {T : Node} {cs : List Name} {v : Node} (hne : cs ≠ [])
    (hp : kindAt T cs.dropLast = some true) (habs : T.get cs = none) (hv : Leaf v) (r : List Name) :
    kindAt (T.set cs v) r = if r = cs then some v.isDir else kindAt T r := by
  induction cs generalizing T r with
  | nil => exact absurd rfl hne
  | cons c cs ih =>
    cases T with
    | file d =>
      cases cs <;> simp [kindAt, get_nil, Node.isDir, get_cons_file] at hp
    | dir es =>
      cases cs with
      | nil =>
        simp only [Node.set]
        cases r with
        | nil => simp [kindAt, get_nil, Node.isDir]
        | cons c' r' =>
          simp only [kindAt, get_cons_dir, lookup_put]
          by_cases hc : c' = c
          · subst hc
            simp only [if_true, Option.bind_some]
            have hl : Ents.lookup c' es = none := by
              rw [get_cons_dir] at habs
              cases hl : Ents.lookup c' es with
              | none => rfl
              | some ch => rw [hl] at habs; simp [get_nil] at habs
            cases r' with
            | nil => simp [get_nil]
            | cons x xs => simp [hv x xs, hl]
          · simp [hc]
      | cons d cs' =>
        have hpar : ∃ ch, Ents.lookup c es = some ch := by
          cases hl : Ents.lookup c es with
          | some ch => exact ⟨ch, rfl⟩
          | none =>
            simp only [kindAt, List.dropLast_cons_cons, get_cons_dir, hl] at hp
            simp at hp
        obtain ⟨ch, hl⟩ := hpar
        rw [set_cons_cons_dir, hl]
        simp only
        cases r with
        | nil => simp [kindAt, get_nil, Node.isDir]
        | cons c' r' =>
          simp only [kindAt, get_cons_dir, lookup_put]
          by_cases hc : c' = c
          · subst hc
            simp only [if_true, Option.bind_some, hl]
            have hp' : kindAt ch (d :: cs').dropLast = some true := by
              simpa [kindAt, List.dropLast_cons_cons, get_cons_dir, hl] using hp
            have habs' : ch.get (d :: cs') = none := by
              simpa [get_cons_dir, hl] using habs
            have := ih (T := ch) (by simp) hp' habs' r'
            simp only [kindAt] at this
            rw [this]
            simp
          · simp [hc]


/-! ### well-formedness is preserved by `set` and `mkdirs` -/

theorem wf_set {T : Node} {cs : List Name} {v : Node} (hT : T.wf = true) (hcs : AllClean cs)
    (hv : v.wf = true) : (T.set cs v).wf = true := by
  induction cs generalizing T with
  | nil => simpa [Node.set] using hT
  | cons c cs ih =>
    cases T with
    | file d => cases cs <;> simpa [Node.set] using hT
    | dir es =>
      have hes := wf_dir.1 hT
      have hc : cleanName c = true := hcs c List.mem_cons_self
      cases cs with
      | nil =>
        simp only [Node.set]
        exact wf_dir.2 (entsWf_put hc hv hes)
      | cons d cs' =>
        rw [set_cons_cons_dir]
        cases hl : Ents.lookup c es with
        | none => simpa using hT
        | some ch =>
          simp only
          have hch := (entsWf_mem hes (lookup_mem hl)).2
          have hcs' : AllClean (d :: cs') := fun x hx => hcs x (List.mem_cons_of_mem _ hx)
          exact wf_dir.2 (entsWf_put hc (ih hch hcs') hes)

theorem wf_mkdirs {T : Node} (pre cs : List Name) (hT : T.wf = true) (h : AllClean (pre ++ cs)) :
    (Ref.mkdirs pre cs T).wf = true := by
  induction cs generalizing pre T with
  | nil => simpa [Ref.mkdirs] using hT
  | cons c cs ih =>
    simp only [Ref.mkdirs]
    have h' : AllClean ((pre ++ [c]) ++ cs) := by simpa using h
    apply ih _ _ h'
    cases hg : T.get (pre ++ [c]) with
    | some n => simpa using hT
    | none =>
      simp only
      exact wf_set hT (allClean_append.1 h').1 (by simp [Node.wf, entsWf])

/-! ### `mkdirs` at kind level -/

theorem not_blocked {T : Node} (pre cs : List Name)
    (h : ∀ q, q <+: cs → q ≠ cs → kindAt T (pre ++ q) ≠ some false) :
    Ref.blockedByFile T pre cs = false := by
  induction cs generalizing pre with
  | nil => rfl
  | cons c cs ih =>
    simp only [Ref.blockedByFile, Bool.or_eq_false_iff]
    constructor
    · have h0 := h [] List.nil_prefix (by simp)
      simp only [List.append_nil, kindAt] at h0
      cases hg : T.get pre with
      | none => rfl
      | some n =>
        cases n with
        | dir es => rfl
        | file d => rw [hg] at h0; simp [Node.isDir] at h0
    · by_cases hcs : cs = []
      · simp [hcs]
      · simp only [hcs, if_false]
        apply ih
        intro q hq hne
        have := h (c :: q) (List.cons_prefix_cons.2 ⟨rfl, hq⟩) (by simpa using hne)
        simpa using this

/-- what `mkdirs` does when no prefix of the path is a file: every prefix becomes (or stays) a
directory, nothing else changes kind -/
theorem kindAt_mkdirs {T : Node} (pre cs : List Name) (hpre : kindAt T pre = some true)
    (hnb : ∀ q, q <+: cs → kindAt T (pre ++ q) ≠ some false) :
    (∀ q, q <+: cs → kindAt (Ref.mkdirs pre cs T) (pre ++ q) = some true) ∧
    (∀ r, kindAt (Ref.mkdirs pre cs T) r = kindAt T r ∨
      (kindAt T r = none ∧ kindAt (Ref.mkdirs pre cs T) r = some true ∧
        ∃ q, q ≠ [] ∧ q <+: cs ∧ r = pre ++ q)) := by
  induction cs generalizing pre T with
  | nil =>
    simp only [Ref.mkdirs]
    refine ⟨?_, fun r => by simp⟩
    intro q hq
    rw [List.prefix_nil] at hq
    subst hq
    simpa using hpre
  | cons c cs ih =>
    simp only [Ref.mkdirs]
    have hhere : kindAt T (pre ++ [c]) ≠ some false := hnb [c] (by simp)
    cases hg : T.get (pre ++ [c]) with
    | some n =>
      simp only
      have hk : kindAt T (pre ++ [c]) = some true := by
        simp only [kindAt, hg, Option.map_some] at hhere ⊢
        cases hd : n.isDir
        · simp [hd] at hhere
        · rfl
      have hnb' : ∀ q, q <+: cs → kindAt T ((pre ++ [c]) ++ q) ≠ some false := by
        intro q hq
        have := hnb (c :: q) (List.cons_prefix_cons.2 ⟨rfl, hq⟩)
        simpa using this
      obtain ⟨p1, p2⟩ := ih (pre ++ [c]) hk hnb'
      refine ⟨?_, ?_⟩
      · intro q hq
        rcases List.prefix_cons_iff.1 hq with rfl | ⟨q', rfl, hq'⟩
        · rcases p2 pre with h | ⟨h, _, _⟩
          · simpa [h] using hpre
          · rw [hpre] at h; cases h
        · have := p1 q' hq'
          simpa using this
      · intro r
        rcases p2 r with h | ⟨h1, h2, q, hq1, hq2, hq3⟩
        · exact Or.inl h
        · exact Or.inr ⟨h1, h2, c :: q, by simp, List.cons_prefix_cons.2 ⟨rfl, hq2⟩, by simp [hq3]⟩
    | none =>
      simp only
      have hset : ∀ r, kindAt (T.set (pre ++ [c]) (.dir [])) r =
          if r = pre ++ [c] then some true else kindAt T r := by
        intro r
        have := kindAt_set (T := T) (cs := pre ++ [c]) (v := .dir []) (by simp)
          (by simpa using hpre) hg leaf_emptyDir r
        simpa [Node.isDir] using this
      have hk : kindAt (T.set (pre ++ [c]) (.dir [])) (pre ++ [c]) = some true := by
        rw [hset]; simp
      have hnb' : ∀ q, q <+: cs → kindAt (T.set (pre ++ [c]) (.dir [])) ((pre ++ [c]) ++ q) ≠ some false := by
        intro q hq
        rw [hset]
        by_cases hq0 : pre ++ [c] ++ q = pre ++ [c]
        · simp [hq0]
        · simp only [hq0, if_false]
          have := hnb (c :: q) (List.cons_prefix_cons.2 ⟨rfl, hq⟩)
          simpa using this
      obtain ⟨p1, p2⟩ := ih (pre ++ [c]) hk hnb'
      have hpre_ne : pre ≠ pre ++ [c] := by
        intro h
        have := congrArg List.length h
        simp at this
      refine ⟨?_, ?_⟩
      · intro q hq
        rcases List.prefix_cons_iff.1 hq with rfl | ⟨q', rfl, hq'⟩
        · rcases p2 pre with h | ⟨_, h, _⟩
          · rw [List.append_nil, h, hset]; simp [hpre_ne, hpre]
          · simpa using h
        · have := p1 q' hq'
          simpa using this
      · intro r
        rcases p2 r with h | ⟨h1, h2, q, hq1, hq2, hq3⟩
        · rw [hset] at h
          by_cases hr : r = pre ++ [c]
          · right
            subst hr
            refine ⟨by simp [kindAt, hg], by simpa using h, [c], by simp, by simp, rfl⟩
          · left; simpa [hr] using h
        · right
          have hr : r ≠ pre ++ [c] := by
            intro h
            rw [hq3] at h
            have := congrArg List.length h
            simp at this
            exact hq1 this
          rw [hset] at h1
          simp only [hr, if_false] at h1
          exact ⟨h1, h2, c :: q, by simp, List.cons_prefix_cons.2 ⟨rfl, hq2⟩, by simp [hq3]⟩


/-! ### `validate` on joined clean components -/

theorem mem_chars_of_mem_splitOn (sep : Char) (s : Str) : ∀ c ∈ splitOn sep s, ∀ x ∈ c, x ∈ s := by
  induction s with
  | nil => intro c hc x hx; simp [splitOn] at hc; subst hc; cases hx
  | cons y ys ih =>
    intro c hc x hx
    simp only [splitOn] at hc
    by_cases hy : y = sep
    · simp only [hy, if_true, List.mem_cons] at hc
      rcases hc with rfl | hc
      · cases hx
      · exact List.mem_cons_of_mem _ (ih c hc x hx)
    · simp only [hy, if_false] at hc
      cases hs : splitOn sep ys with
      | nil => exact absurd hs (splitOn_ne_nil sep ys)
      | cons h t =>
        rw [hs] at hc ih
        simp only [List.mem_cons] at hc
        rcases hc with rfl | hc
        · rcases List.mem_cons.1 hx with rfl | hx
          · exact List.mem_cons_self
          · exact List.mem_cons_of_mem _ (ih h List.mem_cons_self x hx)
        · exact List.mem_cons_of_mem _ (ih c (List.mem_cons_of_mem _ hc) x hx)

theorem foldl_step_subset (l s r : List Str) (h : l.foldl PathSpec.step (some s) = some r) :
    ∀ c ∈ r, c ∈ s ∨ c ∈ l := by
  induction l generalizing s with
  | nil => simp at h; subst h; intro c hc; exact Or.inl hc
  | cons x l ih =>
    rw [List.foldl_cons] at h
    cases hst : PathSpec.step (some s) x with
    | none => rw [hst, foldl_step_none] at h; cases h
    | some s' =>
      rw [hst] at h
      intro c hc
      rcases ih s' h c hc with h1 | h1
      · simp only [PathSpec.step] at hst
        split at hst
        · cases hst; exact Or.inl h1
        · split at hst
          · split at hst
            · cases hst
            · cases hst; exact Or.inl ((List.dropLast_sublist _).subset h1)
          · cases hst
            rcases List.mem_append.1 h1 with h2 | h2
            · exact Or.inl h2
            · simp at h2; subst h2; exact Or.inr List.mem_cons_self
      · exact Or.inr (List.mem_cons_of_mem _ h1)

theorem noNul_mkp {a : Bool} {cs : List Name} (h : ∀ c ∈ cs, '\x00' ∉ c) : '\x00' ∉ mkp a cs := by
  have hj : '\x00' ∉ joinWith '/' cs := by
    induction cs with
    | nil => simp [joinWith]
    | cons c cs ih =>
      rw [joinWith_cons]
      have hc := h c List.mem_cons_self
      have hcs := ih (fun x hx => h x (List.mem_cons_of_mem _ hx))
      split
      · simpa using hc
      · simp only [List.mem_append, List.mem_cons, not_or]
        exact ⟨hc, by decide, hcs⟩
  cases a
  · simpa [mkp] using hj
  · simp only [mkp, if_true, List.cons_append, List.nil_append, List.mem_cons, not_or]
    exact ⟨by decide, hj⟩

theorem iteratepath_mkp (a : Bool) {cs : List Str} (h : Clean cs) : iteratepath (mkp a cs) = .ok cs := by
  unfold iteratepath
  rw [normpath_mkp h, bind_ok]
  simp only [relpath, lstripSlash_mkp h, pure_eq]
  by_cases hc : cs = []
  · subst hc; rfl
  · have : joinWith '/' cs ≠ [] := fun e => hc ((join_clean_eq_nil_iff h).1 e)
    simp [this, splitSlash, splitOn_join_clean h hc]

theorem validate_mkp (a : Bool) {cs : List Name} (h : AllClean cs) : Ref.validate (mkp a cs) = .ok cs := by
  have hn : (mkp a cs).contains '\x00' = false := by
    have := noNul_mkp (a := a) (cs := cs) (fun c hc => cleanName_noNul (h c hc))
    simpa using this
  simp only [Ref.validate, hn, Bool.false_eq_true, if_false]
  exact iteratepath_mkp a h.clean

/-- a path that validates: its components are legal names and it normalises to their join -/
theorem validate_ok {p : Str} {cs : List Name} (h : Ref.validate p = .ok cs) :
    AllClean cs ∧ normpath p = .ok (mkp (startsWithSlash p) cs) := by
  unfold Ref.validate at h
  by_cases hn : p.contains '\x00' = true
  · rw [if_pos hn] at h; cases h
  · rw [if_neg hn] at h
    have hnul : '\x00' ∉ p := by simpa using hn
    cases hr : resolve (splitSlash p) with
    | none =>
      rw [iteratepath, normpath_eq_specNorm, specNorm, hr] at h; cases h
    | some cs' =>
      have hcl := resolve_result_clean p cs' hr
      have hnorm : normpath p = .ok (mkp (startsWithSlash p) cs') := by
        rw [normpath_eq_specNorm, specNorm, hr]; rfl
      have hit : iteratepath p = .ok cs' := by
        unfold iteratepath
        rw [hnorm, bind_ok]
        have := iteratepath_mkp (startsWithSlash p) hcl
        unfold iteratepath at this
        rw [normpath_mkp hcl, bind_ok] at this
        exact this
      have hcs : cs' = cs := by
        rw [hit] at h
        cases h; rfl
      subst hcs
      refine ⟨?_, hnorm⟩
      intro c hc
      apply cleanName_of (hcl c hc)
      intro hx
      have hsub := foldl_step_subset (splitSlash p) [] cs' (by simpa [resolve] using hr) c hc
      rcases hsub with h0 | h0
      · cases h0
      · exact hnul (mem_chars_of_mem_splitOn '/' p c h0 _ hx)

theorem relpath_mkp {a : Bool} {cs : List Name} (h : Clean cs) : relpath (mkp a cs) = mkp false cs := by
  rw [relpath, lstripSlash_mkp h]; simp [mkp]

theorem forcedir_mkp_false {cs : List Name} (h : Clean cs) (hne : cs ≠ []) :
    forcedir (mkp false cs) = joinWith '/' cs ++ ['/'] := by
  simp only [forcedir, endsWithSlash_mkp h hne, Bool.false_eq_true, if_false]
  simp [mkp]

theorem normpath_dirName {cs : List Name} (hcl : Clean cs) (hne : cs ≠ []) :
    normpath (joinWith '/' cs ++ ['/']) = .ok (mkp false cs) := by
  have hjoin : joinWith '/' cs ++ ['/'] = joinWith '/' (cs ++ [[]]) := by
    rw [join_snoc, join_append_slash cs hne]; simp
  have hsplit : splitSlash (joinWith '/' cs ++ ['/']) = cs ++ [[]] := by
    rw [hjoin, splitSlash]
    apply splitOn_joinWith _ _ (by simp)
    intro x hx
    rcases List.mem_append.1 hx with hx | hx
    · exact clean_not_mem hcl x hx
    · simp at hx; subst hx; simp
  have hres : resolve (splitSlash (joinWith '/' cs ++ ['/'])) = some cs := by
    rw [hsplit, resolve, List.foldl_append, foldl_step_clean cs [] hcl]
    simp [PathSpec.step]
  have hjne : joinWith '/' cs ≠ [] := fun e => hne ((join_clean_eq_nil_iff hcl).1 e)
  have hsw : startsWithSlash (joinWith '/' cs ++ ['/']) = false := by
    rw [startsWithSlash_append _ _ hjne]; exact startsWithSlash_join_clean hcl
  rw [normpath_eq_specNorm, specNorm, hres, hsw]; rfl

/-- `"a/b/"`: the name `write_zip` gives a directory validates to the same components -/
theorem validate_dirName {cs : List Name} (h : AllClean cs) (hne : cs ≠ []) :
    Ref.validate (joinWith '/' cs ++ ['/']) = .ok cs := by
  have hcl := h.clean
  have hnul : (joinWith '/' cs ++ ['/']).contains '\x00' = false := by
    have := noNul_mkp (a := false) (cs := cs) (fun c hc => cleanName_noNul (h c hc))
    simp only [mkp, Bool.false_eq_true, if_false, List.nil_append] at this
    simp only [List.contains_eq_mem, List.mem_append, List.mem_cons, List.not_mem_nil, or_false,
      decide_eq_false_iff_not, not_or]
    exact ⟨this, by decide⟩
  simp only [Ref.validate, hnul, Bool.false_eq_true, if_false]
  have hnorm := normpath_dirName hcl hne
  unfold iteratepath
  rw [hnorm, bind_ok]
  have := iteratepath_mkp false hcl
  unfold iteratepath at this
  rw [normpath_mkp hcl, bind_ok] at this
  exact this


/-! ### the recursive enumeration `Node.walk` lists exactly the resources of the tree, once -/

mutual
theorem walk_sound (v : Node) (hv : v.wf = true) (pre cs : List Name) (n : Node)
    (h : (cs, n) ∈ v.walk pre) : ∃ r, r ≠ [] ∧ cs = pre ++ r ∧ v.get r = some n :=
  match v with
  | .file _ => by simp [Node.walk] at h
  | .dir es => by
    simp only [Node.walk] at h
    exact ents_sound es (wf_dir.1 hv) pre cs n h
theorem ents_sound (es : Ents) (hes : entsWf es = true) (pre cs : List Name) (n : Node)
    (h : (cs, n) ∈ entsWalk pre es) : ∃ r, r ≠ [] ∧ cs = pre ++ r ∧ (Node.dir es).get r = some n :=
  match es with
  | [] => by simp [entsWalk] at h
  | (k, v) :: rest => by
    obtain ⟨h1, h2, h3, h4⟩ := entsWf_cons.1 hes
    simp only [entsWalk, List.mem_cons, List.mem_append, Prod.mk.injEq] at h
    rcases h with ⟨rfl, rfl⟩ | h | h
    · exact ⟨[k], by simp, rfl, by simp [get_cons_dir, Ents.lookup, get_nil]⟩
    · obtain ⟨r, hr1, hr2, hr3⟩ := walk_sound v h3 (pre ++ [k]) cs n h
      exact ⟨k :: r, by simp, by simp [hr2], by simp [get_cons_dir, Ents.lookup, hr3]⟩
    · obtain ⟨r, hr1, hr2, hr3⟩ := ents_sound rest h4 pre cs n h
      refine ⟨r, hr1, hr2, ?_⟩
      cases r with
      | nil => exact absurd rfl hr1
      | cons c r' =>
        rw [get_cons_dir] at hr3 ⊢
        have hck : k ≠ c := by
          intro e; subst e
          rw [h2] at hr3; cases hr3
        simp only [Ents.lookup, hck, if_false]
        exact hr3
end

mutual
theorem walk_complete (v : Node) (pre r : List Name) (n : Node) (hr : r ≠ [])
    (h : v.get r = some n) : (pre ++ r, n) ∈ v.walk pre :=
  match v with
  | .file _ => by
    cases r with
    | nil => exact absurd rfl hr
    | cons c r' => simp [get_cons_file] at h
  | .dir es => by
    simp only [Node.walk]
    exact ents_complete es pre r n hr h
theorem ents_complete (es : Ents) (pre r : List Name) (n : Node) (hr : r ≠ [])
    (h : (Node.dir es).get r = some n) : (pre ++ r, n) ∈ entsWalk pre es :=
  match es with
  | [] => by
    cases r with
    | nil => exact absurd rfl hr
    | cons c r' => simp [get_cons_dir, Ents.lookup] at h
  | (k, v) :: rest => by
    cases r with
    | nil => exact absurd rfl hr
    | cons c r' =>
      rw [get_cons_dir] at h
      simp only [entsWalk, List.mem_cons, List.mem_append]
      by_cases hk : k = c
      · subst hk
        simp only [Ents.lookup, if_true, Option.bind_some] at h
        cases r' with
        | nil =>
          rw [get_nil] at h; cases h
          exact Or.inl rfl
        | cons d r'' =>
          right; left
          have := walk_complete v (pre ++ [k]) (d :: r'') n (by simp) h
          simpa using this
      · right; right
        simp only [Ents.lookup, hk, if_false] at h
        have h' : (Node.dir rest).get (c :: r') = some n := by rw [get_cons_dir]; exact h
        exact ents_complete rest pre (c :: r') n (by simp) h'
end

mutual
theorem walk_nodup (v : Node) (hv : v.wf = true) (pre : List Name) :
    ((v.walk pre).map Prod.fst).Nodup :=
  match v with
  | .file _ => by simp [Node.walk]
  | .dir es => by
    simp only [Node.walk]
    exact ents_nodup es (wf_dir.1 hv) pre
theorem ents_nodup (es : Ents) (hes : entsWf es = true) (pre : List Name) :
    ((entsWalk pre es).map Prod.fst).Nodup :=
  match es with
  | [] => by simp [entsWalk]
  | (k, v) :: rest => by
    obtain ⟨h1, h2, h3, h4⟩ := entsWf_cons.1 hes
    have ih1 := walk_nodup v h3 (pre ++ [k])
    have ih2 := ents_nodup rest h4 pre
    have hmid : ∀ x ∈ (v.walk (pre ++ [k])).map Prod.fst, ∃ r, r ≠ [] ∧ x = pre ++ k :: r := by
      intro x hx
      obtain ⟨⟨cs, n⟩, hm, rfl⟩ := List.mem_map.1 hx
      obtain ⟨r, hr1, hr2, _⟩ := walk_sound v h3 (pre ++ [k]) cs n hm
      exact ⟨r, hr1, by simp [hr2]⟩
    have htail : ∀ x ∈ (entsWalk pre rest).map Prod.fst, ∃ c r, c ≠ k ∧ x = pre ++ c :: r := by
      intro x hx
      obtain ⟨⟨cs, n⟩, hm, rfl⟩ := List.mem_map.1 hx
      obtain ⟨r, hr1, hr2, hr3⟩ := ents_sound rest h4 pre cs n hm
      cases r with
      | nil => exact absurd rfl hr1
      | cons c r' =>
        refine ⟨c, r', ?_, hr2⟩
        intro e; subst e
        rw [get_cons_dir, h2] at hr3; cases hr3
    simp only [entsWalk, List.map_cons, List.map_append, List.nodup_cons, List.mem_append, not_or]
    refine ⟨⟨?_, ?_⟩, ?_⟩
    · intro hx
      obtain ⟨r, hr1, hr2⟩ := hmid _ hx
      have := List.append_cancel_left hr2
      simp at this
      exact hr1 this
    · intro hx
      obtain ⟨c, r, hc, hr2⟩ := htail _ hx
      have := List.append_cancel_left hr2
      simp at this
      exact hc this.1.symm
    · rw [List.nodup_append]
      refine ⟨ih1, ih2, ?_⟩
      intro a ha b hb hab
      obtain ⟨r, _, hr2⟩ := hmid a ha
      obtain ⟨c, r', hc, hr2'⟩ := htail b hb
      rw [hr2, hr2'] at hab
      have := List.append_cancel_left hab
      simp at this
      exact hc this.1.symm
end

/-! ### the breadth-first work-list enumerates the same resources -/

def qWalk (q : Queue) : List (List Name × Node) := q.flatMap fun e => entsWalk e.1 e.2

def qSize (q : Queue) : Nat := (q.map fun e => 1 + entsCount e.2).sum

theorem qSize_append (a b : Queue) : qSize (a ++ b) = qSize a + qSize b := by
  simp [qSize, List.sum_append]

theorem qSize_subdirs (pre : List Name) (es : Ents) : qSize (subdirs pre es) ≤ entsCount es := by
  induction es with
  | nil => simp [subdirs, qSize, entsCount]
  | cons e es ih =>
    obtain ⟨k, v⟩ := e
    cases v with
    | file d =>
      simp only [subdirs, entsCount, Node.count]
      omega
    | dir es' =>
      simp only [subdirs, entsCount, Node.count]
      simp only [qSize, List.map_cons, List.sum_cons] at ih ⊢
      omega

theorem entsWalk_perm (pre : List Name) (es : Ents) :
    (entsWalk pre es).Perm (level pre es ++ qWalk (subdirs pre es)) := by
  induction es with
  | nil => simp [entsWalk, level, subdirs, qWalk]
  | cons e es ih =>
    obtain ⟨k, v⟩ := e
    cases v with
    | file d =>
      simp only [entsWalk, Node.walk, List.nil_append, level, List.map_cons, subdirs, List.cons_append]
      exact List.Perm.cons _ ih
    | dir es' =>
      simp only [entsWalk, Node.walk, level, List.map_cons, subdirs, qWalk, List.flatMap_cons,
        List.cons_append]
      refine List.Perm.cons _ ?_
      have h1 : (entsWalk (pre ++ [k]) es' ++ entsWalk pre es).Perm
          (entsWalk (pre ++ [k]) es' ++ (level pre es ++ qWalk (subdirs pre es))) :=
        List.Perm.append_left _ ih
      refine h1.trans ?_
      simp only [level, qWalk]
      rw [← List.append_assoc, ← List.append_assoc]
      exact List.Perm.append_right _ List.perm_append_comm

theorem bfs_perm (n : Nat) (q : Queue) (h : qSize q ≤ n) : (bfs n q).Perm (qWalk q) := by
  induction n generalizing q with
  | zero =>
    cases q with
    | nil => simp [bfs, qWalk]
    | cons e q => simp [qSize] at h <;> omega
  | succ n ih =>
    cases q with
    | nil => simp [bfs, qWalk]
    | cons e q =>
      obtain ⟨pre, es⟩ := e
      simp only [bfs]
      have hsz : qSize (q ++ subdirs pre es) ≤ n := by
        rw [qSize_append]
        have := qSize_subdirs pre es
        have hq : qSize ((pre, es) :: q) = 1 + entsCount es + qSize q := by
          simp [qSize]
        omega
      have h1 := ih (q ++ subdirs pre es) hsz
      have h2 : (level pre es ++ bfs n (q ++ subdirs pre es)).Perm
          (level pre es ++ qWalk (q ++ subdirs pre es)) := List.Perm.append_left _ h1
      refine h2.trans ?_
      have h3 : qWalk (q ++ subdirs pre es) = qWalk q ++ qWalk (subdirs pre es) := by
        simp [qWalk, List.flatMap_append]
      rw [h3]
      have h4 : qWalk ((pre, es) :: q) = entsWalk pre es ++ qWalk q := by
        simp [qWalk, List.flatMap_cons]
      rw [h4]
      have h5 := (entsWalk_perm pre es).symm
      have h6 : (level pre es ++ (qWalk q ++ qWalk (subdirs pre es))).Perm
          ((level pre es ++ qWalk (subdirs pre es)) ++ qWalk q) := by
        rw [List.append_assoc]
        exact List.Perm.append_left _ List.perm_append_comm
      exact h6.trans (List.Perm.append_right _ h5)

theorem walkInfo_perm (es : Ents) : (walkInfo (.dir es)).Perm ((Node.dir es).walk []) := by
  have h : qSize [(([] : List Name), es)] ≤ (Node.dir es).count := by
    simp [qSize, Node.count]
  have := bfs_perm (Node.dir es).count [([], es)] h
  simpa [walkInfo, Node.entries, qWalk, Node.walk] using this

/-- every resource below the root is yielded by the walker, and nothing else -/
theorem mem_walkInfo {t : Node} (ht : t.wf = true) (hd : t.isDir = true) (cs : List Name) (n : Node) :
    (cs, n) ∈ walkInfo t ↔ cs ≠ [] ∧ t.get cs = some n := by
  cases t with
  | file d => simp [Node.isDir] at hd
  | dir es =>
    rw [(walkInfo_perm es).mem_iff]
    constructor
    · intro h
      obtain ⟨r, hr1, hr2, hr3⟩ := walk_sound _ ht [] cs n h
      simp only [List.nil_append] at hr2
      subst hr2
      exact ⟨hr1, hr3⟩
    · rintro ⟨h1, h2⟩
      have := walk_complete (.dir es) [] cs n h1 h2
      simpa using this

/-- each resource is yielded once -/
theorem walkInfo_nodup {t : Node} (ht : t.wf = true) (hd : t.isDir = true) :
    ((walkInfo t).map Prod.fst).Nodup := by
  cases t with
  | file d => simp [Node.isDir] at hd
  | dir es =>
    have := walk_nodup (.dir es) ht []
    exact ((walkInfo_perm es).map Prod.fst).nodup_iff.2 this


/-! ### `Ref.step` on one validated path -/

theorem mapM_single (p : Str) (cs : List Name) (hv : Ref.validate p = .ok cs) :
    [p].mapM Ref.validate = (.ok [cs] : Res _) := by
  unfold List.mapM List.mapM.loop
  show (Ref.validate p >>= fun b => List.mapM.loop Ref.validate [] [b]) = _
  rw [hv]
  rfl

theorem mapM_single_err (p : Str) (e : Err) (hv : Ref.validate p = .err e) :
    [p].mapM Ref.validate = (.err e : Res (List (List Name))) := by
  unfold List.mapM List.mapM.loop
  show (Ref.validate p >>= fun b => List.mapM.loop Ref.validate [] [b]) = _
  rw [hv]
  rfl

section
variable (T : Node) (p : Str) (cs : List Name) (hv : Ref.validate p = .ok cs)
include hv

theorem step_makedirs (r : Bool) :
    Ref.step ⟨T, false⟩ (.makedirs p r) = Ref.step1 ⟨T, false⟩ cs (.makedirs p r) := by
  simp only [Ref.step, Ref.Op.paths, mapM_single p cs hv]; rfl
theorem step_create (w : Bool) :
    Ref.step ⟨T, false⟩ (.create p w) = Ref.step1 ⟨T, false⟩ cs (.create p w) := by
  simp only [Ref.step, Ref.Op.paths, mapM_single p cs hv]; rfl
theorem step_exists : Ref.step ⟨T, false⟩ (.exists_ p) = Ref.step1 ⟨T, false⟩ cs (.exists_ p) := by
  simp only [Ref.step, Ref.Op.paths, mapM_single p cs hv]; rfl
theorem step_isdir : Ref.step ⟨T, false⟩ (.isdir p) = Ref.step1 ⟨T, false⟩ cs (.isdir p) := by
  simp only [Ref.step, Ref.Op.paths, mapM_single p cs hv]; rfl
theorem step_isfile : Ref.step ⟨T, false⟩ (.isfile p) = Ref.step1 ⟨T, false⟩ cs (.isfile p) := by
  simp only [Ref.step, Ref.Op.paths, mapM_single p cs hv]; rfl
theorem step_listdir : Ref.step ⟨T, false⟩ (.listdir p) = Ref.step1 ⟨T, false⟩ cs (.listdir p) := by
  simp only [Ref.step, Ref.Op.paths, mapM_single p cs hv]; rfl
theorem step_getinfo : Ref.step ⟨T, false⟩ (.getinfo p) = Ref.step1 ⟨T, false⟩ cs (.getinfo p) := by
  simp only [Ref.step, Ref.Op.paths, mapM_single p cs hv]; rfl
end

/-- a failing or read-only step leaves the state alone; `makedirs`/`create` keep it well-formed -/
theorem step_makedirs_wf (T : Node) (hT : T.wf = true) (p : Str) (r : Bool) :
    (Ref.step ⟨T, false⟩ (.makedirs p r)).1.root.wf = true ∧
    (Ref.step ⟨T, false⟩ (.makedirs p r)).1.closed = false := by
  cases hv : Ref.validate p with
  | err e =>
    simp only [Ref.step, Ref.Op.paths, mapM_single_err p e hv]
    exact ⟨hT, rfl⟩
  | ok cs =>
    rw [step_makedirs T p cs hv]
    have hcl := (validate_ok hv).1
    simp only [Ref.step1]
    split
    · exact ⟨hT, rfl⟩
    · split
      · split <;> exact ⟨hT, rfl⟩
      · split <;> exact ⟨hT, rfl⟩
      · exact ⟨wf_mkdirs [] cs hT (by simpa using hcl), rfl⟩

theorem writeFile_wf (T : Node) (hT : T.wf = true) (cs : List Name) (hcl : AllClean cs)
    (f : Option Bytes → Bytes) (v : Ref.Val) :
    (Ref.writeFile ⟨T, false⟩ cs f v).1.root.wf = true ∧ (Ref.writeFile ⟨T, false⟩ cs f v).1.closed = false := by
  simp only [Ref.writeFile]
  split
  · exact ⟨hT, rfl⟩
  · split
    · exact ⟨hT, rfl⟩
    · exact ⟨hT, rfl⟩
    · split
      · exact ⟨hT, rfl⟩
      · exact ⟨wf_set hT hcl (by simp [Node.wf]), rfl⟩
      · exact ⟨wf_set hT hcl (by simp [Node.wf]), rfl⟩

theorem step_create_wf (T : Node) (hT : T.wf = true) (p : Str) (w : Bool) :
    (Ref.step ⟨T, false⟩ (.create p w)).1.root.wf = true ∧
    (Ref.step ⟨T, false⟩ (.create p w)).1.closed = false := by
  cases hv : Ref.validate p with
  | err e =>
    simp only [Ref.step, Ref.Op.paths, mapM_single_err p e hv]
    exact ⟨hT, rfl⟩
  | ok cs =>
    rw [step_create T p cs hv]
    have hcl := (validate_ok hv).1
    simp only [Ref.step1]
    split
    · exact ⟨hT, rfl⟩
    · exact writeFile_wf T hT cs hcl _ _

theorem dirStep_wf (s : Ref.State) (hs : s.root.wf = true) (hc : s.closed = false) (name : Str) :
    (dirStep s name).1.root.wf = true ∧ (dirStep s name).1.closed = false := by
  obtain ⟨T, c⟩ := s
  simp only at hs hc
  subst hc
  simp only [dirStep]
  split
  · exact step_makedirs_wf T hs name true
  · have h1 := step_makedirs_wf T hs (dirname name) true
    generalize Ref.step ⟨T, false⟩ (.makedirs (dirname name) true) = r1 at h1 ⊢
    obtain ⟨⟨T1, c1⟩, o1⟩ := r1
    simp only at h1 ⊢
    obtain ⟨hw, hc1⟩ := h1
    subst hc1
    cases o1 with
    | err e => exact ⟨hw, rfl⟩
    | ok v => exact step_create_wf T1 hw name false

theorem buildDir_wf (s : Ref.State) (hs : s.root.wf = true) (hc : s.closed = false)
    (nm : List (Str × Str)) (names : List Str) : (buildDir s nm names).1.root.wf = true := by
  induction names generalizing s nm with
  | nil => simpa [buildDir] using hs
  | cons n ns ih =>
    have h := dirStep_wf s hs hc n
    simp only [buildDir]
    cases hd : dirStep s n with
    | mk s' e =>
      rw [hd] at h
      cases e with
      | some e => exact h.1
      | none =>
        simp only
        cases zipKey n with
        | err e => exact h.1
        | ok k => exact ih s' h.1 h.2 _

theorem step_makedirs_wf_closed (T : Node) (p : Str) (r : Bool) :
    (Ref.step ⟨T, false⟩ (.makedirs p r)).1.closed = false := by
  cases hv : Ref.validate p with
  | err e =>
    simp only [Ref.step, Ref.Op.paths, mapM_single_err p e hv]
    rfl
  | ok cs =>
    rw [step_makedirs T p cs hv]
    simp only [Ref.step1]
    split
    · rfl
    · split
      · split <;> rfl
      · split <;> rfl
      · rfl

theorem step_create_closed (T : Node) (p : Str) (w : Bool) :
    (Ref.step ⟨T, false⟩ (.create p w)).1.closed = false := by
  cases hv : Ref.validate p with
  | err e =>
    simp only [Ref.step, Ref.Op.paths, mapM_single_err p e hv]
    rfl
  | ok cs =>
    rw [step_create T p cs hv]
    simp only [Ref.step1]
    split
    · rfl
    · simp only [Ref.writeFile]
      split
      · rfl
      · split
        · rfl
        · rfl
        · split <;> rfl

theorem dirStep_closed (T : Node) (name : Str) : (dirStep ⟨T, false⟩ name).1.closed = false := by
  simp only [dirStep]
  split
  · exact step_makedirs_wf_closed T name true
  · have h2 := step_makedirs_wf_closed T (dirname name) true
    generalize Ref.step ⟨T, false⟩ (.makedirs (dirname name) true) = r1 at h2 ⊢
    obtain ⟨⟨T1, c1⟩, o1⟩ := r1
    simp only at h2 ⊢
    subst h2
    cases o1 with
    | err e => rfl
    | ok v => exact step_create_closed T1 name false

/-! #### … and the root stays a directory -/

theorem isDir_set (T : Node) (cs : List Name) (v : Node) (hcs : cs ≠ []) : (T.set cs v).isDir = T.isDir := by
  cases cs with
  | nil => exact absurd rfl hcs
  | cons c cs =>
    cases T with
    | file d => cases cs <;> simp [Node.set, Node.isDir]
    | dir es =>
      cases cs with
      | nil => simp [Node.set, Node.isDir]
      | cons d cs' =>
        rw [set_cons_cons_dir]
        cases Ents.lookup c es <;> simp [Node.isDir]

theorem isDir_mkdirs (pre cs : List Name) (T : Node) : (Ref.mkdirs pre cs T).isDir = T.isDir := by
  induction cs generalizing pre T with
  | nil => simp [Ref.mkdirs]
  | cons c cs ih =>
    simp only [Ref.mkdirs]
    rw [ih]
    cases T.get (pre ++ [c]) with
    | some n => rfl
    | none => exact isDir_set T _ _ (by simp)

theorem step_makedirs_isDir (T : Node) (p : Str) (r : Bool) :
    (Ref.step ⟨T, false⟩ (.makedirs p r)).1.root.isDir = T.isDir := by
  cases hv : Ref.validate p with
  | err e =>
    simp only [Ref.step, Ref.Op.paths, mapM_single_err p e hv]
    rfl
  | ok cs =>
    rw [step_makedirs T p cs hv]
    simp only [Ref.step1]
    split
    · rfl
    · split
      · split <;> rfl
      · split <;> rfl
      · exact isDir_mkdirs [] cs T

theorem step_create_isDir (T : Node) (p : Str) (w : Bool) :
    (Ref.step ⟨T, false⟩ (.create p w)).1.root.isDir = T.isDir := by
  cases hv : Ref.validate p with
  | err e =>
    simp only [Ref.step, Ref.Op.paths, mapM_single_err p e hv]
    rfl
  | ok cs =>
    rw [step_create T p cs hv]
    simp only [Ref.step1]
    split
    · rfl
    · simp only [Ref.writeFile]
      split
      · rfl
      · next hne =>
        split
        · rfl
        · rfl
        · split
          · rfl
          · exact isDir_set T cs _ hne
          · exact isDir_set T cs _ hne

theorem dirStep_isDir (T : Node) (name : Str) : (dirStep ⟨T, false⟩ name).1.root.isDir = T.isDir := by
  simp only [dirStep]
  split
  · exact step_makedirs_isDir T name true
  · have h1 := step_makedirs_isDir T (dirname name) true
    have h2 := step_makedirs_wf_closed T (dirname name) true
    generalize Ref.step ⟨T, false⟩ (.makedirs (dirname name) true) = r1 at h1 h2 ⊢
    obtain ⟨⟨T1, c1⟩, o1⟩ := r1
    simp only at h1 h2 ⊢
    subst h2
    cases o1 with
    | err e => exact h1
    | ok v => rw [← h1]; exact step_create_isDir T1 name false

theorem buildDir_isDir (names : List Str) (s : Ref.State) (hc : s.closed = false) (nm : List (Str × Str)) :
    (buildDir s nm names).1.root.isDir = s.root.isDir := by
  induction names generalizing s nm with
  | nil => simp [buildDir]
  | cons n ns ih =>
    obtain ⟨T, c⟩ := s
    simp only at hc
    subst hc
    have h := dirStep_isDir T n
    have hcl := dirStep_closed T n
    simp only [buildDir]
    cases hd : dirStep ⟨T, false⟩ n with
    | mk s' e =>
      rw [hd] at h hcl
      cases e with
      | some e => exact h
      | none =>
        simp only
        cases zipKey n with
        | err e => exact h
        | ok k => rw [ih s' hcl _]; exact h

/-! ### building the directory of a written archive: the tree grows towards the source tree -/

/-- `T` has nothing that `t` does not have, kind-wise -/
def Sub (T t : Node) : Prop := ∀ q, kindAt T q = none ∨ kindAt T q = kindAt t q

/-- nothing present is lost or changes kind -/
def Mono (T T' : Node) : Prop := ∀ q, kindAt T q ≠ none → kindAt T' q = kindAt T q

theorem Mono.trans {A B C : Node} (h1 : Mono A B) (h2 : Mono B C) : Mono A C := by
  intro q hq
  have := h1 q hq
  rw [h2 q (by rw [this]; exact hq), this]

theorem kindAt_prefix {t : Node} {a b : List Name} (h : kindAt t (a ++ b) ≠ none) (hb : b ≠ []) :
    kindAt t a = some true := by
  simp only [kindAt, ne_eq, Option.map_eq_none_iff] at h
  cases hg : t.get (a ++ b) with
  | none => exact absurd hg h
  | some n =>
    obtain ⟨es, hes⟩ := get_prefix_dir hg hb
    simp [kindAt, hes, Node.isDir]

theorem kindAt_prefix' {t : Node} {q cs : List Name} (h : kindAt t cs = some true) (hq : q <+: cs) :
    kindAt t q = some true := by
  obtain ⟨b, rfl⟩ := hq
  by_cases hb : b = []
  · subst hb; simpa using h
  · exact kindAt_prefix (by rw [h]; simp) hb

theorem makedirs_grow {t T : Node} {cs : List Name} (hT : kindAt T [] = some true) (hsub : Sub T t)
    (hk : kindAt t cs = some true) (p : Str) :
    ∃ T', Ref.step1 ⟨T, false⟩ cs (.makedirs p true) = (⟨T', false⟩, .ok .unit) ∧
      Sub T' t ∧ Mono T T' ∧ kindAt T' cs = some true := by
  have hpref : ∀ q, q <+: cs → kindAt T q ≠ some false := by
    intro q hq
    have := kindAt_prefix' hk hq
    rcases hsub q with h | h
    · rw [h]; simp
    · rw [h, this]; simp
  have hnb : Ref.blockedByFile T [] cs = false :=
    not_blocked [] cs (fun q hq _ => by simpa using hpref q hq)
  simp only [Ref.step1, hnb, Bool.false_eq_true, if_false]
  cases hg : T.get cs with
  | some n =>
    cases n with
    | dir es =>
      refine ⟨T, rfl, hsub, fun q _ => rfl, ?_⟩
      simp [kindAt, hg, Node.isDir]
    | file d =>
      exfalso
      exact hpref cs List.prefix_rfl (by simp [kindAt, hg, Node.isDir])
  | none =>
    obtain ⟨p1, p2⟩ := kindAt_mkdirs (T := T) [] cs hT (fun q hq => by simpa using hpref q hq)
    refine ⟨Ref.mkdirs [] cs T, rfl, ?_, ?_, ?_⟩
    · intro r
      rcases p2 r with h | ⟨_, h2, q, _, hq2, hq3⟩
      · rw [h]; exact hsub r
      · right
        simp only [List.nil_append] at hq3
        subst hq3
        rw [h2, kindAt_prefix' hk hq2]
    · intro r hr
      rcases p2 r with h | ⟨h1, _, _⟩
      · exact h
      · exact absurd h1 hr
    · simpa using p1 cs List.prefix_rfl

theorem create_grow {t T : Node} {cs : List Name} (hne : cs ≠ []) (hsub : Sub T t)
    (hpar : kindAt T cs.dropLast = some true) (hk : kindAt t cs = some false) (p : Str) :
    ∃ T' v, Ref.step1 ⟨T, false⟩ cs (.create p false) = (⟨T', false⟩, .ok v) ∧
      Sub T' t ∧ Mono T T' ∧ kindAt T' cs = some false := by
  simp only [Ref.step1, Bool.not_false, Bool.true_and]
  cases hg : T.get cs with
  | some n =>
    simp only [Option.isSome_some, if_true]
    refine ⟨T, _, rfl, hsub, fun q _ => rfl, ?_⟩
    rcases hsub cs with h | h
    · simp [kindAt, hg] at h
    · rw [h, hk]
  | none =>
    simp only [Option.isSome_none, Bool.false_eq_true, if_false, Ref.writeFile, hne, Ref.parentOf]
    have hp2 : ∃ es, T.get cs.dropLast = some (.dir es) := by
      simp only [kindAt, Option.map_eq_some_iff] at hpar
      obtain ⟨n, hn1, hn2⟩ := hpar
      cases n with
      | dir es => exact ⟨es, hn1⟩
      | file d => simp [Node.isDir] at hn2
    obtain ⟨es, hes⟩ := hp2
    simp only [hes, hg]
    have hset := kindAt_set (T := T) (cs := cs) (v := .file []) hne hpar hg (leaf_file [])
    refine ⟨_, _, rfl, ?_, ?_, ?_⟩
    · intro r
      rw [hset r]
      by_cases hr : r = cs
      · subst hr; right; simp [hk, Node.isDir]
      · simp only [hr, if_false]; exact hsub r
    · intro r hr
      rw [hset r]
      have : r ≠ cs := by
        intro e; subst e
        simp [kindAt, hg] at hr
      simp [this]
    · rw [hset cs]; simp [Node.isDir]

/-! #### member names of `write_zip` / `write_tar` -/

theorem lstrip_absPath {cs : List Name} (h : Clean cs) (x : Str) (hx : x = [] ∨ cs ≠ []) :
    relpath (absPath cs ++ x) = joinWith '/' cs ++ x := by
  simp only [relpath, absPath, List.cons_append, lstripSlash, if_true]
  apply lstripSlash_of_not_starts
  by_cases hc : cs = []
  · subst hc
    rcases hx with rfl | hx
    · rfl
    · exact absurd rfl hx
  · have hj : joinWith '/' cs ≠ [] := fun e => hc ((join_clean_eq_nil_iff h).1 e)
    show startsWithSlash (joinWith '/' cs ++ x) = false
    rw [startsWithSlash_append _ _ hj]
    exact startsWithSlash_join_clean h

theorem zipName_dir {cs : List Name} (h : Clean cs) (hne : cs ≠ []) :
    zipName cs true = joinWith '/' cs ++ ['/'] := by
  simp only [zipName, if_true]
  exact lstrip_absPath h ['/'] (Or.inr hne)

theorem zipName_file {cs : List Name} (h : Clean cs) : zipName cs false = mkp false cs := by
  simp only [zipName, Bool.false_eq_true, if_false]
  have := lstrip_absPath h [] (Or.inl rfl)
  simpa [mkp] using this

theorem tarName_eq {cs : List Name} (h : Clean cs) : tarName cs = mkp false cs := by
  simp only [tarName]
  have := lstrip_absPath h [] (Or.inl rfl)
  simpa [mkp] using this

theorem endsWithSlash_snoc (x : Str) : endsWithSlash (x ++ ['/']) = true := by
  simp [endsWithSlash, startsWithSlash]

theorem dirname_join {cs : List Name} (h : Clean cs) (hne : cs ≠ []) :
    dirname (mkp false cs) = mkp false cs.dropLast := by
  rcases list_nil_or_snoc cs with rfl | ⟨i, x, rfl⟩
  · exact absurd rfl hne
  · rw [dirname, split_mkp_snoc false i x h]
    simp

/-- one member of a written zip archive, processed by the loop of `ReadZipFS._directory` -/
theorem dirStep_grow {t T : Node} (ht : t.wf = true) {cs : List Name} {n : Node} (hne : cs ≠ [])
    (hg : t.get cs = some n) (hT : kindAt T [] = some true) (hsub : Sub T t) :
    ∃ T', dirStep ⟨T, false⟩ (zipName cs n.isDir) = (⟨T', false⟩, none) ∧
      Sub T' t ∧ Mono T T' ∧ kindAt T' cs = some n.isDir := by
  have hac := (wf_get ht hg).1
  have hcl := hac.clean
  have hk : kindAt t cs = some n.isDir := by simp [kindAt, hg]
  cases hd : n.isDir with
  | true =>
    rw [hd] at hk
    rw [zipName_dir hcl hne]
    simp only [dirStep, endsWithSlash_snoc, if_true]
    rw [step_makedirs T _ cs (validate_dirName hac hne)]
    obtain ⟨T', h1, h2, h3, h4⟩ := makedirs_grow hT hsub hk (joinWith '/' cs ++ ['/'])
    refine ⟨T', ?_, h2, h3, h4⟩
    rw [h1]; rfl
  | false =>
    rw [hd] at hk
    rw [zipName_file hcl]
    have hew : endsWithSlash (mkp false cs) = false := endsWithSlash_mkp hcl hne
    simp only [dirStep, hew, Bool.false_eq_true, if_false]
    rw [dirname_join hcl hne]
    have hac' : AllClean cs.dropLast := fun c hc => hac c ((List.dropLast_sublist _).subset hc)
    rw [step_makedirs T _ cs.dropLast (validate_mkp false hac')]
    have hkp : kindAt t cs.dropLast = some true := by
      have hcs : cs = cs.dropLast ++ [cs.getLast hne] := (List.dropLast_concat_getLast hne).symm
      apply kindAt_prefix (b := [cs.getLast hne]) _ (by simp)
      rw [← hcs, hk]; simp
    obtain ⟨T1, h1, h2, h3, h4⟩ := makedirs_grow hT hsub hkp (mkp false cs.dropLast)
    rw [h1]
    simp only
    rw [step_create T1 _ cs (validate_mkp false hac)]
    obtain ⟨T2, v, g1, g2, g3, g4⟩ := create_grow hne h2 h4 hk (mkp false cs)
    refine ⟨T2, ?_, g2, h3.trans g3, g4⟩
    rw [g1]; rfl

theorem endsWithSlash_snoc' (x : Str) : endsWithSlash (x ++ ['/']) = true := by
  simp [endsWithSlash, startsWithSlash]

/-- the names `write_zip` emits are their own `_zip_names` keys -/
theorem zipKey_zipName {cs : List Name} (hcl : Clean cs) (hne : cs ≠ []) (d : Bool) :
    zipKey (zipName cs d) = .ok (zipName cs d) := by
  cases d with
  | true =>
    rw [zipName_dir hcl hne]
    simp only [zipKey, normpath_dirName hcl hne, endsWithSlash_snoc', if_true, relpath_mkp hcl,
      forcedir_mkp_false hcl hne]
  | false =>
    rw [zipName_file hcl]
    simp only [zipKey, normpath_mkp hcl, endsWithSlash_mkp hcl hne, Bool.false_eq_true, if_false,
      relpath_mkp hcl]

theorem buildDir_grow {t : Node} (ht : t.wf = true) (l : List (List Name × Node))
    (hl : ∀ e ∈ l, e.1 ≠ [] ∧ t.get e.1 = some e.2) (T : Node) (hT : kindAt T [] = some true)
    (hsub : Sub T t) (nm : List (Str × Str)) (hnm : ∀ e ∈ nm, e.1 = e.2) :
    ∃ T' nm', buildDir ⟨T, false⟩ nm (l.map fun e => zipName e.1 e.2.isDir) = (⟨T', false⟩, nm', none) ∧
      Sub T' t ∧ Mono T T' ∧ (∀ e ∈ l, kindAt T' e.1 = some e.2.isDir) ∧ (∀ e ∈ nm', e.1 = e.2) := by
  induction l generalizing T nm with
  | nil => exact ⟨T, nm, rfl, hsub, fun q _ => rfl, (fun e he => by cases he), hnm⟩
  | cons e l ih =>
    obtain ⟨cs, n⟩ := e
    obtain ⟨hne, hg⟩ := hl (cs, n) List.mem_cons_self
    obtain ⟨T1, h1, h2, h3, h4⟩ := dirStep_grow ht hne hg hT hsub
    have hT1 : kindAt T1 [] = some true := by rw [h3 [] (by rw [hT]; simp), hT]
    have hkey := zipKey_zipName (wf_get ht hg).1.clean hne n.isDir
    have hnm1 : ∀ e ∈ (zipName cs n.isDir, zipName cs n.isDir) :: nm, e.1 = e.2 := by
      intro e he
      rcases List.mem_cons.1 he with rfl | he
      · rfl
      · exact hnm e he
    obtain ⟨T2, nm2, g1, g2, g3, g4, g5⟩ :=
      ih (fun e he => hl e (List.mem_cons_of_mem _ he)) T1 hT1 h2 _ hnm1
    refine ⟨T2, nm2, ?_, g2, h3.trans g3, ?_, g5⟩
    · simp only [List.map_cons, buildDir, h1, hkey]
      exact g1
    · intro e he
      rcases List.mem_cons.1 he with rfl | he
      · show kindAt T2 cs = some n.isDir
        rw [g3 cs (by rw [h4]; simp), h4]
      · exact g4 e he

/-- the directory `ReadZipFS` rebuilds from the members `write_zip` emitted has the kinds of the
source tree at every path, building it raises nothing, and every remembered stored name is the
normalised name itself -/
theorem readZip_dir_kinds {t : Node} (ht : t.wf = true) (hd : t.isDir = true) (mt : List Name → Int) :
    (readZip (zipMembers mt t)).err = none ∧
    (∀ q, kindAt (readZip (zipMembers mt t)).dir q = kindAt t q) ∧
    (∀ e ∈ (readZip (zipMembers mt t)).names, e.1 = e.2) := by
  have hl : ∀ e ∈ walkInfo t, e.1 ≠ [] ∧ t.get e.1 = some e.2 :=
    fun e he => (mem_walkInfo ht hd e.1 e.2).1 he
  have hsub0 : Sub (.dir []) t := by
    intro q
    cases q with
    | nil =>
      right
      cases t with
      | dir es => simp [kindAt, get_nil, Node.isDir]
      | file d => simp [Node.isDir] at hd
    | cons c q => left; simp [kindAt, get_cons_dir, Ents.lookup]
  obtain ⟨T', nm', h1, h2, _, h4, h5⟩ := buildDir_grow ht (walkInfo t) hl (.dir [])
    (by simp [kindAt, get_nil, Node.isDir]) hsub0 [] (fun e he => by cases he)
  have hnames : (zipMembers mt t).map (·.name) = (walkInfo t).map fun e => zipName e.1 e.2.isDir := by
    simp [zipMembers, List.map_map, Function.comp_def]
  have hb : buildDir Ref.State.empty [] ((zipMembers mt t).map (·.name)) = (⟨T', false⟩, nm', none) := by
    rw [hnames]; exact h1
  refine ⟨by simp [readZip, hb], ?_, by simpa [readZip, hb] using h5⟩
  intro q
  simp only [readZip, hb]
  by_cases hq : q = []
  · subst hq
    rcases h2 [] with h | h
    · exfalso
      cases T' with
      | dir es => simp [kindAt, get_nil] at h
      | file d => simp [kindAt, get_nil] at h
    · exact h
  · cases hg : t.get q with
    | some n =>
      have hm := (mem_walkInfo ht hd q n).2 ⟨hq, hg⟩
      have := h4 (q, n) hm
      simp only at this
      rw [this]; simp [kindAt, hg]
    | none =>
      rcases h2 q with h | h
      · rw [h]; simp [kindAt, hg]
      · exact h


/-! ### list facts not in core -/

theorem nodup_of_map {α β} (f : α → β) (l : List α) (h : (l.map f).Nodup) : l.Nodup := by
  induction l with
  | nil => simp
  | cons a l ih =>
    simp only [List.map_cons, List.nodup_cons] at h ⊢
    exact ⟨fun hm => h.1 (List.mem_map.2 ⟨a, hm, rfl⟩), ih h.2⟩

theorem nodup_map_on {α β} (f : α → β) (l : List α) (h : l.Nodup)
    (hi : ∀ x ∈ l, ∀ y ∈ l, f x = f y → x = y) : (l.map f).Nodup := by
  induction l with
  | nil => simp
  | cons a l ih =>
    simp only [List.map_cons, List.nodup_cons] at h ⊢
    refine ⟨?_, ih h.2 (fun x hx y hy => hi x (List.mem_cons_of_mem _ hx) y (List.mem_cons_of_mem _ hy))⟩
    intro hm
    obtain ⟨b, hb, hfb⟩ := List.mem_map.1 hm
    have := hi b (List.mem_cons_of_mem _ hb) a List.mem_cons_self hfb
    subst this
    exact h.1 hb

mutual
theorem walk_length (v : Node) (pre : List Name) : (v.walk pre).length + 1 = v.count :=
  match v with
  | .file _ => by simp [Node.walk, Node.count]
  | .dir es => by
    simp only [Node.walk, Node.count]
    have := ents_length es pre
    omega
theorem ents_length (es : Ents) (pre : List Name) : (entsWalk pre es).length = entsCount es :=
  match es with
  | [] => by simp [entsWalk, entsCount]
  | (k, v) :: rest => by
    simp only [entsWalk, entsCount, List.length_cons, List.length_append]
    have h1 := walk_length v (pre ++ [k])
    have h2 := ents_length rest pre
    omega
end

/-! ### listings -/

theorem mem_names_iff (c : Name) (es : Ents) : c ∈ Ents.names es ↔ Ents.lookup c es ≠ none := by
  induction es with
  | nil => simp [Ents.names, Ents.lookup]
  | cons e es ih =>
    obtain ⟨k, v⟩ := e
    simp only [Ents.names, List.map_cons, List.mem_cons, Ents.lookup] at ih ⊢
    by_cases hk : k = c
    · simp [hk]
    · have : ¬ c = k := fun e => hk e.symm
      simp [hk, this, ih]

theorem names_nodup {es : Ents} (h : entsWf es = true) : (Ents.names es).Nodup := by
  induction es with
  | nil => simp [Ents.names]
  | cons e es ih =>
    obtain ⟨k, v⟩ := e
    obtain ⟨_, h2, _, h4⟩ := entsWf_cons.1 h
    simp only [Ents.names, List.map_cons, List.nodup_cons]
    refine ⟨?_, ih h4⟩
    intro hm
    exact (mem_names_iff k es).1 hm h2

theorem get_snoc_dir {T : Node} {cs : List Name} {es : Ents} (h : T.get cs = some (.dir es)) (c : Name) :
    T.get (cs ++ [c]) = Ents.lookup c es := by
  rw [get_append, h]
  simp only [Option.bind_some, get_cons_dir]
  cases Ents.lookup c es <;> simp [get_nil]

/-- two well-formed trees with the same kinds everywhere list the same names in a directory -/
theorem names_perm_of_kinds {T t : Node} (hT : T.wf = true) (ht : t.wf = true)
    (hk : ∀ q, kindAt T q = kindAt t q) {cs : List Name} {es1 es2 : Ents}
    (h1 : T.get cs = some (.dir es1)) (h2 : t.get cs = some (.dir es2)) :
    (Ents.names es1).Perm (Ents.names es2) := by
  have w1 := wf_dir.1 (wf_get hT h1).2
  have w2 := wf_dir.1 (wf_get ht h2).2
  rw [List.perm_ext_iff_of_nodup (names_nodup w1) (names_nodup w2)]
  intro c
  rw [mem_names_iff, mem_names_iff, ← get_snoc_dir h1 c, ← get_snoc_dir h2 c]
  have := hk (cs ++ [c])
  simp only [kindAt] at this
  constructor
  · intro h e; rw [e] at this; simp at this; exact h this
  · intro h e
    rw [e] at this
    have h3 : t.get (cs ++ [c]) = none := by
      cases hx : t.get (cs ++ [c]) with
      | none => rfl
      | some x => rw [hx] at this; simp at this
    exact h h3

/-! ### `NameToInfo` -/

theorem lookupLast_unique {ms : List Member} {m : Member} (hm : m ∈ ms)
    (hu : ∀ m' ∈ ms, m'.name = m.name → m' = m) : lookupLast ms m.name = some m := by
  unfold lookupLast
  cases hf : ms.reverse.find? (fun x => x.name == m.name) with
  | none =>
    rw [List.find?_eq_none] at hf
    have := hf m (List.mem_reverse.2 hm)
    simp at this
  | some m' =>
    have h1 := List.find?_some hf
    have h2 := List.mem_of_find?_eq_some hf
    simp only [beq_iff_eq] at h1
    rw [hu m' (List.mem_reverse.1 h2) h1]

theorem lookupLast_none {ms : List Member} {name : Str} (h : ∀ m ∈ ms, m.name ≠ name) :
    lookupLast ms name = none := by
  unfold lookupLast
  rw [List.find?_eq_none]
  intro m hm
  simpa using h m (List.mem_reverse.1 hm)

theorem zipName_inj {cs cs' : List Name} {d d' : Bool} (h : Clean cs) (h' : Clean cs') (hne : cs ≠ [])
    (hne' : cs' ≠ []) (he : zipName cs d = zipName cs' d') : cs = cs' ∧ d = d' := by
  have e1 : ∀ {x : List Name}, Clean x → x ≠ [] → zipName x true = mkp false x ++ ['/'] := by
    intro x hx hxn; rw [zipName_dir hx hxn]; simp [mkp]
  cases d <;> cases d'
  · rw [zipName_file h, zipName_file h'] at he
    exact ⟨mkp_inj h h' he, rfl⟩
  · rw [zipName_file h, e1 h' hne'] at he
    have := endsWithSlash_mkp (a := false) h hne
    rw [he, endsWithSlash_snoc] at this
    cases this
  · rw [e1 h hne, zipName_file h'] at he
    have := endsWithSlash_mkp (a := false) h' hne'
    rw [← he, endsWithSlash_snoc] at this
    cases this
  · rw [e1 h hne, e1 h' hne'] at he
    exact ⟨mkp_inj h h' (List.append_cancel_right he), rfl⟩

/-- the member written for the resource at `cs` is the one its zip name resolves to -/
theorem lookupLast_zipMembers {t : Node} (ht : t.wf = true) (hd : t.isDir = true) (mt : List Name → Int)
    {cs : List Name} {n : Node} (hne : cs ≠ []) (hg : t.get cs = some n) :
    lookupLast (zipMembers mt t) (zipName cs n.isDir) =
      some ⟨zipName cs n.isDir, n.isDir, fileBytes n, zipTime (mt cs)⟩ := by
  have hm : (⟨zipName cs n.isDir, n.isDir, fileBytes n, zipTime (mt cs)⟩ : Member) ∈ zipMembers mt t := by
    simp only [zipMembers, List.mem_map]
    exact ⟨(cs, n), (mem_walkInfo ht hd cs n).2 ⟨hne, hg⟩, rfl⟩
  have := lookupLast_unique hm (by
    intro m' hm' hname
    simp only [zipMembers, List.mem_map] at hm'
    obtain ⟨⟨cs', n'⟩, hw, rfl⟩ := hm'
    obtain ⟨hne', hg'⟩ := (mem_walkInfo ht hd cs' n').1 hw
    simp only at hname
    obtain ⟨e1, _⟩ := zipName_inj (wf_get ht hg').1.clean (wf_get ht hg).1.clean hne' hne hname
    subst e1
    rw [hg] at hg'
    cases hg'
    rfl)
  simpa using this

end Fs.ArchiveLemmas
