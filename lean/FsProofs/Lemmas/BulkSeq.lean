/-
  C09 helper: the sequential specification `foldl copyOne` and its independence of the order
  of tasks with pairwise distinct destinations.
-/
import FsProofs.Lemmas.BulkDest

namespace Fs.BulkLemmas
open Fs Fs.Bulk

theorem get_copyOne_self (d : Store) (t : Task) : (copyOne d t).get t.dst = some t.data :=
  get_set_self _ _ _

theorem get_copyOne_ne (d : Store) (t : Task) (p : Str) (h : p ≠ t.dst) : (copyOne d t).get p = d.get p :=
  get_set_ne _ _ _ _ h

theorem foldl_copyOne_other : ∀ (ts : List Task) (d : Store) (p : Str), (∀ t ∈ ts, t.dst ≠ p) →
    (ts.foldl copyOne d).get p = d.get p
  | [], _, _, _ => rfl
  | t :: ts, d, p, h => by
    rw [List.foldl_cons, foldl_copyOne_other ts _ p (fun t' ht' => h t' (by simp [ht']))]
    exact get_copyOne_ne d t p (Ne.symm (h t (by simp)))

theorem foldl_copyOne_task : ∀ (ts : List Task) (d : Store) (t : Task), (ts.map (·.dst)).Nodup → t ∈ ts →
    (ts.foldl copyOne d).get t.dst = some t.data
  | [], _, _, _, h => by simp at h
  | u :: ts, d, t, hn, h => by
    rw [List.foldl_cons]
    simp only [List.map_cons, List.nodup_cons] at hn
    rcases List.mem_cons.mp h with h | h
    · subst h
      rw [foldl_copyOne_other ts _ t.dst (fun t' ht' heq => hn.1 (List.mem_map.mpr ⟨t', ht', heq⟩))]
      exact get_copyOne_self d t
    · exact foldl_copyOne_task ts _ t hn.2 h

/-- copies to distinct destination paths commute -/
theorem copyOne_comm' (d : Store) (a b : Task) (h : a.dst ≠ b.dst) (p : Str) :
    (copyOne (copyOne d a) b).get p = (copyOne (copyOne d b) a).get p := by
  by_cases hb : p = b.dst
  · subst hb
    rw [get_copyOne_self, get_copyOne_ne _ a _ (Ne.symm h), get_copyOne_self]
  · by_cases ha : p = a.dst
    · subst ha
      rw [get_copyOne_ne _ b _ hb, get_copyOne_self, get_copyOne_self]
    · rw [get_copyOne_ne _ b _ hb, get_copyOne_ne _ a _ ha, get_copyOne_ne _ a _ ha, get_copyOne_ne _ b _ hb]

theorem foldl_copyOne_perm {ts ts' : List Task} (hp : ts.Perm ts') (hn : (ts.map (·.dst)).Nodup)
    (d : Store) (p : Str) : (ts.foldl copyOne d).get p = (ts'.foldl copyOne d).get p := by
  have hn' : (ts'.map (·.dst)).Nodup := (hp.map _).nodup_iff.mp hn
  by_cases h : ∃ t ∈ ts, t.dst = p
  · obtain ⟨t, ht, rfl⟩ := h
    rw [foldl_copyOne_task ts d t hn ht, foldl_copyOne_task ts' d t hn' (hp.mem_iff.mp ht)]
  · have h1 : ∀ t ∈ ts, t.dst ≠ p := fun t ht heq => h ⟨t, ht, heq⟩
    have h2 : ∀ t ∈ ts', t.dst ≠ p := fun t ht heq => h ⟨t, hp.mem_iff.mpr ht, heq⟩
    rw [foldl_copyOne_other ts d p h1, foldl_copyOne_other ts' d p h2]

end Fs.BulkLemmas
