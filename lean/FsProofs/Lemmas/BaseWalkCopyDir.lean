/-
  Helper lemmas for FsProofs/BaseWalkLaws.lean, part 4: `copy_dir` (both walks) and `FS.copydir` over the
  primitives of `Ref.step`, source and destination not overlapping.
-/
import FsProofs.Lemmas.BaseWalkCopy
import FsProofs.Lemmas.BaseWalkMerge

namespace Fs.BaseWalkCopyDir
open Fs Fs.Path Fs.Ref Fs.BaseWalk Fs.TreeLemmas Fs.WrapLemmas Fs.BaseWalkPrim Fs.BaseWalkRm Fs.BaseWalkSpec
  Fs.BaseWalkComm Fs.BaseWalkCopy Fs.BaseWalkMerge

/-- the two walks of `copy_dir_if`, after `makedirs(dst)` -/
def phases (fuel : Nat) (a b : Str) (s : State) : State × Out :=
  match structLoop PR a b fuel [a] s with
  | (s4, .ok _) => filesLoop PR a b fuel [a] s4
  | r => r

theorem recNode_isDir {ph : Phase} {S D D1 : Node} (h : recNode ph S D = some D1) : D1.isDir = true := by
  obtain ⟨_, _, _, d2, _, _, _, _, rfl⟩ := recNode_inv h
  rfl

theorem recQ_root (ph : Phase) (S D : Node) (hS : (S.get []).isSome) : recQ ph S [[]] D = recNode ph S D := by
  simp only [recQ, modAt, Node.get, setAt]
  cases recNode ph S D <;> simp [setAt]

theorem state_eta (t : State) (h : t.closed = false) : ({ root := t.root, closed := false } : State) = t := by
  cases t; simp_all

/-- what `copy_dir` of the source entries `es` into the destination directory `b` of `root1` (entries `ds0`)
results in: the structure walk fails on a directory-over-file conflict (`DirectoryExpected`), else the file
walk fails on a file-over-directory conflict (`FileExpected`) — in both cases only the sub-tree at `b` has
changed —, else the destination is the tree-level `recNode .files ∘ recNode .struct` -/
def CopyOutcome (root1 : Node) (b : List Name) (es ds0 : Ents) (r : State × Out) : Prop :=
  match recNode .struct (.dir es) (.dir ds0) with
  | none => ∃ D', r = ({ root := setAt root1 b D', closed := false }, .err .DirectoryExpected)
  | some D1 =>
    match recNode .files (.dir es) D1 with
    | none => ∃ D', r = ({ root := setAt root1 b D', closed := false }, .err .FileExpected)
    | some D2 => r = ({ root := setAt root1 b D2, closed := false }, .ok .unit)

/-- both walks, from a state in which the source `a` is the directory `es` and the destination `b` is the
directory `ds0`, `a` and `b` not overlapping: the tree-level description, phase by phase -/
theorem phases_ref (fuel : Nat) (t : State) (G : GoodS t) (a b : List Name) (ha : CleanN a) (hb : CleanN b)
    (inc : Inc a b) (es ds0 : Ents) (hga : t.root.get a = some (.dir es)) (hgb : t.root.get b = some (.dir ds0))
    (hf : (Node.dir es).count < fuel) :
    match recNode .struct (.dir es) (.dir ds0) with
    | none => ∃ D', phases fuel (absOf a) (absOf b) t = ({ root := setAt t.root b D', closed := false }, .err .DirectoryExpected)
    | some D1 =>
      match recNode .files (.dir es) D1 with
      | none => ∃ D', phases fuel (absOf a) (absOf b) t = ({ root := setAt t.root b D', closed := false }, .err .FileExpected)
      | some D2 => phases fuel (absOf a) (absOf b) t = ({ root := setAt t.root b D2, closed := false }, .ok .unit) := by
  let C : Ctx := { root0 := t.root, a := a, b := b, S := .dir es, hdir := G.dir, hwf := G.wf, ha := ha, hb := hb,
                   inc := inc, hS := hga, hB := by simp [hgb] }
  have hwe : entsWf es = true := entsWf_of_get G.wf hga
  have hwd : entsWf ds0 = true := entsWf_of_get G.wf hgb
  have ht : C.st (.dir ds0) = t := by
    show ({ root := setAt t.root b (.dir ds0), closed := false } : State) = t
    rw [setAt_self _ _ _ hgb]; exact state_eta t G.opn
  have hq : [absOf a] = ([[]] : List (List Name)).map (fun r => absOf (C.a ++ r)) := by simp [C]
  have hcount : qCount C.S [[]] < fuel := by simpa [qCount, subCount, C, Node.get] using hf
  have h1 := walk_ref C .struct _ (visitSpec_struct C) fuel [[]] (.dir ds0) (by simpa [Node.wf] using hwd) rfl
    (by intro r hr; simp at hr; subst hr; exact ⟨es, rfl⟩)
    (by intro r hr; simp at hr; subst hr; exact ⟨ds0, rfl⟩)
    (by simp) hcount
  rw [recQ_root _ _ _ (by simp [C, Node.get]), ht, ← hq] at h1
  unfold phases
  change match recNode .struct (.dir es) (.dir ds0) with | none => _ | some D1 => _
  cases hst : recNode .struct (.dir es) (.dir ds0) with
  | none =>
    rw [show recNode .struct C.S (.dir ds0) = none from hst] at h1
    obtain ⟨D', hD'⟩ := h1
    refine ⟨D', ?_⟩
    show (match structLoop PR (absOf a) (absOf b) fuel [absOf a] t with
      | (s4, .ok _) => filesLoop PR (absOf a) (absOf b) fuel [absOf a] s4 | r => r) = _
    rw [show structLoop PR (absOf a) (absOf b) fuel [absOf a] t = (C.st D', .err .DirectoryExpected) from hD']
    rfl
  | some D1 =>
    rw [show recNode .struct C.S (.dir ds0) = some D1 from hst] at h1
    simp only at h1
    have hD1w : D1.wf = true := recNode_wf .struct _ _ D1 (by simpa [Node.wf] using hwe) (by simpa [Node.wf] using hwd) hst
    have hD1d : D1.isDir = true := recNode_isDir hst
    have hcov : Cov C.S D1 [] := struct_cov (.dir es) _ D1 (by simpa [Node.wf] using hwe) (by simpa [Node.wf] using hwd) hst
    have h2 := walk_ref C .files _ (visitSpec_files C) fuel [[]] D1 hD1w hD1d
      (by intro r hr; simp at hr; subst hr; exact ⟨es, rfl⟩)
      (by intro r hr; simp at hr; subst hr; exact hcov)
      (by simp) hcount
    rw [recQ_root _ _ _ (by simp [C, Node.get]), ← hq] at h2
    have hs1 : structLoop PR (absOf a) (absOf b) fuel [absOf a] t = (C.st D1, .ok .unit) := h1
    simp only
    cases hfl : recNode .files (.dir es) D1 with
    | none =>
      rw [show recNode .files C.S D1 = none from hfl] at h2
      obtain ⟨D', hD'⟩ := h2
      refine ⟨D', ?_⟩
      rw [hs1]
      exact hD'
    | some D2 =>
      rw [show recNode .files C.S D1 = some D2 from hfl] at h2
      simp only
      rw [hs1]
      exact h2


/-- `mkdirs` leaves alone whatever exists off the path it creates -/
theorem mkdirs_keep : ∀ (cs pre q : List Name) (t n : Node), t.get q = some n → ¬ q <+: pre ++ cs →
    (mkdirs pre cs t).get q = some n
  | [], _, _, _, _, hq, _ => by simpa [mkdirs] using hq
  | c :: cs, pre, q, t, n, hq, hnp => by
    simp only [mkdirs]
    have e : pre ++ c :: cs = (pre ++ [c]) ++ cs := by simp
    apply mkdirs_keep cs (pre ++ [c]) q _ n _ (by rw [← e]; exact hnp)
    split
    · next hnone =>
      rw [get_set_diverge _ _ _ _ ?_ ?_]; exact hq
      · intro hp
        obtain ⟨x, hx⟩ := get_prefix_exists hp hq
        rw [hnone] at hx; cases hx
      · intro hp
        exact hnp (hp.trans (by rw [e]; exact List.prefix_append _ _))
    · exact hq

/-- `copy_dir` on clean absolute paths: `makedirs(dst, recreate=True)`, then the two walks -/
theorem copyDir_unfold (fuel : Nat) (t : State) (G : GoodS t) (a b : List Name) (ha : CleanN a) (hb : CleanN b)
    (hab : ¬ a <+: b) :
    copyDir PR fuel t (absOf a) (absOf b) =
      match step1 t b (.makedirs (absOf b) true) with
      | (s3, .ok _) => phases fuel (absOf a) (absOf b) s3
      | r => r := by
  have hv1 : PR.validatepath t (absOf a) = (t, .ok (absOf a)) := validateOf_ref_absOf _ G.opn ha
  have hv2 : PR.validatepath t (absOf b) = (t, .ok (absOf b)) := validateOf_ref_absOf _ G.opn hb
  have hmk : PR.makedirs t (absOf b) = step1 t b (.makedirs (absOf b) true) := by
    show Ref.step t (.makedirs _ true) = _
    exact ref_one _ G.opn _ hb rfl (by intro q m e; cases e)
  simp only [copyDir, normRes_absOf ha, normRes_absOf hb, hv1, hv2, isbase_absOf_false ha hb hab,
    Bool.false_eq_true, if_false, hmk, phases]
  rcases step1 t b (.makedirs (absOf b) true) with ⟨s3, v | e⟩
  · simp only
    rcases structLoop PR (absOf a) (absOf b) fuel [absOf a] s3 with ⟨s4, _ | _⟩ <;> rfl
  · rfl


/-! ### `FS.copydir`: the argument checks -/

theorem exists_ref (t : State) (G : GoodS t) {cs : List Name} (h : CleanN cs) :
    PR.exists_ t (absOf cs) = (t, .ok (.bool (t.root.get cs).isSome)) := by
  show Ref.step t (.exists_ (absOf cs)) = _
  rw [ref_one _ G.opn _ h rfl (by intro q m e; cases e)]; rfl

theorem getinfo_ref (t : State) (G : GoodS t) {cs : List Name} (h : CleanN cs) :
    PR.getinfo t (absOf cs) = match t.root.get cs with
      | none => (t, .err .ResourceNotFound)
      | some (.file b) => (t, .ok (.info (lastName cs) false b.length))
      | some (.dir _) => (t, .ok (.info (lastName cs) true 0)) := by
  show Ref.step t (.getinfo (absOf cs)) = _
  rw [ref_one _ G.opn _ h rfl (by intro q m e; cases e)]
  simp only [step1]
  rcases t.root.get cs with _ | ⟨_ | _⟩ <;> rfl

/-- `FS.copydir` over the reference's primitives on paths that validate, the destination not inside the
source: the checks in the order of the code, then `copy_dir` -/
theorem copydir_checks (fuel : Nat) (t : State) (G : GoodS t) (p q : Str) (create : Bool) (a b : List Name)
    (hva : validate p = .ok a) (hvb : validate q = .ok b) (hab : ¬ a <+: b) :
    copydir PR fuel t p q create =
      if !create && (t.root.get b).isNone then (t, .err .ResourceNotFound)
      else match t.root.get a with
        | none => (t, .err .ResourceNotFound)
        | some (.file _) => (t, .err .DirectoryExpected)
        | some (.dir _) => copyDir PR fuel t (absOf a) (absOf b) := by
  have ha : CleanN a := TreeLemmas.validate_clean p a hva
  have hb : CleanN b := TreeLemmas.validate_clean q b hvb
  have hv1 : PR.validatepath t p = (t, .ok (absOf a)) := by
    show validateOf Ref.step t p = _
    rw [validateOf_ref t G.opn, hva]
  have hv2 : PR.validatepath t q = (t, .ok (absOf b)) := by
    show validateOf Ref.step t q = _
    rw [validateOf_ref t G.opn, hvb]
  simp only [copydir, hv1, hv2, isbase_absOf_false ha hb hab, Bool.false_eq_true, if_false, exists_ref t G hb,
    getinfo_ref t G ha]
  cases create <;> rcases hgb : t.root.get b with _ | nb <;> rcases hga : t.root.get a with _ | ⟨_ | _⟩ <;>
    simp [whenExists, whenDir, exists_ref t G hb, getinfo_ref t G ha, hga, hgb]


theorem phases_outcome (fuel : Nat) (t : State) (G : GoodS t) (a b : List Name) (ha : CleanN a) (hb : CleanN b)
    (inc : Inc a b) (es ds0 : Ents) (hga : t.root.get a = some (.dir es)) (hgb : t.root.get b = some (.dir ds0))
    (hf : (Node.dir es).count < fuel) : CopyOutcome t.root b es ds0 (phases fuel (absOf a) (absOf b) t) :=
  phases_ref fuel t G a b ha hb inc es ds0 hga hgb hf

/-- **A.** source a directory, destination an existing directory -/
theorem copydir_existing (fuel : Nat) (t : State) (G : GoodS t) (p q : Str) (create : Bool) (a b : List Name)
    (hva : validate p = .ok a) (hvb : validate q = .ok b) (inc : Inc a b) (es ds : Ents)
    (hga : t.root.get a = some (.dir es)) (hgb : t.root.get b = some (.dir ds)) (hf : (Node.dir es).count < fuel) :
    CopyOutcome t.root b es ds (copydir PR fuel t p q create) := by
  have ha : CleanN a := TreeLemmas.validate_clean p a hva
  have hb : CleanN b := TreeLemmas.validate_clean q b hvb
  rw [copydir_checks fuel t G p q create a b hva hvb inc.1, hga, hgb, copyDir_unfold fuel t G a b ha hb inc.1]
  have hnb : blockedByFile t.root [] b = false := MemLemmas.not_blocked_of_get t.root _ [] b (by simpa using hgb)
  simp only [Option.isNone_some, Bool.and_false, Bool.false_eq_true, if_false, step1, hnb, hgb, if_true, done]
  exact phases_outcome fuel t G a b ha hb inc es ds hga hgb hf

/-- **B.** source a directory, destination missing and created (`create=True`, no file in the way) -/
theorem copydir_created (fuel : Nat) (t : State) (G : GoodS t) (p q : Str) (a b : List Name)
    (hva : validate p = .ok a) (hvb : validate q = .ok b) (inc : Inc a b) (es : Ents)
    (hga : t.root.get a = some (.dir es)) (hgb : t.root.get b = none) (hnb : blockedByFile t.root [] b = false)
    (hf : (Node.dir es).count < fuel) :
    CopyOutcome (mkdirs [] b t.root) b es [] (copydir PR fuel t p q true) := by
  have ha : CleanN a := TreeLemmas.validate_clean p a hva
  have hb : CleanN b := TreeLemmas.validate_clean q b hvb
  rw [copydir_checks fuel t G p q true a b hva hvb inc.1, hga, copyDir_unfold fuel t G a b ha hb inc.1]
  simp only [Bool.not_true, Bool.false_and, Bool.false_eq_true, if_false, step1, hnb, hgb, upd]
  have G1 : GoodS { t with root := mkdirs [] b t.root } :=
    ⟨G.opn, by rw [TreeLemmas.isDir_mkdirs]; exact G.dir, TreeLemmas.mkdirs_wf _ _ _ (by simpa [CleanN] using hb) G.wf⟩
  have hga1 : (mkdirs [] b t.root).get a = some (.dir es) := mkdirs_keep b [] a _ _ hga (by simpa using inc.1)
  have hgb1 : (mkdirs [] b t.root).get b = some (.dir []) :=
    MemLemmas.mkdirs_new_get t (absOf b) b G.opn (validate_absOf hb) G.dir hnb hgb
  exact phases_outcome fuel _ G1 a b ha hb inc es [] hga1 hgb1 hf

/-- **C.** every other case: the call fails in its argument checks / in `makedirs`, exactly as the
reference does — the same class, nothing changed -/
theorem copydir_rejected (fuel : Nat) (t : State) (G : GoodS t) (p q : Str) (create : Bool) (a b : List Name)
    (hva : validate p = .ok a) (hvb : validate q = .ok b) (hab : ¬ a <+: b)
    (hno : ¬ ((∃ es, t.root.get a = some (.dir es)) ∧
      ((∃ ds, t.root.get b = some (.dir ds)) ∨ (t.root.get b = none ∧ create = true ∧ blockedByFile t.root [] b = false)))) :
    copydir PR fuel t p q create = step2 t a b (.copydir p q create) := by
  have ha : CleanN a := TreeLemmas.validate_clean p a hva
  have hb : CleanN b := TreeLemmas.validate_clean q b hvb
  have hip : isPrefix a b = false := by
    rw [Bool.eq_false_iff]; intro h; exact hab ((TreeLemmas.isPrefix_iff a b).1 h)
  rw [copydir_checks fuel t G p q create a b hva hvb hab]
  simp only [step2, hip, Bool.false_eq_true, if_false]
  rcases hga : t.root.get a with _ | ⟨fa | es⟩
  · cases create <;> rcases hgb : t.root.get b with _ | ⟨fb | ds⟩ <;> simp [fail]
  · cases create <;> rcases hgb : t.root.get b with _ | ⟨fb | ds⟩ <;> simp [fail]
  · rcases hgb : t.root.get b with _ | ⟨fb | ds⟩
    · cases create
      · simp [fail]
      · cases hbl : blockedByFile t.root [] b
        · exact absurd ⟨⟨es, hga⟩, Or.inr ⟨hgb, rfl, hbl⟩⟩ hno
        · simp [fail, copyDir_unfold fuel t G a b ha hb hab, step1, hbl]
    · have hbl : blockedByFile t.root [] b = false := MemLemmas.not_blocked_of_get t.root _ [] b (by simpa using hgb)
      cases create <;> simp [fail, copyDir_unfold fuel t G a b ha hb hab, step1, hbl, hgb]
    · exact absurd ⟨⟨es, hga⟩, Or.inl ⟨ds, hgb⟩⟩ hno

end Fs.BaseWalkCopyDir
