import FsProofs.Lemmas.RegexParseItems
import FsProofs.Lemmas.GlobGenLemmas

namespace Fs.RegexParseLemmas
open Fs Fs.Regex Fs.GlobLemmas Fs.GlobGenLemmas

/-! ### the pieces of `component.split("**")` contain no `**` -/

theorem splitSS_head (r : Str) : ∃ h t, Glob.splitSS r = h :: t ∧ (h = [] ∨ h.head? = r.head?) := by
  match r with
  | [] => exact ⟨[], [], rfl, Or.inl rfl⟩
  | [x] =>
    refine ⟨[x], [], ?_, Or.inr rfl⟩
    simp [Glob.splitSS]
  | x :: y :: r' =>
    by_cases hxy : x = '*' ∧ y = '*'
    · obtain ⟨rfl, rfl⟩ := hxy
      exact ⟨[], Glob.splitSS r', by rw [Glob.splitSS], Or.inl rfl⟩
    · rw [splitSS_cons x y r' hxy]
      cases hs : Glob.splitSS (y :: r') with
      | nil => exact ⟨[x], [], rfl, Or.inr rfl⟩
      | cons h t => exact ⟨x :: h, t, rfl, Or.inr rfl⟩

theorem splitSS_noSS_aux : ∀ (n : Nat) (c : Str), c.length ≤ n → ∀ p ∈ Glob.splitSS c, Glob.hasSS p = false := by
  intro n
  induction n with
  | zero =>
    intro c hc p hp
    cases c with
    | nil => simp [Glob.splitSS] at hp; subst hp; rfl
    | cons x r => simp at hc
  | succ n ih =>
    intro c hc p hp
    match c with
    | [] => simp [Glob.splitSS] at hp; subst hp; rfl
    | [x] =>
      have : Glob.splitSS [x] = [[x]] := by simp [Glob.splitSS]
      rw [this] at hp; simp at hp; subst hp
      simp [Glob.hasSS]
    | x :: y :: r' =>
      by_cases hxy : x = '*' ∧ y = '*'
      · obtain ⟨rfl, rfl⟩ := hxy
        have : Glob.splitSS ('*' :: '*' :: r') = [] :: Glob.splitSS r' := by rw [Glob.splitSS]
        rw [this] at hp
        rcases List.mem_cons.1 hp with rfl | hp
        · rfl
        · exact ih r' (by simp at hc; omega) p hp
      · rw [splitSS_cons x y r' hxy] at hp
        obtain ⟨h, t, hs, hh⟩ := splitSS_head (y :: r')
        rw [hs] at hp
        simp only [List.mem_cons] at hp
        have ihy := ih (y :: r') (by simp at hc ⊢; omega)
        rcases hp with rfl | hp
        · have hhs : Glob.hasSS h = false := ihy h (by rw [hs]; simp)
          cases h with
          | nil => simp [Glob.hasSS]
          | cons z h' =>
            rcases hh with hh | hh
            · cases hh
            · simp at hh; subst hh
              rw [hasSS_cons x z h' hxy]; exact hhs
        · exact ihy p (by rw [hs]; simp [hp])

theorem splitSS_noSS (c : Str) : ∀ p ∈ Glob.splitSS c, Glob.hasSS p = false :=
  splitSS_noSS_aux c.length c (Nat.le_refl _)


/-! ### a component of the glob pattern -/

/-- a text that the parser reads as `res`, whatever follows (as long as it does not start with a quantifier) -/
def Piece (fT : TR Str) (res : TR (List Item)) : Prop :=
  ∀ r, NoQ r → ∃ T, fT = .ok T ∧ NoQ (T ++ r) ∧ ParsesTo T r res

theorem piece_translate (p : Str) (h : Glob.hasSS p = false) : Piece (Glob.translateText p) (Glob.translate p) := by
  intro r hr
  exact glob_parse_go p 0 r h hr

/-- `".*/?".join(texts)` / `joinItems [anyRun, optSlash]` over pieces without `**` -/
theorem piece_join (L : List Str) (hL : L ≠ []) (h : ∀ p ∈ L, Glob.hasSS p = false) :
    Piece ((Glob.mapM' Glob.translateText L).map fun l => Glob.joinStr ".*/?".toList l)
      ((Glob.mapM' Glob.translate L).map fun l => Glob.joinItems [Glob.anyRun, Glob.optSlash] l) := by
  induction L with
  | nil => contradiction
  | cons a rest ih =>
    intro r hr
    cases rest with
    | nil =>
      obtain ⟨T, hT, hn, hp⟩ := piece_translate a (h a (by simp)) r hr
      refine ⟨T, by simp [Glob.mapM', hT, TR.map, Glob.joinStr], hn, ?_⟩
      simp only [Glob.mapM']
      cases hg : Glob.translate a with
      | err e => rw [hg] at hp; exact hp
      | ok ia => rw [hg] at hp; simpa [TR.map, Glob.joinItems] using hp
    | cons b rest' =>
      obtain ⟨T2, hT2, hn2, hp2⟩ := ih (by simp) (fun p hp => h p (by simp [hp])) r hr
      -- the separator `.*/?` in front of the rest
      have hsep : NoQ (".*/?".toList ++ (T2 ++ r)) := noq_cons '.' _ (by decide)
      have hpsep : ParsesTo ".*/?".toList (T2 ++ r) (.ok [Glob.anyRun, Glob.optSlash]) := by
        refine ⟨by simp, ?_⟩
        intro m acc
        show parseItems (m + 1 + 1) ('.' :: '*' :: '/' :: '?' :: (T2 ++ r)) acc = _
        rw [pg_anyrun _ _ _ (noq_cons '/' _ (by decide)), pg_optslash _ _ _ hn2]
        rfl
      obtain ⟨T1, hT1, hn1, hp1⟩ := piece_translate a (h a (by simp)) (".*/?".toList ++ (T2 ++ r)) hsep
      cases hm : Glob.mapM' Glob.translateText (b :: rest') with
      | err e => rw [hm] at hT2; cases hT2
      | ok texts =>
        rw [hm] at hT2
        simp only [TR.map, TR.ok.injEq] at hT2
        refine ⟨T1 ++ (".*/?".toList ++ T2), ?_, ?_, ?_⟩
        · rw [mapM'_cons, hT1, hm]
          cases texts with
          | nil => simp [Glob.mapM'] at hm; cases hb : Glob.translateText b <;> rw [hb] at hm <;>
              (try cases hm) <;> (cases hr' : Glob.mapM' Glob.translateText rest' <;> rw [hr'] at hm <;> cases hm)
          | cons t ts => simp [TR.map, Glob.joinStr, ← hT2]
        · simpa [List.append_assoc] using hn1
        · have h12 := parsesTo_append T1 (".*/?".toList ++ T2) r (Glob.translate a)
            (seqRes (.ok [Glob.anyRun, Glob.optSlash])
              ((Glob.mapM' Glob.translate (b :: rest')).map fun l => Glob.joinItems [Glob.anyRun, Glob.optSlash] l))
            (by simpa [List.append_assoc] using hp1)
            (parsesTo_append ".*/?".toList T2 r _ _ hpsep hp2)
          rw [mapM'_cons]
          cases hga : Glob.translate a with
          | err e => rw [hga] at h12; simpa [TR.map, seqRes] using h12
          | ok ia =>
            rw [hga] at h12
            cases hgm : Glob.mapM' Glob.translate (b :: rest') with
            | err e => rw [hgm] at h12; simpa [TR.map, Glob.consL, seqRes] using h12
            | ok ls =>
              rw [hgm] at h12
              cases ls with
              | nil =>
                simp [Glob.mapM'] at hgm
                cases hb : Glob.translate b <;> rw [hb] at hgm <;> (try cases hgm) <;>
                  (cases hr' : Glob.mapM' Glob.translate rest' <;> rw [hr'] at hgm <;> cases hgm)
              | cons l ls' => simpa [TR.map, Glob.consL, Glob.joinItems, List.append_assoc, seqRes] using h12


theorem splitSS_ne_nil (c : Str) : Glob.splitSS c ≠ [] := by
  obtain ⟨h, t, hs, _⟩ := splitSS_head c
  rw [hs]; simp

/-- one component of the pattern as `_translate_glob` renders it -/
theorem piece_comp (c : Str) : Piece (Glob.compText c) (Glob.compItems c) := by
  intro r hr
  unfold Glob.compText Glob.compItems
  by_cases h1 : c = ['*', '*']
  · simp only [h1, if_true]
    refine ⟨_, rfl, noq_cons '(' _ (by decide), by simp, ?_⟩
    intro m acc
    exact pg_group m r acc hr
  · simp only [h1, if_false]
    by_cases h2 : Glob.hasSS c = true
    · simp only [h2, if_true]
      obtain ⟨T, hT, hn, hp⟩ := piece_join (Glob.splitSS c) (splitSS_ne_nil c) (splitSS_noSS c) r hr
      cases hm : Glob.mapM' Glob.translateText (Glob.splitSS c) with
      | err e => rw [hm] at hT; cases hT
      | ok texts =>
        rw [hm] at hT
        simp only [TR.map, TR.ok.injEq] at hT
        refine ⟨"/?".toList ++ T, by simp only [TR.map, ← hT], noq_cons '/' _ (by decide), ?_⟩
        have hopt : ParsesTo "/?".toList (T ++ r) (.ok [Glob.optSlash]) := by
          refine ⟨by simp, ?_⟩
          intro m acc
          exact pg_optslash m _ acc hn
        have := parsesTo_append "/?".toList T r (.ok [Glob.optSlash])
          ((Glob.mapM' Glob.translate (Glob.splitSS c)).map fun l => Glob.joinItems [Glob.anyRun, Glob.optSlash] l)
          hopt hp
        cases hg : Glob.mapM' Glob.translate (Glob.splitSS c) with
        | err e => rw [hg] at this; simpa [seqRes, Glob.consL, TR.map] using this
        | ok ls => rw [hg] at this; simpa [seqRes, Glob.consL, TR.map] using this
    · have h2' : Glob.hasSS c = false := by simpa using h2
      simp only [h2', Bool.false_eq_true, if_false]
      obtain ⟨T, hT, hn, hp⟩ := piece_translate c h2' r hr
      refine ⟨'/' :: T, by simp [Glob.tappend, hT, TR.map], noq_cons '/' _ (by decide), ?_⟩
      have hs : ParsesTo ['/'] (T ++ r) (.ok [Glob.slash |> fun a => Item.one a]) := by
        refine ⟨by simp, ?_⟩
        intro m acc
        exact pg_slash m _ acc hn
      have := parsesTo_append ['/'] T r (.ok [Item.one Glob.slash]) (Glob.translate c) hs hp
      cases hg : Glob.translate c with
      | err e => rw [hg] at this; simpa [seqRes, Glob.consL, TR.map, Wild.cons] using this
      | ok its => rw [hg] at this; simpa [seqRes, Glob.consL, TR.map, Wild.cons] using this

/-- all components: `"".join(re_patterns)` / `pieces.flatten` -/
theorem piece_comps (L : List Str) :
    Piece ((Glob.mapM' Glob.compText L).map List.flatten) ((Glob.mapM' Glob.compItems L).map List.flatten) := by
  induction L with
  | nil =>
    intro r hr
    exact ⟨[], rfl, by simpa using hr, parsesTo_nil r⟩
  | cons a rest ih =>
    intro r hr
    obtain ⟨T2, hT2, hn2, hp2⟩ := ih r hr
    obtain ⟨T1, hT1, hn1, hp1⟩ := piece_comp a (T2 ++ r) hn2
    cases hm : Glob.mapM' Glob.compText rest with
    | err e => rw [hm] at hT2; cases hT2
    | ok texts =>
      rw [hm] at hT2
      simp only [TR.map, TR.ok.injEq] at hT2
      refine ⟨T1 ++ T2, by simp [mapM'_cons, hT1, hm, TR.map, hT2], by simpa [List.append_assoc] using hn1, ?_⟩
      have := parsesTo_append T1 T2 r (Glob.compItems a) ((Glob.mapM' Glob.compItems rest).map List.flatten) hp1 hp2
      rw [mapM'_cons]
      cases hga : Glob.compItems a with
      | err e => rw [hga] at this; simpa [seqRes, TR.map] using this
      | ok ia =>
        rw [hga] at this
        cases hgm : Glob.mapM' Glob.compItems rest with
        | err e => rw [hgm] at this; simpa [seqRes, TR.map, Glob.consL] using this
        | ok ls => rw [hgm] at this; simpa [seqRes, TR.map, Glob.consL] using this


theorem parseInline_s (rest : Str) : parseInline ("(?s)".toList ++ rest) = .ok (['s'], rest) := by
  show parseInline ('(' :: '?' :: 's' :: ')' :: rest) = _
  simp [parseInline, List.takeWhile]

/-- **Parsing the regex text `_translate_glob` builds gives exactly the compiled pattern of the hand model**
(same `levels`, same `recursive`, same AST — or the same exception), for every pattern and both case modes. -/
theorem glob_parse_text (pat : Str) (cs : Bool) :
    Glob.translateGlobViaText pat cs = Glob.translateGlob pat cs := by
  unfold Glob.translateGlobViaText Glob.translateGlobText Glob.translateGlob
  cases hi : Glob.liftRes (Path.iteratepath pat) with
  | err e => rfl
  | ok comps =>
    simp only
    -- the tail of the text and of the item list
    have htail : ∃ (tail : Str) (tailItems : List Item),
        (if Path.endsWithSlash pat = true then "/\\Z".toList else "/?\\Z".toList) = tail ∧
        (if Path.endsWithSlash pat = true then [Item.one Glob.slash, Item.endZ] else [Glob.optSlash, Item.endZ]) = tailItems ∧
        NoQ tail ∧ 3 ≤ tail.length ∧
        ∀ m acc, parseItems (m + 3) tail acc = .ok (acc.reverse ++ tailItems) := by
      by_cases he : Path.endsWithSlash pat = true
      · refine ⟨"/\\Z".toList, [Item.one Glob.slash, Item.endZ], by simp [he], by simp [he],
          noq_cons '/' _ (by decide), by simp, ?_⟩
        intro m acc
        show parseItems (m + 2 + 1) ('/' :: '\\' :: 'Z' :: []) acc = _
        rw [pg_slash _ _ _ (noq_cons '\\' _ (by decide)), pi_endZ, pi_nil]
        simp
      · refine ⟨"/?\\Z".toList, [Glob.optSlash, Item.endZ], by simp [he], by simp [he],
          noq_cons '/' _ (by decide), by simp, ?_⟩
        intro m acc
        show parseItems (m + 2 + 1) ('/' :: '?' :: '\\' :: 'Z' :: []) acc = _
        rw [pg_optslash _ _ _ (noq_cons '\\' _ (by decide)), pi_endZ, pi_nil]
        simp
    obtain ⟨tail, tailItems, ht, hti, hnq, hlen, hparse⟩ := htail
    rw [ht, hti]
    obtain ⟨T, hT, hn, hp⟩ := piece_comps comps tail hnq
    cases hm : Glob.mapM' Glob.compText comps with
    | err e => rw [hm] at hT; cases hT
    | ok pieces =>
      rw [hm] at hT
      simp only [TR.map, TR.ok.injEq] at hT
      simp only [Regex.parse, List.append_assoc]
      have hbol : ∀ f, parseItems (f + 1) ("^".toList ++ (pieces.flatten ++ tail)) [] =
          parseItems f (T ++ tail) [Item.bol] := by
        intro f
        show parseItems (f + 1) ('^' :: (pieces.flatten ++ tail)) [] = _
        rw [pi_bol, hT]
      have hl : ("^".toList ++ (pieces.flatten ++ tail)).length + 1 = (T.length + tail.length + 1) + 1 := by
        rw [hT]
        show (['^'] ++ (T ++ tail)).length + 1 = _
        simp only [List.length_append, List.length_cons, List.length_nil]; omega
      rw [show "(?s)^".toList ++ (pieces.flatten ++ tail) = "(?s)".toList ++ ("^".toList ++ (pieces.flatten ++ tail)) from rfl,
        parseInline_s]
      simp only
      rw [hl, hbol]
      cases hg : Glob.mapM' Glob.compItems comps with
      | err e =>
        rw [hg] at hp
        simp only [TR.map] at hp
        rw [hp _ _ (by omega)]
      | ok ps =>
        rw [hg] at hp
        simp only [TR.map] at hp
        obtain ⟨hle, hp⟩ := hp
        have hm' : T.length + tail.length + 1 = ((T.length - ps.flatten.length) + (tail.length - 3) + 1 + 3) + ps.flatten.length := by
          omega
        rw [hm', hp, hparse]
        simp

end Fs.RegexParseLemmas
