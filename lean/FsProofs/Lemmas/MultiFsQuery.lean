/-
  Helper lemmas for `MultiRefines.multi_queries_refine_overlay`: queries on ANY stack of good,
  type-consistent layers answer what the reference answers on the overlay.
-/
import FsProofs.Lemmas.MultiFsOverlay
import FsProofs.Lemmas.MultiFsSingle

namespace Fs.MultiFsLemmas
open Fs Fs.Ref Fs.MultiFs Fs.WrapRefines Fs.MemRefines

/-- an open, non-empty stack of good layers that agree on the type of every path -/
structure GoodStack (s : MState State) : Prop where
  opn : s.closed = false
  ne : s.layers ≠ []
  good : AllGood s
  cons : Consistent s

/-- the refinement statement for a query: nothing changes; the reference's answer on the overlay, or
both fail and the class is admissible for the overlay -/
def QSim (s : MState State) (op : Op) (r : MState State × Out) : Prop :=
  r.1 = s ∧ (r.2 = (Ref.step (overlay s) op).2 ∨
    ∃ e e', (Ref.step (overlay s) op).2 = .err e ∧ r.2 = .err e' ∧ e' ∈ adm (overlay s) op)

section
variable {s : MState State}

theorem order_ne_nil (G : GoodStack s) : order s ≠ [] := by
  intro h
  have := (order_perm s).length_eq
  rw [h] at this
  simp only [List.length_nil, List.length_range] at this
  exact G.ne (List.eq_nil_of_length_eq_zero this.symm)

theorem overlay_open (G : GoodStack s) : (overlay s).closed = false := G.opn

theorem overNode_dir_isDir (es : Ents) (rest : Option Node) : ∃ es', overNode (.dir es) rest = .dir es' := by
  cases rest with
  | none => exact ⟨es, by simp [overNode]⟩
  | some m => cases m <;> simp [overNode]

/-- the operations whose answer depends only on the type (and, for a file, the bytes) of the node at
the path -/
def pointOp : Op → Bool
  | .isdir _ | .isfile _ | .getsize _ | .gettype _ | .readbytes _ | .openbin _ _ | .exists_ _ | .getinfo _ => true
  | _ => false

/-- answer and admissible classes of a point query depend only on the type / bytes of the node -/
theorem step1_point_congr (op : Op) (hq : pointOp op = true) (t1 t2 : State) (cs : List Name) (n : Node)
    (rest : Option Node) (h1 : t1.root.get cs = some n) (h2 : t2.root.get cs = some (overNode n rest)) :
    (step1 t1 cs op).2 = (step1 t2 cs op).2 ∧ adm1 t1.root cs op = adm1 t2.root cs op := by
  have hb1 := MemLemmas.not_blocked_of_get t1.root n [] cs (by simpa using h1)
  have hb2 := MemLemmas.not_blocked_of_get t2.root _ [] cs (by simpa using h2)
  cases n with
  | file b =>
    rw [overNode_file] at h2
    cases op <;> simp only [pointOp, Bool.false_eq_true] at hq
    case openbin p m =>
      by_cases hne : cs = []
      · subst hne; simp [step1, adm1, admFileArg, admFileTarget, kindAt, h1, h2, hb1, hb2]
        cases parseBinMode m <;> simp [fail]
      · obtain ⟨e1, hp1⟩ := TreeLemmas.get_parent_dir hne h1
        obtain ⟨e2, hp2⟩ := TreeLemmas.get_parent_dir hne h2
        have hp1' : t1.root.get (parentOf cs) = some (.dir e1) := hp1
        have hp2' : t2.root.get (parentOf cs) = some (.dir e2) := hp2
        simp only [step1, adm1, admFileArg, admFileTarget, kindAt, h1, h2, hb1, hb2, hne, hp1', hp2']
        cases parseBinMode m with
        | none => simp [fail]
        | some md => simp only; cases md.exclusive <;> cases md.truncate <;> simp [fail, upd, done]
    all_goals simp [step1, adm1, admFileArg, kindAt, h1, h2, hb1, hb2, done]
  | dir es =>
    obtain ⟨es', he⟩ := overNode_dir_isDir es rest
    rw [he] at h2
    cases op <;> simp only [pointOp, Bool.false_eq_true] at hq
    case openbin p m =>
      by_cases hne : cs = []
      · subst hne; simp [step1, adm1, admFileArg, admFileTarget, kindAt, h1, h2, hb1, hb2]
        cases parseBinMode m <;> simp [fail]
      · obtain ⟨e1, hp1⟩ := TreeLemmas.get_parent_dir hne h1
        obtain ⟨e2, hp2⟩ := TreeLemmas.get_parent_dir hne h2
        have hp1' : t1.root.get (parentOf cs) = some (.dir e1) := hp1
        have hp2' : t2.root.get (parentOf cs) = some (.dir e2) := hp2
        simp only [step1, adm1, admFileArg, admFileTarget, kindAt, h1, h2, hb1, hb2, hne, hp1', hp2']
        cases parseBinMode m <;> simp [fail]
    all_goals simp [step1, adm1, admFileArg, kindAt, h1, h2, hb1, hb2, done, fail]

/-- a point query handed to the first layer that has the path (`g`: how the reference's answer is obtained
from `step1` once the path has validated — the identity, or the mode check of `openbin`) -/
theorem stack_point_found (F : FS State) (hF : RefinesRef F) (G : GoodStack s) (op : Op)
    (hq : pointOp op = true) (hqs : RouteSpec.isQuery op = true) (hb : bulk op = false)
    (cs : List Name) (g : Out → Out)
    (hred : ∀ t : State, t.closed = false → (Ref.step t op).2 = g (step1 t cs op).2)
    (hadm : ∀ t : State, t.closed = false → adm t op = adm1 t.root cs op)
    (i : Nat) (hf : (order s).find? (hasAt s cs) = some i) :
    QSim s op (callLayer F s i op) := by
  obtain ⟨l, n, hl, hn⟩ := find_hasAt hf
  have Gl : Good l.st := G.good l (List.mem_of_getElem? hl)
  obtain ⟨rest, hov⟩ := overlay_get_some s G.cons G.ne cs i hf l n hl hn
  obtain ⟨hout, hadm1⟩ := step1_point_congr op hq l.st (overlay s) cs n rest hn hov
  have hrl := hred l.st Gl.opn
  have hro := hred (overlay s) (overlay_open G)
  have hal := hadm l.st Gl.opn
  have hao := hadm (overlay s) (overlay_open G)
  rcases callLayer_cases F hF s G.good i l hl op hb with ⟨_, h⟩ | ⟨e, e', hr, h, ha⟩
  · rw [h, RouteLemmas.step_query_state l.st op hqs, set_self _ _ _ hl]
    exact ⟨rfl, Or.inl (by rw [hrl, hro, hout])⟩
  · rw [h]
    refine ⟨rfl, Or.inr ⟨e, e', ?_, rfl, ?_⟩⟩
    · rw [hro, ← hout, ← hrl, hr]
    · rw [hao, ← hadm1, ← hal]; exact ha

/-- `_delegate(path)` then the same query on that layer -/
theorem stack_onDelegate (F : FS State) (hF : RefinesRef F) (G : GoodStack s) (op : Op) (p : Str)
    (hp : op.paths = [p]) (hno : ∀ q m, op ≠ .openbin q m) (hq : pointOp op = true)
    (hqs : RouteSpec.isQuery op = true) (hb : bulk op = false) (onNone : Out)
    (hmiss : ∀ cs, validate p = .ok cs → (overlay s).root.get cs = none →
      step1 (overlay s) cs op = (overlay s, onNone)) :
    QSim s op (onDelegate F s p op onNone) := by
  rw [onDelegate_eq F hF s G.good p op onNone]
  have hro := ref_one (overlay s) (overlay_open G) op p hp hno
  cases hv : validate p with
  | err e =>
    simp only [order_ne_nil G, if_false]
    exact ⟨rfl, Or.inl (by rw [hro, hv])⟩
  | ok cs =>
    simp only
    cases hf : (order s).find? (hasAt s cs) with
    | none =>
      simp only
      refine ⟨rfl, Or.inl ?_⟩
      rw [hro, hv]
      simp only
      rw [hmiss cs hv (overlay_get_none s G.cons G.ne cs hf)]
    | some i =>
      exact stack_point_found F hF G op hq hqs hb cs id
        (fun t ht => by rw [ref_one t ht op p hp hno, hv]; rfl)
        (fun t ht => by rw [QueryLemmas.adm_one t op p ht hp hno, hv]) i hf

theorem stack_exists (F : FS State) (hF : RefinesRef F) (G : GoodStack s) (p : Str) :
    QSim s (.exists_ p) (existsM F s p) := by
  rw [existsM_eq F hF s G.good p]
  refine ⟨rfl, Or.inl ?_⟩
  rw [ref_exists (overlay s) (overlay_open G)]
  cases hv : validate p with
  | err e => simp [order_ne_nil G]
  | ok cs =>
    simp only [anyHas]
    cases hf : (order s).find? (hasAt s cs) with
    | none => simp [overlay_get_none s G.cons G.ne cs hf]
    | some i =>
      obtain ⟨l, n, hl, hn⟩ := find_hasAt hf
      obtain ⟨rest, hov⟩ := overlay_get_some s G.cons G.ne cs i hf l n hl hn
      simp [hov]

theorem stack_getinfo (F : FS State) (hF : RefinesRef F) (G : GoodStack s) (p : Str) :
    QSim s (.getinfo p) (getinfoM F s p) := by
  have hro := ref_one (overlay s) (overlay_open G) (.getinfo p) p rfl (by intro q m h; cases h)
  cases hv : validate p with
  | err e =>
    rw [getinfoM_eq F hF s G.good p, hv]
    simp only [order_ne_nil G, if_false]
    exact ⟨rfl, Or.inl (by rw [hro, hv])⟩
  | ok cs =>
    cases hf : (order s).find? (hasAt s cs) with
    | none =>
      rw [getinfoM_eq F hF s G.good p, hv]
      simp only [hf]
      refine ⟨rfl, Or.inl ?_⟩
      rw [hro, hv]; simp [step1, overlay_get_none s G.cons G.ne cs hf, fail]
    | some i =>
      obtain ⟨l, n, hl, hn⟩ := find_hasAt hf
      obtain ⟨rest, hov⟩ := overlay_get_some s G.cons G.ne cs i hf l n hl hn
      rw [getinfoM_has F hF s G.good p cs hv i hf l n hl hn]
      refine ⟨rfl, Or.inl ?_⟩
      rw [hro, hv]
      cases n with
      | file b => rw [overNode_file] at hov; simp [step1, hov, done]
      | dir es =>
        obtain ⟨es', he⟩ := overNode_dir_isDir es rest
        rw [he] at hov; simp [step1, hov, done]

/-- `openbin` in a mode that cannot write (the read side of `MultiFS.openbin`) -/
theorem stack_openbin_read (F : FS State) (hF : RefinesRef F) (G : GoodStack s) (p m : Str)
    (hcw : Route.checkWritable m = false) :
    QSim s (.openbin p m) (openbinM F s p m) := by
  unfold openbinM
  have hro := ref_openbin (overlay s) (overlay_open G) p m
  have hqs : RouteSpec.isQuery (.openbin p m) = true := by
    simp only [RouteSpec.isQuery]; rw [show (m.contains 'w' || m.contains 'a' || m.contains '+' || m.contains 'x') = false from hcw]; rfl
  cases hmo : Route.modeOk m with
  | false =>
    simp only [Bool.not_false, if_true]
    refine ⟨rfl, Or.inl ?_⟩
    rw [hro, parse_none_of_not_modeOk m hmo]; rfl
  | true =>
    simp only [Bool.not_true, Bool.false_eq_true, if_false, hcw]
    rw [onDelegate_eq F hF s G.good p _ _]
    have hadm := QueryLemmas.adm_openbin (overlay s) p m (overlay_open G)
    cases hv : validate p with
    | err e =>
      simp only [order_ne_nil G, if_false]
      rw [hv] at hadm
      cases hpm : parseBinMode m with
      | none =>
        refine ⟨rfl, Or.inr ⟨.ValueError, e, ?_, rfl, ?_⟩⟩
        · rw [hro, hpm]; rfl
        · rw [hadm, hpm]; simp
      | some md => exact ⟨rfl, Or.inl (by rw [hro, hpm, hv]; rfl)⟩
    | ok cs =>
      simp only
      rw [hv] at hadm
      cases hf : (order s).find? (hasAt s cs) with
      | some i =>
        exact stack_point_found F hF G _ rfl hqs rfl cs
          (fun o => if (parseBinMode m).isNone then .err .ValueError else o)
          (fun t ht => by
            rw [ref_openbin t ht p m, hv]
            cases (parseBinMode m).isNone <;> rfl)
          (fun t ht => by rw [QueryLemmas.adm_openbin t p m ht, hv]) i hf
      | none =>
        simp only
        have hget := overlay_get_none s G.cons G.ne cs hf
        cases hpm : parseBinMode m with
        | none =>
          refine ⟨rfl, Or.inr ⟨.ValueError, .ResourceNotFound, ?_, rfl, ?_⟩⟩
          · rw [hro, hpm]; rfl
          · rw [hadm]; simp [adm1, hpm, admFileArg, kindAt, hget]
        | some md =>
          refine ⟨rfl, Or.inl ?_⟩
          rw [hro, hpm, hv]
          simp only [Option.isNone_some, Bool.false_eq_true, if_false]
          have hq : (m.contains 'w' || m.contains 'a' || m.contains '+' || m.contains 'x') = false := hcw
          rw [step1_openbin_missing (overlay s) cs p m md hpm (RouteLemmas.parse_readonly m md hpm hq).1 hget]

end

end Fs.MultiFsLemmas
