import FsModel.Mem
import FsProofs.Lemmas.TreeLemmas
import FsProofs.Lemmas.QueryLemmas
namespace Fs.MemLemmas
open Fs Fs.Ref Fs.TreeLemmas
set_option linter.unusedSimpArgs false
set_option linter.unusedSectionVars false

/-! ### basics -/

theorem vpath_open (s : State) (p : Str) (hc : s.closed = false) : Mem.vpath s p = validate p := by
  simp [Mem.vpath, hc]

theorem split_last (cs : List Name) (hne : cs ≠ []) :
    cs.dropLast ++ [cs.getLast?.getD []] = cs := by
  rw [List.getLast?_eq_some_getLast hne]
  exact List.dropLast_concat_getLast hne

theorem last_mem (cs : List Name) (hne : cs ≠ []) : cs.getLast?.getD [] ∈ cs := by
  rw [List.getLast?_eq_some_getLast hne]
  exact List.getLast_mem hne

theorem clean_ne_nil {c : Name} (h : cleanName c = true) : c ≠ [] := by
  intro e; subst e; simp [cleanName] at h

theorem last_ne_nil (cs : List Name) (hne : cs ≠ []) (hcl : ∀ c ∈ cs, cleanName c = true) :
    cs.getLast?.getD [] ≠ [] :=
  clean_ne_nil (hcl _ (last_mem cs hne))

/-- the node at a non-root path, through the entry list of its parent directory -/
theorem get_split (t : Node) (cs : List Name) (hne : cs ≠ []) :
    t.get cs = match t.get cs.dropLast with
      | some (.dir es) => Ents.lookup (cs.getLast?.getD []) es
      | _ => none := by
  conv => lhs; rw [← split_last cs hne]
  rw [get_append]
  cases h : t.get cs.dropLast with
  | none => rfl
  | some n =>
    cases n with
    | file b => simp [Node.get]
    | dir es => simp [QueryLemmas.get_single_dir]

theorem lookup_unclean (k : Name) (es : Ents) (hw : entsWf es = true) (hk : cleanName k = false) :
    Ents.lookup k es = none := by
  induction es with
  | nil => rfl
  | cons e es ih =>
    obtain ⟨k', v⟩ := e
    simp only [entsWf, Bool.and_eq_true] at hw
    by_cases h : k' = k
    · subst h; rw [hk] at hw; simp at hw
    · simp [Ents.lookup, h, ih hw.2]

theorem lookup_nil (es : Ents) (hw : entsWf es = true) : Ents.lookup [] es = none :=
  lookup_unclean [] es hw (by simp [cleanName])

theorem root_dir {t : Node} (hd : t.isDir = true) : ∃ es, t = .dir es := by
  cases t with
  | dir es => exact ⟨es, rfl⟩
  | file b => simp [Node.isDir] at hd

/-! ### entry lists: more algebra -/

theorem put_put (c : Name) (v w : Node) (es : Ents) :
    Ents.put c w (Ents.put c v es) = Ents.put c w es := by
  induction es with
  | nil => simp [Ents.put]
  | cons e es ih =>
    obtain ⟨k, x⟩ := e
    by_cases h : k = c <;> simp [Ents.put, h, ih]

theorem put_erase_comm (x y : Name) (v : Node) (es : Ents) (h : x ≠ y) :
    Ents.put y v (Ents.erase x es) = Ents.erase x (Ents.put y v es) := by
  induction es with
  | nil => simp [Ents.put, Ents.erase, Ne.symm h]
  | cons e es ih =>
    obtain ⟨k, w⟩ := e
    by_cases hx : k = x
    · subst hx
      simp [Ents.put, Ents.erase, h]
    · by_cases hy : k = y
      · subst hy
        simp [Ents.put, Ents.erase, hx]
      · simp [Ents.put, Ents.erase, hx, hy, ih]

theorem put_put_comm (x y : Name) (n v : Node) (es : Ents) (h : x ≠ y)
    (hx : (Ents.lookup x es).isSome = true) :
    Ents.put x n (Ents.put y v es) = Ents.put y v (Ents.put x n es) := by
  induction es with
  | nil => simp [Ents.lookup] at hx
  | cons e es ih =>
    obtain ⟨k, w⟩ := e
    by_cases hkx : k = x
    · subst hkx
      simp [Ents.put, h]
    · by_cases hky : k = y
      · subst hky
        simp [Ents.put, hkx]
      · simp only [Ents.lookup, hkx, if_false] at hx
        simp [Ents.put, hkx, hky, ih hx]

/-! ### set / del: more algebra -/

theorem set_set (cs : List Name) (t v w : Node) : (t.set cs v).set cs w = t.set cs w := by
  fun_induction Node.set cs t v with
  | case1 n v => rfl
  | case2 c es v => simp [Node.set, put_put]
  | case3 c d cs es v ch hl ih =>
    simp only [Node.set, lookup_put_same, hl, ih, put_put]
  | case4 c d cs es v hl => rfl
  | case5 c cs b v => rfl

/-! ### one call, operation by operation -/

/-- the situations of a component path in a tree -/
inductive Sit (t : Node) (cs : List Name) : Prop
  | root : cs = [] → Sit t cs
  | noParent : cs ≠ [] → t.get cs.dropLast = none → t.get cs = none → Sit t cs
  | fileParent (b : Bytes) : cs ≠ [] → t.get cs.dropLast = some (.file b) → t.get cs = none → Sit t cs
  | missing (es : Ents) : cs ≠ [] → t.get cs.dropLast = some (.dir es) →
      Ents.lookup (cs.getLast?.getD []) es = none → t.get cs = none → Sit t cs
  | present (es : Ents) (n : Node) : cs ≠ [] → t.get cs.dropLast = some (.dir es) →
      Ents.lookup (cs.getLast?.getD []) es = some n → t.get cs = some n → Sit t cs

theorem sit (t : Node) (cs : List Name) : Sit t cs := by
  by_cases hne : cs = []
  · exact .root hne
  · have hg := get_split t cs hne
    cases hp : t.get cs.dropLast with
    | none => simp only [hp] at hg; exact .noParent hne hp hg
    | some n =>
      cases n with
      | file b => simp only [hp] at hg; exact .fileParent b hne hp hg
      | dir es =>
        simp only [hp] at hg
        cases hl : Ents.lookup (cs.getLast?.getD []) es with
        | none => rw [hl] at hg; exact .missing es hne hp hl hg
        | some n => rw [hl] at hg; exact .present es n hne hp hl hg

theorem mode_rb : parseBinMode ['r', 'b'] = some ⟨true, false, false, false, false, false⟩ := by decide
theorem mode_wb : parseBinMode ['w', 'b'] = some ⟨false, true, true, true, false, false⟩ := by decide
theorem mode_ab : parseBinMode ['a', 'b'] = some ⟨false, true, true, false, false, true⟩ := by decide

theorem parse_facts (mode : Str) (m : Mode) (h : parseBinMode mode = some m) :
    (m.exclusive = true → m.create = true) ∧ (m.truncate = true → m.create = true) := by
  unfold parseBinMode at h
  split at h
  · cases h
  · split at h
    · cases h
    · split at h
      · cases h
      · split at h
        · cases h
        · split at h
          · cases h
          · split at h
            · cases h
            · simp only [Option.some.injEq] at h
              subst h
              simp only [Bool.or_eq_true]
              constructor
              · intro h; exact Or.inr h
              · rintro (h | h)
                · exact Or.inl (Or.inr h)
                · exact Or.inr h

section
variable (s : State) (p : Str) (cs : List Name) (hc : s.closed = false) (hv : validate p = .ok cs)
  (hd : s.root.isDir = true) (hwf : s.root.wf = true)
include hc hv

theorem mem_listdir_eq :
    Mem.listdir s p = match s.root.get cs with
      | none => .err .ResourceNotFound
      | some (.file _) => .err .DirectoryExpected
      | some (.dir es) => .ok (Ents.names es) := by
  simp only [Mem.listdir, vpath_open _ _ hc, hv]
  cases h : s.root.get cs with
  | none => rfl
  | some n => cases n <;> rfl

theorem mem_getinfo_eq :
    Mem.getinfo s p = match s.root.get cs with
      | none => .err .ResourceNotFound
      | some (.dir _) => .ok (lastName cs, true, 0)
      | some (.file b) => .ok (lastName cs, false, b.length) := by
  simp only [Mem.getinfo, vpath_open _ _ hc, hv]
  cases h : s.root.get cs with
  | none => rfl
  | some n => cases n <;> rfl

theorem mem_exists_eq : Mem.exists_ s p = .ok (s.root.get cs).isSome := by
  simp only [Mem.exists_, mem_getinfo_eq s p cs hc hv]
  cases h : s.root.get cs with
  | none => rfl
  | some n => cases n <;> rfl

theorem mem_exists : Mem.step s (.exists_ p) = step1 s cs (.exists_ p) := by
  simp only [Mem.step, Mem.exists_, mem_getinfo_eq s p cs hc hv, step1]
  cases h : s.root.get cs with
  | none => rfl
  | some n => cases n <;> rfl

theorem mem_isdir : Mem.step s (.isdir p) = step1 s cs (.isdir p) := by
  simp only [Mem.step, Mem.isdir, mem_getinfo_eq s p cs hc hv, step1]
  cases h : s.root.get cs with
  | none => rfl
  | some n => cases n <;> rfl

theorem mem_isfile : Mem.step s (.isfile p) = step1 s cs (.isfile p) := by
  simp only [Mem.step, Mem.isfile, mem_getinfo_eq s p cs hc hv, step1]
  cases h : s.root.get cs with
  | none => rfl
  | some n => cases n <;> rfl

theorem mem_getsize : Mem.step s (.getsize p) = step1 s cs (.getsize p) := by
  simp only [Mem.step, mem_getinfo_eq s p cs hc hv, step1]
  cases h : s.root.get cs with
  | none => rfl
  | some n => cases n <;> rfl

theorem mem_gettype : Mem.step s (.gettype p) = step1 s cs (.gettype p) := by
  simp only [Mem.step, mem_getinfo_eq s p cs hc hv, step1]
  cases h : s.root.get cs with
  | none => rfl
  | some n => cases n <;> rfl

theorem mem_getinfo : Mem.step s (.getinfo p) = step1 s cs (.getinfo p) := by
  simp only [Mem.step, mem_getinfo_eq s p cs hc hv, step1]
  cases h : s.root.get cs with
  | none => rfl
  | some n => cases n <;> rfl

theorem mem_listdir : Mem.step s (.listdir p) = step1 s cs (.listdir p) := by
  simp only [Mem.step, mem_listdir_eq s p cs hc hv, step1]
  cases h : s.root.get cs with
  | none => rfl
  | some n => cases n <;> rfl

theorem mem_isempty : Mem.step s (.isempty p) = step1 s cs (.isempty p) := by
  simp only [Mem.step, Mem.isempty, mem_listdir_eq s p cs hc hv, step1]
  cases h : s.root.get cs with
  | none => rfl
  | some n => cases n <;> simp [Mem.liftRes, Ents.names, done, fail]

theorem mem_settimes : Mem.step s (.settimes p) = step1 s cs (.settimes p) := by
  simp [Mem.step, Mem.setinfo, vpath_open _ _ hc, hv, step1]

theorem mem_makedir (r : Bool) : Mem.step s (.makedir p r) = step1 s cs (.makedir p r) := by
  simp only [Mem.step, Mem.makedir, vpath_open _ _ hc, hv, step1, Mem.splitc, parentOf]
  rcases sit s.root cs with h | ⟨hne, hp, hg⟩ | ⟨b, hne, hp, hg⟩ | ⟨es, hne, hp, hl, hg⟩ | ⟨es, n, hne, hp, hl, hg⟩
  · simp [h]
  · simp [hne, hp, hg]
  · simp [hne, hp, hg]
  · simp [hne, hp, hg, hl]
  · cases n <;> cases r <;> simp [hne, hp, hg, hl]


/-- the code agrees with the reference: same result, or both fail and the code's class is one
of the listed (truthful) ones -/
def Agree (A : List Err) (s : State) (m r : State × Out) : Prop :=
  m = r ∨ ∃ e e', m = (s, .err e) ∧ r.2 = .err e' ∧ e ∈ A


include hd hwf

theorem mem_remove :
    Agree (adm1 s.root cs (.remove p)) s (Mem.step s (.remove p)) (step1 s cs (.remove p)) := by
  have hcl := validate_clean p cs hv
  simp only [Mem.step, Mem.remove, vpath_open _ _ hc, hv, step1, Mem.splitc, Mem.contains, Mem.isDirAt]
  rcases sit s.root cs with h | ⟨hne, hp, hg⟩ | ⟨b, hne, hp, hg⟩ | ⟨es, hne, hp, hl, hg⟩ | ⟨es, n, hne, hp, hl, hg⟩
  · subst h
    obtain ⟨es, hr⟩ := root_dir hd
    have hl := lookup_nil es (by simpa [hr, Node.wf] using hwf)
    right
    refine ⟨.ResourceNotFound, .FileExpected, ?_, ?_, ?_⟩
    · simp [hr, Node.get, hl, fail]
    · simp [fail]
    · simp [adm1, admFileArg]
  · left; simp [hne, hp, hg]
  · left; simp [hne, hp, hg]
  · left; simp [hne, hp, hg, hl]
  · left; cases n <;> simp [hne, hp, hg, hl]


theorem mem_removetree : Mem.step s (.removetree p) = step1 s cs (.removetree p) := by
  simp only [Mem.step, Mem.removetree, vpath_open _ _ hc, hv, step1, Mem.splitc, Mem.contains, Mem.isDirAt]
  rcases sit s.root cs with h | ⟨hne, hp, hg⟩ | ⟨b, hne, hp, hg⟩ | ⟨es, hne, hp, hl, hg⟩ | ⟨es, n, hne, hp, hl, hg⟩
  · simp [h]
  · simp [hne, hp, hg]
  · simp [hne, hp, hg]
  · simp [hne, hp, hg, hl]
  · cases n <;> simp [hne, hp, hg, hl]

theorem mem_removedir : Mem.step s (.removedir p) = step1 s cs (.removedir p) := by
  simp only [Mem.step, Mem.removedir, Mem.isempty, mem_listdir_eq s p cs hc hv, Mem.removetree,
    vpath_open _ _ hc, hv, step1, Mem.splitc, Mem.contains, Mem.isDirAt]
  rcases sit s.root cs with h | ⟨hne, hp, hg⟩ | ⟨b, hne, hp, hg⟩ | ⟨es, hne, hp, hl, hg⟩ | ⟨es, n, hne, hp, hl, hg⟩
  · simp [h]
  · simp [hne, hp, hg]
  · simp [hne, hp, hg]
  · simp [hne, hp, hg, hl]
  · rcases n with b | ds
    · simp [hne, hp, hg, hl]
    · cases ds <;> simp [hne, hp, hg, hl, Ents.names]

theorem mem_readbytes : Mem.step s (.readbytes p) = step1 s cs (.readbytes p) := by
  have hcl := validate_clean p cs hv
  simp only [Mem.step, Mem.readbytes, Mem.openbin, mode_rb, vpath_open _ _ hc, hv, step1, Mem.splitc]
  rcases sit s.root cs with h | ⟨hne, hp, hg⟩ | ⟨b, hne, hp, hg⟩ | ⟨es, hne, hp, hl, hg⟩ | ⟨es, n, hne, hp, hl, hg⟩
  · subst h
    obtain ⟨es, hr⟩ := root_dir hd
    simp [hr, Node.get]
  · simp [last_ne_nil cs hne hcl, hp, hg]
  · simp [last_ne_nil cs hne hcl, hp, hg]
  · simp [last_ne_nil cs hne hcl, hp, hg, hl]
  · cases n <;> simp [last_ne_nil cs hne hcl, hp, hg, hl, done]

theorem mem_writebytes (d : Bytes) : Mem.step s (.writebytes p d) = step1 s cs (.writebytes p d) := by
  have hcl := validate_clean p cs hv
  simp only [Mem.step, Mem.writebytes, Mem.openbin, mode_wb, vpath_open _ _ hc, hv, step1, Mem.splitc,
    writeFile, parentOf]
  rcases sit s.root cs with h | ⟨hne, hp, hg⟩ | ⟨b, hne, hp, hg⟩ | ⟨es, hne, hp, hl, hg⟩ | ⟨es, n, hne, hp, hl, hg⟩
  · subst h
    simp
  · simp [last_ne_nil cs hne hcl, hne, hp, hg]
  · simp [last_ne_nil cs hne hcl, hne, hp, hg]
  · simp [last_ne_nil cs hne hcl, hne, hp, hg, hl, upd, set_set]
  · cases n <;> simp [last_ne_nil cs hne hcl, hne, hp, hg, hl, upd, set_set]

theorem mem_appendbytes (d : Bytes) : Mem.step s (.appendbytes p d) = step1 s cs (.appendbytes p d) := by
  have hcl := validate_clean p cs hv
  simp only [Mem.step, Mem.appendbytes, Mem.openbin, mode_ab, vpath_open _ _ hc, hv, step1, Mem.splitc,
    writeFile, parentOf]
  rcases sit s.root cs with h | ⟨hne, hp, hg⟩ | ⟨b, hne, hp, hg⟩ | ⟨es, hne, hp, hl, hg⟩ | ⟨es, n, hne, hp, hl, hg⟩
  · subst h
    simp
  · simp [last_ne_nil cs hne hcl, hne, hp, hg]
  · simp [last_ne_nil cs hne hcl, hne, hp, hg]
  · simp [last_ne_nil cs hne hcl, hne, hp, hg, hl, upd, set_set, get_set_same cs s.root _ es hne hp]
  · cases n <;> simp [last_ne_nil cs hne hcl, hne, hp, hg, hl, upd, set_set]

theorem mem_create (w : Bool) : Mem.step s (.create p w) = step1 s cs (.create p w) := by
  have hcl := validate_clean p cs hv
  simp only [Mem.step, Mem.create, mem_exists_eq s p cs hc hv, Mem.openbin, mode_wb, vpath_open _ _ hc, hv,
    step1, Mem.splitc, writeFile, parentOf]
  rcases sit s.root cs with h | ⟨hne, hp, hg⟩ | ⟨b, hne, hp, hg⟩ | ⟨es, hne, hp, hl, hg⟩ | ⟨es, n, hne, hp, hl, hg⟩
  · subst h
    cases w <;> simp [Node.get]
  · cases w <;> simp [last_ne_nil cs hne hcl, hne, hp, hg]
  · cases w <;> simp [last_ne_nil cs hne hcl, hne, hp, hg]
  · cases w <;> simp [last_ne_nil cs hne hcl, hne, hp, hg, hl, upd, done]
  · cases n <;> cases w <;> simp [last_ne_nil cs hne hcl, hne, hp, hg, hl, upd, done]

theorem mem_touch : Mem.step s (.touch p) = step1 s cs (.touch p) := by
  have hcl := validate_clean p cs hv
  simp only [Mem.step, Mem.touch, Mem.create, mem_exists_eq s p cs hc hv, Mem.openbin, mode_wb, Mem.setinfo,
    vpath_open _ _ hc, hv, step1, Mem.splitc, writeFile, parentOf]
  rcases sit s.root cs with h | ⟨hne, hp, hg⟩ | ⟨b, hne, hp, hg⟩ | ⟨es, hne, hp, hl, hg⟩ | ⟨es, n, hne, hp, hl, hg⟩
  · subst h
    simp [Node.get, done, vpath_open _ _ hc, hv]
  · simp [last_ne_nil cs hne hcl, hne, hp, hg, fail]
  · simp [last_ne_nil cs hne hcl, hne, hp, hg, fail]
  · simp [last_ne_nil cs hne hcl, hne, hp, hg, hl, upd, done]
  · simp [last_ne_nil cs hne hcl, hne, hp, hg, hl, upd, done, vpath_open _ _ hc, hv]


theorem mem_openbin (mode : Str) (m : Mode) (hm : parseBinMode mode = some m) :
    Agree (adm1 s.root cs (.openbin p mode)) s (Mem.step s (.openbin p mode))
      (step1 s cs (.openbin p mode)) := by
  have hcl := validate_clean p cs hv
  obtain ⟨hf1, hf2⟩ := parse_facts mode m hm
  simp only [Mem.step, Mem.openbin, hm, vpath_open _ _ hc, hv, step1, Mem.splitc, parentOf]
  rcases sit s.root cs with h | ⟨hne, hp, hg⟩ | ⟨b, hne, hp, hg⟩ | ⟨es, hne, hp, hl, hg⟩ | ⟨es, n, hne, hp, hl, hg⟩
  · subst h
    left; simp
  · left; simp [last_ne_nil cs hne hcl, hne, hp, hg]
  · left; simp [last_ne_nil cs hne hcl, hne, hp, hg]
  · left
    cases hcr : m.create <;> simp [last_ne_nil cs hne hcl, hne, hp, hg, hl, hcr, upd, done]
  · obtain ⟨rd, wr, cr, tr, ex, ap⟩ := m
    simp only at hf1 hf2
    rcases n with b | ds
    · left
      cases cr <;> cases ex <;> cases tr <;> simp_all [last_ne_nil cs hne hcl, upd, done, fail]
    · cases ex
      · left
        cases cr <;> cases tr <;> simp_all [last_ne_nil cs hne hcl, upd, done, fail]
      · right
        have hcr : cr = true := hf1 rfl
        subst hcr
        refine ⟨.FileExists, .FileExpected, ?_, ?_, ?_⟩
        · simp [last_ne_nil cs hne hcl, hne, hp, hg, hl, fail]
        · simp [hne, hp, hg, fail]
        · simp [adm1, hm, kindAt, hg]

end
section
variable (s : State) (sp dp : Str) (a b : List Name) (hc : s.closed = false)
  (hva : validate sp = .ok a) (hvb : validate dp = .ok b)
  (hd : s.root.isDir = true) (hwf : s.root.wf = true)
include hc hva hvb hd hwf

theorem mem_move (o : Bool) :
    Agree (adm2 s.root a b (.move sp dp o)) s (Mem.step s (.move sp dp o))
      (step2 s a b (.move sp dp o)) := by
  have hcla := validate_clean sp a hva
  have hclb := validate_clean dp b hvb
  obtain ⟨res, hr⟩ := root_dir hd
  have hln := lookup_nil res (by simpa [hr, Node.wf] using hwf)
  have hroot : s.root.get [] = some (.dir res) := by simp [hr, Node.get]
  simp only [Mem.step, Mem.move, vpath_open _ _ hc, hva, hvb, step2, Mem.splitc, Mem.contains, parentOf]
  rcases sit s.root a with h | ⟨hne, hp, hg⟩ | ⟨x, hne, hp, hg⟩ | ⟨es, hne, hp, hl, hg⟩ | ⟨es, n, hne, hp, hl, hg⟩
  · subst h
    right
    refine ⟨.ResourceNotFound, .FileExpected, ?_, ?_, ?_⟩
    · simp [hroot, hln, fail]
    · simp [hroot, fail]
    · simp [adm2, admFileArg]
  · left; simp [hne, hp, hg]
  · left; simp [hne, hp, hg]
  · left; simp [hne, hp, hg, hl]
  · rcases n with data | ds
    · rcases sit s.root b with h' | ⟨hne', hp', hg'⟩ | ⟨x', hne', hp', hg'⟩ | ⟨es', hne', hp', hl', hg'⟩ | ⟨es', n', hne', hp', hl', hg'⟩
      · subst h'
        cases o
        · right
          refine ⟨.FileExpected, .DestinationExists, ?_, ?_, ?_⟩
          · simp [hne, hp, hg, hl, hroot, hln, fail]
          · simp [hg, hroot, fail]
          · simp [adm2, admFileTarget, hne]
        · left
          simp [hne, hp, hg, hl, hroot, hln, fail]
      · have hab : a ≠ b := by rintro rfl; rw [hg] at hg'; cases hg'
        left; simp [hne, hp, hg, hl, hne', hp', hg', hab]
      · have hab : a ≠ b := by rintro rfl; rw [hg] at hg'; cases hg'
        left; simp [hne, hp, hg, hl, hne', hp', hg', hab]
      · have hab : a ≠ b := by rintro rfl; rw [hg] at hg'; cases hg'
        left; simp [hne, hp, hg, hl, hne', hp', hg', hl', hab, last_ne_nil b hne' hclb]
      · left
        by_cases hab : a = b
        · subst hab
          cases o <;> simp [hne, hp, hg, hl, fail, done]
        · cases o <;> cases n' <;>
            simp [hne, hp, hg, hl, hne', hp', hg', hl', hab, last_ne_nil b hne' hclb]
    · left; simp [hne, hp, hg, hl]

end

section
variable (s : State) (sp dp : Str) (a b : List Name) (hc : s.closed = false)
  (hva : validate sp = .ok a) (hvb : validate dp = .ok b)
  (hd : s.root.isDir = true) (hwf : s.root.wf = true)
include hc hva hvb hd hwf

theorem mem_copy (o : Bool) :
    Mem.step s (.copy sp dp o) = step2 s a b (.copy sp dp o) := by
  have hcla := validate_clean sp a hva
  have hclb := validate_clean dp b hvb
  obtain ⟨res, hr⟩ := root_dir hd
  have hroot : s.root.get [] = some (.dir res) := by simp [hr, Node.get]
  simp only [Mem.step, Mem.copy, Mem.openbin, mode_rb, mode_wb, vpath_open _ _ hc, hva, hvb, step2,
    Mem.splitc, parentOf]
  by_cases h1 : (!o && (s.root.get b).isSome) = true
  · simp [h1]
  · by_cases hab : a = b
    · simp [h1, hab]
    · simp only [h1, hab, if_false, Bool.false_eq_true]
      rcases sit s.root a with h | ⟨hne, hp, hg⟩ | ⟨x, hne, hp, hg⟩ | ⟨es, hne, hp, hl, hg⟩ | ⟨es, n, hne, hp, hl, hg⟩
      · subst h
        simp [hroot]
      · simp [last_ne_nil a hne hcla, hne, hp, hg]
      · simp [last_ne_nil a hne hcla, hne, hp, hg]
      · simp [last_ne_nil a hne hcla, hne, hp, hg, hl]
      · rcases n with data | ds
        · rcases sit s.root b with h' | ⟨hne', hp', hg'⟩ | ⟨x', hne', hp', hg'⟩ | ⟨es', hne', hp', hl', hg'⟩ | ⟨es', n', hne', hp', hl', hg'⟩
          · subst h'
            simp [last_ne_nil a hne hcla, hne, hp, hg, hl]
          · simp [last_ne_nil a hne hcla, hne, hp, hg, hl, last_ne_nil b hne' hclb, hne', hp', hg']
          · simp [last_ne_nil a hne hcla, hne, hp, hg, hl, last_ne_nil b hne' hclb, hne', hp', hg']
          · simp [last_ne_nil a hne hcla, hne, hp, hg, hl, last_ne_nil b hne' hclb, hne', hp', hg', hl', upd, set_set]
          · cases n' <;>
            simp [last_ne_nil a hne hcla, hne, hp, hg, hl, last_ne_nil b hne' hclb, hne', hp', hg', hl', upd, set_set]
        · simp [last_ne_nil a hne hcla, hne, hp, hg, hl]

end

/-! ### paths that do not interfere -/

/-- deleting at `a` does not change what is read at a path incomparable with `a` -/
theorem get_del_other (a b : List Name) (t : Node) (h1 : ¬ a <+: b) (h2 : ¬ b <+: a) :
    (t.del a).get b = t.get b := by
  fun_induction Node.del a t generalizing b with
  | case1 n => exact absurd List.nil_prefix h1
  | case2 c es =>
    cases b with
    | nil => exact absurd List.nil_prefix h2
    | cons c' bs =>
      have hne : c' ≠ c := by
        rintro rfl; exact h1 (List.cons_prefix_cons.2 ⟨rfl, List.nil_prefix⟩)
      simp only [Node.get, lookup_erase_other _ _ _ hne]
  | case3 c d cs es ch hl ih =>
    cases b with
    | nil => exact absurd List.nil_prefix h2
    | cons c' bs =>
      by_cases hne : c' = c
      · subst hne
        simp only [Node.get, lookup_put_same, hl]
        exact ih bs (fun h => h1 (List.cons_prefix_cons.2 ⟨rfl, h⟩))
          (fun h => h2 (List.cons_prefix_cons.2 ⟨rfl, h⟩))
      · simp only [Node.get, lookup_put_other _ _ _ _ hne]
  | case4 c d cs es hl => rfl
  | case5 c cs b' => rfl

/-- writing at `b` and deleting at `a` commute when neither path is a prefix of the other -/
theorem set_del_comm (a b : List Name) (t v : Node) (h1 : ¬ a <+: b) (h2 : ¬ b <+: a) :
    (t.set b v).del a = (t.del a).set b v := by
  induction a generalizing b t with
  | nil => exact absurd List.nil_prefix h1
  | cons x as ih =>
    cases b with
    | nil => exact absurd List.nil_prefix h2
    | cons y bs =>
      cases t with
      | file d => cases as <;> cases bs <;> simp [Node.set, Node.del]
      | dir es =>
        by_cases hxy : x = y
        · subst hxy
          have h1' : ¬ as <+: bs := fun h => h1 (List.cons_prefix_cons.2 ⟨rfl, h⟩)
          have h2' : ¬ bs <+: as := fun h => h2 (List.cons_prefix_cons.2 ⟨rfl, h⟩)
          cases as with
          | nil => exact absurd List.nil_prefix h1'
          | cons a1 as' =>
            cases bs with
            | nil => exact absurd List.nil_prefix h2'
            | cons b1 bs' =>
              cases hl : Ents.lookup x es with
              | none => simp [Node.set, Node.del, hl]
              | some ch =>
                simp only [Node.set, Node.del, hl, lookup_put_same, put_put]
                rw [ih (b1 :: bs') ch h1' h2']
        · have hyx : y ≠ x := fun h => hxy h.symm
          cases as with
          | nil =>
            cases bs with
            | nil => simp [Node.set, Node.del, put_erase_comm x y v es hxy]
            | cons b1 bs' =>
              cases hl : Ents.lookup y es with
              | none => simp [Node.set, Node.del, hl, lookup_erase_other _ _ _ hyx]
              | some ch =>
                simp [Node.set, Node.del, hl, lookup_erase_other _ _ _ hyx, put_erase_comm x y _ es hxy]
          | cons a1 as' =>
            cases bs with
            | nil =>
              cases hl : Ents.lookup x es with
              | none => simp [Node.set, Node.del, hl, lookup_put_other _ _ _ _ hxy]
              | some ch =>
                simp [Node.set, Node.del, hl, lookup_put_other _ _ _ _ hxy,
                  put_put_comm x y _ v es hxy (by simp [hl])]
            | cons b1 bs' =>
              cases hlx : Ents.lookup x es with
              | none =>
                cases hly : Ents.lookup y es with
                | none => simp [Node.set, Node.del, hlx, hly]
                | some chy =>
                  simp [Node.set, Node.del, hlx, hly, lookup_put_other _ _ _ _ hxy]
              | some chx =>
                cases hly : Ents.lookup y es with
                | none =>
                  simp [Node.set, Node.del, hlx, hly, lookup_put_other _ _ _ _ hyx]
                | some chy =>
                  simp [Node.set, Node.del, hlx, hly, lookup_put_other _ _ _ _ hyx,
                    lookup_put_other _ _ _ _ hxy, put_put_comm x y _ _ es hxy (by simp [hlx])]


section
variable (s : State) (sp dp : Str) (a b : List Name) (hc : s.closed = false)
  (hva : validate sp = .ok a) (hvb : validate dp = .ok b)
  (hd : s.root.isDir = true) (hwf : s.root.wf = true)
include hc hva hvb hd hwf

theorem mem_movedir (c : Bool) (hk : ¬ (b <+: a ∧ a ≠ b)) :
    Mem.step s (.movedir sp dp c) = step2 s a b (.movedir sp dp c) := by
  have hcla := validate_clean sp a hva
  have hclb := validate_clean dp b hvb
  simp only [Mem.step, Mem.movedir, vpath_open _ _ hc, hva, hvb, step2, Mem.splitc, Mem.contains, parentOf]
  by_cases hab : a = b
  · simp [hab]
  · by_cases hpre : isPrefix a b = true
    · simp [hab, hpre]
    · have hnab : ¬ a <+: b := fun h => hpre ((isPrefix_iff a b).2 h)
      have hnba : ¬ b <+: a := fun h => hk ⟨h, hab⟩
      have hane : a ≠ [] := by rintro rfl; exact hnab List.nil_prefix
      have hbne : b ≠ [] := by rintro rfl; exact hnba List.nil_prefix
      simp only [hab, hpre, if_false, Bool.false_eq_true]
      rcases sit s.root a with h | ⟨hne, hp, hg⟩ | ⟨x, hne, hp, hg⟩ | ⟨es, hne, hp, hl, hg⟩ | ⟨es, n, hne, hp, hl, hg⟩
      · exact absurd h hane
      · simp [hp, hg]
      · simp [hp, hg]
      · simp [hp, hg, hl]
      · rcases n with data | ds
        · simp [hp, hg, hl]
        · rcases sit s.root b with h' | ⟨hne', hp', hg'⟩ | ⟨x', hne', hp', hg'⟩ | ⟨es', hne', hp', hl', hg'⟩ | ⟨es', n', hne', hp', hl', hg'⟩
          · exact absurd h' hbne
          · cases c <;> simp [hp, hg, hl, hbne, hp', hg']
          · cases c <;> simp [hp, hg, hl, hbne, hp', hg']
          · cases c <;> simp [hp, hg, hl, hbne, hp', hg', hl']
          · simp only [hp, hg, hl, hbne, hp', hg', hl', Mem.baseMovedir, vpath_open _ _ hc, hva, hvb, hab, hpre,
              Mem.makedir, Mem.splitc, get_del_other a b s.root hnab hnba]
            rcases n' with data' | ds'
            · simp [fail]
            · simp only [Option.isSome_some, Bool.or_true, if_true, Option.isNone_some, Bool.and_false,
                Bool.false_eq_true, if_false, Bool.not_true, done, hg']
              cases hm : mergeEnts ds ds' with
              | none => simp
              | some m => simp [setAt, hbne, set_del_comm a b s.root _ hnab hnba]

end

/-! ### makedirs: the missing intermediate directories -/

theorem snoc_induction {α : Type} {P : List α → Prop} (h0 : P [])
    (hs : ∀ l a, P l → P (l ++ [a])) : ∀ l, P l := by
  have key : ∀ r : List α, P r.reverse := by
    intro r
    induction r with
    | nil => exact h0
    | cons a r ih => rw [List.reverse_cons]; exact hs _ _ ih
  intro l
  have := key l.reverse
  rwa [List.reverse_reverse] at this

/-- the prefixes of `cs`, longest first (the argument of the walk in `get_intermediate_dirs`) -/
def prefixesRev (cs : List Name) : List (List Name) :=
  (List.range (cs.length + 1)).reverse.map fun i => cs.take i

theorem prefixesRev_nil : prefixesRev [] = [[]] := by decide

theorem prefixesRev_snoc (cs : List Name) (c : Name) :
    prefixesRev (cs ++ [c]) = (cs ++ [c]) :: prefixesRev cs := by
  unfold prefixesRev
  have : (cs ++ [c]).length + 1 = (cs.length + 1) + 1 := by simp
  rw [this, List.range_succ, List.reverse_append]
  simp only [List.reverse_cons, List.reverse_nil, List.nil_append, List.cons_append, List.map_cons]
  congr 1
  · have : cs.length + 1 = (cs ++ [c]).length := by simp
    rw [this, List.take_length]
  · apply List.map_congr_left
    intro i hi
    simp only [List.mem_reverse, List.mem_range] at hi
    exact List.take_append_of_le_length (by omega)

theorem go_nil (s : State) (acc : List (List Name)) : Mem.intermediateDirs.go s [] acc = .ok acc := by
  simp [Mem.intermediateDirs.go]

theorem go_cons_none (s : State) (pre : List Name) (rest acc : List (List Name))
    (h : s.root.get pre = none) :
    Mem.intermediateDirs.go s (pre :: rest) acc = Mem.intermediateDirs.go s rest (pre :: acc) := by
  simp [Mem.intermediateDirs.go, h]

theorem go_cons_dir (s : State) (pre : List Name) (rest acc : List (List Name)) (es : Ents)
    (h : s.root.get pre = some (.dir es)) :
    Mem.intermediateDirs.go s (pre :: rest) acc = .ok acc := by
  simp [Mem.intermediateDirs.go, h]

theorem go_cons_file (s : State) (pre : List Name) (rest acc : List (List Name)) (b : Bytes)
    (h : s.root.get pre = some (.file b)) :
    Mem.intermediateDirs.go s (pre :: rest) acc = .err .DirectoryExpected := by
  simp [Mem.intermediateDirs.go, h]

theorem go_acc (s : State) (L acc : List (List Name)) :
    Mem.intermediateDirs.go s L acc = (Mem.intermediateDirs.go s L []).map (· ++ acc) := by
  induction L generalizing acc with
  | nil => simp [go_nil, Res.map]
  | cons pre rest ih =>
    cases h : s.root.get pre with
    | none =>
      rw [go_cons_none s pre rest acc h, go_cons_none s pre rest [] h, ih (pre :: acc), ih [pre]]
      cases Mem.intermediateDirs.go s rest [] <;> simp [Res.map]
    | some n =>
      cases n with
      | file b => rw [go_cons_file s pre rest acc b h, go_cons_file s pre rest [] b h]; rfl
      | dir es => rw [go_cons_dir s pre rest acc es h, go_cons_dir s pre rest [] es h]; rfl

/-- the walk of `get_intermediate_dirs` on the prefixes of `cs` -/
def walk (s : State) (cs : List Name) : Res (List (List Name)) :=
  Mem.intermediateDirs.go s (prefixesRev cs) []

theorem intermediateDirs_eq (s : State) (cs : List Name) :
    Mem.intermediateDirs s cs = (walk s cs).map List.dropLast := by
  unfold Mem.intermediateDirs walk prefixesRev
  cases Mem.intermediateDirs.go s _ [] <;> rfl

theorem walk_nil (s : State) (es : Ents) (h : s.root = .dir es) : walk s [] = .ok [] := by
  rw [walk, prefixesRev_nil, go_cons_dir s [] [] [] es (by simp [h, Node.get])]

theorem walk_snoc_none (s : State) (cs : List Name) (c : Name) (h : s.root.get (cs ++ [c]) = none) :
    walk s (cs ++ [c]) = (walk s cs).map (· ++ [cs ++ [c]]) := by
  rw [walk, prefixesRev_snoc, go_cons_none _ _ _ _ h, go_acc]; rfl

theorem walk_snoc_dir (s : State) (cs : List Name) (c : Name) (es : Ents)
    (h : s.root.get (cs ++ [c]) = some (.dir es)) : walk s (cs ++ [c]) = .ok [] := by
  rw [walk, prefixesRev_snoc, go_cons_dir _ _ _ _ es h]

theorem walk_snoc_file (s : State) (cs : List Name) (c : Name) (b : Bytes)
    (h : s.root.get (cs ++ [c]) = some (.file b)) : walk s (cs ++ [c]) = .err .DirectoryExpected := by
  rw [walk, prefixesRev_snoc, go_cons_file _ _ _ _ b h]

/-! ### mkdirs, from the other end -/

theorem mkdirs_snoc_none (pre cs : List Name) (c : Name) (t : Node)
    (h : (mkdirs pre cs t).get (pre ++ cs ++ [c]) = none) :
    mkdirs pre (cs ++ [c]) t = (mkdirs pre cs t).set (pre ++ cs ++ [c]) (.dir []) := by
  induction cs generalizing pre t with
  | nil =>
    simp only [mkdirs, List.append_nil, List.nil_append] at h ⊢
    simp [h]
  | cons d cs ih =>
    simp only [List.cons_append, mkdirs] at h ⊢
    have e : pre ++ d :: cs ++ [c] = pre ++ [d] ++ cs ++ [c] := by simp
    rw [e] at h ⊢
    exact ih _ _ h

theorem mkdirs_id (pre cs : List Name) (t x : Node) (h : t.get (pre ++ cs) = some x) :
    mkdirs pre cs t = t := by
  induction cs generalizing pre with
  | nil => rfl
  | cons c cs ih =>
    have e : pre ++ c :: cs = pre ++ [c] ++ cs := by simp
    rw [e] at h
    obtain ⟨y, hy⟩ := get_prefix_some _ _ _ _ h
    simp only [mkdirs, hy]
    exact ih _ h

theorem get_set_none (cs q : List Name) (t v : Node) (hv : ∀ c r, v.get (c :: r) = none)
    (hq : t.get q = none) (hne : q ≠ cs) :
    (t.set cs v).get q = none := by
  fun_induction Node.set cs t v generalizing q with
  | case1 n v => exact hq
  | case2 c es v =>
    cases q with
    | nil => simp [Node.get] at hq
    | cons c' qs =>
      by_cases hc : c' = c
      · subst hc
        cases qs with
        | nil => exact absurd rfl hne
        | cons q1 qs => simp only [Node.get, lookup_put_same]; exact hv q1 qs
      · simp only [Node.get, lookup_put_other _ _ _ _ hc] at hq ⊢
        exact hq
  | case3 c d cs es v ch hl ih =>
    cases q with
    | nil => simp [Node.get] at hq
    | cons c' qs =>
      by_cases hc : c' = c
      · subst hc
        simp only [Node.get, hl] at hq
        simp only [Node.get, lookup_put_same]
        exact ih qs hv hq (by rintro rfl; exact hne rfl)
      · simp only [Node.get, lookup_put_other _ _ _ _ hc] at hq ⊢
        exact hq
  | case4 c d cs es v hl => exact hq
  | case5 c cs b v => exact hq

theorem mkdirs_get_none (pre cs q : List Name) (t : Node) (hq : t.get q = none)
    (hlen : (pre ++ cs).length < q.length) : (mkdirs pre cs t).get q = none := by
  induction cs generalizing pre t with
  | nil => exact hq
  | cons c cs ih =>
    simp only [mkdirs]
    apply ih
    · split
      · apply get_set_none _ _ _ _ (by intro c r; simp [Node.get, Ents.lookup]) hq
        rintro rfl
        simp at hlen
      · exact hq
    · simpa using hlen

/-! ### blockedByFile, from the other end -/

def isFileAt (t : Node) (q : List Name) : Bool :=
  match t.get q with
  | some (.file _) => true
  | _ => false

theorem blocked_snoc (t : Node) (pre cs : List Name) (c : Name) :
    blockedByFile t pre (cs ++ [c]) = (blockedByFile t pre cs || isFileAt t (pre ++ cs)) := by
  induction cs generalizing pre with
  | nil =>
    simp only [List.nil_append, blockedByFile, isFileAt, List.append_nil, Bool.false_or]
    cases t.get pre with
    | none => rfl
    | some n => cases n <;> rfl
  | cons d cs ih =>
    simp only [List.cons_append, blockedByFile]
    have e : pre ++ d :: cs = pre ++ [d] ++ cs := by simp
    rw [e, if_neg (by simp), ih]
    cases cs with
    | nil => simp [blockedByFile, isFileAt]
    | cons x xs => simp [Bool.or_assoc]

theorem not_blocked_of_get (t x : Node) (pre cs : List Name) (h : t.get (pre ++ cs) = some x) :
    blockedByFile t pre cs = false := by
  induction cs generalizing pre with
  | nil => simp [blockedByFile]
  | cons c cs ih =>
    obtain ⟨es, he⟩ := get_prefix_dir _ _ _ _ _ h
    have e : pre ++ c :: cs = pre ++ [c] ++ cs := by simp
    rw [e] at h
    simp [blockedByFile, he, ih _ h]


/-! ### what the walk returns -/

def mk (t : Node) (d : List Name) : Node := t.set d (.dir [])

theorem isFileAt_false_of_none {t : Node} {q : List Name} (h : t.get q = none) : isFileAt t q = false := by
  simp [isFileAt, h]

theorem isFileAt_false_of_dir {t : Node} {q : List Name} {es : Ents} (h : t.get q = some (.dir es)) :
    isFileAt t q = false := by
  simp [isFileAt, h]

theorem isFileAt_of_file {t : Node} {q : List Name} {b : Bytes} (h : t.get q = some (.file b)) :
    isFileAt t q = true := by
  simp [isFileAt, h]

theorem walk_spec (s : State) (hd : s.root.isDir = true) : ∀ cs : List Name,
    ((blockedByFile s.root [] cs = true ∨ isFileAt s.root cs = true) →
      walk s cs = .err .DirectoryExpected) ∧
    (∀ es, s.root.get cs = some (.dir es) → walk s cs = .ok []) ∧
    (blockedByFile s.root [] cs = false → s.root.get cs = none →
      ∃ l, walk s cs = .ok (l ++ [cs]) ∧ l.foldl mk s.root = mkdirs [] cs.dropLast s.root ∧
        mkdirs [] cs s.root = (mkdirs [] cs.dropLast s.root).set cs (.dir [])) := by
  obtain ⟨res, hr⟩ := root_dir hd
  apply snoc_induction
  · refine ⟨?_, ?_, ?_⟩
    · simp [blockedByFile, isFileAt, hr, Node.get]
    · intro es _; exact walk_nil s res hr
    · intro _ h; simp [Node.get] at h
  · intro cs' c ⟨iha, ihb, ihc⟩
    have hsnoc := blocked_snoc s.root [] cs' c
    simp only [List.nil_append] at hsnoc
    have hnone : s.root.get (cs' ++ [c]) = none →
        (mkdirs [] cs' s.root).get (cs' ++ [c]) = none := fun h =>
      mkdirs_get_none [] cs' _ s.root h (by simp)
    refine ⟨?_, ?_, ?_⟩
    · intro h
      cases hg : s.root.get (cs' ++ [c]) with
      | none =>
        rw [walk_snoc_none s cs' c hg, iha ?_]
        · rfl
        · rw [hsnoc, isFileAt_false_of_none hg] at h
          simpa using h
      | some n =>
        cases n with
        | file b => exact walk_snoc_file s cs' c b hg
        | dir es =>
          exfalso
          obtain ⟨es', he⟩ := get_prefix_dir cs' c [] s.root _ hg
          have hb := not_blocked_of_get s.root _ [] cs' (by simpa using he)
          rw [hsnoc, hb, isFileAt_false_of_dir he, isFileAt_false_of_dir hg] at h
          simp at h
    · intro es hg; exact walk_snoc_dir s cs' c es hg
    · intro hbl hg
      rw [hsnoc, Bool.or_eq_false_iff] at hbl
      obtain ⟨hbl', hnf⟩ := hbl
      rw [walk_snoc_none s cs' c hg, List.dropLast_concat]
      have h3 : mkdirs [] (cs' ++ [c]) s.root = (mkdirs [] cs' s.root).set (cs' ++ [c]) (.dir []) := by
        have := mkdirs_snoc_none [] cs' c s.root (by simpa using hnone hg)
        simpa using this
      cases hg' : s.root.get cs' with
      | none =>
        obtain ⟨l', h1, h2, h3'⟩ := ihc hbl' hg'
        refine ⟨l' ++ [cs'], ?_, ?_, h3⟩
        · rw [h1]; rfl
        · rw [List.foldl_append, h2, h3']; rfl
      | some n =>
        cases n with
        | file b => rw [isFileAt_of_file hg'] at hnf; cases hnf
        | dir es' =>
          refine ⟨[], ?_, ?_, h3⟩
          · rw [ihb es' hg']; rfl
          · rw [mkdirs_id [] cs' s.root _ (by simpa using hg')]; rfl


section
variable (s : State) (p : Str) (cs : List Name) (hc : s.closed = false) (hv : validate p = .ok cs)
  (hd : s.root.isDir = true) (hwf : s.root.wf = true)
include hc hv hd

theorem makedirs_blocked (r : Bool)
    (hb : blockedByFile s.root [] cs = true ∨ isFileAt s.root cs = true) :
    Mem.makedirs s p r = fail s .DirectoryExpected := by
  simp [Mem.makedirs, hc, hv, intermediateDirs_eq, (walk_spec s hd cs).1 hb, Res.map]

theorem makedirs_dir (r : Bool) (es : Ents) (hg : s.root.get cs = some (.dir es)) :
    Mem.makedirs s p r = if r then done s else fail s .DirectoryExists := by
  obtain ⟨root, closed⟩ := s
  simp only at hc hg hd
  subst hc
  have hw := (walk_spec ⟨root, false⟩ hd cs).2.1 es hg
  have hc0 : (⟨root, false⟩ : State).closed = false := rfl
  simp only [Mem.makedirs, hv, intermediateDirs_eq, hw, Res.map,
    List.dropLast_nil, List.foldl_nil, Bool.false_eq_true, if_false]
  have hmk : Mem.makedir ⟨root, false⟩ p false = fail ⟨root, false⟩ .DirectoryExists := by
    simp only [Mem.makedir, vpath_open ⟨root, false⟩ p hc0, hv, Mem.splitc]
    rcases sit root cs with h | ⟨hne, hp, hg'⟩ | ⟨b, hne, hp, hg'⟩ | ⟨es', hne, hp, hl, hg'⟩ | ⟨es', n, hne, hp, hl, hg'⟩
    · simp [h]
    · rw [hg] at hg'; cases hg'
    · rw [hg] at hg'; cases hg'
    · rw [hg] at hg'; cases hg'
    · simp [hne, hp, hl]
  rw [hmk]
  cases r
  · simp [fail]
  · simp [fail, Mem.opendirCheck, mem_getinfo_eq ⟨root, false⟩ p cs hc0 hv, hg, done]

theorem makedirs_new (r : Bool) (hbl : blockedByFile s.root [] cs = false)
    (hg : s.root.get cs = none) :
    Mem.makedirs s p r = upd s (mkdirs [] cs s.root) := by
  obtain ⟨l, h1, h2, h3⟩ := (walk_spec s hd cs).2.2 hbl hg
  have hne : cs ≠ [] := by rintro rfl; simp [Node.get] at hg
  obtain ⟨res, hr⟩ := root_dir hd
  -- the parent of `cs` after the intermediate directories were made
  have hnf : ∀ b, s.root.get ([] ++ cs.dropLast) ≠ some (.file b) := by
    intro b hb
    have := blocked_snoc s.root [] cs.dropLast (cs.getLast?.getD [])
    rw [split_last cs hne, hbl, isFileAt_of_file (by simpa using hb)] at this
    simp at this
  have hbl' : blockedByFile s.root [] cs.dropLast = false := by
    have := blocked_snoc s.root [] cs.dropLast (cs.getLast?.getD [])
    rw [split_last cs hne, hbl] at this
    simpa using (Bool.or_eq_false_iff.1 this.symm).1
  obtain ⟨es', hpar⟩ := mkdirs_get [] cs.dropLast s.root res (by simp [hr, Node.get]) hbl' hnf
  simp only [List.nil_append] at hpar
  have hnone : (mkdirs [] cs.dropLast s.root).get cs = none :=
    mkdirs_get_none [] cs.dropLast cs s.root hg (by
      simp only [List.nil_append, List.length_dropLast]
      have : cs.length ≠ 0 := by simpa using hne
      omega)
  have hlk : Ents.lookup (cs.getLast?.getD []) es' = none := by
    have := get_split (mkdirs [] cs.dropLast s.root) cs hne
    rw [hnone, hpar] at this
    exact this.symm
  have hfold : List.foldl (fun t d => Node.set d t (Node.dir [])) s.root l =
      mkdirs [] cs.dropLast s.root := h2
  simp only [Mem.makedirs, hc, hv, intermediateDirs_eq, h1, Res.map, List.dropLast_concat, hfold,
    Bool.false_eq_true, if_false]
  simp only [Mem.makedir, Mem.vpath, hc, hv, Mem.splitc, hne, hpar, hlk, if_false, Bool.false_eq_true,
    upd, done, h3]


theorem mkdirs_new_get (hbl : blockedByFile s.root [] cs = false) (hg : s.root.get cs = none) :
    (mkdirs [] cs s.root).get cs = some (.dir []) := by
  obtain ⟨l, h1, h2, h3⟩ := (walk_spec s hd cs).2.2 hbl hg
  have hne : cs ≠ [] := by rintro rfl; simp [Node.get] at hg
  obtain ⟨res, hr⟩ := root_dir hd
  have hnf : ∀ b, s.root.get ([] ++ cs.dropLast) ≠ some (.file b) := by
    intro b hb
    have := blocked_snoc s.root [] cs.dropLast (cs.getLast?.getD [])
    rw [split_last cs hne, hbl, isFileAt_of_file (by simpa using hb)] at this
    simp at this
  have hbl' : blockedByFile s.root [] cs.dropLast = false := by
    have := blocked_snoc s.root [] cs.dropLast (cs.getLast?.getD [])
    rw [split_last cs hne, hbl] at this
    simpa using (Bool.or_eq_false_iff.1 this.symm).1
  obtain ⟨es', hpar⟩ := mkdirs_get [] cs.dropLast s.root res (by simp [hr, Node.get]) hbl' hnf
  simp only [List.nil_append] at hpar
  rw [h3]
  exact get_set_same cs _ _ es' hne hpar

theorem mem_makedirs (r : Bool) :
    Agree (adm1 s.root cs (.makedirs p r)) s (Mem.step s (.makedirs p r))
      (step1 s cs (.makedirs p r)) := by
  simp only [Mem.step, step1]
  cases hbl : blockedByFile s.root [] cs
  · cases hg : s.root.get cs with
    | none => left; rw [makedirs_new s p cs hc hv hd r hbl hg]; simp
    | some n =>
      cases n with
      | file b =>
        rw [makedirs_blocked s p cs hc hv hd r (Or.inr (isFileAt_of_file hg))]
        cases r
        · right
          exact ⟨.DirectoryExpected, .DirectoryExists, rfl, by simp [fail], by simp [adm1, kindAt, hg]⟩
        · left; simp
      | dir es => left; rw [makedirs_dir s p cs hc hv hd r es hg]; cases r <;> simp
  · left; rw [makedirs_blocked s p cs hc hv hd r (Or.inl hbl)]; simp

end

/-! ### merging into an empty directory -/

theorem put_fresh (k : Name) (v : Node) (ds : Ents) (h : Ents.lookup k ds = none) :
    Ents.put k v ds = ds ++ [(k, v)] := by
  induction ds with
  | nil => rfl
  | cons e ds ih =>
    obtain ⟨k', w⟩ := e
    by_cases hk : k' = k
    · simp [Ents.lookup, hk] at h
    · simp only [Ents.lookup, hk, if_false] at h
      simp [Ents.put, hk, ih h]

theorem lookup_append_fresh (k k' : Name) (v : Node) (ds : Ents) (hne : k ≠ k') :
    Ents.lookup k' (ds ++ [(k, v)]) = Ents.lookup k' ds := by
  induction ds with
  | nil => simp [Ents.lookup, hne]
  | cons e ds ih =>
    obtain ⟨k'', w⟩ := e
    by_cases hk : k'' = k' <;> simp [Ents.lookup, hk, ih]

mutual
theorem mergeNode_none : ∀ (v : Node), v.wf = true → mergeNode v none = some v
  | .file b, _ => by simp [mergeNode]
  | .dir es, hw => by
    simp only [Node.wf] at hw
    simp [mergeNode, mergeEnts_fresh es [] hw (fun _ _ => rfl)]
theorem mergeEnts_fresh : ∀ (es ds : Ents), entsWf es = true →
    (∀ k, (Ents.lookup k es).isSome = true → Ents.lookup k ds = none) →
    mergeEnts es ds = some (ds ++ es)
  | [], ds, _, _ => by simp [mergeEnts]
  | (k, v) :: es, ds, hw, hf => by
    simp only [entsWf, Bool.and_eq_true] at hw
    have hk : Ents.lookup k ds = none := hf k (by simp [Ents.lookup])
    simp only [mergeEnts, hk, mergeNode_none v hw.1.2, put_fresh k v ds hk]
    rw [mergeEnts_fresh es (ds ++ [(k, v)]) hw.2]
    · simp
    · intro k' hk'
      have hne : k ≠ k' := by
        rintro rfl
        have := hw.1.1.2
        simp_all
      rw [lookup_append_fresh k k' v ds hne]
      apply hf
      simp [Ents.lookup, hne, hk']
end

section
variable (s : State) (sp dp : Str) (a b : List Name) (hc : s.closed = false)
  (hva : validate sp = .ok a) (hvb : validate dp = .ok b)
  (hd : s.root.isDir = true) (hwf : s.root.wf = true)
include hc hva hvb hd hwf

theorem mem_copydir (c : Bool) :
    Mem.step s (.copydir sp dp c) = step2 s a b (.copydir sp dp c) := by
  simp only [Mem.step, Mem.copydir, vpath_open _ _ hc, hva, hvb, step2]
  by_cases hpre : isPrefix a b = true
  · simp [hpre]
  · simp only [hpre, if_false, Bool.false_eq_true]
    cases hgb : s.root.get b with
    | none =>
      cases c
      · simp
      · simp only [Bool.not_true, Bool.false_and, Bool.false_eq_true, if_false]
        cases hga : s.root.get a with
        | none => rfl
        | some n =>
          cases n with
          | file x => rfl
          | dir es =>
            simp only
            cases hbl : blockedByFile s.root [] b
            · have hes : entsWf es = true := by simpa [Node.wf] using get_wf _ _ _ hwf hga
              have hbne : b ≠ [] := by rintro rfl; simp [Node.get] at hgb
              rw [makedirs_new s dp b hc hvb hd true hbl hgb]
              simp [upd, mkdirs_new_get s dp b hc hvb hd hbl hgb,
                mergeEnts_fresh es [] hes (fun _ _ => rfl), setAt, hbne]
            · rw [makedirs_blocked s dp b hc hvb hd true (Or.inl hbl)]
              simp [fail]
    | some n =>
      cases n with
      | file x =>
        simp only [Option.isNone_some, Bool.and_false, Bool.false_eq_true, if_false]
        cases hga : s.root.get a with
        | none => rfl
        | some n =>
          cases n with
          | file y => rfl
          | dir es =>
            simp only
            rw [makedirs_blocked s dp b hc hvb hd true (Or.inr (isFileAt_of_file hgb))]
            simp [fail]
      | dir ds =>
        simp only [Option.isNone_some, Bool.and_false, Bool.false_eq_true, if_false]
        cases hga : s.root.get a with
        | none => rfl
        | some n =>
          cases n with
          | file y => rfl
          | dir es =>
            simp only
            rw [makedirs_dir s dp b hc hvb hd true ds hgb]
            simp only [if_true, done, hgb]
            cases mergeEnts es ds <;> rfl

end

/-! ### invalid paths -/

theorem mem_step_invalid1 (s : State) (op : Op) (p : Str) (e : Err) (hc : s.closed = false)
    (hp : op.paths = [p]) (hno : ∀ q m, op ≠ .openbin q m) (hv : validate p = .err e) :
    Mem.step s op = fail s e := by
  have he := QueryLemmas.validate_err_cases p e hv
  cases op <;> simp only [Op.paths, List.cons.injEq, and_true, reduceCtorEq, and_false] at hp
  all_goals first
    | exact absurd rfl (hno _ _)
    | (subst hp
       rcases he with rfl | rfl <;>
       simp [Mem.step, Mem.liftRes, Mem.exists_, Mem.isdir, Mem.isfile, Mem.listdir, Mem.isempty,
         Mem.getinfo, Mem.readbytes, Mem.openbin, mode_rb, mode_wb, mode_ab, Mem.makedir, Mem.makedirs,
         Mem.writebytes, Mem.appendbytes, Mem.create, Mem.touch, Mem.setinfo, Mem.remove, Mem.removedir,
         Mem.removetree, vpath_open _ _ hc, hv, hc, fail])

theorem mem_step_invalid_openbin (s : State) (p mode : Str) (m : Mode) (e : Err) (hc : s.closed = false)
    (hm : parseBinMode mode = some m) (hv : validate p = .err e) :
    Mem.step s (.openbin p mode) = fail s e := by
  simp [Mem.step, Mem.openbin, hm, vpath_open _ _ hc, hv, fail]

theorem mem_step_badmode (s : State) (p mode : Str) (hm : parseBinMode mode = none) :
    Mem.step s (.openbin p mode) = fail s .ValueError := by
  simp [Mem.step, Mem.openbin, hm, fail]

theorem mem_step_invalid2 (s : State) (op : Op) (p q : Str) (e : Err) (hc : s.closed = false)
    (hp : op.paths = [p, q])
    (hv : validate p = .err e ∨ ((∃ a, validate p = .ok a) ∧ validate q = .err e)) :
    Mem.step s op = fail s e := by
  cases op <;> simp only [Op.paths, List.cons.injEq, and_true, reduceCtorEq, and_false] at hp
  all_goals
    obtain ⟨rfl, rfl⟩ := hp
    rcases hv with hv | ⟨⟨a, ha⟩, hv⟩
    · simp [Mem.step, Mem.move, Mem.copy, Mem.movedir, Mem.copydir, vpath_open _ _ hc, hv, fail]
    · simp [Mem.step, Mem.move, Mem.copy, Mem.movedir, Mem.copydir, vpath_open _ _ hc, hv, ha, fail]

end Fs.MemLemmas
