import FsModel.Mem
import FsProofs.Lemmas.TreeLemmas
namespace Fs.MemLemmas
open Fs Fs.Ref
end Fs.MemLemmas
